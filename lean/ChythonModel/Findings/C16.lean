import ChythonModel.Model.C16Patcher
import ChythonModel.Spec.C16Deleted
import ChythonModel.Proofs.C16Deleted
import ChythonModel.Props.C16
/-!
# C16 — witnesses for the two repaired defects of `BaseReactor._get_deleted` (informational)

Both earlier versions of the algorithm are modelled here (with fuel, so the kernel can evaluate them) and shown to
violate the exactness statement that `Props.C16.get_deleted_exact` proves for the current code.

* `v0` = the code before /repo commit 8e2c051: one `global_seen` set shared by all depth-first branches. A node visited by a
  branch that reached the remaining part is skipped by later branches, which then run dry and delete a fragment that is
  still attached. Witness: C1–N2, N2–C3, N2–C4, C3–C4, C3–C1 (bonds inserted in that order), template
  `[C;D2:1][N;D3:2] → [C:1]`, match 1↦1, 2↦2: atom 4 is deleted although 4–3–1 connects it to the remaining atom 1.
* `v1` = the code of commit 8e2c051 (per-branch `seen` + `kept`), before commit 60afbdf: deleted neighbours were used as DFS
  starts, so a detached fragment explored *through* a deleted atom together with an attached one was marked kept.
  Witness: atoms N1 N2 O3 C4 C5, bonds 5–1 1–2 2–3 2–4 4–5, template `[C:3][N;D2:1][N;D3:2] → [C:3]`
  (match 3↦5, 1↦1, 2↦2): O3 must go (its only bond was to N2) but `v1` keeps it.
-/
namespace ChythonModel.Findings.C16
open ChythonModel.Model.C16 ChythonModel.Spec.C16 ChythonModel.Proofs.C16

abbrev G := List (Nat × List Nat)

/-! ## v0: shared `global_seen` -/

/-- inner loop of v0; returns (hit `break`?, seen, global_seen) -/
def dfs0 (g : G) (toDel remain : List Nat) : Nat → List Nat → List Nat → List Nat → Option (Bool × List Nat × List Nat)
  | 0, _, _, _ => none
  | _ + 1, seen, gs, [] => some (false, seen, gs)
  | f + 1, seen, gs, cur :: rest =>
    if remain.contains cur then some (true, seen, gs)
    else if toDel.contains cur then dfs0 g toDel remain f seen gs rest
    else match g.lookup cur with
      | none => none
      | some nb => dfs0 g toDel remain f (cur :: seen) (cur :: gs)
          ((nb.filter fun x => !(cur :: gs).contains x).reverse ++ rest)

def nbrs0 (g : G) (toDel remain : List Nat) (fuel : Nat) : List Nat → List Nat × List Nat → Option (List Nat × List Nat)
  | [], st => some st
  | n :: ns, (delete, gs) =>
    if gs.contains n || remain.contains n then nbrs0 g toDel remain fuel ns (delete, gs)
    else match g.lookup n with
      | none => none
      | some nb =>
        match dfs0 g toDel remain fuel [n] (n :: gs) ((nb.filter fun x => !(n :: gs).contains x).reverse) with
        | none => none
        | some (true, _, gs') => nbrs0 g toDel remain fuel ns (delete, gs')
        | some (false, seen, gs') => nbrs0 g toDel remain fuel ns (seen ++ delete, gs')

def outer0 (g : G) (toDel remain : List Nat) (fuel : Nat) : List Nat → List Nat × List Nat → Option (List Nat × List Nat)
  | [], st => some st
  | x :: xs, st => match g.lookup x with
    | none => none
    | some nb => match nbrs0 g toDel remain fuel nb st with
      | none => none
      | some st' => outer0 g toDel remain fuel xs st'

def getDeleted0 (g : G) (toDel remain : List Nat) : Option (List Nat) :=
  (outer0 g toDel remain 100 toDel ([], [])).map fun st => toDel ++ st.1

def w0 : G := [(1, [2, 3]), (2, [1, 3, 4]), (3, [2, 4, 1]), (4, [2, 3])]

/-- v0 deletes atom 4 … -/
theorem v0_deletes_atom4 : getDeleted0 w0 [2] [1] = some [2, 4] := by decide

/-- … which the specification forbids: 4–3–1 keeps it attached to the remaining matched atom 1 -/
theorem atom4_must_stay : ¬ DeletedSpec w0 [2] [1] 4 := by
  have e43 : Edge w0 4 3 := ⟨[2, 3], by decide, by decide⟩
  have e31 : Edge w0 3 1 := ⟨[2, 4, 1], by decide, by decide⟩
  have hsym : Symm w0 := symmB_sound (by decide)
  have r41 : Reach w0 [2] 4 1 :=
    Reach.step (Reach.step (Reach.refl (by decide)) e43 (by decide)) e31 (by decide)
  rintro (h | ⟨x, n, _, _, _, hnv, hna⟩)
  · simp at h
  · exact hna ⟨1, by simp, Reach.trans hnv r41⟩

/-- v0 is not exact -/
theorem v0_violates_exactness :
    ¬ (∀ res, getDeleted0 w0 [2] [1] = some res → ∀ v, v ∈ res ↔ DeletedSpec w0 [2] [1] v) := by
  intro h
  exact atom4_must_stay ((h _ v0_deletes_atom4 4).1 (by decide))

/-- the same molecule with another bond insertion order gives the right answer: v0 was order dependent -/
theorem v0_order_dependent :
    getDeleted0 [(1, [3, 2]), (3, [1, 2, 4]), (2, [3, 1, 4]), (4, [3, 2])] [2] [1] = some [2] := by decide

/-- the current algorithm on the witness (compare `Props.C16`): only atom 2 goes -/
theorem current_keeps_atom4 : getDeleted w0 [102] [(101, 1), (102, 2)] = .ok [2] := by
  simp [getDeleted, mapAll, outerLoop, visitNbrs, visitNbr, dfs, List.lookup, remainOf, w0]

/-! ## v1: per-branch `seen` + `kept`, but deleted neighbours used as DFS starts -/

def dfs1 (g : G) (toDel remain kept : List Nat) : Nat → List Nat → List Nat → Option (Bool × List Nat)
  | 0, _, _ => none
  | _ + 1, seen, [] => some (false, seen)
  | f + 1, seen, cur :: rest =>
    if remain.contains cur || kept.contains cur then some (true, seen)
    else if toDel.contains cur || seen.contains cur then dfs1 g toDel remain kept f seen rest
    else match g.lookup cur with
      | none => none
      | some nb => dfs1 g toDel remain kept f (cur :: seen) ((nb.filter fun x => !(cur :: seen).contains x).reverse ++ rest)

def nbrs1 (g : G) (toDel remain : List Nat) (fuel : Nat) : List Nat → DelState → Option DelState
  | [], st => some st
  | n :: ns, st =>
    if st.delete.contains n || st.kept.contains n || remain.contains n then nbrs1 g toDel remain fuel ns st
    else match g.lookup n with
      | none => none
      | some nb =>
        match dfs1 g toDel remain st.kept fuel [n] ((nb.filter fun x => ![n].contains x).reverse) with
        | none => none
        | some (true, seen) => nbrs1 g toDel remain fuel ns { st with kept := seen ++ st.kept }
        | some (false, seen) => nbrs1 g toDel remain fuel ns { st with delete := seen ++ st.delete }

def outer1 (g : G) (toDel remain : List Nat) (fuel : Nat) : List Nat → DelState → Option DelState
  | [], st => some st
  | x :: xs, st => match g.lookup x with
    | none => none
    | some nb => match nbrs1 g toDel remain fuel nb st with
      | none => none
      | some st' => outer1 g toDel remain fuel xs st'

def getDeleted1 (g : G) (toDel remain : List Nat) : Option (List Nat) :=
  (outer1 g toDel remain 100 toDel {}).map fun st => toDel ++ st.delete

def w1 : G := [(5, [1, 4]), (1, [5, 2]), (2, [1, 3, 4]), (3, [2]), (4, [2, 5])]

/-- v1 keeps O3 … -/
theorem v1_keeps_atom3 : getDeleted1 w1 [1, 2] [5] = some [1, 2] := by decide

theorem reach_from_3 : ∀ v, Reach w1 [1, 2] 3 v → v = 3 := by
  intro v h
  induction h with
  | refl _ => rfl
  | step _ he hc ih =>
    subst ih
    obtain ⟨nb, hnb, hcn⟩ := he
    have : nb = [2] := by
      have : w1.lookup 3 = some [2] := by decide
      rw [this] at hnb; cases hnb; rfl
    subst this
    simp at hcn
    subst hcn
    simp at hc

/-- … which the specification requires to be removed: its only bond was to the deleted N2 -/
theorem atom3_must_go : DeletedSpec w1 [1, 2] [5] 3 := by
  refine Or.inr ⟨2, 3, by simp, ⟨[1, 3, 4], by decide, by simp⟩, by simp, Reach.refl (by simp), ?_⟩
  rintro ⟨r, hr, h3r⟩
  have := reach_from_3 r h3r
  subst this
  simp at hr

theorem v1_violates_exactness :
    ¬ (∀ res, getDeleted1 w1 [1, 2] [5] = some res → ∀ v, v ∈ res ↔ DeletedSpec w1 [1, 2] [5] v) := by
  intro h
  have := (h _ v1_keeps_atom3 3).2 atom3_must_go
  simp at this

/-- the current algorithm removes O3 -/
theorem current_removes_atom3 : getDeleted w1 [101, 102] [(103, 5), (101, 1), (102, 2)] = .ok [1, 2, 3] := by
  simp [getDeleted, mapAll, outerLoop, visitNbrs, visitNbr, dfs, List.lookup, remainOf, w1]


/-! ## known finding: the matcher's automorphism filter makes the product depend on which match is enumerated first

`Transformer` / `Reactor` call the matcher with `automorphism_filter=True` by default; the filter keeps the first match
onto each *set* of atoms. Two matches with the same image are not interchangeable for a template whose replacement breaks a
symmetry of the pattern. At the level of this model: `patcher` applied to two matches with the same image gives different
products. Witness: methylcyclohexane (ring 1…6, methyl 7 on atom 1), pattern = six-ring with atoms 11 12 13 4 masked and
5, 6 named, replacement `[A:5]=[A:6]`; match `m1` puts the double bond on 5–6 (3-methylcyclohexene), the rotated match
`m2` on 6–1 (1-methylcyclohexene). -/

open ChythonModel.Model in
def mch : Mol :=
  ⟨[(1, {z := 6, implH := some 1}), (2, {z := 6, implH := some 2}), (3, {z := 6, implH := some 2}),
    (4, {z := 6, implH := some 2}), (5, {z := 6, implH := some 2}), (6, {z := 6, implH := some 2}),
    (7, {z := 6, implH := some 3})],
   [(1, [(2, {order := 1}), (6, {order := 1}), (7, {order := 1})]), (2, [(1, {order := 1}), (3, {order := 1})]),
    (3, [(2, {order := 1}), (4, {order := 1})]), (4, [(3, {order := 1}), (5, {order := 1})]),
    (5, [(4, {order := 1}), (6, {order := 1})]), (6, [(5, {order := 1}), (1, {order := 1})]), (7, [(1, {order := 1})])]⟩

def ringT : Template where
  pattern := [(11, true), (12, true), (13, true), (4, true), (5, false), (6, false)]
  replIsQuery := true
  replAtoms := [(5, {kind := .any}), (6, {kind := .any})]
  replBonds := [(5, [(6, [2])]), (6, [(5, [2])])]
  deleteAtoms := true

def m1 : List (Nat × Nat) := [(11, 1), (12, 2), (13, 3), (4, 4), (5, 5), (6, 6)]
def m2 : List (Nat × Nat) := [(11, 2), (12, 3), (13, 4), (4, 5), (5, 6), (6, 1)]

open ChythonModel.Props.C16 (SameImageSameProduct)

theorem same_image : ∀ v, v ∈ m1.map (·.2) ↔ v ∈ m2.map (·.2) := by
  intro v; simp [m1, m2]; omega

theorem products_differ :
    (match patcher mch ringT (toDeleteOf ringT) m1, patcher mch ringT (toDeleteOf ringT) m2 with
     | .ok pa, .ok pb => pa.mol.bond? 5 6 == some {order := 2} && pb.mol.bond? 5 6 == some {order := 1}
                         && pb.mol.bond? 6 1 == some {order := 2} && pa.mol.bond? 6 1 == some {order := 1}
     | _, _ => false) = true := by decide +kernel

theorem automorphism_filter_choice_matters : ¬ SameImageSameProduct := by
  intro h
  have hd := products_differ
  cases ha : patcher mch ringT (toDeleteOf ringT) m1 with
  | error e => simp [ha] at hd
  | ok pa =>
    cases hb : patcher mch ringT (toDeleteOf ringT) m2 with
    | error e => simp [ha, hb] at hd
    | ok pb =>
      simp only [ha, hb, Bool.and_eq_true, beq_iff_eq] at hd
      have := h mch ringT m1 m2 pa pb same_image ha hb 5 6
      rw [hd.1.1.1, hd.1.1.2] at this
      cases this

end ChythonModel.Findings.C16
