import ChythonModel.Gen.CacheEffects
/- FROZEN copy of the effect tables of /repo before the C13 fix: commits (generated once by gen_effects from that tree). -/
namespace ChythonModel.Findings.C13Old
open ChythonModel.Gen.CacheEffects

def cachedKeys : List String := ["_MoleculeStereo__chiral_centers", "__cached_args_method_adjacency_matrix", "__cached_method___hash__", "__cached_method___str__", "__cached_method__repr_svg_", "_chiral_morgan", "_cis_trans_count", "_compiled_query", "_cython_compiled_structure", "_stereo_allenes_centers", "_stereo_allenes_terminals", "_stereo_cis_trans_centers", "_stereo_cis_trans_counterpart", "_stereo_cis_trans_terminals", "_sugar_groups", "_wedge_map", "aromatic_rings", "atoms_order", "atoms_rings", "atoms_rings_sizes", "bonds_count", "brutto", "connected_components", "cumulenes", "int_adjacency", "is_radical", "molecular_charge", "molecular_mass", "not_special_connectivity", "ring_attached_cumulenes", "ring_cumulenes_terminals", "ring_tetrahedrons", "rings_count", "rings_graph", "rings_linker_cumulenes_terminals", "rings_linker_tetrahedrons", "skin_graph", "smiles_atoms_order", "sssr", "stereogenic_allenes", "stereogenic_cis_trans", "stereogenic_cumulenes", "stereogenic_tetrahedrons", "tetrahedrons"]

/-- per cached key: cached keys read or stored while computing it (direct, through plain helpers) -/
def keyReads : List (String × List String) := [
  ("_MoleculeStereo__chiral_centers", ["_chiral_morgan", "_stereo_allenes_centers", "_stereo_cis_trans_centers", "_stereo_cis_trans_terminals", "atoms_rings", "ring_attached_cumulenes", "ring_cumulenes_terminals", "ring_tetrahedrons", "rings_linker_cumulenes_terminals", "rings_linker_tetrahedrons", "stereogenic_cis_trans", "stereogenic_cumulenes", "stereogenic_tetrahedrons"]),
  ("__cached_args_method_adjacency_matrix", []),
  ("__cached_method___hash__", ["__cached_method___str__"]),
  ("__cached_method___str__", ["_chiral_morgan", "_stereo_allenes_terminals", "_stereo_cis_trans_centers", "_stereo_cis_trans_counterpart", "_stereo_cis_trans_terminals", "atoms_order", "is_radical", "not_special_connectivity", "smiles_atoms_order", "stereogenic_allenes", "stereogenic_cis_trans", "stereogenic_tetrahedrons"]),
  ("__cached_method__repr_svg_", ["_stereo_allenes_terminals", "_stereo_cis_trans_centers", "_stereo_cis_trans_counterpart", "_stereo_cis_trans_terminals", "_wedge_map", "aromatic_rings", "connected_components", "not_special_connectivity", "stereogenic_allenes", "stereogenic_cis_trans", "stereogenic_tetrahedrons"]),
  ("_chiral_morgan", ["_stereo_cis_trans_centers", "_stereo_cis_trans_terminals", "atoms_order", "int_adjacency", "stereogenic_allenes", "stereogenic_cis_trans", "stereogenic_tetrahedrons", "tetrahedrons"]),
  ("_cis_trans_count", []),
  ("_compiled_query", []),
  ("_cython_compiled_structure", ["bonds_count"]),
  ("_stereo_allenes_centers", ["_stereo_allenes_terminals"]),
  ("_stereo_allenes_terminals", ["stereogenic_cumulenes"]),
  ("_stereo_cis_trans_centers", ["stereogenic_cumulenes"]),
  ("_stereo_cis_trans_counterpart", ["stereogenic_cumulenes"]),
  ("_stereo_cis_trans_terminals", ["stereogenic_cumulenes"]),
  ("_sugar_groups", []),
  ("_wedge_map", ["_stereo_allenes_terminals", "stereogenic_allenes", "stereogenic_tetrahedrons"]),
  ("aromatic_rings", ["sssr"]),
  ("atoms_order", ["int_adjacency"]),
  ("atoms_rings", ["sssr"]),
  ("atoms_rings_sizes", ["atoms_rings"]),
  ("bonds_count", []),
  ("brutto", []),
  ("connected_components", []),
  ("cumulenes", []),
  ("int_adjacency", []),
  ("is_radical", []),
  ("molecular_charge", []),
  ("molecular_mass", []),
  ("not_special_connectivity", []),
  ("ring_attached_cumulenes", ["atoms_rings", "stereogenic_cumulenes"]),
  ("ring_cumulenes_terminals", ["atoms_rings", "stereogenic_cumulenes"]),
  ("ring_tetrahedrons", ["atoms_rings", "not_special_connectivity", "rings_linker_tetrahedrons", "stereogenic_tetrahedrons"]),
  ("rings_count", ["not_special_connectivity"]),
  ("rings_graph", ["skin_graph"]),
  ("rings_linker_cumulenes_terminals", ["atoms_rings", "ring_cumulenes_terminals", "stereogenic_cumulenes"]),
  ("rings_linker_tetrahedrons", ["atoms_rings", "stereogenic_tetrahedrons"]),
  ("skin_graph", []),
  ("smiles_atoms_order", ["__cached_method___str__", "_chiral_morgan", "_stereo_allenes_terminals", "_stereo_cis_trans_centers", "_stereo_cis_trans_counterpart", "_stereo_cis_trans_terminals", "atoms_order", "is_radical", "not_special_connectivity", "stereogenic_allenes", "stereogenic_cis_trans", "stereogenic_tetrahedrons"]),
  ("sssr", ["not_special_connectivity", "rings_count"]),
  ("stereogenic_allenes", ["stereogenic_cumulenes"]),
  ("stereogenic_cis_trans", ["stereogenic_cumulenes"]),
  ("stereogenic_cumulenes", ["cumulenes"]),
  ("stereogenic_tetrahedrons", ["tetrahedrons"]),
  ("tetrahedrons", [])
]

/-- per cached key: raw `self._slot` names read while computing it -/
def keyRaw : List (String × List String) := [
  ("_MoleculeStereo__chiral_centers", ["_atoms", "_bonds"]),
  ("__cached_args_method_adjacency_matrix", ["_atoms", "_bonds"]),
  ("__cached_method___hash__", []),
  ("__cached_method___str__", ["_atoms", "_bonds"]),
  ("__cached_method__repr_svg_", ["_atoms", "_bonds"]),
  ("_chiral_morgan", ["_atoms", "_bonds"]),
  ("_cis_trans_count", ["_bonds"]),
  ("_compiled_query", ["_atoms", "_bonds"]),
  ("_cython_compiled_structure", ["_atoms", "_bonds"]),
  ("_stereo_allenes_centers", []),
  ("_stereo_allenes_terminals", []),
  ("_stereo_cis_trans_centers", []),
  ("_stereo_cis_trans_counterpart", []),
  ("_stereo_cis_trans_terminals", []),
  ("_sugar_groups", []),
  ("_wedge_map", ["_atoms"]),
  ("aromatic_rings", ["_bonds"]),
  ("atoms_order", ["_atoms"]),
  ("atoms_rings", []),
  ("atoms_rings_sizes", []),
  ("bonds_count", ["_bonds"]),
  ("brutto", ["_atoms"]),
  ("connected_components", ["_bonds"]),
  ("cumulenes", ["_atoms", "_bonds"]),
  ("int_adjacency", ["_bonds"]),
  ("is_radical", ["_atoms"]),
  ("molecular_charge", ["_atoms"]),
  ("molecular_mass", ["_atoms"]),
  ("not_special_connectivity", ["_bonds"]),
  ("ring_attached_cumulenes", []),
  ("ring_cumulenes_terminals", []),
  ("ring_tetrahedrons", []),
  ("rings_count", []),
  ("rings_graph", []),
  ("rings_linker_cumulenes_terminals", []),
  ("rings_linker_tetrahedrons", []),
  ("skin_graph", ["_bonds"]),
  ("smiles_atoms_order", ["_atoms", "_bonds"]),
  ("sssr", []),
  ("stereogenic_allenes", []),
  ("stereogenic_cis_trans", []),
  ("stereogenic_cumulenes", ["_atoms", "_bonds"]),
  ("stereogenic_tetrahedrons", ["_atoms", "_bonds"]),
  ("tetrahedrons", ["_atoms", "_bonds"])
]

def fns : List Fn := [
  ⟨"Graph.add_atom", [], [
      ⟨[], Ev.edit⟩,
      ⟨[], Ev.flush (Flag.no) (Flag.no)⟩]⟩,
  ⟨"Graph.add_bond", [], [
      ⟨[], Ev.edit⟩,
      ⟨[], Ev.flush (Flag.no) (Flag.no)⟩]⟩,
  ⟨"Graph.remap", [], [
      ⟨[], Ev.edit⟩,
      ⟨[], Ev.flush (Flag.no) (Flag.no)⟩]⟩,
  ⟨"Graph.union", [("copy", true), ("remap", false)], [
      ⟨[], Ev.edit⟩,
      ⟨[Guard.ifParam "copy" true], Ev.flush (Flag.no) (Flag.no)⟩]⟩,
  ⟨"Graph.flush_cache", [], [
      ⟨[], Ev.flushAll⟩]⟩,
  ⟨"MoleculeContainer.add_atom", [("_skip_calculation", false)], [
      ⟨[], Ev.call "Graph.add_atom" []⟩,
      ⟨[], Ev.changedAdd⟩,
      ⟨[Guard.ifCalc], Ev.call "MoleculeContainer.fix_structure" []⟩]⟩,
  ⟨"MoleculeContainer.add_bond", [("_skip_calculation", false)], [
      ⟨[], Ev.call "Graph.add_bond" []⟩,
      ⟨[Guard.notSpecial], Ev.changedAdd⟩,
      ⟨[Guard.notSpecial, Guard.ifCalc], Ev.call "MoleculeContainer.fix_structure" []⟩,
      ⟨[Guard.notSpecial, Guard.ifCalc], Ev.call "MoleculeStereo.fix_stereo" []⟩]⟩,
  ⟨"MoleculeContainer.delete_atom", [("_skip_calculation", false)], [
      ⟨[], Ev.edit⟩,
      ⟨[Guard.inLoop], Ev.edit⟩,
      ⟨[Guard.inLoop, Guard.notSpecial], Ev.changedAdd⟩,
      ⟨[Guard.ifCalc], Ev.call "MoleculeContainer.fix_structure" []⟩,
      ⟨[Guard.ifCalc], Ev.call "MoleculeStereo.fix_stereo" []⟩]⟩,
  ⟨"MoleculeContainer.delete_bond", [("_skip_calculation", false)], [
      ⟨[], Ev.edit⟩,
      ⟨[Guard.notSpecial], Ev.changedAdd⟩,
      ⟨[Guard.ifCalc], Ev.call "MoleculeContainer.fix_structure" []⟩,
      ⟨[Guard.ifCalc], Ev.call "MoleculeStereo.fix_stereo" []⟩]⟩,
  ⟨"MoleculeContainer.union", [("copy", true), ("remap", false)], [
      ⟨[], Ev.call "Graph.union" [("remap", Flag.param "remap"), ("copy", Flag.param "copy")]⟩]⟩,
  ⟨"MoleculeContainer.fix_structure", [("recalculate_hydrogens", true)], [
      ⟨[], Ev.call "MoleculeContainer.calc_labels" []⟩,
      ⟨[Guard.ifParam "recalculate_hydrogens" false], Ev.hcalc⟩,
      ⟨[], Ev.changedNone⟩]⟩,
  ⟨"MoleculeContainer.calc_labels", [], [
      ⟨[], Ev.readC "atoms_rings_sizes"⟩,
      ⟨[], Ev.readC "atoms_rings"⟩,
      ⟨[], Ev.labelsWrite⟩]⟩,
  ⟨"MoleculeContainer.__enter__", [], [
      ⟨[], Ev.backupCopy (Flag.yes) (Flag.yes)⟩]⟩,
  ⟨"MoleculeContainer.__exit__#exc", [], [
      ⟨[], Ev.backupRead⟩,
      ⟨[], Ev.restore ["_atoms", "_bonds", "_meta", "_name", "__dict__"]⟩,
      ⟨[], Ev.backupNone⟩]⟩,
  ⟨"MoleculeContainer.__exit__#ok", [], [
      ⟨[], Ev.call "MoleculeContainer.fix_structure" []⟩,
      ⟨[], Ev.call "MoleculeStereo.fix_stereo" []⟩,
      ⟨[], Ev.backupNone⟩]⟩,
  ⟨"MoleculeStereo.clean_stereo", [], [
      ⟨[], Ev.stereoWrite⟩,
      ⟨[], Ev.flush (Flag.yes) (Flag.yes)⟩]⟩,
  ⟨"MoleculeStereo.flush_stereo_cache", [], [
      ⟨[], Ev.pop "_chiral_morgan"⟩,
      ⟨[], Ev.pop "_MoleculeStereo__chiral_centers"⟩]⟩,
  ⟨"MoleculeStereo.fix_stereo", [], [
      ⟨[], Ev.readC "stereogenic_tetrahedrons"⟩,
      ⟨[], Ev.readC "stereogenic_allenes"⟩,
      ⟨[], Ev.readC "_stereo_cis_trans_terminals"⟩,
      ⟨[], Ev.stereoWrite⟩,
      ⟨[], Ev.call "MoleculeStereo.flush_stereo_cache" []⟩,
      ⟨[Guard.inLoop], Ev.readC "_MoleculeStereo__chiral_centers"⟩,
      ⟨[Guard.inLoop], Ev.readC "_MoleculeStereo__chiral_centers"⟩,
      ⟨[Guard.inLoop], Ev.readC "_MoleculeStereo__chiral_centers"⟩,
      ⟨[Guard.cond], Ev.stereoWrite⟩,
      ⟨[Guard.inLoop], Ev.call "MoleculeStereo.flush_stereo_cache" []⟩]⟩
]

def flushKeepSssr : List String := ["sssr", "atoms_rings", "atoms_rings_sizes", "not_special_connectivity", "rings_count"]
def flushKeepComponents : List String := ["connected_components"]
def copyKeepSssr : List String := ["sssr", "atoms_rings", "atoms_rings_sizes", "not_special_connectivity", "rings_count"]
def copyKeepComponents : List String := ["connected_components"]
def initSlots : List String := ["_atoms", "_bonds", "_meta", "_name", "_changed", "_backup"]
def copySlots : List String := ["_atoms", "_bonds", "_name", "_meta"]
def subSlots : List String := ["_name", "_meta", "_changed", "_atoms", "_bonds"]
def subCalls : List String := ["fix_structure", "fix_stereo"]
def elementCopySlots : List String := ["_isotope", "_charge", "_is_radical", "_xy", "_implicit_hydrogens", "_stereo", "_explicit_hydrogens", "_neighbors", "_heteroatoms", "_hybridization", "_ring_sizes", "_in_ring"]
def copyAtomsDeep : Bool := true
def copyBondsDeep : Bool := true
def subAtomsDeep : Bool := true
def subBondsDeep : Bool := true
def copyMetaCopied : Bool := true
def elementCopySharesXY : Bool := true

/-- every other `flush_cache(...)` call site of the package: (file, Class.method, keep_sssr, keep_components) -/
def bulkSites : List (String × String × Flag × Flag) := [
  ("chython/algorithms/aromatics/kekule.py", "Kekule.kekule", Flag.yes, Flag.yes),
  ("chython/algorithms/aromatics/kekule.py", "Kekule.__fix_rings", Flag.param "keep", Flag.param "keep"),
  ("chython/algorithms/aromatics/thiele.py", "Thiele.thiele", Flag.yes, Flag.yes),
  ("chython/algorithms/aromatics/thiele.py", "Thiele.thiele", Flag.yes, Flag.yes),
  ("chython/algorithms/aromatics/thiele.py", "Thiele.thiele", Flag.yes, Flag.yes),
  ("chython/algorithms/mapping/attention.py", "Attention.reset_mapping", Flag.no, Flag.no),
  ("chython/algorithms/mapping/attention.py", "Attention.__fix_collisions", Flag.no, Flag.no),
  ("chython/algorithms/mapping/fixmapper.py", "FixMapper.fix_mapping", Flag.no, Flag.no),
  ("chython/algorithms/mapping/groups.py", "GroupsFix.fix_groups_mapping", Flag.no, Flag.no),
  ("chython/algorithms/standardize/molecule.py", "Standardize.canonicalize", Flag.no, Flag.no),
  ("chython/algorithms/standardize/molecule.py", "Standardize.standardize_charges", Flag.yes, Flag.yes),
  ("chython/algorithms/standardize/molecule.py", "Standardize.remove_coordinate_bonds", Flag.yes, Flag.no),
  ("chython/algorithms/standardize/molecule.py", "Standardize.implicify_hydrogens", Flag.yes, Flag.no),
  ("chython/algorithms/standardize/molecule.py", "Standardize.explicify_hydrogens", Flag.yes, Flag.no),
  ("chython/algorithms/standardize/molecule.py", "Standardize.clean_isotopes", Flag.yes, Flag.yes),
  ("chython/algorithms/standardize/molecule.py", "Standardize.__standardize", Flag.param "keep_sssr", Flag.param "keep_components"),
  ("chython/algorithms/standardize/resonance.py", "Resonance.fix_resonance", Flag.yes, Flag.yes),
  ("chython/algorithms/standardize/salts.py", "Salts.remove_metals", Flag.yes, Flag.no),
  ("chython/algorithms/standardize/salts.py", "Salts.remove_acids", Flag.no, Flag.no),
  ("chython/algorithms/standardize/salts.py", "Salts.split_metal_salts", Flag.no, Flag.no),
  ("chython/algorithms/standardize/saturation.py", "Saturation.saturate", Flag.no, Flag.no),
  ("chython/algorithms/stereo.py", "MoleculeStereo.add_wedge", Flag.yes, Flag.yes),
  ("chython/algorithms/stereo.py", "MoleculeStereo.add_wedge", Flag.yes, Flag.yes),
  ("chython/algorithms/stereo.py", "MoleculeStereo.calculate_cis_trans_from_2d", Flag.yes, Flag.yes),
  ("chython/algorithms/stereo.py", "MoleculeStereo.add_atom_stereo", Flag.yes, Flag.yes),
  ("chython/algorithms/stereo.py", "MoleculeStereo.add_atom_stereo", Flag.yes, Flag.yes),
  ("chython/algorithms/stereo.py", "MoleculeStereo.add_cis_trans_stereo", Flag.yes, Flag.yes),
  ("chython/algorithms/stereo.py", "MoleculeStereo.add_cis_trans_stereo", Flag.yes, Flag.yes),
  ("chython/algorithms/tautomers/acid_base.py", "AcidBase.neutralize", Flag.yes, Flag.yes)
]

end ChythonModel.Findings.C13Old
