import ChythonModel.Props.C20
/-!
# C20 — witnesses of known findings (informational; failing to build is never an alarm)

`C20/A/hydrogens/rdkit-adds-implicit-H`: `to_rdkit_molecule` writes the hydrogen count as *explicit* hydrogens and leaves
RDKit free to add implicit ones; for an atom below RDKit's default valence (elemental sulfur `[S]`: RDKit adds 2) the count
read back by `from_rdkit_molecule` is larger.  RDKit's valence model is not part of the Lean model: the witness takes the
two implicit hydrogens RDKit really adds for `[S]` (observed by the probe) as the value of `k`.
-/
namespace ChythonModel.Findings.C20
open ChythonModel.Model ChythonModel.Model.C20 ChythonModel.Props.C20

theorem hydrogens_roundtrip_full_false : ¬ hydrogens_roundtrip_full := by
  intro h
  have := h false 1 { z := 16, implH := some 0 } 0 2 _ _ _ rfl rfl rfl
  revert this
  decide

end ChythonModel.Findings.C20
