import ChythonModel.Model.Stereo
/-!
# C12 — witnesses for the findings (informational; failing to build is never an alarm)

All findings of C12 were repaired in /repo (`fix:` commits, see known_findings/C12.json); the model follows the
repaired code, so the *full* statements in `Props/C12.lean` hold.  This file keeps the pre-fix rules next to concrete
witnesses showing that the full statements were false for them — it documents what each fix changed.

The fifth finding (`__ct_map`: labelled conjugated double bonds in a ring got unchecked marks) was repaired by the C02
engineer in /repo 891fb3c; that code is not in the Lean model, so it has no Lean witness here, only the run-time
regression probe.
-/
namespace ChythonModel.Findings.C12
open ChythonModel.Model.Stereo

/-- reader rule before 8b29359: only token 0 of the string inverts -/
def readerInvertsOld (i implH : Nat) : Bool := i == 0 && implH != 0

/-- the writer inverts for the first atom of *every* component; the old reader did not for token `i ≠ 0` -/
theorem old_first_atom_rule_inconsistent :
    ¬ (∀ i implH, readerInvertsOld i implH = writerInverts implH true) := by
  intro h
  have := h 1 1
  simp [readerInvertsOld, writerInverts] at this

/-- ring rule before c15352c looked at every ring through the first-walked terminal: a double bond in a 10-ring with a
cyclopropane fused at one sp2 atom is "small" from that atom (`[10, 3]`) and "large" from the other (`[10]`) -/
theorem old_ring_rule_depends_on_walk_direction :
    cisTransStereogenic true true [10, 3] ≠ cisTransStereogenic true true [10] := by decide

/-- wedge writer before 7df698c ignored an explicit hydrogen (`explicitH := none`) while the reader uses it:
centre (0,0), F north (0,2), Cl (2,-1), Br (-2,-1), H south (0,-2), label `True`:
the wedge drawn on the north neighbour is `-1`, and `add_wedge` reads `-1` back as `False` -/
theorem old_wedge_explicitH_mirror :
    wedgeSign [(1, (0, 2)), (2, (2, -1)), (3, (-2, -1))] (0, 0) none [1, 2, 3] (fun _ => false) (some true) = .ok (-1) ∧
    addWedgeHeavy [(1, (0, 2)), (2, (2, -1)), (3, (-2, -1))] (0, 0) (some (0, -2)) 1 (-1) = .ok (some false) :=
  ⟨rfl, rfl⟩

/-- with the repaired rule the same drawing gives wedge `+1`, read back as `True` -/
theorem new_wedge_explicitH_consistent :
    wedgeSign [(1, (0, 2)), (2, (2, -1)), (3, (-2, -1))] (0, 0) (some (0, -2)) [1, 2, 3] (fun _ => false) (some true) = .ok 1 ∧
    addWedgeHeavy [(1, (0, 2)), (2, (2, -1)), (3, (-2, -1))] (0, 0) (some (0, -2)) 1 1 = .ok (some true) :=
  ⟨rfl, rfl⟩

end ChythonModel.Findings.C12
