import ChythonModel.Proofs.C10Rxn
import ChythonModel.Props.C10
/-!
Witnesses for the C10 findings that were repaired in /repo (`status: fixed` in known_findings/C10.json).
Informational: the models here are of the code BEFORE the fix.

* reaction roles: `molecules[:r]`, `molecules[r:-p]`, `molecules[-p:]` (`splitRolesLegacy`) — with `p = 0`,
  `-0` is `0`, so the products slice is the whole list and the reagents slice is empty.
-/
namespace ChythonModel.Findings.C10
open ChythonModel.Model.Pack ChythonModel.Proofs.C10

/-- full statement for the legacy slicing: every molecule returns to its own role -/
def LegacyRolesCorrect : Prop :=
  ∀ (r g p : List Nat), splitRolesLegacy (r ++ g ++ p) r.length p.length = ⟨r, g, p⟩

/-- `CC=O>O>` (one reactant, one reagent, no product): the legacy slices give products = both molecules -/
theorem legacy_roles_false : ¬ LegacyRolesCorrect := by
  intro h
  have := h [3] [1] []
  revert this
  decide

theorem legacy_witness : splitRolesLegacy [3, 1] 1 0 = ⟨[3], [], [3, 1]⟩ := by decide

/-- the legacy slicing is correct exactly when the products side is non-empty -/
theorem legacy_roles_partial (r g p : List Nat) (hp : p ≠ []) :
    splitRolesLegacy (r ++ g ++ p) r.length p.length = ⟨r, g, p⟩ := by
  have hpl : 0 < p.length := List.length_pos_iff.mpr hp
  simp only [splitRolesLegacy, pySlice_to]
  have hn : (-(p.length : Int)) < 0 := by omega
  simp only [pySlice, if_neg (show ¬ ((r.length : Int) < 0) by omega), if_pos hn]
  have e1 : (max (-(p.length : Int) + ((r ++ g ++ p).length : Int)) 0).toNat = r.length + g.length := by
    simp only [List.length_append]; omega
  have e2 : (min (r.length : Int) ((r ++ g ++ p).length : Int)).toNat = r.length := by
    simp only [List.length_append]; omega
  rw [e1, e2]
  have h1 : (r ++ g ++ p).take r.length = r := by rw [List.append_assoc]; exact List.take_left' rfl
  have h2 : ((r ++ g ++ p).take (r.length + g.length)).drop r.length = g := by
    rw [List.take_left' (by simp)]; exact List.drop_left' rfl
  have h3 : ((r ++ g ++ p).take (r ++ g ++ p).length).drop (r.length + g.length) = p := by
    rw [List.take_length]; exact List.drop_left' (by simp)
  rw [h1, h2, h3]

/-! ## known finding `C10/roundtrip/bond-stereo/shared-atom` (status: known)

`P(C)(=CC)=CC` with the phosphorus first and a mark on the bond P1=C3: both double bonds are perceived as stereogenic, the
dictionary entry of the shared atom 1 is overwritten by the later unit (5, 1), `pack` writes the terminals (5, 1) for the
marked bond and `unpack` puts the mark on P1=C5. -/

open ChythonModel.Props.C10 in
def exYlide : List PAtom :=
  [{ num := 1, z := 15, iso := none, stereo := none, x := 0, y := 0, h := some 0, charge := 0, radical := false,
     nbrs := [⟨2, 1, none⟩, ⟨3, 2, some true⟩, ⟨5, 2, none⟩] },
   { num := 2, z := 6, iso := none, stereo := none, x := 0, y := 0, h := some 3, charge := 0, radical := false, nbrs := [⟨1, 1, none⟩] },
   { num := 3, z := 6, iso := none, stereo := none, x := 0, y := 0, h := some 1, charge := 0, radical := false,
     nbrs := [⟨1, 2, some true⟩, ⟨4, 1, none⟩] },
   { num := 4, z := 6, iso := none, stereo := none, x := 0, y := 0, h := some 3, charge := 0, radical := false, nbrs := [⟨3, 1, none⟩] },
   { num := 5, z := 6, iso := none, stereo := none, x := 0, y := 0, h := some 1, charge := 0, radical := false,
     nbrs := [⟨1, 2, none⟩, ⟨6, 1, none⟩] },
   { num := 6, z := 6, iso := none, stereo := none, x := 0, y := 0, h := some 3, charge := 0, radical := false, nbrs := [⟨5, 1, none⟩] }]

/-- all hypotheses of the full statement hold and the round trip does not return the molecule -/
def counterb (atoms : List PAtom) : Bool :=
  match perceive atoms with
  | .ok p => wfb ⟨atoms, p.terminals⟩ && marksOKb atoms (p.stereogenic.map (·.1)) &&
      (match packFull atoms with
        | .ok b => (match unpackFull b with | .ok d => d.atoms != atoms | .error _ => true)
        | .error _ => true)
  | .error _ => false

theorem ylide_counter : counterb exYlide = true ∧
    (match perceive exYlide with | .ok p => keysDisjointb (p.stereogenic.map (·.1)) | .error _ => true) = false := by
  decide +kernel

theorem stereo_roundtrip_full_false : ¬ ChythonModel.Props.C10.StereoRoundTripFull := by
  intro h
  have hc := ylide_counter.1
  unfold counterb at hc
  cases hp : perceive exYlide with
  | error e => simp [hp] at hc
  | ok p =>
    simp only [hp, Bool.and_eq_true] at hc
    obtain ⟨⟨hw, hm⟩, hrest⟩ := hc
    obtain ⟨bytes, e1, e2⟩ := h exYlide p hp (wfb_sound _ hw) (marksOKb_sound _ _ hm) []
    simp only [e1, List.append_nil] at hrest e2
    cases hu : unpackFull bytes with
    | error e => simp [hu, Except.map] at e2
    | ok d =>
      simp only [hu, Except.map, Except.ok.injEq] at e2 hrest
      simp [e2] at hrest

/-! ## the perception next to a hypervalent centre is not the chemistry's (informational; not a defect of the pack format)

`CC=S(=O)(C)C`: `cumulenes` walks from C2 into the sulfur, which has four neighbours, and reports the piece `C2=S3` as a double bond
of its own; `_stereo_cis_trans_terminals[2] = (2, 3)`, but `2=3` is not a maximal chain in the sense of `Spec/Cumulene.lean` (the
sulfur has a second double bond, to O4). Hence the full statement `TerminalsAreMaximalChainEnds` fails and the theorem is stated with
the `BrokenPiece` alternative / under `NoHyperDouble`. -/

def exSulfox : List PAtom :=
  [{ num := 1, z := 6, iso := none, stereo := none, x := 0, y := 0, h := some 3, charge := 0, radical := false, nbrs := [⟨2, 1, none⟩] },
   { num := 2, z := 6, iso := none, stereo := none, x := 0, y := 0, h := some 1, charge := 0, radical := false,
     nbrs := [⟨1, 1, none⟩, ⟨3, 2, none⟩] },
   { num := 3, z := 16, iso := none, stereo := none, x := 0, y := 0, h := some 0, charge := 0, radical := false,
     nbrs := [⟨2, 2, none⟩, ⟨4, 2, none⟩, ⟨5, 1, none⟩, ⟨6, 1, none⟩] },
   { num := 4, z := 8, iso := none, stereo := none, x := 0, y := 0, h := some 0, charge := 0, radical := false, nbrs := [⟨3, 2, none⟩] },
   { num := 5, z := 6, iso := none, stereo := none, x := 0, y := 0, h := some 3, charge := 0, radical := false, nbrs := [⟨3, 1, none⟩] },
   { num := 6, z := 6, iso := none, stereo := none, x := 0, y := 0, h := some 3, charge := 0, radical := false, nbrs := [⟨3, 1, none⟩] }]

theorem sulfox_perceived : perceive exSulfox = .ok ⟨[[2, 3], [4, 3]], [([2, 3], 1, 4, none, none)],
    [(2, 2, 3), (3, 2, 3)], [(2, 2, 3), (3, 2, 3)], []⟩ := by rfl

open ChythonModel.Spec.Cumulene in
theorem terminals_full_false : ¬ ChythonModel.Props.C10.TerminalsAreMaximalChainEnds := by
  intro h
  have hg : GraphOK exSulfox := (wfb_sound ⟨exSulfox, []⟩ (by decide +kernel)).graph
  obtain ⟨path, hmem, hmax, _, hh, hl, _⟩ := h exSulfox hg _ sulfox_perceived 2 2 3 (by rfl)
  simp only [List.mem_cons, List.not_mem_nil, or_false] at hmem
  rcases hmem with rfl | rfl
  · -- path = [2, 3]: the sulfur end has another double bond
    have hdb : DoubleBond can exSulfox 3 4 := by
      refine ⟨_, by simp [exSulfox]; exact Or.inr (Or.inr (Or.inl rfl)), _,
        by simp [exSulfox]; exact Or.inr (Or.inr (Or.inr (Or.inl rfl))), rfl, rfl, by decide, by decide,
        ⟨4, 2, none⟩, by simp, rfl, rfl⟩
    have := hmax.last [] 2 3 rfl 4 hdb
    omega
  · simp at hh

end ChythonModel.Findings.C10
