import ChythonModel.Proofs.C10Rxn
/-!
Witnesses for the C10 findings that were repaired in /repo (`status: fixed` in known_findings/C10.json).
Informational: the models here are of the code BEFORE the fix.

* reaction roles: `molecules[:r]`, `molecules[r:-p]`, `molecules[-p:]` (`splitRolesLegacy`) — with `p = 0`,
  `-0` is `0`, so the products slice is the whole list and the reagents slice is empty.
-/
namespace ChythonModel.Findings.C10
open ChythonModel.Model.Pack ChythonModel.Proofs.C10

/-- full statement for the legacy slicing: every molecule returns to its own role -/
def LegacyRolesCorrect : Prop :=
  ∀ (r g p : List Nat), splitRolesLegacy (r ++ g ++ p) r.length p.length = ⟨r, g, p⟩

/-- `CC=O>O>` (one reactant, one reagent, no product): the legacy slices give products = both molecules -/
theorem legacy_roles_false : ¬ LegacyRolesCorrect := by
  intro h
  have := h [3] [1] []
  revert this
  decide

theorem legacy_witness : splitRolesLegacy [3, 1] 1 0 = ⟨[3], [], [3, 1]⟩ := by decide

/-- the legacy slicing is correct exactly when the products side is non-empty -/
theorem legacy_roles_partial (r g p : List Nat) (hp : p ≠ []) :
    splitRolesLegacy (r ++ g ++ p) r.length p.length = ⟨r, g, p⟩ := by
  have hpl : 0 < p.length := List.length_pos_iff.mpr hp
  simp only [splitRolesLegacy, pySlice_to]
  have hn : (-(p.length : Int)) < 0 := by omega
  simp only [pySlice, if_neg (show ¬ ((r.length : Int) < 0) by omega), if_pos hn]
  have e1 : (max (-(p.length : Int) + ((r ++ g ++ p).length : Int)) 0).toNat = r.length + g.length := by
    simp only [List.length_append]; omega
  have e2 : (min (r.length : Int) ((r ++ g ++ p).length : Int)).toNat = r.length := by
    simp only [List.length_append]; omega
  rw [e1, e2]
  have h1 : (r ++ g ++ p).take r.length = r := by rw [List.append_assoc]; exact List.take_left' rfl
  have h2 : ((r ++ g ++ p).take (r.length + g.length)).drop r.length = g := by
    rw [List.take_left' (by simp)]; exact List.drop_left' rfl
  have h3 : ((r ++ g ++ p).take (r ++ g ++ p).length).drop (r.length + g.length) = p := by
    rw [List.take_length]; exact List.drop_left' (by simp)
  rw [h1, h2, h3]

end ChythonModel.Findings.C10
