import ChythonModel.Props.C07
/-!
# C07 — witness for the known finding `C07/stereo/automorphism-filter-before-stereo-test` (informational)

`QueryIsomorphism.get_mapping(automorphism_filter=True)` applies the `seen` filter of the underlying search BEFORE the stereo
test.  Query `[A][C@]([A])([A])[A]` (a marked centre with four "any" neighbours) on `F[C@@](Cl)(Br)I`: 24 embeddings share ONE
image set, 12 of them pass the stereo test; the representative the search yields first (`{1: 5, 2: 2, 3: 4, 4: 3, 5: 1}`) fails,
the `seen` filter has already discarded the other 23, and the call returns nothing — although `automorphism_filter=False`
returns 12 mappings.  The property ("with the automorphism filter exactly one mapping per distinct set of image atoms remains")
asks for one.  The model reproduces the real outcome (0 mappings / 12 mappings; on the mirror image 1 / 12).
-/
namespace ChythonModel.Findings.C07
open ChythonModel.Model.Iso ChythonModel.Model.Stereo ChythonModel.Props.C07 ChythonModel.Proofs.C07

def compsStar : List (List Step) := [[⟨1, none⟩, ⟨2, some 1⟩, ⟨3, some 2⟩, ⟨4, some 2⟩, ⟨5, some 2⟩]]
def clStar : Closures := [(2, []), (3, []), (4, []), (5, [])]

theorem compile_star : compileQuery qStar = some (compsStar, clStar) := by decide

/-- what the real code returns: 12 without the filter, nothing with it; on the mirror image 12 and 1 -/
theorem star_counts :
    (queryGetMapping (pStar false) qmStar (tlStar false)).map (·.map List.length) = some (.ok 12) ∧
    queryGetMapping (pStar true) qmStar (tlStar false) = some (.ok []) ∧
    (queryGetMapping (pStar false) qmStar (tlStar true)).map (·.map List.length) = some (.ok 12) ∧
    (queryGetMapping (pStar true) qmStar (tlStar true)).map (·.map List.length) = some (.ok 1) := by
  refine ⟨by decide, by decide, by decide, by decide⟩

/-- the full statement fails on the star -/
theorem stereo_filtered_full_fails : ¬ StereoFilteredFull (pStar true) qmStar (tlStar false) := by
  intro h
  have hr0 : isoUnfiltered (pStar true) compsStar clStar = some ((isoUnfiltered (pStar true) compsStar clStar).getD []) := by
    decide
  have hq : queryGetMapping (pStar true) qmStar (tlStar false) = some (.ok []) := by decide
  have hm : [(1, 3), (2, 2), (3, 1), (4, 4), (5, 5)] ∈ (isoUnfiltered (pStar true) compsStar clStar).getD [] := by decide
  have hk : keepMapping qStar qmStar (tlStar false) [(1, 3), (2, 2), (3, 1), (4, 4), (5, 5)] = .ok true := by decide
  obtain ⟨m', hm', _⟩ := h compsStar clStar _ [] compile_star hr0 hq _ hm hk
  cases hm'

end ChythonModel.Findings.C07
