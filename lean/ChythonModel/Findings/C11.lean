import ChythonModel.Props.C11
/-!
# C11 — witnesses for known findings (informational; if the code is repaired these stop being provable)
and for the defects already repaired (the *old* model functions are kept next to the current ones).
-/
namespace ChythonModel.Findings.C11
open ChythonModel.Model.C11 ChythonModel.Proofs.C11 ChythonModel.Props.C11

/-- known finding `C11/damage/SDFRead/empty-record-ends-iteration`: an empty record stops the iteration, the record
    after it is lost — the unrestricted damage-isolation statement is false -/
theorem damage_isolated_full_false : ¬ DamageIsolatedFull := by
  intro h
  have := h [[sL "a\n"]] [[sL "b\n"]] []
    (by intro b hb
        simp only [List.cons_append, List.nil_append, List.mem_cons, List.not_mem_nil, or_false] at hb
        rcases hb with h | h <;> subst h <;> exact ⟨by decide, by decide, by decide⟩)
    (by intro l hl; cases hl)
  revert this
  decide

/-- the same for RDF: two consecutive `$MFMT` lines end the iteration (`rdfIterate` yields 1 of 2 remaining records) -/
theorem rdf_empty_record_ends_iteration :
    (rdfIterate (fun b => (pure b : R RBlock)) 10000 10 0
      (splitLinesKeep (sL "$MFMT\na\n$MFMT\n$MFMT\nb\n"))).1.length = 1 := by decide +kernel

/-- repaired (fix e53cd93): with `lstrip("$DATUM")` the continuation line `AT5 MUD` lost `AT`; with the prefix removal it survives -/
theorem rdf_datum_lstrip_was_wrong :
    rdfReadMetaWith datumStripOld (splitLinesKeep (sL "$DTYPE k\n$DATUM first\nAT5 MUD\n")) = [(sL "k", sL "first\n5 MUD")] ∧
    rdfReadMeta (splitLinesKeep (sL "$DTYPE k\n$DATUM first\nAT5 MUD\n")) = [(sL "k", sL "first\nAT5 MUD")] := by
  decide +kernel

/-- repaired (fix a10377d): a data line *containing* `$$$$` made the old index disagree with the block starts -/
theorem sdf_index_infix_was_wrong :
    indexStartsOld (renderBlocks [[sL "x$$$$\n"], [sL "b\n"]]) ≠ blockStarts 0 [[sL "x$$$$\n"], [sL "b\n"]] ∧
    indexStarts (renderBlocks [[sL "x$$$$\n"], [sL "b\n"]]) = blockStarts 0 [[sL "x$$$$\n"], [sL "b\n"]] := by
  decide +kernel

/-- repaired (fix 0a094e6): seeking to the `$MFMT` line itself made `reader[1]` raise `EOFError` -/
theorem rdf_index_was_wrong :
    rdfGetItemWith rdfIndexStartsOld (fun b => (pure b.buf : R (List Str))) 10000
      (splitLinesKeep (sL "$MFMT\na\n$MFMT\nb\n")) 1 = .error .eof ∧
    rdfGetItem (fun b => (pure b.buf : R (List Str))) 10000
      (splitLinesKeep (sL "$MFMT\na\n$MFMT\nb\n")) 1 = .ok [sL "b\n"] := by
  decide +kernel

/-- known finding `C11/meta/SDF/value-line-looks-like-key`: a value line of the form `>  <z>` starts a new key -/
theorem sdf_value_line_like_key :
    readMeta (splitLinesKeep ((writeMetaChunk (sL "k", sL "x\n>  <z>\ny")))) = [(sL "k", sL "x"), (sL "z", sL "y")] := by
  decide +kernel

/-- known finding `C11/meta/SDF/key-contains-escape-literal`: `a&gt;b` is read back as `a>b` -/
theorem sdf_key_escape_literal :
    readMeta (splitLinesKeep ((writeMetaChunk (sL "a&gt;b", sL "v")))) = [(sL "a>b", sL "v")] := by decide +kernel

/-- known finding `C11/meta/SDF/value-line-starts-with-$$$$`: the block ends inside the value -/
theorem sdf_value_line_dollars :
    (readBlock 10000 (splitLinesKeep (sL "M  END\n" ++ writeMetaChunk (sL "k", sL "line1\n$$$$\nline3") ++ sL "$$$$\n"))).map
      (fun p => readMeta (p.1.buf.drop 1)) = .ok [(sL "k", sL "line1")] := by decide +kernel

/-- known finding `C11/meta/RDF/value-line-starts-with-$DATUM` (residual after the fix) and `…-$DTYPE` -/
theorem rdf_value_line_markers :
    rdfReadMeta (splitLinesKeep (rdfMetaChunk (sL "k", sL "a\n$DATUM b"))) = [(sL "k", sL "a\nb")] ∧
    rdfReadMeta (splitLinesKeep (rdfMetaChunk (sL "k", sL "a\n$DTYPE z\nb"))) = [(sL "k", sL "a"), (sL "z", sL "b")] := by
  decide +kernel

/-- known finding `C11/meta/SDF/key-contains-escape-literal`: the unrestricted escape round trip is false -/
theorem key_escape_full_false : ¬ KeyEscapeFull := by
  intro h
  have := h (sL "a&gt;b")
  revert this
  decide +kernel

/-- known finding `C11/title/SDF/title-starts-with-M-END` -/
theorem title_full_false : ¬ TitleFull := by
  intro h
  have := h (sL "M  END of story") (by decide)
  revert this
  decide +kernel

/-- known finding `C11/options/RDFRead/mol-record/remap` (and `…/ignore`): the `$MFMT` branch of `RDFRead.read_structure`
    calls `postprocess_parsed_molecule(tmp)` without the reader's `remap` / `ignore` -/
theorem options_reach_full_false : ¬ ChythonModel.Props.C11.OptionsReachFull := by
  unfold ChythonModel.Props.C11.OptionsReachFull
  decide +kernel

end ChythonModel.Findings.C11
