import ChythonModel.Props.C18
/-!
Witnesses that the *full* statements of C18 are false on the current tables (known findings).
Informational: if the data is repaired these theorems stop being provable; that is not an alarm.
-/
namespace ChythonModel.Findings.C18
open ChythonModel.Gen ChythonModel.Props.C18 ChythonModel.Model.C18

theorem mdl_in_distribution_full_false : ¬ MdlInDistribution := by
  unfold MdlInDistribution; decide +kernel

/-- the witness: bromine's reference isotope 80 is not tabulated (79, 81 are). -/
theorem witness_Br : ∃ r ∈ periodicTable, r.sym = "Br" ∧ (keys r.dist).contains r.mdl = false := by
  decide +kernel

end ChythonModel.Findings.C18
