import ChythonModel.Model.QueryEq
/-!
# C08 — known finding: the accelerated matcher keeps a compiled snapshot of the query atoms

`QueryIsomorphism._cython_compiled_query` is a `cached_property` of the container; the query atoms do not know their container, so a
setter call on an atom after the first accelerated match does not drop it. Minimal model of that history: the container remembers the
atom as it was when it was first compiled and the accelerated comparison uses the remembered one. (Informational: this file is not
part of the audited obligations; the behaviour itself is observed by the `history` stream of the harness on the real code.)
-/
namespace ChythonModel.Findings.C08
open ChythonModel.Model.Query

structure UsedQuery where
  live : QAtom
  compiled : Option QAtom := none

/-- a match in the accelerated mode: compile on first use, then compare with the compiled snapshot -/
def useAccel (u : UsedQuery) (a : MAtom) : Bool × UsedQuery :=
  let c := u.compiled.getD u.live
  (pyEq c a, { u with compiled := some c })

/-- a public setter on the atom -/
def edit (u : UsedQuery) (f : QAtom → QAtom) : UsedQuery := { u with live := f u.live }

/-- full statement: whatever the history, a match answers for the atom as it is now -/
def HistoryCoherent : Prop :=
  ∀ (u : UsedQuery) (f : QAtom → QAtom) (a b : MAtom), u.compiled = none →
    (useAccel (edit (useAccel u a).2 f) b).1 = pyEq (f u.live) b

/-- it fails: `[C]` used once, then `neighbors = 2`, still matches a carbon with one neighbour -/
theorem history_coherent_false : ¬ HistoryCoherent := by
  intro h
  have := h { live := { kind := .element 6 none } } (fun q => { q with neighbors := [2] }) { z := 6 } { z := 6, neighbors := 1 } rfl
  revert this
  decide

/-- what does hold: without an edit between the uses (or with an edit before the first use) the answer is the live one -/
theorem history_coherent_partial (u : UsedQuery) (a b : MAtom) (h : u.compiled = none) :
    (useAccel (useAccel u a).2 b).1 = pyEq u.live b ∧ (useAccel u b).1 = pyEq u.live b := by
  simp [useAccel, h]

end ChythonModel.Findings.C08
