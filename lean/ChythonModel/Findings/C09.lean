import ChythonModel.Props.C09
/-!
# C09 — witnesses of the known findings (informational: if the layout is ever widened these stop being provable)

Each witness is a (query atom, molecule atom) pair that the query API / a molecule can produce, on which the accelerated
first-atom test (`rootOk` on the encoded words) accepts while the reference comparison `pyEq` rejects.
`maskEqPyEq_full_false` assembles them into the negation of the full-strength statement `Props.C09.MaskEqPyEqFull`.
-/
namespace ChythonModel.Findings.C09
open ChythonModel.Model.Bits ChythonModel.Gen.Bits ChythonModel.Model.Query ChythonModel.Proofs.C09 ChythonModel.Props.C09 ChythonModel.Model

def maskTest (qmdl mdl : Nat) (q : QAtom) (a : MAtom) : Bool :=
  rootOk ⟨(qWords qmdl q none).v1, (qWords qmdl q none).v2, (qWords qmdl q none).v3, (qWords qmdl q none).v4, 0, 0, 0, 0, 0⟩
         ⟨(atomWords mdl a).v1, (atomWords mdl a).v2, (atomWords mdl a).v3, (atomWords mdl a).v4, 0, 0, 0⟩

/-- `[Lv]` on a Ts atom -/
def qLv : QAtom := { kind := .element 116 none }
def aTs : MAtom := { z := 117, implH := some 0 }
theorem heavy_witness : mdlOf 117 = some 297 ∧ maskTest 0 297 qLv aTs = true ∧ pyEq qLv aTs = false := by decide +kernel

/-- `[C;h0]` on a carbon whose hydrogen count is unknown (valence error) -/
def qCh0 : QAtom := { kind := .element 6 none, implH := [0] }
def aCnoH : MAtom := { z := 6, neighbors := 5, implH := none }
theorem hnone_witness : mdlOf 6 = some 12 ∧ maskTest 0 12 qCh0 aCnoH = true ∧ pyEq qCh0 aCnoH = false := by decide +kernel

/-- `[C;h0,h5]` on `[C-4]`: the h5 bit is the charge −4 bit -/
def qCh05 : QAtom := { kind := .element 6 none, implH := [0, 5] }
def aCm4 : MAtom := { z := 6, charge := -4, implH := some 0 }
theorem h5_witness : maskTest 0 12 qCh05 aCm4 = true ∧ pyEq qCh05 aCm4 = false := by decide +kernel

/-- `[C;r66]` on an acyclic carbon: ring size 66 is folded onto the not-in-ring bit -/
def qCr66 : QAtom := { kind := .element 6 none, ringSizes := [66] }
def aC : MAtom := { z := 6, implH := some 4 }
theorem ring66_witness : maskTest 0 12 qCr66 aC = true ∧ pyEq qCr66 aC = false := by decide +kernel

/-- the full-strength statement is false of the current code -/
theorem maskEqPyEq_full_false : ¬ MaskEqPyEqFull := by
  intro h
  have hq : QApi qLv := by constructor <;> simp [qLv]
  have ha : AApi 297 aTs := by constructor <;> simp [aTs, isoTruthy]
  have := h qLv aTs 297 0 heavy_witness.1 rfl hq ha
  have w := heavy_witness
  unfold maskTest at w
  rw [this] at w
  exact absurd w.2.1 (by rw [w.2.2]; decide)

/-! ## regression witnesses for the matcher's arrays

A hub with six leaves (the skeleton of SF6) searched with a hub carrying five leaves (`FS(F)(F)(F)F`), every mask accepting every
atom: 7 roots wait, then 1 + 5 + 4 + 4 + … candidates are pushed while earlier batches still wait. -/

def starAtom (f t : Nat) : CAtom := ⟨1, 1, 1, 1, f, t, 0⟩
/-- atom 0 is the hub (bond row 0…6), atoms 1…6 the leaves (one bond each, to the hub) -/
def star6 : CMol :=
  { atoms := [starAtom 0 6, starAtom 6 7, starAtom 7 8, starAtom 8 9, starAtom 9 10, starAtom 10 11, starAtom 11 12],
    bonds := [⟨1, 1⟩, ⟨1, 2⟩, ⟨1, 3⟩, ⟨1, 4⟩, ⟨1, 5⟩, ⟨1, 6⟩, ⟨1, 0⟩, ⟨1, 0⟩, ⟨1, 0⟩, ⟨1, 0⟩, ⟨1, 0⟩, ⟨1, 0⟩] }
def qStep (back : Nat) : CQAtom := ⟨1, 1, 1, 1, back, 0, 0, 0, 0⟩
/-- leaf, hub (parent: step 0), four more leaves (parent: step 1) -/
def starQuery : CQuery := { atoms := [qStep 0, qStep 0, qStep 1, qStep 1, qStep 1, qStep 1], bonds := [] }
def allScope : List Bool := List.replicate 7 true

/-- **the stack of `2 * molecule.atoms_count` entries (before repo commit e44243a) is overrun**: the guarded matcher with the old sizes
    stops with an out-of-bounds write to `stack_index` (16 entries wait, 14 fit) — the heap overflow the `pyx2py` rendering reported
    for `FS(F)(F)(F)F` on SF6. So `AllocOK` is false of the old sizes, and `allocation_sizes_suffice` is what the fix established. -/
theorem old_stack_size_overflows :
    getMappingA (allocOld 6 7) star6 starQuery allScope = .error (.oob .stackIndex 15 14) := by decide +kernel

theorem old_sizes_not_ok : ¬ AllocOK (allocOld 6 7) 6 7 := by
  intro h
  have := h.stackIndex
  simp [allocOld, allocOf] at this

/-- with the sizes the code allocates now the same search runs through: 6·5·4·3·2 embeddings per choice of the first leaf -/
theorem new_stack_size_suffices_on_witness :
    (match getMappingA (allocOf 6 7) star6 starQuery allScope with
     | .ok (r, st) => (r.length, decide (st.maxStack ≤ 42), decide (14 < st.maxStack))
     | .error _ => (0, false, false)) = (720, true, true) := by decide +kernel

/-- **a stale scratch entry changes a verdict**: a candidate with one recorded neighbour (atom 2) and a query closure onto the
    image `path[0] = 3`; on a clean array the comparison loop reads `closures[3] = 0` and rejects, with a left-over entry at slot 3 it
    accepts — the cleanliness that `scratch_array_is_clean` proves is what the verdicts depend on -/
def hygM : CMol := { atoms := [⟨1, 1, 1, 1, 0, 2, 0⟩, ⟨1, 1, 1, 1, 0, 0, 0⟩, ⟨1, 1, 1, 1, 0, 0, 0⟩, ⟨1, 1, 1, 1, 0, 0, 0⟩],
                     bonds := [⟨5, 1⟩, ⟨5, 2⟩] }
def hygQ : CQuery := { atoms := [], bonds := [⟨7, 0⟩] }
def hygQA : CQAtom := ⟨1, 1, 1, 1, 0, 1, 0, 1, 0⟩
theorem stale_entry_changes_verdict :
    (closureCS hygM hygQ hygQA ⟨1, 1, 1, 1, 0, 2, 0⟩ 1 [false, true, true, true] [3, 1] [0, 0, 0, 0]).map (·.1) = some false ∧
    (closureCS hygM hygQ hygQA ⟨1, 1, 1, 1, 0, 2, 0⟩ 1 [false, true, true, true] [3, 1] [0, 0, 0, 5]).map (·.1) = some true := by
  decide

end ChythonModel.Findings.C09
