import ChythonModel.Props.C09
/-!
# C09 — witnesses of the known findings (informational: if the layout is ever widened these stop being provable)

Each witness is a (query atom, molecule atom) pair that the query API / a molecule can produce, on which the accelerated
first-atom test (`rootOk` on the encoded words) accepts while the reference comparison `pyEq` rejects.
`maskEqPyEq_full_false` assembles them into the negation of the full-strength statement `Props.C09.MaskEqPyEqFull`.
-/
namespace ChythonModel.Findings.C09
open ChythonModel.Model.Bits ChythonModel.Gen.Bits ChythonModel.Model.Query ChythonModel.Proofs.C09 ChythonModel.Props.C09

def maskTest (qmdl mdl : Nat) (q : QAtom) (a : MAtom) : Bool :=
  rootOk ⟨(qWords qmdl q none).v1, (qWords qmdl q none).v2, (qWords qmdl q none).v3, (qWords qmdl q none).v4, 0, 0, 0, 0, 0⟩
         ⟨(atomWords mdl a).v1, (atomWords mdl a).v2, (atomWords mdl a).v3, (atomWords mdl a).v4, 0, 0, 0⟩

/-- `[Lv]` on a Ts atom -/
def qLv : QAtom := { kind := .element 116 none }
def aTs : MAtom := { z := 117, implH := some 0 }
theorem heavy_witness : mdlOf 117 = some 297 ∧ maskTest 0 297 qLv aTs = true ∧ pyEq qLv aTs = false := by decide +kernel

/-- `[C;h0]` on a carbon whose hydrogen count is unknown (valence error) -/
def qCh0 : QAtom := { kind := .element 6 none, implH := [0] }
def aCnoH : MAtom := { z := 6, neighbors := 5, implH := none }
theorem hnone_witness : mdlOf 6 = some 12 ∧ maskTest 0 12 qCh0 aCnoH = true ∧ pyEq qCh0 aCnoH = false := by decide +kernel

/-- `[C;h0,h5]` on `[C-4]`: the h5 bit is the charge −4 bit -/
def qCh05 : QAtom := { kind := .element 6 none, implH := [0, 5] }
def aCm4 : MAtom := { z := 6, charge := -4, implH := some 0 }
theorem h5_witness : maskTest 0 12 qCh05 aCm4 = true ∧ pyEq qCh05 aCm4 = false := by decide +kernel

/-- `[C;r66]` on an acyclic carbon: ring size 66 is folded onto the not-in-ring bit -/
def qCr66 : QAtom := { kind := .element 6 none, ringSizes := [66] }
def aC : MAtom := { z := 6, implH := some 4 }
theorem ring66_witness : maskTest 0 12 qCr66 aC = true ∧ pyEq qCr66 aC = false := by decide +kernel

/-- the full-strength statement is false of the current code -/
theorem maskEqPyEq_full_false : ¬ MaskEqPyEqFull := by
  intro h
  have hq : QApi qLv := by constructor <;> simp [qLv]
  have ha : AApi 297 aTs := by constructor <;> simp [aTs, isoTruthy]
  have := h qLv aTs 297 0 heavy_witness.1 rfl hq ha
  have w := heavy_witness
  unfold maskTest at w
  rw [this] at w
  exact absurd w.2.1 (by rw [w.2.2]; decide)

end ChythonModel.Findings.C09
