import ChythonModel.Props.C02
/-!
# C02 — witnesses of full statements that are false for the model as it mirrors the code (informational)

`WriterTokenRoundtripFull` fails on a chlorine atom with an aromatic bond: `_format_atom` lower-cases the symbol of every
atom whose hybridization label is 4, and an uncharged non-isotopic halogen gets no brackets, so the text is `clc`, which
the lexer (like the real tokenizer) cannot split into `Cl` + `c`.
-/
namespace ChythonModel.Findings.C02
open ChythonModel.Model ChythonModel.Model.SmilesWriter ChythonModel.Model.C02RT ChythonModel.Props.C02

def clc : Mol := ⟨[(1, { z := 17 }), (2, { z := 6, implH := some 3 })],
  [(1, [(2, { order := 4 })]), (2, [(1, { order := 4 })])]⟩
def clcEnv : Env := { weights := [(1, 1), (2, 2)], setOrders := [[1, 2]], front := [], draws := [] }

/-- executable form of the claim on the witness: `true` iff the writer succeeds and its text lexes back to its tokens -/
def lexesBack : Bool :=
  match smilesRounds clc clcEnv {} with
  | .ok p => decide (lex (renderAll (joinRounds p.1)) = some ((joinRounds p.1).filterMap toL))
  | .error _ => false

def writes : Bool := match smilesRounds clc clcEnv {} with | .ok _ => true | .error _ => false

theorem writer_token_roundtrip_full_false : ¬ WriterTokenRoundtripFull := by
  intro h
  have hw : writes = true := by decide +kernel
  have hl : lexesBack = false := by decide +kernel
  unfold writes at hw
  unfold lexesBack at hl
  cases hr : smilesRounds clc clcEnv {} with
  | error e => rw [hr] at hw; cases hw
  | ok p =>
    rw [hr] at hl
    have := h clc clcEnv {} p.1 p.2 hr
    simp [this] at hl

/-- known finding `C02/closure-heap-exhausted`: 100 cycles open at once exhaust `heap = list(range(1, 100))` -/
theorem allocator_total_full_false : ¬ AllocatorTotalFull := by
  intro h
  have hwf : cyclesWF [] [] ((List.range 100).map fun i => [i]) = true := by decide +kernel
  have hp : ChythonModel.Proofs.C02.peakOk 99 [] ((List.range 100).map fun i => [i]) = false := by decide +kernel
  obtain ⟨c, hh, hok⟩ := h _ hwf
  rw [(heap_exhaustion_exact _ hwf).2 hp] at hok
  cases hok

/-! ### known finding `C02/ring-diene-cis-trans`: two stereoisomers, one canonical string

`C/C1=C/C=C/CCCCCC1` and `C/C1=C\C=C\CCCCCC1` (1-methylcyclodeca-1,3-diene, 1E/1Z) differ only in the label of the bond 2=3.
In the canonical traversal that bond is the ring-closure bond and atom 3 is reached from the other double bond first:
`__ct_map` marks the substituents of atom 2 with the "left entry" default and takes the mark of 3–4 from the diene 4=5, so
the label of 2=3 is never consulted.  Both molecules (same weights, same tables) are written `C/C=1/CCCCCC/C=C/C=1`. -/

def dieneInts (s23 : Int) : List Int :=
  [11, 1, 6, 0, 0, 0, 3, -1, 1, 2, 1, -1, 2, 6, 0, 0, 0, 0, -1, 3, 1, 1, -1, 3, 2, s23, 11, 1, -1,
   3, 6, 0, 0, 0, 1, -1, 2, 2, 2, s23, 4, 1, -1, 4, 6, 0, 0, 0, 1, -1, 2, 3, 1, -1, 5, 2, 0, 5, 6, 0, 0, 0, 1, -1, 2, 4, 2, 0, 6, 1, -1,
   6, 6, 0, 0, 0, 2, -1, 2, 5, 1, -1, 7, 1, -1, 7, 6, 0, 0, 0, 2, -1, 2, 6, 1, -1, 8, 1, -1, 8, 6, 0, 0, 0, 2, -1, 2, 7, 1, -1, 9, 1, -1,
   9, 6, 0, 0, 0, 2, -1, 2, 8, 1, -1, 10, 1, -1, 10, 6, 0, 0, 0, 2, -1, 2, 9, 1, -1, 11, 1, -1, 11, 6, 0, 0, 0, 2, -1, 2, 10, 1, -1, 2, 1, -1]

def dieneMol (s23 : Int) : Mol := match Mol.parse (dieneInts s23) with | some (m, _) => m | none => Mol.empty

def dieneEnv : Env :=
  { weights := [(1, 1), (2, 10), (3, 5), (4, 6), (5, 2), (6, 9), (7, 3), (8, 7), (9, 8), (10, 11), (11, 4)],
    setOrders := [[1, 2, 3, 4, 5, 6, 7, 8, 9, 10, 11]],
    front := [((2, 1), [11, 3]), ((2, 3), [11, 1]), ((2, 11), [1, 3])], draws := [], tetra := [],
    cumul := [([2, 3], { n0 := 1, n1 := 4, n2 := some 11, n3 := none }), ([4, 5], { n0 := 3, n1 := 6, n2 := none, n3 := none })] }

def textOf (m : Mol) : Option Str := match write m dieneEnv {} with | .ok (t, _) => some t | .error _ => none

/-- the two stereoisomers are different molecules with the same written text (canonical style) -/
theorem ring_diene_collision :
    dieneMol 0 ≠ dieneMol 1 ∧ textOf (dieneMol 0) = textOf (dieneMol 1) ∧ (textOf (dieneMol 0)).isSome = true := by
  decide +kernel

end ChythonModel.Findings.C02
