import ChythonModel.Props.C02
/-!
# C02 — witnesses of full statements that are false for the model as it mirrors the code (informational)

`WriterTokenRoundtripFull` fails on a chlorine atom with an aromatic bond: `_format_atom` lower-cases the symbol of every
atom whose hybridization label is 4, and an uncharged non-isotopic halogen gets no brackets, so the text is `clc`, which
the lexer (like the real tokenizer) cannot split into `Cl` + `c`.
-/
namespace ChythonModel.Findings.C02
open ChythonModel.Model ChythonModel.Model.SmilesWriter ChythonModel.Model.C02RT ChythonModel.Props.C02

def clc : Mol := ⟨[(1, { z := 17 }), (2, { z := 6, implH := some 3 })],
  [(1, [(2, { order := 4 })]), (2, [(1, { order := 4 })])]⟩
def clcEnv : Env := { weights := [(1, 1), (2, 2)], setOrders := [[1, 2]], front := [], draws := [] }

/-- executable form of the claim on the witness: `true` iff the writer succeeds and its text lexes back to its tokens -/
def lexesBack : Bool :=
  match smilesRounds clc clcEnv {} with
  | .ok p => decide (lex (renderAll (joinRounds p.1)) = some ((joinRounds p.1).filterMap toL))
  | .error _ => false

def writes : Bool := match smilesRounds clc clcEnv {} with | .ok _ => true | .error _ => false

theorem writer_token_roundtrip_full_false : ¬ WriterTokenRoundtripFull := by
  intro h
  have hw : writes = true := by decide +kernel
  have hl : lexesBack = false := by decide +kernel
  unfold writes at hw
  unfold lexesBack at hl
  cases hr : smilesRounds clc clcEnv {} with
  | error e => rw [hr] at hw; cases hw
  | ok p =>
    rw [hr] at hl
    have := h clc clcEnv {} p.1 p.2 hr
    simp [this] at hl

/-- known finding `C02/closure-heap-exhausted`: 100 cycles open at once exhaust `heap = list(range(1, 100))` -/
theorem allocator_total_full_false : ¬ AllocatorTotalFull := by
  intro h
  have hwf : cyclesWF [] [] ((List.range 100).map fun i => [i]) = true := by decide +kernel
  have hp : ChythonModel.Proofs.C02.peakOk 99 [] ((List.range 100).map fun i => [i]) = false := by decide +kernel
  obtain ⟨c, hh, hok⟩ := h _ hwf
  rw [(heap_exhaustion_exact _ hwf).2 hp] at hok
  cases hok

end ChythonModel.Findings.C02
