/-!
# Line protocol helpers (core only)

A request line is `<op> <int> <int> …`; a response is one line. Molecules travel as flat int lists
(`Model/Graph.lean`). Everything here is total and allocation-simple so drivers run fast as executables.
-/
namespace ChythonModel.Py

/-- Parse a decimal integer token (`-12`, `7`); `none` on anything else — never defaulted. -/
def parseInt? (s : String) : Option Int :=
  if s.isEmpty then none
  else if s.front == '-' then (s.drop 1).toNat?.map (fun n => -(n : Int))
  else s.toNat?.map (fun n => (n : Int))

def words (line : String) : List String :=
  (line.splitOn " ").filter (· ≠ "") |>.map (fun w => w.trimAscii.toString) |>.filter (· ≠ "")

/-- all tokens after the op as ints; `none` if any token is not an int -/
def parseInts? (ws : List String) : Option (List Int) := ws.mapM parseInt?

def showInts (xs : List Int) : String := " ".intercalate (xs.map toString)
def showNats (xs : List Nat) : String := " ".intercalate (xs.map toString)

def optNat (i : Int) : Option Nat := if i < 0 then none else some i.toNat
def tri (i : Int) : Option Bool := if i < 0 then none else some (i != 0)
def showTri : Option Bool → String
  | none => "-1" | some false => "0" | some true => "1"
def showOptNat : Option Nat → String
  | none => "-1" | some n => toString n

/-- read-eval-print loop over stdin: one response line per request line -/
partial def lineLoop (h : IO.FS.Stream) (out : IO.FS.Stream) (f : String → String) : IO Unit := do
  let line ← h.getLine
  if line.isEmpty then return ()
  let l := if line.endsWith "\n" then (line.dropEnd 1).toString else line
  out.putStrLn (f l)
  lineLoop h out f

def runDriver (f : String → String) : IO Unit := do
  let i ← IO.getStdin
  let o ← IO.getStdout
  lineLoop i o f
  o.flush

end ChythonModel.Py
