import ChythonModel.Py.IntSet
/-!
# Programs over several sets: the register machine the C19 driver executes

Every op of the driver language that changes a register goes through `ROp.run` (observing ops — `has`, `iter`, `state`,
`remove`'s KeyError — read a register and leave the registers alone).  The aliasing cases are CPython's:
`a.update(a)` does nothing, `a -= a` clears, `a & a` / `a | a` copy.
-/
namespace ChythonModel.Py.IntSet

abbrev Regs := List (Nat × IntSet)

def Regs.get (rs : Regs) (r : Nat) : Option IntSet := (rs.find? (fun p => p.1 == r)).map (·.2)
def Regs.put (rs : Regs) (r : Nat) (s : IntSet) : Regs := (r, s) :: rs.filter (fun p => p.1 != r)

inductive ROp where
  | new (r : Nat)
  | step (r : Nat) (op : SetOp)
  | updateSet (r q : Nat)
  | copy (r q : Nat)
  | diffUpdateSet (r q : Nat)
  | inter (d a b : Nat)
  | interTL (d a : Nat) (ks : List Int)
  | interLT (d b : Nat) (ks : List Int)
  | interIt (d a : Nat) (ks : List Int)
  | diff (d a b : Nat)
  | diffTL (d a : Nat) (ks : List Int)
  | diffIt (d a : Nat) (ks : List Int)
  | union (d a b : Nat)

/-- the register an op writes -/
def ROp.target : ROp → Nat
  | .new r | .step r _ | .updateSet r _ | .copy r _ | .diffUpdateSet r _ => r
  | .inter d _ _ | .interTL d _ _ | .interLT d _ _ | .interIt d _ _ => d
  | .diff d _ _ | .diffTL d _ _ | .diffIt d _ _ | .union d _ _ => d

/-- the new value of the target register and what the op lets the caller see -/
def ROp.eval (rs : Regs) : ROp → Option (IntSet × Obs)
  | .new _ => some (empty, .none)
  | .step r op => (rs.get r).bind fun s => s.stepOp op
  | .updateSet r q =>
    (rs.get r).bind fun s => (rs.get q).bind fun o =>
      if r = q then some (s, .none) else (s.merge o).map (·, .none)
  | .copy _ q => (rs.get q).bind fun o => o.copy.map (·, .none)
  | .diffUpdateSet r q =>
    (rs.get r).bind fun s => (rs.get q).bind fun o =>
      if r = q then some (s.clear, .none) else (s.differenceUpdate o.toList).map (·, .none)
  | .inter _ a b =>
    (rs.get a).bind fun x => (rs.get b).bind fun y =>
      if a = b then x.copy.map (·, .none) else (interSet x.view y.view).map (·, .none)
  | .interTL _ a ks => (rs.get a).bind fun x => (interSet x.view (View.ofList ks)).map (·, .none)
  | .interLT _ b ks => (rs.get b).bind fun y => (interSet (View.ofList ks) y.view).map (·, .none)
  | .interIt _ a ks => (rs.get a).bind fun x => (interIter x.view ks).map (·, .none)
  | .diff _ a b => (rs.get a).bind fun x => (rs.get b).bind fun y => (x.difference y.view true).map (·, .none)
  | .diffTL _ a ks => (rs.get a).bind fun x => (x.difference (View.ofList ks) true).map (·, .none)
  | .diffIt _ a ks => (rs.get a).bind fun x => (x.difference (View.ofList ks) false).map (·, .none)
  | .union _ a b =>
    (rs.get a).bind fun x => (rs.get b).bind fun y =>
      if a = b then x.copy.map (·, .none) else (x.union y).map (·, .none)

def ROp.run (rs : Regs) (op : ROp) : Option (Regs × Obs) :=
  (op.eval rs).map fun r => (rs.put op.target r.1, r.2)

def runProg (rs : Regs) : List ROp → Option (Regs × List Obs)
  | [] => some (rs, [])
  | op :: ops => match op.run rs with
    | none => none
    | some (rs', o) => match runProg rs' ops with
      | none => none
      | some (rs'', os) => some (rs'', o :: os)

end ChythonModel.Py.IntSet
