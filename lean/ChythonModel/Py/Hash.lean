/-!
# CPython 3.8+ `hash()` for ints, bools and tuples of those — seed free

`pyHashInt`  : `long_hash`  — sign · (|n| mod (2⁶¹ − 1)), with −1 ↦ −2.
`pyHashTuple`: `tuplehash`  — the xxHash-derived combination on 64-bit lanes.
There is deliberately **no seed parameter**: `hash(str)`/`hash(bytes)` (the only seeded hashes) are not modelled.
Validated bit-for-bit against CPython 3.12 by the correspondence checks (C17, C01, C19).
-/
namespace ChythonModel.Py

def pyHashModulus : Nat := 2 ^ 61 - 1

/-- `hash(n)` for a Python int. -/
def pyHashInt (n : Int) : Int :=
  let m : Int := (n.natAbs % pyHashModulus : Nat)
  let h := if n < 0 then -m else m
  if h == -1 then -2 else h

def pyHashBool (b : Bool) : Int := if b then 1 else 0

def xxPrime1 : UInt64 := 11400714785074694791
def xxPrime2 : UInt64 := 14029467366897019727
def xxPrime5 : UInt64 := 2870177450012600261

def xxRotate (x : UInt64) : UInt64 := (x <<< 31) ||| (x >>> 33)

/-- two's-complement embedding of a Python hash value (|h| < 2⁶³) into a 64-bit lane -/
def toLane (h : Int) : UInt64 := UInt64.ofNat (h % (2 ^ 64 : Int)).toNat

def ofLane (u : UInt64) : Int :=
  if u.toNat < 2 ^ 63 then (u.toNat : Int) else (u.toNat : Int) - (2 ^ 64 : Int)

/-- `hash(tuple)` given the hashes of the items. -/
def pyHashTupleOfHashes (hs : List Int) : Int :=
  let acc := hs.foldl (fun acc h => xxRotate (acc + toLane h * xxPrime2) * xxPrime1) xxPrime5
  let acc := acc + (UInt64.ofNat hs.length ^^^ (xxPrime5 ^^^ 3527539))
  if acc == 0xFFFFFFFFFFFFFFFF then 1546275796 else ofLane acc

/-- `hash((i₀, i₁, …))` for a tuple of Python ints. -/
def pyHashTuple (xs : List Int) : Int := pyHashTupleOfHashes (xs.map pyHashInt)

end ChythonModel.Py
