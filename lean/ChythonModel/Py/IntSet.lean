import ChythonModel.Py.Hash
/-!
# CPython 3.12 `set` (Objects/setobject.c) for int keys, and the insertion-ordered `dict` key list — executable, core Lean

The table is an array of slots (`empty` = `key == NULL`, `dummy` = the `dummy` sentinel with hash −1, `active k`).
The hash of an entry is not stored: for an int key it is `pyHashInt k` (Py/Hash.lean), so `entry->hash == hash`
followed by the key comparison is exactly key equality, and `hash(k)` is never −1 (so a dummy never matches).

The probe sequence of `set_lookkey` / `set_add_entry` / `set_insert_clean` — entries `i, i+1, …, i+LINEAR_PROBES` (the
linear run only when it fits: `i + LINEAR_PROBES <= mask`), then `perturb >>= 5; i = (i*5 + 1 + perturb) & mask` — is the
flat state machine `PS.start` / `PS.next` / `PS.idx`.  The C loops run for ever when no terminating slot exists; the model
carries fuel (`fuelFor`: 10 flat steps for each of `size + 14` outer rounds — after 13 shifts `perturb` is 0 and
`i ↦ 5i+1 mod 2^k` has full period) and returns `none` when it runs out or an index is out of range; no operation is
totalised.  Everything the theorems of Props/C19 say is about these definitions; the driver `Drivers/C19.lean` runs them.

Modelled: `add`, `discard`/`remove`, `pop` (finger scan), `clear`, resize (`set_table_resize` incl. the small-table
rebuild), `set_merge` (`copy`, `set(s)`, `update(s)`, `|`) with its three paths, `update(iterable)`, `update(dict)` /
`set(dict)` (one big resize first), `difference_update`, `difference` (`-`, both strategies), `intersection` (`&`, swap to
iterate the smaller operand; iterable argument), iteration = table order.
-/
namespace ChythonModel.Py.IntSet

inductive Slot where
  | empty
  | dummy
  | active (key : Int)
  deriving DecidableEq, Repr, Inhabited

/-- flat probe state: outer index `i`, `perturb`, offset `j` inside the linear run -/
structure PS where
  i : Nat
  perturb : Nat
  j : Nat
  deriving Repr

/-- `(size_t)hash` for the int key `k` -/
def hashBits (k : Int) : Nat := (pyHashInt k % ((2 : Int) ^ 64)).toNat

def PS.idx (s : PS) : Nat := s.i + s.j

def PS.start (mask : Nat) (k : Int) : PS := ⟨hashBits k &&& mask, hashBits k, 0⟩

def PS.next (mask : Nat) (s : PS) : PS :=
  if s.i + 9 ≤ mask ∧ s.j < 9 then { s with j := s.j + 1 }
  else ⟨(s.i * 5 + 1 + (s.perturb >>> 5)) &&& mask, s.perturb >>> 5, 0⟩

def fuelFor (mask : Nat) : Nat := 10 * (mask + 15)

/-- `set_lookkey`: index of the first slot on the probe sequence that is unused or holds `k` -/
def look (t : Array Slot) (mask : Nat) (k : Int) : Nat → PS → Option Nat
  | 0, _ => none
  | f + 1, s =>
    match t[s.idx]? with
    | none => none
    | some .empty => some s.idx
    | some (.active k') => if k' = k then some s.idx else look t mask k f (s.next mask)
    | some .dummy => look t mask k f (s.next mask)

inductive AddRes where
  | present
  | slot (free : Option Nat) (unused : Nat)
  deriving Repr

/-- the scan of `set_add_entry`: like `look`, remembering the LAST dummy passed (`freeslot = entry`) -/
def addScan (t : Array Slot) (mask : Nat) (k : Int) : Nat → PS → Option Nat → Option AddRes
  | 0, _, _ => none
  | f + 1, s, free =>
    match t[s.idx]? with
    | none => none
    | some .empty => some (.slot free s.idx)
    | some (.active k') => if k' = k then some .present else addScan t mask k f (s.next mask) free
    | some .dummy => addScan t mask k f (s.next mask) (some s.idx)

/-- the scan of `set_insert_clean`: first slot with `key == NULL` (no key comparison) -/
def lookEmpty (t : Array Slot) (mask : Nat) : Nat → PS → Option Nat
  | 0, _ => none
  | f + 1, s =>
    match t[s.idx]? with
    | none => none
    | some .empty => some s.idx
    | some _ => lookEmpty t mask f (s.next mask)

structure IntSet where
  table : Array Slot
  fill : Nat
  used : Nat
  finger : Nat
  deriving Repr

def emptyTable (n : Nat) : Array Slot := Array.replicate n .empty

def empty : IntSet := ⟨emptyTable 8, 0, 0, 0⟩

def IntSet.mask (s : IntSet) : Nat := s.table.size - 1

def activeKeys (t : Array Slot) : List Int :=
  t.toList.filterMap fun | .active k => some k | _ => none

/-- iteration order = table order -/
def IntSet.toList (s : IntSet) : List Int := activeKeys s.table

def lookup (t : Array Slot) (k : Int) : Option Nat :=
  look t (t.size - 1) k (fuelFor (t.size - 1)) (PS.start (t.size - 1) k)

/-- `k in s`; `none` = the model could not decide (fuel) -/
def IntSet.contains (s : IntSet) (k : Int) : Option Bool :=
  match lookup s.table k with
  | none => none
  | some j => some (s.table[j]? == some (.active k))

def insertClean (t : Array Slot) (k : Int) : Option (Array Slot) :=
  match lookEmpty t (t.size - 1) (fuelFor (t.size - 1)) (PS.start (t.size - 1) k) with
  | none => none
  | some j => some (t.set! j (.active k))

def insertCleanAll (t : Array Slot) : List Int → Option (Array Slot)
  | [] => some t
  | k :: ks => match insertClean t k with
    | none => none
    | some t' => insertCleanAll t' ks

def newSizeAux : Nat → Nat → Nat → Nat
  | 0, n, _ => n
  | f + 1, n, m => if n ≤ m then newSizeAux f (2 * n) m else n

/-- smallest power of two ≥ 8 that is > `minused` -/
def newSize (minused : Nat) : Nat := newSizeAux 64 8 minused

/-- `set_table_resize` -/
def IntSet.resize (s : IntSet) (minused : Nat) : Option IntSet :=
  let n := newSize minused
  if n = 8 ∧ s.table.size = 8 ∧ s.fill = s.used then some s
  else match insertCleanAll (emptyTable n) (activeKeys s.table) with
    | none => none
    | some t => some { s with table := t, fill := s.used }

def growTarget (used : Nat) : Nat := if used > 50000 then used * 2 else used * 4

/-- `set_add_entry` -/
def IntSet.add (s : IntSet) (k : Int) : Option IntSet :=
  match addScan s.table s.mask k (fuelFor s.mask) (PS.start s.mask k) none with
  | none => none
  | some .present => some s
  | some (.slot (some f) _) => some { s with table := s.table.set! f (.active k), used := s.used + 1 }
  | some (.slot none j) =>
    let s' : IntSet := { s with table := s.table.set! j (.active k), fill := s.fill + 1, used := s.used + 1 }
    if s'.fill * 5 < s'.mask * 3 then some s' else s'.resize (growTarget s'.used)

/-- `set_discard_entry`: new state and whether the key was found -/
def IntSet.discard (s : IntSet) (k : Int) : Option (IntSet × Bool) :=
  match lookup s.table k with
  | none => none
  | some j =>
    if s.table[j]? == some (.active k) then
      some ({ s with table := s.table.set! j .dummy, used := s.used - 1 }, true)
    else some (s, false)

/-- scan of `set_pop` from `entry`, wrapping at the end of the table -/
def popScan (t : Array Slot) : Nat → Nat → Option (Nat × Int)
  | 0, _ => none
  | f + 1, j =>
    match t[j]? with
    | none => none
    | some (.active k) => some (j, k)
    | some _ => popScan t f (if j + 1 ≥ t.size then 0 else j + 1)

inductive PopRes where
  | keyError
  | popped (k : Int) (s : IntSet)

/-- `set_pop` -/
def IntSet.pop (s : IntSet) : Option PopRes :=
  if s.used = 0 then some .keyError
  else match popScan s.table (s.table.size + 1) (s.finger &&& s.mask) with
    | none => none
    | some (j, k) => some (.popped k { s with table := s.table.set! j .dummy, used := s.used - 1, finger := j + 1 })

/-- `set_clear_internal` (`set_empty_to_minsize` leaves `finger` as it is) -/
def IntSet.clear (s : IntSet) : IntSet := { empty with finger := s.finger }

def IntSet.addAll (s : IntSet) : List Int → Option IntSet
  | [] => some s
  | k :: ks => match s.add k with
    | none => none
    | some s' => s'.addAll ks

/-- `set.update(iterable)` for a non-set, non-dict iterable; `set(list)`, set displays and comprehensions from `empty` -/
def IntSet.updateIter (s : IntSet) (ks : List Int) : Option IntSet := s.addAll ks

/-- the presize test shared by `set_merge` and the dict branch of `set_update_internal` -/
def IntSet.presize (s : IntSet) (n : Nat) : Option IntSet :=
  if (s.fill + n) * 5 ≥ s.mask * 3 then s.resize ((s.used + n) * 2) else some s

/-- `set.update(dict)` / `set(dict)`: one big resize first, then insertion in dict order -/
def IntSet.updateDict (s : IntSet) (ks : List Int) : Option IntSet :=
  match s.presize ks.length with
  | none => none
  | some s' => s'.addAll ks

/-- `set_merge(so, other)` -/
def IntSet.merge (so other : IntSet) : Option IntSet :=
  if other.used = 0 then some so
  else match so.presize other.used with
    | none => none
    | some so =>
      if so.fill = 0 ∧ so.mask = other.mask ∧ other.fill = other.used then
        some { so with table := other.table, fill := other.fill, used := other.used }
      else if so.fill = 0 then
        match insertCleanAll so.table (activeKeys other.table) with
        | none => none
        | some t => some { so with table := t, fill := other.used, used := other.used }
      else so.addAll (activeKeys other.table)

/-- `set.copy()` / `set(s)` -/
def IntSet.copy (s : IntSet) : Option IntSet := empty.merge s

def IntSet.discardAll (s : IntSet) : List Int → Option IntSet
  | [] => some s
  | k :: ks => match s.discard k with
    | none => none
    | some (s', _) => s'.discardAll ks

/-- `set_difference_update_internal` with the other operand's keys (discards commute; then dummies are resized away) -/
def IntSet.differenceUpdate (s : IntSet) (ks : List Int) : Option IntSet :=
  match s.discardAll ks with
  | none => none
  | some s' => if s'.fill - s'.used ≤ s'.mask / 4 then some s' else s'.resize (growTarget s'.used)

/-- read-only view of an operand: iteration order, membership, size (a modelled set or an observed container) -/
structure View where
  order : List Int
  has : Int → Option Bool
  used : Nat

def IntSet.view (s : IntSet) : View := ⟨s.toList, s.contains, s.used⟩
def View.ofList (ks : List Int) : View := ⟨ks, fun k => some (ks.contains k), ks.length⟩

def addFiltered (has : Int → Option Bool) (keep : Bool) (r : IntSet) : List Int → Option IntSet
  | [] => some r
  | k :: ks => match has k with
    | none => none
    | some b => if b == keep then (match r.add k with
        | none => none
        | some r' => addFiltered has keep r' ks) else addFiltered has keep r ks

/-- `set_intersection(so, other)` for a set `other`: iterate the smaller operand (`other` on ties) -/
def interSet (so other : View) : Option IntSet :=
  let (so, other) := if other.used > so.used then (other, so) else (so, other)
  addFiltered so.has true empty other.order

/-- `set_intersection(so, iterable)` -/
def interIter (so : View) (ks : List Int) : Option IntSet := addFiltered so.has true empty ks

/-- `set_difference(so, other)`; `sized` = other is a set or dict (then the cheaper strategy is chosen by size) -/
def IntSet.difference (so : IntSet) (other : View) (sized : Bool) : Option IntSet :=
  if !sized || (so.used >>> 2) > other.used then
    match so.copy with
    | none => none
    | some c => c.differenceUpdate other.order
  else addFiltered other.has false empty so.toList

/-- `so | other` for a set `other` -/
def IntSet.union (so other : IntSet) : Option IntSet :=
  match so.copy with
  | none => none
  | some c => c.merge other

/-! ## histories over one set: the op language of the refinement theorem (the driver runs single-register ops through `stepOp`) -/

inductive SetOp where
  | add (k : Int)
  | discard (k : Int)
  | pop
  | clear
  | updateIter (ks : List Int)
  | updateDict (ks : List Int)
  | differenceUpdate (ks : List Int)
  deriving Repr

/-- what an op lets the caller see -/
inductive Obs where
  | none
  | popped (k : Int)
  | keyError
  deriving Repr, DecidableEq

def IntSet.stepOp (s : IntSet) : SetOp → Option (IntSet × Obs)
  | .add k => (s.add k).map (·, .none)
  | .discard k => (s.discard k).map fun r => (r.1, .none)
  | .pop => match s.pop with
    | none => none
    | some .keyError => some (s, .keyError)
    | some (.popped k s') => some (s', .popped k)
  | .clear => some (s.clear, .none)
  | .updateIter ks => (s.updateIter ks).map (·, .none)
  | .updateDict ks => (s.updateDict ks).map (·, .none)
  | .differenceUpdate ks => (s.differenceUpdate ks).map (·, .none)

def IntSet.runOps (s : IntSet) : List SetOp → Option (IntSet × List Obs)
  | [] => some (s, [])
  | op :: ops => match s.stepOp op with
    | none => none
    | some (s', o) => match s'.runOps ops with
      | none => none
      | some (s'', os) => some (s'', o :: os)

/-! ## insertion-ordered dict keys (compact dict): insertion order with deletions -/

structure IntDict where
  keys : List Int
  deriving Repr

def IntDict.empty : IntDict := ⟨[]⟩
def IntDict.set (d : IntDict) (k : Int) : IntDict := if d.keys.contains k then d else ⟨d.keys ++ [k]⟩
def IntDict.del (d : IntDict) (k : Int) : Option IntDict := if d.keys.contains k then some ⟨d.keys.erase k⟩ else none
/-- `popitem()`: last inserted -/
def IntDict.popitem (d : IntDict) : Option (Int × IntDict) :=
  match d.keys.getLast? with
  | none => none
  | some k => some (k, ⟨d.keys.dropLast⟩)

end ChythonModel.Py.IntSet
