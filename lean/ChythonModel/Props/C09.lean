import ChythonModel.Proofs.C09Bits
/-!
# C09 — compiled (bit-mask) matcher ≡ reference matcher: property theorems

All statements are about the functions of `Model/BitLayout.lean` that `Drivers/C09.lean` runs, over the literals of
`Gen/BitLayout.lean`, `Gen/PeriodicTable.lean`, `Gen/QueryTables.lean` (regenerated from the source on every run).
-/
namespace ChythonModel.Props.C09
open ChythonModel.Model.Bits ChythonModel.Gen.Bits ChythonModel.Model.Query ChythonModel.Proofs.C09

/-! ## the layout -/

/-- a field: lowest bit and width -/
abbrev Field := Nat × Nat

/-- consecutive fields tile `[0, total)` without gap or overlap -/
def tiles : Nat → List Field → Nat → Bool
  | lo, [], total => lo == total
  | lo, (l, w) :: rest, total => l == lo && decide (0 < w) && tiles (l + w) rest total

/-- word I (molecule side: `bits1` / bond word): transfer bit, elements 56…1 (bit `57 - Z`), bond-ring marks, bond orders -/
def fields1 : List Field :=
  [(0, 1), (sLoBase - sTransferZ, sTransferZ), (Nat.log2 sRingNo, 2), (Nat.log2 sOrd1, 5)]
/-- word II: hybridisation 1…4 (bit `h - 1`), elements 116…57 (bit `120 - Z`) -/
def fields2 : List Field := [(0, 4), (sHiBase - sHeavyCap, sHeavyCap - sTransferZ)]
/-- word III: heteroatoms 0…14, neighbours 0…14, hydrogens 0…4, charge −4…4, radical no/yes, isotope offset −8…8, no isotope -/
def fields3 : List Field :=
  [(0, 15), (sNbOff, 15), (sHOff, 5), (sChargeOff - 4, 9), (Nat.log2 sIsoNoRad, 2), (sIsoOff - 8, 17), (Nat.log2 (sNoIsoRad - sIsoRad), 1)]
/-- word IV: ring sizes 65…3 (bit `65 - r`), not-in-ring -/
def fields4 : List Field := [(0, sRingBase - 2), (Nat.log2 sNoRing, 1)]

/-- `layout_disjoint`: in each of the four 64-bit words the documented fields are pairwise disjoint and cover exactly bits 0…63
    (offsets and widths are the regenerated literals of `_cython_compiled_structure`) -/
theorem layout_disjoint :
    tiles 0 fields1 64 = true ∧ tiles 0 fields2 64 = true ∧ tiles 0 fields3 64 = true ∧ tiles 0 fields4 64 = true := by
  decide +kernel

/-- the query encoder and the closure encoder use the same offsets, thresholds and one-hot constants as the molecule encoder -/
theorem encoders_share_layout :
    [qlTransferZ, qlHeavyGt, qlHeavyCap, qlTransferBit, qlHiBase, qlLoBase] = [sTransferZ, sHeavyGt, sHeavyCap, sTransferBit, sHiBase, sLoBase] ∧
    [qeTransferZ, qeHeavyGt, qeHeavyCap, qeTransferBit, qeHiBase, qeLoBase] = [sTransferZ, sHeavyGt, sHeavyCap, sTransferBit, sHiBase, sLoBase] ∧
    [qIsoOff, qIsoRad, qIsoNoRad, qChargeOff, qHOff, qNbOff, qHybSub, qRingMax, qRingBase, qOnlyBig, qNoRing] =
      [sIsoOff, sIsoRad, sIsoNoRad, sChargeOff, sHOff, sNbOff, sHybSub, sRingMax, sRingBase, sOnlyBig, sNoRing] ∧
    [qOrd1, qOrd2, qOrd3, qOrd4, qOrdElse, qRingYes, qRingNo] = [sOrd1, sOrd2, sOrd3, sOrd4, sOrdElse, sRingYes, sRingNo] ∧
    [cOrd1, cOrd2, cOrd3, cOrd4, cOrdElse, cRingYes, cRingNo, cRingAny] = [sOrd1, sOrd2, sOrd3, sOrd4, sOrdElse, sRingYes, sRingNo, qRingAny] ∧
    qRingAny = qRingYes ||| qRingNo := by
  decide +kernel

/-- `and_eq_self_iff`: the C test `mask & bits == bits` is bit-set inclusion -/
theorem and_eq_self_iff (m b : Nat) : m &&& b = b ↔ ∀ i, b.testBit i = true → m.testBit i = true :=
  ChythonModel.Proofs.C09.and_eq_self_iff m b

/-- `onehot_mask`: bit `i` of `OR_{s ∈ S} 1 << (s + off)` is set iff `i - off ∈ S` -/
theorem onehot_mask (off : Nat) (S : List Nat) (i : Nat) :
    (orShifts off S).testBit i = true ↔ ∃ s ∈ S, s + off = i := by
  rw [testBit_orShifts]; simp

/-- every tabulated isotope of every element is within −8…+8 of `mdl_isotope`, so `Element.isotope` (validated against the
    table by its setter) always fits the 17-bit isotope field; query classes carry the same `mdl_isotope` -/
theorem isotope_window :
    ∀ r ∈ ChythonModel.Gen.periodicTable,
      (∀ k ∈ r.dist, r.mdl ≤ k.1 + 8 ∧ k.1 ≤ r.mdl + 8) ∧ r.qmdl = some r.mdl ∧ r.qz = some r.z := by
  decide +kernel

end ChythonModel.Props.C09
