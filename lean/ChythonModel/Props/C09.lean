import ChythonModel.Gen.C09Cache
import ChythonModel.Proofs.C09Api
import ChythonModel.Proofs.C09Closure
import ChythonModel.Proofs.C09SearchP
import ChythonModel.Proofs.C09SearchR
import ChythonModel.Proofs.C09Layout
import ChythonModel.Proofs.C09Faithful
import ChythonModel.Proofs.C09Top
import ChythonModel.Proofs.C09Final
import ChythonModel.Proofs.C09Scratch
import ChythonModel.Proofs.C09ArraysTop
/-!
# C09 — compiled (bit-mask) matcher ≡ reference matcher: property theorems

All statements are about the functions of `Model/BitLayout.lean` that `Drivers/C09.lean` runs, over the literals of
`Gen/BitLayout.lean`, `Gen/PeriodicTable.lean`, `Gen/QueryTables.lean` (regenerated from the source on every run).
-/
namespace ChythonModel.Props.C09
open ChythonModel.Model.Bits ChythonModel.Gen.Bits ChythonModel.Model.Query ChythonModel.Proofs.C09 ChythonModel.Model

/-! ## the layout -/

/-- a field: lowest bit and width -/
abbrev Field := Nat × Nat

/-- consecutive fields tile `[0, total)` without gap or overlap -/
def tiles : Nat → List Field → Nat → Bool
  | lo, [], total => lo == total
  | lo, (l, w) :: rest, total => l == lo && decide (0 < w) && tiles (l + w) rest total

/-- word I (molecule side: `bits1` / bond word): transfer bit, elements 56…1 (bit `57 - Z`), bond-ring marks, bond orders -/
def fields1 : List Field :=
  [(0, 1), (sLoBase - sTransferZ, sTransferZ), (Nat.log2 sRingNo, 2), (Nat.log2 sOrd1, 5)]
/-- word II: hybridisation 1…4 (bit `h - 1`), elements 116…57 (bit `120 - Z`) -/
def fields2 : List Field := [(0, 4), (sHiBase - sHeavyCap, sHeavyCap - sTransferZ)]
/-- word III: heteroatoms 0…14, neighbours 0…14, hydrogens 0…4, charge −4…4, radical no/yes, isotope offset −8…8, no isotope -/
def fields3 : List Field :=
  [(0, 15), (sNbOff, 15), (sHOff, 5), (sChargeOff - 4, 9), (Nat.log2 sIsoNoRad, 2), (sIsoOff - 8, 17), (Nat.log2 (sNoIsoRad - sIsoRad), 1)]
/-- word IV: ring sizes 65…3 (bit `65 - r`), not-in-ring -/
def fields4 : List Field := [(0, sRingBase - 2), (Nat.log2 sNoRing, 1)]

/-- `layout_disjoint`: in each of the four 64-bit words the documented fields are pairwise disjoint and cover exactly bits 0…63
    (offsets and widths are the regenerated literals of `_cython_compiled_structure`) -/
theorem layout_disjoint :
    tiles 0 fields1 64 = true ∧ tiles 0 fields2 64 = true ∧ tiles 0 fields3 64 = true ∧ tiles 0 fields4 64 = true := by
  decide +kernel

/-- the query encoder and the closure encoder use the same offsets, thresholds and one-hot constants as the molecule encoder -/
theorem encoders_share_layout :
    [qlTransferZ, qlHeavyGt, qlHeavyCap, qlTransferBit, qlHiBase, qlLoBase] = [sTransferZ, sHeavyGt, sHeavyCap, sTransferBit, sHiBase, sLoBase] ∧
    [qeTransferZ, qeHeavyGt, qeHeavyCap, qeTransferBit, qeHiBase, qeLoBase] = [sTransferZ, sHeavyGt, sHeavyCap, sTransferBit, sHiBase, sLoBase] ∧
    [qIsoOff, qIsoRad, qIsoNoRad, qChargeOff, qHOff, qNbOff, qHybSub, qRingMax, qRingBase, qOnlyBig, qNoRing] =
      [sIsoOff, sIsoRad, sIsoNoRad, sChargeOff, sHOff, sNbOff, sHybSub, sRingMax, sRingBase, sOnlyBig, sNoRing] ∧
    [qOrd1, qOrd2, qOrd3, qOrd4, qOrdElse, qRingYes, qRingNo] = [sOrd1, sOrd2, sOrd3, sOrd4, sOrdElse, sRingYes, sRingNo] ∧
    [cOrd1, cOrd2, cOrd3, cOrd4, cOrdElse, cRingYes, cRingNo, cRingAny] = [sOrd1, sOrd2, sOrd3, sOrd4, sOrdElse, sRingYes, sRingNo, qRingAny] ∧
    qRingAny = qRingYes ||| qRingNo := by
  decide +kernel

/-- `and_eq_self_iff`: the C test `mask & bits == bits` is bit-set inclusion -/
theorem and_eq_self_iff (m b : Nat) : m &&& b = b ↔ ∀ i, b.testBit i = true → m.testBit i = true :=
  ChythonModel.Proofs.C09.and_eq_self_iff m b

/-- `onehot_mask`: bit `i` of `OR_{s ∈ S} 1 << (s + off)` is set iff `i - off ∈ S` -/
theorem onehot_mask (off : Nat) (S : List Nat) (i : Nat) :
    (orShifts off S).testBit i = true ↔ ∃ s ∈ S, s + off = i := by
  rw [testBit_orShifts]; simp

/-- every tabulated isotope of every element is within −8…+8 of `mdl_isotope`, so `Element.isotope` (validated against the
    table by its setter) always fits the 17-bit isotope field; query classes carry the same `mdl_isotope` -/
theorem isotope_window :
    ∀ r ∈ ChythonModel.Gen.periodicTable,
      (∀ k ∈ r.dist, r.mdl ≤ k.1 + 8 ∧ k.1 ≤ r.mdl + 8) ∧ r.qmdl = some r.mdl ∧ r.qz = some r.z := by
  decide +kernel


/-- the isotope clause of `ADom` is not an assumption for real atoms: `Element.isotope`'s setter only accepts keys of
    `isotopes_distribution`, and every such key of every element is inside the window of that element's `mdl_isotope` -/
theorem isotope_in_window_of_table (a : MAtom) (r : ChythonModel.Gen.ElemRow) (hr : r ∈ ChythonModel.Gen.periodicTable)
    (hiso : ∀ i, a.isotope = some i → i = 0 ∨ i ∈ r.dist.map (·.1)) :
    ∀ i, isoTruthy a.isotope = some i → r.mdl ≤ i + 8 ∧ i ≤ r.mdl + 8 := by
  intro i hi
  obtain ⟨ha, hne⟩ := isoTruthy_some hi
  rcases hiso i ha with h0 | hmem
  · exact absurd h0 hne
  · obtain ⟨k, hk, rfl⟩ := List.mem_map.mp hmem
    exact (isotope_window r hr).1 k hk

/-- `QueryElement.mdl_isotope` equals `Element.mdl_isotope` for every atomic number (both lookups of the regenerated table) -/
theorem mdl_tables_agree (z : Nat) : qmdlOf z = mdlOf z :=
  mdl_tables_agree_gen ChythonModel.Gen.periodicTable (fun r hr => (isotope_window r hr).2) z

/-- `anyMetal_mask_table`: the two literal `AnyMetal` masks accept, through the transfer-bit scheme, exactly the elements that
    the reference `AnyMetal.__eq__` accepts (`not is_forming_single_bonds and not noble`, regenerated flags), with Lv/Ts/Og read
    as Lv. (Found false for radon on the original literal: repo fix dd455ec.) -/
theorem anyMetal_mask_table : ∀ z ∈ List.range' 1 118, elemAcc (qMetalV1, qMetalV2) z = !notMetal (capS z) :=
  elemAcc_metal

/-- the element flags behind C08's `notMetal` (Gen/QueryTables.lean) are the flags this property's translator re-extracts from the
    `Element` subclasses on every run -/
theorem anyMetal_flags_agree : ∀ z ∈ List.range' 1 118, notMetalFlags.lookup z = some (notMetal z) := by
  decide +kernel

/-- **the packed buffers are never handed over**: no key selection of `copy` / `flush_cache` (hoisted constant tuples resolved) and
    no constant-key store into a `__dict__` anywhere in the package names `_cython_compiled_structure` or `_cython_compiled_query`,
    and no string literal spells them — so a copy or an edited object recomputes its buffers from its own state (regenerated AST
    table `Gen/C09Cache.lean`) -/
theorem compiled_buffers_never_kept :
    (∀ s ∈ ChythonModel.Gen.C09Cache.keepSites, ∀ k ∈ ChythonModel.Gen.C09Cache.bufferKeys, k ∉ s.2) ∧
    ChythonModel.Gen.C09Cache.literalSites = [] := by
  decide +kernel

/-! ## encoders are total and fit 64 bits on the documented domain -/

/-- a molecule atom of the documented domain (`ADom`: Z 1…118, hybridisation 1…4, isotope within −8…+8 of `mdl`, charge −4…4,
    H ≤ 4 (unknown counted as 0), neighbours / heteroatoms ≤ 14, ring sizes 3…65) is encoded without exception into four words < 2^64 -/
theorem encAtom_total (mdl : Nat) (a : MAtom) (ha : ADom mdl a) :
    encAtom mdl a = .ok (atomWords mdl a) ∧ (atomWords mdl a).v1 < 2 ^ 64 ∧ (atomWords mdl a).v2 < 2 ^ 64 ∧
      (atomWords mdl a).v3 < 2 ^ 64 ∧ (atomWords mdl a).v4 < 2 ^ 64 := by
  have h := (atom_ok mdl a ha).2
  simp only [Words.fit, Bool.and_eq_true] at h
  exact ⟨encAtom_ok mdl a ha, of_decide_eq_true h.1.1.1, of_decide_eq_true h.1.1.2, of_decide_eq_true h.1.2, of_decide_eq_true h.2⟩

/-- a query atom of the documented domain (`QDom`), with or without a query bond, is encoded without exception into four masks < 2^64
    — for every isotope value (outside the window the mask simply has no isotope bit: repo fix f3c1cf5) -/
theorem encQAtom_total (qmdl : Nat) (q : QAtom) (b : Option QBond) (hq : QDom q) :
    encQAtom qmdl q b = .ok (qWords qmdl q b) ∧ (qWords qmdl q b).v1 < 2 ^ 64 ∧ (qWords qmdl q b).v2 < 2 ^ 64 ∧
      (qWords qmdl q b).v3 < 2 ^ 64 ∧ (qWords qmdl q b).v4 < 2 ^ 64 := by
  have h := (qatom_ok qmdl q b hq).2
  simp only [Words.fit, Bool.and_eq_true] at h
  exact ⟨encQAtom_ok qmdl q b hq, of_decide_eq_true h.1.1.1, of_decide_eq_true h.1.1.2, of_decide_eq_true h.1.2, of_decide_eq_true h.2⟩

example : ADom 12 { z := 6, isotope := some 13, charge := -1, neighbors := 3, hybridization := 4, ringSizes := [5, 6], implH := none,
                    heteroatoms := 1 } := by
  constructor <;> simp [isoTruthy, hOr, ChythonModel.Gen.Bits.sHNone] <;> omega

example : QDom { kind := .list [6, 7, 118], charge := 1, neighbors := [2, 3], hybridization := [4], ringSizes := [5, 6], implH := [0, 1] } := by
  constructor <;> simp <;> omega

/-! ## the mask test is the reference comparison -/

/-- `mask_eq_pyEq` (general form, first atom of a component): for every query atom and molecule atom of the documented domain the
    first-atom test of `_isomorphism.pyx` on the encoded words (`rootOk`) equals `query_atom == atom` (C08's `pyEq`) **of the pair
    as the layout sees it** (`normQ`/`normA`: Lv/Ts/Og are one element, an unknown hydrogen count is 0).
    `hm`: when the query carries an isotope and the element is accepted, both sides use the same `mdl_isotope`
    (`mdl_tables_agree` for one element). -/
theorem mask_eq_pyEq_norm (mdl qmdl : Nat) (q : QAtom) (a : MAtom) (cq : CQAtom) (ca : CAtom)
    (hcq : (⟨cq.m1, cq.m2, cq.m3, cq.m4⟩ : Words) = qWords qmdl q none)
    (hca : (⟨ca.b1, ca.b2, ca.b3, ca.b4⟩ : Words) = atomWords mdl a)
    (hq : QDom q) (ha : ADom mdl a)
    (hm : qIso q.kind ≠ none → kindAccepts q.kind a.z = true → qmdl = mdl) :
    rootOk cq ca = pyEq (normQ q) (normA a) := by
  rw [← mask_root_norm mdl qmdl q a hq ha hm, ← hcq, ← hca]; rfl

/-- `mask_eq_pyEq` (general form, later atoms, bond incl. ring bit): the next-atom test on the bond word
    (`bits1` of the candidate | order bit | ring bit) equals `query_atom == atom and query_bond == bond` -/
theorem mask_bond_eq_pyEq_norm (mdl qmdl : Nat) (q : QAtom) (qb : QBond) (a : MAtom) (b : MBond) (cq : CQAtom) (ca : CAtom)
    (hcq : (⟨cq.m1, cq.m2, cq.m3, cq.m4⟩ : Words) = qWords qmdl q (some qb))
    (hca : (⟨ca.b1, ca.b2, ca.b3, ca.b4⟩ : Words) = atomWords mdl a)
    (hq : QDom q) (ha : ADom mdl a) (hb : BDom qb b)
    (hm : qIso q.kind ≠ none → kindAccepts q.kind a.z = true → qmdl = mdl) :
    nextOk cq (bondWord ca.b1 b) ca = (pyEq (normQ q) (normA a) && bondEq qb b) := by
  have h1 : ca.b1 = atomV1 a := congrArg Words.v1 hca
  rw [← mask_next_norm mdl qmdl q qb a b hq ha hb hm, ← hcq, ← hca, h1]; rfl

/-- `mask_eq_pyEq` on the documented domain **D**: no clash on the shared Lv/Ts/Og bit (`NoHeavyClash`), hydrogen count known or
    unconstrained (`HKnown`), everything else as `QDom`/`ADom`, `mdl_isotope` from the periodic table:
    the accelerated first-atom test is exactly `query_atom == atom`. -/
theorem mask_eq_pyEq (q : QAtom) (a : MAtom) (mdl qmdl : Nat)
    (hmdl : mdlOf a.z = some mdl) (hqmdl : qmdlFor q = .ok qmdl)
    (hq : QDom q) (ha : ADom mdl a) (hc : NoHeavyClash q a) (hh : HKnown q a) :
    rootOk ⟨(qWords qmdl q none).v1, (qWords qmdl q none).v2, (qWords qmdl q none).v3, (qWords qmdl q none).v4, 0, 0, 0, 0, 0⟩
           ⟨(atomWords mdl a).v1, (atomWords mdl a).v2, (atomWords mdl a).v3, (atomWords mdl a).v4, 0, 0, 0⟩ = pyEq q a := by
  rw [mask_eq_pyEq_norm mdl qmdl q a _ _ rfl rfl hq ha (qmdl_eq q a mdl qmdl hmdl hqmdl hc mdl_tables_agree), pyEq_norm_eq q a hc hh]

/-- the same for later atoms: atom and bond -/
theorem mask_bond_eq_pyEq (q : QAtom) (qb : QBond) (a : MAtom) (b : MBond) (mdl qmdl : Nat)
    (hmdl : mdlOf a.z = some mdl) (hqmdl : qmdlFor q = .ok qmdl)
    (hq : QDom q) (ha : ADom mdl a) (hb : BDom qb b) (hc : NoHeavyClash q a) (hh : HKnown q a) :
    nextOk ⟨(qWords qmdl q (some qb)).v1, (qWords qmdl q (some qb)).v2, (qWords qmdl q (some qb)).v3, (qWords qmdl q (some qb)).v4, 0, 0, 0, 0, 0⟩
           (bondWord (atomWords mdl a).v1 b)
           ⟨(atomWords mdl a).v1, (atomWords mdl a).v2, (atomWords mdl a).v3, (atomWords mdl a).v4, 0, 0, 0⟩ =
      (pyEq q a && bondEq qb b) := by
  have h := mask_bond_eq_pyEq_norm mdl qmdl q qb a b
    ⟨(qWords qmdl q (some qb)).v1, (qWords qmdl q (some qb)).v2, (qWords qmdl q (some qb)).v3, (qWords qmdl q (some qb)).v4, 0, 0, 0, 0, 0⟩
    ⟨(atomWords mdl a).v1, (atomWords mdl a).v2, (atomWords mdl a).v3, (atomWords mdl a).v4, 0, 0, 0⟩
    rfl rfl hq ha hb (qmdl_eq q a mdl qmdl hmdl hqmdl hc mdl_tables_agree)
  rw [pyEq_norm_eq q a hc hh] at h
  exact h

/-! ## the closure test -/

/-- `closure_tests_agree`: on distinct neighbour indices, distinct images of the query closure partners and non-zero bond words the
    counter test of `_isomorphism.pyx` (as many matched neighbours other than the parent as query closures, and every query closure
    finds a recorded neighbour whose bond word it covers) is the set-equality test of `_get_mapping` (the matched neighbours other
    than the parent are exactly the images of the closure partners, and all closure bonds match). -/
theorem closure_tests_agree (hits qb : List CBond) (images : List Nat) (k : Nat)
    (hn : (hits.map (·.index)).Nodup) (hi : images.Nodup) (hz : ∀ h ∈ hits, h.bond ≠ 0)
    (hq : qb.length = k) (him : images.length = k) :
    closureCountTest hits qb images k = closureSetTest hits qb images :=
  ChythonModel.Proofs.C09.closure_tests_agree hits qb images k hn hi hz hq him

/-- the model of the `.pyx` closure block is that counter test on the data it reads -/
theorem closureC_is_count_test (m : CMol) (q : CQuery) (qa : CQAtom) (mAtom : CAtom) (n : Nat) (matched : List Bool) (path : List Nat)
    (nb qb : List CBond) (flags : List Bool) (images : List Nat)
    (h1 : slice? m.bonds mAtom.from_ mAtom.to_ = some nb) (h2 : nb.mapM (fun jb => matched[jb.index]?) = some flags)
    (h3 : slice? q.bonds qa.from_ qa.to_ = some qb) (h4 : qb.mapM (fun jb => path[jb.index]?) = some images) :
    closureC m q qa mAtom n matched path = some (closureCountTest (hitsOf nb flags n) qb images qa.closure) :=
  closureC_eq m q qa mAtom n matched path nb qb flags images h1 h2 h3 h4

example : closureCountTest [⟨5, 2⟩, ⟨9, 7⟩] [⟨13, 7⟩, ⟨7, 2⟩] [7, 2] 2 = true ∧ closureSetTest [⟨5, 2⟩, ⟨9, 7⟩] [⟨13, 7⟩, ⟨7, 2⟩] [7, 2] = true := by
  decide

/-! ## the search: both loops are the same depth-first search -/

/-- the loop of `_isomorphism.pyx` (stack arrays, `path/path_size`, lazily unmarked `matched` array) is the generic depth-first search
    `runG` whose bookkeeping is recomputed from the path: `matched` is always the indicator of the current path (`InvS`: injective
    path, waiting entries hang below a prefix of the path, deeper entries on top) -/
theorem compiled_loop_is_generic_search (cm : CMol) (cq : CQuery) (scope : List Bool) (fuel : Nat) (stack : List (Nat × Nat))
    (path : List Nat) (acc : List Iso.Dict) (hinv : InvS stack path) :
    runLoopC cm cq scope (cq.atoms.length - 1) fuel stack path (ind cm.atoms.length path) acc =
      runG (envC cm cq scope) fuel stack path acc :=
  runLoopC_eq_runG cm cq scope fuel stack path acc hinv

/-- the loop of the pure-Python `_get_mapping` (C07's `Iso.runLoop`: `mapping` / `reversed_mapping` dicts with lazy truncation) is
    the same generic search: the dicts are always the zips of the query order with the path -/
theorem reference_loop_is_generic_search (e : Iso.Env) (hF : (frontsOf e.lq).Nodup) (fuel : Nat) (stack : List (Nat × Nat))
    (path : List Nat) (acc : List Iso.Dict) (hinv : InvS stack path) (hlen : path.length ≤ e.lq.length) :
    Iso.runLoop e (e.lq.length - 1) fuel stack path (mappingOf e.lq path) (rmappingOf e.lq path) acc =
      runG (envP e) fuel stack path acc :=
  runLoop_eq_runG e hF fuel stack path acc hinv hlen

/-- `compiled_search_eq_reference_search`: on buffers that faithfully encode a structure `D` whose (query atom, atom) pairs lie in the
    documented domain (`Faithful`), `get_mapping` of the `.pyx` yields exactly what the reference search yields on the decoded
    objects — the same depth-first skeleton with `mask & bits` replaced by `query_atom == atom and query_bond == bond`
    (`mask_bond_eq_pyEq`) and the closure counter replaced by the closure-set comparison (`closure_tests_agree`). -/
theorem compiled_search_eq_reference_search (D : Decode) (cm : CMol) (cq : CQuery) (hF : Faithful D cm cq) (scope : List Bool) :
    getMappingC cm cq scope = getMappingR D cm cq scope :=
  getMappingC_eq_R D cm cq hF scope

/-- the copy of `Isomorphism._get_mapping` that the accelerated path runs with the overridden mapper (`isoWith`) is C07's
    `isoUnfiltered` when the mapper is the Python one: both paths share the component / permutation / `lazy_product` code -/
theorem isoWith_is_isoUnfiltered (p : Iso.Problem) (comps : List (List Iso.Step)) (cl : Iso.Closures) :
    isoWith (fun lq c => Iso.getMapping (Iso.mkEnv p cl lq c)) p.tComps p.scope comps = Iso.isoUnfiltered p comps cl :=
  isoWith_python p comps cl

/-- **layout of the structure buffer** (`offsets`): when `_cython_compiled_structure` succeeds, atom `i` of `_atoms` sits at index `i`
    with its four words and its number, and `o_from[i] … o_to[i]` delimit exactly the encoded row of `_bonds` of that atom (bond
    word = neighbour's word I | order bit | ring bit, index = position of the neighbour), for `_bonds` keyed like `_atoms` -/
theorem structure_buffer_layout (m : LMol) (cm : CMol) (h : encStructure m = .ok cm) (hkeys : m.adj.map (·.1) = m.ids)
    (hnd : m.ids.Nodup) :
    cm.atoms.length = m.atoms.length ∧
    ∀ (i n : Nat) (a : MAtom) (ms : List (Nat × MBond)), m.atoms[i]? = some (n, a) → m.adj[i]? = some (n, ms) →
      ∃ (ca : CAtom) (mdl : Nat) (ws : List Words) (bs : List CBond),
        cm.atoms[i]? = some ca ∧ mdlOf a.z = some mdl ∧ (⟨ca.b1, ca.b2, ca.b3, ca.b4⟩ : Words) = atomWords mdl a ∧ ca.mapping = n ∧
        molWords m = .ok ws ∧ rowBonds m.ids (ws.map (·.v1)) ms = .ok bs ∧ slice? cm.bonds ca.from_ ca.to_ = some bs :=
  encStructure_layout m cm h hkeys hnd

/-- **layout of a query component buffer**: when `_cython_compiled_query` succeeds, step `j` of the linearised component sits at
    index `j` with its four masks (`stepMask`: the masks of its atom, with the bond to its parent), its number, the index of its parent
    (`back`), and `q_from[j] … q_to[j]` delimit exactly its encoded closure bonds (`closure[j]` = their number; closure-free atoms have
    an empty range) — for a linearisation with distinct fronts and a closures dict with distinct keys -/
theorem query_buffer_layout (q : LQuery) (cl : Iso.Closures) (comp : List Iso.Step) (cq : CQuery)
    (h : encComponent q cl comp = .ok cq) (hF : (comp.map (·.front)).Nodup) (hcl : (cl.map (·.1)).Nodup) :
    cq.atoms.length = comp.length ∧
    ∀ (j : Nat) (s : Iso.Step), comp[j]? = some s →
      ∃ (qa : CQAtom) (w : Words) (qb : List CBond),
        cq.atoms[j]? = some qa ∧ stepMask q s = .ok w ∧ (⟨qa.m1, qa.m2, qa.m3, qa.m4⟩ : Words) = w ∧ qa.mapping = s.front ∧
        (∀ b, s.back = some b → indexOf? (comp.map (·.front)) b = some qa.back) ∧ (s.back = none → qa.back = 0) ∧
        slice? cq.bonds qa.from_ qa.to_ = some qb ∧ qb.length = qa.closure ∧
        (∀ ms, cl.lookup s.front = some ms → ms ≠ [] → closureBonds q (comp.map (·.front)) s.front ms = .ok qb) ∧
        ((cl.lookup s.front = none ∨ cl.lookup s.front = some []) → qb = []) :=
  encComponent_layout q cl comp cq h hF hcl

/-- **the encoders produce faithful buffers**: for a molecule and a linearised query component in the shape the encoders expect
    (`MolOK`: `_bonds` keyed like `_atoms`, distinct numbers, atoms in `ADom`, bond orders 1/2/3/4/8; `QueryOK`; an accepted linearisation
    `CompOK` — C07 proves `compileQuery` produces one — with distinct fronts and closure keys) and pairs inside the documented domain,
    whatever `_cython_compiled_structure` and `_cython_compiled_query` return encodes exactly `decodeOf q m lq`; hence
    (`compiled_search_eq_reference_search`) the compiled matcher run on the encoders' outputs is the reference search on the decoded
    objects — no hypothesis about the buffers is left -/
theorem compiled_search_on_encoder_outputs (q : LQuery) (m : LMol) (cl : Iso.Closures) (lq : List Iso.Step) (cm : CMol) (cq : CQuery)
    (hm : MolOK m) (hq : QueryOK q) (hme : encStructure m = .ok cm) (hqe : encComponent q cl lq = .ok cq)
    (hF : (lq.map (·.front)).Nodup) (hcl : (cl.map (·.1)).Nodup)
    (hcomp : ChythonModel.Proofs.C07.CompOK q.graph cl lq)
    (hpairs : ∀ p ∈ q.atoms, ∀ r ∈ m.atoms, NoHeavyClash p.2 r.2 ∧ HKnown p.2 r.2) (scope : List Bool) :
    Faithful (decodeOf q m lq) cm cq ∧ getMappingC cm cq scope = getMappingR (decodeOf q m lq) cm cq scope := by
  have hF' := encoders_faithful q m cl lq cm cq hm hq hme hqe hF hcl hcomp hpairs
  exact ⟨hF', getMappingC_eq_R _ cm cq hF' scope⟩

/-- **one component**: the compiled matcher run on the encoders' outputs yields exactly — same dicts, same order — what the reference
    `_get_mapping` yields for that component and candidate target component (`Ctx`: `MolOK`, `QueryOK`, both encoders succeeded, an
    accepted linearisation with distinct fronts and closure keys) -/
theorem component_search_eq {q : LQuery} {m : LMol} {cl : Iso.Closures} {lq : List Iso.Step} {cm : CMol} {cq : CQuery}
    (c : Ctx q m cl lq cm cq) (cand : List Nat)
    (hpairs : ∀ p ∈ q.atoms, ∀ r ∈ m.atoms, NoHeavyClash p.2 r.2 ∧ HKnown p.2 r.2) :
    getMappingC cm cq (scopeArray m cand) = Iso.getMapping (envOfP q m cl lq cand) :=
  getMappingC_eq_python c cand hpairs

/-- **`scratch_array_is_clean`**: the `.pyx` matcher transcribed with its scratch array `closures[]` as explicit state (allocated and
    zeroed once; written by the fill loop of a candidate, read by the comparison loop, zeroed by the last loop of the block) finds the
    array all-zero at every candidate, so it yields exactly what the matcher with the array read as a local function yields.
    The model the driver runs (`cythonPathS`) is therefore the one the theorems are about (`cythonPath`). -/
theorem scratch_array_is_clean :
    (∀ (m : CMol) (q : CQuery) (scope : List Bool), getMappingCS m q scope = getMappingC m q scope) ∧
    (∀ (q : LQuery) (m : LMol) (tComps : List (List Nat)) (scope : Option (List Nat)) (autoF : Bool),
      cythonPathS q m tComps scope autoF = cythonPath q m tComps scope autoF) := by
  refine ⟨getMappingCS_eq, ?_⟩
  intro q m tComps scope autoF
  unfold cythonPathS cythonPath
  have : getMappingCS = getMappingC := by funext m q scope; exact getMappingCS_eq m q scope
  rw [this]

/-- one candidate: from an all-zero array the literal closure block returns the verdict of `closureC` and leaves the array all-zero -/
theorem closure_block_restores_scratch (m : CMol) (q : CQuery) (qa : CQAtom) (mAtom : CAtom) (n : Nat) (matched : List Bool)
    (path : List Nat) (N : Nat) (hp : ∀ x ∈ path, x < N) :
    closureCS m q qa mAtom n matched path (List.replicate N 0) =
      (closureC m q qa mAtom n matched path).map (fun b => (b, List.replicate N 0)) :=
  closureCS_clean m q qa mAtom n matched path N hp

/-- `_compile_query` never records two closure lists for the same atom (keys of the closures dict are distinct) -/
theorem compile_closure_keys_distinct (g : Iso.Graph) (comps : List (List Iso.Step)) (cl : Iso.Closures)
    (h : Iso.compileQuery g = some (comps, cl)) : (cl.map (·.1)).Nodup :=
  compile_closure_keys_nodup g comps cl h

/-- `_cython_compiled_structure` does not raise on a molecule in the shape `MolOK` (`_bonds` keyed like `_atoms`, distinct numbers,
    neighbours are atoms, bond orders 1/2/3/4/8, atoms in `ADom`) whose sizes fit the 32-bit fields -/
theorem structure_encoder_total (m : LMol) (hm : MolOK m) (hs : MolSmall m) : ∃ cm, encStructure m = .ok cm :=
  encStructure_total m hm hs

/-- `_cython_compiled_query` does not raise for any component of an accepted linearisation of a well-formed query in the shape
    `QueryOK` whose sizes fit the 32-bit fields -/
theorem query_encoder_total (q : LQuery) (hq : QueryOK q) (hqwf : q.graph.WF = true) (comps : List (List Iso.Step)) (cl : Iso.Closures)
    (hCO : ChythonModel.Proofs.C07.CompiledOK q.graph comps cl) (hcl : (cl.map (·.1)).Nodup) (hs : QuerySmall q cl)
    (lq : List Iso.Step) (hlq : lq ∈ comps) : ∃ cq, encComponent q cl lq = .ok cq :=
  encComponent_total q hq hqwf comps cl hCO hcl hs lq hlq

/-- the end-to-end equality whenever compiling the query and the structure did not raise (no size hypotheses) -/
theorem cython_search_eq_python_search_of_compiled (q : LQuery) (m : LMol) (tComps : List (List Nat)) (scope : Option (List Nat))
    (autoF : Bool) (hm : MolOK m) (hq : QueryOK q) (hqwf : q.graph.WF = true) (hqne : q.atoms ≠ [])
    (hpairs : ∀ p ∈ q.atoms, ∀ r ∈ m.atoms, NoHeavyClash p.2 r.2 ∧ HKnown p.2 r.2)
    (comps : List (List Iso.Step)) (cl : Iso.Closures) (hcq : Iso.compileQuery q.graph = some (comps, cl))
    (cqs : List CQuery) (henq : encQuery q comps cl = .ok cqs) (cm : CMol) (hems : encStructure m = .ok cm) :
    cythonPath q m tComps scope autoF = pythonPath q m tComps scope autoF :=
  cythonPath_eq_pythonPath q m tComps scope autoF hm hq hqwf hqne hpairs comps cl hcq
    (compile_closure_keys_nodup q.graph comps cl hcq) cqs henq cm hems

/-- **`cython_search_eq_python_search`** — the property, end to end, on the models the driver runs: for every non-empty well-formed
    query (`QueryOK`, `q.graph.WF`) and molecule (`MolOK`) with sizes fitting the 32-bit buffer fields whose (query atom, atom) pairs
    lie in the documented domain (`NoHeavyClash`, `HKnown`; atoms in `ADom`, query atoms in `QDom`), for every list of target
    components, every searching scope and both `automorphism_filter` settings,
    `query.get_mapping(mol)` with the extension installed (`cythonPath`: both encoders, the `.pyx` matcher, the shared component /
    permutation / `lazy_product` / filter glue) neither raises nor differs from `query.get_mapping(mol, _cython=False)`
    (`pythonPath`: C07's model of `_get_mapping` with C08's `pyEq` / `bondEq`): the same mappings in the same order — in particular the
    same set of mappings, which is what the property states. -/
theorem cython_search_eq_python_search (q : LQuery) (m : LMol) (tComps : List (List Nat)) (scope : Option (List Nat)) (autoF : Bool)
    (hm : MolOK m) (hms : MolSmall m) (hq : QueryOK q) (hqwf : q.graph.WF = true) (hqne : q.atoms ≠ [])
    (hqs : ∀ comps cl, Iso.compileQuery q.graph = some (comps, cl) → QuerySmall q cl)
    (hpairs : ∀ p ∈ q.atoms, ∀ r ∈ m.atoms, NoHeavyClash p.2 r.2 ∧ HKnown p.2 r.2) :
    cythonPath q m tComps scope autoF = pythonPath q m tComps scope autoF :=
  cythonPath_eq_pythonPath_total q m tComps scope autoF hm hms hq hqwf hqne hqs hpairs

/-! a non-trivial instance of the hypotheses of `cython_search_eq_python_search`: the query `[C;D2]-[O;h1]` and ethanol -/

def exQ : LQuery :=
  { atoms := [(1, { kind := .element 6 none, neighbors := [2] }), (2, { kind := .element 8 none, implH := [1] })],
    adj := [(1, [(2, { orders := [1] })]), (2, [(1, { orders := [1] })])] }

def exC1 : MAtom := { z := 6, neighbors := 1, implH := some 3 }
def exC2 : MAtom := { z := 6, neighbors := 2, implH := some 2, heteroatoms := 1 }
def exO : MAtom := { z := 8, neighbors := 1, implH := some 1 }

def exM : LMol :=
  { atoms := [(1, exC1), (2, exC2), (3, exO)],
    adj := [(1, [(2, ⟨1, false⟩)]), (2, [(1, ⟨1, false⟩), (3, ⟨1, false⟩)]), (3, [(2, ⟨1, false⟩)])] }

private theorem exAD (a : MAtom) (mdl : Nat) (h : a = exC1 ∨ a = exC2 ∨ a = exO) (hm : mdl = 12 ∨ mdl = 16) : ADom mdl a := by
  rcases h with rfl | rfl | rfl <;> rcases hm with rfl | rfl <;>
    (constructor <;> simp [exC1, exC2, exO, isoTruthy, hOr, sHNone])

private theorem exHyps : MolOK exM ∧ MolSmall exM ∧ QueryOK exQ ∧ exQ.graph.WF = true ∧ exQ.atoms ≠ [] := by
  refine ⟨⟨by decide, by decide, by decide, by decide, ?_, ?_⟩, ⟨by decide, by decide, by decide⟩, ⟨?_, ?_⟩, by decide, by decide⟩
  · intro r hr kb hkb
    simp only [exM, List.mem_cons, List.mem_nil_iff, or_false] at hr
    rcases hr with rfl | rfl | rfl <;> simp only [List.mem_cons, List.mem_nil_iff, or_false] at hkb <;>
      (first | (rcases hkb with rfl | rfl <;> exact Or.inl rfl) | (subst hkb; exact Or.inl rfl))
  · intro p hp
    simp only [exM, List.mem_cons, List.mem_nil_iff, or_false] at hp
    rcases hp with rfl | rfl | rfl
    · exact ⟨12, by decide, exAD _ _ (Or.inl rfl) (Or.inl rfl)⟩
    · exact ⟨12, by decide, exAD _ _ (Or.inr (Or.inl rfl)) (Or.inl rfl)⟩
    · exact ⟨16, by decide, exAD _ _ (Or.inr (Or.inr rfl)) (Or.inr rfl)⟩
  · intro p hp
    simp only [exQ, List.mem_cons, List.mem_nil_iff, or_false] at hp
    rcases hp with rfl | rfl <;> (constructor <;> simp)
  · intro r hr kb hkb x hx
    simp only [exQ, List.mem_cons, List.mem_nil_iff, or_false] at hr
    rcases hr with rfl | rfl <;> simp only [List.mem_cons, List.mem_nil_iff, or_false] at hkb <;> subst hkb <;>
      (simp at hx; subst hx; exact Or.inl rfl)


private theorem exPairs : ∀ p ∈ exQ.atoms, ∀ r ∈ exM.atoms, NoHeavyClash p.2 r.2 ∧ HKnown p.2 r.2 := by
  intro p hp r hr
  simp only [exQ, exM, List.mem_cons, List.mem_nil_iff, or_false] at hp hr
  rcases hp with rfl | rfl <;> rcases hr with rfl | rfl | rfl <;>
    exact ⟨Or.inl ⟨by decide, by intro z hz; simp [kindElems] at hz; subst hz; decide⟩, Or.inl rfl⟩

private theorem exSmall : ∀ comps cl, Iso.compileQuery exQ.graph = some (comps, cl) → QuerySmall exQ cl := by
  intro comps cl h
  have hv : Iso.compileQuery exQ.graph = some ([[⟨1, none⟩, ⟨2, some 1⟩]], [(2, [])]) := by decide
  rw [hv] at h
  simp only [Option.some.injEq, Prod.mk.injEq] at h
  obtain ⟨_, rfl⟩ := h
  exact ⟨by decide, by decide, by decide⟩

/-- the theorem applied to `[C;D2]-[O;h1]` on ethanol, and the (non-empty) value both paths return -/
example : cythonPath exQ exM [[1, 2, 3]] none true = pythonPath exQ exM [[1, 2, 3]] none true ∧
    pythonPath exQ exM [[1, 2, 3]] none true = .ok [[(1, 2), (2, 3)]] :=
  ⟨cython_search_eq_python_search exQ exM [[1, 2, 3]] none true exHyps.1 exHyps.2.1 exHyps.2.2.1 exHyps.2.2.2.1 exHyps.2.2.2.2 exSmall exPairs,
   by decide⟩


/-! ## memory safety of the matcher's bookkeeping arrays

`Model/C09Arrays.lean` is the `.pyx` matcher with a guard in front of every access to `path`, `stack_index`, `stack_depth`, `matched`
and `closures`, comparing the index with the element count `get_mapping` allocates (`Gen/C09Alloc.lean`, regenerated from the
`PyMem_Malloc` / `memset` expressions of the `.pyx`). The driver runs this machine (`cythonPathA`, `getMappingA`). -/

open ChythonModel.Gen.C09Alloc in
/-- the allocated element counts, exactly as the `.pyx` computes them, are large enough for `qn` query atoms and `mn` molecule atoms:
    `path` holds `qn - 1` entries, `stack_index` / `stack_depth` one batch of distinct atoms per query depth (`qn * mn`), `matched` and
    `closures` one slot per atom, both zero-filled over exactly the allocation. (With the `2 * mn` stack of before repo commit e44243a
    this is false: `Findings/C09.lean: old_stack_size_overflows`.) -/
theorem allocation_sizes_suffice (qn mn : Nat) : AllocOK (allocOf qn mn) qn mn := allocOf_ok qn mn

open ChythonModel.Gen.C09Alloc in
/-- **stack pointer bound**: waiting entries are pairwise distinct `(atom, depth)` pairs, deeper ones on top, atoms below `mn`,
    depths at most `qdec` (`StackOK`, the invariant of the loop) — so there are never more of them than `stack_index` and
    `stack_depth` have elements -/
theorem stack_pointer_bound (mn qdec : Nat) (stack : List (Nat × Nat)) (h : StackOK mn qdec stack) :
    stack.length ≤ allocStackIndex (qdec + 1) mn ∧ stack.length ≤ allocStackDepth (qdec + 1) mn := by
  have := stack_length_le mn qdec stack h
  exact ⟨by simpa only [allocStackIndex] using this, by simpa only [allocStackDepth] using this⟩

open ChythonModel.Gen.C09Alloc in
/-- **`compiled_matcher_memory_safe`**: on every structure buffer whose bond rows name distinct atoms of the buffer (`BufWF`), for every
    query buffer and scope, the matcher with its arrays at the allocated sizes behaves like the matcher without bounds (`Agrees`):
    it yields the same mappings and its stack pointer never exceeds the element count of `stack_index`; when it stops without
    result it is because the unguarded matcher does (a read outside a *buffer*: `Fault.range`, or the model's recursion budget:
    `Fault.fuel`) — never `Fault.oob` / `Fault.uninit`.
    Every guard covers: the stack writes, `path[path_size]`, `matched[…]` reads and writes, `closures[…]` reads and writes, the memsets. -/
theorem compiled_matcher_memory_safe (m : CMol) (q : CQuery) (scope : List Bool) (hwf : BufWF m) :
    Agrees (allocStackIndex q.atoms.length m.atoms.length)
      (getMappingA (allocOf q.atoms.length m.atoms.length) m q scope) (getMappingCS m q scope) := by
  have := getMappingA_agrees (allocOf q.atoms.length m.atoms.length) m q scope hwf (allocOf_ok _ _)
  simpa only [allocStackIndex] using this

/-- the same, spelled out: no access outside an allocation, no read of memory that was not zero-filled -/
theorem compiled_matcher_never_out_of_bounds (m : CMol) (q : CQuery) (scope : List Bool) (hwf : BufWF m) (f : Fault)
    (h : getMappingA (allocOf q.atoms.length m.atoms.length) m q scope = .error f) : f = .range ∨ f = .fuel := by
  have ha := compiled_matcher_memory_safe m q scope hwf
  rw [h] at ha
  unfold Agrees at ha
  cases f with
  | range => exact Or.inl rfl
  | fuel => exact Or.inr rfl
  | oob a i n => cases hS : getMappingCS m q scope <;> rw [hS] at ha <;> exact ha.elim
  | uninit a => cases hS : getMappingCS m q scope <;> rw [hS] at ha <;> exact ha.elim

/-- what `_cython_compiled_structure` returns for a molecule in the shape `MolOK` is such a buffer -/
theorem encoder_output_rows_wellformed (m : LMol) (cm : CMol) (hm : MolOK m) (h : encStructure m = .ok cm) : BufWF cm :=
  bufWF_of_enc m cm hm h

/-- hence the accelerated path with guarded arrays (what the driver runs) is the accelerated path of the equivalence theorems, for
    every query, target-component list, scope and filter setting — no hypothesis on the query at all -/
theorem guarded_path_is_accelerated_path (q : LQuery) (m : LMol) (tComps : List (List Nat)) (scope : Option (List Nat)) (autoF : Bool)
    (hm : MolOK m) : cythonPathA q m tComps scope autoF = cythonPath q m tComps scope autoF :=
  cythonPathA_eq_cythonPath q m tComps scope autoF hm

/-- … and on the documented domain it returns what the reference matcher returns -/
theorem guarded_search_eq_python_search (q : LQuery) (m : LMol) (tComps : List (List Nat)) (scope : Option (List Nat)) (autoF : Bool)
    (hm : MolOK m) (hms : MolSmall m) (hq : QueryOK q) (hqwf : q.graph.WF = true) (hqne : q.atoms ≠ [])
    (hqs : ∀ comps cl, Iso.compileQuery q.graph = some (comps, cl) → QuerySmall q cl)
    (hpairs : ∀ p ∈ q.atoms, ∀ r ∈ m.atoms, NoHeavyClash p.2 r.2 ∧ HKnown p.2 r.2) :
    cythonPathA q m tComps scope autoF = pythonPath q m tComps scope autoF := by
  rw [cythonPathA_eq_cythonPath q m tComps scope autoF hm]
  exact cythonPath_eq_pythonPath_total q m tComps scope autoF hm hms hq hqwf hqne hqs hpairs

/-- **`compiled_matcher_returns_normally`** (total correctness of the bookkeeping): on a structure buffer whose atoms all have a bond
    row inside the buffer naming distinct atoms of the buffer (`BufWF`, `RowsOK`), a non-empty query buffer whose parent and
    closure-partner indices point to earlier steps and whose closure rows lie inside the buffer (`QBufWF`), and a scope array covering
    the atoms, `get_mapping` with its arrays at the allocated sizes returns normally: no access outside an allocation (`Fault.oob`),
    no read of memory that was not zero-filled (`Fault.uninit`), no read outside a buffer or beyond the filled part of `path`
    (`Fault.range`: `path[q_atom.back]`, `path[j_bond.index]`, `path[i]` / `query.atoms[i]` / `molecule.atoms[path[i]]` of the yielded
    mapping — the mapping index bound), and the recursion budget `fuelC` of the model is never exhausted (each step lowers the
    potential `Σ (atoms + 1) ^ (query atoms − depth)` of the waiting entries) -/
theorem compiled_matcher_returns_normally (m : CMol) (q : CQuery) (scope : List Bool) (hwf : BufWF m) (hrows : RowsOK m)
    (hq : QBufWF q) (hq1 : q.atoms ≠ []) (hsc : m.atoms.length ≤ scope.length) :
    ∃ r, getMappingA (allocOf q.atoms.length m.atoms.length) m q scope = .ok r :=
  getMappingA_ok m q scope hwf hrows hq hq1 hsc

/-- … and the buffers the two encoders produce (`Ctx`: `MolOK`, `QueryOK`, both encoders succeeded on an accepted linearisation) are
    such buffers, with the scope array `get_mapping` is called with: the compiled matcher returns normally on every call the
    accelerated path makes -/
theorem compiled_matcher_returns_normally_on_encoder_outputs {q : LQuery} {m : LMol} {cl : Iso.Closures} {lq : List Iso.Step}
    {cm : CMol} {cq : CQuery} (c : Ctx q m cl lq cm cq) (cand : List Nat) :
    ∃ r, getMappingA (allocOf cq.atoms.length cm.atoms.length) cm cq (scopeArray m cand) = .ok r :=
  getMappingA_ok_of_ctx c cand

/-- **`closures_counter` bound**: the counter counts recorded neighbours of one bond row, at most the row length, at most the number
    of atoms (< 2^32 for every buffer the encoder can build: the count field is 32 bits wide) — it cannot wrap -/
theorem closures_counter_bound (m : CMol) (hwf : BufWF m) (i : Nat) (ca : CAtom) (nb : List CBond) (flags : List Bool) (n : Nat)
    (ha : m.atoms[i]? = some ca) (hs : slice? m.bonds ca.from_ ca.to_ = some nb) :
    (hitsOf nb flags n).length ≤ nb.length ∧ nb.length ≤ m.atoms.length :=
  counter_le m hwf i ca nb flags n ha hs

/-- **no stale scratch read**: every candidate finds `closures[]` all-zero (`scratch_array_is_clean`); after its fill loop every
    non-zero entry — in particular every `c_bond` the comparison loop reads — is the bond word that this candidate's own fill loop
    wrote for exactly that atom. (From an array that is not clean the verdict can differ:
    `Findings/C09.lean: stale_entry_changes_verdict`.) -/
theorem no_stale_scratch_read (hits : List CBond) (N x c : Nat)
    (h : (fillScratch (List.replicate N 0) hits)[x]? = some c) (hc : c ≠ 0) : ∃ jb ∈ hits, jb.index = x ∧ jb.bond = c :=
  fill_read_own hits N x c h hc

/-- the hypotheses are satisfiable: ethanol's buffer exists and is well-formed, and the guarded matcher runs on it -/
example : ∃ cm, encStructure exM = .ok cm ∧ BufWF cm := by
  obtain ⟨cm, h⟩ := structure_encoder_total exM exHyps.1 exHyps.2.1
  exact ⟨cm, h, bufWF_of_enc exM cm exHyps.1 h⟩

example : cythonPathA exQ exM [[1, 2, 3]] none true = .ok [[(1, 2), (2, 3)]] := by decide

/-- the full-strength statement the property text asks for ("every element 1–118", any hydrogen state, any `h` value the query API
    accepts, any ring size): **false** for the current code — `Findings/C09.lean` proves `¬ MaskEqPyEqFull` from four witnesses
    (Lv/Ts, unknown H, h5, ring 66). `mask_eq_pyEq` above is the `_partial` with exactly these classes excluded. -/
def MaskEqPyEqFull : Prop :=
  ∀ (q : QAtom) (a : MAtom) (mdl qmdl : Nat), mdlOf a.z = some mdl → qmdlFor q = .ok qmdl → QApi q → AApi mdl a →
    rootOk ⟨(qWords qmdl q none).v1, (qWords qmdl q none).v2, (qWords qmdl q none).v3, (qWords qmdl q none).v4, 0, 0, 0, 0, 0⟩
           ⟨(atomWords mdl a).v1, (atomWords mdl a).v2, (atomWords mdl a).v3, (atomWords mdl a).v4, 0, 0, 0⟩ = pyEq q a

end ChythonModel.Props.C09
