import ChythonModel.Proofs.C17EquivTop
import ChythonModel.Proofs.C17Local
import ChythonModel.Gen.C17Cache
/-!
# C17 — fingerprints are structure functions with the documented fragment semantics

Every theorem is about the definitions of `Model/Fingerprint.lean` that the driver `drv_c17` runs and that the
correspondence compares, integer for integer, with chython. `H` is the tuple hash: the theorems hold for every
hash function; the driver uses `Py.pyHashTuple`.
-/
namespace ChythonModel.Props.C17
open ChythonModel.Model ChythonModel.Model.Fingerprint ChythonModel.Spec.Fingerprint ChythonModel.Proofs.C17

/-- propan-2-ol skeleton `C1–C2(–O4)–C3`, numbered and inserted in a scrambled order (used by the `example`s) -/
def exMol : Mol :=
  let c : Atom := { z := 6 }
  let o : Atom := { z := 8 }
  let s : Bond := { order := 1 }
  ⟨[(3, c), (1, c), (4, o), (2, c)],
   [(3, [(2, s)]), (1, [(2, s)]), (4, [(2, s)]), (2, [(4, s), (1, s), (3, s)])]⟩

/-! ## the path enumeration (`_chains`) -/

/-- the queue loop terminates and no subscript fails: on a well-formed molecule `_chains` returns a value for all radii
    (the model never reports exhausted fuel; the bound `chainsFuel` suffices) -/
theorem chains_total (m : Mol) (hwf : m.WF = true) (lo hi : Int) : ∃ r, chains m lo hi = .ok r := chains_ok m hwf lo hi

/-- the error branch: `bonds[now[-1]]` of an atom without a neighbour dict is a `KeyError`, as in Python -/
theorem chains_keyError (m : Mol) (now : Path) (l : Nat) (hl : now.getLast? = some l) (hno : m.adj.lookup l = none) :
    extend m now = .error .keyError := extend_keyError m now l hl hno

example : chains ⟨[(1, { z := 6 })], []⟩ 1 2 = .error .keyError := by rfl

/-- **chains_exact** — for radii `1 ≤ lo ≤ hi`, `_chains` returns exactly the direction-canonical forms of the simple
    paths with `lo … hi` atoms (soundness and completeness). -/
theorem chains_exact (m : Mol) (hwf : m.WF = true) (lo hi : Int) (h1 : 1 ≤ lo) (h2 : lo ≤ hi) (r : List Path)
    (h : chains m lo hi = .ok r) (x : Path) :
    x ∈ r ↔ ∃ p, SimplePath m p ∧ lo ≤ (p.length : Int) ∧ (p.length : Int) ≤ hi ∧ x = canon p :=
  chains_exact_aux m hwf lo hi h1 h2 r h x

example : exMol.WF = true ∧ chains exMol 2 3 = .ok [[3, 2], [2, 1], [4, 2], [4, 2, 3], [3, 2, 1], [4, 2, 1]] :=
  ⟨by decide, by rfl⟩

/-- the returned collection is a set: each undirected path appears once -/
theorem chains_nodup (m : Mol) (hwf : m.WF = true) (lo hi : Int) (r : List Path) (h : chains m lo hi = .ok r) :
    r.Nodup := chains_nodup_aux m hwf lo hi r h

/-- the canonical form identifies exactly a path and its reverse (palindromes are not double counted) -/
theorem canon_identifies_directions (p q : Path) : canon p = canon q ↔ p = q ∨ p = q.reverse := canon_eq_iff p q

/-- the reverse of a simple path is a simple path (so "undirected simple path" is well defined) -/
theorem simple_path_reverse (m : Mol) (hwf : m.WF = true) (p : Path) (h : SimplePath m p) : SimplePath m p.reverse :=
  simplePath_reverse m (adj_symm_of_wf m hwf) p h

/-! ## `int(log2(length))` — the float caveat made explicit -/

open ChythonModel.Gen.C17 in
/-- the measured table is well formed: every threshold lies strictly inside its binade `(2^(k−1), 2^k)`, `k ≤ 64` -/
theorem log2_table_sane :
    ∀ kt ∈ log2RoundsUpFrom, 2 ^ (kt.1 - 1) < kt.2 ∧ kt.2 < 2 ^ kt.1 ∧ kt.1 ≤ 64 := by decide +kernel

open ChythonModel.Gen.C17 in
/-- **log2_trunc_exact_below** — the exact domain: for every `length < 2^49 − 1` the model's `int(log2(length))` is the
    integer logarithm `Nat.log2` (power of two or not) … -/
theorem log2_trunc_exact_below (n : Nat) (h : n < 2 ^ 49 - 1) : pyLog2Trunc n = n.log2 := by
  apply pyLog2Trunc_of_none
  have htab : ∀ kt ∈ log2RoundsUpFrom, 2 ^ 49 - 1 ≤ kt.2 := by decide +kernel
  rintro kt hk ⟨h1, _⟩
  have := htab kt hk
  omega

/-- … and the boundary is sharp: at `length = 2^49 − 1` the float logarithm rounds up to 49 (measured table) while
    `⌊log₂⌋ = 48` -/
theorem log2_trunc_boundary : pyLog2Trunc (2 ^ 49 - 1) = 49 ∧ (2 ^ 49 - 1).log2 = 48 := by decide +kernel

/-- on that domain it is the floor of the real logarithm: `2^log ≤ length < 2^(log+1)` -/
theorem log2_trunc_is_floor (n : Nat) (h0 : 0 < n) (h : n < 2 ^ 49 - 1) :
    2 ^ pyLog2Trunc n ≤ n ∧ n < 2 ^ (pyLog2Trunc n + 1) := by
  rw [log2_trunc_exact_below n h]
  exact ⟨Nat.log2_self_le (by omega), Nat.lt_log2_self⟩

/-- for a power of two of any size the logarithm is exact (the documented use: "length should be a power of 2") -/
theorem log2_trunc_pow (k : Nat) : pyLog2Trunc (2 ^ k) = k :=
  pyLog2Trunc_pow_of k (fun kt hk => (log2_table_sane kt hk).1)

/-! ## folding (`linear_bit_set`, `morgan_bit_set`) -/

/-- **active_bits_formula** — the bit set is exactly `{ (h >> j·log2(length)) & (length−1) | h ∈ hashes, j = 0 or j < number_active_bits }` -/
theorem active_bits_formula (length : Nat) (nab : Int) (hashes : List Int) (b : Nat) :
    b ∈ activeBits length nab hashes ↔
      ∃ h ∈ hashes, ∃ j : Nat, (j = 0 ∨ (j : Int) < nab) ∧ b = pyAndMask (h >>> (j * pyLog2Trunc length)) (length - 1) := by
  unfold activeBits
  rw [mem_toSet, List.mem_flatMap]
  constructor
  · rintro ⟨h, hh, hb⟩; exact ⟨h, hh, (mem_bitsOfHash length nab h b).mp hb⟩
  · rintro ⟨h, hh, hb⟩; exact ⟨h, hh, (mem_bitsOfHash length nab h b).mpr hb⟩

/-- **bits_lt_length** — every index is below the requested length, for hashes of either sign, every positive length
    (power of two or not) and every `number_active_bits` -/
theorem bits_lt_length (length : Nat) (hl : 1 ≤ length) (nab : Int) (hashes : List Int) (b : Nat)
    (hb : b ∈ activeBits length nab hashes) : b < length := by
  obtain ⟨h, _, j, _, rfl⟩ := (active_bits_formula length nab hashes b).mp hb
  have := pyAndMask_le (h >>> (j * pyLog2Trunc length)) (length - 1)
  omega

example : activeBits 8 3 [-1, 1000] = [0, 5, 7] := by decide

/-- for `length = 2^k` the `j`-th index of hash `h` is the `j`-th `k`-bit window of `h` in two's complement:
    `⌊h / 2^(j·k)⌋ mod 2^k` (floor division — negative hashes included) -/
theorem window_semantics (k : Nat) (h : Int) (j : Nat) :
    (pyAndMask (h >>> (j * pyLog2Trunc (2 ^ k))) (2 ^ k - 1) : Int) = (h / (2 ^ (j * k) : Int)) % (2 ^ k : Int) := by
  rw [pyAndMask_pow, log2_trunc_pow, Int.shiftRight_eq_div_pow]
  simp

/-- `linear_bit_set` either raises `ValueError` (length ≤ 0) / propagates an error, or returns indices below `length` -/
theorem linear_bits_lt_length (H : TupleHash) (m : Mol) (lo hi length nab nbp : Int) (bits : List Nat)
    (h : linearBitSet H m lo hi length nab nbp = .ok bits) : ∀ b ∈ bits, (b : Int) < length := by
  unfold linearBitSet at h
  by_cases hl : length ≤ 0
  · simp [hl, bind, Except.bind, throw, throwThe, MonadExceptOf.throw] at h
  · simp only [hl, if_false, bind, Except.bind, pure, Except.pure] at h
    cases hh : linearHashSet H m lo hi nbp with
    | error e => simp [hh] at h
    | ok hs =>
      simp only [hh] at h
      cases h
      intro b hb
      have := bits_lt_length length.toNat (by omega) nab hs b hb
      omega

theorem morgan_bits_lt_length (H : TupleHash) (m : Mol) (lo hi length nab : Int) (bits : List Nat)
    (h : morganBitSet H m lo hi length nab = .ok bits) : ∀ b ∈ bits, (b : Int) < length := by
  unfold morganBitSet at h
  by_cases hl : length ≤ 0
  · simp [hl, bind, Except.bind, throw, throwThe, MonadExceptOf.throw] at h
  · simp only [hl, if_false, bind, Except.bind, pure, Except.pure] at h
    cases hh : morganHashSet H m lo hi with
    | error e => simp [hh] at h
    | ok hs =>
      simp only [hh] at h
      cases h
      intro b hb
      have := bits_lt_length length.toNat (by omega) nab hs b hb
      omega

/-- the error branch: a non-positive length is rejected before anything else is computed -/
theorem bit_set_rejects_nonpositive_length (H : TupleHash) (m : Mol) (lo hi length nab nbp : Int) (hl : length ≤ 0) :
    linearBitSet H m lo hi length nab nbp = .error .valueError ∧ morganBitSet H m lo hi length nab = .error .valueError := by
  simp [linearBitSet, morganBitSet, hl, bind, Except.bind, throw, throwThe, MonadExceptOf.throw]

/-! ## the fragment dictionary (`_fragments`) and `linear_hash_set` -/

/-- on a well-formed molecule `_fragments` raises no `KeyError` -/
theorem fragments_total (H : TupleHash) (m : Mol) (hwf : m.WF = true) (lo hi : Int) (h1 : 1 ≤ lo) (h2 : lo ≤ hi) :
    ∃ d, fragments H m lo hi = .ok d := by
  obtain ⟨cs, _, hd⟩ := fragments_eq H m hwf lo hi h1 h2
  exact ⟨_, hd⟩

/-- **fragments_count** — keys are distinct; every simple path of the window has its key (`fragKey`: the label sequence
    read in its larger direction) in the dict; and the list stored under a key `K` holds, each read in the direction that
    spells `K`, exactly one entry per *undirected* simple path of the window whose key is `K`
    (`ps.map canon` is duplicate free and its members are exactly the canonical forms of those paths — palindromic
    label sequences are not double counted). -/
theorem fragments_count (H : TupleHash) (m : Mol) (hwf : m.WF = true) (lo hi : Int) (h1 : 1 ≤ lo) (h2 : lo ≤ hi)
    (d : FragDict) (h : fragments H m lo hi = .ok d) :
    (d.map (·.1)).Nodup ∧
    (∀ p, SimplePath m p → lo ≤ (p.length : Int) → (p.length : Int) ≤ hi → ∃ ps, (fragKey H m p, ps) ∈ d) ∧
    ∀ K ps, (K, ps) ∈ d →
      (∀ q ∈ ps, labelSeq H m q = K) ∧ (ps.map canon).Nodup ∧
      ∀ x, x ∈ ps.map canon ↔
        ∃ p, SimplePath m p ∧ lo ≤ (p.length : Int) ∧ (p.length : Int) ≤ hi ∧ fragKey H m p = K ∧ x = canon p :=
  fragments_struct H m hwf lo hi h1 h2 d h

example : ∃ d, fragments Py.pyHashTuple exMol 1 3 = .ok d ∧ d.length = 6 ∧ (d.map (·.2.length)) = [3, 1, 2, 1, 2, 1] :=
  ⟨_, rfl, by decide, by decide⟩

/-- the key does not depend on the direction in which the path is read -/
theorem fragKey_direction_free (H : TupleHash) (m : Mol) (hwf : m.WF = true) (p : Path) :
    fragKey H m p.reverse = fragKey H m p := fragKey_reverse H m hwf p

/-- **multiplicity_cap** — a fragment found `n` times contributes `hash((*key, cnt))` for exactly the counts
    `cnt < min(n, number_bit_pairs)`; with `number_bit_pairs = 0` the cap is the code's sentinel 999 999 999
    ("all repeats" for every molecule with fewer occurrences than that) -/
theorem multiplicity_cap (H : TupleHash) (nbp : Int) (d : FragDict) (x : Int) :
    x ∈ hashesOfDict H nbp d ↔ ∃ K ps, (K, ps) ∈ d ∧ ∃ cnt : Nat, cnt < ps.length ∧
      (if nbp = 0 then cnt < 999999999 else (cnt : Int) < nbp) ∧ x = H (K ++ [(cnt : Int)]) :=
  mem_hashesOfDict H nbp d x

/-- `linear_hash_set` is `hashesOfDict` of the fragment dict (and raises nothing on a well-formed molecule) -/
theorem linear_hash_set_exact (H : TupleHash) (m : Mol) (hwf : m.WF = true) (lo hi nbp : Int) (h1 : 1 ≤ lo) (h2 : lo ≤ hi) :
    ∃ d, fragments H m lo hi = .ok d ∧ linearHashSet H m lo hi nbp = .ok (hashesOfDict H nbp d) := by
  obtain ⟨d, hd⟩ := fragments_total H m hwf lo hi h1 h2
  exact ⟨d, hd, by simp [linearHashSet, hd, bind, Except.bind, pure, Except.pure]⟩

/-! ## Morgan identifiers (`_morgan_hash_dict`, `morgan_hash_set`) -/

/-- **morgan_layers** — for `1 ≤ lo ≤ hi` the result is the list of the identifier dicts of radii `lo … hi`, where the
    radius-`r+1` identifier of an atom is `ecIdent r`: `r` rounds of "hash of own identifier followed by the sorted
    (bond order, neighbour identifier) pairs" starting from the atom identifiers -/
theorem morgan_layers (H : TupleHash) (m : Mol) (hwf : m.WF = true) (lo hi : Int) (h1 : 1 ≤ lo) (h2 : lo ≤ hi) :
    morganHashDict H m lo hi =
      .ok ((List.range' (lo - 1).toNat (hi - lo + 1).toNat).map fun i => m.ids.map fun x => (x, ecIdent H m i x)) :=
  morganHashDict_ok H m hwf lo hi h1 h2

/-- the radius asserts -/
theorem morgan_rejects_bad_radii (H : TupleHash) (m : Mol) (lo hi : Int) (h : lo < 1 ∨ hi < lo) :
    morganHashDict H m lo hi = .error .assertionError := by
  unfold morganHashDict
  by_cases e : lo < 1
  · simp [e, bind, Except.bind, throw, throwThe, MonadExceptOf.throw]
  · have : hi < lo := by omega
    simp [e, this, bind, Except.bind, throw, throwThe, MonadExceptOf.throw]

/-- **morgan_hash_set_exact** — the set of the neighbourhood identifiers of all atoms for the radii `lo … hi` -/
theorem morgan_hash_set_exact (H : TupleHash) (m : Mol) (hwf : m.WF = true) (lo hi : Int) (h1 : 1 ≤ lo) (h2 : lo ≤ hi)
    (hs : List Int) (h : morganHashSet H m lo hi = .ok hs) (x : Int) :
    x ∈ hs ↔ ∃ r : Nat, lo ≤ (r : Int) + 1 ∧ (r : Int) + 1 ≤ hi ∧ ∃ a ∈ m.ids, x = ecIdent H m r a :=
  mem_morganHashSet H m hwf lo hi h1 h2 hs h x

example : ∃ hs, morganHashSet Py.pyHashTuple exMol 1 2 = .ok hs := ⟨_, rfl⟩

/-! ## independence of numbering and of insertion order — for every hash function -/

/-- `exMol` renumbered by `x ↦ 10 − x`, atoms and neighbour dicts inserted in another order -/
def exMol' : Mol :=
  let c : Atom := { z := 6 }
  let o : Atom := { z := 8 }
  let s : Bond := { order := 1 }
  ⟨[(8, c), (6, o), (9, c), (7, c)],
   [(8, [(7, s), (6, s), (9, s)]), (6, [(8, s)]), (9, [(8, s)]), (7, [(8, s)])]⟩

example : Renumbering (fun x => 10 - x) exMol exMol' ∧ exMol.WF = true ∧ exMol'.WF = true :=
  ⟨⟨by decide, by decide, by decide⟩, by decide, by decide⟩

/-- **morgan_dict_equivariant** — an atom keeps its neighbourhood identifier of every radius -/
theorem morgan_dict_equivariant (H : TupleHash) (f : Nat → Nat) (m m' : Mol) (R : Renumbering f m m') (hwf : m.WF = true)
    (r x : Nat) (hx : x ∈ m.ids) : ecIdent H m' r (f x) = ecIdent H m r x := ren_ecIdent R hwf H r x hx

/-- **morgan_hash_set_equivariant** -/
theorem morgan_hash_set_equivariant (H : TupleHash) (f : Nat → Nat) (m m' : Mol) (R : Renumbering f m m')
    (hwf : m.WF = true) (hwf' : m'.WF = true) (lo hi : Int) (h1 : 1 ≤ lo) (h2 : lo ≤ hi) (hs hs' : List Int)
    (h : morganHashSet H m lo hi = .ok hs) (h' : morganHashSet H m' lo hi = .ok hs') (x : Int) :
    x ∈ hs' ↔ x ∈ hs := by
  rw [mem_morganHashSet H m hwf lo hi h1 h2 hs h, mem_morganHashSet H m' hwf' lo hi h1 h2 hs' h']
  constructor
  · rintro ⟨r, hr1, hr2, a', ha', rfl⟩
    obtain ⟨a, ha, rfl⟩ := (ren_mem_ids' R a').mp ha'
    exact ⟨r, hr1, hr2, a, ha, ren_ecIdent R hwf H r a ha⟩
  · rintro ⟨r, hr1, hr2, a, ha, rfl⟩
    exact ⟨r, hr1, hr2, f a, (ren_mem_ids' R _).mpr ⟨a, ha, rfl⟩, (ren_ecIdent R hwf H r a ha).symm⟩

/-- **fragments_equivariant** — both fragment dicts have the same keys with the same multiplicities -/
theorem fragments_equivariant (H : TupleHash) (f : Nat → Nat) (m m' : Mol) (R : Renumbering f m m')
    (hwf : m.WF = true) (hwf' : m'.WF = true) (lo hi : Int) (h1 : 1 ≤ lo) (h2 : lo ≤ hi) (d d' : FragDict)
    (h : fragments H m lo hi = .ok d) (h' : fragments H m' lo hi = .ok d') :
    (∀ K ps, (K, ps) ∈ d → ∃ ps', (K, ps') ∈ d' ∧ ps'.length = ps.length) ∧
    (∀ K ps', (K, ps') ∈ d' → ∃ ps, (K, ps) ∈ d ∧ ps.length = ps'.length) := by
  obtain ⟨cs, hcs, hd⟩ := fragments_eq H m hwf lo hi h1 h2
  obtain ⟨cs', hcs', hd'⟩ := fragments_eq H m' hwf' lo hi h1 h2
  rw [hd] at h; cases h
  rw [hd'] at h'; cases h'
  have hcount := ren_count R hwf hwf' lo hi h1 h2 H cs cs' hcs hcs'
  exact ⟨fun K ps hm => dict_transfer H m m' cs cs' hcount K ps hm,
         fun K ps' hm => dict_transfer H m' m cs' cs (fun K => (hcount K).symm) K ps' hm⟩

/-- **linear_hash_set_equivariant** -/
theorem linear_hash_set_equivariant (H : TupleHash) (f : Nat → Nat) (m m' : Mol) (R : Renumbering f m m')
    (hwf : m.WF = true) (hwf' : m'.WF = true) (lo hi nbp : Int) (h1 : 1 ≤ lo) (h2 : lo ≤ hi) (hs hs' : List Int)
    (h : linearHashSet H m lo hi nbp = .ok hs) (h' : linearHashSet H m' lo hi nbp = .ok hs') (x : Int) :
    x ∈ hs' ↔ x ∈ hs := by
  obtain ⟨d, hd, he⟩ := linear_hash_set_exact H m hwf lo hi nbp h1 h2
  obtain ⟨d', hd', he'⟩ := linear_hash_set_exact H m' hwf' lo hi nbp h1 h2
  rw [he] at h; cases h
  rw [he'] at h'; cases h'
  have ⟨t1, t2⟩ := fragments_equivariant H f m m' R hwf hwf' lo hi h1 h2 d d' hd hd'
  rw [multiplicity_cap, multiplicity_cap]
  constructor
  · rintro ⟨K, ps', hm, cnt, hc1, hc2, rfl⟩
    obtain ⟨ps, hps, hl⟩ := t2 K ps' hm
    exact ⟨K, ps, hps, cnt, by omega, hc2, rfl⟩
  · rintro ⟨K, ps, hm, cnt, hc1, hc2, rfl⟩
    obtain ⟨ps', hps, hl⟩ := t1 K ps hm
    exact ⟨K, ps', hps, cnt, by omega, hc2, rfl⟩

example : ∃ hs hs', linearHashSet Py.pyHashTuple exMol 1 3 2 = .ok hs ∧ linearHashSet Py.pyHashTuple exMol' 1 3 2 = .ok hs' ∧
    hs.length = 9 ∧ ∀ x ∈ hs, x ∈ hs' := ⟨_, _, rfl, rfl, by decide, by decide⟩

/-- **fragments_iteration_order_free** — determinism under the iteration order of the `_chains` *set*: in whatever order
    `for frag in self._chains(…)` meets the paths (any permutation `cs'` of `cs`), the loop of `_fragments` raises nothing
    and builds a dict with the same keys and the same multiplicities, hence `linear_hash_set` has the same members. -/
theorem fragments_iteration_order_free (H : TupleHash) (m : Mol) (hwf : m.WF = true) (cs cs' : List Path)
    (hs : ∀ c ∈ cs, SimplePath m c) (hp : cs'.Perm cs) :
    ∃ d d', cs.foldlM (fragStep (atomIdentifiers H m) m) [] = .ok d ∧
      cs'.foldlM (fragStep (atomIdentifiers H m) m) [] = .ok d' ∧
      (∀ K ps, (K, ps) ∈ d → ∃ ps', (K, ps') ∈ d' ∧ ps'.length = ps.length) ∧
      (∀ K ps', (K, ps') ∈ d' → ∃ ps, (K, ps) ∈ d ∧ ps.length = ps'.length) ∧
      ∀ nbp x, x ∈ hashesOfDict H nbp d' ↔ x ∈ hashesOfDict H nbp d := by
  have hs' : ∀ c ∈ cs', SimplePath m c := fun c hc => hs c (hp.mem_iff.mp hc)
  have hcount : ∀ K, (cs'.filter fun c => fragKey H m c = K).length = (cs.filter fun c => fragKey H m c = K).length :=
    fun K => (hp.filter _).length_eq
  have t1 := fun K ps hm => dict_transfer H m m cs cs' hcount K ps hm
  have t2 := fun K ps' hm => dict_transfer H m m cs' cs (fun K => (hcount K).symm) K ps' hm
  refine ⟨_, _, foldlM_fragStep H m hwf cs [] hs, foldlM_fragStep H m hwf cs' [] hs', t1, t2, ?_⟩
  intro nbp x
  rw [multiplicity_cap, multiplicity_cap]
  constructor
  · rintro ⟨K, ps', hm, cnt, hc1, hc2, rfl⟩
    obtain ⟨ps, hps, hl⟩ := t2 K ps' hm
    exact ⟨K, ps, hps, cnt, by omega, hc2, rfl⟩
  · rintro ⟨K, ps, hm, cnt, hc1, hc2, rfl⟩
    obtain ⟨ps', hps, hl⟩ := t1 K ps hm
    exact ⟨K, ps', hps, cnt, by omega, hc2, rfl⟩


example : ∃ cs, chains exMol 2 3 = .ok cs ∧ (∀ c ∈ cs, SimplePath exMol c) ∧ cs.reverse.Perm cs ∧ cs.reverse ≠ cs := by
  refine ⟨[[3, 2], [2, 1], [4, 2], [4, 2, 3], [3, 2, 1], [4, 2, 1]], by rfl, ?_, List.reverse_perm _, by decide⟩
  intro c hc
  obtain ⟨p, hp, _, _, rfl⟩ := (chains_exact exMol (by decide) 2 3 (by decide) (by decide) _ (by rfl) c).mp hc
  exact simplePath_canon exMol (by decide) p hp

/-- the bit set depends on the hash set only through its members -/
theorem active_bits_of_same_members (length : Nat) (nab : Int) (hs hs' : List Int) (h : ∀ x, x ∈ hs' ↔ x ∈ hs) (b : Nat) :
    b ∈ activeBits length nab hs' ↔ b ∈ activeBits length nab hs := by
  rw [active_bits_formula, active_bits_formula]
  constructor
  · rintro ⟨x, hx, rest⟩; exact ⟨x, (h x).mp hx, rest⟩
  · rintro ⟨x, hx, rest⟩; exact ⟨x, (h x).mpr hx, rest⟩

/-- **active_bits_card** — at most `max 1 number_active_bits` indices per hash, for every length and every hash list -/
theorem active_bits_card (length : Nat) (nab : Int) (hashes : List Int) :
    (activeBits length nab hashes).length ≤ hashes.length * max 1 nab.toNat := by
  unfold activeBits
  exact Nat.le_trans (length_toSet_le _) (length_flatMap_le _ _ _ (fun h _ => length_bitsOfHash_le length nab h))

/-- **hashes_card** — at most `cap` hashes per fragment key (`cap` = `number_bit_pairs`, or the sentinel for 0), and never
    more than the key occurs -/
theorem hashes_card (H : TupleHash) (nbp : Int) (d : FragDict) :
    (hashesOfDict H nbp d).length ≤ d.length * (if nbp = 0 then 999999999 else nbp.toNat) := by
  unfold hashesOfDict
  refine Nat.le_trans (length_toSet_le _) (length_flatMap_le _ _ _ (fun kv _ => ?_))
  simp only [List.length_map, List.length_range, capCount]
  split <;> omega

/-- **linear_bits_card** — number of produced indices ≤ fragment keys × multiplicity cap × active bits -/
theorem linear_bits_card (H : TupleHash) (m : Mol) (lo hi length nab nbp : Int) (bits : List Nat) (d : FragDict)
    (hd : fragments H m lo hi = .ok d) (h : linearBitSet H m lo hi length nab nbp = .ok bits) :
    bits.length ≤ d.length * (if nbp = 0 then 999999999 else nbp.toNat) * max 1 nab.toNat := by
  unfold linearBitSet linearHashSet at h
  by_cases hl : length ≤ 0
  · simp [hl, bind, Except.bind, throw, throwThe, MonadExceptOf.throw] at h
  · simp only [hl, if_false, hd, bind, Except.bind, pure, Except.pure] at h
    cases h
    exact Nat.le_trans (active_bits_card _ _ _) (Nat.mul_le_mul_right _ (hashes_card H nbp d))

/-- **morgan_bits_card** — number of produced indices ≤ atoms × radii × active bits -/
theorem morgan_bits_card (H : TupleHash) (m : Mol) (hwf : m.WF = true) (lo hi length nab : Int) (h1 : 1 ≤ lo) (h2 : lo ≤ hi)
    (bits : List Nat) (h : morganBitSet H m lo hi length nab = .ok bits) :
    bits.length ≤ (hi - lo + 1).toNat * m.ids.length * max 1 nab.toNat := by
  unfold morganBitSet morganHashSet at h
  by_cases hl : length ≤ 0
  · simp [hl, bind, Except.bind, throw, throwThe, MonadExceptOf.throw] at h
  · simp only [hl, if_false, morgan_layers H m hwf lo hi h1 h2, bind, Except.bind, pure, Except.pure] at h
    cases h
    refine Nat.le_trans (active_bits_card _ _ _) (Nat.mul_le_mul_right _ ?_)
    refine Nat.le_trans (length_toSet_le _) ?_
    refine Nat.le_trans (length_flatMap_le _ m.ids.length _ (fun d hd => ?_)) (by simp)
    obtain ⟨i, _, rfl⟩ := List.mem_map.mp hd
    simp

/-- **active_bits_iteration_order_free** — determinism under set iteration order: whatever order (and multiplicity) the
    `for tpl in hashes` loop meets the members of the hash set in, the resulting bit set is the same set — the two results
    are permutations of one another (both duplicate free) -/
theorem active_bits_iteration_order_free (length : Nat) (nab : Int) (hs hs' : List Int) (h : ∀ x, x ∈ hs' ↔ x ∈ hs) :
    (activeBits length nab hs').Perm (activeBits length nab hs) :=
  (List.perm_ext_iff_of_nodup (nodup_toSet _) (nodup_toSet _)).mpr
    (fun b => active_bits_of_same_members length nab hs hs' h b)

example : activeBits 8 3 [1000, -1, 1000] = [0, 5, 7] ∧ activeBits 8 3 [-1, 1000] = [0, 5, 7] := by decide

/-- **linear_bit_set_equivariant** / **morgan_bit_set_equivariant** -/
theorem linear_bit_set_equivariant (H : TupleHash) (f : Nat → Nat) (m m' : Mol) (R : Renumbering f m m')
    (hwf : m.WF = true) (hwf' : m'.WF = true) (lo hi length nab nbp : Int) (h1 : 1 ≤ lo) (h2 : lo ≤ hi) (bs bs' : List Nat)
    (h : linearBitSet H m lo hi length nab nbp = .ok bs) (h' : linearBitSet H m' lo hi length nab nbp = .ok bs') (b : Nat) :
    b ∈ bs' ↔ b ∈ bs := by
  unfold linearBitSet at h h'
  by_cases hl : length ≤ 0
  · simp [hl, bind, Except.bind, throw, throwThe, MonadExceptOf.throw] at h
  · simp only [hl, if_false, bind, Except.bind, pure, Except.pure] at h h'
    cases hh : linearHashSet H m lo hi nbp with
    | error e => simp [hh] at h
    | ok hs =>
      cases hh' : linearHashSet H m' lo hi nbp with
      | error e => simp [hh'] at h'
      | ok hs' =>
        simp only [hh] at h
        simp only [hh'] at h'
        cases h; cases h'
        exact active_bits_of_same_members _ _ hs hs'
          (linear_hash_set_equivariant H f m m' R hwf hwf' lo hi nbp h1 h2 hs hs' hh hh') b

theorem morgan_bit_set_equivariant (H : TupleHash) (f : Nat → Nat) (m m' : Mol) (R : Renumbering f m m')
    (hwf : m.WF = true) (hwf' : m'.WF = true) (lo hi length nab : Int) (h1 : 1 ≤ lo) (h2 : lo ≤ hi) (bs bs' : List Nat)
    (h : morganBitSet H m lo hi length nab = .ok bs) (h' : morganBitSet H m' lo hi length nab = .ok bs') (b : Nat) :
    b ∈ bs' ↔ b ∈ bs := by
  unfold morganBitSet at h h'
  by_cases hl : length ≤ 0
  · simp [hl, bind, Except.bind, throw, throwThe, MonadExceptOf.throw] at h
  · simp only [hl, if_false, bind, Except.bind, pure, Except.pure] at h h'
    cases hh : morganHashSet H m lo hi with
    | error e => simp [hh] at h
    | ok hs =>
      cases hh' : morganHashSet H m' lo hi with
      | error e => simp [hh'] at h'
      | ok hs' =>
        simp only [hh] at h
        simp only [hh'] at h'
        cases h; cases h'
        exact active_bits_of_same_members _ _ hs hs'
          (morgan_hash_set_equivariant H f m m' R hwf hwf' lo hi h1 h2 hs hs' hh hh') b


/-! ## locality of the Morgan identifiers -/

/-- **morgan_identifier_local** — the radius loop is local, for all graphs: if two molecules agree on the `r`-ball of atom
    `x` (`AgreeBall`: same atom data within `r` bonds of `x`, same neighbour dicts within `r − 1` bonds), `x` has the same
    identifier after `r` refinement rounds in both — whatever the molecules look like farther away (they may even be
    malformed there). -/
theorem morgan_identifier_local (H : TupleHash) (m m' : Mol) (r x : Nat) (h : AgreeBall m m' r x) :
    ecIdent H m r x = ecIdent H m' r x := ecIdent_local H m m' r x h

/-- the same for the value the model's `_morgan_hash_dict` (the function the driver runs) returns: the `i`-th dict of the
    result holds the identifiers of radius `lo + i`, and its entry for `x` is the same in both molecules as soon as they
    agree on the `(lo − 1 + i)`-ball of `x`, stated with the walks of the Spec vocabulary (`BallAgree`). -/
theorem morgan_dict_local (H : TupleHash) (m m' : Mol) (hwf : m.WF = true) (hwf' : m'.WF = true) (lo hi : Int)
    (h1 : 1 ≤ lo) (h2 : lo ≤ hi) (ds ds' : List (List (Nat × Int)))
    (h : morganHashDict H m lo hi = .ok ds) (h' : morganHashDict H m' lo hi = .ok ds')
    (i : Nat) (hi' : i < (hi - lo + 1).toNat) (x : Nat) (hx : x ∈ m.ids) (hx' : x ∈ m'.ids)
    (hb : BallAgree m m' ((lo - 1).toNat + i) x) :
    ∃ v, (ds[i]?).bind (fun d => d.lookup x) = some v ∧ (ds'[i]?).bind (fun d => d.lookup x) = some v := by
  rw [morgan_layers H m hwf lo hi h1 h2] at h
  rw [morgan_layers H m' hwf' lo hi h1 h2] at h'
  cases h; cases h'
  refine ⟨ecIdent H m ((lo - 1).toNat + i) x, ?_, ?_⟩
  · rw [List.getElem?_map, List.getElem?_range' hi']
    simp only [Option.map_some, Option.bind_some, Nat.one_mul]
    exact lookup_layer _ m.ids x hx
  · rw [List.getElem?_map, List.getElem?_range' hi']
    simp only [Option.map_some, Option.bind_some, Nat.one_mul]
    rw [ecIdent_local H m m' _ x (agreeBall_of_ballAgree _ x hb)]
    exact lookup_layer _ m'.ids x hx'

/-- `exMol` with the far carbon 3 replaced by nitrogen: the 1-ball of the oxygen 4 (itself and carbon 2) is untouched,
    its 2-ball is not -/
def exMolN : Mol := { exMol with atoms := [(3, { z := 7 }), (1, { z := 6 }), (4, { z := 8 }), (2, { z := 6 })] }

example : AgreeBall exMol exMolN 1 4 ∧ ¬ AgreeBall exMol exMolN 2 4 ∧ exMolN.WF = true := by decide +kernel

/-! ## no exception inside the documented grid -/

/-- inside the grid (`1 ≤ lo ≤ hi`, `length ≥ 1`) `linear_bit_set` raises nothing on a well-formed molecule -/
theorem linear_bit_set_total (H : TupleHash) (m : Mol) (hwf : m.WF = true) (lo hi length nab nbp : Int) (h1 : 1 ≤ lo)
    (h2 : lo ≤ hi) (hl : 1 ≤ length) : ∃ bits, linearBitSet H m lo hi length nab nbp = .ok bits := by
  obtain ⟨d, _, he⟩ := linear_hash_set_exact H m hwf lo hi nbp h1 h2
  have : ¬ length ≤ 0 := by omega
  refine ⟨activeBits length.toNat nab (hashesOfDict H nbp d), ?_⟩
  simp [linearBitSet, this, he, bind, Except.bind, pure, Except.pure]

/-- likewise `morgan_bit_set` -/
theorem morgan_bit_set_total (H : TupleHash) (m : Mol) (hwf : m.WF = true) (lo hi length nab : Int) (h1 : 1 ≤ lo)
    (h2 : lo ≤ hi) (hl : 1 ≤ length) : ∃ bits, morganBitSet H m lo hi length nab = .ok bits := by
  have : ¬ length ≤ 0 := by omega
  simp only [morganBitSet, morganHashSet, this, morgan_layers H m hwf lo hi h1 h2, bind, Except.bind, pure, Except.pure, if_false]
  exact ⟨_, rfl⟩

/-! ## regenerated facts about the source (Gen/C17Cache.lean): memoisation and defaults -/

open ChythonModel.Gen.C17 in
/-- the `__dict__` keys under which CachedMethods stores a memoised method of class `cls` -/
def cacheKeysOf (cls name : String) (decs : List String) : List String :=
  (if decs.contains "cached_property" || decs.contains "class_cached_property" then
     [if name.startsWith "__" && !name.endsWith "__" then "_" ++ cls ++ name else name] else []) ++
  (if decs.contains "cached_method" then ["__cached_method_" ++ name] else []) ++
  (if decs.contains "cached_args_method" then ["__cached_args_method_" ++ name] else [])

open ChythonModel.Gen.C17 in
/-- **fingerprint_caches_flushed** — no memoised value of a fingerprint method is in a keep-list of
    `MoleculeContainer.flush_cache` / `copy` (so no fingerprint result can survive a structure edit or be carried
    into a copy / transaction backup): fingerprints are functions of the *current* structure -/
theorem fingerprint_caches_flushed :
    ∀ r ∈ fingerprintMethods, ∀ k ∈ cacheKeysOf r.1 r.2.1 r.2.2, keepKeys.contains k = false := by decide +kernel

open ChythonModel.Gen.C17 in
/-- the same for the keys OBSERVED on a live molecule after calling the modelled entry points (whatever the
    memoisation mechanism): none of them is in a keep-list -/
theorem live_fingerprint_keys_not_kept : ∀ k ∈ liveCacheKeys, keepKeys.contains k = false := by decide +kernel

open ChythonModel.Gen.C17 in
/-- every entry point the model transcribes is still a method of the fingerprint classes -/
theorem modelled_entry_points_exist :
    ∀ n ∈ ["linear_fingerprint", "linear_bit_set", "linear_hash_set", "_chains", "_fragments", "morgan_fingerprint",
           "morgan_bit_set", "morgan_hash_set", "_morgan_hash_dict", "_atom_identifiers"],
      fingerprintMethods.any (fun r => r.2.1 == n) = true := by decide +kernel

open ChythonModel.Gen.C17 in
/-- one parameter name has one default value across all entry points (e.g. `linear_fingerprint` and `linear_bit_set`) -/
theorem defaults_consistent :
    ∀ d ∈ defaults, ∀ d' ∈ defaults, ∀ p ∈ d.2, ∀ p' ∈ d'.2, p.1 = p'.1 → p.2 = p'.2 := by decide +kernel

open ChythonModel.Gen.C17 in
/-- the default parameters lie in the documented grid: `1 ≤ min_radius ≤ max_radius`, `length` a power of two,
    at least one active bit, non-negative bit-pair cap -/
theorem defaults_in_grid :
    ∀ d ∈ defaults,
      (∀ lo ∈ d.2.lookup "min_radius", ∀ hi ∈ d.2.lookup "max_radius", 1 ≤ lo ∧ lo ≤ hi) ∧
      (∀ l ∈ d.2.lookup "length", 1 ≤ l ∧ (2 : Int) ^ l.toNat.log2 = l) ∧
      (∀ a ∈ d.2.lookup "number_active_bits", 1 ≤ a) ∧ (∀ b ∈ d.2.lookup "number_bit_pairs", 0 ≤ b) := by
  decide +kernel


/-! ## parameter forwarding between the entry points (regenerated call graph: `Gen.C17.signatures`, `calls`, `consumes`) -/

open ChythonModel.Gen.C17 in
/-- parameter `p` of method `m` arrives — under its own name, unmodified — at method `t`, which reads it:
    either `m` is `t` and `t` consumes `p`, or `m` passes its own `p` (bare, never re-bound) on as the parameter `q` of a
    callee from which `q` arrives at `t`. `fuel` bounds the call depth. -/
def arrives : Nat → String → String → String → Bool
  | 0, _, _, _ => false
  | f + 1, m, p, t =>
    (m == t && consumes.any (fun c => c.1 == t && c.2.contains p)) ||
    calls.any fun c => c.1 == m && c.2.2.any fun b => b.2 == p && arrives f c.2.1 b.1 t

/-- the layer that the documentation makes responsible for each parameter -/
def consumerLayers : List (String × List String) :=
  [("min_radius", ["_chains", "_morgan_hash_dict"]), ("max_radius", ["_chains", "_morgan_hash_dict"]),
   ("number_bit_pairs", ["linear_hash_set", "linear_hash_smiles"]),
   ("length", ["linear_bit_set", "morgan_bit_set"]), ("number_active_bits", ["linear_bit_set", "morgan_bit_set"])]

open ChythonModel.Gen.C17 in
/-- the table is closed: caller and callee of every recorded call have a signature, every bound name is a parameter of the
    callee, no parameter is bound twice -/
theorem call_graph_resolved :
    ∀ c ∈ calls, (signatures.any fun s => s.1 == c.1) = true ∧
      ∃ ps ∈ signatures.lookup c.2.1, (∀ b ∈ c.2.2, b.1 ∈ ps) ∧ (c.2.2.map (·.1)).Nodup := by decide +kernel

open ChythonModel.Gen.C17 in
/-- **forwarding_name_preserving** — every argument of every call between fingerprint methods (written positionally or by
    keyword) is the caller's own parameter *of the same name*, passed as a bare name and never re-bound in the caller:
    no swapped radii, no constant, no modified value -/
theorem forwarding_name_preserving : ∀ c ∈ calls, ∀ b ∈ c.2.2, b.2 = b.1 := by decide +kernel

open ChythonModel.Gen.C17 in
/-- **forwarding_complete** — whenever caller and callee share a parameter name the caller passes it on explicitly:
    no callee default is silently used in place of a value the user gave to the outer entry point -/
theorem forwarding_complete :
    ∀ c ∈ calls, ∀ ps ∈ signatures.lookup c.1, ∀ qs ∈ signatures.lookup c.2.1, ∀ q ∈ qs, q ∈ ps → c.2.2.lookup q = some q := by
  decide +kernel

open ChythonModel.Gen.C17 in
/-- **parameters_reach_consumer** — every parameter of every fingerprint method reaches, name-preserved and unmodified, a
    layer that is responsible for it (`consumerLayers`) and that layer reads it -/
theorem parameters_reach_consumer :
    ∀ s ∈ signatures, ∀ p ∈ s.2, ∃ ts ∈ consumerLayers.lookup p, ts.any (fun t => arrives 6 s.1 p t) = true := by
  decide +kernel

open ChythonModel.Gen.C17 in
/-- **call_chain_as_modelled** — the calls among the modelled methods are exactly the compositions of the Lean model
    (`linearBitSet` → `linearHashSet` → `fragments` → `chains`; `morganBitSet` → `morganHashSet` → `morganHashDict`; the
    two fingerprint arrays are built from the bit sets) — nothing else is called, nothing is skipped -/
theorem call_chain_as_modelled :
    (calls.map fun c => (c.1, c.2.1)).filter (fun e =>
        !["linear_hash_smiles", "linear_smiles_hash", "morgan_hash_smiles", "morgan_smiles_hash"].contains e.1) =
      [("linear_fingerprint", "linear_bit_set"), ("linear_bit_set", "linear_hash_set"), ("linear_hash_set", "_fragments"),
       ("_fragments", "_chains"), ("morgan_fingerprint", "morgan_bit_set"), ("morgan_bit_set", "morgan_hash_set"),
       ("morgan_hash_set", "_morgan_hash_dict")] := by decide +kernel

open ChythonModel.Gen.C17 in
example : arrives 6 "linear_fingerprint" "number_bit_pairs" "linear_hash_set" = true ∧
    arrives 6 "linear_fingerprint" "number_bit_pairs" "_chains" = false := by decide +kernel


end ChythonModel.Props.C17
