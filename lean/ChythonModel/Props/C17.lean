import ChythonModel.Proofs.C17WF
/-!
# C17 — fingerprints are structure functions with the documented fragment semantics

Every theorem is about the definitions of `Model/Fingerprint.lean` that the driver `drv_c17` runs and that the
correspondence compares, integer for integer, with chython. `H` is the tuple hash: the theorems hold for every
hash function; the driver uses `Py.pyHashTuple`.
-/
namespace ChythonModel.Props.C17
open ChythonModel.Model ChythonModel.Model.Fingerprint ChythonModel.Spec.Fingerprint ChythonModel.Proofs.C17

/-- propan-2-ol skeleton `C1–C2(–O4)–C3`, numbered and inserted in a scrambled order (used by the `example`s) -/
def exMol : Mol :=
  let c : Atom := { z := 6 }
  let o : Atom := { z := 8 }
  let s : Bond := { order := 1 }
  ⟨[(3, c), (1, c), (4, o), (2, c)],
   [(3, [(2, s)]), (1, [(2, s)]), (4, [(2, s)]), (2, [(4, s), (1, s), (3, s)])]⟩

/-! ## the path enumeration (`_chains`) -/

/-- the queue loop terminates: the model never reports exhausted fuel, whatever the molecule and the radii -/
theorem chains_total (m : Mol) (lo hi : Int) : ∃ r, chains m lo hi = .ok r := chains_ok m lo hi

/-- **chains_exact** — for radii `1 ≤ lo ≤ hi`, `_chains` returns exactly the direction-canonical forms of the simple
    paths with `lo … hi` atoms (soundness and completeness). -/
theorem chains_exact (m : Mol) (hwf : m.WF = true) (lo hi : Int) (h1 : 1 ≤ lo) (h2 : lo ≤ hi) (r : List Path)
    (h : chains m lo hi = .ok r) (x : Path) :
    x ∈ r ↔ ∃ p, SimplePath m p ∧ lo ≤ (p.length : Int) ∧ (p.length : Int) ≤ hi ∧ x = canon p :=
  chains_exact_aux m (closed_of_wf m hwf) lo hi h1 h2 r h x

example : exMol.WF = true ∧ chains exMol 2 3 = .ok [[3, 2], [2, 1], [4, 2], [4, 2, 3], [3, 2, 1], [4, 2, 1]] :=
  ⟨by decide, by rfl⟩

/-- the returned collection is a set: each undirected path appears once -/
theorem chains_nodup (m : Mol) (hwf : m.WF = true) (lo hi : Int) (r : List Path) (h : chains m lo hi = .ok r) :
    r.Nodup := chains_nodup_aux m (wf_parts m hwf).1 lo hi r h

/-- the canonical form identifies exactly a path and its reverse (palindromes are not double counted) -/
theorem canon_identifies_directions (p q : Path) : canon p = canon q ↔ p = q ∨ p = q.reverse := canon_eq_iff p q

/-- the reverse of a simple path is a simple path (so "undirected simple path" is well defined) -/
theorem simple_path_reverse (m : Mol) (hwf : m.WF = true) (p : Path) (h : SimplePath m p) : SimplePath m p.reverse :=
  simplePath_reverse m (adj_symm_of_wf m hwf) p h

/-! ## folding (`linear_bit_set`, `morgan_bit_set`) -/

/-- **active_bits_formula** — the bit set is exactly `{ (h >> j·log2(length)) & (length−1) | h ∈ hashes, j = 0 or j < number_active_bits }` -/
theorem active_bits_formula (length : Nat) (nab : Int) (hashes : List Int) (b : Nat) :
    b ∈ activeBits length nab hashes ↔
      ∃ h ∈ hashes, ∃ j : Nat, (j = 0 ∨ (j : Int) < nab) ∧ b = pyAndMask (h >>> (j * length.log2)) (length - 1) := by
  unfold activeBits
  rw [mem_toSet, List.mem_flatMap]
  constructor
  · rintro ⟨h, hh, hb⟩; exact ⟨h, hh, (mem_bitsOfHash length nab h b).mp hb⟩
  · rintro ⟨h, hh, hb⟩; exact ⟨h, hh, (mem_bitsOfHash length nab h b).mpr hb⟩

/-- **bits_lt_length** — every index is below the requested length, for hashes of either sign, every positive length
    (power of two or not) and every `number_active_bits` -/
theorem bits_lt_length (length : Nat) (hl : 1 ≤ length) (nab : Int) (hashes : List Int) (b : Nat)
    (hb : b ∈ activeBits length nab hashes) : b < length := by
  obtain ⟨h, _, j, _, rfl⟩ := (active_bits_formula length nab hashes b).mp hb
  have := pyAndMask_le (h >>> (j * length.log2)) (length - 1)
  omega

example : activeBits 8 3 [-1, 1000] = [0, 5, 7] := by decide

/-- for `length = 2^k` the `j`-th index of hash `h` is the `j`-th `k`-bit window of `h` in two's complement:
    `⌊h / 2^(j·k)⌋ mod 2^k` (floor division — negative hashes included) -/
theorem window_semantics (k : Nat) (h : Int) (j : Nat) :
    (pyAndMask (h >>> (j * (2 ^ k).log2)) (2 ^ k - 1) : Int) = (h / (2 ^ (j * k) : Int)) % (2 ^ k : Int) := by
  rw [pyAndMask_pow, Nat.log2_two_pow, Int.shiftRight_eq_div_pow]
  simp

/-- `linear_bit_set` either raises `ValueError` (length ≤ 0) / propagates an error, or returns indices below `length` -/
theorem linear_bits_lt_length (H : TupleHash) (m : Mol) (lo hi length nab nbp : Int) (bits : List Nat)
    (h : linearBitSet H m lo hi length nab nbp = .ok bits) : ∀ b ∈ bits, (b : Int) < length := by
  unfold linearBitSet at h
  by_cases hl : length ≤ 0
  · simp [hl, bind, Except.bind, throw, throwThe, MonadExceptOf.throw] at h
  · simp only [hl, if_false, bind, Except.bind, pure, Except.pure] at h
    cases hh : linearHashSet H m lo hi nbp with
    | error e => simp [hh] at h
    | ok hs =>
      simp only [hh] at h
      cases h
      intro b hb
      have := bits_lt_length length.toNat (by omega) nab hs b hb
      omega

theorem morgan_bits_lt_length (H : TupleHash) (m : Mol) (lo hi length nab : Int) (bits : List Nat)
    (h : morganBitSet H m lo hi length nab = .ok bits) : ∀ b ∈ bits, (b : Int) < length := by
  unfold morganBitSet at h
  by_cases hl : length ≤ 0
  · simp [hl, bind, Except.bind, throw, throwThe, MonadExceptOf.throw] at h
  · simp only [hl, if_false, bind, Except.bind, pure, Except.pure] at h
    cases hh : morganHashSet H m lo hi with
    | error e => simp [hh] at h
    | ok hs =>
      simp only [hh] at h
      cases h
      intro b hb
      have := bits_lt_length length.toNat (by omega) nab hs b hb
      omega

/-- the error branch: a non-positive length is rejected before anything else is computed -/
theorem bit_set_rejects_nonpositive_length (H : TupleHash) (m : Mol) (lo hi length nab nbp : Int) (hl : length ≤ 0) :
    linearBitSet H m lo hi length nab nbp = .error .valueError ∧ morganBitSet H m lo hi length nab = .error .valueError := by
  simp [linearBitSet, morganBitSet, hl, bind, Except.bind, throw, throwThe, MonadExceptOf.throw]

end ChythonModel.Props.C17
