import ChythonModel.Model.Fingerprint
namespace ChythonModel.Props.C17
open ChythonModel.Model ChythonModel.Model.Fingerprint

theorem pyAndMask_le (h : Int) (mask : Nat) : pyAndMask h mask ≤ mask := Nat.and_le_right

end ChythonModel.Props.C17
