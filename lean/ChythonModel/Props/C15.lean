import ChythonModel.Proofs.C15Compose
import ChythonModel.Proofs.C15Format
import ChythonModel.Proofs.C15Equivariant
import ChythonModel.Proofs.C15Read
import ChythonModel.Proofs.C15Cx
import ChythonModel.Proofs.C15Rxn
import ChythonModel.Proofs.C15Dict
import ChythonModel.Proofs.C15Radicals
import ChythonModel.Proofs.C15Mapping
import ChythonModel.Proofs.C15Union
import ChythonModel.Proofs.C15EquivOn
import ChythonModel.Model.C15CgrTokens
import ChythonModel.Model.C15Hash
import ChythonModel.Model.C15Read
import ChythonModel.Model.C15Radicals
import ChythonModel.Model.C15Mapping
/-!
# C15 — reactions: role-preserving I/O, order-free identity, exact condensed graph

Every theorem is about the functions the driver `Drivers/C15.lean` runs (`Model/C15*.lean`).
Python `set` iteration order is a parameter: the `composeWith` theorems hold for **every** admissible enumeration
`ls fs cs` of `self - common`, `other - common`, `common` (`Admissible`), `compose` instantiates them with dict order.

`Mol.WF` (keys unique, adjacency symmetric with the same bond on both sides, no loops, neighbours are atoms) is the
invariant of `Graph._atoms/_bonds`; the driver checks it for every input it evaluates.
-/
namespace ChythonModel.Props.C15
open ChythonModel.Model ChythonModel.Model.C15 ChythonModel.Proofs.C15

/-! ## part 1 — the condensed graph is exact -/

/-- the iteration orders used by `compose` (dict order) are admissible -/
theorem dict_orders_admissible (r p : Mol) (wr : r.WF = true) (wp : p.WF = true) :
    Admissible r p (cleavedIds r p) (formedIds r p) (commonIds r p) := by
  have w1 := (wfp_of_WF r wr).idsNodup
  have w2 := (wfp_of_WF p wp).idsNodup
  refine ⟨w1.filter _, w2.filter _, w1.filter _, ?_, ?_, ?_⟩ <;> intro n <;>
    simp [cleavedIds, formedIds, commonIds, hasAtom_iff, hasAtom_false_iff]

/-- **compose_bond_spec.** For all well-formed sides and every set iteration order: the CGR has a bond `n–m` iff one
    of the sides has, and its `(order, p_order)` is `specBond` — `(r?(n,m), p?(n,m))` where both endpoints are mapped
    on both sides; one-sided (`None`) towards a mapped atom; carried over unchanged inside a leaving / incoming group. -/
theorem compose_bond_spec (r p : Mol) (wr : r.WF = true) (wp : p.WF = true) (ls fs cs : List Nat)
    (ad : Admissible r p ls fs cs) (h : CGR) (hc : composeWith ls fs cs r p = .ok h) (n m : Nat) :
    h.bond? n m = specBond r p n m :=
  composeWith_bond r p (wfp_of_WF r wr) (wfp_of_WF p wp) ls fs cs ad h hc n m

/-- the clause of the property for atom-balanced reactions (both sides have the same atoms): the CGR bond is exactly
    the pair of the two sides' orders, absent iff absent on both sides. -/
theorem compose_bond_spec_balanced (r p : Mol) (wr : r.WF = true) (wp : p.WF = true) (ls fs cs : List Nat)
    (ad : Admissible r p ls fs cs) (bal : ∀ n, n ∈ r.ids ↔ n ∈ p.ids)
    (h : CGR) (hc : composeWith ls fs cs r p = .ok h) (n m : Nat) :
    h.bond? n m = (match ord? r n m, ord? p n m with
                   | none, none => none
                   | o1, o2 => some ⟨o1, o2⟩) := by
  rw [compose_bond_spec r p wr wp ls fs cs ad h hc n m]
  unfold specBond
  cases h1 : ord? r n m <;> cases h2 : ord? p n m <;> simp only
  · have := (ord_some_facts p (wfp_of_WF p wp) n m _ h2).2.1
    simp [(hasAtom_iff r n).mpr ((bal n).mpr this)]
  · have := (ord_some_facts r (wfp_of_WF r wr) n m _ h1).2.1
    simp [(hasAtom_iff p n).mpr ((bal n).mp this)]

/-- **compose_atom_spec.** Atom `n` of the CGR carries element/isotope of the side(s) it exists on, reactant
    charge/radical in `charge/is_radical` and product charge/radical in `p_charge/p_is_radical`; an atom of one side
    only is carried over unchanged; no other atoms exist. -/
theorem compose_atom_spec (r p : Mol) (ls fs cs : List Nat)
    (ad : Admissible r p ls fs cs) (h : CGR) (hc : composeWith ls fs cs r p = .ok h) (n : Nat) :
    h.atom? n = specAtom r p n :=
  composeWith_atom r p ls fs cs ad h hc n

/-- the result does not depend on the (unspecified) set iteration order, as a graph -/
theorem compose_order_irrelevant (r p : Mol) (wr : r.WF = true) (wp : p.WF = true)
    (ls fs cs ls' fs' cs' : List Nat) (ad : Admissible r p ls fs cs) (ad' : Admissible r p ls' fs' cs')
    (h h' : CGR) (hc : composeWith ls fs cs r p = .ok h) (hc' : composeWith ls' fs' cs' r p = .ok h') :
    (∀ n, h.atom? n = h'.atom? n) ∧ (∀ n m, h.bond? n m = h'.bond? n m) :=
  ⟨fun n => by rw [compose_atom_spec r p ls fs cs ad h hc, compose_atom_spec r p ls' fs' cs' ad' h' hc'],
   fun n m => by rw [compose_bond_spec r p wr wp ls fs cs ad h hc, compose_bond_spec r p wr wp ls' fs' cs' ad' h' hc']⟩

/-- the CGR adjacency is symmetric (`hb[n][m] is hb[m][n]`) -/
theorem compose_symmetric (r p : Mol) (wr : r.WF = true) (wp : p.WF = true) (ls fs cs : List Nat)
    (ad : Admissible r p ls fs cs) (h : CGR) (hc : composeWith ls fs cs r p = .ok h) (n m : Nat) :
    h.bond? n m = h.bond? m n := by
  rw [compose_bond_spec r p wr wp ls fs cs ad h hc, compose_bond_spec r p wr wp ls fs cs ad h hc]
  unfold specBond
  rw [ord_symm r (wfp_of_WF r wr) n m, ord_symm p (wfp_of_WF p wp) n m, Bool.or_comm (p.hasAtom n),
    Bool.or_comm (r.hasAtom n)]

/-- keys of `_atoms` and of `_bonds` of the result: exactly the atoms of both sides, in the order the loops ran -/
theorem compose_keys (r p : Mol) (ls fs cs : List Nat) (h : CGR) (hc : composeWith ls fs cs r p = .ok h) :
    h.atoms.map (·.1) = ls ++ fs ++ cs ∧ h.adj.map (·.1) = ls ++ fs ++ cs :=
  composeWith_keys r p ls fs cs h hc

/-- **compose_is_dict.** The result is a faithful dict of dicts: the keys of `_atoms`, of `_bonds` and of every
    `_bonds[n]` are pairwise different (every unordered atom pair is appended to `bonds` at most once by the
    `m not in ha` tests), so the `filterMap` form `adjOf` of the model is exactly what the assignments
    `hb[n][m] = hb[m][n] = bond` build. -/
theorem compose_is_dict (r p : Mol) (wr : r.WF = true) (wp : p.WF = true) (ls fs cs : List Nat)
    (ad : Admissible r p ls fs cs) (h : CGR) (hc : composeWith ls fs cs r p = .ok h) :
    (h.atoms.map (·.1)).Nodup ∧ (h.adj.map (·.1)).Nodup ∧ ∀ nl ∈ h.adj, (nl.2.map (·.1)).Nodup :=
  composeWith_dict r p (wfp_of_WF r wr) (wfp_of_WF p wp) ls fs cs ad h hc

/-! ## part 2 — dynamic ⇔ the sides differ; reaction centre -/

/-- `DynamicBond.is_dynamic` ⇔ the two recorded orders differ (incl. absent vs present). -/
theorem bond_dynamic_iff (b : DynBond) : b.isDynamic = true ↔ b.order ≠ b.pOrder := by
  simp [DynBond.isDynamic]

/-- `DynamicElement.is_dynamic` ⇔ the two recorded charges or radical states differ. -/
theorem atom_dynamic_iff (a : DynAtom) : a.isDynamic = true ↔ a.charge ≠ a.pCharge ∨ a.radical ≠ a.pRadical := by
  simp [DynAtom.isDynamic]

/-- **dynamic_iff_differs (bonds).** In an atom-balanced reaction a CGR bond is dynamic exactly when the bond order
    of `n–m` differs between the sides (absent counts as a different order). -/
theorem dynamic_iff_differs_bond (r p : Mol) (wr : r.WF = true) (wp : p.WF = true) (ls fs cs : List Nat)
    (ad : Admissible r p ls fs cs) (bal : ∀ n, n ∈ r.ids ↔ n ∈ p.ids)
    (h : CGR) (hc : composeWith ls fs cs r p = .ok h) (n m : Nat) :
    (∃ d, h.bond? n m = some d ∧ d.isDynamic = true) ↔ ord? r n m ≠ ord? p n m := by
  rw [compose_bond_spec_balanced r p wr wp ls fs cs ad bal h hc n m]
  cases h1 : ord? r n m <;> cases h2 : ord? p n m <;> simp [DynBond.isDynamic]

/-- **dynamic_iff_differs (atoms).** An atom mapped on both sides is dynamic exactly when charge or radical state
    differ between the sides; an atom present on one side only is never dynamic. -/
theorem dynamic_iff_differs_atom (r p : Mol) (ls fs cs : List Nat)
    (ad : Admissible r p ls fs cs) (h : CGR) (hc : composeWith ls fs cs r p = .ok h) (n : Nat) :
    (∃ d, h.atom? n = some d ∧ d.isDynamic = true) ↔
      ∃ a b, r.atom? n = some a ∧ p.atom? n = some b ∧ (a.charge ≠ b.charge ∨ a.radical ≠ b.radical) := by
  rw [compose_atom_spec r p ls fs cs ad h hc n]
  unfold specAtom
  cases h1 : r.atom? n <;> cases h2 : p.atom? n <;> simp [DynAtom.isDynamic]

/-- **centre_spec.** `center_atoms` = atoms with a dynamic mark or an incident dynamic bond, in terms of the
    specification of the two sides. -/
theorem centre_spec (r p : Mol) (wr : r.WF = true) (wp : p.WF = true) (ls fs cs : List Nat)
    (ad : Admissible r p ls fs cs) (h : CGR) (hc : composeWith ls fs cs r p = .ok h) (n : Nat) :
    n ∈ h.centerAtoms ↔
      (∃ a, specAtom r p n = some a ∧ a.isDynamic = true) ∨
      (∃ m d, specBond r p n m = some d ∧ d.isDynamic = true) :=
  composeWith_center r p (wfp_of_WF r wr) (wfp_of_WF p wp) ls fs cs ad h hc n

/-- **centre_iff_differs.** In an atom-balanced reaction `n` is a centre atom exactly when its charge/radical differ
    between the sides or some incident bond order differs. -/
theorem centre_iff_differs (r p : Mol) (wr : r.WF = true) (wp : p.WF = true) (ls fs cs : List Nat)
    (ad : Admissible r p ls fs cs) (bal : ∀ n, n ∈ r.ids ↔ n ∈ p.ids)
    (h : CGR) (hc : composeWith ls fs cs r p = .ok h) (n : Nat) :
    n ∈ h.centerAtoms ↔
      (∃ a b, r.atom? n = some a ∧ p.atom? n = some b ∧ (a.charge ≠ b.charge ∨ a.radical ≠ b.radical)) ∨
      (∃ m, ord? r n m ≠ ord? p n m) := by
  rw [centre_spec r p wr wp ls fs cs ad h hc n,
    ← dynamic_iff_differs_atom r p ls fs cs ad h hc n, compose_atom_spec r p ls fs cs ad h hc n]
  constructor
  · rintro (h1 | ⟨m, d, hs, hd⟩)
    · exact Or.inl h1
    · right; refine ⟨m, (dynamic_iff_differs_bond r p wr wp ls fs cs ad bal h hc n m).mp ⟨d, ?_, hd⟩⟩
      rw [compose_bond_spec r p wr wp ls fs cs ad h hc n m]; exact hs
  · rintro (h1 | ⟨m, hm⟩)
    · exact Or.inl h1
    · obtain ⟨d, hd1, hd2⟩ := (dynamic_iff_differs_bond r p wr wp ls fs cs ad bal h hc n m).mpr hm
      rw [compose_bond_spec r p wr wp ls fs cs ad h hc n m] at hd1
      exact Or.inr ⟨m, d, hd1, hd2⟩

/-- **identical_sides_no_centre.** Composing a graph with itself gives no reaction centre, for every iteration order. -/
theorem identical_sides_no_centre (r : Mol) (wr : r.WF = true) (ls fs cs : List Nat)
    (ad : Admissible r r ls fs cs) (h : CGR) (hc : composeWith ls fs cs r r = .ok h) :
    h.centerAtoms = [] := by
  apply List.eq_nil_iff_forall_not_mem.mpr
  intro n hn
  have bal : ∀ n, n ∈ r.ids ↔ n ∈ r.ids := fun _ => Iff.rfl
  rcases (centre_iff_differs r r wr wr ls fs cs ad bal h hc n).mp hn with ⟨a, b, ha, hb, hne⟩ | ⟨m, hm⟩
  · rw [ha] at hb; cases hb; rcases hne with h | h <;> exact h rfl
  · exact hm rfl

/-! ## part 3 — the reaction signature does not depend on the order of molecules inside a role -/

/-- What the molecule writer must guarantee for the molecules of one role: signature + radical marks determine the
    number of components (true of the real writer: the signature has `ncomp - 1` dots; checked on every molecule of
    the correspondence run). -/
def KeyDetermines (l : List MolSig) : Prop :=
  ∀ a ∈ l, ∀ b ∈ l, a.s = b.s → a.radicals = b.radicals → a.ncomp = b.ncomp

theorem sort_role_perm (l l' : List MolSig) (hp : l'.Perm l) (hk : KeyDetermines l') :
    sortRole false l' = sortRole false l := by
  apply sortRole_perm l' l hp
  intro a ha b hb e1 e2
  have e3 := hk a ha b hb e1 e2
  cases a; cases b; simp_all

/-- **format_role_perm.** Permuting the molecules inside each role leaves `format(reaction)` (incl. the CXSMILES
    radical and fragment blocks) unchanged, for every `!x` setting (without `!c`). -/
theorem format_role_perm (noCx : Bool) (R R' A A' P P' : List MolSig)
    (hR : R'.Perm R) (hA : A'.Perm A) (hP : P'.Perm P)
    (kR : KeyDetermines R') (kA : KeyDetermines A') (kP : KeyDetermines P') :
    formatRxn false noCx R' A' P' = formatRxn false noCx R A P := by
  unfold formatRxn formatCore
  rw [sort_role_perm R R' hR kR, sort_role_perm A A' hA kA, sort_role_perm P P' hP kP]

/-- the hypotheses are satisfiable by the radical-tie case that used to be order dependent: `[Na]` radical and
    `[Na]` non-radical in one role -/
example :
    let na (rad : Bool) : MolSig := ⟨[91, 78, 97, 93], 1, [rad]⟩
    KeyDetermines [na true, na false] ∧ [na false, na true].Perm [na true, na false] := by
  refine ⟨?_, ?_⟩
  · intro a ha b hb _ _
    simp only [List.mem_cons, List.mem_nil_iff, or_false] at ha hb
    rcases ha with rfl | rfl <;> rcases hb with rfl | rfl <;> rfl
  · exact List.Perm.swap _ _ _

/-- with `!c` the given order is kept (no sort) -/
theorem format_keep_order (l : List MolSig) : sortRole true l = l := rfl

/-! ## part 4 — the CGR signature tokens mark exactly the changes (regenerated tables) -/

open ChythonModel.Gen.C15 in
/-- every producible `(order, p_order)` pair has a token -/
theorem dyn_order_str_total :
    ∀ o ∈ [none, some 1, some 2, some 3, some 4, some 8], ∀ p ∈ [none, some 1, some 2, some 3, some 4, some 8],
      (o, p) ≠ (none, none) → (dynOrderStr.lookup (o, p)).isSome = true := by decide +kernel

open ChythonModel.Gen.C15 in
/-- different `(order, p_order)` pairs have different tokens, and keys are not repeated -/
theorem dyn_order_str_injective :
    ∀ e1 ∈ dynOrderStr, ∀ e2 ∈ dynOrderStr, e1.2 = e2.2 → e1 = e2 := by decide +kernel

open ChythonModel.Gen.C15 in
/-- a bond token contains `>` exactly when the two orders differ -/
theorem dyn_order_str_marks_change :
    ∀ e ∈ dynOrderStr, e.2.toList.contains '>' = (e.1.1 != e.1.2) := by decide +kernel

open ChythonModel.Gen.C15 in
theorem dyn_charge_str_total :
    ∀ c ∈ [-4, -3, -2, -1, 0, 1, 2, 3, 4], ∀ p ∈ [-4, -3, -2, -1, 0, 1, 2, 3, (4 : Int)],
      (dynChargeStr.lookup (c, p)).isSome = true := by decide +kernel

open ChythonModel.Gen.C15 in
theorem dyn_charge_str_injective :
    ∀ e1 ∈ dynChargeStr, ∀ e2 ∈ dynChargeStr, e1.2 = e2.2 → e1 = e2 := by decide +kernel

open ChythonModel.Gen.C15 in
/-- a charge token contains `>` exactly when the two charges differ -/
theorem dyn_charge_str_marks_change :
    ∀ e ∈ dynChargeStr, e.2.toList.contains '>' = (e.1.1 != e.1.2) := by decide +kernel

open ChythonModel.Gen.C15 in
/-- radical tokens: all three radical-bearing combinations present, distinct, `>` exactly when the states differ -/
theorem dyn_radical_str_ok :
    (∀ r ∈ [true, false], ∀ p ∈ [true, false], (r || p) = true → (dynRadicalStr.lookup (r, p)).isSome = true) ∧
    (∀ e1 ∈ dynRadicalStr, ∀ e2 ∈ dynRadicalStr, e1.2 = e2.2 → e1 = e2) ∧
    (∀ e ∈ dynRadicalStr, e.2.toList.contains '>' = (e.1.1 != e.1.2)) := by decide +kernel

/-- **bond token ⇔ dynamic.** For every dynamic bond the model (and, by correspondence, `CGRSmiles._format_bond`)
    can print, the token shows `>` exactly when the bond is dynamic, and the token determines both orders. -/
theorem cgr_bond_token_spec (b b' : DynBond) (s : String) (h : cgrBondToken b = .ok s) :
    (s.toList.contains '>' = b.isDynamic) ∧ (cgrBondToken b' = .ok s → b' = b) := by
  unfold cgrBondToken at h
  split at h
  · rename_i t ht
    cases h
    have hm := lookup_mem _ _ _ ht
    refine ⟨dyn_order_str_marks_change _ hm, ?_⟩
    intro h'
    unfold cgrBondToken at h'
    split at h'
    · rename_i t' ht'
      cases h'
      have hm' := lookup_mem _ _ _ ht'
      have := dyn_order_str_injective _ hm' _ hm rfl
      simp only [Prod.mk.injEq] at this
      cases b; cases b'; simp_all
    · cases h'
  · cases h

/-! ## part 5 — consistent renumbering of both sides renumbers the condensed graph -/

/-- **compose_equivariant.** For every injective renumbering `f` applied to both sides (and to the set iteration
    orders): the result is the renumbered CGR, errors are the same errors. Together with part 1 (order irrelevance)
    the CGR *as a graph* is a function of the two sides up to the numbering; invariance of `str(cgr)` then rests on
    the canonical numbering (Morgan) and the writer, which are C01's subject and are checked here at run time
    (`renumber` stream) rather than proved. -/
theorem compose_equivariant (f : Nat → Nat) (hf : Function.Injective f) (ls fs cs : List Nat) (r p : Mol) :
    composeWith (ls.map f) (fs.map f) (cs.map f) (rename f r) (rename f p) =
      mapExcept (renameCGR f) (composeWith ls fs cs r p) :=
  composeWith_rename f hf ls fs cs r p

/-- the same for `compose` as the driver runs it (dict iteration order) -/
theorem compose_equivariant_dict_order (f : Nat → Nat) (hf : Function.Injective f) (r p : Mol) :
    compose (rename f r) (rename f p) = mapExcept (renameCGR f) (compose r p) :=
  compose_rename f hf r p

/-- the reaction centre is renumbered with the graph -/
theorem centre_equivariant (f : Nat → Nat) (hf : Function.Injective f) (h : CGR) (n : Nat) :
    f n ∈ (renameCGR f h).centerAtoms ↔ n ∈ h.centerAtoms :=
  center_rename f hf h n

/-- non-trivial instance: ethanol → ethoxide (O–H charge change) renumbered by `n ↦ 2n + 5` -/
example :
    let r : Mol := ⟨[(1, {z := 6}), (2, {z := 8})], [(1, [(2, {order := 1})]), (2, [(1, {order := 1})])]⟩
    let p : Mol := ⟨[(1, {z := 6}), (2, {z := 8, charge := -1})], [(1, [(2, {order := 1})]), (2, [(1, {order := 1})])]⟩
    (compose r p).toOption.map (·.centerAtoms) = some [2] ∧
    (compose (rename (fun n => 2 * n + 5) r) (rename (fun n => 2 * n + 5) p)).toOption.map (·.centerAtoms) = some [9] := by
  decide

/-! ## part 6 — reading back the written signature restores the roles and the molecules

Molecules are given as lists of component strings (`join '.'` of them is the molecule signature, their number the
component count — `sigOf`). `WrittenOK`: every molecule has ≥ 1 component, components are non-empty and contain no
`.` and no `>` (true of the molecule writer's output; C02). -/

/-- `'.'.join(pieces).split('.')` / `'>'.join(...)`: splitting a joined string gives the pieces back -/
theorem split_join_inverse (sep : Nat) (pieces : List Str) (h1 : pieces ≠ []) (h2 : ∀ p ∈ pieces, sep ∉ p) :
    splitOn sep (join sep pieces) = pieces :=
  splitOn_join sep pieces h1 h2

/-- **slices_partition.** The three slices `new[:lr]`, `new[lr:mc-lp]`, `new[mc-lp:]` taken by the reader partition the
    array of contracted molecules for every `lr + lp ≤ mc` — in particular for a reaction without products
    (`lp = 0`), where the former `new[-lp:]` / `new[lr:-lp]` returned everything / nothing (Findings/C15.lean). -/
theorem slices_partition {α : Type} (n3 : List α) (lr lp : Nat) (h : lr + lp ≤ n3.length) :
    n3.take lr ++ ((n3.take (n3.length - lp)).drop lr) ++ n3.drop (n3.length - lp) = n3 :=
  ChythonModel.Proofs.C15.slices_partition n3 lr lp h

/-- **contraction_restores_molecules.** For all role lists: contracting the fragments of the three roles with the
    fragment groups the writer emits gives back exactly the molecules of each role, in order. -/
theorem contraction_restores_molecules (R A P : List (List Str)) (hne : ∀ m ∈ R ++ A ++ P, m ≠ []) :
    contractRoles R.flatten A.flatten P.flatten (groupsFrom 0 (R ++ A ++ P)) =
      .ok (R.map (join chDot), A.map (join chDot), P.map (join chDot)) :=
  contractRoles_writer R A P hne

/-- the fragment groups of the writer model are `groupsFrom 0`, its role strings the joined molecule signatures -/
theorem writer_groups (rad : List Str → List Bool) (R A P : List (List Str)) :
    (formatCore true (R.map (sigOf rad)) (A.map (sigOf rad)) (P.map (sigOf rad))).contract = groupsFrom 0 (R ++ A ++ P) ∧
    (formatCore true (R.map (sigOf rad)) (A.map (sigOf rad)) (P.map (sigOf rad))).roles
      = [R.map (join chDot), A.map (join chDot), P.map (join chDot)] :=
  ⟨formatCore_contract rad R A P, formatCore_roles rad R A P⟩

/-- sorting is the only difference between `!c` and the default: the default signature is the `!c` signature of the
    sorted roles, so the theorems below apply to it with `R A P` the sorted role lists -/
theorem format_default_is_sorted_keep (R A P : List MolSig) :
    formatCore false R A P = formatCore true (sortRole false R) (sortRole false A) (sortRole false P) := rfl

/-- Statement at text level: reading the complete written text — signature, blank, CXSMILES block (`^1:` radical block,
    `f:` fragment block) — restores the role partition and the molecules. -/
def RxnReadWriteRolesFull : Prop :=
  ∀ (rad : List Str → List Bool) (R A P : List (List Str)), WrittenOK R → WrittenOK A → WrittenOK P → R ++ A ++ P ≠ [] →
    (∀ m ∈ R ++ A ++ P, ∀ f ∈ m, ∀ c ∈ f, isSpace c = false) →
    readRxn (formatRxn true false (R.map (sigOf rad)) (A.map (sigOf rad)) (P.map (sigOf rad))) =
      .roles (R.map (join chDot)) (A.map (join chDot)) (P.map (join chDot))

/-- **rxn_read_write_roles (structured level).** For all role lists (any number of molecules per role incl. empty
    roles — no products, no reagents —, any number of components per molecule) the reader applied to the written
    signature string and to the written fragment groups returns the written roles and molecules. -/
theorem rxn_read_write_roles_structured (rad : List Str → List Bool) (R A P : List (List Str))
    (hR : WrittenOK R) (hA : WrittenOK A) (hP : WrittenOK P) (hne : R ++ A ++ P ≠ []) :
    let out := formatCore true (R.map (sigOf rad)) (A.map (sigOf rad)) (P.map (sigOf rad))
    readSmi (join chGt (out.roles.map (join chDot))) (some out.contract) =
      .roles (R.map (join chDot)) (A.map (join chDot)) (P.map (join chDot)) := by
  intro out
  have h1 : out.contract = groupsFrom 0 (R ++ A ++ P) := formatCore_contract rad R A P
  have h2 : out.roles = [R.map (join chDot), A.map (join chDot), P.map (join chDot)] := formatCore_roles rad R A P
  rw [h2]
  exact read_written R A P hR hA hP hne out.contract h1

/-- **cx_block_roundtrip.** Any signature (without whitespace) followed by the CXSMILES block rendered from radical
    indices `idx` and normalised fragment groups `gs` is split by `data.split()`, recognised as a CXSMILES token and
    analysed by `search(cx_fragments)` + `int` + `sorted` + collision test back to exactly `gs` (`None` without
    groups): `str(n)`/`int`, `','.join`/regex are inverse on what the writer emits. -/
theorem cx_block_roundtrip (roles : List (List Str)) (idx : List Nat) (gs : List (List Nat))
    (hsp : ∀ c ∈ join chGt (roles.map (join chDot)), isSpace c = false)
    (hne : join chGt (roles.map (join chDot)) ≠ [])
    (hgs : ∀ g ∈ gs, 2 ≤ g.length)
    (hnorm : gs.map sortNats = gs ∧ ¬ (gs.flatten.eraseDups.length < gs.flatten.length)) :
    readRxn (render false ⟨roles, idx, gs⟩) = readSmi (join chGt (roles.map (join chDot))) (groupsOpt gs) :=
  readRxn_render roles idx gs hsp hne hgs hnorm

/-- **rxn_read_write_roles.** The full statement: `smiles(format(reaction, '!c'))` has the written roles and molecules,
    for all role lists (0…n molecules per role, multi-component molecules, radical marks anywhere). -/
theorem rxn_read_write_roles : RxnReadWriteRolesFull :=
  fun rad R A P hR hA hP hne hsp => read_format rad R A P hR hA hP hne hsp

/-- the same for the default (sorted) signature: the molecules of every role are restored (in the canonical order) -/
theorem rxn_read_write_roles_sorted (rad : List Str → List Bool) (R A P : List (List Str))
    (hR : WrittenOK R) (hA : WrittenOK A) (hP : WrittenOK P) (hne : R ++ A ++ P ≠ [])
    (hsp : ∀ m ∈ R ++ A ++ P, ∀ f ∈ m, ∀ c ∈ f, isSpace c = false) :
    ∃ R' A' P' : List (List Str), R'.Perm R ∧ A'.Perm A ∧ P'.Perm P ∧
      readRxn (formatRxn false false (R.map (sigOf rad)) (A.map (sigOf rad)) (P.map (sigOf rad))) =
        .roles (R'.map (join chDot)) (A'.map (join chDot)) (P'.map (join chDot)) :=
  read_format_sorted rad R A P hR hA hP hne hsp

/-- non-trivial instance: `C.C>O>` with the reactant a two-component molecule and no products
    (the input class of the repaired defect) -/
example :
    let c : Str := [67]
    let o : Str := [79]
    WrittenOK [[c, c]] ∧ WrittenOK [[o]] ∧ WrittenOK ([] : List (List Str)) ∧
    readSmi (join chGt [join chDot [join chDot [c, c]], join chDot [join chDot [o]], join chDot []])
      (some (groupsFrom 0 [[c, c], [o]])) = .roles [[67, 46, 67]] [[79]] [] := by
  refine ⟨?_, ?_, ?_, by decide⟩
  · intro m hm; simp at hm; subst hm; refine ⟨by simp, ?_⟩; intro f hf; simp at hf; subst hf; decide
  · intro m hm; simp at hm; subst hm; refine ⟨by simp, ?_⟩; intro f hf; simp at hf; subst hf; decide
  · intro m hm; cases hm

/-! ## part 7 — `~reaction` (`ReactionContainer.compose`) -/

/-- **rxn_compose_is_compose.** For role lists whose molecules carry pairwise different atom numbers inside a side
    (reagents are put on the reactant side): `~reaction` is `compose` of the concatenated sides, and the concatenated
    sides are well-formed — so parts 1, 2 and 5 apply verbatim to `~reaction` (reagents, having no counterpart among the
    products, are carried over unchanged by `compose_atom_spec` / `compose_bond_spec`). With colliding numbers
    `Graph.union` renumbers (modelled and compared in the `rxn` stream; no theorem). -/
theorem rxn_compose_is_compose (R A P : List Mol) (hw : ∀ m ∈ R ++ A ++ P, m.WF = true)
    (hdr : DisjointIds (A ++ R)) (hdp : DisjointIds P) :
    rxnCompose R A P = compose (concat (A ++ R)) (concat P) ∧
    (concat (A ++ R)).WF = true ∧ (concat P).WF = true := by
  have wAR : ∀ m ∈ A ++ R, WFp m := fun m hm => wfp_of_WF m (hw m (by
    rcases List.mem_append.mp hm with h | h <;> simp [h]))
  have wP : ∀ m ∈ P, WFp m := fun m hm => wfp_of_WF m (hw m (by simp [hm]))
  refine ⟨?_, WF_of_wfp _ (concat_wfp _ wAR hdr), WF_of_wfp _ (concat_wfp _ wP hdp)⟩
  unfold rxnCompose
  rw [unionAll_disjoint _ hdr, unionAll_disjoint _ hdp]

/-- non-trivial instance: ethanol + a sodium ion as reagent → ethoxide; the centre is the oxygen only -/
example :
    let etoh : Mol := ⟨[(1, {z := 6}), (2, {z := 8})], [(1, [(2, {order := 1})]), (2, [(1, {order := 1})])]⟩
    let eto : Mol := ⟨[(1, {z := 6}), (2, {z := 8, charge := -1})], [(1, [(2, {order := 1})]), (2, [(1, {order := 1})])]⟩
    let na : Mol := ⟨[(3, {z := 11, charge := 1})], [(3, [])]⟩
    DisjointIds ([na] ++ [etoh]) ∧ DisjointIds [eto] ∧
    (rxnCompose [etoh] [na] [eto]).toOption.map (·.centerAtoms) = some [2] := by
  refine ⟨?_, ?_, by decide⟩
  · simp [DisjointIds, Mol.ids]
  · simp [DisjointIds]

/-! ## part 8 — the invariants that seed the canonical numbering tell the dynamic states apart

`str(cgr)` can be independent of the numbering only if atoms / bonds in different dynamic states get different Morgan
seeds (`hash(atom)`, `hash(bond)`); otherwise two non-equivalent atoms share a class and the tie is broken by number.
The run-time side is the `mirror` relation (X–C–X with two different states in mirror positions, numbers swapped). -/

/-- **dyn_bond_hash_injective.** All 35 states of a dynamic bond have pairwise different hashes. -/
theorem dyn_bond_hash_injective : (bondStates.map dynBondHash).Nodup := by decide +kernel

/-- Full statement for atoms: all charge / radical states (charges −4…4) of one element have different hashes. -/
def DynAtomHashInjective : Prop :=
  ((atomStates 6 [-4, -3, -2, -1, 0, 1, 2, 3, 4]).map dynAtomHash).Nodup

/-- **dyn_atom_hash_injective_partial.** Proved part: all states whose charges avoid −1. The excluded class is exactly
    CPython's `hash(-1) == hash(-2)`: a state with charge −1 collides with the same state with −2 in that position
    (known finding `C15/cgr-string/renumbering/hash-minus-one`, witness in `Findings/C15.lean`). -/
theorem dyn_atom_hash_injective_partial :
    ((atomStates 6 [-4, -3, -2, 0, 1, 2, 3, 4]).map dynAtomHash).Nodup := by decide +kernel

/-! ## part 9 — CXSMILES radical block on READING (`|^1:…|`): index resolution over the parsed molecules of all roles

`readRxnRad natoms` (Model/C15Radicals.lean, driver op `readrad`) = the reaction branch of `smiles()` up to the call of
`postprocess_parsed_reaction`: molecule strings per role + the `is_radical` flag of every parsed atom. The molecule parser
enters through `natoms` (atom count of a molecule string) only. -/

/-- **radical_index_resolution.** For all atom counts and all index lists: an index that is no atom is
    `IncorrectSmiles`; otherwise every molecule keeps its atom count and the flag of the `i`-th atom — counted over
    reactants, reagents, products in this order — is `i ∈ radicals`. -/
theorem radical_index_resolution (counts rad : List Nat) :
    ((∃ x ∈ rad, counts.sum ≤ x) → markRadicals counts rad = .error "IncorrectSmiles") ∧
    ((∀ x ∈ rad, x < counts.sum) → ∃ F, markRadicals counts rad = .ok F ∧ F.map List.length = counts ∧
        ∀ i (hi : i < F.flatten.length), F.flatten[i] = rad.contains i) :=
  markRadicals_spec counts rad

/-- both branches evaluated: `C[Na].O` with `^1:1,2` marks the sodium and the oxygen; index 3 is no atom -/
example : (markRadicals [2, 1] [1, 2]).toOption = some [[false, true], [true]] ∧
    (markRadicals [2, 1] [3]).toOption = none ∧ (markRadicals [] []).toOption = some [] := by decide

/-- **radical_indices_roundtrip.** The writer's enumeration (`n for n, r in enumerate(radicals) if r` over the
    concatenated flags of all molecules) is inverted by the reader's resolution, for every list of molecules of any
    sizes (empty molecules / roles included). -/
theorem radical_indices_roundtrip (F : List (List Bool)) :
    markRadicals (F.map List.length) (trueIdx F.flatten) = .ok F :=
  markRadicals_trueIdx F

/-- **cx_radicals_roundtrip.** `findall(cx_radicals, cxs)`, `int`, and the collision test applied to the CXSMILES token
    of the written text give back exactly the written radical indices — with or without a fragment block behind them,
    for every duplicate-free index list (the writer's lists are strictly increasing: `trueIdx_nodup`). -/
theorem cx_radicals_roundtrip (roles : List (List Str)) (idx : List Nat) (gs : List (List Nat))
    (hsp : ∀ c ∈ join chGt (roles.map (join chDot)), isSpace c = false)
    (hne : join chGt (roles.map (join chDot)) ≠ [])
    (hnd : idx.Nodup) :
    radicalsOf (splitWs (render false ⟨roles, idx, gs⟩)) = idx :=
  radicalsOf_render roles idx gs hsp hne hnd

/-- the hypotheses of `cx_radicals_roundtrip` are satisfiable: signature `C.O>>`, indices 0, 1, one fragment group -/
example :
    (∀ c ∈ join chGt ([[[67], [79]], [], []].map (join chDot)), isSpace c = false) ∧
    join chGt ([[[67], [79]], [], []].map (join chDot)) ≠ [] ∧ [0, 1].Nodup := by decide

/-- the writer's index list is duplicate free, so `cx_radicals_roundtrip` applies to everything `formatRxn` emits -/
theorem writer_radical_indices (rad : List Str → List Bool) (R A P : List (List Str)) :
    (formatCore true (R.map (sigOf rad)) (A.map (sigOf rad)) (P.map (sigOf rad))).radicalIdx
      = trueIdx ((R ++ A ++ P).map rad).flatten ∧ (trueIdx ((R ++ A ++ P).map rad).flatten).Nodup :=
  ⟨formatCore_radicalIdx rad R A P, trueIdx_nodup _⟩

/-- Full text-level statement incl. radical marks: reading the written text restores roles, molecules AND the
    `is_radical` flag of every atom. A molecule is given as `(component strings, radical flags of its atoms in the written
    order)` (`WMol`) — two molecules may print identically and differ only in their marks (the `[Na]` / `[Na]•` tie).
    `natoms` is the molecule parser's atom count; hypothesis `hn`: the parser yields as many atoms for a written molecule
    string as the writer enumerated (in the written order) — a property of the molecule writer / parser pair (C02/C03),
    checked at run time on every molecule of the `fmt` stream. -/
def RxnReadWriteRadicalsFull : Prop :=
  ∀ (natoms : Str → Nat) (R A P : List WMol),
    WrittenOK (R.map Prod.fst) → WrittenOK (A.map Prod.fst) → WrittenOK (P.map Prod.fst) → R ++ A ++ P ≠ [] →
    (∀ m ∈ R ++ A ++ P, ∀ f ∈ m.1, ∀ c ∈ f, isSpace c = false) →
    (∀ m ∈ R ++ A ++ P, natoms (join chDot m.1) = m.2.length) →
    readRxnRad natoms (formatRxn true false (R.map sigOfW) (A.map sigOfW) (P.map sigOfW)) =
      .roles ((R.map Prod.fst).map (join chDot)) ((A.map Prod.fst).map (join chDot)) ((P.map Prod.fst).map (join chDot))
        (R.map Prod.snd) (A.map Prod.snd) (P.map Prod.snd)

/-- **rxn_read_write_roles_marks.** `rxn_read_write_roles` for molecules given with their marks (`WMol`): the role
    partition and the molecule strings are restored also when molecules of a role print identically and differ in marks. -/
theorem rxn_read_write_roles_marks (R A P : List WMol)
    (hR : WrittenOK (R.map Prod.fst)) (hA : WrittenOK (A.map Prod.fst)) (hP : WrittenOK (P.map Prod.fst))
    (hne : R ++ A ++ P ≠ [])
    (hsp : ∀ m ∈ R ++ A ++ P, ∀ f ∈ m.1, ∀ c ∈ f, isSpace c = false) :
    readRxn (formatRxn true false (R.map sigOfW) (A.map sigOfW) (P.map sigOfW)) =
      .roles ((R.map Prod.fst).map (join chDot)) ((A.map Prod.fst).map (join chDot)) ((P.map Prod.fst).map (join chDot)) :=
  (read_formatW R A P hR hA hP hne hsp).1

/-- **rxn_read_write_radicals.** The full statement holds: any roles (empty ones included), any fragment sizes, salts
    (fragment contraction `f:` and radical indices `^1:` in one block), radical marks anywhere. -/
theorem rxn_read_write_radicals : RxnReadWriteRadicalsFull :=
  fun natoms R A P hR hA hP hne hsp hn => read_format_radW natoms R A P hR hA hP hne hsp hn

/-- the same for the default (sorted) signature: molecules and their radical marks are restored in the canonical order -/
theorem rxn_read_write_radicals_sorted (natoms : Str → Nat) (R A P : List WMol)
    (hR : WrittenOK (R.map Prod.fst)) (hA : WrittenOK (A.map Prod.fst)) (hP : WrittenOK (P.map Prod.fst))
    (hne : R ++ A ++ P ≠ [])
    (hsp : ∀ m ∈ R ++ A ++ P, ∀ f ∈ m.1, ∀ c ∈ f, isSpace c = false)
    (hn : ∀ m ∈ R ++ A ++ P, natoms (join chDot m.1) = m.2.length) :
    ∃ R' A' P' : List WMol, R'.Perm R ∧ A'.Perm A ∧ P'.Perm P ∧
      readRxnRad natoms (formatRxn false false (R.map sigOfW) (A.map sigOfW) (P.map sigOfW)) =
        .roles ((R'.map Prod.fst).map (join chDot)) ((A'.map Prod.fst).map (join chDot)) ((P'.map Prod.fst).map (join chDot))
          (R'.map Prod.snd) (A'.map Prod.snd) (P'.map Prod.snd) :=
  read_format_radW_sorted natoms R A P hR hA hP hne hsp hn

/-- **strict_reader_accepts_written.** With `ignore=False` (empty `.`-pieces are `ValueError` instead of being skipped)
    the reader does on every written text — `!c` or sorted, any roles, salts, marks — exactly what the default reader
    does (`readRxnRadOpt` = the driver's `readrad` op), so both round-trip theorems hold for the strict reader as well. -/
theorem strict_reader_accepts_written (natoms : Str → Nat) (keep : Bool) (R A P : List WMol)
    (hR : WrittenOK (R.map Prod.fst)) (hA : WrittenOK (A.map Prod.fst)) (hP : WrittenOK (P.map Prod.fst))
    (hsp : ∀ m ∈ R ++ A ++ P, ∀ f ∈ m.1, ∀ c ∈ f, isSpace c = false) :
    readRxnRadOpt false natoms (formatRxn keep false (R.map sigOfW) (A.map sigOfW) (P.map sigOfW)) =
      readRxnRad natoms (formatRxn keep false (R.map sigOfW) (A.map sigOfW) (P.map sigOfW)) :=
  readRxnRadOpt_format natoms keep R A P hR hA hP hsp

/-- the strict reader does reject what the default reader repairs: `C..O>>` -/
example : readRxnRadOpt false (fun _ => 1) [67, 46, 46, 79, 62, 62] = .error "ValueError" ∧
    readRxnRadOpt true (fun _ => 1) [67, 46, 46, 79, 62, 62] = .roles [[67], [79]] [] [] [[false], [false]] [] [] := by
  decide

/-- non-trivial instance: `[Na].C>O>` — a two-component reactant whose first atom is a radical, a reagent, no products
    (written as `[Na].C>O> |^1:0,f:0.1|`): the hypotheses hold, so the text reads back to the roles and the flags -/
example :
    let na : Str := [91, 78, 97, 93]
    let natoms : Str → Nat := fun s => if s == na ++ [46, 67] then 2 else 1
    readRxnRad natoms (formatRxn true false [sigOfW ([na, [67]], [true, false])] [sigOfW ([[79]], [false])] []) =
      .roles [na ++ [46, 67]] [[79]] [] [[true, false]] [[false]] [] := by
  intro na natoms
  have h := rxn_read_write_radicals natoms [([na, [67]], [true, false])] [([[79]], [false])] []
    (by intro m hm; simp at hm; subst hm; refine ⟨by simp, ?_⟩; intro f hf; simp at hf; rcases hf with rfl | rfl <;> decide)
    (by intro m hm; simp at hm; subst hm; refine ⟨by simp, ?_⟩; intro f hf; simp at hf; subst hf; decide)
    (by intro m hm; cases hm)
    (by simp)
    (by intro m hm f hf c hc; simp at hm; rcases hm with rfl | rfl <;> simp at hf
        · rcases hf with rfl | rfl <;> revert c <;> decide
        · subst hf; revert c; decide)
    (by intro m hm; simp at hm; rcases hm with rfl | rfl <;> decide)
  exact h

/-- non-trivial instance: the tie — `[Na]•` and `[Na]` in one role print identically (`[Na].[Na]>> |^1:0|`); each gets
    its own mark back -/
example :
    let na : Str := [91, 78, 97, 93]
    readRxnRad (fun _ => 1) (formatRxn true false [sigOfW ([na], [true]), sigOfW ([na], [false])] [] []) =
      .roles [na, na] [] [] [[true], [false]] [] [] := by
  intro na
  have h := rxn_read_write_radicals (fun _ => 1) [([na], [true]), ([na], [false])] [] []
    (by intro m hm; simp at hm; subst hm; refine ⟨by simp, ?_⟩; intro f hf; simp at hf; subst hf; decide)
    (by intro m hm; cases hm)
    (by intro m hm; cases hm)
    (by simp)
    (by intro m hm f hf c hc; simp at hm; rcases hm with rfl | rfl <;> simp at hf <;> subst hf <;> revert c <;> decide)
    (by intro m hm; simp at hm; rcases hm with rfl | rfl <;> rfl)
  exact h

/-! ## part 10 — atom-to-atom mapping repair on reading (`postprocess_parsed_reaction`, files/_mapping.py)

`postprocessRxn remap ignore R P A` (Model/C15Mapping.lean, driver op `mapfix`): per role (reactants, products, reagents)
and molecule the `parsed_mapping` of the atoms (0 = unmapped) ↦ the final atom numbers. -/

/-- **mapping_untouched.** A complete consistent mapping (`CleanMaps`: every atom mapped, numbers pairwise different
    inside each role, reagents share no number with reactants / products) comes back unchanged — with the default options
    and with `ignore=False` (no `MappingError`). -/
theorem mapping_untouched (ignore : Bool) (R P A : List (List Nat)) (h : CleanMaps R P A) :
    postprocessRxn false ignore R P A = .ok ⟨R, P, A⟩ :=
  postprocess_clean ignore R P A h

/-- the same with `remap=True` when the numbers have no gaps (`1 … max` all in use) -/
theorem mapping_untouched_remap (ignore : Bool) (R P A : List (List Nat)) (h : CleanMaps R P A)
    (hg : ∀ j, 1 ≤ j → j ≤ max (max (maxList P.flatten) (maxList R.flatten)) (maxList A.flatten) →
      j ∈ R.flatten ++ P.flatten ++ A.flatten) :
    postprocessRxn true ignore R P A = .ok ⟨R, P, A⟩ :=
  postprocess_clean_remap ignore R P A h hg

/-- the hypotheses are satisfiable: `[CH3:1][OH:2].[Na+:5]>[K+:7]>[CH3:1][O-:2]` (gap at 3, 4, 6) -/
example : CleanMaps [[1, 2], [5]] [[1, 2]] [[7]] := by
  refine ⟨by decide, by decide, by decide, by decide, by decide⟩

/-- **mapping_repair_total.** With `ignore=True` the repair never raises. -/
theorem mapping_repair_total (R P A : List (List Nat)) : ∃ o, postprocessRxn false true R P A = .ok o :=
  postprocess_total R P A

/-- **mapping_repaired_injective.** Whatever was parsed (unmapped atoms, numbers repeated inside a molecule or a role,
    reagents re-using reactant / product numbers): afterwards every molecule has as many numbers as atoms, the numbers
    of every role are pairwise different (injective per role), reagents share no number with reactants or products,
    and all numbers are positive. -/
theorem mapping_repaired_injective (R P A : List (List Nat)) (o : MapOut)
    (h : postprocessRxn false true R P A = .ok o) : GoodMaps R P A o :=
  postprocess_spec R P A o h

/-- **mapping_keeps_unique.** Atom level: a reactant / product atom whose written map number is positive and does not
    occur earlier in its role keeps exactly that number (repair touches only unmapped atoms and repeated numbers). -/
theorem mapping_keeps_unique (R P A : List (List Nat)) (o : MapOut)
    (h : postprocessRxn false true R P A = .ok o) :
    (∀ i (hi : i < R.flatten.length), R.flatten[i] ≠ 0 → R.flatten[i] ∉ R.flatten.take i →
      o.reactants.flatten[i]? = some R.flatten[i]) ∧
    (∀ i (hi : i < P.flatten.length), P.flatten[i] ≠ 0 → P.flatten[i] ∉ P.flatten.take i →
      o.products.flatten[i]? = some P.flatten[i]) :=
  postprocess_keeps R P A o h

/-- **mapping_remap_consistent.** `remap=True` returns the result of `remap=False` renumbered by ONE map `g` that is
    injective on all numbers in use — the same `g` for reactants, products and reagents (so atom pairing between the
    sides, hence the condensed graph, is preserved: part 5) — and the result is again injective per role with reagents
    apart. For all parsed inputs: any number of gaps, unbalanced roles, duplicates. -/
theorem mapping_remap_consistent (R P A : List (List Nat)) (o : MapOut)
    (h : postprocessRxn true true R P A = .ok o) :
    GoodMaps R P A o ∧ ∃ o₀, postprocessRxn false true R P A = .ok o₀ ∧ ∃ g : Nat → Nat,
      (∀ a ∈ o₀.reactants.flatten ++ o₀.products.flatten ++ o₀.reagents.flatten,
        ∀ b ∈ o₀.reactants.flatten ++ o₀.products.flatten ++ o₀.reagents.flatten, g a = g b → a = b) ∧
      o.reactants.flatten = o₀.reactants.flatten.map g ∧ o.products.flatten = o₀.products.flatten.map g ∧
      o.reagents.flatten = o₀.reagents.flatten.map g :=
  postprocess_remap_spec R P A o h

/-- **mapping_remap_gapfree.** After `remap=True` the atom numbers in use are exactly `1 … k-1` for some `k`: every gap
    is closed, whatever the gaps, duplicates or unbalanced roles of the input ("Remap atom numbers started from one"). -/
theorem mapping_remap_gapfree (R P A : List (List Nat)) (o : MapOut)
    (h : postprocessRxn true true R P A = .ok o) :
    ∃ k, ∀ v, v ∈ o.reactants.flatten ++ o.products.flatten ++ o.reagents.flatten ↔ 1 ≤ v ∧ v < k :=
  postprocess_remap_gapfree R P A o h

/-- non-trivial instances (evaluated): a repeated number inside a molecule and a reagent re-using a reactant number are
    repaired with fresh numbers above the maximum; `remap=True` closes the gaps 3, 4 with one map for all roles
    (unbalanced: the products lack the highest number) -/
example :
    (postprocessRxn false true [[1, 1]] [[1, 2]] [[1]]).toOption = some ⟨[[1, 3]], [[1, 2]], [[4]]⟩ ∧
    (postprocessRxn true true [[1, 2, 9], [5]] [[1, 2, 5]] []).toOption = some ⟨[[1, 2, 4], [3]], [[1, 2, 3]], []⟩ ∧
    (postprocessRxn false false [[1, 1]] [[1, 2]] []).toOption = none := by
  decide

/-! ## part 11 — renumbering when numberings collide: `Graph.union(remap=True)` renumbers relative to `max`

`union` / `unionAll` / `rxnCompose` are the functions of Model/C15Compose.lean the driver runs (ops `union`, `rxn`). -/

/-- **compose_equivariant_on.** Part 5 at full strength: the renumbering need only be injective *on the atom numbers of
    the two sides* (any behaviour elsewhere; `compose_equivariant_dict_order` asks for a globally injective map) — e.g. the
    induced renaming of a union, or the gap-closing map of `remap=True` (`mapping_remap_consistent`), which are injective
    exactly on the numbers in use. Errors are the same errors. -/
theorem compose_equivariant_on (g : Nat → Nat) (r p : Mol) (wr : r.WF = true) (wp : p.WF = true)
    (hinj : ∀ x ∈ r.ids ++ p.ids, ∀ y ∈ r.ids ++ p.ids, g x = g y → x = y) :
    compose (rename g r) (rename g p) = mapExcept (renameCGR g) (compose r p) :=
  compose_rename_on g r p (wfp_of_WF r wr) (wfp_of_WF p wp) hinj

/-- non-trivial instance: ethanol → ethoxide renumbered by a map that is injective on {1, 2} only (3 ↦ 6 = image of 1) -/
example :
    let r : Mol := ⟨[(1, {z := 6}), (2, {z := 8})], [(1, [(2, {order := 1})]), (2, [(1, {order := 1})])]⟩
    let p : Mol := ⟨[(1, {z := 6}), (2, {z := 8, charge := -1})], [(1, [(2, {order := 1})]), (2, [(1, {order := 1})])]⟩
    let g : Nat → Nat := fun n => if n ≤ 2 then n + 5 else 6
    (∀ x ∈ r.ids ++ p.ids, ∀ y ∈ r.ids ++ p.ids, g x = g y → x = y) ∧ g 3 = g 1 ∧
    (compose (rename g r) (rename g p)).toOption.map (·.centerAtoms) = some [7] := by
  decide

/-- **remap_preserves_cgr.** Reading with `remap=True` does not change the condensed graph except for the renaming: let
    `o₀` be the atom numbers assigned without `remap` and `g` the gap-closing map of `mapping_remap_consistent`; for all
    well-formed sides `r`, `p` whose atoms carry numbers that are in use in `o₀`, composing the renumbered sides gives
    the renumbered condensed graph (same centre up to `g`, same errors). Holds for all parsed inputs — any gaps,
    unbalanced roles, reagents (the class of round-5 change 1). -/
theorem remap_preserves_cgr (R P A : List (List Nat)) (o : MapOut) (h : postprocessRxn true true R P A = .ok o) :
    ∃ o₀, postprocessRxn false true R P A = .ok o₀ ∧ ∃ g : Nat → Nat,
      o.reactants.flatten = o₀.reactants.flatten.map g ∧ o.products.flatten = o₀.products.flatten.map g ∧
      o.reagents.flatten = o₀.reagents.flatten.map g ∧
      ∀ r p : Mol, r.WF = true → p.WF = true →
        (∀ n ∈ r.ids ++ p.ids, n ∈ o₀.reactants.flatten ++ o₀.products.flatten ++ o₀.reagents.flatten) →
        compose (rename g r) (rename g p) = mapExcept (renameCGR g) (compose r p) := by
  obtain ⟨_, o₀, h0, g, hinj, e1, e2, e3⟩ := mapping_remap_consistent R P A o h
  refine ⟨o₀, h0, g, e1, e2, e3, ?_⟩
  intro r p wr wp hsub
  exact compose_equivariant_on g r p wr wp (fun x hx y hy => hinj x (hsub x hx) y (hsub y hy))

/-- **union_equivariant.** For every pair of well-formed graphs — disjoint, partly overlapping or identical numberings —
    and every injective renumbering `f` of both: `f a | f b` is `a | b` renumbered by the induced map `inducedRen f a b`
    (`f` on the numbers of `a`; with a collision the block `max(a)+1 …` goes to the block `max(f a)+1 …`), which agrees
    with `f` on the left operand and is injective on the atoms of the union. -/
theorem union_equivariant (f : Nat → Nat) (hf : Function.Injective f) (a b : Mol) (wa : a.WF = true) (wb : b.WF = true) :
    union (rename f a) (rename f b) = rename (inducedRen f a b) (union a b) ∧
    (∀ n ∈ a.ids, inducedRen f a b n = f n) ∧
    (∀ x ∈ (union a b).ids, ∀ y ∈ (union a b).ids, inducedRen f a b x = inducedRen f a b y → x = y) :=
  ⟨union_rename f hf a b (nbrClosed_of_wfp a (wfp_of_WF a wa)) (nbrClosed_of_wfp b (wfp_of_WF b wb)),
   inducedRen_left f a b, inducedRen_injOn f hf a b⟩

/-- non-trivial instance (evaluated): C1–C2 | C2–C3 with `n ↦ 10 n`: the right operand becomes 3, 4 before and 21, 22
    after the renumbering -/
example :
    let a : Mol := ⟨[(1, {z := 6}), (2, {z := 6})], [(1, [(2, {order := 1})]), (2, [(1, {order := 1})])]⟩
    let b : Mol := ⟨[(2, {z := 6}), (3, {z := 8})], [(2, [(3, {order := 2})]), (3, [(2, {order := 2})])]⟩
    a.WF = true ∧ b.WF = true ∧ (union a b).ids = [1, 2, 3, 4] ∧
    (union (rename (· * 10) a) (rename (· * 10) b)).ids = [10, 20, 21, 22] ∧
    (union a b).ids.map (inducedRen (· * 10) a b) = [10, 20, 21, 22] := by
  decide

/-- Full statement at reaction level: renumbering all molecules of a reaction renumbers its condensed graph (by some map). -/
def RxnComposeEquivariantFull : Prop :=
  ∀ (f : Nat → Nat), Function.Injective f → ∀ (R A P : List Mol), (∀ m ∈ R ++ A ++ P, m.WF = true) →
    ∃ g : Nat → Nat, rxnCompose (R.map (rename f)) (A.map (rename f)) (P.map (rename f)) =
      mapExcept (renameCGR g) (rxnCompose R A P)

/-- **rxn_compose_equivariant_partial.** Proved part: reactions whose molecules carry pairwise different numbers inside a
    side (reagents count to the reactant side) — the domain in which atom numbers are an atom-to-atom mapping; there the
    renaming of the CGR is `f` itself. Excluded class, exactly: some number occurs in two molecules of one side — then
    `Graph.union` renumbers the later molecule above `max` of the earlier ones, the fresh numbers can meet (or miss)
    numbers of the other side, and which of the two happens changes with `f` (witness below). -/
theorem rxn_compose_equivariant_partial (f : Nat → Nat) (hf : Function.Injective f) (R A P : List Mol)
    (hdr : DisjointIds (A ++ R)) (hdp : DisjointIds P) :
    rxnCompose (R.map (rename f)) (A.map (rename f)) (P.map (rename f)) =
      mapExcept (renameCGR f) (rxnCompose R A P) :=
  rxnCompose_rename f hf R A P hdr hdp

/-- the full statement fails outside that class: reactants {1,2} and {2,3} (the second is renumbered to 3, 4 by `union`),
    product {1,2,4}: atom 4 of the product meets the renumbered reactant atom; after `n ↦ 10 n` the reactant block is
    21, 22 and the product atom 40 meets nothing — 4 atoms in one condensed graph, 5 in the other. Not a defect of the
    property's domain (a number shared by two molecules of a side is no mapping), hence no finding. -/
example : ¬ RxnComposeEquivariantFull := by
  intro h
  let c : Atom := {z := 6}
  let R : List Mol := [⟨[(1, c), (2, c)], [(1, []), (2, [])]⟩, ⟨[(2, c), (3, c)], [(2, []), (3, [])]⟩]
  let P : List Mol := [⟨[(1, c), (2, c), (4, c)], [(1, []), (2, []), (4, [])]⟩]
  have hf : Function.Injective (fun n : Nat => n * 10) := by intro x y e; simp only at e; omega
  obtain ⟨g, e⟩ := h (fun n => n * 10) hf R [] P (by decide)
  have k1 : (rxnCompose (R.map (rename (fun n => n * 10))) ([].map (rename (fun n => n * 10)))
      (P.map (rename (fun n => n * 10)))).toOption.map (·.atoms.length) = some 5 := by decide
  have k0 : (rxnCompose R [] P).toOption.map (·.atoms.length) = some 4 := by decide
  rw [e] at k1
  cases hr : rxnCompose R [] P with
  | error _ => rw [hr] at k0; cases k0
  | ok h0 =>
    rw [hr] at k0 k1
    simp [mapExcept, renameCGR, Except.toOption] at k0 k1
    omega

end ChythonModel.Props.C15
