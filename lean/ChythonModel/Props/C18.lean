import ChythonModel.Gen.PeriodicTable
import ChythonModel.Spec.Iupac
import ChythonModel.Model.C18Atom
/-!
# C18 — periodic table data are complete and mutually consistent

The model *is* the data: `Gen.periodicTable`, `Gen.packCommonIsotopes`, `Gen.unpackCommonIsotopes`,
`Gen.unpackElements` are regenerated from /repo on every run. Each clause of the property is a decidable
predicate over one row, and the theorem is the universally quantified statement over *all* rows of the
table (all 118 elements × all tabulated isotopes × charges −4…4 × H 0…6/unknown), proved by kernel
evaluation (`decide +kernel`, no axioms beyond the standard three).

Known findings (see known_findings.json): the reference (`mdl_isotope`) mass number of the elements in
`mdlMissing` is not a tabulated isotope.  The full statement `MdlInDistribution` is kept visible; the
proved theorem is `mdl_in_distribution_partial`, which excludes exactly those symbols; the negation of the
full statement is proved with a concrete witness in `Findings/C18.lean`.
-/
namespace ChythonModel.Props.C18
open ChythonModel.Gen ChythonModel.Spec ChythonModel.Model.C18

/-! ## lookups as the code performs them: `fromSymbol`, `fromNumber`, `keys` are the definitions of `Model/C18Atom.lean`
(the ones `drv_c18` runs against the real lookups on every check) -/

def sameKeys (a b : List Nat) : Bool := a.all (b.contains ·) && b.all (a.contains ·)

/-! ## clause 1: numbers 1…118, lookups mutually inverse, agreement with the standard table -/

theorem numbers_1_118 :
    periodicTable.length = 118 ∧
    ∀ n ∈ List.range' 1 118, (periodicTable.filter (·.z == n)).length = 1 := by decide +kernel

theorem symbols_unique : ∀ r ∈ periodicTable, (periodicTable.filter (·.sym == r.sym)).length = 1 := by
  decide +kernel

theorem symbol_number_inverse :
    ∀ r ∈ periodicTable, fromSymbol r.sym = some r ∧ fromNumber r.z = some r ∧
      (fromSymbol r.sym).map (·.z) = some r.z ∧ (fromNumber r.z).map (·.sym) = some r.sym := by
  decide +kernel

theorem agrees_with_standard :
    (∀ r ∈ periodicTable, iupac.lookup r.z = some r.sym) ∧
    (∀ p ∈ iupac, (fromNumber p.1).map (·.sym) = some p.2) := by decide +kernel

theorem rows_in_standard_range :
    ∀ r ∈ periodicTable, 1 ≤ r.z ∧ r.z ≤ 118 ∧ iupac.lookup r.z = some r.sym := by decide +kernel

/-- The lookups answer only for entries of the standard table: a number outside 1…118 or a string that is not a
standard symbol is rejected (unbounded in `n` and `s`; the correspondence check runs the live lookups, including the
Query*/Dynamic* variants, on numbers −260…0 and 119…399 and on every one/two letter non-symbol). -/
theorem lookups_only_in_table :
    (∀ n r, fromNumber n = some r → 1 ≤ n ∧ n ≤ 118 ∧ iupac.lookup n = some r.sym) ∧
    (∀ s r, fromSymbol s = some r → r.sym = s ∧ iupac.lookup r.z = some s) := by
  refine ⟨fun n r h => ?_, fun s r h => ?_⟩
  · have hm : r ∈ periodicTable := by
      have := List.mem_of_find?_eq_some h
      simpa using this
    have hz : r.z = n := by simpa using List.find?_some h
    have := rows_in_standard_range r hm
    subst hz; exact this
  · have hm : r ∈ periodicTable := List.mem_of_find?_eq_some h
    have hs : r.sym = s := by simpa using List.find?_some h
    have := rows_in_standard_range r hm
    subst hs; exact ⟨rfl, this.2.2⟩

example : fromNumber 0 = none ∧ fromNumber 119 = none ∧ fromSymbol "Xx" = none ∧ fromSymbol "h" = none := by decide +kernel

/-! ## clause 2: isotope tables -/

/-- Full statement: abundance and mass tables have the same keys. -/
def IsotopeKeysEqual : Prop := ∀ r ∈ periodicTable, sameKeys (keys r.dist) (keys r.mass) = true

theorem isotope_keys_equal : IsotopeKeysEqual := by unfold IsotopeKeysEqual; decide +kernel

theorem isotope_keys_nodup : ∀ r ∈ periodicTable, (keys r.dist).Nodup ∧ (keys r.mass).Nodup := by
  decide +kernel

theorem isotope_tables_nonempty : ∀ r ∈ periodicTable, r.dist ≠ [] := by decide +kernel

/-- Full statement: the reference isotope is tabulated. -/
def MdlInDistribution : Prop := ∀ r ∈ periodicTable, (keys r.dist).contains r.mdl = true

/-- Symbols for which `MdlInDistribution` is known to fail today (known findings, one per element). -/
def mdlMissing : List String :=
  ["Pu", "Cm", "Bk", "Cf", "Lr", "Rf", "Db", "Ni", "Ag", "Rg", "Zn", "Ga", "Tl", "Nh", "Sb", "Se", "Po",
   "Br", "Ts"]

theorem mdl_in_distribution_partial :
    ∀ r ∈ periodicTable, mdlMissing.contains r.sym = false → (keys r.dist).contains r.mdl = true := by
  decide +kernel

/-- `atomic_mass`: with an isotope set (the setter only accepts keys of the abundance table) the mass lookup
    succeeds, and the natural-abundance sum only looks up keys of the abundance table. -/
theorem mass_computable :
    ∀ r ∈ periodicTable, ∀ i ∈ keys r.dist, (r.mass.lookup i).isSome = true := by decide +kernel

theorem abundances_sum_le_one :
    ∀ r ∈ periodicTable, (r.dist.map (·.2)).sum ≤ 1000100 := by decide +kernel

/-! ## clause 3: representability in the pack format and in the matcher bit layout -/

def commonAt (t : List Int) (z : Nat) : Int := t.getD z 0

/-- 5-bit isotope field: `isotope − common_isotopes[Z]` must be 1…31 (0 = unspecified). -/
theorem pack_isotopes_representable :
    ∀ r ∈ periodicTable, ∀ i ∈ keys r.dist,
      1 ≤ (i : Int) - commonAt packCommonIsotopes r.z ∧ (i : Int) - commonAt packCommonIsotopes r.z ≤ 31 := by
  decide +kernel

/-- 7-bit atomic-number field, 4-bit charge field `(c+4)`, 3-bit hydrogen field with 7 = unknown. -/
theorem pack_fields_representable :
    (∀ r ∈ periodicTable, r.z ≤ 127) ∧
    (∀ c ∈ [(-4 : Int), -3, -2, -1, 0, 1, 2, 3, 4], 0 ≤ c + 4 ∧ c + 4 ≤ 15) ∧
    (∀ h ∈ [0, 1, 2, 3, 4, 5, 6], h < 7) := by decide +kernel

theorem pack_tables_consistent :
    packCommonIsotopes = unpackCommonIsotopes ∧ packCommonIsotopes.length = 119 ∧
    unpackElements.length = 119 ∧
    (∀ r ∈ periodicTable, commonAt packCommonIsotopes r.z = (r.mdl : Int) - 16 ∧
        unpackElements.getD r.z "" = r.sym) := by decide +kernel

/-- matcher bit layout (`_cython_compiled_structure`): isotope bit `iso − mdl + 54` must be in 46…62. -/
theorem matcher_isotopes_representable :
    ∀ r ∈ periodicTable, ∀ i ∈ keys r.dist,
      (46 : Int) ≤ (i : Int) - r.mdl + 54 ∧ (i : Int) - r.mdl + 54 ≤ 62 := by decide +kernel

/-- charge bit `c + 39` ∈ 35…43; element bits: Z ≤ 56 → `57 − Z` ∈ 1…56 ; Z > 56 → `120 − min Z 116` ∈ 4…63. -/
theorem matcher_fields_representable :
    (∀ c ∈ [(-4 : Int), -3, -2, -1, 0, 1, 2, 3, 4], 35 ≤ c + 39 ∧ c + 39 ≤ 43) ∧
    (∀ r ∈ periodicTable, if r.z ≤ 56 then 1 ≤ 57 - r.z ∧ 57 - r.z ≤ 56
                          else 4 ≤ 120 - min r.z 116 ∧ 120 - min r.z 116 ≤ 63) := by decide +kernel

/-! ## clause 4: valence tables compile, variants exist -/

/-- `_compiled_valence_rules` resolves every environment symbol through the class table (no `KeyError`),
    and `_common_valences` is non-empty (`[0]` is indexed). -/
theorem valence_tables_compile :
    ∀ r ∈ periodicTable, r.common ≠ [] ∧
      ∀ e ∈ r.exc, ∀ be ∈ e.2.2.2, (fromSymbol be.2).isSome = true := by decide +kernel

theorem exception_charges_in_range :
    ∀ r ∈ periodicTable, ∀ e ∈ r.exc, (-4 : Int) ≤ e.1 ∧ e.1 ≤ 4 := by decide +kernel

theorem variants_exist :
    ∀ r ∈ periodicTable, r.qz = some r.z ∧ r.qmdl = some r.mdl ∧ r.dz = some r.z ∧ r.exported = true := by
  decide +kernel

/-! ## non-vacuity -/
example : (fromSymbol "C").map (·.z) = some 6 := by decide +kernel
example : ∃ r ∈ periodicTable, r.sym = "Og" ∧ r.z = 118 := by decide +kernel

end ChythonModel.Props.C18
