import ChythonModel.Gen.PeriodicTable
import ChythonModel.Spec.Iupac
import ChythonModel.Model.C18Atom
import ChythonModel.Proofs.C18History
import ChythonModel.Proofs.C18Matcher
/-!
# C18 — periodic table data are complete and mutually consistent

The model *is* the data: `Gen.periodicTable`, `Gen.packCommonIsotopes`, `Gen.unpackCommonIsotopes`,
`Gen.unpackElements` are regenerated from /repo on every run. Each clause of the property is a decidable
predicate over one row, and the theorem is the universally quantified statement over *all* rows of the
table (all 118 elements × all tabulated isotopes × charges −4…4 × H 0…6/unknown), proved by kernel
evaluation (`decide +kernel`, no axioms beyond the standard three).

Known findings (see known_findings.json): the reference (`mdl_isotope`) mass number of the elements in
`mdlMissing` is not a tabulated isotope.  The full statement `MdlInDistribution` is kept visible; the
proved theorem is `mdl_in_distribution_partial`, which excludes exactly those symbols; the negation of the
full statement is proved with a concrete witness in `Findings/C18.lean`.
-/
namespace ChythonModel.Props.C18
open ChythonModel.Gen ChythonModel.Spec ChythonModel.Model.C18 ChythonModel.Proofs.C18 ChythonModel.Model ChythonModel.Gen.Bits

/-! ## lookups as the code performs them: `fromSymbol`, `fromNumber`, `keys` are the definitions of `Model/C18Atom.lean`
(the ones `drv_c18` runs against the real lookups on every check) -/

def sameKeys (a b : List Nat) : Bool := a.all (b.contains ·) && b.all (a.contains ·)

/-! ## clause 1: numbers 1…118, lookups mutually inverse, agreement with the standard table -/

theorem numbers_1_118 :
    periodicTable.length = 118 ∧
    ∀ n ∈ List.range' 1 118, (periodicTable.filter (·.z == n)).length = 1 := by decide +kernel

theorem symbols_unique : ∀ r ∈ periodicTable, (periodicTable.filter (·.sym == r.sym)).length = 1 := by
  decide +kernel

theorem symbol_number_inverse :
    ∀ r ∈ periodicTable, fromSymbol r.sym = some r ∧ fromNumber r.z = some r ∧
      (fromSymbol r.sym).map (·.z) = some r.z ∧ (fromNumber r.z).map (·.sym) = some r.sym := by
  decide +kernel

theorem agrees_with_standard :
    (∀ r ∈ periodicTable, iupac.lookup r.z = some r.sym) ∧
    (∀ p ∈ iupac, (fromNumber p.1).map (·.sym) = some p.2) := by decide +kernel

theorem rows_in_standard_range :
    ∀ r ∈ periodicTable, 1 ≤ r.z ∧ r.z ≤ 118 ∧ iupac.lookup r.z = some r.sym := by decide +kernel

/-- The lookups answer only for entries of the standard table: a number outside 1…118 or a string that is not a
standard symbol is rejected (unbounded in `n` and `s`; the correspondence check runs the live lookups, including the
Query*/Dynamic* variants, on numbers −260…0 and 119…399 and on every one/two letter non-symbol). -/
theorem lookups_only_in_table :
    (∀ n r, fromNumber n = some r → 1 ≤ n ∧ n ≤ 118 ∧ iupac.lookup n = some r.sym) ∧
    (∀ s r, fromSymbol s = some r → r.sym = s ∧ iupac.lookup r.z = some s) := by
  refine ⟨fun n r h => ?_, fun s r h => ?_⟩
  · have hm : r ∈ periodicTable := by
      have := List.mem_of_find?_eq_some h
      simpa using this
    have hz : r.z = n := by simpa using List.find?_some h
    have := rows_in_standard_range r hm
    subst hz; exact this
  · have hm : r ∈ periodicTable := List.mem_of_find?_eq_some h
    have hs : r.sym = s := by simpa using List.find?_some h
    have := rows_in_standard_range r hm
    subst hs; exact ⟨rfl, this.2.2⟩

example : fromNumber 0 = none ∧ fromNumber 119 = none ∧ fromSymbol "Xx" = none ∧ fromSymbol "h" = none := by decide +kernel

/-! ## clause 2: isotope tables -/

/-- Full statement: abundance and mass tables have the same keys. -/
def IsotopeKeysEqual : Prop := ∀ r ∈ periodicTable, sameKeys (keys r.dist) (keys r.mass) = true

theorem isotope_keys_equal : IsotopeKeysEqual := by unfold IsotopeKeysEqual; decide +kernel

theorem isotope_keys_nodup : ∀ r ∈ periodicTable, (keys r.dist).Nodup ∧ (keys r.mass).Nodup := by
  decide +kernel

theorem isotope_tables_nonempty : ∀ r ∈ periodicTable, r.dist ≠ [] := by decide +kernel

/-- Full statement: the reference isotope is tabulated. -/
def MdlInDistribution : Prop := ∀ r ∈ periodicTable, (keys r.dist).contains r.mdl = true

/-- Symbols for which `MdlInDistribution` is known to fail today (known findings, one per element). -/
def mdlMissing : List String :=
  ["Pu", "Cm", "Bk", "Cf", "Lr", "Rf", "Db", "Ni", "Ag", "Rg", "Zn", "Ga", "Tl", "Nh", "Sb", "Se", "Po",
   "Br", "Ts"]

theorem mdl_in_distribution_partial :
    ∀ r ∈ periodicTable, mdlMissing.contains r.sym = false → (keys r.dist).contains r.mdl = true := by
  decide +kernel

/-- `atomic_mass`: with an isotope set (the setter only accepts keys of the abundance table) the mass lookup
    succeeds, and the natural-abundance sum only looks up keys of the abundance table. -/
theorem mass_computable :
    ∀ r ∈ periodicTable, ∀ i ∈ keys r.dist, (r.mass.lookup i).isSome = true := by decide +kernel

theorem abundances_sum_le_one :
    ∀ r ∈ periodicTable, (r.dist.map (·.2)).sum ≤ 1000100 := by decide +kernel

/-! ## clause 3: representability in the pack format and in the matcher bit layout -/

def commonAt (t : List Int) (z : Nat) : Int := t.getD z 0

/-- 5-bit isotope field: `isotope − common_isotopes[Z]` must be 1…31 (0 = unspecified). -/
theorem pack_isotopes_representable :
    ∀ r ∈ periodicTable, ∀ i ∈ keys r.dist,
      1 ≤ (i : Int) - commonAt packCommonIsotopes r.z ∧ (i : Int) - commonAt packCommonIsotopes r.z ≤ 31 := by
  decide +kernel

/-- 7-bit atomic-number field, 4-bit charge field `(c+4)`, 3-bit hydrogen field with 7 = unknown. -/
theorem pack_fields_representable :
    (∀ r ∈ periodicTable, r.z ≤ 127) ∧
    (∀ c ∈ [(-4 : Int), -3, -2, -1, 0, 1, 2, 3, 4], 0 ≤ c + 4 ∧ c + 4 ≤ 15) ∧
    (∀ h ∈ [0, 1, 2, 3, 4, 5, 6], h < 7) := by decide +kernel

theorem pack_tables_consistent :
    packCommonIsotopes = unpackCommonIsotopes ∧ packCommonIsotopes.length = 119 ∧
    unpackElements.length = 119 ∧
    (∀ r ∈ periodicTable, commonAt packCommonIsotopes r.z = (r.mdl : Int) - 16 ∧
        unpackElements.getD r.z "" = r.sym) := by decide +kernel

/-- matcher bit layout (`_cython_compiled_structure`): isotope bit `iso − mdl + 54` must be in 46…62. -/
theorem matcher_isotopes_representable :
    ∀ r ∈ periodicTable, ∀ i ∈ keys r.dist,
      (46 : Int) ≤ (i : Int) - r.mdl + 54 ∧ (i : Int) - r.mdl + 54 ≤ 62 := by decide +kernel

/-- charge bit `c + 39` ∈ 35…43; element bits: Z ≤ 56 → `57 − Z` ∈ 1…56 ; Z > 56 → `120 − min Z 116` ∈ 4…63. -/
theorem matcher_fields_representable :
    (∀ c ∈ [(-4 : Int), -3, -2, -1, 0, 1, 2, 3, 4], 35 ≤ c + 39 ∧ c + 39 ≤ 43) ∧
    (∀ r ∈ periodicTable, if r.z ≤ 56 then 1 ≤ 57 - r.z ∧ 57 - r.z ≤ 56
                          else 4 ≤ 120 - min r.z 116 ∧ 120 - min r.z 116 ≤ 63) := by decide +kernel


/-! ## clause 2, continued: the tables are mutually consistent as *numbers*, and `atomic_mass` over the life of an atom object

The definitions below (`new`, `step`, `run`, `massOf`, …) are those of `Model/C18Atom.lean`, which `drv_c18` executes against the
real `Element` objects on every run (request `HIST`: walks through the whole isotope table of every element plus seeded random
histories with rejected and wrong-typed assignments). -/

/-- the tabulated mass of isotope `A` is within 0.25 u of `A` (the largest mass excess of any nuclide is ≈ 0.21 u): a digit typo
    in a mass literal, or a mass filed under the wrong mass number, breaks this -/
theorem isotope_mass_near_mass_number :
    ∀ r ∈ periodicTable, ∀ p ∈ r.mass, p.1 * 1000000 ≤ p.2 + 250000 ∧ p.2 ≤ p.1 * 1000000 + 250000 := by decide +kernel

theorem abundances_sum_ge_one : ∀ r ∈ periodicTable, 999900 ≤ (r.dist.map (·.2)).sum := by decide +kernel

/-- no isotope is labelled 0 (a falsy label would read as "no isotope" in `if a.isotope:`) -/
theorem isotope_keys_positive : ∀ r ∈ periodicTable, (keys r.dist).contains 0 = false := by decide +kernel

/-- every state of the invariant (label `None` or tabulated, charge in range) has a mass -/
theorem mass_of_state_computable :
    ∀ r ∈ periodicTable, ∀ o : Obj, Inv r o → ∃ m, massOf r o = .ok m := by
  intro r hr o hinv
  have hm := mass_computable r hr
  unfold massOf massIso
  cases hi : o.isotope with
  | none =>
    exact naturalMass_ok r.mass r.dist (fun p hp => hm p.1 (List.mem_map.mpr ⟨p, hp, rfl⟩))
  | some i =>
    have hc := hinv.1 i hi
    have hmem : i ∈ keys r.dist := by simpa using hc
    have := hm i hmem
    cases hl : r.mass.lookup i with
    | none => simp [hl] at this
    | some m => exact ⟨m * 1000000, by simp only [hl]⟩

/-- **atomic mass is computable after every history**: whatever constructor arguments were accepted and whatever sequence of
    assignments (accepted or rejected), reads, copies and rule lookups followed, `atomic_mass` returns a number, and that number
    is the one the tables give for the label assigned last (`lastIso`) — nothing else of the history enters. -/
theorem mass_after_every_history :
    ∀ r ∈ periodicTable, ∀ (a b c : PyVal) (o : Obj) (ops : List Op), new r a b c = .ok o →
      (∃ m, massOf r (runObj r o ops) = .ok m) ∧
      massOf r (runObj r o ops) = massIso r (lastIso r o.isotope ops) := by
  intro r hr a b c o ops hnew
  refine ⟨mass_of_state_computable r hr _ (run_inv ops (new_inv hnew)), ?_⟩
  unfold massOf
  rw [run_isotope]

/-- a rejected assignment leaves the object exactly as it was -/
theorem rejected_assignment_keeps_object (r : ElemRow) (o : Obj) (op : Op) (e : Err)
    (h : (step r o op).2 = .raised e) : (step r o op).1 = o := by
  cases op with
  | iso v =>
    simp only [step] at h ⊢
    cases hs : setIsotope r o v with
    | error e' => rfl
    | ok o' => rw [hs] at h; cases h
  | charge v =>
    simp only [step] at h ⊢
    cases hs : setCharge o v with
    | error e' => rfl
    | ok o' => rw [hs] at h; cases h
  | rad v =>
    simp only [step] at h ⊢
    cases hs : setRadical o v with
    | error e' => rfl
    | ok o' => rw [hs] at h; cases h
  | read => rfl
  | copy => rfl
  | rules v => rfl

/-- reading the mass, copying and looking up valence rules do not change the object -/
theorem observations_keep_object (r : ElemRow) (o : Obj) (v : Nat) :
    (step r o .read).1 = o ∧ (step r o .copy).1 = o ∧ (step r o (.rules v)).1 = o := ⟨rfl, rfl, rfl⟩

def isoVal (o : Obj) : PyVal := match o.isotope with | none => .none | some i => .int i

/-- every state a history can reach is the state a single constructor call builds: comparing a walked object with a freshly
    constructed one (the oracle of the history check) loses nothing -/
theorem reachable_state_is_constructible (r : ElemRow) (o : Obj) (h : Inv r o) :
    new r (isoVal o) (.int o.charge) (.bool o.radical) = .ok o := by
  obtain ⟨oi, oc, orad⟩ := o
  obtain ⟨h1, h2, h3⟩ := h
  have hc : ¬ (oc > 4 ∨ oc < -4) := by dsimp only at h2 h3; omega
  cases oi with
  | none => simp [new, isoVal, setIsotope, setCharge, setRadical, asInt?, hc]
  | some i =>
    have hmem : i ∈ keys r.dist := by simpa using h1 i rfl
    simp [new, isoVal, setIsotope, setCharge, setRadical, asInt?, hc, hmem]

example : ∃ r ∈ periodicTable, r.sym = "C" ∧
    (run r ⟨none, 0, false⟩ [.read, .iso (.int 13), .read, .iso (.int 15), .iso .other, .charge (.int 5), .read]).2.length = 7 ∧
    runObj r ⟨none, 0, false⟩ [.read, .iso (.int 13), .read, .iso (.int 15), .charge (.int 5)] = ⟨some 13, 0, false⟩ ∧
    (massOf r ⟨some 13, 0, false⟩).toOption = some 13003355000000 := by decide +kernel

/-! ## clause 3, continued: every state is found by its own query atom in BOTH matchers

`accelFound` is the accelerated test on the four words the two encoders write (C09's `Bits.encAtom`, `Bits.encQAtom`,
`Bits.rootOk` over the regenerated layout constants), `pyFound` the reference `QueryElement.__eq__` (C08's `pyEq`), `selects`
the documented rule.  `drv_c18` (request `BITS`) compares word 3 of both real encoders and the outcome of both real matchers
with these functions for every state of the grid and for the queries differing in one field. -/

def charges : List Int := [-4, -3, -2, -1, 0, 1, 2, 3, 4]
def hydrogens : List (Option Nat) := [none, some 0, some 1, some 2, some 3, some 4]
/-- "no isotope" and every tabulated isotope of the row -/
def labels (r : ElemRow) : List (Option Nat) := none :: (keys r.dist).map some
/-- every tabulated isotope | none × charge −4…4 × radical flag -/
def states (r : ElemRow) : List Obj :=
  (labels r).flatMap fun i => charges.flatMap fun c => [⟨i, c, false⟩, ⟨i, c, true⟩]

/-- Full statement of the clause: every state, with every hydrogen count 0…4/unknown and every neighbour / heteroatom count
    0…14, is found by the query atom that describes it, by both matchers. -/
def MatcherFindsEveryState : Prop :=
  ∀ r ∈ periodicTable, ∀ o ∈ states r, ∀ h ∈ hydrogens, ∀ nb ≤ 14, ∀ het ≤ 14,
    accelFound r o none o h nb het = some true ∧ pyFound r o none o h nb het = true

/-- the reference matcher half of the full statement, for *all* counts (no table evaluation: a consequence of
    `pyFound_eq_selects` and `isotope_keys_positive`) -/
theorem reference_matcher_finds_every_state :
    ∀ r ∈ periodicTable, ∀ o ∈ states r, ∀ (h : Option Nat) (nb het : Nat), pyFound r o none o h nb het = true := by
  intro r hr o ho h nb het
  rw [pyFound_eq_selects, selects_self]
  intro h0
  have hk := isotope_keys_positive r hr
  simp only [states, labels, List.mem_flatMap, List.mem_cons, List.mem_map, List.not_mem_nil, or_false] at ho
  obtain ⟨i, hi, c, _, hoc⟩ := ho
  have hoi : o.isotope = i := by rcases hoc with rfl | rfl <;> rfl
  rw [hoi] at h0
  rcases hi with rfl | ⟨k, hk', rfl⟩
  · cases h0
  · injection h0 with h0
    subst h0
    have : (keys r.dist).contains 0 = true := by simpa using hk'
    rw [hk] at this
    cases this

/-- the accelerated half on the complete isotope × charge × radical grid of every element (kernel evaluation of both encoders
    and the mask test; hydrogens 0, no neighbours) -/
theorem accelerated_finds_own_state_grid :
    (periodicTable.all fun r => (states r).all fun o => accelFound r o none o (some 0) 0 0 == some true) = true := by
  decide +kernel

/-- the grid statement in ∀-form, with the reference matcher: all elements × all tabulated isotopes | none × charges −4…4 ×
    radical flag (the quantifier of the property), at hydrogens = 0, no neighbours -/
theorem matcher_finds_every_state_partial :
    ∀ r ∈ periodicTable, ∀ o ∈ states r,
      accelFound r o none o (some 0) 0 0 = some true ∧ pyFound r o none o (some 0) 0 0 = true := by
  intro r hr o ho
  refine ⟨?_, reference_matcher_finds_every_state r hr o ho _ _ _⟩
  have := accelerated_finds_own_state_grid
  rw [List.all_eq_true] at this
  have := this r hr
  rw [List.all_eq_true] at this
  simpa using this o ho

/-- the count fields of the layout: the bit of every hydrogen count (unknown, 0…4) lies inside the query's "any hydrogens" mask,
    the bit of every neighbour / heteroatom count 0…14 inside the "any neighbours" / "any heteroatoms" mask, and all fit 64 bits -/
theorem matcher_count_fields :
    (∀ h ∈ hydrogens, subBits (1 <<< (Bits.hOr h + sHOff)) qHAll ∧ 1 <<< (Bits.hOr h + sHOff) < Bits.two64) ∧
    (∀ k ∈ List.range 15, subBits (1 <<< (k + sNbOff)) qNbAll ∧ 1 <<< (k + sNbOff) < Bits.two64 ∧
        subBits (1 <<< k) qHetAll ∧ 1 <<< k < Bits.two64) := by
  unfold subBits; decide +kernel

/-- **the full statement**: every state of the grid, with every hydrogen count and every neighbour / heteroatom count, is found by
    its own query atom in both matchers (grid evaluation at counts 0 lifted to all counts by `accel_lift`: word 3 is an OR of
    independent parts and the test is an inclusion per part). -/
theorem matcher_finds_every_state : MatcherFindsEveryState := by
  intro r hr o ho h hh nb hnb het hhet
  refine ⟨?_, reference_matcher_finds_every_state r hr o ho _ _ _⟩
  obtain ⟨fh, fk⟩ := matcher_count_fields
  have hnb' := fk nb (List.mem_range.mpr (by omega))
  have hhet' := fk het (List.mem_range.mpr (by omega))
  exact accel_lift r o h nb het (fh h hh).1 (fh h hh).2 hnb'.1 hnb'.2.1 hhet'.2.2.1 hhet'.2.2.2
    (matcher_finds_every_state_partial r hr o ho).1

/-- per row: the isotope/radical part of a molecule atom shares no bit with the charge / count part of any query mask, and the
    isotope/radical part of a query mask has no bit at any charge position -/
theorem matcher_fields_disjoint :
    (periodicTable.all fun r => match r.qmdl with
      | none => false
      | some qmdl => (labels r).all fun i => [false, true].all fun rad => charges.all fun c =>
          (isoRadV3 r.mdl i rad &&& qRest c == 0) && !(qIsoRadV3 qmdl i rad).testBit (chargeBit c)) = true := by
  decide +kernel

/-- the charge / count part of a query mask has, among the charge positions, exactly the bit of its own charge -/
theorem matcher_charge_positions :
    (charges.all fun qc => charges.all fun c => (qRest qc).testBit (chargeBit c) == (qc == c)) = true := by decide +kernel

/-- per row: inclusion of the isotope/radical parts is the documented isotope and radical rule, for every pair of labels -/
theorem matcher_isotope_radical_parts :
    (periodicTable.all fun r => match r.qmdl with
      | none => false
      | some qmdl => (labels r).all fun i => (labels r).all fun j => [false, true].all fun ro => [false, true].all fun rq =>
          decide (subBits (isoRadV3 r.mdl i ro) (qIsoRadV3 qmdl j rq)) == (isoSel j i && rq == ro)) = true := by
  decide +kernel

/-- **the accelerated matcher is the documented rule on the whole state space of an element**: for every element, every pair
    (query state, atom state) of the isotope|none × charge × radical grid, every hydrogen count and every neighbour / heteroatom
    count, the mask test on the words the two encoders write answers exactly "isotope unspecified or equal, charge equal, radical
    flag equal" — and so does the reference matcher.  In particular an atom is found by its own query atom and by no query atom
    that differs from it in isotope, charge or radical flag. -/
theorem accelerated_matcher_is_documented_rule :
    ∀ r ∈ periodicTable, ∀ q ∈ states r, ∀ o ∈ states r, ∀ h ∈ hydrogens, ∀ nb ≤ 14, ∀ het ≤ 14,
      accelFound r q none o h nb het = some (selects q none o h) ∧ pyFound r q none o h nb het = selects q none o h := by
  intro r hr q hq o ho h hh nb hnb het hhet
  have mem_states : ∀ {x : Obj}, x ∈ states r → x.isotope ∈ labels r ∧ x.charge ∈ charges := by
    intro x hx
    simp only [states, List.mem_flatMap, List.mem_cons, List.not_mem_nil, or_false] at hx
    obtain ⟨i, hi, c, hc, hoc⟩ := hx
    rcases hoc with rfl | rfl <;> exact ⟨hi, hc⟩
  have bool_mem : ∀ b : Bool, b ∈ [false, true] := by intro b; cases b <;> simp
  obtain ⟨hqi, hqc⟩ := mem_states hq
  obtain ⟨hoi, hoc⟩ := mem_states ho
  constructor
  · obtain ⟨fh, fk⟩ := matcher_count_fields
    have hnb' := fk nb (List.mem_range.mpr (by omega))
    have hhet' := fk het (List.mem_range.mpr (by omega))
    obtain ⟨qmdl, hqm, hacc⟩ := accel_struct r q o h nb het (fh h hh).1 (fh h hh).2 hnb'.1 hnb'.2.1 hhet'.2.2.1 hhet'.2.2.2
      (matcher_finds_every_state_partial r hr q hq).1 (matcher_finds_every_state_partial r hr o ho).1
    rw [hacc, coreV3_eq, qV3_eq, selects_eq]
    congr 1
    have F1 := matcher_fields_disjoint
    rw [List.all_eq_true] at F1
    have F1r := F1 r hr
    rw [hqm] at F1r
    simp only [List.all_eq_true, Bool.and_eq_true, beq_iff_eq, Bool.not_eq_true'] at F1r
    have F3 := matcher_charge_positions
    simp only [List.all_eq_true, beq_iff_eq] at F3
    have F2 := matcher_isotope_radical_parts
    rw [List.all_eq_true] at F2
    have F2r := F2 r hr
    rw [hqm] at F2r
    simp only [List.all_eq_true, beq_iff_eq] at F2r
    exact core_sub_iff r.mdl qmdl o.isotope q.isotope o.radical q.radical o.charge q.charge
      (F1r o.isotope hoi o.radical (bool_mem _) q.charge hqc).1
      (F1r q.isotope hqi q.radical (bool_mem _) o.charge hoc).2
      (F3 q.charge hqc o.charge hoc)
      (F2r o.isotope hoi q.isotope hqi o.radical (bool_mem _) q.radical (bool_mem _))
  · apply pyFound_eq_selects
    intro h0
    have hk := isotope_keys_positive r hr
    simp only [labels, List.mem_cons, List.mem_map] at hqi
    rw [h0] at hqi
    rcases hqi with hqi | ⟨k, hk', hk2⟩
    · cases hqi
    · injection hk2 with hk2
      subst hk2
      have : (keys r.dist).contains 0 = true := by simpa using hk'
      rw [hk] at this
      cases this

example : ∃ r ∈ periodicTable, r.sym = "C" ∧ (⟨some 13, -1, true⟩ : Obj) ∈ states r ∧
    accelFound r ⟨some 13, -1, true⟩ none ⟨some 13, -1, true⟩ (some 0) 0 0 = some true ∧
    accelFound r ⟨some 13, -1, false⟩ none ⟨some 13, -1, true⟩ (some 0) 0 0 = some false ∧
    accelFound r ⟨some 12, -1, true⟩ none ⟨some 13, -1, true⟩ (some 3) 2 1 = some false ∧
    accelFound r ⟨none, -1, true⟩ none ⟨some 13, -1, true⟩ (some 3) 2 1 = some true := by decide +kernel

/-! ## clause 4: valence tables compile, variants exist -/

/-- `_compiled_valence_rules` resolves every environment symbol through the class table (no `KeyError`),
    and `_common_valences` is non-empty (`[0]` is indexed). -/
theorem valence_tables_compile :
    ∀ r ∈ periodicTable, r.common ≠ [] ∧
      ∀ e ∈ r.exc, ∀ be ∈ e.2.2.2, (fromSymbol be.2).isSome = true := by decide +kernel

theorem exception_charges_in_range :
    ∀ r ∈ periodicTable, ∀ e ∈ r.exc, (-4 : Int) ≤ e.1 ∧ e.1 ≤ 4 := by decide +kernel

theorem variants_exist :
    ∀ r ∈ periodicTable, r.qz = some r.z ∧ r.qmdl = some r.mdl ∧ r.dz = some r.z ∧ r.exported = true := by
  decide +kernel

/-! ## non-vacuity -/
example : (fromSymbol "C").map (·.z) = some 6 := by decide +kernel
example : ∃ r ∈ periodicTable, r.sym = "Og" ∧ r.z = 118 := by decide +kernel

end ChythonModel.Props.C18
