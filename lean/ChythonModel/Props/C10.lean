import ChythonModel.Model.Pack
/-!
# C10 — binary pack format: property theorems (work in progress, see design/C10.md)
-/
namespace ChythonModel.Props.C10
open ChythonModel.Gen ChythonModel.Model.Pack

/-- G: the two `common_isotopes` tables agree, equal `mdl_isotope − 16` for every element, `elements[Z]` is the
    class with atomic number Z, and every tabulated isotope fits the 5-bit field (offset 1…31). -/
theorem tables_agree :
    packCommon = unpackCommon ∧ packCommon.length = 119 ∧ unpackElems.length = 119 ∧
    packElemRows.length = 118 ∧
    (∀ r ∈ packElemRows, 1 ≤ r.1 ∧ r.1 ≤ 118 ∧ commonAt packCommon r.1 = some ((r.2.2.1 : Int) - 16) ∧
        unpackElems[r.1]? = some r.2.1) := by decide +kernel

end ChythonModel.Props.C10
