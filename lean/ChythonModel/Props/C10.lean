import ChythonModel.Proofs.C10WF
import ChythonModel.Proofs.C10Layout3
import ChythonModel.Proofs.C10V0
import ChythonModel.Proofs.C10Stable
import ChythonModel.Proofs.C10Attach
import ChythonModel.Proofs.C10Half
import ChythonModel.Proofs.C10HalfTrunc
import ChythonModel.Proofs.C10PerceiveMain
import ChythonModel.Proofs.C10Terminals
import ChythonModel.Proofs.C10Ideal
import ChythonModel.Proofs.C10PerceiveWF
import ChythonModel.Proofs.C10Cover
/-!
# C10 — binary pack format: lossless round trip, stable published layout

All statements are about the functions of `Model/Pack.lean` / `Model/Half.lean` that `Drivers/C10.lean` runs
(`encode`, `decode`, `packLen`, `rxnEncode`, `rxnDecode`, `rxnPackLen`, `toF16`, `ofF16`, `pairEnc/pairDec`,
`orderEnc/orderDec`). `WF m` is exactly the format limits: atom numbers distinct and ≤ 4095, ≤ 15 neighbours,
Z 1…118, isotope offset 1…31, charge −4…4, H 0…6 or unknown, bond orders 1…8, symmetric adjacency without loops,
≤ 4095 cis/trans records whose terminal atoms are known and ≤ 4095. (That every bond is listed from both ends —
the handshake — is derived from the symmetry: `Proofs.C10.handshake`.)
`wfb` is its executable form; the driver evaluates it on every generated molecule.
-/
namespace ChythonModel.Props.C10
open ChythonModel.Gen ChythonModel.Model.Pack ChythonModel.Proofs.C10 ChythonModel.Spec.PackLayout
open ChythonModel.Spec.Cumulene

/-! ## G — regenerated tables -/

/-- the two `common_isotopes` tables agree, equal `mdl_isotope − 16` for every element, `elements[Z]` is the class
    with atomic number Z. -/
theorem tables_agree :
    packCommon = unpackCommon ∧ packCommon.length = 119 ∧ unpackElems.length = 119 ∧
    packElemRows.length = 118 ∧
    (∀ r ∈ packElemRows, 1 ≤ r.1 ∧ r.1 ≤ 118 ∧ commonAt packCommon r.1 = some ((r.2.2.1 : Int) - 16) ∧
        unpackElems[r.1]? = some r.2.1) := by decide +kernel

/-- every tabulated isotope of every element fits the 5-bit field (offset 1…31; 0 means unspecified) -/
theorem isotopes_representable :
    ∀ r ∈ packElemRows, ∀ i ∈ r.2.2.2, ∃ c, commonAt packCommon r.1 = some c ∧ 1 ≤ (i : Int) - c ∧ (i : Int) - c ≤ 31 := by
  decide +kernel

/-! ## fields -/

/-- the 9-byte atom record decodes to the same atom (number, element, isotope, stereo, coordinates bits, hydrogens,
    charge, radical) and neighbour count -/
theorem atom_record_roundtrip (a : PAtom) (h : AtomOK a) :
    ∃ bs, atomRecord a = some bs ∧ bs.length = 9 ∧ decodeAtom bs = .ok ({ a with nbrs := [] }, a.nbrs.length) :=
  Proofs.C10.atom_record_roundtrip a h

/-- tetrahedral / allene stereo nibble: `None/True/False` survive for every neighbour count -/
theorem stereo_nibble_roundtrip :
    ∀ st ∈ [none, some true, some false], ∀ deg < 16,
      stereoOfNibble (stereoNibble st deg >>> 4) = st ∧ stereoNibble st deg ∈ [0, 0x20, 0x30, 0x80, 0xc0] :=
  Proofs.C10.stereo_nibble_roundtrip

/-- hydrogens (incl. unknown) / charge / radical byte -/
theorem hcr_roundtrip :
    ∀ h ∈ [none, some 0, some 1, some 2, some 3, some 4, some 5, some 6],
    ∀ c ∈ [(-4 : Int), -3, -2, -1, 0, 1, 2, 3, 4], ∀ r ∈ [false, true],
      let b := hcrByte h c r
      b < 256 ∧ (if b >>> 5 == 7 then none else some (b >>> 5)) = h ∧
      ((((b >>> 1) &&& 0x0f : Nat) : Int) - 4) = c ∧ ((b &&& 1) != 0) = r :=
  Proofs.C10.hcr_roundtrip

/-! ## streams, for every length -/

/-- 12-bit connection table: any even-length list of atom numbers ≤ 4095 survives the `b` toggle packing -/
theorem pair_stream_roundtrip (l : List Nat) (buf : Nat) (hb : ∀ m ∈ l, m < 4096) (he : l.length % 2 = 0) :
    pairDec (pairEnc true buf l) = l ∧ (pairEnc true buf l).length = 3 * (l.length / 2) :=
  ⟨pairDec_pairEnc l buf hb he, pairEnc_length l buf he⟩

/-- 3-bit bond-order stream: for EVERY bond count the decoder's first `n` codes are the encoder's input, and the
    block is `⌈3n/8⌉` bytes -/
theorem order_stream_roundtrip (codes : List Nat) (b b' : Nat) (h : ∀ c ∈ codes, c < 8) :
    (orderDec 0 b (orderEnc 0 b' codes)).take codes.length = codes ∧
    (orderEnc 0 b' codes).length = (3 * codes.length + 7) / 8 :=
  ⟨Proofs.C10.order_stream_roundtrip codes b b' h, orderEnc_length codes b'⟩

/-- version-0 packs (earlier format): the decoder's order block reader returns exactly the codes that the old grouping
    (`0 3 3 1 | 2 3 3`, five codes in two bytes) stores, for every bond count -/
theorem v0_order_stream_roundtrip (codes : List Nat) (h : ∀ c ∈ codes, c < 8) :
    ∃ pad, orderDecV0 (v0OrderBytes codes) = codes ++ pad :=
  v0_orders codes h

/-! ## molecules -/

/-- **round trip**: a molecule within the format limits packs, and unpacking the bytes (also when other data
    follows, as inside a reaction pack) gives back the atoms in order with every field and every neighbour
    dictionary in order with the bond orders; bond stereo comes back as the cis/trans list; the reported size is the
    pack length. -/
theorem decode_encode (m : PMol) (h : WF m) (rest : List Nat) :
    ∃ bytes, encode m = .ok bytes ∧ bytes.length = packSize m.atoms ∧
      decode (bytes ++ rest) =
        .ok ⟨m.atoms.map eraseSt, ctListOf m.terminals (firstSeen [] m.atoms), bytes.length⟩ :=
  decode_encode_aux m h rest

/-- **bit-for-bit conformance** with the published version-2 layout (`Spec/PackLayout.lean`, written from the
    format docstring as a sequence of big-endian bit fields): for every molecule within the format limits the
    packer's bytes are exactly the documented bytes. -/
theorem encode_is_layout (m : PMol) (h : WF m) : ∃ bytes, encode m = .ok bytes ∧ layoutBytes m = some bytes :=
  encode_is_layout_aux m h

/-- **stable published layout**: any byte string that is the documented version-2 layout of a molecule within the limits
    (for instance a pack published earlier) decodes to exactly that molecule, whatever follows it. -/
theorem decode_layout (m : PMol) (h : WF m) (rest : List Nat) :
    ∃ bytes, layoutBytes m = some bytes ∧
      decode (bytes ++ rest) = .ok ⟨m.atoms.map eraseSt, ctListOf m.terminals (firstSeen [] m.atoms), bytes.length⟩ :=
  decode_layout_aux m h rest

/-- the same for the earlier format version 0 (version byte 0, two bytes per five bond orders): it keeps decoding to the
    same structure. -/
theorem decode_layout_v0 (m : PMol) (h : WF m) (rest : List Nat) :
    ∃ bytes, layoutBytesV0 m = some bytes ∧
      decode (bytes ++ rest) = .ok ⟨m.atoms.map eraseSt, ctListOf m.terminals (firstSeen [] m.atoms), bytes.length⟩ :=
  decode_layout_v0_aux m h rest

/-- the 3-bit order stream alone is the documented bit string for every bond count (zero-padded to a full byte) -/
theorem order_stream_is_layout (codes : List Nat) (b : Nat) (h : ∀ c ∈ codes, c < 8) :
    orderEnc 0 b codes = fieldsBytes (codes.map fun c => (3, c)) :=
  orders_layout codes b h

/-- **cis/trans labels survive** (`MoleculeContainer.unpack`'s re-attachment loop): given a `_stereo_cis_trans_centers`
    dictionary that leads the first terminal of every marked bond back to that bond (`CentersOK`; stereo perception itself is
    outside the model), pack → unpack → re-attach returns the original atoms with every bond mark on both directions. -/
theorem unpack_pack_with_stereo (m : PMol) (h : WF m) (centers : List (Nat × Nat × Nat)) (hc : CentersOK m centers)
    (rest : List Nat) :
    ∃ bytes, encode m = .ok bytes ∧
      (decode (bytes ++ rest)).map (fun d => attach centers d.atoms d.cisTrans) = .ok m.atoms := by
  obtain ⟨bytes, e1, _, e3⟩ := decode_encode_aux m h rest
  refine ⟨bytes, e1, ?_⟩
  rw [e3]
  show Except.ok (attach centers (m.atoms.map eraseSt) (ctListOf m.terminals (firstSeen [] m.atoms))) = _
  rw [attach_roundtrip_aux m h centers hc]

/-- with symmetric adjacency every bond is listed from both ends: the neighbour counts add up to twice the number of
    bonds whose order is written (this is what makes `bonds_count = Σ neighbours / 2` right in both `.pyx` files) -/
theorem handshake (atoms : List PAtom) (g : GraphOK atoms) :
    2 * (firstSeen [] atoms).length = (atoms.map (·.nbrs.length)).sum :=
  Proofs.C10.handshake g

/-- the executable limit test implies the hypothesis -/
theorem wf_of_wfb (m : PMol) (h : wfb m = true) : WF m := wfb_sound m h

/-- the format check rejects what the format cannot hold (error branches of `pack(check=True)`) -/
theorem encode_rejects (m : PMol) :
    (m.atoms = [] → encode m = .error .empty) ∧
    (m.atoms ≠ [] → (∃ a ∈ m.atoms, a.num > 4095) → encode m = .error .big) ∧
    (m.atoms ≠ [] → (∀ a ∈ m.atoms, a.num ≤ 4095) → (∃ a ∈ m.atoms, a.nbrs.length > 15) →
      encode m = .error .neighbors) := by
  refine ⟨fun h => by simp [encode, checkLimits, h]; rfl, fun hne hb => ?_, fun hne hs hd => ?_⟩
  · have h1 : m.atoms.isEmpty = false := by cases hm : m.atoms <;> simp_all
    have h2 : m.atoms.any (fun a => decide (a.num > 4095)) = true := by
      rw [List.any_eq_true]; obtain ⟨a, ha, hgt⟩ := hb; exact ⟨a, ha, by simpa using hgt⟩
    simp [encode, checkLimits, h1, h2]; rfl
  · have h1 : m.atoms.isEmpty = false := by cases hm : m.atoms <;> simp_all
    have h2 : m.atoms.any (fun a => decide (a.num > 4095)) = false := by
      rw [List.any_eq_false]; intro a ha; have := hs a ha; simp; omega
    have h3 : m.atoms.any (fun a => decide (a.nbrs.length > 15)) = true := by
      rw [List.any_eq_true]; obtain ⟨a, ha, hgt⟩ := hd; exact ⟨a, ha, by simpa using hgt⟩
    simp [encode, checkLimits, h1, h2, h3]; rfl

/-- `pack_len` reports the number of atoms -/
theorem packLen_correct (m : PMol) (h : WF m) (rest : List Nat) :
    ∃ bytes, encode m = .ok bytes ∧ packLen (bytes ++ rest) = .ok m.atoms.length := by
  obtain ⟨ab, tl, F, hsh, _⟩ := encode_shape m h
  refine ⟨_, hsh, ?_⟩
  have hn := h.count
  have hc := h.ctLimit
  obtain ⟨a1, a2, _⟩ := pair12_arith m.atoms.length (ctCount m.atoms) (by omega) (by omega)
  have hv : ((2 : Nat) == 0) = true ∨ ((2 : Nat) == 2) = true := Or.inr rfl
  simp only [List.cons_append, List.nil_append, packLen, if_pos hv]
  have := pySlice_nat (2 :: u8 (m.atoms.length >>> 4) :: u8 (m.atoms.length <<< 4 ||| ctCount m.atoms >>> 8) ::
    u8 (ctCount m.atoms) :: (ab ++ tl ++ rest)) 1 3
  have this' : pySlice (2 :: u8 (m.atoms.length >>> 4) :: u8 (m.atoms.length <<< 4 ||| ctCount m.atoms >>> 8) ::
      u8 (ctCount m.atoms) :: (ab ++ tl ++ rest)) (some 1) (some 3) = _ := this
  rw [this']
  simp only [List.take, List.drop, fromBytesBE, List.foldl, a1, a2]
  rw [Nat.shiftRight_eq_div_pow]
  congr 1; omega

/-! ## half floats -/

/-- every finite half-precision pattern except −0.0 is a fixed point of decode → encode (63 487 patterns) -/
theorem f16_bits_roundtrip :
    (∀ e < 31, ∀ fh < 32, ∀ fl < 32,
      toF16 (ofF16 (e * 1024 + fh * 32 + fl)) = e * 1024 + fh * 32 + fl) ∧
    (∀ e < 31, ∀ fh < 32, ∀ fl < 32, e * 1024 + fh * 32 + fl ≠ 0 →
      toF16 (ofF16 (32768 + e * 1024 + fh * 32 + fl)) = 32768 + e * 1024 + fh * 32 + fl) :=
  ⟨f16_pos, f16_neg⟩

/-- **coordinates to half precision**: for EVERY finite double `±m·2^e` whose binary exponent `E` (`2^E ≤ |x| < 2^(E+1)`)
    lies in the half range −25…15, packing and unpacking returns the sign of `x` and `⌊|x|/2^g⌋·2^g` with the binary16 grid
    spacing `2^g` (`g = E − 10`, or `−24` for subnormals): truncation toward zero, error below one unit in the last place.
    `scale2_floor` states that `scale2 m k` is `⌊m·2^k⌋`. -/
theorem f16_truncation (x : Dy) (hm : x.m ≠ 0) (hlo : -25 ≤ halfExp x) (hhi : halfExp x < 16) :
    ofF16 (toF16 x) =
      ⟨x.neg, scale2 x.m (x.e - (max (halfExp x) (-14) - 10)), max (halfExp x) (-14) - 10⟩ :=
  f16_truncation_aux x hm hlo hhi

theorem scale2_floor (m : Nat) (k : Int) :
    (0 ≤ k → scale2 m k = m * 2 ^ k.toNat) ∧
    (k < 0 → scale2 m k * 2 ^ (-k).toNat ≤ m ∧ m < (scale2 m k + 1) * 2 ^ (-k).toNat) :=
  scale2_spec m k

/-- non-vacuity: 1/3 (`6004799503160661·2^−54`, E = −2) is stored as 0x3555 = 1365·2^−12 -/
example : halfExp ⟨false, 6004799503160661, -54⟩ = -2 ∧ toF16 ⟨false, 6004799503160661, -54⟩ = 0x3555 ∧
    ofF16 0x3555 = ⟨false, 1365, -12⟩ := by decide +kernel

/-- ±0 and everything outside the half range (|x| ≥ 65536, |x| < 2⁻²⁵) is stored as 0 -/
theorem f16_out_of_range (neg : Bool) (m : Nat) (e : Int)
    (h : m = 0 ∨ ((Nat.log2 m + 1 : Nat) : Int) + e - 1 ≥ 16 ∨ ((Nat.log2 m + 1 : Nat) : Int) + e - 1 < -25) :
    toF16 ⟨neg, m, e⟩ = 0 := by
  unfold toF16
  by_cases hm : m = 0
  · simp [hm]
  · rcases h with h | h | h
    · exact absurd h hm
    · simp only [hm, ↓reduceIte]; rw [if_pos (Or.inl h)]
    · simp only [hm, ↓reduceIte]; rw [if_pos (Or.inr h)]

/-! ## reactions -/

/-- **reaction round trip** for all role sizes 0…255 (an empty side included): every molecule comes back, decoded,
    in its own role. -/
theorem rxn_roundtrip (r : PRxn) (h : RxnWF r) :
    ∃ bytes, rxnEncode r = .ok bytes ∧
      rxnDecode bytes = .ok ⟨r.reactants.map decodedOf, r.reagents.map decodedOf, r.products.map decodedOf⟩ :=
  rxn_roundtrip_aux r h

/-- **reaction `pack_len`**: the walk over the concatenated packs (4 header bytes, 9 bytes per atom,
    3 bytes per bond, `⌈3·bonds/8⌉` order bytes, 4 bytes per cis/trans record) reports the true atom counts per role. -/
theorem rxn_packLen_correct (r : PRxn) (h : RxnWF r) :
    ∃ bytes, rxnEncode r = .ok bytes ∧
      rxnPackLen bytes = .ok ⟨r.reactants.map (·.atoms.length), r.reagents.map (·.atoms.length),
        r.products.map (·.atoms.length)⟩ :=
  rxn_packLen_aux r h

/-- **the public dispatcher `chython.unpack` / `chython.unpach`**: a molecule pack of either format version (documented
    bytes) is returned as that molecule, a reaction pack as that reaction — header bytes 0 and 2 go to the molecule reader,
    1 falls through to the reaction reader. -/
theorem unpach_dispatch :
    (∀ (m : PMol) (_ : WF m) (rest : List Nat), ∃ b2 b0, layoutBytes m = some b2 ∧ layoutBytesV0 m = some b0 ∧
        unpach (b2 ++ rest) = .ok (.mol ⟨m.atoms.map eraseSt, ctListOf m.terminals (firstSeen [] m.atoms), b2.length⟩) ∧
        unpach (b0 ++ rest) = .ok (.mol ⟨m.atoms.map eraseSt, ctListOf m.terminals (firstSeen [] m.atoms), b0.length⟩)) ∧
    (∀ (r : PRxn) (_ : RxnWF r), ∃ bytes, rxnEncode r = .ok bytes ∧
        unpach bytes = .ok (.rxn ⟨r.reactants.map decodedOf, r.reagents.map decodedOf, r.products.map decodedOf⟩)) := by
  constructor
  · intro m h rest
    obtain ⟨b2, l2, d2⟩ := decode_layout_aux m h rest
    obtain ⟨b0, l0, d0⟩ := decode_layout_v0_aux m h rest
    exact ⟨b2, b0, l2, l0, by simp only [unpach, d2], by simp only [unpach, d0]⟩
  · intro r h
    obtain ⟨bytes, e1, e2⟩ := rxn_roundtrip_aux r h
    refine ⟨bytes, e1, ?_⟩
    have hc : ¬ (r.reactants.length > 255 ∨ r.reagents.length > 255 ∨ r.products.length > 255) := by
      have := h.reactants; have := h.reagents; have := h.products; omega
    simp only [rxnEncode, if_neg hc] at e1
    cases hb : encodeAll r.molecules with
    | error e => simp [hb, bind, Except.bind] at e1
    | ok body =>
      simp only [hb, bind, Except.bind, pure, Except.pure] at e1
      have hbytes : bytes = 1 :: r.reactants.length :: r.reagents.length :: r.products.length :: body := by
        injection e1 with e1; exact e1.symm
      have hdec : decode bytes = .error .header := by rw [hbytes]; rfl
      simp only [unpach, hdec, e2]; rfl

/-- the regenerated code tables against the FROZEN published table (`Spec.PackLayout.publishedCommonIsotopes`):
    an edit of the tables — also a consistent edit of both `.pyx` files, or of `mdl_isotope` — is a change of the format -/
theorem tables_match_published :
    publishedCommonIsotopes.length = 119 ∧
    (∀ z < 119, 1 ≤ z → (publishedCommonIsotopes[z]?).map (fun (v : Nat) => (v : Int) - 16) = commonAt packCommon z ∧
        (publishedCommonIsotopes[z]?).map (fun (v : Nat) => (v : Int) - 16) = commonAt unpackCommon z) ∧
    (∀ r ∈ packElemRows, publishedCommonIsotopes[r.1]? = some r.2.2.1) := by decide +kernel

/-- more than 255 molecules in a role cannot be framed (error branch of `bytearray((1, r, g, p))`) -/
theorem rxn_rejects (r : PRxn) (h : r.reactants.length > 255 ∨ r.reagents.length > 255 ∨ r.products.length > 255) :
    rxnEncode r = .error .count := by
  simp [rxnEncode, h]

/-- **version-0 reader, exact reads**: the loop `for j in range(order_shift, cis_trans_shift, 2): a, b = data[j], data[j + 1]`
    (`readPairsV0`: two reads per iteration, `⌈order_count/2⌉` iterations) reads exactly the contiguous block
    `order_shift … cis_trans_shift − 1`, with the same outcome (bytes or over-read), for the block size the decoder computes
    (`orderCountOf`, even for version 0); `n` iterations in general read `2n` consecutive bytes. -/
theorem v0_reads_exact (data : List Nat) :
    (∀ v bc os, readOrderBytes data v os (orderCountOf v bc) = readRange data os (orderCountOf v bc)) ∧
    (∀ n lo, readPairsV0 data lo n = readRange data lo (2 * n)) :=
  ⟨readOrderBytes_eq data, readPairsV0_eq data⟩

/-! ## the stereo perception inside the model (`Model/PackStereo.lean`: `cumulenes`, `stereogenic_cumulenes`,
`_stereo_cis_trans_terminals`, `_stereo_cis_trans_centers`), round 5 -/

/-- the perception never reads an atom or bond stereo mark: the unpacker, which perceives the centres on the decoded molecule
    whose bond marks are still erased, sees exactly the chains the packer saw -/
theorem perception_ignores_marks (atoms : List PAtom) : perceive (atoms.map eraseSt) = perceive atoms :=
  perceive_erase atoms

/-- Python `d[k] = v; d[k']` on the insertion-ordered association list the dictionaries are modelled with -/
theorem dict_assignment {β} (d : List (Nat × β)) (k k' : Nat) (v : β) :
    (dictSet d k v).lookup k' = if k' = k then some v else d.lookup k' :=
  lookup_dictSet d k k' v

/-- **`CentersOK` holds for the model's own perception**: for every molecule, if every marked bond is the central bond of a
    perceived stereogenic unit (`MarksOK`) and no atom is a dictionary key of two units (`KeysDisjoint`), then the perceived
    `_stereo_cis_trans_terminals` / `_stereo_cis_trans_centers` lead the first terminal of every marked bond back to that bond. -/
theorem perceived_centers_ok (atoms : List PAtom) (p : Perceived) (hp : perceive atoms = .ok p)
    (hm : MarksOK atoms (p.stereogenic.map (·.1))) (hd : KeysDisjoint (p.stereogenic.map (·.1))) :
    CentersOK ⟨atoms, p.terminals⟩ p.centers :=
  perceived_centersOK' hp hm hd

/-- full statement of the label round trip with nothing taken from chython: every molecule within the limits whose marks sit
    on perceived stereogenic double bonds comes back from `unpack(pack(m))` with every mark. FALSE for the code as it is
    (`Findings.C10.stereo_roundtrip_full_false`: two stereogenic double bonds sharing an atom, known finding
    `C10/roundtrip/bond-stereo/shared-atom`). -/
def StereoRoundTripFull : Prop :=
  ∀ (atoms : List PAtom) (p : Perceived), perceive atoms = .ok p → WF ⟨atoms, p.terminals⟩ →
    MarksOK atoms (p.stereogenic.map (·.1)) → ∀ rest : List Nat,
      ∃ bytes, packFull atoms = .ok bytes ∧ (unpackFull (bytes ++ rest)).map (·.atoms) = .ok atoms

/-- **cis/trans labels survive, perception included** (`packFull` / `unpackFull` are the complete
    `MoleculeContainer.pack` / `unpack`; the terminals written and the centres used for re-attachment are the model's own
    perception — the `CentersOK` hypothesis of `unpack_pack_with_stereo` is discharged). Excluded relative to
    `StereoRoundTripFull`: exactly the molecules in which an atom is a dictionary key of two perceived cis/trans units
    (`¬ KeysDisjoint`; needs an atom with more than two neighbours and two double bonds). -/
theorem stereo_roundtrip_partial (atoms : List PAtom) (p : Perceived) (hp : perceive atoms = .ok p)
    (h : WF ⟨atoms, p.terminals⟩) (hm : MarksOK atoms (p.stereogenic.map (·.1)))
    (hd : KeysDisjoint (p.stereogenic.map (·.1))) (rest : List Nat) :
    ∃ bytes, packFull atoms = .ok bytes ∧
      unpackFull (bytes ++ rest) = .ok ⟨atoms, ctListOf p.terminals (firstSeen [] atoms), bytes.length⟩ :=
  pack_unpack_full_aux atoms p hp h hm hd rest

/-- the executable forms evaluated by the driver on every real molecule that carries marks imply the hypotheses -/
theorem perceived_hypotheses_executable (atoms : List PAtom) (sp : List (List Nat)) :
    (marksOKb atoms sp = true → MarksOK atoms sp) ∧ (keysDisjointb sp = true → KeysDisjoint sp) :=
  ⟨marksOKb_sound atoms sp, keysDisjointb_sound sp⟩

/-- a molecule without any cis/trans mark needs neither hypothesis -/
theorem unmarked_roundtrip (atoms : List PAtom) (p : Perceived) (hp : perceive atoms = .ok p)
    (h : WF ⟨atoms, p.terminals⟩) (hu : ∀ q ∈ firstSeen [] atoms, q.2.stereo = none) (rest : List Nat) :
    ∃ bytes, packFull atoms = .ok bytes ∧ (unpackFull (bytes ++ rest)).map (·.atoms) = .ok atoms := by
  have hc : CentersOK ⟨atoms, p.terminals⟩ p.centers := by
    intro q hq s hs; rw [hu q hq] at hs; exact absurd hs (by simp)
  obtain ⟨bytes, e1, _, e3⟩ := decode_encode_aux ⟨atoms, p.terminals⟩ h rest
  have hatt := attach_roundtrip_aux ⟨atoms, p.terminals⟩ h p.centers hc
  have hnil : ∀ (fs : List (Nat × PNbr)), (∀ q ∈ fs, q.2.stereo = none) → ctListOf p.terminals fs = [] := by
    intro fs
    induction fs with
    | nil => intro _; rfl
    | cons q r ih =>
      intro hq
      obtain ⟨n, nb⟩ := q
      have h1 : nb.stereo = none := hq (n, nb) (by simp)
      simp only [ctListOf, h1]
      exact ih (fun x hx => hq x (by simp [hx]))
  have hct := hnil _ hu
  refine ⟨bytes, ?_, ?_⟩
  · unfold packFull
    unfold encode at e1
    cases hcl : checkLimits atoms with
    | error e => simp [hcl, bind, Except.bind] at e1
    | ok u =>
      simp only [hcl, bind, Except.bind] at e1
      simp only [hp, e1]
  · unfold unpackFull
    simp only at e3 hatt
    rw [e3, hct]
    rw [hct] at hatt
    simp only [attach] at hatt
    simp only [Except.map, hatt]

/-! ### what is perceived, against the chemistry definition (`Spec/Cumulene.lean`) -/

/-- the literals the perception code uses (regenerated from `stereo.py` / the element classes on every run) are the ones of
    the chemistry definition: a double bond has order 2, an `sp` atom two neighbours, hydrogen is Z = 1; every element that
    forms double bonds forms single bonds; carbon does, hydrogen and "no atom" do not -/
theorem stereo_constants_match_spec :
    dblOrder = doubleOrder ∧ cumMaxNbrs = spNeighbours ∧ stereoH = hydrogenZ ∧ skipOrder = 3 ∧ anyOrder = 8 ∧
    (∀ z ∈ formsDouble, z ∈ formsSingle) ∧ formsDouble.contains 6 = true ∧ formsDouble.contains 1 = false ∧
    formsDouble.contains 0 = false ∧ (∀ z ∈ formsSingle, 1 ≤ z ∧ z ≤ 118) := by decide

/-- **`cumulenes` reports chains of cumulated double bonds**: on every well-formed graph each reported path is a maximal
    chain in the sense of the chemistry definition (linked by double bonds between double-bond-forming atoms, inner atoms with
    exactly two neighbours, not extendable at either end), or a single double bond of a piece that ran into an atom with more
    than two neighbours (`BrokenPiece`: the code reports those double bonds one by one). -/
theorem cumulenes_are_chains (atoms : List PAtom) (g : GraphOK atoms) (paths : List (List Nat))
    (h : cumulenes atoms = .ok paths) : ∀ p ∈ paths, MaximalChain can atoms p ∨ BrokenPiece atoms p :=
  cumulenes_sound g h

/-- full statement: every entry of `_stereo_cis_trans_terminals` gives the two ends of a MAXIMAL chain with an odd number of
    double bonds. Not provable for the code as it is: next to an atom with more than two neighbours and two double bonds the
    code treats each double bond of the walked piece as a unit of its own (`BrokenPiece`, e.g. `CC=S(=O)(C)C`, `CC=C=S(C)(C)=O`). -/
def TerminalsAreMaximalChainEnds : Prop :=
  ∀ (atoms : List PAtom), GraphOK atoms → ∀ p, perceive atoms = .ok p → ∀ k tn tm, p.terminals.lookup k = some (tn, tm) →
    ∃ path ∈ p.cumulenes, MaximalChain can atoms path ∧ IsCisTransUnit path ∧ path.head? = some tn ∧
      path.getLast? = some tm ∧ k ∈ keys4 path

/-- **`_stereo_cis_trans_terminals[k] = (tn, tm)`**: `tn`, `tm` are the first and last atom of a reported chain with an ODD
    number of double bonds, `k` is one of its two ends or two central atoms, and the chain is maximal — or (the class excluded
    from `TerminalsAreMaximalChainEnds`) a double bond next to an atom with more than two neighbours. -/
theorem terminals_are_chain_ends_partial (atoms : List PAtom) (g : GraphOK atoms) (p : Perceived)
    (hp : perceive atoms = .ok p) (k tn tm : Nat) (hl : p.terminals.lookup k = some (tn, tm)) :
    ∃ path ∈ p.cumulenes, IsCisTransUnit path ∧ path.head? = some tn ∧ path.getLast? = some tm ∧ k ∈ keys4 path ∧
      (MaximalChain can atoms path ∨ BrokenPiece atoms path) :=
  terminals_entry g hp hl

/-- **`_stereo_cis_trans_centers[k] = (c1, c2)`**: `k` is an end of a reported chain with an odd number of double bonds and
    `c1 = c2` is its central double bond -/
theorem centers_are_central_bonds (atoms : List PAtom) (g : GraphOK atoms) (p : Perceived)
    (hp : perceive atoms = .ok p) (k c1 c2 : Nat) (hl : p.centers.lookup k = some (c1, c2)) :
    ∃ path ∈ p.cumulenes, IsCisTransUnit path ∧ (path.head? = some k ∨ path.getLast? = some k) ∧
      path[path.length / 2 - 1]? = some c1 ∧ path[path.length / 2]? = some c2 ∧ DoubleBond can atoms c1 c2 :=
  centers_entry g hp hl

/-- **`_stereo_allenes_terminals[c] = (tn, tm)`**: the two ends of a MAXIMAL chain with an EVEN number of double bonds whose
    central atom is `c` (no exception: a broken piece has one double bond) -/
theorem allene_terminals_are_chain_ends (atoms : List PAtom) (g : GraphOK atoms) (p : Perceived)
    (hp : perceive atoms = .ok p) (c tn tm : Nat) (hl : p.allenes.lookup c = some (tn, tm)) :
    ∃ path ∈ p.cumulenes, MaximalChain can atoms path ∧ IsAxialUnit path ∧ path.head? = some tn ∧
      path.getLast? = some tm ∧ path[path.length / 2]? = some c :=
  allenes_entry g hp hl

/-- **the perception never fails on a well-formed graph**: no `KeyError` from an emptied set (the walk never meets an already
    consumed terminal: the ideal walk from the far end of a chain is the same chain reversed), no `pop` from a set with several
    elements (an atom with at most two neighbours has at most one way on), and the walk stops within `len(atoms) + 1` steps
    (it visits no atom twice). All perception theorems therefore speak about every well-formed molecule. -/
theorem perception_total (atoms : List PAtom) (g : GraphOK atoms) : ∃ p, perceive atoms = .ok p :=
  perceive_ok g

/-- `stereo_roundtrip_partial` with the perception hypothesis discharged: ∀ molecule within the format limits … -/
theorem stereo_roundtrip_total_partial (atoms : List PAtom) (g : GraphOK atoms) :
    ∃ p, perceive atoms = .ok p ∧
      (WF ⟨atoms, p.terminals⟩ → MarksOK atoms (p.stereogenic.map (·.1)) → KeysDisjoint (p.stereogenic.map (·.1)) →
        ∀ rest : List Nat, ∃ bytes, packFull atoms = .ok bytes ∧
          unpackFull (bytes ++ rest) = .ok ⟨atoms, ctListOf p.terminals (firstSeen [] atoms), bytes.length⟩) := by
  obtain ⟨p, hp⟩ := perceive_ok g
  exact ⟨p, hp, fun h hm hd rest => pack_unpack_full_aux atoms p hp h hm hd rest⟩

/-- but-2-ene with a mark, and hexa-2,3,4-triene (three cumulated double bonds) with a mark on the central bond -/
def exAlkene : List PAtom :=
  [{ num := 1, z := 6, iso := none, stereo := none, x := 0, y := 0, h := some 3, charge := 0, radical := false, nbrs := [⟨2, 1, none⟩] },
   { num := 2, z := 6, iso := none, stereo := none, x := 0, y := 0, h := some 1, charge := 0, radical := false,
     nbrs := [⟨1, 1, none⟩, ⟨3, 2, some true⟩] },
   { num := 3, z := 6, iso := none, stereo := none, x := 0, y := 0, h := some 1, charge := 0, radical := false,
     nbrs := [⟨2, 2, some true⟩, ⟨4, 1, none⟩] },
   { num := 4, z := 6, iso := none, stereo := none, x := 0, y := 0, h := some 3, charge := 0, radical := false, nbrs := [⟨3, 1, none⟩] }]

def exTriene : List PAtom :=
  [{ num := 10, z := 6, iso := none, stereo := none, x := 0, y := 0, h := some 3, charge := 0, radical := false, nbrs := [⟨20, 1, none⟩] },
   { num := 20, z := 6, iso := none, stereo := none, x := 0, y := 0, h := some 1, charge := 0, radical := false,
     nbrs := [⟨10, 1, none⟩, ⟨30, 2, none⟩] },
   { num := 30, z := 6, iso := none, stereo := none, x := 0, y := 0, h := some 0, charge := 0, radical := false,
     nbrs := [⟨20, 2, none⟩, ⟨40, 2, some false⟩] },
   { num := 40, z := 6, iso := none, stereo := none, x := 0, y := 0, h := some 0, charge := 0, radical := false,
     nbrs := [⟨30, 2, some false⟩, ⟨50, 2, none⟩] },
   { num := 50, z := 7, iso := none, stereo := none, x := 0, y := 0, h := some 0, charge := 1, radical := false,
     nbrs := [⟨40, 2, none⟩, ⟨60, 1, none⟩, ⟨70, 1, none⟩] },
   { num := 60, z := 6, iso := none, stereo := none, x := 0, y := 0, h := some 3, charge := 0, radical := false, nbrs := [⟨50, 1, none⟩] },
   { num := 70, z := 9, iso := none, stereo := none, x := 0, y := 0, h := some 0, charge := 0, radical := false, nbrs := [⟨50, 1, none⟩] }]

/-- **`TerminalsAreMaximalChainEnds` for every molecule without a hypervalent centre inside a chain** (`NoHyperDouble`: no atom
    with more than two neighbours carries two double bonds — every hydrocarbon, every ordinary organic molecule; sulfones with two
    S=O are outside): every reported path is a maximal chain, and `_stereo_cis_trans_terminals[k] = (tn, tm)` gives the two ends of a
    maximal chain of cumulated double bonds with an odd number of double bonds. The excluded class is exactly where the walk of
    `cumulenes` stops at an atom that has more than two neighbours and at least two double bonds. -/
theorem terminals_are_maximal_chain_ends_partial (atoms : List PAtom) (g : GraphOK atoms) (hn : NoHyperDouble atoms) :
    (∀ paths, cumulenes atoms = .ok paths → ∀ q ∈ paths, MaximalChain can atoms q) ∧
    (∀ p, perceive atoms = .ok p → ∀ k tn tm, p.terminals.lookup k = some (tn, tm) →
      ∃ path ∈ p.cumulenes, MaximalChain can atoms path ∧ IsCisTransUnit path ∧ path.head? = some tn ∧
        path.getLast? = some tm ∧ k ∈ keys4 path) :=
  ⟨fun _ h => cumulenes_maximal g hn h, fun _ hp _ _ _ hl => terminals_entry_maximal g hn hp hl⟩

/-- **`KeysDisjoint` is a theorem for molecules without a hypervalent centre inside a chain**: the chains `cumulenes` reports are
    then the connected components of the double-bond graph that contain a terminal; two of them never share an atom (a later walk
    that touched an earlier complete chain would lie inside it and start at one of its two, already consumed, terminals). -/
theorem keys_disjoint_without_hypervalent (atoms : List PAtom) (g : GraphOK atoms) (hn : NoHyperDouble atoms)
    (p : Perceived) (hp : perceive atoms = .ok p) : KeysDisjoint (p.stereogenic.map (·.1)) :=
  keysDisjoint_of_noHyper g hn hp

/-- **cis/trans labels survive, every hypothesis on the molecule itself**: ∀ molecule within the format limits (`WF` with the
    perceived terminals) without a hypervalent centre inside a chain (`NoHyperDouble`) whose marks sit on perceived stereogenic
    double bonds (`MarksOK`): the perception succeeds, `packFull` succeeds and `unpackFull` returns the molecule with every mark.
    No `CentersOK`, no `KeysDisjoint`, no "if the perception returns". -/
theorem stereo_roundtrip_no_hypervalent (atoms : List PAtom) (g : GraphOK atoms) (hn : NoHyperDouble atoms) :
    ∃ p, perceive atoms = .ok p ∧
      (WF ⟨atoms, p.terminals⟩ → MarksOK atoms (p.stereogenic.map (·.1)) →
        ∀ rest : List Nat, ∃ bytes, packFull atoms = .ok bytes ∧
          unpackFull (bytes ++ rest) = .ok ⟨atoms, ctListOf p.terminals (firstSeen [] atoms), bytes.length⟩) := by
  obtain ⟨p, hp⟩ := perceive_ok g
  exact ⟨p, hp, fun h hm rest => pack_unpack_full_aux atoms p hp h hm (keysDisjoint_of_noHyper g hn hp) rest⟩

/-- the format-limit hypothesis `WF` with the PERCEIVED terminals follows from the limits on atoms and bonds alone (`AtomsWF`: non-empty,
    ≤ 4095 atoms, `AtomOK`, `GraphOK`, ≤ 4095 marked bonds) once the marks sit on perceived units: the terminals the packer looks up exist
    and are atom numbers of the molecule, hence ≤ 4095 -/
theorem wf_from_atoms (atoms : List PAtom) (h : AtomsWF atoms) (p : Perceived) (hp : perceive atoms = .ok p)
    (hm : MarksOK atoms (p.stereogenic.map (·.1))) : WF ⟨atoms, p.terminals⟩ :=
  wf_perceived h hp hm

/-- **cis/trans labels survive — final form**: ∀ molecule within the documented limits on atoms and bonds (`AtomsWF`) without a
    hypervalent centre inside a chain of double bonds (`NoHyperDouble`): the perception succeeds and, if the marks sit on perceived
    stereogenic double bonds, `unpack(pack(m))` (both complete, perception included) is `m` with every mark, whatever follows the pack. -/
theorem stereo_roundtrip_molecule_level (atoms : List PAtom) (h : AtomsWF atoms) (hn : NoHyperDouble atoms) :
    ∃ p, perceive atoms = .ok p ∧
      (MarksOK atoms (p.stereogenic.map (·.1)) →
        ∀ rest : List Nat, ∃ bytes, packFull atoms = .ok bytes ∧
          unpackFull (bytes ++ rest) = .ok ⟨atoms, ctListOf p.terminals (firstSeen [] atoms), bytes.length⟩) := by
  obtain ⟨p, hp⟩ := perceive_ok h.graph
  exact ⟨p, hp, fun hm rest =>
    pack_unpack_full_aux atoms p hp (wf_perceived h hp hm) hm (keysDisjoint_of_noHyper h.graph hn hp) rest⟩

/-- **no chain end is missed**: on a well-formed graph every atom that has exactly one double-bond partner (`adj[t]` a one-element
    set) is the first atom of a reported group or the last atom of a reported complete chain -/
theorem chain_ends_covered (atoms : List PAtom) (g : GraphOK atoms) (ws : List Walk) (h : cumulenesTagged atoms = .ok ws)
    (t y : Nat) (ht : dblAdj atoms t = [y]) : ∃ w ∈ ws, EndOf t w :=
  terminals_covered g h ht

/-- `NoHyperDouble` is satisfiable by a molecule with a three-coordinate end atom (the iminium end of `exTriene`) -/
example : NoHyperDouble exTriene := noHyperDoubleb_sound _ (by decide +kernel)

/-- all hypotheses of `stereo_roundtrip_molecule_level` hold for the marked triene -/
example : AtomsWF exTriene ∧ NoHyperDouble exTriene ∧
    (∀ p, perceive exTriene = .ok p → MarksOK exTriene (p.stereogenic.map (·.1))) := by
  have hw := wf_of_wfb ⟨exTriene, [(20, 20, 50), (50, 20, 50), (40, 20, 50), (30, 20, 50)]⟩ (by decide +kernel)
  refine ⟨⟨hw.nonempty, hw.count, hw.atomsOK, hw.graph, hw.ctLimit⟩, noHyperDoubleb_sound _ (by decide +kernel), ?_⟩
  intro p hp
  have : perceive exTriene = .ok ⟨[[20, 30, 40, 50]], [([20, 30, 40, 50], 10, 60, none, some 70)],
    [(20, 20, 50), (50, 20, 50), (40, 20, 50), (30, 20, 50)], [(20, 30, 40), (50, 30, 40)], []⟩ := by rfl
  rw [this] at hp
  simp only [Except.ok.injEq] at hp
  subst hp
  exact marksOKb_sound _ _ (by decide +kernel)

/-- the hypotheses of `stereo_roundtrip_partial` are satisfiable with marks present -/
example : ∀ atoms ∈ [exAlkene, exTriene], ∃ p, perceive atoms = .ok p ∧ WF ⟨atoms, p.terminals⟩ ∧
    MarksOK atoms (p.stereogenic.map (·.1)) ∧ KeysDisjoint (p.stereogenic.map (·.1)) ∧ p.centers ≠ [] := by
  have key : ∀ atoms ∈ [exAlkene, exTriene], (match perceive atoms with
      | .ok p => wfb ⟨atoms, p.terminals⟩ && marksOKb atoms (p.stereogenic.map (·.1)) &&
          keysDisjointb (p.stereogenic.map (·.1)) && !p.centers.isEmpty
      | .error _ => false) = true := by decide +kernel
  intro atoms ha
  have := key atoms ha
  cases hp : perceive atoms with
  | error e => simp [hp] at this
  | ok p =>
    simp only [hp, Bool.and_eq_true, Bool.not_eq_true', List.isEmpty_eq_false_iff] at this
    exact ⟨p, rfl, wfb_sound _ this.1.1.1, marksOKb_sound _ _ this.1.1.2, keysDisjointb_sound _ this.1.2, this.2⟩

/-- the chain theorems are not vacuous: the triene is a well-formed graph with dictionary entries -/
example : GraphOK exTriene ∧ (∃ p, perceive exTriene = .ok p ∧ p.terminals.lookup 40 = some (20, 50) ∧
    p.centers.lookup 50 = some (30, 40)) :=
  ⟨(wf_of_wfb ⟨exTriene, [(20, 20, 50), (50, 20, 50), (40, 20, 50), (30, 20, 50)]⟩ (by decide +kernel)).graph, _, rfl, rfl, rfl⟩

example : perceive exTriene = .ok ⟨[[20, 30, 40, 50]], [([20, 30, 40, 50], 10, 60, none, some 70)],
    [(20, 20, 50), (50, 20, 50), (40, 20, 50), (30, 20, 50)], [(20, 30, 40), (50, 30, 40)], []⟩ := by rfl

/-! ## non-vacuity: the hypotheses are satisfiable by non-trivial instances -/

/-- `[13C]H3-C(=O)…`-like: 4 atoms, numbers up to 4095, an isotope, a charge, a radical, atom stereo, a cis/trans
    bond with terminals, a ring closure (back-connections) -/
def exMol : PMol :=
  { atoms := [
      { num := 4095, z := 6, iso := some 13, stereo := some true, x := 0x3c00, y := 0xbc00, h := some 3, charge := 0,
        radical := false, nbrs := [⟨7, 2, some true⟩, ⟨300, 1, none⟩] },
      { num := 7, z := 7, iso := none, stereo := none, x := 0, y := 1, h := none, charge := 1, radical := false,
        nbrs := [⟨4095, 2, some true⟩, ⟨300, 8, none⟩] },
      { num := 300, z := 8, iso := none, stereo := some false, x := 0, y := 0, h := some 0, charge := -1, radical := true,
        nbrs := [⟨7, 8, none⟩, ⟨4095, 1, none⟩, ⟨1, 3, none⟩] },
      { num := 1, z := 118, iso := some 294, stereo := none, x := 65535, y := 0, h := some 6, charge := 4, radical := false,
        nbrs := [⟨300, 3, none⟩] }],
    terminals := [(4095, 300, 1), (7, 300, 1)] }

example : WF exMol := wf_of_wfb exMol (by decide +kernel)

def exSmall : PMol :=
  { atoms := [{ num := 1, z := 8, iso := none, stereo := none, x := 0, y := 0, h := some 2, charge := 0, radical := false,
                nbrs := [] }] }

/-- a reaction with an empty products side and an empty reactants side -/
example : RxnWF ⟨[exMol, exSmall], [exSmall], []⟩ ∧ RxnWF ⟨[], [exMol], [exSmall]⟩ := by
  have h1 : WF exMol := wf_of_wfb exMol (by decide +kernel)
  have h2 : WF exSmall := wf_of_wfb exSmall (by decide +kernel)
  constructor <;> refine ⟨?_, by simp [PRxn.molecules], by simp, by simp, by simp⟩ <;>
    · intro m hm; simp [PRxn.molecules] at hm; rcases hm with rfl | rfl | rfl <;> assumption

/-- `CentersOK` is satisfiable with a marked bond present: terminals of bond 4095=7 are (300, 1), and 300 leads back to it -/
example : CentersOK exMol [(300, 7, 4095), (1, 4095, 7)] := centersOKb_sound _ _ (by decide +kernel)

example : AtomOK exMol.atoms.head! := (wf_of_wfb exMol (by decide +kernel)).atomsOK _ (by decide)

end ChythonModel.Props.C10
