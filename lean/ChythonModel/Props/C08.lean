import ChythonModel.Proofs.C08Labels
import ChythonModel.Proofs.C08Pair
import ChythonModel.Model.SmartsFull
import ChythonModel.Proofs.C08Match
import ChythonModel.Proofs.C08IsoExact
import ChythonModel.Model.C08Cx
import ChythonModel.Proofs.C15Radicals
import Mathlib.Data.List.Perm.Basic
import Mathlib.Tactic.SplitIfs
/-!
# C08 — SMARTS primitives and query atoms match exactly what is documented

All theorems are about the definitions the driver `Drivers/C08.lean` runs (`pyEq`, `bondEq`, `labelsLoop`, `hybStep`,
`buildAtom`, `smartsInner`, `smartsModel`, `notMetal` over the regenerated `elemFlags`) and about the declarative semantics of
`Spec/QuerySemantics.lean`, written from the docstrings.
-/
namespace ChythonModel.Props.C08
open ChythonModel.Model ChythonModel.Model.Query ChythonModel.Spec.Query ChythonModel.Proofs.C08 ChythonModel.Gen.Query

/-! ## 1. `query_atom == atom` is the documented predicate, clause by clause -/

/-- any-metal table: over the regenerated element flags, `AnyMetal` refuses exactly the elements that form covalent single
    bonds and the noble gases (list written from the periodic table), for every element 1…118. -/
theorem anyMetal_table : ∀ z ∈ List.range' 1 118, notMetal z = nonMetals.contains z := by decide +kernel

/-- every element class occurs once in the regenerated table (so the lookup by atomic number is the class's flag) -/
theorem elemFlags_complete : ∀ z ∈ List.range' 1 118, (elemFlags.filter (fun r => r.2.1 == z)).length = 1 := by
  decide +kernel

/-- the model's flag test is the documented notion of a metal, for every element of the table -/
theorem notMetal_iff (z : Nat) (h1 : 1 ≤ z) (h2 : z ≤ 118) : notMetal z = false ↔ IsMetal z := by
  have hm : z ∈ List.range' 1 118 := List.mem_range'_1.mpr ⟨h1, by omega⟩
  have := anyMetal_table z hm
  unfold IsMetal
  rw [this]
  simp [List.contains_iff_mem]

/-- **eq_is_spec**: for every query atom the setters can produce and every atom of a molecule, the model of the four `__eq__`
    methods returns `True` exactly when the documented predicate holds (element / list / any / any-metal; charge; radical;
    isotope only if set; neighbours; hybridisation; ring sizes / not-in-ring; hydrogens; heteroatoms — empty tuple = unconstrained). -/
theorem eq_is_spec (q : QAtom) (a : MAtom) (hq : QWF q) (ha : AWF a) : pyEq q a = true ↔ Matches q a := by
  unfold pyEq Matches
  cases hk : q.kind with
  | element z iso =>
    simp only
    by_cases hz : z = a.z
    · subst hz
      simp only [bne_self_eq_false, Bool.false_eq_true, if_false, extendedTail_true q iso a hq, true_and]
      constructor
      · intro h; exact ⟨h.2.2.1, h.1, h.2.1, h.2.2.2⟩
      · intro h; exact ⟨h.2.1, h.2.2.1, h.1, h.2.2.2⟩
    · have : (z != a.z) = true := by simp [hz]
      simp only [this, if_true]
      constructor
      · intro h; simp at h
      · intro h; exact absurd h.1.1.symm hz
  | any =>
    simp only [extendedTail_true q none a hq, true_and]
    constructor
    · intro h; exact ⟨h.1, h.2.1, h.2.2.2⟩
    · intro h; exact ⟨h.1, h.2.1, Or.inl rfl, h.2.2⟩
  | list zs =>
    simp only
    by_cases hz : a.z ∈ zs
    · have : zs.contains a.z = true := List.contains_iff_mem.mpr hz
      simp only [this, Bool.not_true, Bool.false_eq_true, if_false, extendedTail_true q none a hq]
      constructor
      · intro h; exact ⟨hz, h.1, h.2.1, h.2.2.2⟩
      · intro h; exact ⟨h.2.1, h.2.2.1, Or.inl rfl, h.2.2.2⟩
    · have : zs.contains a.z = false := by
        cases hc : zs.contains a.z
        · rfl
        · exact absurd (List.contains_iff_mem.mp hc) hz
      simp only [this, Bool.not_false, if_true]
      constructor
      · intro h; simp at h
      · intro h; exact absurd h.1 hz
  | metal =>
    simp only
    rw [← notMetal_iff a.z ha.1 ha.2, ← tupleRejects_false, ← tupleRejects_false]
    cases notMetal a.z <;> cases tupleRejects q.neighbors a.neighbors <;>
      cases tupleRejects q.hybridization a.hybridization <;> simp

/-- the hypotheses of `eq_is_spec` are satisfiable by a non-trivial instance: `[C,N;D2,D3;r5,r6;a]`-like query on a ring carbon -/
example : QWF { kind := .list [6, 7], neighbors := [2, 3], ringSizes := [5, 6], hybridization := [4] } ∧
    AWF { z := 6, neighbors := 3, hybridization := 4, ringSizes := [6] } ∧
    pyEq { kind := .list [6, 7], neighbors := [2, 3], ringSizes := [5, 6], hybridization := [4] }
         { z := 6, neighbors := 3, hybridization := 4, ringSizes := [6] } = true := by decide

/-- any-metal ignores charge, radical, isotope, rings, hydrogens and heteroatoms of both sides (documented) -/
theorem anyMetal_ignores (q q' : QAtom) (a a' : MAtom)
    (hk : q.kind = .metal) (hk' : q'.kind = .metal) (hn : q.neighbors = q'.neighbors) (hh : q.hybridization = q'.hybridization)
    (hz : a.z = a'.z) (han : a.neighbors = a'.neighbors) (hah : a.hybridization = a'.hybridization) :
    pyEq q a = pyEq q' a' := by
  unfold pyEq
  simp only [hk, hk', hn, hh, hz, han, hah]

/-- an unconstrained element query matches exactly the atoms of that element with zero charge and no radical -/
theorem plain_element_query (z : Nat) (a : MAtom) :
    pyEq { kind := .element z none } a = true ↔ (a.z = z ∧ a.charge = 0 ∧ a.radical = false) := by
  have hq : QWF { kind := .element z none } := Or.inr (by simp)
  unfold pyEq
  simp only
  by_cases hz : z = a.z
  · subst hz
    simp only [bne_self_eq_false, Bool.false_eq_true, if_false, extendedTail_true _ none a hq, true_and]
    constructor
    · intro h; exact ⟨h.1.symm, h.2.1.symm⟩
    · intro h; exact ⟨h.1.symm, h.2.symm, Or.inl rfl, Or.inl rfl, Or.inl rfl, Or.inl rfl, Or.inl rfl, Or.inl rfl⟩
  · have : (z != a.z) = true := by simp [hz]
    simp only [this, if_true]
    constructor
    · intro h; simp at h
    · intro h; exact absurd h.1.symm hz

/-! ## 2. bonds -/

/-- **bond_eq_is_spec**: `QueryBond == Bond` ⇔ the bond's order is one of the listed orders and the ring mark (if any) agrees -/
theorem bond_eq_is_spec (q : QBond) (b : MBond) : bondEq q b = true ↔ BondMatches q b := by
  unfold bondEq BondMatches
  cases hr : q.inRing with
  | none => simp [List.contains_iff_mem]
  | some r =>
    by_cases h : r = b.inRing
    · subst h; simp [List.contains_iff_mem]
    · have : (r != b.inRing) = true := by simp [h]
      simp [this, h]

/-- a query bond built from a bond (`QueryBond.from_bond`, any flags) matches that bond -/
theorem fromBond_reflexive (b : MBond) (st : Option Bool) (fs fr : Bool) : bondEq (fromBond b st fs fr) b = true := by
  unfold bondEq fromBond
  cases fr <;> simp

/-- a negated order `!x` (the regenerated `not_dict`) lists exactly the other orders among single, double, triple, aromatic -/
theorem not_dict_is_complement :
    ∀ p ∈ notDict, ∀ o ∈ [1, 2, 3, 4], (p.2.contains o) = (some o != (replaceDict.lookup p.1)) := by decide +kernel

/-- the regenerated `charge_dict` gives every documented charge spelling its Daylight meaning, and nothing else -/
theorem charge_dict_spec :
    (∀ kv ∈ chargeDict, chargeMeaning kv.1 = some kv.2) ∧
    (∀ t ∈ documentedChargeTexts, lookupC t chargeDict = chargeMeaning t ∧ (chargeMeaning t).isSome = true) := by
  decide +kernel

/-- the order symbols denote 1, 2, 3, 4 and 8 (any / coordination bond) -/
theorem replace_dict_table : replaceDict = [('-', 1), ('=', 2), ('#', 3), (':', 4), ('~', 8)] := by decide +kernel

/-- `QueryBond(list)` keeps exactly the listed orders (as a set) together with the ring and stereo marks -/
theorem mkQBondList_orders (os : List Nat) (ir st) (q : QBond) (h : mkQBondList os ir st = .ok q) :
    (∀ o, o ∈ q.orders ↔ o ∈ os) ∧ q.inRing = ir ∧ q.stereo = st := by
  unfold mkQBondList at h
  split at h
  · cases h
  · cases h
    exact ⟨fun o => mem_sortDedup os o, rfl, rfl⟩

/-! ## 3. labels: hybridisation and counts -/

/-- one step of the hybridisation loop commutes with another: the result cannot depend on the order of the neighbour dict -/
theorem hybStep_comm (h o1 o2 : Nat) : hybStep (hybStep h o1) o2 = hybStep (hybStep h o2) o1 := by
  by_cases a1 : o1 = 4
  · subst a1
    by_cases a2 : o2 = 4
    · subst a2; rfl
    by_cases b2 : o2 = 3
    · subst b2; simp [hybStep_4, hybStep_3]
    by_cases c2 : o2 = 2
    · subst c2; simp [hybStep_4, hybStep_2]
    · simp [hybStep_4, hybStep_other _ _ a2 b2 c2]
  by_cases b1 : o1 = 3
  · subst b1
    by_cases a2 : o2 = 4
    · subst a2; simp [hybStep_4, hybStep_3]
    by_cases b2 : o2 = 3
    · subst b2; rfl
    by_cases c2 : o2 = 2
    · subst c2; simp only [hybStep_3, hybStep_2]; split_ifs <;> omega
    · simp [hybStep_other _ _ a2 b2 c2]
  by_cases c1 : o1 = 2
  · subst c1
    by_cases a2 : o2 = 4
    · subst a2; simp [hybStep_4, hybStep_2]
    by_cases b2 : o2 = 3
    · subst b2; simp only [hybStep_3, hybStep_2]; split_ifs <;> omega
    by_cases c2 : o2 = 2
    · subst c2; rfl
    · simp [hybStep_other _ _ a2 b2 c2]
  · simp [hybStep_other _ _ a1 b1 c1]

/-- **hybridization_spec**: the label `calc_labels` assigns is the documented function of the atom's bond orders -/
theorem hybridization_spec (f : Nat → Option Nat) (l : List (Nat × Bond)) (r : Labels)
    (h : labelsLoop f l ⟨0, 0, 1, 0⟩ = some r) : r.hybridization = Spec.Query.hybridization (realOrders l) := by
  rw [labelsLoop_hyb f l _ r h]
  exact hybFold_spec _

/-- **labels_perm_invariant**: every label of an atom (neighbours, heteroatoms, hybridisation, explicit hydrogens, and whether
    the lookup fails) is independent of the order in which the neighbour dict lists the bonds -/
theorem labels_perm_invariant (f : Nat → Option Nat) (l1 l2 : List (Nat × Bond)) (hp : l1.Perm l2) (acc : Labels) :
    labelsLoop f l1 acc = labelsLoop f l2 acc := by
  induction hp generalizing acc with
  | nil => rfl
  | cons x _ ih =>
    obtain ⟨m, b⟩ := x
    unfold labelsLoop
    split
    · exact ih acc
    · cases f m with
      | none => rfl
      | some z => exact ih _
  | swap x y l =>
    obtain ⟨m1, b1⟩ := x
    obtain ⟨m2, b2⟩ := y
    simp only [labelsLoop]
    by_cases h1 : b1.order = 8 <;> by_cases h2 : b2.order = 8
    · simp [h1, h2]
    · simp [h1, h2]
    · simp [h1, h2]
    · have e1 : (b1.order == 8) = false := by simp [h1]
      have e2 : (b2.order == 8) = false := by simp [h2]
      simp only [e1, e2, Bool.false_eq_true, if_false]
      cases hf1 : f m1 with
      | none => cases hf2 : f m2 <;> simp
      | some z1 =>
        cases hf2 : f m2 with
        | none => simp
        | some z2 =>
          simp only []
          congr 1
          rw [Labels.mk.injEq]
          refine ⟨by omega, ?_, hybStep_comm _ _ _, ?_⟩
          · by_cases a : z1 = 1 <;> by_cases b : z2 = 1 <;> by_cases c : z1 = 6 <;> by_cases d : z2 = 6 <;> simp_all
          · by_cases a : z1 = 1 <;> by_cases b : z2 = 1 <;> simp_all
  | trans _ _ ih1 ih2 => exact (ih1 acc).trans (ih2 acc)

/-- hybridisation does not depend on the order of the bonds (corollary, stated on the label itself) -/
theorem hybridization_perm_invariant (f : Nat → Option Nat) (l1 l2 : List (Nat × Bond)) (hp : l1.Perm l2) :
    (labelsLoop f l1 ⟨0, 0, 1, 0⟩).map (·.hybridization) = (labelsLoop f l2 ⟨0, 0, 1, 0⟩).map (·.hybridization) := by
  rw [labels_perm_invariant f l1 l2 hp]

/-- **labels_spec**: neighbours = number of non-coordination bonds; heteroatoms = those leading to an atom that is neither H nor
    C; explicit hydrogens = those leading to H -/
theorem labels_spec (f : Nat → Option Nat) (l : List (Nat × Bond)) (acc r : Labels) (h : labelsLoop f l acc = some r) :
    r.neighbors = acc.neighbors + (l.filter fun mb => mb.2.order != 8).length ∧
    r.heteroatoms = acc.heteroatoms + (l.filter fun mb => mb.2.order != 8 && f mb.1 != some 1 && f mb.1 != some 6).length ∧
    r.explicitH = acc.explicitH + (l.filter fun mb => mb.2.order != 8 && f mb.1 == some 1).length := by
  induction l generalizing acc with
  | nil => simp [labelsLoop] at h; subst h; simp
  | cons mb t ih =>
    obtain ⟨m, b⟩ := mb
    unfold labelsLoop at h
    by_cases h8 : b.order = 8
    · simp [h8] at h
      have := ih acc h
      simpa [h8] using this
    · have h8' : (b.order == 8) = false := by simp [h8]
      simp only [h8', Bool.false_eq_true, if_false] at h
      cases hf : f m with
      | none => simp [hf] at h
      | some z =>
        simp only [hf] at h
        obtain ⟨i1, i2, i3⟩ := ih _ h
        have hb : (b.order != 8) = true := by simp [h8]
        simp only [List.filter_cons, hb, hf, Bool.true_and]
        by_cases a : z = 1
        · subst a; simp at i1 i2 i3 ⊢; omega
        · by_cases c : z = 6
          · subst c; simp at i1 i2 i3 ⊢; omega
          · simp [a, c] at i1 i2 i3 ⊢; omega

/-- non-trivial instance: a carbonyl carbon with an O (double), an N and an H neighbour and one coordination bond -/
example : labelsLoop (fun k => [(1, 8), (2, 7), (3, 1), (4, 26)].lookup k)
    [(1, ⟨2, none⟩), (4, ⟨8, none⟩), (2, ⟨1, none⟩), (3, ⟨1, none⟩)] ⟨0, 0, 1, 0⟩ = some ⟨3, 2, 2, 1⟩ := by decide

/-! ## 4. what the setters / `smarts()` can build is well-formed (the hypothesis of `eq_is_spec` is always met) -/

/-- **build_wf**: every query atom `smarts()` builds satisfies the well-formedness hypothesis of `eq_is_spec` -/
theorem build_wf (p : Parsed) (rad : Bool) (q : QAtom) (h : buildAtom p rad = .ok q) : QWF q := by
  unfold buildAtom at h
  split at h
  · cases h
  · split at h
    · cases h
    · unfold buildMetal at h
      split at h
      · cases h
      · cases h; right; simp
  · exact buildExt_wf _ _ _ _ h
  · split at h
    · cases h
    · exact buildExt_wf _ _ _ _ h

/-- the regenerated setter domains are the documented ones: counts 0…14, hybridisation 1…4, ring sizes ≥ 3 (0 = no-ring mark),
    charge −4…4, bond orders 1, 2, 3, 4, 8; primitive letters `D h r x z` -/
theorem setter_domains :
    countLo = 0 ∧ countHi = 14 ∧ hybLo = 1 ∧ hybHi = 4 ∧ ringMin = 3 ∧ chargeLo = -4 ∧ chargeHi = 4 ∧
    bondOrders = [1, 2, 3, 4, 8] ∧ primLetters = ['D', 'h', 'r', 'x', 'z'] := by decide

/-! ## 5. rejection kind -/

/-- **smarts_reject_kind** (full statement): whatever the text and the CX radical indices, `smarts()` either returns a query
    or raises `IncorrectSmarts` — no other exception class leaves it.  (`unsupported` is the model's own marker for characters
    outside the modelled alphabet and is not an outcome of the code.) -/
theorem smarts_reject_kind (s : List Char) (rad : List Nat) (e : PyErr) (h : smartsModel s rad = .err e) :
    e = .incorrectSmarts := by
  cases hI : smartsInner s rad with
  | err e' => simp only [smartsModel, hI] at h; cases h; rfl
  | ok g => simp only [smartsModel, hI] at h; cases h
  | unsupported => simp only [smartsModel, hI] at h; cases h

/-- the same for the full text syntax (plain atoms, branches, ring closures; C03's tokenizer model + the full parser model):
    nothing but `IncorrectSmarts` leaves `smarts()` -/
theorem smartsFull_reject_kind (text : List Nat) (rad : List Nat) (e : PyErr) (h : smartsFull text rad = .err e) :
    e = .incorrectSmarts := by
  cases hI : smartsFullInner text rad with
  | err e' => simp only [smartsFull, hI] at h; cases h; rfl
  | ok g => simp only [smartsFull, hI] at h; cases h
  | unsupported => simp only [smartsFull, hI] at h; cases h

/-- a ring-closure bond is specified consistently on both sides or the text is rejected: the comparison the parser uses is
    Python's `==` — equal ints, equal lists, equal query bonds; an int and a `QueryBond` compare by membership -/
theorem pbNe_spec :
    (∀ x y, pbNe (.order x) (.order y) = (x != y)) ∧ (∀ x y, pbNe (.orders x) (.orders y) = (x != y)) ∧
    (∀ x l, pbNe (.order x) (.orders l) = true) ∧ (∀ x q, pbNe (.order x) (.query q) = !q.orders.contains x) := by
  refine ⟨fun _ _ => rfl, fun _ _ => rfl, fun _ _ => rfl, fun _ _ => rfl⟩

/-- the wrapper changes nothing but the error class: accepted strings and their query graphs are those of the inner reader -/
theorem smarts_wrapper_transparent (s : List Char) (rad : List Nat) (g : QGraph) :
    smartsModel s rad = .ok g ↔ smartsInner s rad = .ok g := by
  unfold smartsModel
  cases smartsInner s rad <;> simp

/-- the inner reader does raise other classes (so the wrapper is what makes `smarts_reject_kind` true): `[C&D2]` → `ValueError`,
    `[M+]` → `TypeError`, `[C;D1,]` → `IndexError`, `[C+-]` → `KeyError` -/
theorem inner_error_classes :
    smartsInner "[C&D2]".toList [] = .err .valueError ∧ smartsInner "[M+]".toList [] = .err .typeError ∧
    smartsInner "[C;D1,]".toList [] = .err .indexError ∧ smartsInner "[C+-]".toList [] = .err .keyError ∧
    smartsInner "[C;r2]".toList [] = .err .valueError ∧ smartsInner "[!C]".toList [] = .err .valueError := by
  decide +kernel

/-! ## 6. the reader on the documented subset -/

/-- **smarts_roundtrip** (general, no bound): for *every* well-formed documented bracket atom `d` — any element symbol or `#n`,
    element lists of any length, `A`, `M`, any isotope and atom map, any charge −4…4, stereo mark, and value lists of any
    length for `D h r x z`, `!R`, `a`, `A`, `M` — `smarts('[' + canonical spelling + ']')` returns exactly one atom, numbered as
    documented, equal to the documented query atom `denote d`.  Proved by following the text through the four regex scanners,
    the `;`/`,` splitting, Python `int()`, the primitive loop, class resolution over the regenerated tables and the setters. -/
theorem smarts_roundtrip (d : DocAtom) (h : DocWF d = true) :
    smartsModel ('[' :: printDoc d ++ [']']) [] = .ok ⟨[(numberOf d, denote d)], []⟩ :=
  smarts_printDoc d h

/-- … and with the CX radical block `|^1:0|` the same atom carries the radical mark (any-metal takes no radical mark) -/
theorem smarts_roundtrip_radical (d : DocAtom) (h : DocWF d = true) (hm : d.head ≠ .metal) :
    smartsModel ('[' :: printDoc d ++ [']']) [0] = .ok ⟨[(numberOf d, { denote d with radical := true })], []⟩ :=
  smarts_printDoc_rad d h true (fun _ => hm)

/-- a radical query atom matches only radical atoms, a non-radical one only non-radical atoms (clause of `eq_is_spec`) -/
theorem radical_mark_matches (q : QAtom) (a : MAtom) (hq : QWF q) (ha : AWF a) (hk : q.kind ≠ .metal)
    (h : pyEq q a = true) : q.radical = a.radical := by
  have hs := (eq_is_spec q a hq ha).mp h
  unfold Matches at hs
  cases hkk : q.kind with
  | metal => exact absurd hkk hk
  | element z i => simp only [hkk] at hs; exact hs.2.2.1
  | any => simp only [hkk] at hs; exact hs.2.2.1
  | list zs => simp only [hkk] at hs; exact hs.2.2.1

/-- the hypothesis is satisfiable: all 2936 atoms of the enumerated grid (every element as symbol and `#n`, every single
    primitive with every value and value pair, all mark combinations, all family combinations) are well-formed -/
theorem docGrid_wf : ∀ d ∈ docGrid, DocWF d = true := by decide +kernel

/-- the grid is not trivial: it contains e.g. `[13C@@-2;D1:7]`-like and `[N,#8+;D2,D3;h1,h2;r5,r6;x0,x2;z2,z4;M:12]` atoms -/
example : docGrid.length = 2936 ∧
    printDoc { head := .list [.sym 7, .num 8], charge := 1, neighbors := [2, 3], hydrogens := [1, 2], rings := [5, 6],
               hetero := [0, 2], hyb := [2, 4], masked := true, map := some 12 } = "N,#8+;D2,D3;h1,h2;r5,r6;x0,x2;z2,z4;M:12".toList := by
  decide +kernel

/-- **bond_tokens_spec**: every documented bond token between two atoms — the five order symbols, all 25 two-element lists,
    the four negated orders, each plain / `;@` / `;!@`, and the empty token — is read as the documented order set and ring mark -/
theorem bond_tokens_spec :
    ∀ b ∈ docBonds, smartsModel ("[C]".toList ++ printBond b ++ "[N]".toList) [] =
      .ok ⟨[(1, { kind := .element 6 none }), (2, { kind := .element 7 none })], [(2, 1, denoteBond b)]⟩ := by
  decide +kernel

example : docBonds.length = 103 := by decide +kernel

/-! ## 7. queries built from atoms; ring labels -/

/-- a query built from an atom is well-formed -/
theorem fromAtom_wf (a : MAtom) (f : FromAtomFlags) (q : QAtom) (h0 : 0 ∉ a.ringSizes)
    (h : fromAtom a f = some q) : QWF q := by
  unfold fromAtom at h
  split at h
  · cases h
    right
    show 0 ∉ (if f.ringSizes then sortDedup a.ringSizes else [])
    split
    · intro hm; exact h0 ((mem_sortDedup _ _).mp hm)
    · simp
  · cases h

/-- **fromAtom_reflexive**: a query atom built from a molecule atom with any choice of the five flags matches that atom
    (ring sizes of real atoms are ≥ 3, in particular never 0) -/
theorem fromAtom_reflexive (a : MAtom) (f : FromAtomFlags) (q : QAtom) (h0 : 0 ∉ a.ringSizes)
    (h : fromAtom a f = some q) : pyEq q a = true := by
  have hq := fromAtom_wf a f q h0 h
  unfold fromAtom at h
  split at h
  · cases h
    unfold pyEq
    simp only [bne_self_eq_false, Bool.false_eq_true, if_false]
    rw [extendedTail_true _ _ _ hq]
    refine ⟨rfl, rfl, Or.inr (Or.inr rfl), ?_, ?_, ?_, ?_, ?_⟩
    · simp only; split <;> simp [Allowed]
    · simp only; split <;> simp [Allowed]
    · simp only
      split
      · cases hr : a.ringSizes with
        | nil => left; simp [sortDedup]
        | cons r t =>
          right; right
          refine ⟨fun hm => h0 (hr ▸ (mem_sortDedup _ _).mp hm), r, (mem_sortDedup _ _).mpr (by simp), by simp⟩
      · left; rfl
    · simp only
      split
      · cases a.implH <;> simp [HAllowed]
      · simp [HAllowed]
    · simp only; split <;> simp [Allowed]
  · cases h

example : fromAtom { z := 6, ringSizes := [5, 6], neighbors := 3, implH := some 0 }
    { neighbors := true, ringSizes := true, hydrogens := true } =
    some { kind := .element 6 none, neighbors := [3], ringSizes := [5, 6], implH := [0] } := by decide +kernel

/-- ring sizes of an atom = lengths of the SSSR rings through it -/
theorem ring_sizes_spec (sssr : List (List Nat)) (n s : Nat) :
    s ∈ ringSizesOf sssr n ↔ ∃ r ∈ sssr, n ∈ r ∧ r.length = s := by
  unfold ringSizesOf
  rw [mem_sortDedup]
  simp only [List.mem_map, List.mem_filter, List.contains_iff_mem]
  constructor
  · rintro ⟨r, ⟨hr, hn⟩, hl⟩; exact ⟨r, hr, hn, hl⟩
  · rintro ⟨r, hr, hn, hl⟩; exact ⟨r, ⟨hr, hn⟩, hl⟩

/-- a bond is marked `in_ring` iff its two atoms share an SSSR ring -/
theorem bond_in_ring_spec (sssr : List (List Nat)) (n m : Nat) :
    bondInRing sssr n m = true ↔ ∃ r ∈ sssr, n ∈ r ∧ m ∈ r := by
  unfold bondInRing
  simp [List.any_eq_true, List.contains_iff_mem]

/-- not-in-ring (`!R`) matches exactly the atoms through which no SSSR ring passes -/
theorem not_in_ring_spec (sssr : List (List Nat)) (n : Nat) :
    ringRejects [0] (ringSizesOf sssr n) = false ↔ ∀ r ∈ sssr, n ∉ r := by
  have : ringSizesOf sssr n = [] ↔ ∀ r ∈ sssr, n ∉ r := by
    constructor
    · intro h r hr hn
      have := (ring_sizes_spec sssr n r.length).mpr ⟨r, hr, hn, rfl⟩
      rw [h] at this; cases this
    · intro h
      cases hl : ringSizesOf sssr n with
      | nil => rfl
      | cons s t =>
        have hs : s ∈ ringSizesOf sssr n := by rw [hl]; simp
        obtain ⟨r, hr, hn, _⟩ := (ring_sizes_spec sssr n s).mp hs
        exact absurd hn (h r hr)
  rw [← this]
  unfold ringRejects
  simp

/-! ## 8. end to end: SMARTS text → match, against the documented meaning -/

/-- the documented meaning of a well-formed documented atom is a well-formed query -/
theorem denote_wf (d : DocAtom) (h : DocWF d = true) : QWF (denote d) := by
  unfold DocWF at h
  simp only [Bool.and_eq_true] at h
  obtain ⟨⟨⟨⟨⟨⟨⟨⟨⟨⟨⟨_, _⟩, _⟩, _⟩, _⟩, hr3⟩, hnr⟩, _⟩, _⟩, _⟩, _⟩, _⟩ := h
  unfold QWF denote
  have ring : (if d.notRing = true then [0] else d.rings) = [0] ∨ 0 ∉ (if d.notRing = true then [0] else d.rings) := by
    by_cases hn : d.notRing = true
    · left; simp [hn]
    · right
      simp only [hn]
      intro h0
      have := List.all_eq_true.mp hr3 0 h0
      simp at this
  cases hh : d.head <;> simp only [] <;> first | exact ring | (right; simp)

/-- **smarts_match_is_documented**: for **every** well-formed documented atom `d` and **every** atom `a` of any molecule, the
    query that `smarts()` builds from the canonical spelling of `d` compares equal to `a` exactly when the documented meaning of
    `d` holds of `a` (composition of `smarts_roundtrip`, `denote_wf` and `eq_is_spec`). -/
theorem smarts_match_is_documented (d : DocAtom) (hd : DocWF d = true) (a : MAtom) (ha : AWF a) :
    ∃ q, smartsModel ('[' :: printDoc d ++ [']']) [] = .ok ⟨[(numberOf d, q)], []⟩ ∧
      (pyEq q a = true ↔ Matches (denote d) a) :=
  ⟨denote d, smarts_roundtrip d hd, eq_is_spec (denote d) a (denote_wf d hd) ha⟩

/-- the documented meaning spelled out for the primitives of an element / list / any head (what `Matches (denote d)` says):
    `D` lists the allowed neighbour counts, `h` the hydrogens, `x` the heteroatoms, `z`/`a` the hybridisation,
    `r` ring sizes (some listed size among the atom's), `!R` no ring -/
theorem documented_primitives (d : DocAtom) (a : MAtom) (hm : d.head ≠ .metal) (h0 : 0 ∉ d.rings)
    (h : Matches (denote d) a) :
    (d.neighbors ≠ [] → a.neighbors ∈ d.neighbors) ∧
    (d.hydrogens ≠ [] → ∃ k, a.implH = some k ∧ k ∈ d.hydrogens) ∧
    (d.hetero ≠ [] → a.heteroatoms ∈ d.hetero) ∧
    (d.aromatic = true → a.hybridization = 4) ∧
    (d.aromatic = false → d.hyb ≠ [] → a.hybridization ∈ d.hyb) ∧
    (d.notRing = true → a.ringSizes = []) ∧
    (d.notRing = false → d.rings ≠ [] → ∃ s, s ∈ d.rings ∧ s ∈ a.ringSizes) ∧
    d.charge = a.charge := by
  unfold Matches denote at h
  cases hh : d.head with
  | metal => exact absurd hh hm
  | one i =>
    simp only [hh] at h
    obtain ⟨_, hc, _, hn, hy, hr, hH, hx⟩ := h
    refine ⟨?_, ?_, ?_, ?_, ?_, ?_, ?_, hc⟩
    · intro ne; rcases hn with e | m; exact absurd e ne; exact m
    · intro ne; rcases hH with e | m; exact absurd e ne; exact m
    · intro ne; rcases hx with e | m; exact absurd e ne; exact m
    · intro ar; simp only [ar, if_true] at hy; rcases hy with e | m; simp at e; simpa using m
    · intro ar ne; simp only [ar] at hy; rcases hy with e | m; exact absurd e ne; exact m
    · intro nr; simp only [nr, if_true] at hr
      rcases hr with e | ⟨_, e⟩ | ⟨e, _⟩
      · simp at e
      · exact e
      · simp at e
    · intro nr ne; simp only [nr, Bool.false_eq_true, if_false] at hr
      rcases hr with e | ⟨e, _⟩ | ⟨_, s, hs, hs'⟩
      · exact absurd e ne
      · exact absurd (e ▸ List.mem_singleton.mpr rfl) h0
      · exact ⟨s, hs, hs'⟩
  | list l =>
    simp only [hh] at h
    obtain ⟨_, hc, _, hn, hy, hr, hH, hx⟩ := h
    refine ⟨?_, ?_, ?_, ?_, ?_, ?_, ?_, hc⟩
    · intro ne; rcases hn with e | m; exact absurd e ne; exact m
    · intro ne; rcases hH with e | m; exact absurd e ne; exact m
    · intro ne; rcases hx with e | m; exact absurd e ne; exact m
    · intro ar; simp only [ar, if_true] at hy; rcases hy with e | m; simp at e; simpa using m
    · intro ar ne; simp only [ar] at hy; rcases hy with e | m; exact absurd e ne; exact m
    · intro nr; simp only [nr, if_true] at hr
      rcases hr with e | ⟨_, e⟩ | ⟨e, _⟩
      · simp at e
      · exact e
      · simp at e
    · intro nr ne; simp only [nr, Bool.false_eq_true, if_false] at hr
      rcases hr with e | ⟨e, _⟩ | ⟨_, s, hs, hs'⟩
      · exact absurd e ne
      · exact absurd (e ▸ List.mem_singleton.mpr rfl) h0
      · exact ⟨s, hs, hs'⟩
  | any =>
    simp only [hh] at h
    obtain ⟨_, hc, _, hn, hy, hr, hH, hx⟩ := h
    refine ⟨?_, ?_, ?_, ?_, ?_, ?_, ?_, hc⟩
    · intro ne; rcases hn with e | m; exact absurd e ne; exact m
    · intro ne; rcases hH with e | m; exact absurd e ne; exact m
    · intro ne; rcases hx with e | m; exact absurd e ne; exact m
    · intro ar; simp only [ar, if_true] at hy; rcases hy with e | m; simp at e; simpa using m
    · intro ar ne; simp only [ar] at hy; rcases hy with e | m; exact absurd e ne; exact m
    · intro nr; simp only [nr, if_true] at hr
      rcases hr with e | ⟨_, e⟩ | ⟨e, _⟩
      · simp at e
      · exact e
      · simp at e
    · intro nr ne; simp only [nr, Bool.false_eq_true, if_false] at hr
      rcases hr with e | ⟨e, _⟩ | ⟨_, s, hs, hs'⟩
      · exact absurd e ne
      · exact absurd (e ▸ List.mem_singleton.mpr rfl) h0
      · exact ⟨s, hs, hs'⟩

/-- every documented bond token, read by `smarts()`, matches a bond exactly when its order is one of the documented orders and
    the ring mark (if written) agrees -/
theorem bond_token_match_is_documented (b : DocBond) (mb : MBond) :
    bondEq (denoteBond b) mb = true ↔ (mb.order ∈ (denoteBond b).orders ∧ (b.ring = none ∨ b.ring = some mb.inRing)) := by
  rw [bond_eq_is_spec]
  unfold BondMatches
  have : (denoteBond b).inRing = b.ring := rfl
  rw [this]

/-! ## 9. characters outside the documented alphabet -/

/-- **unsupported_char_rejected**: a bracket atom whose text contains *any* character that is neither a letter, a digit, white
    space nor one of `# , ; ! + - : @ ? _` — e.g. the unsupported `&` operator, `$` (recursive SMARTS), `*`, `~`, `=`, `(`, `)`,
    `%`, `.`, `/`, `^` — is rejected with `IncorrectSmarts`, for every text of every length, whatever else it contains and
    whatever CX radicals are given. (No scanner of `_query_parse` consumes such a character, so it ends up in an element symbol,
    which no table contains, or in a primitive, which then fails to parse.) -/
theorem unsupported_char_rejected (c : Char) (hb : isBad c = true) (s : List Char) (hc : c ∈ s)
    (h1 : '[' ∉ s) (h2 : ']' ∉ s) (rad : List Nat) :
    smartsModel ('[' :: s ++ [']']) rad = .err .incorrectSmarts := by
  obtain ⟨e, he⟩ := bad_char_inner_rejected c hb s hc h1 h2 rad
  simp only [smartsModel, he]

/-- **mixed_or_list_rejected**: a `,`-list of numeric primitives whose alternatives are not all of one kind (`D1,h2`, `D1,h2,D3`,
    `h1,x2,h3,h4`, … — any length, the odd item at any position) is never accepted ("Unsupported OR statement") -/
theorem mixed_or_list_rejected (out : Parsed) (ps : List (List Char)) (f g : Char) (r1 r2 : List Char)
    (hx : (f :: r1) ∈ ps) (hy : (g :: r2) ∈ ps) (hfg : f ≠ g) : ∀ o, applyNumPrim out ps ≠ .ok o :=
  applyNumPrim_mixed out ps f g r1 r2 hx hy hfg

example : applyNumPrim { element := .one (.sym ['C']) } (splitOn ',' "D1,h2,D3".toList) = .error .incorrectSmarts := by decide

/-- the `&` operator ("<&> logic operator unsupported") is rejected wherever it occurs in a bracket atom -/
theorem amp_rejected (s : List Char) (hc : '&' ∈ s) (h1 : '[' ∉ s) (h2 : ']' ∉ s) (rad : List Nat) :
    smartsModel ('[' :: s ++ [']']) rad = .err .incorrectSmarts :=
  unsupported_char_rejected '&' (by decide) s hc h1 h2 rad

/-- which characters the theorem covers (and that the documented ones are not among them) -/
example : "&$*()=~%./\\^<>{}|'\"".toList.all isBad = true ∧
    "CNaZz09#,;!+-:@?_ ".toList.all (fun c => !isBad c) = true := by decide

example : smartsModel "[C;D2&h1]".toList [] = .err .incorrectSmarts :=
  amp_rejected "C;D2&h1".toList (by decide) (by decide) (by decide) []

/-! ## 10. query atoms built through the API (constructors / setters with scalar, list or tuple arguments) -/

/-- a scalar argument is stored as the one-element tuple — in particular `0` is a constraint, not "unspecified" -/
theorem scalar_is_singleton (v : Int) (l : List Nat) (h : validateCount (.int v) = .ok l) :
    l = [v.toNat] ∧ 0 ≤ v ∧ v ≤ 14 := by
  simp only [validateCount, validateInt] at h
  split at h
  · cases h
  · rename_i hc
    cases h
    simp only [Bool.or_eq_true, decide_eq_true_eq, not_or, Int.not_lt] at hc
    have h1 : (countLo : Int) = 0 := by decide
    have h2 : (countHi : Int) = 14 := by decide
    exact ⟨rfl, by omega, by omega⟩

theorem zero_is_stored : validateCount (.int 0) = .ok [0] ∧ validateRing (.int 0) = .ok [0] ∧ validateCount .none = .ok [] := by
  decide

/-- a list / tuple argument is stored as the same set of values (sorted) -/
theorem list_is_same_set (l : List Int) (r : List Nat) (h : validateCount (.lst l) = .ok r) :
    ∀ n : Nat, n ∈ r ↔ (n : Int) ∈ l := by
  simp only [validateCount, validateList] at h
  split at h
  · cases h
  · rename_i hc
    split at h
    · cases h
    · cases h
      intro n
      simp only [List.mem_map, mem_sortI]
      have hnn : ∀ x ∈ l, 0 ≤ x := by
        intro x hx
        cases hcx : decide (x < (countLo : Int)) with
        | false =>
          have h1 : (countLo : Int) = 0 := by decide
          simp only [decide_eq_false_iff_not, Int.not_lt] at hcx
          omega
        | true =>
          exfalso
          apply hc
          exact List.any_eq_true.mpr ⟨x, hx, by simp [hcx]⟩
      constructor
      · rintro ⟨x, hx, e⟩
        have := hnn x hx
        have : (n : Int) = x := by omega
        rw [this]; exact hx
      · intro hn
        exact ⟨n, hn, by simp⟩

/-- everything the constructors / setters build satisfies the well-formedness hypothesis of `eq_is_spec` -/
theorem apiQuery_wf (kind : QKind) (c : Int) (rad : Bool) (nb hy rs ih he : RawArg) (st : Option Bool) (mk : Bool) (q : QAtom)
    (h : apiQuery kind c rad nb hy rs ih he st mk = .ok q) : QWF q := by
  unfold apiQuery at h
  split at h
  · cases h
  · split at h
    · cases h
    · split at h
      · cases h; right; simp
      · split at h
        · cases h
        · split at h
          · cases h
          · split at h
            · cases h
            · rename_i rs' hrs
              split at h
              · cases h
              · cases h
                unfold QWF
                simp only
                cases rs with
                | none => simp [validateRing] at hrs; subst hrs; right; simp
                | int v => exact ring_setter_wf (.int v) rs' hrs
                | lst l => exact ring_setter_wf (.lst l) rs' hrs

/-- **api_zero_constrains**: a query built with the scalar `neighbors=0` (any class but any-metal's other fields, any other
    arguments) matches only atoms that have no neighbours — and likewise the match of every API-built query is the documented
    predicate (`eq_is_spec` applies because of `apiQuery_wf`). -/
theorem api_zero_constrains (kind : QKind) (c : Int) (rad : Bool) (hy rs ih he : RawArg) (st : Option Bool) (mk : Bool)
    (q : QAtom) (a : MAtom) (ha : AWF a)
    (h : apiQuery kind c rad (.int 0) hy rs ih he st mk = .ok q) (hm : pyEq q a = true) : a.neighbors = 0 := by
  have hq := apiQuery_wf _ _ _ _ _ _ _ _ _ _ q h
  have hnb : q.neighbors = [0] := by
    unfold apiQuery at h
    have hz : validateCount (.int 0) = .ok [0] := by decide
    rw [hz] at h
    simp only at h
    split at h
    · cases h
    · split at h
      · cases h; rfl
      · split at h
        · cases h
        · split at h
          · cases h
          · split at h
            · cases h
            · split at h
              · cases h
              · cases h; rfl
  have hspec := (eq_is_spec q a hq ha).mp hm
  unfold Matches at hspec
  have hal : Allowed q.neighbors a.neighbors := by
    cases hk : q.kind with
    | metal => simp only [hk] at hspec; exact hspec.2.1
    | element z i => simp only [hk] at hspec; exact hspec.2.2.2.1
    | any => simp only [hk] at hspec; exact hspec.2.2.2.1
    | list zs => simp only [hk] at hspec; exact hspec.2.2.2.1
  rw [hnb] at hal
  rcases hal with e | m
  · cases e
  · simpa using m

/-! ## 11. two atoms and a bond -/

/-- **smarts_pair_roundtrip** (general in the atoms): for any two well-formed documented atoms (without map and mask, so that they
    are numbered 1 and 2) and any documented bond token between them — none, one of `- = # : ~`, a two-element list, a negated
    order, each optionally with `;@` / `;!@` — `smarts()` returns the two documented query atoms joined by the documented query bond -/
theorem smarts_pair_roundtrip (d1 d2 : DocAtom) (b : DocBond) (h1 : DocWF d1 = true) (h2 : DocWF d2 = true) (hb : bondWF b)
    (hm1 : d1.map = none ∧ d1.masked = false) (hm2 : d2.map = none ∧ d2.masked = false) :
    smartsModel (('[' :: printDoc d1 ++ [']']) ++ (printBond b ++ ('[' :: printDoc d2 ++ [']']))) [] =
      .ok ⟨[(1, denote d1), (2, denote d2)], [(2, 1, denoteBond b)]⟩ :=
  smarts_pair d1 d2 b h1 h2 hb hm1 hm2

/-- every bond of the enumerated documented list satisfies the side condition -/
theorem docBonds_wf : ∀ b ∈ docBonds, bondWF b := by
  intro b hb
  have : docBonds.all (fun b => match b.kind with
      | .implicit => b.ring == none
      | .single c => bondSymbols.contains c
      | .pair c d => bondSymbols.contains c && bondSymbols.contains d
      | .negated c => (bondSymbols.take 4).contains c) = true := by decide +kernel
  have hb' := List.all_eq_true.mp this b hb
  unfold bondWF
  cases hk : b.kind with
  | implicit => simp only [hk] at hb'; exact beq_iff_eq.mp hb'
  | single c => simp only [hk] at hb'; exact List.contains_iff_mem.mp hb'
  | pair c d =>
    simp only [hk, Bool.and_eq_true] at hb'
    exact ⟨List.contains_iff_mem.mp hb'.1, List.contains_iff_mem.mp hb'.2⟩
  | negated c => simp only [hk] at hb'; exact List.contains_iff_mem.mp hb'

/-- **pair_match_is_documented**: an ordered pair of bonded atoms `(a1, a2)` with bond `mb` satisfies the three comparisons the
    matcher makes for the pattern `[d1] b [d2]` exactly when `a1` has the documented meaning of `d1`, `a2` that of `d2`, and the
    bond has a documented order and ring membership -/
theorem pair_match_is_documented (d1 d2 : DocAtom) (b : DocBond) (h1 : DocWF d1 = true) (h2 : DocWF d2 = true)
    (a1 a2 : MAtom) (ha1 : AWF a1) (ha2 : AWF a2) (mb : MBond) :
    (pyEq (denote d1) a1 && pyEq (denote d2) a2 && bondEq (denoteBond b) mb) = true ↔
      (Matches (denote d1) a1 ∧ Matches (denote d2) a2 ∧ BondMatches (denoteBond b) mb) := by
  simp only [Bool.and_eq_true]
  rw [eq_is_spec _ _ (denote_wf d1 h1) ha1, eq_is_spec _ _ (denote_wf d2 h2) ha2, bond_eq_is_spec]
  exact ⟨fun h => ⟨h.1.1, h.1.2, h.2⟩, fun h => ⟨⟨h.1, h.2.1⟩, h.2.2⟩⟩

/-! ## 9. whole patterns: `smarts(text).get_mapping(mol)` for patterns of any size -/

section Pattern
open ChythonModel.Spec.Embedding


/-- the atom comparison handed to the matcher is the documented predicate on the labelled atom -/
theorem atomOk_is_documented (g : QGraph) (m : Mol) (sssr : List (List Nat))
    (hQ : ∀ p ∈ g.atoms, QWF p.2) (hz : ∀ p ∈ m.atoms, 1 ≤ p.2.z ∧ p.2.z ≤ 118) (u x : Nat) :
    atomOkOf g m sssr u x = true ↔ ∃ q a, qAtomAt g u = some q ∧ mAtomOf m sssr x = some a ∧ Matches q a := by
  unfold atomOkOf
  cases hq : qAtomAt g u with
  | none => simp
  | some q =>
    cases ha : mAtomOf m sssr x with
    | none => simp
    | some a =>
      simp only [Option.some.injEq, exists_and_left, exists_eq_left']
      exact eq_is_spec q a (hQ _ (qAtomAt_mem g u q hq)) (mAtomOf_awf m sssr hz x a ha)

/-- the bond comparison handed to the matcher is the documented predicate on the labelled bond -/
theorem bondOk_is_documented (g : QGraph) (m : Mol) (sssr : List (List Nat)) (u v x y : Nat) :
    bondOkOf g m sssr u v x y = true ↔ ∃ qb b, qBondAt g u v = some qb ∧ mBondAt m sssr x y = some b ∧ BondMatches qb b := by
  unfold bondOkOf
  cases hq : qBondAt g u v with
  | none => simp
  | some q =>
    cases hb : mBondAt m sssr x y with
    | none => simp
    | some b =>
      simp only [Option.some.injEq, exists_and_left, exists_eq_left']
      exact bond_eq_is_spec q b

theorem mBondAt_isSome (m : Mol) (sssr : List (List Nat)) (x y : Nat) :
    (mBondAt m sssr x y).isSome = (m.bond? x y).isSome := by
  unfold mBondAt; cases m.bond? x y <;> rfl

/-- C07's notion of an embedding, instantiated with C08's comparison models, is the documented notion -/
theorem isEmbedding_iff_documented (g : QGraph) (m : Mol) (sssr : List (List Nat))
    (hQ : ∀ p ∈ g.atoms, QWF p.2) (hz : ∀ p ∈ m.atoms, 1 ≤ p.2.z ∧ p.2.z ≤ 118) (f : Nat → Nat) :
    IsEmbedding (qIsoGraph g) (molIsoGraph m) (fun _ => true) (atomOkOf g m sssr) (bondOkOf g m sssr) f ↔
      DocEmbedding g m sssr f := by
  constructor
  · intro h
    refine ⟨h.injective, ?_, ?_, ?_, h.components_apart⟩
    · intro u hu
      exact (atomOk_is_documented g m sssr hQ hz u (f u)).1 (h.atom_matches u hu)
    · intro u hu v hb
      have hv : v ∈ (qIsoGraph g).nbrs u := (qIso_nbrs g u v).2 ⟨hu, hb⟩
      exact (bondOk_is_documented g m sssr u v (f u) (f v)).1 (h.bond_matches u hu v hv).2
    · intro u hu v hv hr hs
      have := h.no_extra_bond u hu v hv hr ((molIso_mem_nbrs m (f u) (f v)).2 hs)
      exact ((qIso_nbrs g u v).1 this).2
  · intro h
    refine ⟨h.injective, ?_, ?_, ?_, ?_, h.components_apart, fun _ _ => rfl⟩
    · intro u hu
      obtain ⟨q, a, _, ha, _⟩ := h.atom_matches u hu
      exact mAtomOf_in_ids m sssr (f u) a ha
    · intro u hu
      exact (atomOk_is_documented g m sssr hQ hz u (f u)).2 (h.atom_matches u hu)
    · intro u hu v hv
      have hb := ((qIso_nbrs g u v).1 hv).2
      have hd := h.bond_matches u hu v hb
      refine ⟨?_, (bondOk_is_documented g m sssr u v (f u) (f v)).2 hd⟩
      obtain ⟨qb, b, _, hmb, _⟩ := hd
      rw [molIso_mem_nbrs, ← mBondAt_isSome m sssr, hmb]; rfl
    · intro u hu v hv hr hn
      have := h.no_extra_bond u hu v hv hr ((molIso_mem_nbrs m (f u) (f v)).1 hn)
      exact (qIso_nbrs g u v).2 ⟨hu, this⟩

/-- **pattern_match_is_documented** — the property at its public observation point for patterns of ANY size (branches, ring
    closures, query bonds on the closures, several components): for every well-formed query graph `g` (whatever `smarts()` or the
    query API built) and every well-formed molecule with its labels, the model of
    `g.get_mapping(mol, automorphism_filter=False, _cython=False)` — C07's matcher model run on C08's models of the two comparisons —
    terminates normally and returns, without duplicates, exactly the dicts of the maps that are embeddings by the DOCUMENTED meaning:
    injective, every pattern atom on an atom that `Matches` it, every pattern bond on a bond that `BondMatches` it, no molecule bond
    between the images of unjoined atoms of one pattern component, different components apart. -/
theorem pattern_match_is_documented (g : QGraph) (m : Mol) (sssr : List (List Nat)) (tComps : List (List Nat))
    (hq : (qIsoGraph g).WF = true) (hm : m.WF = true)
    (hpart : Iso.checkComponents (molIsoGraph m) tComps = true) (hne : g.atoms ≠ [])
    (hQ : ∀ p ∈ g.atoms, QWF p.2) (hz : ∀ p ∈ m.atoms, 1 ≤ p.2.z ∧ p.2.z ≤ 118) :
    ∃ comps cl r, Iso.compileQuery (qIsoGraph g) = some (comps, cl) ∧ patternMapping g m sssr tComps = some r ∧ r.Nodup ∧
      ∀ d, d ∈ r ↔ ∃ f, d = asDict (comps.flatten.map (·.front)) f ∧ DocEmbedding g m sssr f := by
  have ht : (molIsoGraph m).WF = true := molIso_wf m hm
  have hb : ChythonModel.Proofs.C08.IsoExact.BondSymm (matchProblem g m sssr tComps).bondOk :=
    fun u v x y => bondOkOf_symm g m sssr hm u v x y
  have hat : (matchProblem g m sssr tComps).q.atoms ≠ [] := by
    show (g.atoms.map (·.1)) ≠ []
    intro h; exact hne (List.map_eq_nil_iff.1 h)
  obtain ⟨comps, cl, r, hc, hr, hnd, hmem⟩ :=
    ChythonModel.Proofs.C08.IsoExact.get_mapping_exact (matchProblem g m sssr tComps) hq ht hpart hb hat rfl
  refine ⟨comps, cl, r, hc, hr, hnd, ?_⟩
  intro d
  rw [hmem d]
  constructor
  · rintro ⟨f, hd, hE⟩
    exact ⟨f, hd, (isEmbedding_iff_documented g m sssr hQ hz f).1 hE⟩
  · rintro ⟨f, hd, hD⟩
    exact ⟨f, hd, (isEmbedding_iff_documented g m sssr hQ hz f).2 hD⟩

/-- a ring-closure pattern with a constrained atom: `[C;D3]1[C][C]1` -/
def exRingPattern : QGraph :=
  { atoms := [(1, { kind := .element 6 none, neighbors := [3] }), (2, { kind := .element 6 none }), (3, { kind := .element 6 none })],
    bonds := [(1, 2, ⟨[1], none, none⟩), (2, 3, ⟨[1], none, none⟩), (1, 3, ⟨[1], none, none⟩)] }

/-- bicyclo[1.1.0]butane `C1C2CC12` (two triangles sharing the bond 2–4) -/
def exCage : Mol :=
  let c : Atom := { z := 6 }
  let b : Bond := { order := 1 }
  { atoms := [(1, c), (2, c), (3, c), (4, c)],
    adj := [(1, [(2, b), (4, b)]), (2, [(1, b), (3, b), (4, b)]), (3, [(2, b), (4, b)]), (4, [(3, b), (1, b), (2, b)])] }

def exRings : List (List Nat) := [[1, 2, 4], [2, 3, 4]]

/-- the hypotheses of `pattern_match_is_documented` are satisfiable by a ring-closure pattern on a cage, and the result is not
    trivial: the constrained atom goes onto a bridgehead (atom 2 or 4), 2 bridgeheads × 2 triangles × 2 directions = 8 mappings,
    none of them using the two non-bonded atoms 1 and 3 together -/
example : (qIsoGraph exRingPattern).WF = true ∧ exCage.WF = true ∧
    Iso.checkComponents (molIsoGraph exCage) [[1, 2, 3, 4]] = true ∧ (∀ p ∈ exRingPattern.atoms, QWF p.2) ∧
    (∀ p ∈ exCage.atoms, 1 ≤ p.2.z ∧ p.2.z ≤ 118) ∧
    (patternMapping exRingPattern exCage exRings [[1, 2, 3, 4]]).map
        (fun r => (r.length, r.all fun d => !(d.any (·.2 == 1) && d.any (·.2 == 3)))) = some (8, true) := by
  refine ⟨by decide +kernel, by decide +kernel, by decide +kernel, by decide +kernel, by decide +kernel, by decide +kernel⟩

/-- every atom `buildAtoms` returns was built by `buildAtom`, hence is well-formed -/
theorem buildAtoms_wf : ∀ (ps : List Parsed) (ns : List Nat) (i : Nat) (rad seen : List Nat) (l : List (Nat × QAtom)),
    buildAtoms ps ns i rad seen = .ok l → ∀ p ∈ l, QWF p.2 := by
  intro ps
  induction ps with
  | nil => intro ns i rad seen l h; simp only [buildAtoms] at h; cases h; intro p hp; cases hp
  | cons p ps ih =>
    intro ns i rad seen l h
    cases ns with
    | nil => simp only [buildAtoms] at h; cases h; intro p hp; cases hp
    | cons n ns =>
      rw [buildAtoms] at h
      simp only [bind, Except.bind] at h
      split at h
      · cases h
      · rename_i a ha
        split at h
        · cases h
        · split at h
          · cases h
          · rename_i rest hr
            cases h
            intro q hq
            rcases List.mem_cons.1 hq with rfl | hq
            · exact build_wf p _ a ha
            · exact ih ns (i + 1) rad (n :: seen) rest hr q hq

/-- **smartsFull_atoms_wf**: every atom of a query graph read from SMARTS text (full syntax) is well-formed — the hypothesis `hQ` of
    `pattern_match_is_documented` always holds for what `smarts()` returns -/
theorem smartsFull_atoms_wf (text rad : List Nat) (g : QGraph) (h : smartsFull text rad = .ok g) : ∀ p ∈ g.atoms, QWF p.2 := by
  have hI : smartsFullInner text rad = .ok g := by
    unfold smartsFull at h
    split at h
    · cases h
    · exact h
  unfold smartsFullInner at hI
  repeat' split at hI
  all_goals first | cases hI | skip
  all_goals (dsimp only at hI; repeat' split at hI)
  all_goals cases hI
  all_goals exact buildAtoms_wf _ _ _ _ _ _ (by assumption)

end Pattern

/-! ## 10. the whole input string: white-space split and the CX radical block -/

section Cx
open ChythonModel.Model.C15 ChythonModel.Proofs.C15

/-- **smartsText_reject_kind**: whatever the input string is (any white space, any CX tail), `smarts(data)` returns a query or raises
    `IncorrectSmarts` — nothing else -/
theorem smartsText_reject_kind (data : List Nat) (e : PyErr) (h : smartsText data = .err e) : e = .incorrectSmarts := by
  unfold smartsText at h
  split at h
  · cases h; rfl
  · exact smartsFull_reject_kind _ _ _ h

theorem pySplitAux_noSpace : ∀ (s cur : List Nat), (∀ c ∈ s, pySpace c = false) → cur.reverse ++ s ≠ [] →
    pySplitAux s cur = [cur.reverse ++ s]
  | [], cur, _, hne => by
    have : cur.isEmpty = false := by
      cases cur with
      | nil => simp at hne
      | cons _ _ => rfl
    simp [pySplitAux, this]
  | c :: cs, cur, hs, _ => by
    have hc : pySpace c = false := hs c List.mem_cons_self
    simp only [pySplitAux, hc, Bool.false_eq_true, if_false]
    rw [pySplitAux_noSpace cs (c :: cur) (fun x hx => hs x (List.mem_cons_of_mem _ hx)) (by simp)]
    simp

theorem pySplitAux_upto : ∀ (s cur : List Nat) (sp : Nat) (rest : List Nat), (∀ c ∈ s, pySpace c = false) →
    pySpace sp = true → cur.reverse ++ s ≠ [] →
    pySplitAux (s ++ sp :: rest) cur = (cur.reverse ++ s) :: pySplitAux rest []
  | [], cur, sp, rest, _, hsp, hne => by
    have : cur.isEmpty = false := by
      cases cur with
      | nil => simp at hne
      | cons _ _ => rfl
    simp [pySplitAux, hsp, this]
  | c :: cs, cur, sp, rest, hs, hsp, _ => by
    have hc : pySpace c = false := hs c List.mem_cons_self
    simp only [List.cons_append, pySplitAux, hc, Bool.false_eq_true, if_false]
    rw [pySplitAux_upto cs (c :: cur) sp rest (fun x hx => hs x (List.mem_cons_of_mem _ hx)) hsp (by simp)]
    simp

/-- **smartsText_plain**: a text without white space is read by the full-syntax reader with no radical marks -/
theorem smartsText_plain (s : List Nat) (hne : s ≠ []) (hs : ∀ c ∈ s, pySpace c = false) : smartsText s = smartsFull s [] := by
  unfold smartsText pySplit
  rw [pySplitAux_noSpace s [] hs (by simpa using hne)]
  rfl

/-- the documented CX radical block for the atom indices `i, is…`: `|^1:i,…|` -/
def cxBlock (i : Nat) (is : List Nat) : List Nat :=
  chBar :: (chCaret :: 49 :: chColon :: join chComma ((i :: is).map digits)) ++ [chBar]

theorem isDigit_noSpace (c : Nat) (h : C15.isDigit c = true) : pySpace c = false := by
  simp only [C15.isDigit, Bool.and_eq_true, decide_eq_true_eq] at h
  simp only [pySpace, Bool.or_eq_false_iff, Bool.and_eq_false_iff, decide_eq_false_iff_not, beq_eq_false_iff_ne]
  omega

theorem commaNumStr_noSpace : ∀ (ns : List Nat), ∀ c ∈ commaNumStr ns, pySpace c = false
  | [], c, hc => by simp [commaNumStr] at hc
  | n :: ns, c, hc => by
    simp only [commaNumStr, List.mem_cons, List.mem_append] at hc
    rcases hc with (rfl | hc) | hc
    · decide
    · exact isDigit_noSpace c (digits_all n c hc)
    · exact commaNumStr_noSpace ns c hc

theorem cxBlock_noSpace (i : Nat) (is : List Nat) : ∀ c ∈ cxBlock i is, pySpace c = false := by
  intro c hc
  unfold cxBlock at hc
  rw [join_commaNums_cons] at hc
  simp only [List.cons_append, List.mem_cons, List.mem_append, List.append_assoc, List.not_mem_nil, or_false] at hc
  rcases hc with rfl | rfl | rfl | rfl | hc | hc | rfl
  · decide
  · decide
  · decide
  · decide
  · exact isDigit_noSpace c (digits_all i c hc)
  · exact commaNumStr_noSpace is c hc
  · decide

/-- **smarts_cx_roundtrip**: for every white-space-free pattern text and every list of atom indices (any length, any size), the input
    `pattern |^1:i,j,…|` is read as the pattern with exactly the radical indices `i, j, …` handed to the reader -/
theorem smarts_cx_roundtrip (smr : List Nat) (hne : smr ≠ []) (hs : ∀ c ∈ smr, pySpace c = false) (i : Nat) (is : List Nat) :
    smartsText (smr ++ 32 :: cxBlock i is) = smartsFull smr (i :: is) := by
  unfold smartsText pySplit
  rw [pySplitAux_upto smr [] 32 (cxBlock i is) hs (by decide) (by simpa using hne)]
  rw [pySplitAux_noSpace (cxBlock i is) [] (cxBlock_noSpace i is) (by simp [cxBlock])]
  simp only [List.reverse_nil, List.nil_append]
  have hrad : cxRadicals [cxBlock i is] = i :: is := by
    unfold cxRadicals
    have hh : (cxBlock i is).head? = some 124 := rfl
    have hl : (cxBlock i is).getLast? = some 124 := by
      unfold cxBlock
      have : ∀ (l : List Nat) (x : Nat), (l ++ [x]).getLast? = some x := by
        intro l x; simp
      exact this (chBar :: chCaret :: 49 :: chColon :: join chComma ((i :: is).map digits)) chBar
    simp only [hh, hl, beq_self_eq_true, Bool.and_self, if_true]
    have hlen : (cxBlock i is).length + 1 = ((cxBlock i is).length - 1) + 2 := by
      have : 1 ≤ (cxBlock i is).length := by simp [cxBlock]
      omega
    rw [hlen]
    unfold cxBlock
    exact findRadicals_render i is [chBar] (by intro c hc; cases hc; decide)
      (by intro f; cases f <;> simp [commaNums, chBar, chComma]) (by intro c hc; simp at hc; subst hc; decide) _
  rw [hrad]

/-- the hypotheses are satisfiable and the result is not trivial: `[C][O] |^1:1|` is read with the oxygen, and only it, as a radical -/
example : [91, 67, 93, 91, 79, 93] ++ 32 :: cxBlock 1 [] = [91, 67, 93, 91, 79, 93, 32, 124, 94, 49, 58, 49, 124] ∧
    smartsText ([91, 67, 93, 91, 79, 93] ++ 32 :: cxBlock 1 []) = smartsFull [91, 67, 93, 91, 79, 93] [1] ∧
    ((match smartsFull [91, 67, 93, 91, 79, 93] [1] with
      | .ok g => g.atoms.map (fun p => (p.1, p.2.radical))
      | _ => []) = [(1, false), (2, true)]) := by
  refine ⟨by decide +kernel, smarts_cx_roundtrip [91, 67, 93, 91, 79, 93] (by decide) (by decide) 1 [], by decide +kernel⟩

end Cx
end ChythonModel.Props.C08
