import ChythonModel.Model.C11Sdf
/-!
# C11 — MDL write→read: property theorems (about the model functions the driver runs)
-/
namespace ChythonModel.Props.C11
open ChythonModel.Model.C11 ChythonModel.Gen.Mdl

/-! ## charges: column code and `M  CHG` (tables regenerated from write.py / mol.py) -/

/-- every charge −3…3 survives the atom-line column code -/
theorem charge_code_roundtrip :
    ∀ c ∈ [(-3 : Int), -2, -1, 0, 1, 2, 3], (writeCharge c >>= readCharge) = .ok c := by decide +kernel

/-- a one-atom molecule with the given charge / isotope / radical flag -/
def oneAtom (c : Int) (iso : Nat) (rad : Bool) : WMol :=
  { name := [], atoms := [{ num := 7, sym := ['C'], x := 0, y := 0, charge := c, iso := iso, rad := rad, nbrs := [] }], wedge := [] }

/-- the (charge, isotope, radical) the V2000 reader sees after the V2000 writer wrote them -/
def throughText (c : Int) (iso : Nat) (rad : Bool) : R (List (Int × Option Int × Bool)) := do
  let ls ← writeMol2000 true (oneAtom c iso rad)
  let m ← parseMol2000 ls
  pure (m.atoms.map fun a => (a.charge, a.isotope, a.rad))

/-- all charges −4…4, through the column code **and** the `M  CHG` line (±4 are written as code 0 + `M  CHG`) -/
theorem charge_roundtrip :
    ∀ c ∈ [(-4 : Int), -3, -2, -1, 0, 1, 2, 3, 4], throughText c 0 false = .ok [(c, none, false)] := by
  decide +kernel

/-- `{n:3d}` then `int()` is the identity on 0…999 and the field is exactly 3 wide -/
theorem field3_roundtrip :
    ∀ n ∈ List.range 1000, pyInt? (fmtD 3 (n : Int)) = some (n : Int) ∧ (fmtD 3 (n : Int)).length = 3 := by
  decide +kernel

end ChythonModel.Props.C11
