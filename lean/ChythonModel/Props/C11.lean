import ChythonModel.Proofs.C11Lemmas
import ChythonModel.Proofs.C11Frame
import ChythonModel.Proofs.C11Block
import ChythonModel.Proofs.C11Meta
import ChythonModel.Proofs.C11Record
import ChythonModel.Proofs.C11V3000
import ChythonModel.Proofs.C11RdfFrame
import ChythonModel.Proofs.C11MetaNorm
import ChythonModel.Proofs.C11Continuation
import ChythonModel.Gen.PeriodicTable
import ChythonModel.Spec.MdlOptions
/-!
# C11 — MDL write→read preserves the record: property theorems

Every theorem is about the model functions the driver `Drivers/C11.lean` runs (`fmtD`, `fmtF4`, `pyInt?`, `pyFloat?`,
`writeAtomLine`/`parseAtomLine`, `bondText`/`wedgeText`/`parseBondLine`, `applyCtf`, `writeMol2000`/`parseMol2000`,
`readBlock`, `iterate`, `getItem`, `readMeta`, `rdfReadMeta`, …). The model is tied to the source by the regenerated
tables (`Gen/MdlTables.lean`, `Gen/PeriodicTable.lean`) and by the correspondence streams of `harness/props/c11.py`.

Excluded input classes are explicit hypotheses (`WFAtom`, `WFBlock`, `WFKey`, `WFValueLine`); for each class that the
property text nevertheless covers, the unrestricted statement is kept as a `def … : Prop`, its negation is proved in
`Findings/C11.lean`, and the class is a known finding with a probe on the real code.
-/
namespace ChythonModel.Props.C11
open ChythonModel.Model.C11 ChythonModel.Gen.Mdl ChythonModel.Proofs.C11

/-! ## 1. fixed-width fields -/

/-- `int(f'{n:{w}d}') == n` for every integer and every width (`{:3d}` fields: counts, atom numbers, mapping, isotopes) -/
theorem int_field_roundtrip (w : Nat) (n : Int) : pyInt? (fmtD w n) = some n := pyInt_fmtD w n

/-- `{n:3d}` then `int()` is the identity on 0…999 **and the field is exactly 3 columns wide** (so the fixed column
    slices of the reader hit it); decided over the whole range -/
theorem field3_roundtrip :
    ∀ n ∈ List.range 1000, pyInt? (fmtD 3 (n : Int)) = some (n : Int) ∧ (fmtD 3 (n : Int)).length = 3 := by
  decide +kernel

/-- the same width fact, proved for all `0 ≤ m ≤ 999` (used by the line theorems) -/
theorem field3_width (m : Int) (h0 : 0 ≤ m) (h : m ≤ 999) : (fmtD 3 m).length = 3 := fmtD3_length h0 h

/-- a number ≥ 1000 does **not** fit: the writer must refuse it (it does: `max(g) > 999` raises) -/
theorem field3_overflow : (fmtD 3 1000).length = 4 := by decide

/-- `float(f'{x:{w}.4f}')` is exactly `x` for every coordinate `x = k/10000` -/
theorem coord_field_roundtrip (w : Nat) (k : Int) : pyFloat? (fmtF4 w k) = .ok (Dec.ofTenThousandths k) :=
  pyFloat_fmtF4 w k

/-! ## 2. charges (tables regenerated from write.py / mol.py) -/

/-- every charge −3…3 survives the atom-line column code -/
theorem charge_code_roundtrip :
    ∀ c ∈ [(-3 : Int), -2, -1, 0, 1, 2, 3], (writeCharge c >>= readCharge) = .ok c := by decide +kernel

/-- every written column code is 3 wide and reads back as the charge, except ±4 which read as 0 (repaired by `M  CHG`) -/
theorem charge_code_table : ∀ c ∈ [(-4 : Int), -3, -2, -1, 0, 1, 2, 3, 4],
    ((writeCharge c).map (·.length) = .ok 3 ∧ (writeCharge c >>= readCharge) = .ok (lineCharge c)) := charge_table

/-- a one-atom molecule with the given charge / isotope / radical flag -/
def oneAtom (c : Int) (iso : Nat) (rad : Bool) : WMol :=
  { name := [], atoms := [{ num := 7, sym := ['C'], x := 0, y := 0, charge := c, iso := iso, rad := rad, nbrs := [] }], wedge := [] }

/-- the (charge, isotope, radical) the V2000 reader sees after the V2000 writer wrote them -/
def throughText (c : Int) (iso : Nat) (rad : Bool) : R (List (Int × Option Int × Bool)) := do
  let ls ← writeMol2000 true (oneAtom c iso rad)
  let m ← parseMol2000 ls
  pure (m.atoms.map fun a => (a.charge, a.isotope, a.rad))

/-- all charges −4…4 through the whole block: column code **and** the `M  CHG` line -/
theorem charge_roundtrip :
    ∀ c ∈ [(-4 : Int), -3, -2, -1, 0, 1, 2, 3, 4], throughText c 0 false = .ok [(c, none, false)] := by
  decide +kernel

/-- isotope and radical lines through the whole block (samples of the general `prop_line_roundtrip`) -/
theorem iso_rad_roundtrip :
    ∀ p ∈ [((13 : Nat), true), (2, false), (235, true), (999, false)],
      throughText 0 p.1 p.2 = .ok [(0, some (p.1 : Int), p.2)] := by decide +kernel

/-! ## 3. V2000 lines -/

/-- **atom line**: for every atom that fits its columns, the reader's slices of the written line give back symbol,
    charge code, mapping number and the exact coordinates -/
theorem atomline_roundtrip (mapping : Bool) (a : WAtom) (h : WFAtom a) :
    (writeAtomLine mapping a >>= parseAtomLine) = .ok (expectedAtom mapping a) :=
  ChythonModel.Proofs.C11.atomline_roundtrip mapping a h

/-- the hypotheses are satisfiable by a non-trivial atom -/
example : WFAtom { num := 999, sym := ['C', 'l'], x := -123456, y := 99999999, charge := -3, iso := 37, rad := true, nbrs := [] } :=
  ⟨by decide, by decide, by decide, by decide, by decide, by decide, by decide, by decide, by decide⟩

/-- every element symbol of the regenerated periodic table satisfies the symbol part of `WFAtom`
    (≤ 3 characters, no blanks, not mistaken for the query atoms `A`/`L` or for deuterium `D`) -/
theorem symbols_fit : ∀ r ∈ ChythonModel.Gen.periodicTable,
    r.sym.toList.length ≤ 3 ∧ r.sym.toList ≠ [] ∧ (r.sym.toList.all fun c => !isSpace c) = true ∧
    inAL r.sym.toList = false ∧ r.sym.toList ≠ ['D'] := by decide +kernel

/-- **bond line**: atom positions ≤ 999 and orders 1…8 (incl. aromatic 4 and coordinate 8) come back; no stereo -/
theorem bondline_roundtrip (i j o : Nat) (hi : i ≤ 999) (hj : j ≤ 999) (ho : o ≤ 8) :
    parseBondLine (bondText i j o) = .ok (((i : Int) - 1, (j : Int) - 1, (o : Int)), none) :=
  ChythonModel.Proofs.C11.bondline_roundtrip i j o hi hj ho

/-- **wedge bond line**: additionally the wedge code (1 ↦ +1, 6 ↦ −1) comes back on the same ordered atom pair -/
theorem wedgeline_roundtrip (i j o : Nat) (s : Int) (hi : i ≤ 999) (hj : j ≤ 999) (ho : o ≤ 8) (hs : s = 1 ∨ s = -1) :
    parseBondLine (wedgeText i j o s) =
      .ok (((i : Int) - 1, (j : Int) - 1, (o : Int)), some ((i : Int) - 1, (j : Int) - 1, s)) :=
  ChythonModel.Proofs.C11.wedgeline_roundtrip i j o s hi hj ho hs

/-- bond type 9 (written by other programs) is read as the special order 8 -/
theorem bond_type9_is_8 : parseBondLine (bondText 1 2 9) = .ok ((0, 1, 8), none) := by decide +kernel

/-- **`M  ISO / M  RAD / M  CHG` line** with one entry: sets exactly the field of exactly atom `n` -/
theorem prop_line_roundtrip (kind : Char) (tag : Str) (n : Nat) (v : Int) (atoms : List PAtom)
    (htag : tag.length = 6) (hn1 : 1 ≤ n) (hn : n ≤ atoms.length) (hn9 : n ≤ 999) (hv0 : -99 ≤ v) (hv : v ≤ 999) :
    applyCtf kind (tag ++ sL "  1 " ++ fmtD 3 (n : Int) ++ sL " " ++ fmtD 3 v ++ sL "\n") 1 0 atoms =
      .ok (setAt atoms (n - 1) fun a =>
        if kind == 'C' then { a with charge := v } else if kind == 'I' then { a with isotope := some v }
        else { a with rad := true }) := by
  have hlen : (fmtD 3 v).length = 3 := by
    by_cases h : 0 ≤ v
    · exact fmtD3_length h hv
    · have hm : v ∈ (List.range 99).map (fun (k : Nat) => -((k : Int) + 1)) := by
        simp only [List.mem_map, List.mem_range]
        exact ⟨(-v - 1).toNat, by omega, by omega⟩
      have hall : ∀ u ∈ (List.range 99).map (fun (k : Nat) => -((k : Int) + 1)), (fmtD 3 u).length = 3 := by
        decide +kernel
      exact hall v hm
  exact ctfLine_apply kind tag n v atoms htag hn1 hn hn9 (fmtD 3 v) hlen (pyInt_fmtD 3 v) _ rfl

/-! ## 3b. the whole V2000 MOL block -/

/-- **molblock_roundtrip**: for every molecule the V2000 writer can represent (`WFMol`: every atom fits its columns,
    ≤ 999 atoms/bonds, isotopes ≤ 999, bond orders ≤ 8, wedge signs ±1, counts line consistent), `parse_mol_v2000` of
    the written block is `expectedMol`, a function of the molecule alone: title (stripped), atoms **in order** with
    symbol, charge −4…4 (column code + `M  CHG`), isotope, radical flag, mapping number, exact coordinates; bonds with
    their orders in written order; wedge marks on the same ordered atom pairs. -/
theorem molblock_roundtrip (mapping : Bool) (g : WMol) (h : WFMol g) (ls : List Str)
    (hw : writeMol2000 mapping g = .ok ls) : parseMol2000 ls = .ok (expectedMol mapping g) :=
  ChythonModel.Proofs.C11.molblock_roundtrip mapping g h ls hw

/-- consequence read off `expectedMol`: charges, isotopes, radicals, atom order and mapping numbers are preserved -/
theorem molblock_fields (mapping : Bool) (g : WMol) (h : WFMol g) (ls : List Str) (m : PMol)
    (hw : writeMol2000 mapping g = .ok ls) (hp : parseMol2000 ls = .ok m) :
    m.atoms.map (fun a => (a.element, a.charge, a.rad, a.map)) =
      g.atoms.map (fun a => (a.sym, a.charge, a.rad, if mapping then (a.num : Int) else 0)) ∧
    m.atoms.map (·.isotope) = g.atoms.map (fun a => if a.iso = 0 then none else some (a.iso : Int)) := by
  rw [molblock_roundtrip mapping g h ls hw] at hp
  cases hp
  simp only [expectedMol, List.map_map]
  constructor
  · apply List.map_congr_left
    intro a ha
    have hc := (h.atomsOk a ha).1
    simp only [Function.comp, withProps, expectedAtom, lineCharge]
    by_cases h4 : (a.charge == -4 || a.charge == 4) = true
    · cases hi : (a.iso != 0) <;> cases hr : a.rad <;> simp [h4]
    · have h4' : (a.charge == -4 || a.charge == 4) = false := by simpa using h4
      cases hi : (a.iso != 0) <;> cases hr : a.rad <;> simp [h4']
  · apply List.map_congr_left
    intro a _
    simp only [Function.comp, withProps, expectedAtom]
    by_cases hi : a.iso = 0
    · simp [hi]; split <;> split <;> rfl
    · have : (a.iso != 0) = true := by simpa using hi
      simp [hi, this]; split <;> split <;> rfl

/-- a non-trivial molecule inside `WFMol`: three atoms, charge −4, isotope, radical, a wedge bond, atom numbers out of
    order — the writer succeeds and the hypotheses hold -/
def exampleMol : WMol :=
  { name := sL " my title ",
    atoms := [{ num := 7, sym := sL "N", x := 12500, y := -7145, charge := -4, iso := 15, rad := false, nbrs := [(3, 1), (999, 2)] },
              { num := 3, sym := sL "Cl", x := 0, y := 0, charge := 0, iso := 0, rad := true, nbrs := [(7, 1)] },
              { num := 999, sym := sL "C", x := -99999999, y := 5, charge := 3, iso := 0, rad := false, nbrs := [(7, 2)] }],
    wedge := [(7, 3, -1)] }

example : WFMol exampleMol := wfMol_of_B (by decide +kernel)
example : (writeMol2000 true exampleMol).toBool = true := by decide +kernel

/-- the chunks `writeMol2000` emits are exactly the lines a file reader sees, provided the title has no line break:
    splitting the concatenated text gives the chunk list back -/
theorem written_text_lines (ls : List Str) (h : ∀ l ∈ ls, IsLine l) : splitLinesKeep ls.flatten = ls :=
  splitLinesKeep_flatten ls h

/-! ## 4. record framing (SDF): split ∘ render = id, damage is isolated, index = sequential -/

/-- **frame_roundtrip**: iterating over a file rendered from blocks (each closed by `$$$$`) applies the structure
    reader to exactly those blocks, in order, yields every record it accepts and skips the ones it rejects with a
    `ValueError`/`LookupError`. `WFBlock`: non-empty, no line starts with `$$$$`, fits the read-ahead buffer. -/
theorem frame_roundtrip (rs : Block → R ρ) (bufSize : Nat) (blocks : List (List Str)) (fuel : Nat)
    (hf : blocks.length < fuel) (hwf : ∀ b ∈ blocks, WFBlock bufSize b)
    (hnc : ∀ b ∈ blocks, NoCrash (rs ⟨b, firstMEnd b⟩)) :
    iterate rs bufSize fuel (renderBlocks blocks) = (blocks.filterMap fun b => okPart (rs ⟨b, firstMEnd b⟩), none) :=
  iterate_render rs bufSize blocks fuel hf hwf hnc

/-- **damage_isolated**: replacing one record by arbitrary lines (that contain no `$$$$`-line and are not empty)
    leaves the records read before and after it unchanged -/
theorem damage_isolated (rs : Block → R ρ) (bufSize : Nat) (pre post : List (List Str)) (d : List Str) (fuel : Nat)
    (hf : (pre ++ d :: post).length < fuel) (hwf : ∀ b ∈ pre ++ d :: post, WFBlock bufSize b)
    (hnc : ∀ b ∈ pre ++ d :: post, NoCrash (rs ⟨b, firstMEnd b⟩)) :
    (iterate rs bufSize fuel (renderBlocks (pre ++ d :: post))).1 =
      (pre.filterMap fun b => okPart (rs ⟨b, firstMEnd b⟩)) ++ (okPart (rs ⟨d, firstMEnd d⟩)).toList ++
      (post.filterMap fun b => okPart (rs ⟨b, firstMEnd b⟩)) := by
  rw [iterate_render rs bufSize _ fuel hf hwf hnc]
  simp only [List.filterMap_append, List.filterMap_cons]
  cases okPart (rs ⟨d, firstMEnd d⟩) <;> simp

/-- Full statement of damage isolation without the non-emptiness hypothesis on the damaged record. It is false of the
    code (an empty record makes `_read_block` raise `EOFError`): see `Findings/C11.lean` and the known findings
    `C11/damage/*/empty-record-ends-iteration`. -/
def DamageIsolatedFull : Prop :=
  ∀ (pre post : List (List Str)) (d : List Str), (∀ b ∈ pre ++ post, WFBlock 10000 b) → (∀ l ∈ d, isSep l = false) →
    (iterate (fun b => (pure b : R Block)) 10000 ((pre ++ d :: post).length + 1) (renderBlocks (pre ++ d :: post))).1.length
      ≥ pre.length + post.length

/-- **index_eq_sequential**: `reader[i]` (grep-built index + seek) applies the structure reader to exactly the i-th block
    that sequential reading sees -/
theorem index_eq_sequential (rs : Block → R ρ) (bufSize : Nat) (blocks : List (List Str)) (i : Nat) (b : List Str)
    (hwf : ∀ b ∈ blocks, WFBlock bufSize b) (hi : blocks[i]? = some b) :
    getItem rs bufSize (renderBlocks blocks) i = rs ⟨b, firstMEnd b⟩ :=
  getItem_render rs bufSize blocks i b hwf hi

/-- the framing hypotheses are satisfiable: a two-record file whose second record is damaged -/
example : ∀ b ∈ [[sL "a\n", sL "M  END\n"], [sL "junk $$$$\n"]], WFBlock 10 b := by
  intro b hb
  simp only [List.mem_cons, List.not_mem_nil, or_false] at hb
  rcases hb with h | h <;> subst h <;> exact ⟨by decide, by decide, by decide⟩

/-! ## 5. metadata -/

/-- the regenerated source text of `meta_pattern` is the pattern `matchMeta` transcribes, and `_ctf_data` is the
    mapping `applyCtf` hard-codes (a changed regex / table breaks these, not silently the model) -/
theorem literal_tables_are_modelled :
    metaPattern = metaPatternModelled ∧ ctfData = [("R", "is_radical"), ("C", "charge"), ("I", "isotope")] ∧
    esdfWriteEscape = sdfWriteEscape := by decide +kernel

/-- key escaping (`>` ↦ `&gt;`, `<` ↦ `&lt;` and back, tables regenerated from SDFrw.py): on a key set that exercises
    every rule and their interleavings the written key contains no `<`/`>` and the reader's unescape restores it -/
theorem key_escape_roundtrip :
    ∀ k ∈ ["a>b", "a<b", "<>", "><", ">>x<<", "k", "a > b < c", "x&y", "&", "&g>t;", "<&lt"].map String.toList,
      applyEscapes sdfReadEscape (applyEscapes sdfWriteEscape k) = k ∧
      ((applyEscapes sdfWriteEscape k).all fun c => c != '<' && c != '>') = true := by decide +kernel

/-- Full statement: escaping is invertible for *every* key. False of the code (`&` itself is not escaped): a key
    containing the literal text `&gt;` comes back with `>` — known finding `C11/meta/SDF/key-contains-escape-literal`,
    witness in `Findings/C11.lean`. -/
def KeyEscapeFull : Prop := ∀ k : Str, applyEscapes sdfReadEscape (applyEscapes sdfWriteEscape k) = k

/-- **SDF metadata round trip** (`_partial`: keys without `< > &` — for those see `key_escape_roundtrip`): the blocks
    `SDFWrite.write` emits for an ordered dict with distinct plain keys and normalised multi-line values are read back by
    `SDFRead.read_metadata` as the same ordered dict. `WFValueLine` excludes exactly the recorded classes: blank or
    padded lines (the documented normalisation) and lines shaped like a key line (known finding). -/
theorem sdf_meta_roundtrip_partial (kvs : List (Str × List Str))
    (hwf : ∀ kv ∈ kvs, WFKey kv.1 ∧ (∀ v ∈ kv.2, WFValueLine v) ∧ kv.2 ≠ []) (hnd : (kvs.map (·.1)).Nodup) :
    readMeta (splitLinesKeep ((kvs.map fun kv => writeMetaChunk (kv.1, joinWith ['\n'] kv.2)).flatten)) =
      kvs.map fun kv => (kv.1, joinWith ['\n'] kv.2) :=
  sdf_meta_roundtrip kvs hwf hnd

/-- hypotheses satisfiable: a two-key dict with a three-line value containing `$`, `M  END` and `> <` text -/
example : WFKey (sL "mol weight") ∧ WFValueLine (sL "M  END is fine here") ∧ WFValueLine (sL "x > y and $$ a<b") :=
  ⟨⟨by decide, by decide, by decide⟩, ⟨by decide, by decide, by decide, by decide⟩, ⟨by decide, by decide, by decide, by decide⟩⟩

/-- **RDF metadata round trip**: `$DTYPE k` / `$DATUM v` pairs with multi-line values (continuation lines) are read back
    unchanged. `WFRdfLine` excludes lines that start with `$DTYPE`/`$DATUM` (known findings). Before fix e53cd93 this
    theorem was false (`lstrip("$DATUM")`): witness in `Findings/C11.lean`. -/
theorem rdf_meta_roundtrip (kvs : List (Str × Str × List Str))
    (hwf : ∀ kv ∈ kvs, WFRdfKey kv.1 ∧ (∀ v ∈ kv.2.1 :: kv.2.2, WFRdfLine v)) (hnd : (kvs.map (·.1)).Nodup) :
    rdfReadMeta (splitLinesKeep ((kvs.map fun kv => rdfMetaChunk (kv.1, joinWith ['\n'] (kv.2.1 :: kv.2.2))).flatten)) =
      kvs.map fun kv => (kv.1, joinWith ['\n'] (kv.2.1 :: kv.2.2)) :=
  ChythonModel.Proofs.C11.rdf_meta_roundtrip kvs hwf hnd

/-- the probed witness of the repaired defect is inside the hypotheses: `AT5 MUD`, `TAMU`, `DATA` are legal lines -/
example : WFRdfLine (sL "AT5 MUD") ∧ WFRdfLine (sL "TAMU") ∧ WFRdfLine (sL "DATA $DATUM") :=
  ⟨⟨by decide, by decide, by decide, by decide, by decide⟩, ⟨by decide, by decide, by decide, by decide, by decide⟩,
   ⟨by decide, by decide, by decide, by decide, by decide⟩⟩

/-! ## 6. atom numbers and the whole SDF record -/

/-- `postprocess_parsed_molecule` keeps distinct non-zero mapping numbers exactly: atom order **and numbers** survive -/
theorem mapping_preserved (ms : List Int) (hne : ms ≠ []) (h0 : ∀ m ∈ ms, m ≠ 0) (hnd : ms.Nodup) :
    postprocessMapping ms = .ok ms := ChythonModel.Proofs.C11.mapping_preserved ms hne h0 hnd

/-- duplicated or missing numbers are *not* kept (they are renumbered above the maximum) — the hypothesis is needed -/
theorem mapping_duplicates_renumbered : postprocessMapping [5, 5, 0] = .ok [5, 6, 7] := by decide

/-- **sdf_record_roundtrip** (V2000): take any representable molecule (`WFMol`), distinct non-zero atom numbers, a title
    not starting with `M  END`, and representable metadata. The block consisting of the lines `SDFWrite.write` emits
    (MOL lines, then the `>  <key>` blocks) is cut by the reader at the right `M  END`, dispatched to the V2000 parser,
    and `read_structure` (modelled part: `_read_mol`, `parse_mol_v2000`, `postprocess_parsed_molecule`,
    `read_metadata`) returns the expected molecule, the same atom numbers in the same order, and the same ordered
    metadata. Together with `frame_roundtrip` (which feeds each block of a multi-record file to this function) this is
    the write→read statement for SDF files at the text layer. -/
theorem sdf_record_roundtrip (g : WMol) (h : WFMol g) (kvs : List (Str × List Str))
    (hmeta : ∀ kv ∈ kvs, WFKey kv.1 ∧ (∀ v ∈ kv.2, WFValueLine v) ∧ kv.2 ≠ []) (hnd : (kvs.map (·.1)).Nodup)
    (hname : isMEnd (g.name ++ sL "\n") = false)
    (hnums : (g.atoms.map fun a => (a.num : Int)).Nodup) (hnum0 : ∀ a ∈ g.atoms, a.num ≠ 0)
    (ls : List Str) (hw : writeMol2000 true g = .ok ls) :
    readStructure ⟨ls ++ (kvs.map fun kv => chunkLines kv.1 kv.2).flatten,
                   firstMEnd (ls ++ (kvs.map fun kv => chunkLines kv.1 kv.2).flatten)⟩ =
      .ok { mol := .v2 (expectedMol true g), mapping := g.atoms.map fun a => (a.num : Int),
            md := kvs.map fun kv => (kv.1, joinWith ['\n'] kv.2) } :=
  ChythonModel.Proofs.C11.sdf_record_roundtrip g h kvs hmeta hnd hname hnums hnum0 ls hw

/-- the extra hypotheses hold for the example molecule (numbers 7, 3, 999; title " my title ") -/
example : isMEnd (exampleMol.name ++ sL "\n") = false ∧ (exampleMol.atoms.map fun a => (a.num : Int)).Nodup := by
  decide +kernel

/-- Full statement without the title hypothesis. False of the code: a title that starts with `M  END` is taken for the
    end of the MOL block (known finding `C11/title/SDF/title-starts-with-M-END`). -/
def TitleFull : Prop :=
  ∀ (name : Str), '\n' ∉ name →
    firstMEnd ([name ++ sL "\n", sL "\n", sL "\n", sL "  1  0\n", sL "atom\n", sL "M  END\n"]) = some 6

/-! ## 7. V3000 -/

/-- **v3000_atom_roundtrip**: the atom line `EMOLWrite` writes (`M  V30 n sym x y 0 m [CHG=c] [RAD=2] [MASS=i]`), after
    the reader's `line[7:].strip()`, is tokenised by `emol.split` into exactly the written tokens and parsed to the same
    symbol, charge (any integer), radical flag, isotope, mapping number and exact coordinates. `WFSym3`: the symbol has
    no blank/parenthesis/quote and is not one of the reader's special spellings (`[`…, `NOT`…, `*`, `R#`, `D`). -/
theorem v3000_atom_roundtrip (mapping : Bool) (n : Nat) (a : WAtom) (hs : WFSym3 a.sym) :
    parseAtom3 (strip ((writeAtom3 mapping n a).drop 7)) = .ok (natDigits n, expectedAtom3 mapping a) :=
  ChythonModel.Proofs.C11.v3000_atom_roundtrip mapping n a hs

/-- tokens separated by single blanks are split back into exactly those tokens (the V3000 tokenizer on plain tokens) -/
theorem v3000_split_join (ts : List Str) (h : ∀ t ∈ ts, Plain t) : v3split (joinWith [' '] ts) = ts :=
  v3split_tokens ts h

/-- every element symbol of the regenerated periodic table is a `WFSym3` symbol -/
theorem symbols_fit_v3000 : ∀ r ∈ ChythonModel.Gen.periodicTable,
    r.sym.toList ≠ [] ∧ (r.sym.toList.all fun c => !isSpace c && c != '(' && c != Char.ofNat 34) = true ∧
    startsWith r.sym.toList ['['] = false ∧ startsWith r.sym.toList (sL "NOT") = false ∧
    r.sym.toList ≠ ['*'] ∧ r.sym.toList ≠ sL "R#" ∧ r.sym.toList ≠ ['D'] := by decide +kernel

/-- wedge codes of the V3000 bond line: `CFG=1` ↦ +1, `CFG=3` ↦ −1, on the written ordered pair; order kept;
    a bond without `CFG=` carries no mark (instances through writer and parser) -/
theorem v3000_bond_cfg :
    (writeWedge3 exampleMol.atoms (1, 7, 3, -1) >>= fun l => parseBond3 [sL "1", sL "2", sL "3"] (strip (l.drop 7))) =
      .ok ((0, 1, 1), [(0, 1, -1)]) ∧
    (writeWedge3 exampleMol.atoms (1, 7, 3, 1) >>= fun l => parseBond3 [sL "1", sL "2", sL "3"] (strip (l.drop 7))) =
      .ok ((0, 1, 1), [(0, 1, 1)]) ∧
    (writeBond3 exampleMol.atoms (2, 7, 999, 2) >>= fun l => parseBond3 [sL "1", sL "2", sL "3"] (strip (l.drop 7))) =
      .ok ((0, 2, 2), []) := by decide +kernel

/-! ## 8. RDF record framing -/

/-- **rdf_frame_roundtrip**: a file `head ++ marker₁ body₁ marker₂ body₂ …` (`head` = the `$RDFILE/$DATM` lines or any
    lines that are neither markers nor `$RXN`; every marker starts with `$RFMT`/`$MFMT`; no body line does; bodies are
    non-empty and smaller than the read-ahead buffer) is iterated as exactly the bodies, in order, each with its
    `__m_start` = position of its first `$DTYPE` line; rejected records (`ValueError`/`LookupError`) are skipped, the
    following ones are still read. Replacing one body by arbitrary such lines therefore leaves the others unchanged
    (damage isolation for RDF; the statement quantifies over all bodies). -/
theorem rdf_frame_roundtrip (rs : RBlock → R ρ) (bufSize : Nat) (head : List Str) (m : Str) (b : List Str)
    (rest : List (Str × List Str)) (fuel : Nat) (hf : rest.length + 1 < fuel)
    (hhead : ∀ l ∈ head, isFmt l = false ∧ startsWith l (sL "$RXN") = false) (hm : isFmt m = true)
    (hb : WFRBlock bufSize b) (hfirst : head.length + 1 + b.length < bufSize)
    (hrest : ∀ p ∈ rest, isFmt p.1 = true ∧ WFRBlock bufSize p.2)
    (hnc : NoCrash (rs ⟨b, rdfMStart b⟩)) (hncs : ∀ p ∈ rest, NoCrash (rs ⟨p.2, rdfMStart p.2⟩)) :
    rdfIterate rs bufSize fuel 0 (head ++ rdfTail ((m, b) :: rest)) =
      ((okPart (rs ⟨b, rdfMStart b⟩)).toList ++ rest.filterMap (fun p => okPart (rs ⟨p.2, rdfMStart p.2⟩)), none) :=
  rdfIterate_render rs bufSize head m b rest fuel hf hhead hm hb hfirst hrest hnc hncs

/-- hypotheses satisfiable: header, a molecule record with metadata, a damaged record, a reaction record -/
example : (∀ l ∈ [sL "$RDFILE 1\n", sL "$DATM    01/01/26 00:00\n"], isFmt l = false ∧ startsWith l (sL "$RXN") = false) ∧
    isFmt (sL "$MFMT\n") = true ∧ isFmt (sL "$RFMT\n") = true ∧
    WFRBlock 100 [sL "title\n", sL "M  END\n", sL "$DTYPE k\n", sL "$DATUM v\n"] ∧ WFRBlock 100 [sL "garbage $MFMT\n"] ∧
    rdfMStart [sL "title\n", sL "M  END\n", sL "$DTYPE k\n", sL "$DATUM v\n"] = 2 :=
  ⟨by decide, by decide, by decide, ⟨by decide, by decide, by decide⟩, ⟨by decide, by decide, by decide⟩, by decide⟩

/-! ## 10. data items: read ∘ write = the documented normalisation, on the domain of the CTfile specification
(`Spec/CtfileData.lean`); boundaries do not depend on the data -/
section dataitems
open ChythonModel.Spec.CtfileData

/-- **sdf_meta_normalised_roundtrip**: for every ordered dictionary of (name, value lines) in the liberal domain —
    names without `< > &` and line breaks, not blank (`RawKey`, padding allowed); value lines that are single lines not
    shaped like a data header (`RawLine`; padded, blank and whitespace-only lines allowed, also between text lines);
    names distinct after stripping — what `SDFWrite.write` / `ESDFWrite.write` emit is read by `SDFRead.read_metadata`
    as `normMeta`: names stripped, every line stripped, blank lines dropped, items without text absent, order kept. -/
theorem sdf_meta_normalised_roundtrip (md : Meta)
    (hwf : ∀ kv ∈ md, RawKey kv.1 ∧ (∀ v ∈ kv.2, RawLine v) ∧ kv.2 ≠ [])
    (hnd : (md.map fun kv => strip kv.1).Nodup) :
    readMeta (splitLinesKeep ((md.map fun kv => writeMetaChunk (kv.1, joinWith ['\n'] kv.2)).flatten)) = normMeta md :=
  sdf_meta_norm_roundtrip md hwf hnd

/-- **sdf_meta_spec_roundtrip**: the same on the decidable domain written from the CTfile specification (`sdMetaOk`:
    printable; no data line begins with `>` or `$$$$`; names without angle brackets): read ∘ write = normalise, and no
    written line is taken for the record delimiter -/
theorem sdf_meta_spec_roundtrip (md : Meta) (h : sdMetaOk md = true) :
    readMeta (splitLinesKeep ((md.map fun kv => writeMetaChunk (kv.1, joinWith ['\n'] kv.2)).flatten)) = normMeta md ∧
    ∀ l ∈ (md.map fun kv => chunkLines kv.1 kv.2).flatten, isSep l = false := by
  obtain ⟨h1, h2, h3⟩ := sdMeta_of_spec md h
  refine ⟨sdf_meta_norm_roundtrip md h1 h2, ?_⟩
  intro l hl
  simp only [List.mem_flatten, List.mem_map] at hl
  obtain ⟨ls, ⟨kv, hkv, rfl⟩, hl⟩ := hl
  exact chunkLines_noSep kv.1 kv.2 (h3 kv hkv) l hl

/-- a dictionary in the specification's domain whose normalisation is not the identity: padded name, padded lines, blank
    and whitespace-only lines before, between and after the text, an item without text, `M  END` and `$` inside a value -/
def exampleMeta : Meta :=
  [(sL "  melting point ", [sL "", sL "  120 C ", sL "   ", sL "M  END", sL ""]),
   (sL "empty", [sL " ", sL ""]),
   (sL "cost", [sL "$ 5 > 4 <x>"])]

example : sdMetaOk exampleMeta = true := by decide +kernel
example : normMeta exampleMeta = [(sL "melting point", sL "120 C\nM  END"), (sL "cost", sL "$ 5 > 4 <x>")] := by
  decide +kernel

/-- **sdf_molblock_unaffected_by_data**: the lines `SDFWrite` wrote for a representable molecule, followed by
    *arbitrary* lines `ml` — data items inside or outside every domain, further `M  END` lines, garbage —: `__m_end` is
    the length of the MOL part, `read_structure` parses the same molecule and atom numbers, and `read_metadata` gets
    exactly `ml`. (A reader that takes the *last* `M  END` line breaks this for `ml = [… "M  END\n" …]`.) -/
theorem sdf_molblock_unaffected_by_data (g : WMol) (h : WFMol g) (ml : List Str)
    (hname : isMEnd (g.name ++ sL "\n") = false)
    (hnums : (g.atoms.map fun a => (a.num : Int)).Nodup) (hnum0 : ∀ a ∈ g.atoms, a.num ≠ 0)
    (ls : List Str) (hw : writeMol2000 true g = .ok ls) :
    firstMEnd (ls ++ ml) = some ls.length ∧
    readStructure ⟨ls ++ ml, firstMEnd (ls ++ ml)⟩ =
      .ok { mol := .v2 (expectedMol true g), mapping := g.atoms.map fun a => (a.num : Int), md := readMeta ml } :=
  sdf_record_any_meta g h ml hname hnums hnum0 ls hw

/-- **sdf_mend_first_only**: for *any* block (not only written ones) whose MOL part has its `M  END` at position `k`,
    appending any lines leaves `__m_end = k`; and inside a file the record still ends at its own `$$$$` line when no
    appended line starts with `$$$$` -/
theorem sdf_mend_first_only (bufSize : Nat) (ls ml rest : List Str) (k : Nat) (hm : firstMEnd ls = some k)
    (hwf : WFBlock bufSize (ls ++ ml)) :
    firstMEnd (ls ++ ml) = some k ∧
    readBlock bufSize (ls ++ ml ++ sepLine :: rest) = .ok (⟨ls ++ ml, some k⟩, rest) :=
  ⟨firstMEnd_append ls ml k hm, sdf_block_boundary bufSize ls ml rest k hm hwf⟩

/-- hypotheses satisfiable, with a second `M  END` line among the data -/
example : firstMEnd [sL "t\n", sL "M  END\n"] = some 2 ∧
    WFBlock 100 ([sL "t\n", sL "M  END\n"] ++ [sL ">  <k>\n", sL "M  END\n", sL "\n"]) :=
  ⟨by decide, ⟨by decide, by decide, by decide⟩⟩

/-- **esdf_mend_unaffected_by_data** (V3000 records): for **every** molecule the V3000 writer accepts (no further
    well-formedness needed) whose title does not start with `M  END`, the lines `ESDFWrite.write` emits before the data
    items, followed by arbitrary lines `ml`: `__m_end` is the block's own `M  END` line, `_read_mol` returns exactly the
    written block and `_read_metadata` exactly `ml` -/
theorem esdf_mend_unaffected_by_data (mapping : Bool) (g : WMol) (ls ml : List Str)
    (hw : writeMol3000 mapping g = .ok ls) (hname : isMEnd (g.name ++ sL "\n") = false) :
    let block := v3Header g.name ++ ls ++ sL "M  END\n" :: ml
    firstMEnd block = some ((v3Header g.name ++ ls).length + 1) ∧
    blockMol ⟨block, firstMEnd block⟩ = .ok (v3Header g.name ++ ls ++ [sL "M  END\n"]) ∧
    blockMeta ⟨block, firstMEnd block⟩ = .ok ml := by
  intro block
  have hfm : firstMEnd block = some ((v3Header g.name ++ ls).length + 1) := esdf_mend_any_data mapping g ls ml hw hname
  refine ⟨hfm, ?_, ?_⟩
  · simp only [blockMol, hfm, pure, Except.pure, block]
    congr 1
    rw [show v3Header g.name ++ ls ++ sL "M  END\n" :: ml = (v3Header g.name ++ ls ++ [sL "M  END\n"]) ++ ml by simp]
    rw [List.take_left' (by simp; omega)]
  · simp only [blockMeta, hfm, pure, Except.pure, block]
    congr 1
    rw [show v3Header g.name ++ ls ++ sL "M  END\n" :: ml = (v3Header g.name ++ ls ++ [sL "M  END\n"]) ++ ml by simp]
    rw [List.drop_left' (by simp; omega)]

example : (writeMol3000 true exampleMol).toBool = true := by decide +kernel

/-- **sdf_value_line_sep_cuts_record** (outside the domain, reported as known finding
    `C11/meta/SDF/value-line-starts-with-$$$$`): if a value contains a line `v` starting with `$$$$`, the record the
    reader sees ends right before `v`: MOL lines, the data header and the value lines `pre` before `v`; the lines after `v`
    (rest of the value, the real delimiter, the following records) start the next record. Nothing is raised. -/
theorem sdf_value_line_sep_cuts_record (bufSize : Nat) (ls : List Str) (k : Str) (pre : List Str) (v : Str)
    (after : List Str) (hv : isSep (v ++ ['\n']) = true)
    (hwf : WFBlock bufSize (ls ++ (sL ">  <" ++ k ++ sL ">\n") :: pre.map (· ++ ['\n']))) :
    readBlock bufSize (ls ++ (sL ">  <" ++ k ++ sL ">\n") :: pre.map (· ++ ['\n']) ++ (v ++ ['\n']) :: after) =
      .ok (⟨ls ++ (sL ">  <" ++ k ++ sL ">\n") :: pre.map (· ++ ['\n']),
            firstMEnd (ls ++ (sL ">  <" ++ k ++ sL ">\n") :: pre.map (· ++ ['\n']))⟩, after) :=
  readBlock_cut_at_sep bufSize _ (v ++ ['\n']) after hv hwf

example : isSep (sL "$$$$ not a delimiter" ++ ['\n']) = true ∧
    WFBlock 100 ([sL "t\n", sL "M  END\n"] ++ (sL ">  <" ++ sL "k" ++ sL ">\n") :: [sL "line1"].map (· ++ ['\n'])) :=
  ⟨by decide, ⟨by decide, by decide, by decide⟩⟩

/-- **sdf_record_normalised_roundtrip**: whole SD record on the specification's domain: molecule (`WFMol`), atom numbers
    and the normalised dictionary come back from the lines `SDFWrite.write` emitted -/
theorem sdf_record_normalised_roundtrip (g : WMol) (h : WFMol g) (md : Meta) (hmd : sdMetaOk md = true)
    (hname : isMEnd (g.name ++ sL "\n") = false)
    (hnums : (g.atoms.map fun a => (a.num : Int)).Nodup) (hnum0 : ∀ a ∈ g.atoms, a.num ≠ 0)
    (ls : List Str) (hw : writeMol2000 true g = .ok ls) :
    readStructure ⟨ls ++ (md.map fun kv => chunkLines kv.1 kv.2).flatten,
                   firstMEnd (ls ++ (md.map fun kv => chunkLines kv.1 kv.2).flatten)⟩ =
      .ok { mol := .v2 (expectedMol true g), mapping := g.atoms.map fun a => (a.num : Int), md := normMeta md } := by
  obtain ⟨h1, h2, _⟩ := sdMeta_of_spec md hmd
  rw [(sdf_record_any_meta g h _ hname hnums hnum0 ls hw).2,
    readMeta_rawchunks md (fun kv hkv => ⟨(h1 kv hkv).1, (h1 kv hkv).2.1⟩) h2]

/-- **rdf_meta_normalised_roundtrip**: `$DTYPE name` / `$DATUM first line` + continuation lines, for padded names, padded,
    blank and whitespace-only lines (`RawRdfLine`: continuation lines do not start with `$DTYPE` / `$DATUM`; the first
    line is unrestricted): `RDFRead.read_metadata` returns `normMeta` -/
theorem rdf_meta_normalised_roundtrip (md : List (Str × Str × List Str))
    (hwf : ∀ kv ∈ md, RawRdfKey kv.1 ∧ '\n' ∉ kv.2.1 ∧ (∀ v ∈ kv.2.2, RawRdfLine v))
    (hnd : (md.map fun kv => strip kv.1).Nodup) :
    rdfReadMeta (splitLinesKeep ((md.map fun kv => rdfMetaChunk (kv.1, joinWith ['\n'] (kv.2.1 :: kv.2.2))).flatten)) =
      normMeta (md.map fun kv => (kv.1, kv.2.1 :: kv.2.2)) :=
  rdf_meta_norm_roundtrip md hwf hnd

/-- the same on the decidable domain of the specification (`rdMetaOk`: printable, no line begins with `$`); and no
    written data line is taken for a record marker, so the record still ends where the next `$RFMT`/`$MFMT` begins -/
theorem rdf_meta_spec_roundtrip (md : List (Str × Str × List Str))
    (h : rdMetaOk (md.map fun kv => (kv.1, kv.2.1 :: kv.2.2)) = true) :
    rdfReadMeta (splitLinesKeep ((md.map fun kv => rdfMetaChunk (kv.1, joinWith ['\n'] (kv.2.1 :: kv.2.2))).flatten)) =
      normMeta (md.map fun kv => (kv.1, kv.2.1 :: kv.2.2)) ∧
    ∀ l ∈ (md.map fun kv => rdfChunkLines kv.1 (kv.2.1 :: kv.2.2)).flatten, isFmt l = false := by
  obtain ⟨h1, h2⟩ := rdMeta_of_spec md h
  refine ⟨rdf_meta_norm_roundtrip md h1 h2, ?_⟩
  intro l hl
  simp only [List.mem_flatten, List.mem_map] at hl
  obtain ⟨ls, ⟨kv, hkv, rfl⟩, hl⟩ := hl
  refine rdfChunkLines_noFmt kv.1 kv.2.1 kv.2.2 (fun x hx => ?_) l hl
  unfold rdMetaOk at h
  simp only [Bool.and_eq_true, List.all_eq_true] at h
  have := (h.1 (kv.1, kv.2.1 :: kv.2.2) (List.mem_map_of_mem (f := fun kv => (kv.1, kv.2.1 :: kv.2.2)) hkv)).2 x (by simp [hx])
  unfold rdDataLineOk at this
  simp only [Bool.and_eq_true, Bool.not_eq_true'] at this
  exact this.2

example : rdMetaOk ([(sL " yield ", sL "  ", [sL " 95 % ", sL "", sL "M  END > <"])].map
    fun kv => (kv.1, kv.2.1 :: kv.2.2)) = true := by decide +kernel

/-- **rdf_data_start_unaffected_by_data**: `__m_start` of an RDF record is the number of structure lines — whatever
    lines follow the first `$DTYPE` line — and `read_metadata` gets exactly the lines from there on -/
theorem rdf_data_start_unaffected_by_data (ls : List Str) (d : Str) (ml : List Str) (hne : ls ≠ [])
    (hls : ∀ l ∈ ls, isDtype l = false) (hd : isDtype d = true) :
    rdfMStart (ls ++ d :: ml) = ls.length ∧
      rdfBlockMeta ⟨ls ++ d :: ml, rdfMStart (ls ++ d :: ml)⟩ = d :: ml :=
  rdfMStart_data ls d ml hne hls hd

end dataitems

/-! ## 11. V3000 continuation lines (`-` at the end of a physical line; specification side: `Spec/CtfileData.lean`) -/
section continuation
open ChythonModel.Spec.CtfileData

/-- **v3000_continuation_roundtrip**: for every width `w` (also 0) and every logical line text `body` of any length whose
    last character is neither white space nor a dash, the line-joining loop of `parse_mol_v3000` reads the physical lines
    `splitV30 w body` (each but the last ending in `-`, each starting with `M  V30 `) as the single joined line
    `strip body` — exactly what it makes of the unsplit line — and continues with the following lines unchanged. -/
theorem v3000_continuation_roundtrip (w : Nat) (body : Str) (x : Char) (rest : List Str)
    (hlast : body.getLast? = some x) (hsp : isSpace x = false) (hdash : x ≠ '-') :
    joinLines (splitV30 w body ++ rest) [] = strip body :: joinLines rest [] ∧
    joinLines ((v30 ++ body ++ sL "\n") :: rest) [] = strip body :: joinLines rest [] := by
  refine ⟨joinLines_splitV30 w body x rest hlast hsp hdash, ?_⟩
  have := joinLines_chunks body x rest hlast hsp hdash [] []
  have h0 : lstrip ([] : Str) = [] := rfl
  rw [h0] at this
  simpa [physLines] using this

/-- **v3000_continuation_any_chunking**: the same for *any* way of cutting the text into chunks (other programs break
    lines at token boundaries, not at column 80): chunks `cs`, final chunk `c` ending in a visible non-dash character -/
theorem v3000_continuation_any_chunking (cs : List Str) (c : Str) (x : Char) (rest : List Str)
    (hlast : c.getLast? = some x) (hsp : isSpace x = false) (hdash : x ≠ '-') :
    joinLines (physLines cs c ++ rest) [] = strip (cs.flatten ++ c) :: joinLines rest [] := by
  have := joinLines_chunks c x rest hlast hsp hdash cs []
  have h0 : lstrip ([] : Str) = [] := rfl
  rw [h0] at this
  simpa using this

/-- **v3000_split_fits**: the physical lines of `splitV30 w` are at most `w + 9` characters long including the line end
    (`w = 72`: 80 columns + line end) and carry exactly the text of the logical line -/
theorem v3000_split_fits (w : Nat) (hw : 1 ≤ w) (body : Str) :
    (∀ l ∈ splitV30 w body, l.length ≤ w + 9) ∧
    ((chunks w body.length body).dropLast ++ [(chunks w body.length body).getLast?.getD []]).flatten = body :=
  ⟨splitV30_width w hw body, splitV30_text w body⟩

/-- a 100-character atom line is cut into two physical lines at width 72 and joined back -/
example : (splitV30 72 (sL "1 C 0.0000 0.0000 0 7 CHG=-1 RAD=2 MASS=13 " ++ List.replicate 50 'x')).length = 2 ∧
    joinLines (splitV30 72 (sL "1 C 0.0000 0.0000 0 7 CHG=-1 RAD=2 MASS=13 " ++ List.replicate 50 'x')) [] =
      [sL "1 C 0.0000 0.0000 0 7 CHG=-1 RAD=2 MASS=13 " ++ List.replicate 50 'x'] := by decide +kernel

/-- the hypothesis on the last character is needed: a logical line ending in a dash is taken for a continued line -/
example : joinLines [v30 ++ sL "1 C 0 0 0 0 X=-" ++ sL "\n", v30 ++ sL "2 C 0 0 0 0\n"] [] =
    [sL "1 C 0 0 0 0 X=2 C 0 0 0 0"] := by decide +kernel

end continuation

/-! ## 9. option forwarding (table regenerated by an AST walk over `chython/files/*.py`: `Gen/MdlOptions.lean`;
obligations from the docstrings: `Spec/MdlOptions.lean`) -/
section options
open ChythonModel.Gen.MdlOptions ChythonModel.Spec.MdlOptions

/-- Full statement: every documented option of every reader reaches every call site of the helper family the
    documentation names, in the molecule branch and in the reaction branch alike. False of the code today (known finding
    `C11/options/RDFRead/mol-record/*`): witness in `Findings/C11.lean`. -/
def OptionsReachFull : Prop := allDropped units = []

/-- the promised forwards the source does not make today: the `$MFMT` branch of `RDFRead.read_structure` calls
    `postprocess_parsed_molecule(tmp)` without `remap=` / `ignore=` -/
def knownDropped : List Dropped :=
  [("RDFRead.read_structure", "mol", "postprocess_parsed_molecule", "remap"),
   ("RDFRead.read_structure", "mol", "postprocess_parsed_molecule", "ignore")]

/-- **options_reach_partial**: on the regenerated table every (reader, branch, helper call, documented option) with the
    helper in the option's family has the option as keyword of the same name or as guard — except exactly `knownDropped` -/
theorem options_reach_partial : ∀ d ∈ allDropped units, d ∈ knownDropped := by decide +kernel

/-- **options_parallel_partial**: two call sites of one reader whose helpers belong to the same family (the molecule and
    the reaction branch; the V2000 and the V3000 parser) are reached by the same public options, whatever the options
    are — except the pair involving the known `$MFMT` site -/
theorem options_parallel_partial : ∀ d ∈ parallelDiffs units,
    d.1 = "RDFRead.read_structure" ∧
      (d.2.1 = "postprocess_parsed_molecule@mol" ∨ d.2.2 = "postprocess_parsed_molecule@mol") := by decide +kernel

/-- **readers_complete**: each of the five public readers is in the table, offers the five documented options, and
    every branch it must have builds its record through all three helper families (a deleted call is a missing row) -/
theorem readers_complete : ∀ r ∈ expectedReaders, ∃ u ∈ units, u.unit = r.1 ∧
    (∀ o ∈ documentedOptions, o ∈ u.options) ∧ ∀ b ∈ r.2, branchComplete u b = true := by decide +kernel

/-- every keyword a reader forwards is a keyword of the helper's regenerated signature -/
theorem forwarded_keywords_exist : keywordsExist units calleeKeywords = true := by decide +kernel

/-- the table is not trivially small: 6 units, 26 call sites, and the obligations are not vacuous (a site that lost
    `calc_cis_trans` is reported by `droppedAt`) -/
example : units.length = 6 ∧ (units.map (·.sites.length)).sum = 26 ∧
    droppedAt { file := "", unit := "u", options := ["calc_cis_trans", "ignore_stereo"], sites := [] }
      { branch := "mol", callee := "postprocess_molecule", family := "stereo", line := 0,
        reach := [("ignore_stereo", "ignore_stereo")] } = [("u", "mol", "postprocess_molecule", "calc_cis_trans")] := by
  decide +kernel

end options

end ChythonModel.Props.C11
