import ChythonModel.Proofs.C01Total
import ChythonModel.Proofs.C01Chiral
import ChythonModel.Proofs.C01Check
import ChythonModel.Proofs.C01Rename
import ChythonModel.Proofs.C01ChiralFull
import ChythonModel.Proofs.C01RenameCum
import ChythonModel.Proofs.C01Writer
/-!
# C01 — canonical SMILES, equality and hash depend on structure only

What is proved here (all for the executable model `Model/Morgan.lean` that the driver `drv_c01` runs and that is
compared with the real `Morgan.atoms_order` / `_morgan` / `Element.__hash__` on every run):

* the canonical atom classes (`atoms_order`) are a function of the structure alone — for **every** injective
  renumbering `π`, **every** dict insertion order of atoms, of adjacency rows and of neighbour dicts, and **every**
  tuple-hash function `h` (nothing about CPython's `hash` is used);
* the final numbering is the dense rank of the atom invariants (`ranks_only_values`);
* `Element.__hash__` never feeds `None` to `hash` and `atoms_order` cannot raise on a well-formed graph;
* `==` and `hash` of molecules are `==`/`hash` of the canonical string (shape regenerated from the source).

What is **not** proved: invariance of the *string*. `SmilesInvariant` below is false for the real writer (the two
recorded gaps of the property: stereo labels on centres with constitutionally equivalent substituents, and cage-like
ring systems with ≥ 3 rings and symmetry-equivalent ring atoms) and is not claimed. The conditional
`SmilesInvariantOfDiscrete` needs a Lean model of `Smiles._smiles` (owned by C02, not available); what is
proved without it is `canonical_form_invariant`: the molecule re-keyed by its own ranks is literally the same
dict-of-dicts in both descriptions (and a genuine dict when the refinement separates all atoms), so *any* writer that
is a function of the rank-keyed graph (up to dict order) produces identical output
(`smiles_invariant_of_discrete_partial`). The string itself is validated relationally on
the real code (harness/props/c01.py, stream R).
-/
namespace ChythonModel.Props.C01
open ChythonModel.Model ChythonModel.Model.Morgan ChythonModel.Spec.Renumbering ChythonModel.Gen.C01
open ChythonModel.Proofs.C01

/-- two descriptions of one structure: atoms renamed by `π`, every dict in any insertion order -/
def MolEq (π : Nat → Nat) (m m' : MolView) : Prop := DictEq π m.atoms m'.atoms ∧ AdjEq π m.bonds m'.bonds

/-- the `Graph` invariant as far as `atoms_order` needs it: dict keys are unique -/
def KeysOK (m : MolView) : Prop := (keys m.atoms).Nodup ∧ (keys m.bonds).Nodup

/-! ## the refinement step -/

/-- **morganStep_equivariant** (part 1): the new invariant of atom `n` is *the same integer* in both descriptions,
    for every hash function. -/
theorem newWeight_invariant (h : TupleHash) {π : Nat → Nat} (hπ : Function.Injective π) {w w' : Weights}
    (hw : (keys w).Nodup) (hww : DictEq π w w') (n : Nat) {ms ms' : List (Nat × Int)} (hms : DictEq π ms ms') :
    newWeight h w' (π n) ms' = newWeight h w n ms :=
  newWeight_equiv h hπ hw hww n hms

/-- **morganStep_equivariant**: one round of `_morgan` commutes with renumbering and is blind to insertion order
    (including the KeyError outcome), for every hash function. -/
theorem morganStep_equivariant (h : TupleHash) {π : Nat → Nat} (hπ : Function.Injective π) {w w' : Weights}
    (hw : (keys w).Nodup) (hww : DictEq π w w') {b b' : IntAdj} (hb : AdjEq π b b') :
    OptRel (DictEq π) (step h w b) (step h w' b') :=
  step_equiv h hπ hw hww hb

/-- the `for` loop with its three exits (all unique / unchanged `stab` times / tries exhausted) commutes with
    renumbering: the exits depend only on the *number of distinct invariants*. -/
theorem morganLoop_equivariant (h : TupleHash) {π : Nat → Nat} (hπ : Function.Injective π) {b b' : IntAdj}
    (hbk : (keys b).Nodup) (hb : AdjEq π b b') (k : Nat) {w w' : Weights} (hw : (keys w).Nodup)
    (hww : DictEq π w w') (numb stab : Nat) :
    OptRel (DictEq π) (loop h b k w numb stab) (loop h b' k w' numb stab) :=
  loop_equiv h hπ hbk hb k hw hww numb stab

/-! ## the final numbering -/

/-- **ranks_only_values**: `sorted + groupby + enumerate` gives atom `n` the number
    `start + |{distinct invariants < invariant(n)}|` — a function of the multiset of invariants only. -/
theorem ranks_only_values (w : Weights) :
    ranks w = (sortBy byValue w).map fun x =>
      (x.1, morganRankStart + numDistinct ((values w).filter (fun y => decide (y < x.2)))) :=
  ranks_eq w

theorem ranks_equivariant {π : Nat → Nat} {w w' : Weights} (hww : DictEq π w w') :
    DictEq π (ranks w) (ranks w') :=
  ranks_equiv hww

/-- equal invariants get equal numbers, smaller invariants smaller numbers (dense ranking is monotone) -/
theorem ranks_monotone (w : Weights) (n m : Nat) (vn vm : Int) (rn rm : Nat)
    (hn : (n, vn) ∈ w) (hm : (m, vm) ∈ w) (hk : (keys w).Nodup)
    (hrn : (ranks w).lookup n = some rn) (hrm : (ranks w).lookup m = some rm) :
    (vn = vm → rn = rm) ∧ (vn < vm → rn < rm) := by
  have key : ∀ (k : Nat) (v : Int) (r : Nat), (k, v) ∈ w → (ranks w).lookup k = some r →
      r = morganRankStart + numDistinct ((values w).filter (fun y => decide (y < v))) := by
    intro k v r hkv hr
    have hnd : (keys (ranks w)).Nodup := (ranks_keys w).nodup_iff.mpr hk
    have hmem := (lookup_eq_some_iff hnd k r).mp hr
    rw [ranks_eq] at hmem
    obtain ⟨x, hx, hxe⟩ := List.mem_map.mp hmem
    have hxw : x ∈ w := (sortBy_perm w byValue).mem_iff.mp hx
    obtain ⟨x1, x2⟩ := x
    simp only [Prod.mk.injEq] at hxe
    obtain ⟨h1, h2⟩ := hxe
    subst h1
    have : x2 = v := by
      have a := (lookup_eq_some_iff hk x1 x2).mpr hxw
      have b := (lookup_eq_some_iff hk x1 v).mpr hkv
      rw [a] at b; exact Option.some.inj b
    subst this
    exact h2.symm
  have en := key n vn rn hn hrn
  have em := key m vm rm hm hrm
  constructor
  · intro hv; subst hv; rw [en, em]
  · intro hlt
    rw [en, em]
    -- the distinct values below vm strictly contain those below vn, plus vn itself
    have hsub : numDistinct ((values w).filter (fun y => decide (y < vn))) <
        numDistinct ((values w).filter (fun y => decide (y < vm))) :=
      numDistinct_filter_lt (values w) vn vm hlt (by
        unfold values; exact List.mem_map.mpr ⟨(n, vn), hn, rfl⟩)
    omega

/-! ## `_morgan` and `atoms_order` -/

/-- **morgan_equivariant**: `_morgan(π·atoms, π·bonds) = π·_morgan(atoms, bonds)` as dicts (insertion order forgotten),
    exceptions included, for every hash function. -/
theorem morgan_equivariant (h : TupleHash) {π : Nat → Nat} (hπ : Function.Injective π) {w w' : Weights} {b b' : IntAdj}
    (hw : (keys w).Nodup) (hbk : (keys b).Nodup) (hww : DictEq π w w') (hb : AdjEq π b b') :
    OptRel (DictEq π) (morgan h w b) (morgan h w' b') :=
  morgan_equiv h hπ hw hbk hww hb

/-- **atoms_order is a function of the structure**: for two descriptions `m`, `m'` of one structure,
    `m'.atoms_order = π · m.atoms_order` as dicts, including the 0- and 1-atom shortcuts and the error outcome. -/
theorem atoms_order_equivariant (h : TupleHash) {π : Nat → Nat} (hπ : Function.Injective π) {m m' : MolView}
    (hk : KeysOK m) (hmm : MolEq π m m') :
    OptRel (DictEq π) (atomsOrder h m) (atomsOrder h m') := by
  obtain ⟨ha, hb⟩ := hmm
  obtain ⟨hka, hkb⟩ := hk
  unfold atomsOrder
  have hlen := DictEq.length ha
  match hm : m.atoms, hm' : m'.atoms with
  | [], [] => exact .some (List.Perm.refl _)
  | [], _ :: _ => simp [hm, hm'] at hlen
  | _ :: _, [] => simp [hm, hm'] at hlen
  | [(n, a)], [(n', a')] =>
    rw [hm, hm'] at ha
    have := List.perm_singleton.mp ha
    simp only [List.cons.injEq, Prod.mk.injEq, and_true] at this
    rw [this.1]
    exact .some (List.Perm.refl _)
  | [_], _ :: _ :: _ => simp [hm, hm'] at hlen
  | _ :: _ :: _, [_] => simp [hm, hm'] at hlen
  | x :: y :: tl, x' :: y' :: tl' =>
    simp only []
    rw [← hm, ← hm']
    have hi := initWeights_equiv h ha
    revert hi
    cases hw : initWeights h m.atoms <;> cases hw' : initWeights h m'.atoms <;> intro hi <;> cases hi
    · exact .none
    · rename_i w w' hww
      have hkw : (keys w).Nodup := by rw [initWeights_keys h hw]; exact hka
      exact morgan_equiv h hπ hkw (by rw [intAdjacency_keys]; exact hkb) hww (intAdjacency_equiv hb)

/-- **insertion-order independence**, map form: with the same numbering (`π = id`), the class of every atom is the
    same whatever the insertion order of atoms, adjacency rows and neighbour dicts. -/
theorem atoms_order_insertion_order_independent (h : TupleHash) {m m' : MolView} (hk : KeysOK m)
    (hmm : MolEq id m m') {r r' : List (Nat × Nat)} (hr : atomsOrder h m = some r) (hr' : atomsOrder h m' = some r') :
    ∀ n, r'.lookup n = r.lookup n := by
  have he := atoms_order_equivariant h (π := id) (fun _ _ h => h) hk hmm
  rw [hr, hr'] at he
  cases he with
  | some hp =>
    intro n
    have hid : mapKeys id r = r := by simp [mapKeys]
    unfold DictEq at hp
    rw [hid] at hp
    have hnd : (keys r).Nodup := atomsOrder_keys_nodup' h hk.1 hk.2 hr
    exact lookup_perm hnd hp n

/-- renumbering, map form: atom `π n` of the renumbered description is in the class of atom `n`. -/
theorem atoms_order_renumbering (h : TupleHash) {π : Nat → Nat} (hπ : Function.Injective π) {m m' : MolView}
    (hk : KeysOK m) (hmm : MolEq π m m') {r r' : List (Nat × Nat)}
    (hr : atomsOrder h m = some r) (hr' : atomsOrder h m' = some r') :
    ∀ n, r'.lookup (π n) = r.lookup n := by
  have he := atoms_order_equivariant h hπ hk hmm
  rw [hr, hr'] at he
  cases he with
  | some hp =>
    intro n
    exact lookup_dictEq hπ (atomsOrder_keys_nodup' h hk.1 hk.2 hr) hp n

/-- **automorphic atoms are in one class**: if `π` is a symmetry of the molecule (the molecule described in `π`-renamed
    numbers is the same molecule up to dict order), atom `π n` has the rank of atom `n`. So the classes of
    `atoms_order` are unions of orbits of the automorphism group — never finer than the true symmetry. -/
theorem automorphic_atoms_same_class (h : TupleHash) {π : Nat → Nat} (hπ : Function.Injective π) {m : MolView}
    (hk : KeysOK m) (hauto : MolEq π m m) {r : List (Nat × Nat)} (hr : atomsOrder h m = some r) :
    ∀ n, r.lookup (π n) = r.lookup n :=
  atoms_order_renumbering h hπ hk hauto hr hr

/-- an exception in one description is an exception in the other -/
theorem atoms_order_error_equivariant (h : TupleHash) {π : Nat → Nat} (hπ : Function.Injective π) {m m' : MolView}
    (hk : KeysOK m) (hmm : MolEq π m m') : atomsOrder h m = none ↔ atomsOrder h m' = none := by
  have he := atoms_order_equivariant h hπ hk hmm
  constructor
  · intro hn
    rw [hn] at he
    generalize atomsOrder h m' = y at he
    cases he; rfl
  · intro hn
    rw [hn] at he
    generalize atomsOrder h m = y at he
    cases he; rfl

/-! ## `_chiral_morgan` (the weights of the writer) -/

open ChythonModel.Model.ChiralMorgan in
/-- lift of `OptRel (DictEq π)` to the outcomes of the `_chiral_morgan` model -/
inductive ChiralRel (π : Nat → Nat) : Outcome → Outcome → Prop
  | ranks {r r'} : DictEq π r r' → ChiralRel π (.ranks r) (.ranks r')
  | keyError : ChiralRel π (.err .keyError) (.err .keyError)

open ChythonModel.Model.ChiralMorgan in
/-- for molecules without stereo labels `_chiral_morgan` *is* `atoms_order` … -/
theorem chiral_morgan_of_no_labels (h : TupleHash) (single : Nat → Bool) (m : MolView)
    (hb : stereoBondAtoms m.bonds = []) :
    chiralMorgan h single m [] = match atomsOrder h m with | some r => .ranks r | none => .err .keyError := by
  simp only [chiralMorgan, hb, List.isEmpty_nil, Bool.and_self, if_true]
  cases atomsOrder h m <;> rfl

open ChythonModel.Model.ChiralMorgan in
/-- … hence the writer's weights (`_smiles_order`) of two label-free descriptions of one structure agree up to `π`. -/
theorem chiral_morgan_equivariant_of_no_labels (h : TupleHash) (single : Nat → Bool) {π : Nat → Nat}
    (hπ : Function.Injective π) {m m' : MolView} (hk : KeysOK m) (hmm : MolEq π m m')
    (hb : stereoBondAtoms m.bonds = []) (hb' : stereoBondAtoms m'.bonds = []) :
    ChiralRel π (chiralMorgan h single m []) (chiralMorgan h single m' []) := by
  rw [chiral_morgan_of_no_labels h single m hb, chiral_morgan_of_no_labels h single m' hb']
  have he := atoms_order_equivariant h hπ hk hmm
  revert he
  cases atomsOrder h m <;> cases atomsOrder h m' <;> intro he <;> cases he
  · exact .keyError
  · rename_i hrr; exact .ranks hrr

open ChythonModel.Model.ChiralMorgan in
/-- labelled double bonds are outside this model (the driver answers `notmodelled`; validated relationally) -/
theorem chiral_morgan_bond_labels_not_modelled (h : TupleHash) (single : Nat → Bool) (m : MolView)
    (labels : List (Nat × Bool)) (hb : stereoBondAtoms m.bonds ≠ []) :
    chiralMorgan h single m labels = .notModelled := by
  have : (stereoBondAtoms m.bonds).isEmpty = false := by
    cases hs : stereoBondAtoms m.bonds with
    | nil => exact absurd hs hb
    | cons _ _ => rfl
  simp [chiralMorgan, this]

open ChythonModel.Model.ChiralMorgan in
/-- the `while True` loop of `__differentiation` terminates within the fuel the model gives it
    (every pass that changes `morgan` removes an atom from `atoms_stereo`): `fuelOut` is never returned. -/
theorem chiral_morgan_fuel_suffices (h : TupleHash) (single : Nat → Bool) (m : MolView) (labels : List (Nat × Bool)) :
    chiralMorgan h single m labels ≠ .fuelOut :=
  chiralMorgan_fuel h single m labels

open ChythonModel.Model.ChiralMorgan in
/-- the labelled atoms are tetrahedral carbons, no bond carries a label, and **no two labelled centres are in the same
    `atoms_order` class** (`r0`): the situation of almost every stereo molecule of the corpus -/
def InequivalentCentres (h : TupleHash) (single : Nat → Bool) (m : MolView) (labels : List (Nat × Bool))
    (r0 : List (Nat × Nat)) : Prop :=
  stereoBondAtoms m.bonds = [] ∧ labels ≠ [] ∧ atomsOrder h m = some r0 ∧
  ∃ tet tetra, tetrahedrons m = .ok tet ∧ stereogenicTetrahedrons single m = .ok tetra ∧
    (∀ n ∈ labels.map (·.1), n ∈ tet) ∧
    ∃ val : Nat → Nat, (∀ n ∈ labels.map (·.1), r0.lookup n = some (val n)) ∧ ((labels.map (·.1)).map val).Nodup

open ChythonModel.Model.ChiralMorgan in
/-- **stereo labels on pairwise inequivalent centres do not change the classes**: `__differentiation` finds only
    groups of size one, updates nothing, and `_chiral_morgan` returns `atoms_order` — whatever the signs of the labels. -/
theorem chiral_morgan_is_atoms_order_of_inequivalent_centres (h : TupleHash) (single : Nat → Bool) (m : MolView)
    (labels : List (Nat × Bool)) (r0 : List (Nat × Nat)) (hic : InequivalentCentres h single m labels r0) :
    chiralMorgan h single m labels = .ranks r0 := by
  obtain ⟨hb, hl, hr, tet, tetra, ht, hst, hin, val, hval, hd⟩ := hic
  exact chiralMorgan_distinct h single m labels r0 tet tetra hb hl hr ht hst hin val hval hd

open ChythonModel.Model.ChiralMorgan in
/-- … hence for such molecules the writer's weights are a function of the structure alone: any renumbering, any
    insertion order, **any re-expression of the label signs** (they are stored relative to insertion order). -/
theorem chiral_morgan_equivariant_of_inequivalent_centres (h : TupleHash) (single : Nat → Bool) {π : Nat → Nat}
    (hπ : Function.Injective π) {m m' : MolView} (hk : KeysOK m) (hmm : MolEq π m m')
    {labels labels' : List (Nat × Bool)} {r0 r0' : List (Nat × Nat)}
    (hic : InequivalentCentres h single m labels r0) (hic' : InequivalentCentres h single m' labels' r0') :
    ChiralRel π (chiralMorgan h single m labels) (chiralMorgan h single m' labels') := by
  rw [chiral_morgan_is_atoms_order_of_inequivalent_centres h single m labels r0 hic,
      chiral_morgan_is_atoms_order_of_inequivalent_centres h single m' labels' r0' hic']
  have he := atoms_order_equivariant h hπ hk hmm
  rw [hic.2.2.1, hic'.2.2.1] at he
  cases he with
  | some hrr => exact .ranks hrr

open ChythonModel.Model.ChiralMorgan in
/-- **the stereo-aware classes never depend on the atom numbers** — including the R/S-pair branch of `__differentiation`
    for equivalent centres: renaming every atom by an injective `π` (insertion orders and stored label signs kept, which is
    what `Graph.remap` does) renames the result, as the *same dict* (equal lists, order included), for every hash function. -/
theorem chiral_morgan_renaming_equivariant (h : TupleHash) (single : Nat → Bool) {π : Nat → Nat}
    (hπ : Function.Injective π) (m : MolView) (labels : List (Nat × Bool)) :
    chiralMorgan h single (renMol π m) (mapKeys π labels) = renOutcome π (chiralMorgan h single m labels) :=
  chiralMorgan_rename h single hπ m labels

/-- the same for `atoms_order`, as exact dicts (the permutation-level statement is `atoms_order_equivariant`) -/
theorem atoms_order_renaming_exact (h : TupleHash) {π : Nat → Nat} (hπ : Function.Injective π) (m : MolView) :
    atomsOrder h (renMol π m) = (atomsOrder h m).map (mapKeys π) :=
  atomsOrder_rename h hπ m

/-! ## `_chiral_morgan` with tetrahedral, cis/trans **and** allene labels (`Model/C01Chiral.lean`; driver ops `cfull`, `cumul`) -/

open ChythonModel.Model.ChiralFull in
/-- the two nested loops of `MoleculeStereo.cumulenes` (`while terminals`, `while m not in terminals`) end within the fuel
    the model gives them (every inner step empties one `adj` set, every outer step removes a terminal) -/
theorem cumulenes_fuel_suffices (dbl : Nat → Bool) (mol : MolView) : cumulenes dbl mol ≠ .error .fuelOut :=
  cumulenes_fuel dbl mol

open ChythonModel.Model.ChiralMorgan ChythonModel.Model.ChiralFull in
/-- the `while True` loop of `__differentiation` with all three blocks ends within the fuel given: a pass that changes
    `morgan` discards a member of `atoms_stereo`, `cis_trans_stereo` or `allenes_stereo`; `fuelOut` is never the answer -/
theorem chiral_full_fuel_suffices (h : TupleHash) (single dbl : Nat → Bool) (mol : MolView) (labels : List (Nat × Bool)) :
    chiralFull h single dbl mol labels ≠ .fuelOut :=
  chiralFull_fuel h single dbl mol labels

open ChythonModel.Model.ChiralMorgan ChythonModel.Model.ChiralFull in
/-- the full model **extends** the tetrahedral-only model: wherever `chiralMorgan` answers (anything but `notModelled`),
    `chiralFull` gives the same answer — so every theorem about `chiralMorgan` above is a theorem about the function the
    driver runs for `cfull`. (Hypothesis `hT`: the double-bond tables of the molecule can be computed; the old model never
    looks at them, the code and the full model do.) -/
theorem chiral_full_extends_tetrahedral (h : TupleHash) (single dbl : Nat → Bool) (mol : MolView)
    (labels : List (Nat × Bool)) (T : Tables) (terminals : List (Nat × (Nat × Nat)))
    (hT : tablesOf single dbl mol labels = .ok (T, terminals))
    (hm : chiralMorgan h single mol labels ≠ .notModelled) :
    chiralFull h single dbl mol labels = chiralMorgan h single mol labels :=
  chiralFull_extends h single dbl mol labels T terminals hT hm

open ChythonModel.Model.ChiralMorgan ChythonModel.Model.ChiralFull ChythonModel.Model.Stereo in
/-- **no two labelled stereo elements of one kind share a grouping key** of the first pass of `__differentiation` over
    `atoms_order` (`r0`): the labelled tetrahedral atoms have pairwise different classes, the labelled double bonds
    pairwise different `min(morgan[n], morgan[m])` of their terminals, the labelled allene centres pairwise different
    classes — and all the lookups of `_chiral_morgan` before the loop succeed -/
def InequivalentElements (h : TupleHash) (single dbl : Nat → Bool) (mol : MolView) (labels : List (Nat × Bool))
    (r0 : List (Nat × Nat)) : Prop :=
  atomsOrder h mol = some r0 ∧
  ∃ (tet : List Nat) (T : Tables) (terminals : List (Nat × (Nat × Nat))) (pairs : List (Nat × Nat))
    (keyedT : List (Nat × Int)) (keyedC : List (CTItem × Int)) (keyedA : List (Nat × Int)),
    tetrahedrons mol = .ok tet ∧ tablesOf single dbl mol labels = .ok (T, terminals) ∧
    exMapM (getKey terminals) (stereoBondAtoms mol.bonds) = .ok pairs ∧
    exMapM (keyOf (toWeights r0)) ((labels.map (·.1)).filter tet.contains) = .ok keyedT ∧ (keyedT.map (·.2)).Nodup ∧
    exMapM (ctKey (toWeights r0)) (dedupPairs pairs) = .ok keyedC ∧ (keyedC.map (·.2)).Nodup ∧
    exMapM (keyOf (toWeights r0)) ((labels.map (·.1)).filter fun n => !tet.contains n) = .ok keyedA ∧
    (keyedA.map (·.2)).Nodup

open ChythonModel.Model.ChiralMorgan ChythonModel.Model.ChiralFull in
/-- **labels on pairwise inequivalent stereo elements of any kind do not change the classes**: all groups of the three
    blocks are singletons, nothing is updated, `_chiral_morgan = atoms_order` — whatever the signs of the labels -/
theorem chiral_full_is_atoms_order_of_inequivalent_elements (h : TupleHash) (single dbl : Nat → Bool) (mol : MolView)
    (labels : List (Nat × Bool)) (r0 : List (Nat × Nat)) (hie : InequivalentElements h single dbl mol labels r0) :
    chiralFull h single dbl mol labels = .ranks r0 := by
  obtain ⟨hr, tet, T, terminals, pairs, kT, kC, kA, ht, hT, hp, hkt, hdt, hkc, hdc, hka, hda⟩ := hie
  exact chiralFull_distinct h single dbl mol labels r0 tet T terminals pairs kT kC kA hr ht hT hp hkt hdt hkc hdc hka hda

open ChythonModel.Model.ChiralMorgan ChythonModel.Model.ChiralFull in
/-- … hence for such molecules (tetrahedral, cis/trans and allene labels alike) the writer's weights are a function of the
    structure alone: **any injective renumbering `π`, any insertion order of atoms, rows and neighbours, any hash function,
    any re-expression of the stored label signs** (they are relative to insertion order). -/
theorem chiral_full_invariant_of_inequivalent_elements (h : TupleHash) (single dbl : Nat → Bool) {π : Nat → Nat}
    (hπ : Function.Injective π) {m m' : MolView} (hk : KeysOK m) (hmm : MolEq π m m')
    {labels labels' : List (Nat × Bool)} {r0 r0' : List (Nat × Nat)}
    (hie : InequivalentElements h single dbl m labels r0) (hie' : InequivalentElements h single dbl m' labels' r0') :
    ChiralRel π (chiralFull h single dbl m labels) (chiralFull h single dbl m' labels') := by
  rw [chiral_full_is_atoms_order_of_inequivalent_elements h single dbl m labels r0 hie,
      chiral_full_is_atoms_order_of_inequivalent_elements h single dbl m' labels' r0' hie']
  have he := atoms_order_equivariant h hπ hk hmm
  rw [hie.1, hie'.1] at he
  cases he with
  | some hrr => exact .ranks hrr

open ChythonModel.Model.ChiralMorgan ChythonModel.Model.ChiralFull ChythonModel.Model.Stereo in
/-- every group of labelled stereo elements that share a grouping key has an ODD number of members (in particular: one) -/
def OddGroupsOnly (h : TupleHash) (single dbl : Nat → Bool) (mol : MolView) (labels : List (Nat × Bool))
    (r0 : List (Nat × Nat)) : Prop :=
  atomsOrder h mol = some r0 ∧
  ∃ (tet : List Nat) (T : Tables) (terminals : List (Nat × (Nat × Nat))) (pairs : List (Nat × Nat))
    (keyedT : List (Nat × Int)) (keyedC : List (CTItem × Int)) (keyedA : List (Nat × Int)),
    tetrahedrons mol = .ok tet ∧ tablesOf single dbl mol labels = .ok (T, terminals) ∧
    exMapM (getKey terminals) (stereoBondAtoms mol.bonds) = .ok pairs ∧
    exMapM (keyOf (toWeights r0)) ((labels.map (·.1)).filter tet.contains) = .ok keyedT ∧
    (∀ g ∈ groupsBy keyedT, g.length % 2 = 1) ∧
    exMapM (ctKey (toWeights r0)) (dedupPairs pairs) = .ok keyedC ∧ (∀ g ∈ groupsBy keyedC, g.length % 2 = 1) ∧
    exMapM (keyOf (toWeights r0)) ((labels.map (·.1)).filter fun n => !tet.contains n) = .ok keyedA ∧
    (∀ g ∈ groupsBy keyedA, g.length % 2 = 1)

open ChythonModel.Model.ChiralMorgan ChythonModel.Model.ChiralFull in
/-- **root cause of known finding 3, for every molecule**: `__differentiation` only looks at groups of even size, so when the
    equivalent labelled elements of a molecule come in odd numbers (1, 3, 5, …) their configurations — R,R,S or E,E,Z included
    — never change the classes: `_chiral_morgan = atoms_order`, the stereo-blind classes. (For 1 this is what one wants; for
    3, 5, … it leaves distinguishable atoms in one class and the writer breaks the tie by atom number: the known finding.) -/
theorem chiral_full_ignores_odd_groups (h : TupleHash) (single dbl : Nat → Bool) (mol : MolView)
    (labels : List (Nat × Bool)) (r0 : List (Nat × Nat)) (hog : OddGroupsOnly h single dbl mol labels r0) :
    chiralFull h single dbl mol labels = .ranks r0 := by
  obtain ⟨hr, tet, T, terminals, pairs, kT, kC, kA, ht, hT, hp, hkt, hdt, hkc, hdc, hka, hda⟩ := hog
  exact chiralFull_odd h single dbl mol labels r0 tet T terminals pairs kT kC kA hr ht hT hp hkt hdt hkc hdc hka hda

open ChythonModel.Model.ChiralFull in
/-- **`MoleculeStereo.cumulenes` never depends on the atom numbers**: renaming every atom by an injective `π` (insertion
    orders kept) renames every chain, same chains in the same order — through the mutable `adj` / `terminals` walk, its
    `break` branch and every error outcome -/
theorem cumulenes_renaming_equivariant (dbl : Nat → Bool) {π : Nat → Nat} (hπ : Function.Injective π) (mol : MolView) :
    cumulenes dbl (renMol π mol) = (cumulenes dbl mol).map (List.map (List.map π)) :=
  cumulenes_rename dbl hπ mol

open ChythonModel.Model.ChiralMorgan ChythonModel.Model.ChiralFull in
/-- **the stereo-aware classes with tetrahedral, cis/trans and allene labels never depend on the atom numbers** — including
    the R/S-pair updates of all three blocks for equivalent elements, the `min(…, key=morgan.get)` choices, the
    `mn <= mm` choice of the terminal, every `KeyError` and every `notModelled` answer: renaming every atom by an injective
    `π` (insertion orders and stored label signs kept, which is what `Graph.remap` does) renames the result as the *same
    dict* (equal lists, order included), for every hash function (exact naturality of every function of
    `Model/C01Chiral.lean`: `Proofs/C01RenameDiff.lean`, `Proofs/C01RenameCum.lean`). -/
theorem chiral_full_renaming_equivariant (h : TupleHash) (single dbl : Nat → Bool) {π : Nat → Nat}
    (hπ : Function.Injective π) (mol : MolView) (labels : List (Nat × Bool)) :
    chiralFull h single dbl (renMol π mol) (mapKeys π labels) = renOutcome π (chiralFull h single dbl mol labels) :=
  chiralFull_rename h single dbl hπ mol labels

/-! ## no exception on well-formed input; `Element.__hash__` never hashes `None` -/

/-- (regenerated table) every optional attribute in `Element.__hash__` is written `… or 0` -/
theorem element_hash_never_none :
    ∀ f ∈ elementHashFields, (f.attr = HashAttr.isotope ∨ f.attr = HashAttr.implicitH) → f.orZero = true := by
  decide

theorem atomHash_total (h : TupleHash) (a : HAtom) : ∃ v, atomHash h a = some v :=
  atomHash_isSome h a element_hash_never_none

/-- adjacency over the atom keys: every row key and every neighbour is an atom -/
def Closed (m : MolView) : Prop :=
  ∀ row ∈ m.bonds, row.1 ∈ keys m.atoms ∧ ∀ mb ∈ row.2, mb.1 ∈ keys m.atoms

/-- **no KeyError**: on a graph whose adjacency only mentions existing atoms, `atoms_order` returns a dict with
    exactly the atoms of the molecule as keys. -/
theorem atoms_order_total (h : TupleHash) (m : MolView) (hk : KeysOK m) (hc : Closed m)
    (hrows : (keys m.bonds).Perm (keys m.atoms)) :
    ∃ r, atomsOrder h m = some r ∧ (keys r).Perm (keys m.atoms) :=
  atomsOrder_total h m hk.1 hc hrows element_hash_never_none

/-! ## canonical form: the molecule re-keyed by its own ranks -/

/-- the ranks separate all atoms -/
def Discrete (r : List (Nat × Nat)) : Prop := (r.map (·.2)).Nodup

/-- re-key a molecule by a numbering `ρ` (atom `n` becomes `ρ n`) -/
def rekey (ρ : Nat → Nat) (m : MolView) : MolView :=
  ⟨mapKeys ρ m.atoms, m.bonds.map fun row => (ρ row.1, mapKeys ρ row.2)⟩

/-- numbering function of a rank dict (`0` for a number that is not an atom; ranks start at `morganRankStart`) -/
def rankFn (r : List (Nat × Nat)) : Nat → Nat := fun n => (r.lookup n).getD 0

/-- **canonical_form_invariant**: the molecule re-keyed by its own `atoms_order` is *the same* dict-of-dicts (up to
    insertion order, `π = id`) for both descriptions. Hence every writer that is a function of the rank-keyed graph
    modulo dict order writes the same string. -/
theorem canonical_form_invariant (h : TupleHash) {π : Nat → Nat} (hπ : Function.Injective π)
    {m m' : MolView} (hk : KeysOK m) (hmm : MolEq π m m') {r r' : List (Nat × Nat)}
    (hr : atomsOrder h m = some r) (hr' : atomsOrder h m' = some r') :
    MolEq id (rekey (rankFn r) m) (rekey (rankFn r') m') := by
  have hρ : ∀ n, rankFn r' (π n) = rankFn r n := by
    intro n; unfold rankFn; rw [atoms_order_renumbering h hπ hk hmm hr hr' n]
  exact ⟨rekey_dict hρ hmm.1, rekey_adj hρ hmm.2⟩

/-- when the refinement is discrete the re-keyed molecule is a genuine dict (no two atoms collide) -/
theorem canonical_form_keys_nodup_of_discrete (h : TupleHash) {m : MolView} (hk : KeysOK m)
    (hrows : (keys m.bonds).Perm (keys m.atoms)) {r : List (Nat × Nat)} (hr : atomsOrder h m = some r)
    (hd : Discrete r) : (keys (rekey (rankFn r) m).atoms).Nodup := by
  have hkr : (keys r).Nodup := atomsOrder_keys_nodup' h hk.1 hk.2 hr
  have hperm := atomsOrder_keys h hrows hr
  unfold rekey
  simp only
  rw [keys_mapKeys]
  have h1 : ((keys m.atoms).map (rankFn r)).Perm ((keys r).map (rankFn r)) := (hperm.map _).symm
  refine h1.nodup_iff.mpr ?_
  have h2 : (keys r).map (rankFn r) = r.map (·.2) := by
    unfold keys
    rw [List.map_map]
    apply List.map_congr_left
    intro x hx
    simp only [Function.comp, rankFn]
    rw [(lookup_eq_some_iff hkr x.1 x.2).mpr hx]
    rfl
  rw [h2]; exact hd

/-! ## the string: full statement (not claimed), conditional (needs the writer model) -/

/-- FULL statement for a writer `write`: two descriptions of one structure give the same string.
    For chython's real `str(mol)` this is **false in general** (two recorded gaps) — kept visible, not claimed. -/
def SmilesInvariant (write : MolView → String) : Prop :=
  ∀ (π : Nat → Nat), Function.Injective π → ∀ m m', KeysOK m → MolEq π m m' → write m = write m'

/-- CONDITIONAL statement: invariance for molecules whose refinement is discrete (no ties at any choice point). -/
def SmilesInvariantOfDiscrete (h : TupleHash) (write : MolView → String) : Prop :=
  ∀ (π : Nat → Nat), Function.Injective π → ∀ m m' r, KeysOK m → MolEq π m m' →
    atomsOrder h m = some r → Discrete r → write m = write m'

/-- on discrete inputs the writer only looks at the molecule re-keyed by its ranks, modulo dict insertion order.
    For chython's `Smiles._smiles` this is exactly what a Lean model of the writer would have to establish
    (every `min`/`sorted` key is then injective, so set order and BFS distance never decide); C02 owns that model
    and it is not available, so this is a *hypothesis* below. -/
def FactorsThroughRanksOnDiscrete (h : TupleHash) (write : MolView → String) : Prop :=
  ∃ w : MolView → String, (∀ a b, MolEq id a b → w a = w b) ∧
    ∀ m r, atomsOrder h m = some r → Discrete r → write m = w (rekey (rankFn r) m)

theorem discrete_equivariant {π : Nat → Nat} {r r' : List (Nat × Nat)} (hrr : DictEq π r r') (hd : Discrete r) :
    Discrete r' := by
  unfold Discrete at *
  have := List.Perm.map (·.2) hrr
  simp only [mapKeys, List.map_map, Function.comp_def] at this
  exact this.nodup_iff.mpr hd

/-! ### towards the factoring hypothesis: the two choice points of the writer (C02's model `Model/SmilesWriter.lean`) -/

open ChythonModel.Model.SmilesWriter in
/-- **on candidates with pairwise different weights the writer's two choices are structural**: the order produced by
    `sorted(front, key=mod_weights)` (`keysFor … true` + `sortKeyed` in `dfsStep`/`traverse`) and the start atom
    `min(atoms_set, key=mod_weights_start)` (`keysFor … false` + `minKeyed` in `traverse`) of two descriptions correspond
    under the renaming `π` — whatever the iteration order of the Python `set`s (an *input* of C02's model: `cands'` is any
    permutation of the renamed candidates), whatever the BFS distances `seen`/`seen'` (they are not even assumed to
    correspond), whatever the atom numbers (`π` need not be monotone). This is the content of "every `min`/`sorted` key is
    injective on discrete inputs"; what remains of `FactorsThroughRanksOnDiscrete` is that the rest of `_smiles` (DFS
    bookkeeping, closure numbers, token formatting) is a function of these choices — C02's subject. -/
theorem writer_choices_invariant_of_distinct_weights (env env' : Env) (opts : Opts) (hr : opts.random = false)
    (groups : List (Int × Int)) (seen seen' : List (Nat × Int)) (us us' : Bool) (draws draws' : List (Nat × Nat))
    (π : Nat → Nat) (cands cands' : List Nat)
    (hw : ∀ n ∈ cands, env'.weights.lookup (π n) = env.weights.lookup n)
    (hdis : (cands.map fun n => env.weights.lookup n).Nodup)
    (hp : cands'.Perm (cands.map π))
    {ks ks' : List (Nat × Key)} {d d' : List (Nat × Nat)}
    (hk : keysFor env opts groups seen us draws cands = .ok (ks, d))
    (hk' : keysFor env' opts groups seen' us' draws' cands' = .ok (ks', d')) :
    (sortKeyed ks').map (·.1) = ((sortKeyed ks).map (·.1)).map π ∧
    (minKeyed ks').map (·.1) = ((minKeyed ks).map (·.1)).map π :=
  writer_choices_of_distinct_weights env env' opts hr groups seen seen' us us' draws draws' π cands cands' hw hdis hp hk hk'

open ChythonModel.Model.SmilesWriter in
/-- `sorted(front, key=…)` and `min(atoms_set, key=…)` do not depend on the iteration order of the set when the keys are
    pairwise different (the set orders are inputs of C02's writer model; on discrete molecules they cannot matter) -/
theorem writer_choices_set_order_independent {α : Type} {l l' : List (α × Key)} (hp : l.Perm l')
    (hd : (l.map (·.2)).Nodup) : sortKeyed l = sortKeyed l' ∧ minKeyed l = minKeyed l' :=
  ⟨sortKeyed_perm_of_nodup_keys hp hd, minKeyed_perm_of_nodup_keys hp hd⟩

/-- **smiles_invariant_of_discrete_partial**: the conditional statement, proved for every writer that factors through
    the rank-keyed graph on discrete inputs. Missing for the statement about chython itself: a model of
    `Smiles._smiles` with a proof of `FactorsThroughRanksOnDiscrete`. -/
theorem smiles_invariant_of_discrete_partial (h : TupleHash) (write : MolView → String)
    (hf : FactorsThroughRanksOnDiscrete h write) : SmilesInvariantOfDiscrete h write := by
  intro π hπ m m' r hk hmm hr hd
  obtain ⟨w, hw1, hw2⟩ := hf
  have he := atoms_order_equivariant h hπ hk hmm
  rw [hr] at he
  cases hr' : atomsOrder h m' with
  | none => rw [hr'] at he; cases he
  | some r' =>
    rw [hr'] at he
    cases he with
    | some hrr =>
      rw [hw2 m r hr hd, hw2 m' r' hr' (discrete_equivariant hrr hd)]
      exact hw1 _ _ (canonical_form_invariant h hπ hk hmm hr hr')

/-! ## the relational stream's inputs are certified: proved checker -/

open ChythonModel.Model.C01Check in
/-- **check_same_sound**: when the driver accepts a pair of descriptions produced by the harness (`same` request), the
    second is the first under an injective renaming, in the sense of `Spec/Renumbering.lean`. -/
theorem check_same_sound (mp : List (Nat × Nat)) (a b : MolView) (hc : checkSame mp a b = true) :
    Function.Injective (extend mp) ∧ KeysOK a ∧ MolEq (extend mp) a b := by
  obtain ⟨h1, h2, h3, h4⟩ := checkSame_sound mp a b hc
  exact ⟨h1, h2, h3, h4⟩

open ChythonModel.Model.C01Check in
/-- … so for every accepted pair the model's classes of the two descriptions correspond (for every hash function);
    the real `atoms_order` of both is compared with the model by the K stream. -/
theorem checked_pair_classes_correspond (h : TupleHash) (mp : List (Nat × Nat)) (a b : MolView)
    (hc : checkSame mp a b = true) : OptRel (DictEq (extend mp)) (atomsOrder h a) (atomsOrder h b) := by
  obtain ⟨h1, h2, h3⟩ := check_same_sound mp a b hc
  exact atoms_order_equivariant h h1 h2 h3

/-! ## equality and hash -/

/-- **eq_hash_are_str**: with the shapes regenerated from `smiles.py`, `a == b` is `str(a) == str(b)` (for a `Smiles`
    operand) and `hash(a)` is `hash(str(a))`. -/
theorem eq_hash_are_str :
    (∀ sa sb : String, molEq smilesEqForm true sa sb = some (decide (sa = sb))) ∧
    (∀ (sa sb : String), molEq smilesEqForm false sa sb = some false) ∧
    (∀ (hs : String → Int) (s : String), molHash smilesHashForm hs s = some (hs s)) := by
  refine ⟨?_, ?_, ?_⟩
  · intro sa sb; simp only [molEq, smilesEqForm, Bool.true_and, Option.some.injEq]; exact beq_eq_decide sa sb
  · intro sa sb; simp [molEq, smilesEqForm]
  · intro hs s; simp [molHash, smilesHashForm]

/-- two descriptions with the same canonical string compare equal and hash equal (whatever the string hash) -/
theorem eq_hash_of_same_string (hs : String → Int) (sa sb : String) (hsame : sa = sb) :
    molEq smilesEqForm true sa sb = some true ∧ molHash smilesHashForm hs sa = molHash smilesHashForm hs sb := by
  subst hsame
  simp [molEq, smilesEqForm]

/-! ## the hypotheses are satisfiable by a non-trivial instance (toy polynomial hash) -/

def toyHash : TupleHash := fun xs => xs.foldl (fun acc x => acc * 31 + x) 7

/-- ethanol-like chain C1–C2–O3 -/
def exM : MolView :=
  ⟨[(1, { z := 6, implH := some 3 }), (2, { z := 6, implH := some 2 }), (3, { z := 8, implH := some 1 })],
   [(1, [(2, ⟨1, none⟩)]), (2, [(1, ⟨1, none⟩), (3, ⟨1, none⟩)]), (3, [(2, ⟨1, none⟩)])]⟩

/-- the same structure, atoms renamed n ↦ n + 10, everything inserted in another order -/
def exM' : MolView :=
  ⟨[(13, { z := 8, implH := some 1 }), (11, { z := 6, implH := some 3 }), (12, { z := 6, implH := some 2 })],
   [(12, [(13, ⟨1, none⟩), (11, ⟨1, none⟩)]), (13, [(12, ⟨1, none⟩)]), (11, [(12, ⟨1, none⟩)])]⟩

example : KeysOK exM := by unfold KeysOK keys exM; decide
example : Closed exM := by unfold Closed keys exM; decide
example : Function.Injective (fun n : Nat => n + 10) := fun a b h => by simpa using h
example : MolEq (fun n => n + 10) exM exM' := by
  refine ⟨?_, ⟨[(11, [(12, ⟨1, none⟩)]), (12, [(13, ⟨1, none⟩), (11, ⟨1, none⟩)]), (13, [(12, ⟨1, none⟩)])], ?_, ?_⟩⟩
  · unfold DictEq mapKeys exM exM'; decide
  · unfold exM'; decide
  · unfold exM
    refine .cons ⟨rfl, ?_⟩ (.cons ⟨rfl, ?_⟩ (.cons ⟨rfl, ?_⟩ .nil)) <;> unfold DictEq mapKeys <;> decide
example : C01Check.checkSame [(1, 11), (2, 12), (3, 13)] exM exM' = true := by decide +kernel
example : C01Check.checkSame [(1, 11), (2, 13), (3, 12)] exM exM' = false := by decide +kernel
example : atomsOrder toyHash exM = some [(1, 1), (3, 2), (2, 3)] := by decide +kernel
example : atomsOrder toyHash exM' = some [(11, 1), (13, 2), (12, 3)] := by decide +kernel
example : Discrete [(1, 1), (3, 2), (2, 3)] := by unfold Discrete; decide

/-- a labelled centre: 1-aminoethanol CH3–C*H(NH2)(OH), label on atom 2 -/
def exS : MolView :=
  ⟨[(1, { z := 6, implH := some 3 }), (2, { z := 6, implH := some 1 }), (3, { z := 7, implH := some 2 }),
    (4, { z := 8, implH := some 1 })],
   [(1, [(2, ⟨1, none⟩)]), (2, [(1, ⟨1, none⟩), (3, ⟨1, none⟩), (4, ⟨1, none⟩)]), (3, [(2, ⟨1, none⟩)]),
    (4, [(2, ⟨1, none⟩)])]⟩

example : InequivalentCentres toyHash (fun _ => true) exS [(2, true)] [(1, 1), (3, 2), (4, 3), (2, 4)] := by
  refine ⟨by decide, by decide, by decide +kernel, [1, 2], [(2, [1, 3, 4])], by decide +kernel, by decide +kernel,
    by decide, fun _ => 4, by decide, by decide⟩

/-- butane-2,3-diol C1–C2(O5)–C3(O6)–C4 with labels on both centres -/
def exMeso : MolView :=
  ⟨[(1, { z := 6, implH := some 3 }), (2, { z := 6, implH := some 1 }), (3, { z := 6, implH := some 1 }),
    (4, { z := 6, implH := some 3 }), (5, { z := 8, implH := some 1 }), (6, { z := 8, implH := some 1 })],
   [(1, [(2, ⟨1, none⟩)]), (2, [(1, ⟨1, none⟩), (3, ⟨1, none⟩), (5, ⟨1, none⟩)]),
    (3, [(2, ⟨1, none⟩), (4, ⟨1, none⟩), (6, ⟨1, none⟩)]), (4, [(3, ⟨1, none⟩)]), (5, [(2, ⟨1, none⟩)]),
    (6, [(3, ⟨1, none⟩)])]⟩

/-- the R/S-pair branch is really executed: opposite configurations split every class of the molecule … -/
example : ChiralMorgan.chiralMorgan toyHash (fun _ => true) exMeso [(2, true), (3, true)] =
    .ranks [(4, 1), (1, 2), (6, 3), (5, 4), (3, 5), (2, 6)] := by decide +kernel
/-- … equal configurations leave `atoms_order` as it is … -/
example : ChiralMorgan.chiralMorgan toyHash (fun _ => true) exMeso [(2, true), (3, false)] =
    .ranks [(1, 1), (4, 1), (5, 2), (6, 2), (2, 3), (3, 3)] := by decide +kernel
/-- … and the renamed molecule gives the renamed result -/
example : ChiralMorgan.chiralMorgan toyHash (fun _ => true) (renMol (· + 10) exMeso) [(12, true), (13, true)] =
    .ranks [(14, 1), (11, 2), (16, 3), (15, 4), (13, 5), (12, 6)] := by decide +kernel


/-! ### the full `_chiral_morgan` model on concrete molecules (toy hash; `dblT` = C, N, O form double bonds) -/

def dblT (z : Nat) : Bool := z == 6 || z == 7 || z == 8

/-- (E)-1-fluoropropene F1–C2=C3–C4, label on the double bond (stored on both directions of the bond) -/
def exE : MolView :=
  ⟨[(1, { z := 9, implH := some 0 }), (2, { z := 6, implH := some 1 }), (3, { z := 6, implH := some 1 }),
    (4, { z := 6, implH := some 3 })],
   [(1, [(2, ⟨1, none⟩)]), (2, [(1, ⟨1, none⟩), (3, ⟨2, some true⟩)]), (3, [(2, ⟨2, some true⟩), (4, ⟨1, none⟩)]),
    (4, [(3, ⟨1, none⟩)])]⟩

example : ChiralFull.cumulenes dblT exE = .ok [[2, 3]] := by decide +kernel

/-- the hypothesis of the invariance theorem is satisfiable by a molecule with a labelled double bond -/
example : InequivalentElements toyHash (fun _ => true) dblT exE [] [(4, 1), (1, 2), (3, 3), (2, 4)] := by
  refine ⟨by decide +kernel, [4],
    ⟨[], [], [((2, 3), ⟨1, 4, none, none⟩)], [], [(2, (2, 3)), (3, (2, 3))], exE⟩, [(2, (2, 3)), (3, (2, 3))],
    [(2, 3), (2, 3)], [], [((3, (2, 3)), 3)], [], by decide +kernel, by decide +kernel, by decide +kernel,
    by decide +kernel, by decide, by decide +kernel, by decide, by decide +kernel, by decide⟩

/-- two components F–CH=CH–Cl, the first labelled `true`, the second `s` -/
def exEZ (s : Bool) : MolView :=
  ⟨[(1, { z := 9, implH := some 0 }), (2, { z := 6, implH := some 1 }), (3, { z := 6, implH := some 1 }),
    (4, { z := 17, implH := some 0 }), (5, { z := 9, implH := some 0 }), (6, { z := 6, implH := some 1 }),
    (7, { z := 6, implH := some 1 }), (8, { z := 17, implH := some 0 })],
   [(1, [(2, ⟨1, none⟩)]), (2, [(1, ⟨1, none⟩), (3, ⟨2, some true⟩)]), (3, [(2, ⟨2, some true⟩), (4, ⟨1, none⟩)]),
    (4, [(3, ⟨1, none⟩)]),
    (5, [(6, ⟨1, none⟩)]), (6, [(5, ⟨1, none⟩), (7, ⟨2, some s⟩)]), (7, [(6, ⟨2, some s⟩), (8, ⟨1, none⟩)]),
    (8, [(7, ⟨1, none⟩)])]⟩

/-- the cis/trans block really runs: like configurations leave `atoms_order` … -/
example : ChiralFull.chiralFull toyHash (fun _ => true) dblT (exEZ true) [] =
    .ranks [(1, 1), (5, 1), (4, 2), (8, 2), (2, 3), (6, 3), (3, 4), (7, 4)] := by decide +kernel
/-- … an E/Z pair splits every class (the R/S-pair update of the cis/trans block) -/
example : ChiralFull.chiralFull toyHash (fun _ => true) dblT (exEZ false) [] =
    .ranks [(1, 1), (5, 2), (4, 3), (8, 4), (2, 5), (6, 6), (3, 7), (7, 8)] := by decide +kernel

/-- the renamed E/Z pair gives the renamed result (instance of `chiral_full_renaming_equivariant`, evaluated) -/
example : ChiralFull.chiralFull toyHash (fun _ => true) dblT (renMol (· + 10) (exEZ false)) [] =
    .ranks [(11, 1), (15, 2), (14, 3), (18, 4), (12, 5), (16, 6), (13, 7), (17, 8)] := by decide +kernel

/-- F–CH=CH–Cl three times, labels E, E, Z: ONE group of three equivalent labelled double bonds -/
def exEZ3 : MolView :=
  ⟨[(1, { z := 9, implH := some 0 }), (2, { z := 6, implH := some 1 }), (3, { z := 6, implH := some 1 }),
    (4, { z := 17, implH := some 0 }), (5, { z := 9, implH := some 0 }), (6, { z := 6, implH := some 1 }),
    (7, { z := 6, implH := some 1 }), (8, { z := 17, implH := some 0 }), (9, { z := 9, implH := some 0 }),
    (10, { z := 6, implH := some 1 }), (11, { z := 6, implH := some 1 }), (12, { z := 17, implH := some 0 })],
   [(1, [(2, ⟨1, none⟩)]), (2, [(1, ⟨1, none⟩), (3, ⟨2, some true⟩)]), (3, [(2, ⟨2, some true⟩), (4, ⟨1, none⟩)]),
    (4, [(3, ⟨1, none⟩)]),
    (5, [(6, ⟨1, none⟩)]), (6, [(5, ⟨1, none⟩), (7, ⟨2, some true⟩)]), (7, [(6, ⟨2, some true⟩), (8, ⟨1, none⟩)]),
    (8, [(7, ⟨1, none⟩)]),
    (9, [(10, ⟨1, none⟩)]), (10, [(9, ⟨1, none⟩), (11, ⟨2, some false⟩)]), (11, [(10, ⟨2, some false⟩), (12, ⟨1, none⟩)]),
    (12, [(11, ⟨1, none⟩)])]⟩

/-- the hypothesis of `chiral_full_ignores_odd_groups` holds for it (a group of size 3, not a singleton) -/
example : OddGroupsOnly toyHash (fun _ => true) dblT exEZ3 []
    [(1, 1), (5, 1), (9, 1), (4, 2), (8, 2), (12, 2), (2, 3), (6, 3), (10, 3), (3, 4), (7, 4), (11, 4)] := by
  refine ⟨by decide +kernel, [],
    ⟨[], [], [((2, 3), ⟨1, 4, none, none⟩), ((6, 7), ⟨5, 8, none, none⟩), ((10, 11), ⟨9, 12, none, none⟩)], [],
      [(2, (2, 3)), (3, (2, 3)), (6, (6, 7)), (7, (6, 7)), (10, (10, 11)), (11, (10, 11))], exEZ3⟩,
    [(2, (2, 3)), (3, (2, 3)), (6, (6, 7)), (7, (6, 7)), (10, (10, 11)), (11, (10, 11))],
    [(2, 3), (2, 3), (6, 7), (6, 7), (10, 11), (10, 11)], [],
    [((2, (2, 3)), 3), ((6, (6, 7)), 3), ((10, (10, 11)), 3)], [],
    by decide +kernel, by decide +kernel, by decide +kernel, by decide +kernel, by decide, by decide +kernel,
    by decide, by decide +kernel, by decide⟩

/-- two components penta-2,3-diene CH3–CH=C=CH–CH3, labels on the two allene centres -/
def exAl : MolView :=
  ⟨[(1, { z := 6, implH := some 3 }), (2, { z := 6, implH := some 1 }), (3, { z := 6, implH := some 0 }),
    (4, { z := 6, implH := some 1 }), (5, { z := 6, implH := some 3 }),
    (11, { z := 6, implH := some 3 }), (12, { z := 6, implH := some 1 }), (13, { z := 6, implH := some 0 }),
    (14, { z := 6, implH := some 1 }), (15, { z := 6, implH := some 3 })],
   [(1, [(2, ⟨1, none⟩)]), (2, [(1, ⟨1, none⟩), (3, ⟨2, none⟩)]), (3, [(2, ⟨2, none⟩), (4, ⟨2, none⟩)]),
    (4, [(3, ⟨2, none⟩), (5, ⟨1, none⟩)]), (5, [(4, ⟨1, none⟩)]),
    (11, [(12, ⟨1, none⟩)]), (12, [(11, ⟨1, none⟩), (13, ⟨2, none⟩)]), (13, [(12, ⟨2, none⟩), (14, ⟨2, none⟩)]),
    (14, [(13, ⟨2, none⟩), (15, ⟨1, none⟩)]), (15, [(14, ⟨1, none⟩)])]⟩

example : ChiralFull.cumulenes dblT exAl = .ok [[2, 3, 4], [12, 13, 14]] := by decide +kernel
/-- the allene block: like / unlike pair -/
example : ChiralFull.chiralFull toyHash (fun _ => true) dblT exAl [(3, true), (13, true)] =
    .ranks [(1, 1), (5, 1), (11, 1), (15, 1), (2, 2), (4, 2), (12, 2), (14, 2), (3, 3), (13, 3)] := by decide +kernel
example : ChiralFull.chiralFull toyHash (fun _ => true) dblT exAl [(3, true), (13, false)] =
    .ranks [(1, 1), (5, 1), (11, 2), (15, 2), (2, 3), (4, 3), (12, 4), (14, 4), (3, 5), (13, 6)] := by decide +kernel
/-- `chiral_full_extends_tetrahedral` is not vacuous: the tables of the meso diol exist and the old model answers -/
example : (match ChiralFull.tablesOf (fun _ => true) dblT exMeso [(2, true), (3, true)] with
    | .ok _ => true | .error _ => false) = true := by decide +kernel


/-! ### the writer's choice points: hypotheses of `writer_choices_invariant_of_distinct_weights` on a concrete instance -/

def exEnv : SmilesWriter.Env := { weights := [(1, 3), (2, 1), (3, 2)], setOrders := [], front := [], draws := [] }
def exEnv' : SmilesWriter.Env := { weights := [(13, 2), (11, 3), (12, 1)], setOrders := [], front := [], draws := [] }
def exGroups : List (Int × Int) := [(3, -1), (1, -1), (2, -1)]

example : SmilesWriter.keysFor exEnv {} exGroups [(1, 0), (2, 1), (3, 2)] true [] [1, 2, 3] =
    .ok ([(1, (-1, 3, 0)), (2, (-1, 1, 1)), (3, (-1, 2, 2))], []) := by decide +kernel
/-- other numbers, another set order, unrelated BFS distances -/
example : SmilesWriter.keysFor exEnv' {} exGroups [(11, 7), (12, 0), (13, 0)] true [] [13, 11, 12] =
    .ok ([(13, (-1, 2, 0)), (11, (-1, 3, 7)), (12, (-1, 1, 0))], []) := by decide +kernel
example : ∀ n ∈ [1, 2, 3], exEnv'.weights.lookup (n + 10) = exEnv.weights.lookup n := by decide
example : ([1, 2, 3].map fun n => exEnv.weights.lookup n).Nodup := by decide
example : [13, 11, 12].Perm ([1, 2, 3].map (· + 10)) := by decide
/-- … and the conclusion on this instance: both sides visit 2, 3, 1 resp. 12, 13, 11 -/
example : (SmilesWriter.sortKeyed [(13, ((-1 : Int), (2 : Int), (0 : Int))), (11, (-1, 3, 7)), (12, (-1, 1, 0))]).map (·.1) =
    ((SmilesWriter.sortKeyed [(1, ((-1 : Int), (3 : Int), (0 : Int))), (2, (-1, 1, 1)), (3, (-1, 2, 2))]).map (·.1)).map (· + 10) := by
  decide +kernel

/-- the hypothesis of `smiles_invariant_of_discrete_partial` is satisfiable: a (toy) writer that prints an
    order-independent digest of the rank-keyed molecule -/
def keyDigest (a : MolView) : Nat := (keys a.atoms).foldr (· + ·) 0

def toyWrite (m : MolView) : String :=
  match atomsOrder toyHash m with
  | some r => toString (keyDigest (rekey (rankFn r) m))
  | none => ""

example : FactorsThroughRanksOnDiscrete toyHash toyWrite := by
  refine ⟨fun a => toString (keyDigest a), ?_, ?_⟩
  · intro a b hab
    have hp : (keys b.atoms).Perm (keys a.atoms) := by
      have := hab.1
      unfold DictEq at this
      have h2 := this.map (·.1)
      simpa [keys, mapKeys] using h2
    have hs : ∀ {l l' : List Nat}, l.Perm l' → l.foldr (· + ·) 0 = l'.foldr (· + ·) 0 := by
      intro l l' hperm
      induction hperm with
      | nil => rfl
      | cons x _ ih => simp [ih]
      | swap x y l => simp [Nat.add_left_comm]
      | trans _ _ ih₁ ih₂ => exact ih₁.trans ih₂
    show toString (keyDigest a) = toString (keyDigest b)
    unfold keyDigest
    rw [hs hp]
  · intro m r hr _
    simp [toyWrite, hr]
example : toyWrite exM = "6" ∧ toyWrite exM' = "6" := by decide +kernel

end ChythonModel.Props.C01
