import ChythonModel.Model.C20Bridge
import ChythonModel.Spec.RdkitConvention
import ChythonModel.Props.C12
import ChythonModel.Proofs.C20Parity
import ChythonModel.Proofs.C20Graph
import ChythonModel.Proofs.C20Bonds
import ChythonModel.Proofs.C20Conformers
import ChythonModel.Proofs.C20FromFinal
/-!
# C20 — RDKit bridge preserves structure and configuration in both directions

All theorems are about the functions `Drivers/C20.lean` runs (`Model/C20Bridge.lean`, with the C12 sign model
`Model/Stereo.lean`) and the tables regenerated from /repo (`Gen/C20Tables.lean`, `Gen/StereoTables.lean`).
RDKit is a black box: its conventions enter as the explicit functions of `Spec/RdkitConvention.lean`
(`retag`, `relabel`, `tagOfAt`, `stereoOfCis`, `orderOfType`), written from RDKit's documentation.
-/
set_option linter.unusedSimpArgs false
namespace ChythonModel.Props.C20
open ChythonModel.Gen ChythonModel.Gen.C20 ChythonModel.Spec ChythonModel.Model ChythonModel.Model.Stereo
open ChythonModel.Model.C20 ChythonModel.Proofs.C12 ChythonModel.Props.C12 ChythonModel.Proofs.C20

/-! ## 1. bond-type maps -/

/-- chython order → RDKit type → chython order is the identity on every documented order (1, 2, 3, 4, 8) -/
theorem bond_maps_inverse : ∀ o ∈ Rdkit.chythonOrders, ∃ t, bondTypeOf o = .ok t ∧ bondOrderOf t = .ok o := by
  intro o ho
  simp only [Rdkit.chythonOrders, List.mem_cons, List.not_mem_nil, or_false] at ho
  rcases ho with rfl | rfl | rfl | rfl | rfl <;> exact ⟨_, rfl, rfl⟩

/-- `_bond_map` is defined on exactly the documented orders and writes the type RDKit documents for that order -/
theorem bond_map_agrees_spec :
    (∀ o ∈ bondMap.map (·.1), o ∈ Rdkit.chythonOrders) ∧ (∀ o ∈ Rdkit.chythonOrders, o ∈ bondMap.map (·.1)) ∧
    (bondMap.map (·.1)).Nodup ∧ ∀ e ∈ bondMap, Rdkit.orderOfType e.2 = some e.1 := by decide

/-- `_rdkit_bond_map` reads every documented type as its order; anything else it accepts becomes the special order 8 -/
theorem rdkit_bond_map_agrees_spec :
    (∀ e ∈ rdkitBondMap, Rdkit.orderOfType e.1 = some e.2 ∨ (Rdkit.orderOfType e.1 = none ∧ e.2 = 8)) ∧
    (rdkitBondMap.map (·.1)).Nodup := by decide

/-- RDKit type → order → RDKit type: restored exactly for the five types `_bond_map` writes; the other accepted types
(`ZERO`, `UNSPECIFIED`) collapse to `DATIVE`; unknown types raise `KeyError` -/
theorem bond_types_roundtrip : ∀ t : RdBondType,
    (∀ o, Rdkit.orderOfType t = some o → bondOrderOf t = .ok o ∧ bondTypeOf o = .ok t) ∧
    (Rdkit.orderOfType t = none → (bondOrderOf t = .ok 8 ∧ (t = .ZERO ∨ t = .UNSPECIFIED)) ∨ bondOrderOf t = .error (.py .keyError)) := by
  intro t
  cases t <;> simp [Rdkit.orderOfType] <;> first | rfl | exact ⟨rfl, rfl⟩ | exact Or.inl rfl

/-- an order outside the table is a `KeyError`, not a default -/
theorem bondTypeOf_unknown (o : Nat) (h : o ∉ Rdkit.chythonOrders) : bondTypeOf o = .error (.py .keyError) := by
  simp only [Rdkit.chythonOrders, List.mem_cons, List.not_mem_nil, or_false, not_or] at h
  obtain ⟨h1, h2, h3, h4, h8⟩ := h
  simp [bondTypeOf, liftPy, getKey, bondMap, List.lookup, h1, h2, h3, h4, h8,
    show (o == 1) = false from by simp [h1], show (o == 2) = false from by simp [h2],
    show (o == 3) = false from by simp [h3], show (o == 4) = false from by simp [h4], show (o == 8) = false from by simp [h8]]

/-! ## 2. conventions: the enum members behind the module constants are the documented ones -/

/-- label `True` (SMILES `@`) is written as the counter-clockwise tag, `False` as clockwise; cis is written as Z -/
theorem constants_agree_spec (s : Bool) :
    tagOfSign s = Rdkit.tagOfAt s ∧ stereoOfSign s = Rdkit.stereoOfCis s := by
  cases s <;> exact ⟨rfl, rfl⟩

/-- reading: among the two tetrahedral tags `tag == _chiral_ccw` is exactly "the tag is the `@` tag"; same for Z -/
theorem reading_agrees_spec :
    (∀ t : RdChiral, (t == chiralCw || t == chiralCcw) = true → ((t == chiralCcw) = true ↔ t = Rdkit.tagOfAt true)) ∧
    (∀ t : RdStereo, (t == stereoCis || t == stereoTrans) = true → ((t == stereoCis) = true ↔ t = Rdkit.stereoOfCis true)) ∧
    chiralCw ≠ chiralCcw ∧ stereoCis ≠ stereoTrans := by
  refine ⟨?_, ?_, by decide, by decide⟩ <;> intro t <;> cases t <;> decide

/-! ## 3. atom attribute transfer -/

/-- chython → RDKit → chython on one atom.  `k` = implicit hydrogens RDKit adds on its own (0 on valence-valid input —
recorded assumption): isotope, charge, radical flag and atom number (as `parsed_mapping`) come back unchanged, the
hydrogen count comes back as `h + k`; the stereo label travels separately (tags). -/
theorem from_to_atom (keep : Bool) (n : Nat) (a : Atom) (h : Nat) (row : ElemRow) (k : Nat)
    (hH : a.implH = some h) (hrow : rowOf a.z = some row)
    (hiso : ∀ i, a.isotope = some i → i ≠ 0 ∧ row.dist.any (·.1 == i) = true)
    (hch : -4 ≤ a.charge ∧ a.charge ≤ 4) :
    ∃ ra, toAtom keep n a = .ok ra ∧ ra.implicitHs = 0 ∧ ra.tag = .CHI_UNSPECIFIED ∧
      fromAtom { ra with implicitHs := k } =
        .ok ({ a with implH := some (h + k), stereo := none }, if keep then n else 0) := by
  obtain ⟨z, iso, ch, rad, ih, st⟩ := a
  simp only at hH hrow hiso hch
  subst hH
  have hc1 : ¬ (ch > 4) := by omega
  have hc2 : ¬ (ch < -4) := by omega
  cases iso with
  | none =>
    refine ⟨_, rfl, rfl, rfl, ?_⟩
    by_cases h0 : ch = 0 <;> simp [fromAtom, hrow, h0, hc1, hc2] <;> cases rad <;> simp
  | some i =>
    obtain ⟨hi0, hid⟩ := hiso i rfl
    refine ⟨_, rfl, rfl, rfl, ?_⟩
    by_cases h0 : ch = 0 <;> simp [fromAtom, hrow, h0, hc1, hc2, hi0, hid] <;> cases rad <;> simp

example : ∃ row, rowOf 6 = some row ∧ row.dist.any (·.1 == 13) = true := ⟨_, rfl, by decide⟩

/-- the hydrogen clause at full strength: whatever RDKit does between the two conversions (`k` implicit hydrogens added by
its valence model), the count comes back.  False — `to` does not forbid implicit hydrogens, so `k` can be positive
(`[S]` → H2S, known_findings/C20.json; witness in `Findings/C20.lean`); what is proved is the case `k = 0`. -/
def hydrogens_roundtrip_full : Prop :=
  ∀ (keep : Bool) (n : Nat) (a : Atom) (h k : Nat) (ra : RAtom) (b : Atom) (pm : Nat), a.implH = some h →
    toAtom keep n a = .ok ra → fromAtom { ra with implicitHs := k } = .ok (b, pm) → b.implH = some h

/-- `from` always reads the hydrogen count as explicit + implicit -/
theorem fromAtom_hydrogens (ra : RAtom) (b : Atom) (pm : Nat) (h : fromAtom ra = .ok (b, pm)) :
    b.implH = some (ra.explicitHs + ra.implicitHs) := by
  unfold fromAtom at h
  split at h
  · cases h
  · split at h
    · cases h
    · split at h
      · cases h
      · simp only [Except.ok.injEq, Prod.mk.injEq] at h
        obtain ⟨rfl, _⟩ := h
        rfl

theorem hydrogens_roundtrip_partial (keep : Bool) (n : Nat) (a : Atom) (h : Nat) (ra : RAtom) (b : Atom) (pm : Nat)
    (hH : a.implH = some h) (hto : toAtom keep n a = .ok ra) (hfrom : fromAtom { ra with implicitHs := 0 } = .ok (b, pm)) :
    b.implH = some h := by
  rw [fromAtom_hydrogens _ b pm hfrom]
  simp only [toAtom, hH, Except.ok.injEq] at hto
  subst hto
  simp

/-- RDKit → chython → RDKit on one atom: element, charge, isotope and map number survive (the map number as
`parsed_mapping`; `to` then writes the atom *number*); the total hydrogen count `explicit + implicit` is written back as
explicit; the radical-electron count survives iff it is at most one -/
theorem to_from_atom (keep : Bool) (n : Nat) (ra : RAtom) (a : Atom) (pm : Nat) (h : fromAtom ra = .ok (a, pm)) :
    pm = ra.mapNum ∧
    toAtom keep n a = .ok { z := ra.z, explicitHs := ra.explicitHs + ra.implicitHs, implicitHs := 0, charge := ra.charge,
                            isotope := ra.isotope, radicalE := if ra.radicalE = 0 then 0 else 1,
                            mapNum := if keep then n else 0, tag := .CHI_UNSPECIFIED } := by
  unfold fromAtom at h
  split at h
  · cases h
  · rename_i row hrow
    split at h
    · cases h
    · split at h
      · cases h
      · simp only [Except.ok.injEq, Prod.mk.injEq] at h
        obtain ⟨rfl, rfl⟩ := h
        refine ⟨rfl, ?_⟩
        by_cases hi : ra.isotope = 0 <;> by_cases hc : ra.charge = 0 <;> by_cases hr : ra.radicalE = 0 <;>
          simp [toAtom, hi, hc, hr]

/-- the radical clause at full strength is false for diradicals (chython's `is_radical` is a flag); exactly that class is excluded -/
def radical_roundtrip_full : Prop :=
  ∀ (ra : RAtom) (a : Atom) (pm : Nat), fromAtom ra = .ok (a, pm) →
    ∃ rb, toAtom false 0 a = .ok rb ∧ rb.radicalE = ra.radicalE

theorem radical_roundtrip_partial (ra : RAtom) (a : Atom) (pm : Nat) (h : fromAtom ra = .ok (a, pm))
    (hr : ra.radicalE ≤ 1) : ∃ rb, toAtom false 0 a = .ok rb ∧ rb.radicalE = ra.radicalE := by
  obtain ⟨_, h2⟩ := to_from_atom false 0 ra a pm h
  refine ⟨_, h2, ?_⟩
  by_cases h0 : ra.radicalE = 0
  · simp [h0]
  · simp only [h0, if_false]; omega

example : ∃ a pm, fromAtom { z := 6, explicitHs := 2, radicalE := 1 } = .ok (a, pm) := ⟨_, _, rfl⟩

/-- error branches are raised, not defaulted: unknown hydrogen count, dummy atom, impossible isotope, charge out of range -/
theorem atom_error_branches :
    (∀ keep n (a : Atom), a.implH = none → toAtom keep n a = .error .argument) ∧
    (∀ ra : RAtom, rowOf ra.z = none → fromAtom ra = .error (.py .valueError)) ∧
    fromAtom { z := 6, isotope := 99 } = .error (.py .valueError) ∧
    fromAtom { z := 6, charge := 5 } = .error (.py .valueError) ∧
    fromAtom { z := 0 } = .error (.py .valueError) := by
  refine ⟨?_, ?_, by decide, by decide, by decide⟩
  · intro keep n a h; simp [toAtom, h]
  · intro ra h; simp [fromAtom, h]

/-! ## 4. tetrahedral configuration: written for ANY neighbour order, read back from ANY neighbour order -/

/-- four heavy neighbours.  `order`/`order'` = `stereogenic_tetrahedrons[n]` of the source and of the rebuilt molecule,
`env`/`env'` = RDKit's neighbour order when the tag is written / read (RDKit re-expresses the tag by `Rdkit.retag`).
The label read back is `s` corrected by the parity between the two reference orders: the same configuration. -/
theorem tag_roundtrip4 (a b c d : Nat) (hnd : [a, b, c, d].Nodup) (order order' env env' : List Nat)
    (ho : order.Perm [a, b, c, d]) (ho' : order'.Perm [a, b, c, d]) (he : env.Perm [a, b, c, d])
    (he' : env'.Perm [a, b, c, d]) (isH isH' : Nat → Bool) (s : Bool) :
    ∃ t, translateTetra order env isH (some s) none = .ok t ∧
         translateTetra order' env' isH' none (some (Rdkit.retag t (relOdd env env'))) = .ok (s ^^ relOdd order order') := by
  obtain ⟨w, x, y, z, rfl, hn⟩ := perm4_literal hnd ho
  obtain ⟨w', x', y', z', rfl, hn'⟩ := perm4_literal hnd ho'
  refine ⟨s ^^ relOdd [w, x, y, z] env, ?_, ?_⟩
  · rw [(translateTetra_sign_source _ env isH s none).1]
    exact translateTetra_perm4 w x y z hn env (he.trans ho.symm) isH none s
  · rw [translateTetra_perm4 w' x' y' z' hn' env' (he'.trans ho'.symm) isH' none _]
    have key := relOdd_chain4 hnd [w, x, y, z] [w', x', y', z'] env env' ho ho' he he'
    rw [← key]
    simp only [Rdkit.retag]
    generalize relOdd [w, x, y, z] env = A
    generalize relOdd env env' = B
    generalize relOdd [w', x', y', z'] env' = C
    cases s <;> cases A <;> cases B <;> cases C <;> rfl

example : translateTetra [7, 3, 9, 5] [3, 7, 9, 5] (fun _ => false) (some true) none = .ok false ∧
    translateTetra [5, 9, 3, 7] [9, 3, 7, 5] (fun _ => false) none (some (Rdkit.retag false (relOdd [3, 7, 9, 5] [9, 3, 7, 5]))) =
      .ok (true ^^ relOdd [7, 3, 9, 5] [5, 9, 3, 7]) := by decide

/-- three heavy neighbours and an implicit hydrogen on both sides -/
theorem tag_roundtrip3 (a b c : Nat) (hnd : [a, b, c].Nodup) (order order' env env' : List Nat)
    (ho : order.Perm [a, b, c]) (ho' : order'.Perm [a, b, c]) (he : env.Perm [a, b, c]) (he' : env'.Perm [a, b, c])
    (isH isH' : Nat → Bool) (s : Bool) :
    ∃ t, translateTetra order env isH (some s) none = .ok t ∧
         translateTetra order' env' isH' none (some (Rdkit.retag t (relOdd env env'))) = .ok (s ^^ relOdd order order') := by
  obtain ⟨x, y, z, rfl, hn⟩ := perm3_literal hnd ho
  obtain ⟨x', y', z', rfl, hn'⟩ := perm3_literal hnd ho'
  refine ⟨s ^^ relOdd [x, y, z] env, ?_, ?_⟩
  · rw [(translateTetra_sign_source _ env isH s none).1]
    exact translateTetra_implicitH x y z hn env (he.trans ho.symm) isH none s
  · rw [translateTetra_implicitH x' y' z' hn' env' (he'.trans ho'.symm) isH' none _]
    have key := relOdd_chain3 hnd [x, y, z] [x', y', z'] env env' ho ho' he he'
    rw [← key]
    simp only [Rdkit.retag]
    generalize relOdd [x, y, z] env = A
    generalize relOdd env env' = B
    generalize relOdd [x', y', z'] env' = C
    cases s <;> cases A <;> cases B <;> cases C <;> rfl

example : translateTetra [7, 3, 9] [3, 9, 7] (fun _ => false) (some true) none = .ok true ∧
    translateTetra [9, 7, 3] [9, 3, 7] (fun _ => false) none (some (Rdkit.retag true (relOdd [3, 9, 7] [9, 3, 7]))) =
      .ok (true ^^ relOdd [7, 3, 9] [9, 7, 3]) := by decide

/-- three heavy neighbours and an explicit hydrogen atom `h` standing anywhere in RDKit's neighbour lists -/
theorem tag_roundtrip_explicitH (a b c h : Nat) (hnd : [a, b, c].Nodup) (isH : Nat → Bool)
    (hheavy : ∀ v ∈ [a, b, c], isH v = false) (hh : isH h = true) (order order' env env' : List Nat)
    (ho : order.Perm [a, b, c]) (ho' : order'.Perm [a, b, c]) (he : env.Perm [a, b, c, h]) (he' : env'.Perm [a, b, c, h])
    (s : Bool) :
    ∃ t, translateTetra order env isH (some s) none = .ok t ∧
         translateTetra order' env' isH none (some (Rdkit.retag t (relOdd env env'))) = .ok (s ^^ relOdd order order') := by
  have hah : h ≠ a := fun e => by rw [e, hheavy a (by simp)] at hh; cases hh
  have hbh : h ≠ b := fun e => by rw [e, hheavy b (by simp)] at hh; cases hh
  have hch : h ≠ c := fun e => by rw [e, hheavy c (by simp)] at hh; cases hh
  have hf := nodup4_of_fresh hnd hah hbh hch
  obtain ⟨x, y, z, rfl, hn⟩ := perm3_literal hnd ho
  obtain ⟨x', y', z', rfl, hn'⟩ := perm3_literal hnd ho'
  have mem : ∀ v ∈ [x, y, z], isH v = false := fun v hv => hheavy v (ho.subset hv)
  have mem' : ∀ v ∈ [x', y', z'], isH v = false := fun v hv => hheavy v (ho'.subset hv)
  have p4 : [x, y, z, h].Perm [a, b, c, h] := perm_append_single h ho
  have p4' : [x', y', z', h].Perm [a, b, c, h] := perm_append_single h ho'
  refine ⟨s ^^ relOdd [x, y, z, h] env, ?_, ?_⟩
  · rw [(translateTetra_sign_source _ env isH s none).1]
    exact translateTetra_explicitH x y z h hn (mem x (by simp)) (mem y (by simp)) (mem z (by simp)) hh env
      (he.trans p4.symm) none s
  · rw [translateTetra_explicitH x' y' z' h hn' (mem' x' (by simp)) (mem' y' (by simp)) (mem' z' (by simp)) hh env'
      (he'.trans p4'.symm) none _]
    have key := relOdd_chain4 hf [x, y, z, h] [x', y', z', h] env env' p4 p4' he he'
    have lift := relOdd_lift3 hnd h hf [x, y, z] [x', y', z'] ho ho'
    simp only [List.cons_append, List.nil_append] at lift
    rw [lift, ← key]
    simp only [Rdkit.retag]
    generalize relOdd [x, y, z, h] env = A
    generalize relOdd env env' = B
    generalize relOdd [x', y', z', h] env' = C
    cases s <;> cases A <;> cases B <;> cases C <;> rfl

example : translateTetra [7, 3, 9] [3, 1, 7, 9] (fun x => x == 1) (some true) none = .ok false := by decide

/-- the same with the atoms of the rebuilt molecule renumbered (`from_rdkit_molecule` numbers atoms by RDKit index): any
renumbering `f` that is injective on the neighbours leaves the label read back unchanged -/
theorem tag_roundtrip4_renumbered (f : Nat → Nat) (a b c d : Nat) (hnd : [a, b, c, d].Nodup)
    (hinj : ∀ x ∈ [a, b, c, d], ∀ y ∈ [a, b, c, d], f x = f y → x = y) (order order' env env' : List Nat)
    (ho : order.Perm [a, b, c, d]) (ho' : order'.Perm [a, b, c, d]) (he : env.Perm [a, b, c, d])
    (he' : env'.Perm [a, b, c, d]) (isH isH' : Nat → Bool) (s : Bool) :
    ∃ t, translateTetra order env isH (some s) none = .ok t ∧
         translateTetra (order'.map f) (env'.map f) isH' none (some (Rdkit.retag t (relOdd env env'))) =
           .ok (s ^^ relOdd order order') := by
  obtain ⟨t, h1, h2⟩ := tag_roundtrip4 a b c d hnd order order' env env' ho ho' he he' isH isH s
  exact ⟨t, h1, by rw [translateTetra_map4 f a b c d hnd hinj order' env' ho' he' isH isH' none none _]; exact h2⟩

theorem tag_roundtrip3_renumbered (f : Nat → Nat) (a b c : Nat) (hnd : [a, b, c].Nodup)
    (hinj : ∀ x ∈ [a, b, c], ∀ y ∈ [a, b, c], f x = f y → x = y) (order order' env env' : List Nat)
    (ho : order.Perm [a, b, c]) (ho' : order'.Perm [a, b, c]) (he : env.Perm [a, b, c]) (he' : env'.Perm [a, b, c])
    (isH isH' : Nat → Bool) (s : Bool) :
    ∃ t, translateTetra order env isH (some s) none = .ok t ∧
         translateTetra (order'.map f) (env'.map f) isH' none (some (Rdkit.retag t (relOdd env env'))) =
           .ok (s ^^ relOdd order order') := by
  obtain ⟨t, h1, h2⟩ := tag_roundtrip3 a b c hnd order order' env env' ho ho' he he' isH isH s
  exact ⟨t, h1, by rw [translateTetra_map3 f a b c hnd hinj order' env' ho' he' isH isH' none none _]; exact h2⟩

example : translateTetra ([5, 9, 3, 7].map (· + 10)) ([9, 3, 7, 5].map (· + 10)) (fun _ => false) none
    (some (Rdkit.retag false (relOdd [3, 7, 9, 5] [9, 3, 7, 5]))) = .ok (true ^^ relOdd [7, 3, 9, 5] [5, 9, 3, 7]) := by decide

/-- what `stereogenic_tetrahedrons` (as the model computes it) promises about every entry: the centre is a neutral,
non-radical carbon with single bonds only, the order is its neighbour list without hydrogens and has 3 or 4 members —
the shape the round-trip theorems assume -/
theorem stet_spec (m : Mol) (n : Nat) (o : List Nat) (h : (n, o) ∈ stereogenicTetrahedrons m) :
    o = ((m.nbrs n).map (·.1)).filter (fun x => !isHOf m x) ∧ (o.length = 3 ∨ o.length = 4) ∧
    (∀ x ∈ o, isHOf m x = false) ∧ n ∈ tetrahedrons m := by
  simp only [stereogenicTetrahedrons, List.mem_filterMap] at h
  obtain ⟨n', hn', hx⟩ := h
  split at hx
  · cases hx
  · split at hx
    · rename_i hlen
      simp only [Option.some.injEq, Prod.mk.injEq] at hx
      obtain ⟨rfl, rfl⟩ := hx
      refine ⟨rfl, ?_, ?_, hn'⟩
      · simpa using hlen
      · intro x hx
        simp only [List.mem_filter] at hx
        simpa using hx.2
    · cases hx

/-- with unique neighbour keys (a Python dict) the reference order has no repetition -/
theorem stet_nodup (m : Mol) (n : Nat) (o : List Nat) (h : (n, o) ∈ stereogenicTetrahedrons m)
    (hk : ((m.nbrs n).map (·.1)).Nodup) : o.Nodup := by
  rw [(stet_spec m n o h).1]
  exact hk.filter _

/-- "move stereo labels as is": one tetrahedral request. `KeyError` (centre not stereogenic in chython, or raised inside the
translation) drops the label silently; any other exception propagates; otherwise the translated sign is stored. -/
theorem moveTetra_step (env : StereoEnv) (isH : Nat → Bool) (n : Nat) (nb : List Nat) (s : Bool) (m : Mol) :
    (env.stet.lookup n = none → moveTetra env isH [(n, nb, s)] m = .ok m) ∧
    (∀ order, env.stet.lookup n = some order →
      (∀ v, translateTetra order nb isH none (some s) = .ok v → moveTetra env isH [(n, nb, s)] m = .ok (setAtomStereo m n v)) ∧
      (translateTetra order nb isH none (some s) = .error .keyError → moveTetra env isH [(n, nb, s)] m = .ok m) ∧
      (translateTetra order nb isH none (some s) = .error .valueError →
        moveTetra env isH [(n, nb, s)] m = .error (.py .valueError))) := by
  refine ⟨?_, ?_⟩
  · intro h; simp [moveTetra, h]
  · intro order h
    refine ⟨?_, ?_, ?_⟩
    · intro v hv; simp [moveTetra, h, hv]
    · intro hv; simp [moveTetra, h, hv]
    · intro hv; simp [moveTetra, h, hv]

/-- the tag the model sets is the documented tag of the translated sign; nothing is set for an unlabelled atom or for
an atom outside `stereogenic_tetrahedrons` (allene centres) -/
theorem toTag_spec (m : Mol) (env : StereoEnv) (ids : List Nat) (bonds : List RBond) (i n : Nat) (a : Atom) :
    (a.stereo = none → toTag m env ids bonds i n a = .ok none) ∧
    (env.stet.lookup n = none → toTag m env ids bonds i n a = .ok none) ∧
    (∀ s order nb t, a.stereo = some s → env.stet.lookup n = some order → nbrNumbers ids bonds i = .ok nb →
      translateTetra order nb (isHOf m) (some s) none = .ok t →
      toTag m env ids bonds i n a = .ok (some (Rdkit.tagOfAt t))) := by
  refine ⟨?_, ?_, ?_⟩
  · intro h; simp [toTag, h]
  · intro h; cases hs : a.stereo <;> simp [toTag, hs, h]
  · intro s order nb t hs ho hn ht
    simp [toTag, hs, ho, hn, ht, liftPy, bind, Except.bind, pure, Except.pure, (constants_agree_spec t).1]

/-! ## 5. double-bond configuration -/

/-- `to` writes the first neighbours `(n0, n1)` as stereo atoms and Z for label `True`.  RDKit may choose other stereo
atoms `x` (slot `k0` at the begin end), `y` (slot `k1` at the end end) and re-expresses the label by `Rdkit.relabel`;
`from` reads it against the environment `e'` of the rebuilt molecule where `x`, `y` occupy slots `k0'`, `k1'`.
The label read back differs from `s` exactly by the number of ends whose first neighbour changed: the same geometry. -/
theorem ez_roundtrip (e' : Ends) (isH : Nat → Bool) (wf' : EndsWF e' isH) (x y k0 k1 k0' k1' : Nat)
    (hk0 : k0 = 0 ∨ k0 = 2) (hk1 : k1 = 1 ∨ k1 = 3) (hk0' : k0' = 0 ∨ k0' = 2) (hk1' : k1' = 1 ∨ k1' = 3)
    (sx' : IsSlot e' isH k0' x) (sy' : IsSlot e' isH k1' y) (s : Bool) :
    translateEnds e' isH x y (Rdkit.relabel s (k0 == 2) (k1 == 3)) =
      .ok (s ^^ ((k0 == 2) != (k0' == 2)) ^^ ((k1 == 3) != (k1' == 3))) := by
  rw [translateEnds_slots e' isH wf' k0' k1' x y hk0' hk1' sx' sy']
  rcases hk0 with rfl | rfl <;> rcases hk1 with rfl | rfl <;> rcases hk0' with rfl | rfl <;> rcases hk1' with rfl | rfl <;>
    cases s <;> rfl

/-- with RDKit leaving the stereo atoms alone and the same environment on both sides the label is returned unchanged -/
theorem ez_roundtrip_same (e : Ends) (isH : Nat → Bool) (wf : EndsWF e isH) (s : Bool) :
    translateEnds e isH e.n0 e.n1 s = .ok s := by
  have := ez_roundtrip e isH wf e.n0 e.n1 0 1 0 1 (Or.inl rfl) (Or.inl rfl) (Or.inl rfl) (Or.inl rfl) rfl rfl s
  simpa [Rdkit.relabel] using this

/-- `from` finds the environment under either orientation of RDKit's bond: `(begin, end)` or `(end, begin)` with the
stereo atoms exchanged accordingly -/
theorem from_cis_trans_key (sct : List ((Nat × Nat) × Ends)) (isH : Nat → Bool) (n m x y : Nat) (z : Bool) (e : Ends) :
    (sct.lookup (n, m) = some e → translateCisTrans sct isH n m x y none (some z) = translateEnds e isH x y z) ∧
    (sct.lookup (n, m) = none → sct.lookup (m, n) = some e →
      translateCisTrans sct isH n m x y none (some z) = translateEnds e isH y x z) ∧
    (sct.lookup (n, m) = none → sct.lookup (m, n) = none →
      translateCisTrans sct isH n m x y none (some z) = .error .keyError) := by
  refine ⟨?_, ?_, ?_⟩
  · intro h; simp [translateCisTrans, h, pickSign, bind, Except.bind]
  · intro h1 h2; simp [translateCisTrans, h1, h2, getKey, pickSign, bind, Except.bind]
  · intro h1 h2; simp [translateCisTrans, h1, h2, getKey, bind, Except.bind]

/-- what the cis-trans loop of `to` writes for one labelled simple double bond: stereo atoms = indices of the first
neighbours, stereo = the documented Z/E of the label; unlabelled bonds, bonds outside `_stereo_cis_trans_centers` and
cumulated chains (the central pair is not the bond itself) are left alone -/
theorem toBondStereo_spec (env : StereoEnv) (ids : List Nat) (n k : Nat) (b : Bond) :
    (b.stereo = none → toBondStereo env ids (n, k, b) = .ok none) ∧
    (env.centers.lookup n = none → toBondStereo env ids (n, k, b) = .ok none) ∧
    (∀ s e i j s0 s1, b.stereo = some s → env.centers.lookup n = some (n, k) → env.sct.lookup (n, k) = some e →
      idxOf ids n = .ok i → idxOf ids k = .ok j → idxOf ids e.n0 = .ok s0 → idxOf ids e.n1 = .ok s1 →
      toBondStereo env ids (n, k, b) = .ok (some (i, j, Rdkit.stereoOfCis s, (s0, s1), i))) := by
  refine ⟨?_, ?_, ?_⟩
  · intro h; simp [toBondStereo, h, pure, Except.pure]
  · intro h; cases hs : b.stereo <;> simp [toBondStereo, hs, h, pure, Except.pure]
  · intro s e i j s0 s1 hs hc he hi hj h0 h1
    simp [toBondStereo, hs, hc, he, hi, hj, h0, h1, getKey, liftPy, bind, Except.bind, pure, Except.pure,
      (constants_agree_spec s).2]

/-- `SetStereoAtoms` is always called with a pair RDKit accepts: whichever way the double bond was added (as `bonds()` yields
it, or reversed by the direction rule), the first stereo atom is a neighbour of RDKit's begin atom and the second of its
end atom — provided only what the dictionaries promise (`n1` is bonded to `nm[0]`, `m1` to `nm[1]`).  Before repo commit
a2868f9 this failed for reversed bonds (`C/B=C/C`, `CC/S(C)(=O)=N/C`: `RuntimeError`). -/
theorem stereo_atoms_accepted (bonds : List RBond) (i j : Nat) (st : RdStereo) (s0 s1 i0 : Nat)
    (hij : i0 = i ∨ i0 = j) (hne : i ≠ j)
    (hb : ∃ rb ∈ bonds, (rb.bgn = i ∧ rb.end_ = j) ∨ (rb.bgn = j ∧ rb.end_ = i))
    (h0 : bondedR bonds i0 s0 = true) (h1 : bondedR bonds (if i0 = i then j else i) s1 = true) :
    ∃ out, applyStereo bonds i j st (s0, s1) i0 = .ok out := by
  unfold applyStereo
  obtain ⟨rb0, hrb0, hp0⟩ := hb
  have hsome : (bonds.find? (fun b => (b.bgn == i && b.end_ == j) || (b.bgn == j && b.end_ == i))).isSome := by
    rw [List.find?_isSome]
    refine ⟨rb0, hrb0, ?_⟩
    rcases hp0 with ⟨a, b⟩ | ⟨a, b⟩ <;> simp [a, b]
  cases hf : bonds.find? (fun b => (b.bgn == i && b.end_ == j) || (b.bgn == j && b.end_ == i)) with
  | none => rw [hf] at hsome; cases hsome
  | some rb =>
    have hp := List.find?_some hf
    simp only [Bool.or_eq_true, Bool.and_eq_true, beq_iff_eq] at hp
    simp only
    rcases hp with ⟨hb1, he1⟩ | ⟨hb1, he1⟩ <;> rcases hij with hi | hi
    · -- rb = (i, j), i0 = i
      have : (rb.bgn != i0) = false := by simp [hb1, hi]
      simp only [this, Bool.false_eq_true, if_false]
      rw [hi] at h0; simp only [hi, if_true] at h1
      simp [hb1, he1, h0, h1]
    · -- rb = (i, j), i0 = j
      have : (rb.bgn != i0) = true := by simp [hb1, hi, hne]
      have hji : ¬ j = i := fun e => hne e.symm
      simp only [this, if_true]
      rw [hi] at h0; simp only [hi, hji, if_false] at h1
      simp [hb1, he1, h0, h1]
    · -- rb = (j, i), i0 = i
      have : (rb.bgn != i0) = true := by simp [hb1, hi]; exact fun e => hne e.symm
      simp only [this, if_true]
      rw [hi] at h0; simp only [hi, if_true] at h1
      simp [hb1, he1, h0, h1]
    · -- rb = (j, i), i0 = j
      have : (rb.bgn != i0) = false := by simp [hb1, hi]
      have hji : ¬ j = i := fun e => hne e.symm
      simp only [this, Bool.false_eq_true, if_false]
      rw [hi] at h0; simp only [hi, hji, if_false] at h1
      simp [hb1, he1, h0, h1]

example : ∃ out, applyStereo [⟨0, 1, .SINGLE, .STEREONONE, none⟩, ⟨2, 1, .DOUBLE, .STEREONONE, none⟩, ⟨2, 3, .SINGLE, .STEREONONE, none⟩]
    1 2 .STEREOE (0, 3) 1 = .ok out := ⟨_, rfl⟩

/-! ## 6. dative direction -/

/-- a bond between a metal (symbol outside `_inorganic`) and a non-metal is always handed to RDKit as
non-metal → metal, whichever end `bonds()` yields first: the donor is the begin atom as RDKit's `DATIVE` requires -/
theorem dative_direction (m : Mol) (metal donor : Nat) (hm : inorganicZ.contains (zOf m metal) = false)
    (hd : inorganicZ.contains (zOf m donor) = true) :
    orient m metal donor = (donor, metal) ∧ orient m donor metal = (donor, metal) := by
  constructor
  · simp only [orient, hm]; rfl
  · simp only [orient, hd]; rfl

example : inorganicZ.contains 29 = false ∧ inorganicZ.contains 7 = true ∧
    orient ⟨[(1, { z := 29 }), (2, { z := 7 })], []⟩ 1 2 = (2, 1) := by decide

/-- the rule only ever exchanges the two ends: the undirected bond is unchanged -/
theorem orient_same_bond (m : Mol) (n k : Nat) : orient m n k = (n, k) ∨ orient m n k = (k, n) := by
  unfold orient; split <;> simp

/-- `_inorganic` separates donors from acceptors the way the direction rule needs: no element that chython itself classifies
as a metal (`is_forming_single_bonds = False`, noble gases aside) is listed, and EVERY element chython classifies as a non-metal
(`is_forming_single_bonds = True`) is, except the two recorded acceptors boron and astatine.
So every bond between such a donor and a metal is oriented donor → metal (`dative_direction`). -/
theorem inorganic_vs_metals :
    (∀ row ∈ periodicTable, row.single = false → [2, 10, 18, 36, 54, 86, 118].contains row.z = false →
      inorganicZ.contains row.z = false) ∧
    (∀ row ∈ periodicTable, row.single = true → [5, 85].contains row.z = false → inorganicZ.contains row.z = true) ∧
    inorganic.length = inorganicZ.length ∧ inorganicZ.Nodup := by decide +kernel

/-! ## 7. shape of the converted molecules: atom order, map numbers, coordinates, neighbour order -/

/-- `to`: one RDKit atom per chython atom in `_atoms` order (so `mapping[n]` is the position of `n`), one bond per
`bonds()` entry, and the first conformer carries exactly the `xy` of the atoms in that order -/
theorem to_shape (c : CMol) (env : StereoEnv) (keep : Bool) (r : RMol) (h : toRdWith c env keep = .ok r) :
    r.atoms.length = c.mol.atoms.length ∧ r.bonds.length = c.mol.bonds.length ∧ r.pos = some c.xy := by
  simp only [toRdWith, bind, Except.bind] at h
  split at h
  · cases h
  · rename_i atoms0 h0
    split at h
    · cases h
    · rename_i bonds0 hb0
      split at h
      · cases h
      · rename_i atoms1 h1
        split at h
        · cases h
        · rename_i bonds1 hb1
          simp only [pure, Except.pure, Except.ok.injEq] at h
          subst h
          refine ⟨?_, ?_, rfl⟩
          · simp only
            rw [setTags_length _ _ _ _ _ _ _ _ h1]
          · simp only
            rw [setBondStereo_length _ _ _ _ _ hb1, mapM_ok_length _ _ _ hb0]

/-- `from`: atoms are numbered 1..N in RDKit index order, `parsed_mapping` is the RDKit map number, the coordinates are
those of the first conformer, and the neighbour dict of atom `i + 1` lists RDKit's neighbours of atom `i` in RDKit's
bond order — so `stereogenic_tetrahedrons` of the new molecule is RDKit's own neighbour order without hydrogens -/
theorem from_shape (r : RMol) (nbrs : List (List Nat)) (c : CMol) (tet : List (Nat × List Nat × Bool))
    (ct : List (Nat × Nat × Nat × Nat × Bool)) (h : fromGraph r nbrs = .ok (c, tet, ct)) :
    c.mol.ids = (List.range r.atoms.length).map (· + 1) ∧
    c.pmap = r.atoms.map (·.mapNum) ∧
    (∀ p, r.pos = some p → p.length = r.atoms.length → c.xy = p) ∧
    (∀ i, i < r.atoms.length → (c.mol.nbrs (i + 1)).map (·.1) = (rNbrs r.bonds i).map (· + 1)) := by
  simp only [fromGraph, bind, Except.bind] at h
  split at h
  · cases h
  · rename_i as has
    split at h
    · cases h
    · rename_i v hv
      obtain ⟨adj, ct1⟩ := v
      simp only [pure, Except.pure, Except.ok.injEq, Prod.mk.injEq] at h
      obtain ⟨rfl, _, _⟩ := h
      have hlen := mapM_ok_length _ _ _ has
      refine ⟨?_, ?_, ?_, ?_⟩
      · simp only [Mol.ids, hlen]
        rw [List.map_fst_zip]
        simp [hlen]
      · exact mapM_fromAtom_pmap _ _ has
      · intro p hp hl
        simp only [hp, hlen, ← hl]
        exact range_getD_eq (0, 0) p
      · intro i hi
        have key := fromBonds_lookup r.bonds _ adj [] ct1 hv (i + 1)
        rw [hlen, lookup_zip_range r.atoms.length (i + 1) ⟨by omega, by omega⟩] at key
        simp only [Option.map_some, List.map_nil, List.nil_append] at key
        rw [nbrsAt_eq_rNbrs] at key
        simp only [Mol.nbrs]
        cases hl : adj.lookup (i + 1) with
        | none => simp [hl] at key
        | some l =>
          simp only [hl, Option.map_some, Option.some.injEq] at key
          simpa using key

/-- consequence of `from_shape`: without explicit hydrogens the reference order of the rebuilt molecule *is* RDKit's
neighbour order, so `from` stores exactly "the tag is the `@` tag" (no translation happens) -/
theorem from_label_is_tag (env : List Nat) (hl : env.length = 3 ∨ env.length = 4) (hnd : env.Nodup)
    (isH : Nat → Bool) (s : Bool) : translateTetra env env isH none (some s) = .ok s := by
  rcases hl with hl | hl
  · match env, hl with
    | [x, y, z], _ =>
      have := translateTetra_implicitH x y z hnd [x, y, z] (List.Perm.refl _) isH none s
      rw [this]
      have h0 : relOdd [x, y, z] [x, y, z] = false := by
        obtain ⟨h, ha, hb, hc⟩ := fresh3 x y z
        have hf := nodup4_of_fresh hnd ha hb hc
        rw [relOdd_lift3 hnd h hf [x, y, z] [x, y, z] (List.Perm.refl _) (List.Perm.refl _)]
        exact relOdd_self4 hf _ (List.Perm.refl _)
      simp [h0]
  · match env, hl with
    | [w, x, y, z], _ =>
      have := translateTetra_perm4 w x y z hnd [w, x, y, z] (List.Perm.refl _) isH none s
      rw [this, relOdd_self4 hnd _ (List.Perm.refl _)]
      simp

/-! ## 8. the neighbour order `to` hands to the sign translation is an arrangement of the atom's neighbours -/

/-- `Graph.bonds()` lists every bond exactly once: for a well-formed `_bonds` (unique keys, no loops, neighbours are atoms,
symmetric) the other ends of the entries touching `x` are a permutation of `x`'s neighbour keys -/
theorem bonds_once (m : Mol) (wf : AdjWF m.adj) (x : Nat) :
    ((m.bonds).filterMap (otherEnd x)).Perm (nbrKeys m.adj x) := bonds_other_perm m wf x

/-- hence after the bond loop of `to_rdkit_molecule` (whatever the direction rule exchanged) RDKit's neighbour list of the atom,
mapped back to chython numbers, is an arrangement of the atom's chython neighbours: the hypothesis `env.Perm …` of the
round-trip theorems holds for the very list the model passes to `translateTetra` -/
theorem to_env_is_arrangement (m : Mol) (wf : AdjWF m.adj) (bonds0 : List RBond)
    (hb : m.bonds.mapM (toBond m m.ids) = .ok bonds0) (x i : Nat) (hx : index? m.ids x = some i) :
    ∃ nb, nbrNumbers m.ids bonds0 i = .ok nb ∧ nb.Perm (nbrKeys m.adj x) :=
  ⟨_, to_neighbours m m.ids m.bonds bonds0 hb (bonds_noloop m wf) x i hx, bonds_other_perm m wf x⟩

example : AdjWF [(1, [(2, ⟨1, none⟩), (3, ⟨2, none⟩)]), (2, [(1, ⟨1, none⟩)]), (3, [(1, ⟨2, none⟩)])] :=
  ⟨by decide, by decide, by decide, by decide, by
    intro n k h
    by_cases h1 : n = 1
    · subst h1
      have : k = 2 ∨ k = 3 := by simpa [nbrKeys, List.lookup] using h
      rcases this with rfl | rfl <;> decide
    · by_cases h2 : n = 2
      · subst h2
        have : k = 1 := by simpa [nbrKeys, List.lookup] using h
        subst this; decide
      · by_cases h3 : n = 3
        · subst h3
          have : k = 1 := by simpa [nbrKeys, List.lookup] using h
          subst this; decide
        · exfalso
          have e1 : (n == 1) = false := by simp [h1]
          have e2 : (n == 2) = false := by simp [h2]
          have e3 : (n == 3) = false := by simp [h3]
          simp [nbrKeys, List.lookup, e1, e2, e3] at h⟩

/-! ## conformers (`_conformers` ↔ RDKit conformers) -/

/-- `{n: v for n, v in enumerate(positions, 1)}`: atom number `i + 1` ↦ the position at index `i`; no key `0` -/
theorem keyed_lookup (ps : List P3) : (keyed ps).lookup 0 = none ∧ ∀ i, (keyed ps).lookup (i + 1) = ps[i]? := by
  have gen : ∀ (ps : List P3) (s : Nat), (∀ k, k < s → ((List.range' s ps.length).zip ps).lookup k = none) ∧
      ∀ i, ((List.range' s ps.length).zip ps).lookup (s + i) = ps[i]? := by
    intro ps
    induction ps with
    | nil => intro s; simp [List.lookup]
    | cons p rest ih =>
      intro s
      obtain ⟨h1, h2⟩ := ih (s + 1)
      constructor
      · intro k hk
        have hb : (k == s) = false := by simp; omega
        simp only [List.length_cons, List.range'_succ, List.zip_cons_cons, List.lookup, hb]
        exact h1 k (by omega)
      · intro i
        cases i with
        | zero => simp [List.range'_succ, List.lookup]
        | succ j =>
          have hb : (s + (j + 1) == s) = false := by simp
          simp only [List.length_cons, List.range'_succ, List.zip_cons_cons, List.lookup, hb, List.getElem?_cons_succ]
          have := h2 j
          rwa [show s + 1 + j = s + (j + 1) by omega] at this
  obtain ⟨h1, h2⟩ := gen ps 1
  refine ⟨h1 0 (by omega), fun i => ?_⟩
  have := h2 i
  rwa [show 1 + i = i + 1 by omega] at this

/-- one conformer dict, read in ITS OWN key order, whatever that is: when its keys are atoms of the molecule and the atom added
last is among them, the RDKit conformer holds at index `i` the dict's value for the `i`-th atom — the origin for an atom the
dict does not mention (`SetAtomPosition` grows the conformer with origins). -/
theorem conformer_positions (ids : List Nat) (hnd : ids.Nodup) (d : List (Nat × P3)) (hk : (d.map (·.1)).Nodup)
    (hsub : ∀ e ∈ d, e.1 ∈ ids) (hlast : ∀ l, ids.getLast? = some l → l ∈ d.map (·.1)) :
    fillConf ids d [] = .ok (ids.map fun n => (d.lookup n).getD origin) := by
  obtain ⟨ps', hps⟩ := fillConf_ok ids d [] hsub
  obtain ⟨_, hin, hub⟩ := fillConf_length ids d [] ps' hps
  have hget := fillConf_getD ids hnd d [] ps' hps hk
  have hle : ps'.length ≤ ids.length :=
    hub ids.length (Nat.zero_le _) (fun e _ i hi => index?_lt ids e.1 i hi)
  have hge : ids.length ≤ ps'.length := by
    cases hl : ids.getLast? with
    | none =>
      have : ids = [] := by simpa using hl
      subst this; simp
    | some l =>
      obtain ⟨e, he, hel⟩ := List.mem_map.mp (hlast l hl)
      have hmem : l ∈ ids := List.mem_of_getLast? hl
      obtain ⟨i, _, hi⟩ := idxOf_of_mem hmem
      have hpos : 0 < ids.length := List.length_pos_of_mem hmem
      have hlastidx : ids[ids.length - 1]? = some l := by
        rw [List.getLast?_eq_getElem?] at hl; exact hl
      have : ids.length - 1 = i := getElem?_index_nodup hnd hi hlastidx
      have := hin e he i (by rw [hel]; exact hi)
      omega
  rw [hps]
  congr 1
  apply List.ext_getElem (by simp; omega)
  intro j h1 h2
  have hj : j < ids.length := by simpa using h2
  have := hget j
  rw [List.getD_eq_getElem?_getD, List.getElem?_eq_getElem h1, List.getElem?_eq_getElem hj] at this
  simp only [Option.getD_some] at this
  rw [this]
  simp only [List.getElem_map]
  cases d.lookup ids[j] <;> simp [origin]

/-- a well-formed `_conformers` entry for the atoms `ids`: a dict (distinct keys) over atoms of the molecule that mentions the
atom added last (every complete dict does, in any key order) -/
def ConfDict (ids : List Nat) (d : List (Nat × P3)) : Prop :=
  (d.map (·.1)).Nodup ∧ (∀ e ∈ d, e.1 ∈ ids) ∧ ∀ l, ids.getLast? = some l → l ∈ d.map (·.1)

example : ConfDict [7, 3, 5] [(5, (1, 2, 3)), (7, (4, 5, 6)), (3, (0, 0, 1))] := by
  refine ⟨by decide, by decide, ?_⟩
  intro l h; simp at h; subst h; decide

theorem addConformers_ok (ids : List Nat) (hnd : ids.Nodup) : ∀ (confs : List (List (Nat × P3))) (cs : List RConf),
    (∀ d ∈ confs, ConfDict ids d) →
    addConformers ids confs cs = .ok (cs ++ confs.map fun d => ⟨true, ids.map fun n => (d.lookup n).getD origin⟩) := by
  intro confs
  induction confs with
  | nil => intro cs _; simp [addConformers]
  | cons d rest ih =>
    intro cs h
    obtain ⟨h1, h2, h3⟩ := h d List.mem_cons_self
    have := ih (cs ++ [⟨true, ids.map fun n => (d.lookup n).getD origin⟩]) (fun d' hd' => h d' (List.mem_cons_of_mem _ hd'))
    simp only [addConformers, conformer_positions ids hnd d h1 h2 h3, addConf, List.length_map, if_true]
    rw [this]
    simp

/-- **`to_rdkit_molecule`, conformers.** For a molecule with atoms `ids` (in `_atoms` order) at `xy` and ANY list of well-formed
conformer dicts, each in its own key order, the RDKit molecule receives: first the 2-D conformer of the `xy` (z = 0), then one 3-D
conformer per dict, in order, holding at index `i` the dict's position of the `i`-th atom. Nothing raises. -/
theorem conformers_to (ids : List Nat) (hnd : ids.Nodup) (xy : List (Int × Int)) (hxy : ids.length = xy.length)
    (confs : Option (List (List (Nat × P3)))) (hd : ∀ l, confs = some l → ∀ d ∈ l, ConfDict ids d) :
    toConformers ids xy confs = .ok (⟨false, xy.map fun (x, y) => (x, y, 0)⟩ ::
      (confs.getD []).map fun d => ⟨true, ids.map fun n => (d.lookup n).getD origin⟩) := by
  have hz : ((ids.zip xy).map fun (n, x, y) => (n, ((x, y, 0) : P3))) = ids.zip (xy.map fun (x, y) => ((x, y, 0) : P3)) := by
    rw [List.zip_map_right]
    apply List.map_congr_left
    intro a _; rfl
  have hkeys : ((ids.zip (xy.map fun (x, y) => ((x, y, 0) : P3))).map (·.1)) = ids := by
    rw [List.map_fst_zip]; simp [hxy]
  have h0 : fillConf ids ((ids.zip xy).map fun (n, x, y) => (n, ((x, y, 0) : P3))) [] =
      .ok (xy.map fun (x, y) => ((x, y, 0) : P3)) := by
    rw [hz, conformer_positions ids hnd _ (by rw [hkeys]; exact hnd)
      (by intro e he; exact (List.of_mem_zip (show (e.1, e.2) ∈ _ from he)).1)
      (by intro l hl; rw [hkeys]; exact List.mem_of_getLast? hl)]
    rw [lookup_zip_nodup ids _ hnd (by simp [hxy])]
  unfold toConformers
  simp only [h0, addConf, List.length_map, ← hxy, if_true, List.nil_append]
  cases confs with
  | none => simp
  | some l =>
    simp only [Option.getD_some]
    rw [addConformers_ok ids hnd l _ (hd l rfl)]
    simp

/-- **`from_rdkit_molecule`, conformers** (every RDKit conformer has one position per atom): `xy` are x, y of the FIRST conformer
whatever its flag; `_conformers` are the 3-D conformers in order, keyed by `keyed` (1 … N); the attribute stays unset when there
is no 3-D conformer; no conformer at all leaves the coordinates alone. -/
theorem conformers_from (n : Nat) (c0 : RConf) (rest : List RConf) (h0 : c0.pos.length = n) :
    fromConformers n [] = (none, none) ∧
    (fromConformers n (c0 :: rest)).1 = some (c0.pos.map fun (x, y, _) => (x, y)) ∧
    (fromConformers n (c0 :: rest)).2 =
      (if (c0 :: rest).all (fun c => !c.is3D) then none else some (((c0 :: rest).filter (·.is3D)).map fun c => keyed c.pos)) := by
  refine ⟨rfl, ?_, ?_⟩
  · simp only [fromConformers, Option.some.injEq]
    apply List.ext_getElem (by simp [h0])
    intro i h1 h2
    have hi : i < c0.pos.length := by simpa using h2
    simp [List.getElem?_eq_getElem hi]
  · simp only [fromConformers]
    by_cases hall : (c0 :: rest).all (fun c => !c.is3D) = true
    · have : (c0 :: rest).filter (·.is3D) = [] := by
        rw [List.filter_eq_nil_iff]
        intro c hc
        have := List.all_eq_true.mp hall c hc
        simpa using this
      simp [hall, this]
    · have hne : (c0 :: rest).filter (·.is3D) ≠ [] := by
        intro hnil
        apply hall
        rw [List.all_eq_true]
        intro c hc
        have := (List.filter_eq_nil_iff.mp hnil) c hc
        simpa using this
      simp only [hall]
      simp [hne]

/-- **conformer round trip** (RDKit as the identity on conformers): `from(to(m))` has the same `xy`, and `_conformers` is the same
list in the same order with every dict re-keyed by atom position (`keyed`): position `i` holds what the dict held for the `i`-th
atom — independent of the key order of each dict. An absent attribute and an empty list both come back as "absent". -/
theorem conformers_roundtrip (ids : List Nat) (hnd : ids.Nodup) (xy : List (Int × Int)) (hxy : ids.length = xy.length)
    (confs : Option (List (List (Nat × P3)))) (hd : ∀ l, confs = some l → ∀ d ∈ l, ConfDict ids d) :
    ∃ cs, toConformers ids xy confs = .ok cs ∧
      fromConformers ids.length cs =
        (some xy, if (confs.getD []).isEmpty then none
                  else some ((confs.getD []).map fun d => keyed (ids.map fun n => (d.lookup n).getD origin))) := by
  refine ⟨_, conformers_to ids hnd xy hxy confs hd, ?_⟩
  have hfil : ∀ (l : List (List (Nat × P3))),
      ((l.map fun d => (⟨true, ids.map fun n => (d.lookup n).getD origin⟩ : RConf)).filter (·.is3D)) =
        l.map fun d => ⟨true, ids.map fun n => (d.lookup n).getD origin⟩ := by
    intro l; rw [List.filter_eq_self]; intro c hc
    obtain ⟨d, _, rfl⟩ := List.mem_map.mp hc; rfl
  simp only [fromConformers, List.filter_cons, Bool.false_eq_true, if_false, hfil, List.map_map, List.isEmpty_map]
  congr 1
  · congr 1
    apply List.ext_getElem (by simp [hxy])
    intro i h1 h2
    have hi : i < xy.length := by simpa using h2
    simp [hi]

/-- error branches of the conformer loop: a key that is no atom of the molecule is the `KeyError` of `mapping[n]`; a dict over
atoms of the molecule that lacks the atom added last leaves the conformer short and `AddConformer` refuses it (`RuntimeError`) -/
theorem conformer_error_branches (ids : List Nat) (d : List (Nat × P3)) (rest : List (List (Nat × P3)))
    (cs : List RConf) :
    ((∃ e ∈ d, e.1 ∉ ids) → addConformers ids (d :: rest) cs = .error (.py .keyError)) ∧
    ((∀ e ∈ d, e.1 ∈ ids) → (∃ l, ids.getLast? = some l ∧ l ∉ d.map (·.1)) →
      addConformers ids (d :: rest) cs = .error .runtime) := by
  constructor
  · intro h
    simp [addConformers, fillConf_unknown ids d [] h]
  · intro hsub ⟨l, hl, hnot⟩
    obtain ⟨ps', hps⟩ := fillConf_ok ids d [] hsub
    obtain ⟨_, _, hub⟩ := fillConf_length ids d [] ps' hps
    have hmem : l ∈ ids := List.mem_of_getLast? hl
    have hpos : 0 < ids.length := List.length_pos_of_mem hmem
    have hlastidx : ids[ids.length - 1]? = some l := by
      rw [List.getLast?_eq_getElem?] at hl; exact hl
    have hshort : ps'.length ≤ ids.length - 1 := by
      apply hub _ (Nat.zero_le _)
      intro e he i hi
      have hlt := index?_lt ids e.1 i hi
      have hne : i ≠ ids.length - 1 := by
        intro heq
        have h1 := index?_getElem ids e.1 i hi
        rw [heq, hlastidx] at h1
        have : l = e.1 := Option.some.inj h1
        exact hnot (List.mem_map.mpr ⟨e, he, this.symm⟩)
      omega
    have : ¬ ps'.length = ids.length := by omega
    simp [addConformers, hps, addConf, this]

example : addConformers [7, 3, 5] [[(5, (1, 2, 3)), (7, (4, 5, 6))]] [] =
    .ok [⟨true, [(4, 5, 6), (0, 0, 0), (1, 2, 3)]⟩] := by decide
example : addConformers [7, 3, 5] [[(7, (4, 5, 6)), (3, (1, 1, 1))]] [] = .error .runtime := by decide
example : addConformers [7, 3, 5] [[(7, (4, 5, 6)), (9, (1, 1, 1)), (5, (0, 0, 0))]] [] = .error (.py .keyError) := by decide

/-! ## `from_rdkit_molecule` to its return value (`fix_structure` + `fix_stereo`, `Model/C20FromFinal.lean`) -/
section FromFinal
open ChythonModel.Model.StereoFix ChythonModel.Proofs.C12Fix

/-- `fix_stereo` touches labels only: with all labels erased the molecule is what it was -/
theorem fix_stereo_mol_structure (ch : List Label → SUnit → Bool) (m : Mol) (env : StereoEnv) (sc : List Cumulene) :
    clearLabels (fixStereoMol ch m env sc).1 = clearLabels m := by
  simp [fixStereoMol, clearLabels_foldl, clearLabels_idem]

/-- **the tail of `from_rdkit_molecule` changes nothing but labels**: whatever the `chiral_*` sets answer, the returned molecule
has the atoms, hydrogens, charges, isotopes, radicals, bonds, `parsed_mapping` and `xy` that the transfer loops built (`fromRd`),
and without any chiral tag / E-Z mark on the RDKit side `fix_stereo` is not even called. -/
theorem from_final_structure (r : RMol) (nbrs : List (List Nat)) (ch : List Label → SUnit → Bool) (c' : CMol) (o : Option Out)
    (h : fromRdFinal r nbrs ch = .ok (c', o)) :
    ∃ c, fromRd r nbrs = .ok c ∧ c'.pmap = c.pmap ∧ c'.xy = c.xy ∧ clearLabels c'.mol = clearLabels c.mol ∧
      (o = none → c' = c) ∧
      (∀ c0 tet ct, fromGraph r nbrs = .ok (c0, tet, ct) → (o = none ↔ tet = [] ∧ ct = [])) := by
  unfold fromRdFinal at h
  cases hg : fromGraph r nbrs with
  | error e => simp [hg, bind, Except.bind] at h
  | ok v =>
    obtain ⟨c0, tet, ct⟩ := v
    cases hsc : liftPy (stereogenicCumulenes c0.mol) with
    | error e => simp [hg, hsc, bind, Except.bind] at h
    | ok sc =>
      cases henv : liftPy (stereoEnvOf c0.mol) with
      | error e => simp [hg, hsc, henv, bind, Except.bind] at h
      | ok env =>
        cases hw : fromRdWith r nbrs env with
        | error e => simp [hg, hsc, henv, hw, bind, Except.bind] at h
        | ok c =>
          simp only [hg, hsc, henv, hw, bind, Except.bind, pure, Except.pure] at h
          refine ⟨c, by simp [fromRd, hg, henv, hw, bind, Except.bind], ?_⟩
          split at h
          · rename_i hemp
            simp only [Except.ok.injEq, Prod.mk.injEq] at h
            obtain ⟨rfl, rfl⟩ := h
            refine ⟨rfl, rfl, rfl, fun _ => rfl, ?_⟩
            intro c0' tet' ct' he
            simp only [Except.ok.injEq, Prod.mk.injEq] at he
            obtain ⟨_, rfl, rfl⟩ := he
            simpa using hemp
          · rename_i hemp
            simp only [Except.ok.injEq, Prod.mk.injEq] at h
            obtain ⟨rfl, rfl⟩ := h
            refine ⟨rfl, rfl, fix_stereo_mol_structure ch c.mol env sc, ?_, ?_⟩
            · intro hn; cases hn
            intro c0' tet' ct' he
            simp only [Except.ok.injEq, Prod.mk.injEq] at he
            obtain ⟨_, rfl, rfl⟩ := he
            constructor
            · intro hn; cases hn
            · intro hh; exact absurd (by simpa using hh) hemp

/-- **soundness of the returned atom labels**: a label on an atom of the molecule `fix_stereo` leaves behind is the label the
transfer put there (same sign), the atom is a key of `stereogenic_tetrahedrons` (or an allene centre), and its unit was reported
chiral for the labels restored before it (an initial segment `q` of the final labels) — nothing is invented, nothing flips. -/
theorem fix_stereo_mol_atom_sound (ch : List Label → SUnit → Bool) (m : Mol) (env : StereoEnv) (sc : List Cumulene)
    (n : Nat) (a' : Atom) (s : Bool) (h : (n, a') ∈ (fixStereoMol ch m env sc).1.atoms) (hs : a'.stereo = some s) :
    (∃ a, (n, a) ∈ m.atoms ∧ a.stereo = some s) ∧
    ∃ u : SUnit, u.a = n ∧ (u, s) ∈ (fixStereoMol ch m env sc).2.labels ∧
      ((u.kind = .tetra ∧ (env.stet.lookup n).isSome = true) ∨ (u.kind = .allene ∧ n ∈ allenesOf sc)) ∧
      ∃ q, q <+: (fixStereoMol ch m env sc).2.labels ∧ ch q u = true := by
  simp only [fixStereoMol] at h ⊢
  rcases foldl_atom_label _ _ n a' s h hs with ⟨l, hl, hk, ha, hsg⟩ | ⟨a0, ha0, hs0⟩
  · obtain ⟨hcol, q, hq, hch⟩ := ChythonModel.Props.C12.fix_stereo_sound ch _ _ l hl
    obtain ⟨u, sg⟩ := l
    simp only at hk ha hsg
    subst hsg
    have hrule := collectAtoms_rule (fixAtomsIn m env (allenesOf sc)) u sg
    simp only [collect] at hcol
    rcases List.mem_append.mp hcol with h1 | h3
    · rcases List.mem_append.mp h1 with ht | hal
      · obtain ⟨x, hx, hxs, hxt, hu⟩ := hrule.1.mp ht
        simp only [fixAtomsIn, List.mem_map] at hx
        obtain ⟨⟨n0, a0⟩, hmem, rfl⟩ := hx
        subst hu
        simp only at ha hxs hxt
        subst ha
        exact ⟨⟨a0, hmem, hxs⟩, _, rfl, hl, .inl ⟨rfl, hxt⟩, q, hq, hch⟩
      · obtain ⟨x, hx, hxs, _, hxa, hu⟩ := hrule.2.mp hal
        simp only [fixAtomsIn, List.mem_map] at hx
        obtain ⟨⟨n0, a0⟩, hmem, rfl⟩ := hx
        subst hu
        simp only at ha hxs hxa
        subst ha
        exact ⟨⟨a0, hmem, hxs⟩, _, rfl, hl, .inr ⟨rfl, by simpa using hxa⟩, q, hq, hch⟩
    · obtain ⟨b, _, _, _, ta, _, _, hu⟩ := (collectBonds_rule _ u sg).mp h3
      subst hu
      exact absurd rfl hk
  · exact absurd hs0 (clearLabels_no_atom_label m n a0 s ha0)

/-- **completeness for the returned atom labels** (the loop reaches a fixpoint; atom numbers distinct): a label the transfer put
on a stereogenic tetrahedron whose unit is chiral with respect to the labels finally present IS on the returned molecule, with
its sign — in particular a centre that is stereogenic only through labels restored in an earlier round (pseudo-asymmetric
centres): a single pass over the labels is not what the code does. -/
theorem fix_stereo_mol_atom_complete (ch : List Label → SUnit → Bool) (m : Mol) (env : StereoEnv) (sc : List Cumulene)
    (hnd : m.ids.Nodup) (n : Nat) (a : Atom) (s : Bool) (ha : (n, a) ∈ m.atoms) (hs : a.stereo = some s)
    (ht : (env.stet.lookup n).isSome = true)
    (hc : ch (fixStereoMol ch m env sc).2.labels ⟨.tetra, n, 0⟩ = true) :
    ∀ a', (n, a') ∈ (fixStereoMol ch m env sc).1.atoms → a'.stereo = some s := by
  simp only [fixStereoMol] at hc ⊢
  have hx : (⟨n, a.stereo, (env.stet.lookup n).isSome, (allenesOf sc).contains n⟩ : AtomIn) ∈ fixAtomsIn m env (allenesOf sc) :=
    List.mem_map.mpr ⟨(n, a), ha, rfl⟩
  have hq : ((⟨.tetra, n, 0⟩ : SUnit), s) ∈ collect (fixAtomsIn m env (allenesOf sc)) (fixBondsIn m (terminalsOf sc)) := by
    simp only [collect]
    apply List.mem_append_left
    apply List.mem_append_left
    exact (collectAtoms_rule _ _ s).1.mpr ⟨_, hx, hs, ht, rfl⟩
  have hin := ChythonModel.Props.C12.fix_stereo_complete ch _ _ _ hq hc
  apply foldl_atom_label_present s n _ (clearLabels m)
  · intro l hl hk hla
    obtain ⟨hcol, _⟩ := ChythonModel.Props.C12.fix_stereo_sound ch _ _ l hl
    obtain ⟨u, sg⟩ := l
    simp only at hk hla ⊢
    have hrule := collectAtoms_rule (fixAtomsIn m env (allenesOf sc)) u sg
    simp only [collect] at hcol
    have fromItem : ∀ x : AtomIn, x ∈ fixAtomsIn m env (allenesOf sc) → x.stereo = some sg → x.n = n → sg = s := by
      intro x hxm hxs hxn
      have := fixAtomsIn_unique m env (allenesOf sc) hnd x _ hxm hx hxn
      subst this
      simp only at hxs
      rw [hs] at hxs
      exact (Option.some.inj hxs).symm
    rcases List.mem_append.mp hcol with h1 | h3
    · rcases List.mem_append.mp h1 with ht' | hal
      · obtain ⟨x, hxm, hxs, _, hu⟩ := hrule.1.mp ht'
        subst hu
        exact fromItem x hxm hxs hla
      · obtain ⟨x, hxm, hxs, _, _, hu⟩ := hrule.2.mp hal
        subst hu
        exact fromItem x hxm hxs hla
    · obtain ⟨b, _, _, _, ta, _, _, hu⟩ := (collectBonds_rule _ u sg).mp h3
      subst hu
      exact absurd rfl hk
  · exact .inl ⟨_, hin, by simp, rfl⟩

/-- hypotheses of the two theorems above are satisfiable and the second round matters: 2,3,4-pentanetriol-like situation — atoms
2 and 4 chiral on constitution, atom 3 only once 2 and 4 carry labels; all three labels come back -/
example :
    let m : Mol := ⟨[(1, { z := 6 }), (2, { z := 6, stereo := some true }), (3, { z := 6, stereo := some false }),
                     (4, { z := 6, stereo := some false }), (5, { z := 6 })], []⟩
    let env : StereoEnv := ⟨[(2, [1, 3, 6]), (3, [2, 4, 7]), (4, [3, 5, 8])], [], []⟩
    let ch : List Label → SUnit → Bool := fun r u => u.a != 3 || r.length ≥ 2
    ((fixStereoMol ch m env []).1.atoms.map fun (n, a) => (n, a.stereo)) =
      [(1, none), (2, some true), (3, some false), (4, some false), (5, none)] ∧
    (fixStereoMol ch m env []).2.asked.length = 2 := by decide

end FromFinal

section FromFinal2
open ChythonModel.Model.StereoFix ChythonModel.Proofs.C12Fix

/-- the molecule the transfer loops build is numbered 1 … N (moving labels renumbers nothing): atom numbers are distinct -/
theorem from_ids (r : RMol) (nbrs : List (List Nat)) (c : CMol) (h : fromRd r nbrs = .ok c) :
    c.mol.ids = (List.range r.atoms.length).map (· + 1) ∧ c.mol.ids.Nodup := by
  have key : c.mol.ids = (List.range r.atoms.length).map (· + 1) := by
    unfold fromRd at h
    cases hg : fromGraph r nbrs with
    | error e => simp [hg, bind, Except.bind] at h
    | ok v =>
      obtain ⟨c0, tet, ct⟩ := v
      cases henv : liftPy (stereoEnvOf c0.mol) with
      | error e => simp [hg, henv, bind, Except.bind] at h
      | ok env =>
        simp only [hg, henv, bind, Except.bind, fromRdWith] at h
        cases h1 : moveTetra env (isHOf c0.mol) tet c0.mol with
        | error e => simp [h1] at h
        | ok m1 =>
          cases h2 : moveCisTrans env (isHOf c0.mol) ct m1 with
          | error e => simp [h1, h2] at h
          | ok m2 =>
            simp only [h1, h2, pure, Except.pure, Except.ok.injEq] at h
            subst h
            simp only
            rw [moveCisTrans_ids env _ ct m1 m2 h2, moveTetra_ids env _ tet c0.mol m1 h1]
            exact (from_shape r nbrs c0 tet ct hg).1
  refine ⟨key, ?_⟩
  rw [key]
  exact (List.nodup_range).map (fun a b hab => by simpa using hab)

/-- **`from_rdkit_molecule`, dependent centres are kept.** For the molecule the function returns: a label the transfer loops put on
a key of `stereogenic_tetrahedrons` (of the molecule as built from the RDKit atoms and bonds), whose unit the `chiral_*` sets report
chiral once the labels finally present are there, is on the returned molecule with the same sign — however many restore rounds
that takes. (A one-pass validation of the labels against the unlabelled molecule, as in the seeded change of round 5, violates
exactly this.) -/
theorem from_final_atom_complete (r : RMol) (nbrs : List (List Nat)) (ch : List Label → SUnit → Bool) (c c' : CMol) (o : Out)
    (hf : fromRdFinal r nbrs ch = .ok (c', some o)) (hc : fromRd r nbrs = .ok c)
    (c0 : CMol) (tet : List (Nat × List Nat × Bool)) (ct : List (Nat × Nat × Nat × Nat × Bool))
    (hg : fromGraph r nbrs = .ok (c0, tet, ct)) (env : StereoEnv) (henv : stereoEnvOf c0.mol = .ok env)
    (n : Nat) (a : Atom) (s : Bool) (ha : (n, a) ∈ c.mol.atoms) (hs : a.stereo = some s)
    (ht : (env.stet.lookup n).isSome = true) (hch : ch o.labels ⟨.tetra, n, 0⟩ = true) :
    ∀ a', (n, a') ∈ c'.mol.atoms → a'.stereo = some s := by
  have hnd := (from_ids r nbrs c hc).2
  have henv' : liftPy (stereoEnvOf c0.mol) = .ok env := by rw [henv]; rfl
  unfold fromRd at hc
  simp only [hg, henv', bind, Except.bind] at hc
  unfold fromRdFinal at hf
  cases hsc : liftPy (stereogenicCumulenes c0.mol) with
  | error e => simp [hg, hsc, bind, Except.bind] at hf
  | ok sc =>
    simp only [hg, hsc, henv', hc, bind, Except.bind, pure, Except.pure] at hf
    split at hf
    · simp at hf
    · simp only [Except.ok.injEq, Prod.mk.injEq, Option.some.injEq] at hf
      obtain ⟨rfl, rfl⟩ := hf
      exact fix_stereo_mol_atom_complete ch c.mol env sc hnd n a s ha hs ht hch

end FromFinal2

section FromFinal3
open ChythonModel.Model.StereoFix ChythonModel.Proofs.C12Fix

/-- **soundness of the returned bond labels**: a label on a bond `x–y` of the molecule `fix_stereo` leaves behind is a label the
transfer put (same sign) on a DOUBLE bond both of whose atoms map, in `_stereo_cis_trans_terminals`, to the terminal pair
`{x, y}`, and that unit was reported chiral for the labels restored before it — no E/Z label is invented, moved to another unit
or inverted by the tail of `from_rdkit_molecule`. -/
theorem fix_stereo_mol_bond_sound (ch : List Label → SUnit → Bool) (m : Mol) (env : StereoEnv) (sc : List Cumulene)
    (x : Nat) (nb : List (Nat × Bond)) (y : Nat) (b : Bond) (s : Bool)
    (hx : (x, nb) ∈ (fixStereoMol ch m env sc).1.adj) (hy : (y, b) ∈ nb) (hs : b.stereo = some s) :
    ∃ ta : Nat × Nat, ((ta.1 = x ∧ ta.2 = y) ∨ (ta.1 = y ∧ ta.2 = x)) ∧
      ((⟨.cisTrans, ta.1, ta.2⟩ : SUnit), s) ∈ (fixStereoMol ch m env sc).2.labels ∧
      (∃ e ∈ m.bonds, e.2.2.stereo = some s ∧ e.2.2.order = 2 ∧
        (terminalsOf sc).lookup e.1 = some ta ∧ (terminalsOf sc).lookup e.2.1 = some ta) ∧
      ∃ q, q <+: (fixStereoMol ch m env sc).2.labels ∧ ch q ⟨.cisTrans, ta.1, ta.2⟩ = true := by
  simp only [fixStereoMol] at hx ⊢
  rcases foldl_bond_label _ _ x nb y b s hx hy hs with ⟨l, hl, hk, hab, hsg⟩ | ⟨nb0, b0, hx0, hy0, hs0⟩
  · obtain ⟨hcol, q, hq, hch⟩ := ChythonModel.Props.C12.fix_stereo_sound ch _ _ l hl
    obtain ⟨u, sg⟩ := l
    simp only at hk hab hsg
    subst hsg
    have hrule := collectAtoms_rule (fixAtomsIn m env (allenesOf sc)) u sg
    simp only [collect] at hcol
    rcases List.mem_append.mp hcol with h1 | h3
    · rcases List.mem_append.mp h1 with ht | hal
      · obtain ⟨_, _, _, _, hu⟩ := hrule.1.mp ht
        rw [hu] at hk; cases hk
      · obtain ⟨_, _, _, _, _, hu⟩ := hrule.2.mp hal
        rw [hu] at hk; cases hk
    · obtain ⟨bi, hbi, hbs, hbo, ta, htn, htm, hu⟩ := (collectBonds_rule _ u sg).mp h3
      subst hu
      simp only [fixBondsIn, List.mem_map] at hbi
      obtain ⟨⟨n0, k0, b0⟩, hmem, rfl⟩ := hbi
      exact ⟨ta, hab, hl, ⟨(n0, k0, b0), hmem, hbs, hbo, htn, htm⟩, q, hq, hch⟩
  · exact absurd hs0 (clearLabels_no_bond_label m x nb0 y b0 s hx0 hy0)

end FromFinal3

end ChythonModel.Props.C20
