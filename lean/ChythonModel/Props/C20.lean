import ChythonModel.Model.C20Bridge
import ChythonModel.Spec.RdkitConvention
import ChythonModel.Props.C12
/-!
# C20 — RDKit bridge preserves structure and configuration in both directions

All theorems are about the functions `Drivers/C20.lean` runs (`Model/C20Bridge.lean`, with the C12 sign model
`Model/Stereo.lean`) and the tables regenerated from /repo (`Gen/C20Tables.lean`, `Gen/StereoTables.lean`).
RDKit is a black box: its conventions enter as the explicit functions of `Spec/RdkitConvention.lean`
(`retag`, `relabel`, `tagOfAt`, `stereoOfCis`, `orderOfType`), written from RDKit's documentation.
-/
set_option linter.unusedSimpArgs false
namespace ChythonModel.Props.C20
open ChythonModel.Gen ChythonModel.Gen.C20 ChythonModel.Spec ChythonModel.Model ChythonModel.Model.Stereo
open ChythonModel.Model.C20 ChythonModel.Proofs.C12 ChythonModel.Props.C12

/-! ## 1. bond-type maps -/

/-- chython order → RDKit type → chython order is the identity on every documented order (1, 2, 3, 4, 8) -/
theorem bond_maps_inverse : ∀ o ∈ Rdkit.chythonOrders, ∃ t, bondTypeOf o = .ok t ∧ bondOrderOf t = .ok o := by
  intro o ho
  simp only [Rdkit.chythonOrders, List.mem_cons, List.not_mem_nil, or_false] at ho
  rcases ho with rfl | rfl | rfl | rfl | rfl <;> exact ⟨_, rfl, rfl⟩

/-- `_bond_map` is defined on exactly the documented orders and writes the type RDKit documents for that order -/
theorem bond_map_agrees_spec :
    bondMap.map (·.1) = Rdkit.chythonOrders ∧ ∀ e ∈ bondMap, Rdkit.orderOfType e.2 = some e.1 := by decide

/-- `_rdkit_bond_map` reads every documented type as its order; anything else it accepts becomes the special order 8 -/
theorem rdkit_bond_map_agrees_spec :
    (∀ e ∈ rdkitBondMap, Rdkit.orderOfType e.1 = some e.2 ∨ (Rdkit.orderOfType e.1 = none ∧ e.2 = 8)) ∧
    (rdkitBondMap.map (·.1)).Nodup := by decide

/-- RDKit type → order → RDKit type: restored exactly for the five types `_bond_map` writes; the other accepted types
(`ZERO`, `UNSPECIFIED`) collapse to `DATIVE`; unknown types raise `KeyError` -/
theorem bond_types_roundtrip : ∀ t : RdBondType,
    (∀ o, Rdkit.orderOfType t = some o → bondOrderOf t = .ok o ∧ bondTypeOf o = .ok t) ∧
    (Rdkit.orderOfType t = none → (bondOrderOf t = .ok 8 ∧ (t = .ZERO ∨ t = .UNSPECIFIED)) ∨ bondOrderOf t = .error (.py .keyError)) := by
  intro t
  cases t <;> simp [Rdkit.orderOfType] <;> first | rfl | exact ⟨rfl, rfl⟩ | exact Or.inl rfl

/-- an order outside the table is a `KeyError`, not a default -/
theorem bondTypeOf_unknown (o : Nat) (h : o ∉ Rdkit.chythonOrders) : bondTypeOf o = .error (.py .keyError) := by
  simp only [Rdkit.chythonOrders, List.mem_cons, List.not_mem_nil, or_false, not_or] at h
  obtain ⟨h1, h2, h3, h4, h8⟩ := h
  simp [bondTypeOf, liftPy, getKey, bondMap, List.lookup, h1, h2, h3, h4, h8,
    show (o == 1) = false from by simp [h1], show (o == 2) = false from by simp [h2],
    show (o == 3) = false from by simp [h3], show (o == 4) = false from by simp [h4], show (o == 8) = false from by simp [h8]]

/-! ## 2. conventions: the enum members behind the module constants are the documented ones -/

/-- label `True` (SMILES `@`) is written as the counter-clockwise tag, `False` as clockwise; cis is written as Z -/
theorem constants_agree_spec (s : Bool) :
    tagOfSign s = Rdkit.tagOfAt s ∧ stereoOfSign s = Rdkit.stereoOfCis s := by
  cases s <;> exact ⟨rfl, rfl⟩

/-- reading: among the two tetrahedral tags `tag == _chiral_ccw` is exactly "the tag is the `@` tag"; same for Z -/
theorem reading_agrees_spec :
    (∀ t : RdChiral, (t == chiralCw || t == chiralCcw) = true → ((t == chiralCcw) = true ↔ t = Rdkit.tagOfAt true)) ∧
    (∀ t : RdStereo, (t == stereoCis || t == stereoTrans) = true → ((t == stereoCis) = true ↔ t = Rdkit.stereoOfCis true)) ∧
    chiralCw ≠ chiralCcw ∧ stereoCis ≠ stereoTrans := by
  refine ⟨?_, ?_, by decide, by decide⟩ <;> intro t <;> cases t <;> decide

end ChythonModel.Props.C20
