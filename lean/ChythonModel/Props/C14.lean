import ChythonModel.Proofs.C14Charge
import ChythonModel.Proofs.C14Hydrogens
import ChythonModel.Proofs.C14Implicify
import ChythonModel.Proofs.C14Lazy
import ChythonModel.Proofs.C14Inverse
import ChythonModel.Proofs.C14Valid
import ChythonModel.Proofs.C14Neutral
import ChythonModel.Proofs.C14Idem
import ChythonModel.Proofs.C14Resonance
/-!
# C14 — normalisation conserves composition, is idempotent and numbering independent

Every theorem is about the definitions the driver `Drivers/C14.lean` runs (`Model/Standardize.lean`) or about the rule tables
regenerated from /repo (`Gen/RuleTables.lean`, facts in `Model/StdRuleFacts.lean`).

Table theorems (kernel evaluation over the regenerated tables):
* `rules_charge_neutral_on_valid` — every rule whose own pattern is a valence-valid drawing has Σ charge deltas = 0
* `abort_only_possible_at_first_entry`, `rule_names_are_pattern_atoms`, `charged_rules_move_one_charge`

Model theorems (all molecules, all mappings, any matcher behaviour):
* `standardize_keeps_atoms` (heavy atoms / elements / isotopes / numbering), `standardize_charge_accounting`,
  `standardize_conserves_charge_partial`, `abort_at_first_entry_changes_nothing`, `neutralize_proton_balance`, …

Validated on the real code, not proved (recorded in design/C14.md): idempotence, absence of valence errors, renumbering
equivariance, documented spellings, and the link "a rule with a valence-invalid pattern never fires on a valence-valid molecule".
-/
namespace ChythonModel.Props.C14
open ChythonModel.Model ChythonModel.Model.Std ChythonModel.Gen.Rules ChythonModel.Proofs.C14

/-! ## the regenerated tables -/

/-- Every rule of the three standardisation tables whose own pattern is a valence-valid drawing is charge neutral.
    (Five rules — PR4, BR4, NR4, PF6, pentavalent azide N — change the net charge; their patterns are valence-invalid.) -/
theorem rules_charge_neutral_on_valid :
    ∀ r ∈ allStdRules, patternValid r.toPattern = true → chargeSum r = 0 := by decide +kernel

/-- the hypothesis is satisfiable by rules that do move charge between atoms -/
example : ∃ r ∈ singleRules, patternValid r.toPattern = true ∧ r.atomFix.length ≥ 2 := by decide +kernel

/-- the restriction is needed: without it the statement is false of today's tables -/
example : ¬ ∀ r ∈ allStdRules, chargeSum r = 0 := by decide +kernel

/-- Why the charge-changing rules are harmless: each of them is invalid either because of a single-element pattern atom pinned
    to `d` single bonds for which no compiled valence rule is satisfiable (PR4, BR4, NR4, PF6: covered by
    `invalid_single_atom_pattern_matches_only_valence_errors`) or because of an atom whose multiple bonds are drawn in the
    pattern (the pentavalent azide nitrogen; soundness of that case is validated on the real code, not proved). -/
theorem charge_changing_rules_are_invalid_for_a_reason :
    ∀ r ∈ allStdRules, chargeSum r ≠ 0 → hasBadSingleAtom r = true ∨ invalidByKnownEnv r = true := by decide +kernel

/-- In every rule only the *first* `atom_fix` entry can trip the `charge > 4` abort on a matched atom: every later entry
    names a pattern atom that tests the charge (not `M`) and whose pattern charge plus delta is ≤ 4. So when the loop breaks,
    nothing has been changed yet (`abort_at_first_entry_changes_nothing`): the half-applied state DESIGN §7 #14 suspected
    cannot arise from these tables. -/
theorem abort_only_possible_at_first_entry : ∀ r ∈ allStdRules, abortOnlyFirst r = true := by decide +kernel

/-- Every `M` atom of every rule is an `any_atoms` member: the overlap test of `__standardize` lets several matches of one rule
    share the metal, so all ligands of one kind on a metal centre are rewritten by a single call (what the idempotence of
    `standardize()` on multi-ligand complexes rests on; the complexes themselves are run by the harness, `multi:` / `mix:`). -/
theorem metal_atoms_are_shareable : ∀ r ∈ allStdRules, metalsShareable r = true := by decide +kernel

example : ∃ r ∈ metalRules, (r.atoms.any fun nq => nq.2.kind == .metal) = true ∧ (r.atomFix.any fun e => isMetalAtom r.toPattern e.1) = true := by
  decide +kernel

/-- `atom_fix`, `bonds_fix`, `any_atoms` only name atoms of the rule's own pattern (no `KeyError` in `mapping[n]`) -/
theorem rule_names_are_pattern_atoms : ∀ r ∈ allStdRules, namesInPattern r = true := by decide +kernel

/-- `standardize_charges`: each rule takes the charge from a pattern atom that carries `+1` (atom 3 if `fix` else atom 1) and
    puts `+1` on a pattern atom that is neutral (atom 2; for the Morgan rules atom 1 or 2, both neutral when `fix`). -/
def chargeRuleMovesOne (r : ChargeRule) : Bool :=
  let ch (n : Nat) : Option Int := (r.atoms.lookup n).map (·.charge)
  ch (if r.fix then 3 else 1) == some 1 && ch 2 == some 0 && (!r.fix || ch 1 == some 0)

theorem charged_rules_move_one_charge : ∀ r ∈ fixedRules ++ morganRules, chargeRuleMovesOne r = true := by decide +kernel

/-! ## the rule loop -/

/-- `charge delta` the log accounts for, per rule index of a table -/
def tableCharge (rules : List StdRule) (i : Nat) : Int :=
  match rules[i]? with
  | some r => chargeSum r
  | none => 0

/-- the reached state of an outcome, if any -/
def reached : Outcome TState → Option TState
  | .done s => some s
  | .pause _ s => some s
  | .crash => none

/-- **Atoms are never added, removed, renumbered or transmuted** by `__standardize`, for any table, any molecule, any labels. -/
theorem standardize_keeps_atoms (fixTaut : Bool) (rules : List StdRule) (ts ts' : TState)
    (hnd : ts.mol.ids.Nodup) (h : reached (stdTable fixTaut rules 0 ts) = some ts') :
    skeleton ts'.mol = skeleton ts.mol ∧ heavyAtoms ts'.mol = heavyAtoms ts.mol := by
  have hs := stdTable_spec fixTaut (tableCharge rules) rules 0 ts
    (by intro i r hi; simp [tableCharge, hi]) hnd
  revert h hs
  cases stdTable fixTaut rules 0 ts with
  | done x => intro h hs; simp only [reached, Option.some.injEq] at h; subst h; exact ⟨hs.2.1, heavyAtoms_eq_of_skeleton hs.2.1⟩
  | pause k x => intro h hs; simp only [reached, Option.some.injEq] at h; subst h; exact ⟨hs.2.1, heavyAtoms_eq_of_skeleton hs.2.1⟩
  | crash => intro h; simp [reached] at h

/-- the same for the whole `standardize()` after its `fix_resonance` call (double rules, second shot, single rules, metal
    rules — `standardizeFrom`, the function the driver's `STD` request runs), from any phase / rule index, paused or done -/
theorem standardize_whole_keeps_atoms (fixTaut : Bool) (fuel phase ri : Nat) (fs : Bool) (allFixed : List Nat) (ts ts' : TState)
    (hnd : ts.mol.ids.Nodup) (h : reachedS (standardizeFrom fixTaut fuel phase ri fs allFixed ts) = some ts') :
    skeleton ts'.mol = skeleton ts.mol ∧ heavyAtoms ts'.mol = heavyAtoms ts.mol :=
  let ⟨_, hs⟩ := standardizeFrom_skeleton fixTaut fuel phase ri fs allFixed ts ts' hnd h
  ⟨hs, heavyAtoms_eq_of_skeleton hs⟩

/-- **Charge accounting**: the log is an exact ledger. If none of the new log entries is a `bad charge formed` abort, the net
    charge changed by exactly Σ over the new entries of the charge sum of the rule they name. -/
theorem standardize_charge_accounting (fixTaut : Bool) (rules : List StdRule) (ts ts' : TState)
    (hnd : ts.mol.ids.Nodup) (h : reached (stdTable fixTaut rules 0 ts) = some ts') :
    ∃ new, ts'.log = ts.log ++ new ∧
      (AllApplied new → netCharge ts'.mol = netCharge ts.mol + logCharge (tableCharge rules) new) := by
  have hs := stdTable_spec fixTaut (tableCharge rules) rules 0 ts
    (by intro i r hi; simp [tableCharge, hi]) hnd
  revert h hs
  cases stdTable fixTaut rules 0 ts with
  | done x => intro h hs; simp only [reached, Option.some.injEq] at h; subst h; exact hs.2.2
  | pause k x => intro h hs; simp only [reached, Option.some.injEq] at h; subst h; exact hs.2.2
  | crash => intro h; simp [reached] at h

/-- Full statement (not proved): standardisation conserves the net charge of every valence-valid molecule.
    Missing link: "a rule whose pattern is not a valence-valid drawing never matches inside a valence-valid molecule, and the
    `charge > 4` abort never fires there" — a statement about matching against whole molecules; validated on the real code by
    the relational oracle `net-charge` of the harness. -/
def StandardizeConservesCharge : Prop :=
  ∀ (fixTaut : Bool) (rules : List StdRule) (ts ts' : TState), rules ∈ [doubleRules, singleRules, metalRules] →
    ts.mol.ids.Nodup → (Valence.checkValence ts.mol = []) → reached (stdTable fixTaut rules 0 ts) = some ts' →
    netCharge ts'.mol = netCharge ts.mol

/-- **Proved part**: if no new log entry is an abort (`noOverflow`) and every rule the log names is charge neutral — in
    particular (by `rules_charge_neutral_on_valid`) if every rule that fired has a valence-valid pattern — the net charge is
    conserved. -/
theorem standardize_conserves_charge_partial (fixTaut : Bool) (rules : List StdRule) (ts ts' : TState)
    (hnd : ts.mol.ids.Nodup) (h : reached (stdTable fixTaut rules 0 ts) = some ts')
    (noOverflow : ∀ e ∈ ts'.log.drop ts.log.length, e.kind = LogKind.applied)
    (neutral : ∀ e ∈ ts'.log.drop ts.log.length, tableCharge rules e.rule = 0) :
    netCharge ts'.mol = netCharge ts.mol := by
  obtain ⟨new, hl, hc⟩ := standardize_charge_accounting fixTaut rules ts ts' hnd h
  have hd : ts'.log.drop ts.log.length = new := by rw [hl]; simp
  rw [hd] at noOverflow neutral
  rw [hc noOverflow]
  have := logCharge_zero (tableCharge rules) new neutral
  omega

/-- the link from the table theorem to the hypothesis `neutral` above, for the real tables -/
theorem neutral_of_valid_pattern (rules : List StdRule) (hr : rules ∈ [doubleRules, singleRules, metalRules]) (i : Nat) (r : StdRule)
    (hi : rules[i]? = some r) (hv : patternValid r.toPattern = true) : tableCharge rules i = 0 := by
  have hmem : r ∈ allStdRules := by
    have : r ∈ rules := List.mem_of_getElem? hi
    simp only [List.mem_cons, List.mem_nil_iff, or_false] at hr
    unfold allStdRules
    rcases hr with rfl | rfl | rfl <;> simp [this]
  simp [tableCharge, hi, rules_charge_neutral_on_valid r hmem hv]

/-- the excluded point of `noOverflow`, as far as the tables allow it: a `break` while the first entry is processed changes
    nothing — the molecule handed on is the molecule that came in -/
theorem abort_at_first_entry_changes_nothing (mp : Iso.Dict) (n : Nat) (ch : Int) (ir : Option Bool)
    (rest : List (Nat × Int × Option Bool)) (m : Mol) (hs : List Nat) (x : Nat) (a : Atom)
    (hx : mp.lookup n = some x) (ha : m.atom? x = some a) (hov : a.charge + ch > 4) :
    atomFixLoop mp ((n, ch, ir) :: rest) m hs = some (m, setAdd hs x, true) :=
  atomFixLoop_abort_first mp n ch ir rest m hs x a hx ha hov

/-- an abort anywhere: only a proper prefix of the entries was applied, and the charge moved by exactly that prefix -/
theorem abort_applies_proper_prefix (mp : Iso.Dict) (fix : List (Nat × Int × Option Bool)) (m m' : Mol) (hs hs' : List Nat)
    (h : atomFixLoop mp fix m hs = some (m', hs', true)) (hnd : m.ids.Nodup) :
    ∃ done, done.length < fix.length ∧ done = fix.take done.length ∧ netCharge m' = netCharge m + fixSum done ∧
      skeleton m' = skeleton m :=
  let ⟨_, _, s, _, p⟩ := atomFixLoop_spec mp fix m hs m' hs' true h hnd
  let ⟨d, a, b, c⟩ := p rfl
  ⟨d, a, b, c, s⟩

/-- Full statement (FALSE of today's tables — known findings `C14/standardize/hydrogen-count/…`, witness in
    `Findings/C14.lean`): a rule applied to a valence-valid molecule with consistent hydrogen counts conserves the total
    hydrogen count. No part of it is proved at rule level: the hydrogen balance of a rule depends on the valence tables of the
    atoms it touches and on neighbours outside the pattern; it is validated on the real code by the relational oracle
    `hydrogen-count`, and the rules that break it on valid input are listed one by one as known findings. -/
def RulesConserveHydrogens : Prop :=
  ∀ r ∈ allStdRules, ∀ (ri : Nat) (m : Mol) (sssr comps : List (List Nat)) (L : Labels) (st : RState) (m' : Mol),
    m.ids.Nodup → Valence.fixStructure m = some m → Valence.checkValence m = [] → calcLabels m sssr = some L →
    runRule r ri m L comps = some st → recalc st.hs st.mol = some m' → hydrogens m' = hydrogens m

/-- **An invalid all-single pattern atom matches only valence errors** (the link between `rules_charge_neutral_on_valid` and
    real molecules, for the all-single case). If a non-metal query atom with `D = d`, `z = 1` for which no compiled valence rule
    of element `a.z` is satisfiable (`badFor`) compares equal (`Query.pyEq`, C08) to atom `x` of a molecule with fresh labels
    (`Query.mAtomOf` = `calc_labels`) and legal bond orders, then `calc_implicit` (C04) gives `x` no hydrogen count: a rule
    with such an atom cannot fire on a molecule without valence errors. -/
theorem invalid_single_atom_pattern_matches_only_valence_errors (m : Mol) (sssr : List (List Nat)) (x : Nat) (a : Atom)
    (q : Query.QAtom) (d : Nat) (ha : m.atom? x = some a) (hz : a.z ≠ 1) (hq : q.neighbors = [d]) (hy : q.hybridization = [1])
    (hkind : q.kind ≠ .metal) (hord : ∀ row, m.adj.lookup x = some row → ∀ kb ∈ row, kb.2.order ∈ [1, 2, 3, 4, 8])
    (ma : Query.MAtom) (hma : Query.mAtomOf m sssr x = some ma) (heq : Query.pyEq q ma = true)
    (hbad : badFor a.z q d = true) : ∀ h, Valence.calcImplicitMol m x ≠ some (some h) :=
  invalid_pinned_atom_is_valence_error m sssr x a q d ha hz hq hy hkind hord ma hma heq hbad

/-- the hypotheses are met by the drawing the PR4 rule is written for: the phosphorus of `CP(C)(C)C` -/
example : ∃ q ∈ (singleRules.headD default).atoms, q.2.neighbors = [4] ∧ q.2.hybridization = [1] ∧ badFor 15 q.2 4 = true := by
  decide +kernel

/-! ## the matcher inside the loop -/

/-- **The generator `__standardize` resumes between its mutations is C07's matcher.** On an environment that is not mutated,
    draining it (`collect` = repeated `resume`, the function `drain` calls) yields exactly `Iso.getMapping`, the model of
    `_get_mapping` that C07's soundness / completeness theorems are about — same dicts, same order. -/
theorem lazy_matcher_is_c07_matcher (e : Iso.Env) (res : List Iso.Dict) (h : Iso.getMapping e = some res) :
    collect e (e.lq.length - 1) (Iso.machineFuel e) (Iso.machineFuel e) ⟨(Iso.roots e).reverse.map (·, 0), [], [], []⟩ = some res :=
  collect_eq_getMapping e res h

/-- **A rule that has no match is the identity**: if `Iso.getMapping` finds no mapping of the rule's pattern into any
    connected component, `runRule`'s loop hands back the state it was given — no atom, bond, hydrogen or log entry changes. -/
theorem unmatched_rule_changes_nothing (r : StdRule) (ri : Nat) (lq : List Iso.Step) (cl : Iso.Closures) (L : Labels)
    (hlq : lq ≠ []) (comps : List (List Nat)) (st : RState)
    (h : ∀ cand ∈ comps, Iso.getMapping (envOf ⟨r.toPattern, lq, cl, L, cand⟩ st.mol) = some []) :
    ruleLoop r ri lq cl L comps st = some st :=
  ruleLoop_no_match r ri lq cl L hlq comps st h

/-! ## neutralisation -/

/-- **Proton balance**: whatever donors `ds` and acceptors `as` are chosen, the result differs from the input by
    `|as| − |ds|` protons: the same number in the net charge and in the hydrogen count; atoms are untouched. -/
theorem neutralize_proton_balance (m o : Mol) (ds as : List Nat) (h : neutralizeWith m ds as = some o)
    (hnd : m.ids.Nodup) (hc : AllCounted m) :
    heavyAtoms o = heavyAtoms m ∧ netCharge o - netCharge m = hydrogens o - hydrogens m := by
  obtain ⟨hs, _, hq, hh⟩ := neutralizeWith_spec m o ds as h hnd hc
  exact ⟨heavyAtoms_eq_of_skeleton hs, by omega⟩

/-- a result the checker accepts (what the driver answers `ok 1` for) is such a proton move, balanced when both sets are
    non-empty: as many donors as acceptors were used, so net charge and hydrogen count are conserved -/
theorem neutralizeCheck_sound (m o : Mol) (donors acceptors changed : List Nat)
    (h : neutralizeCheck m donors acceptors changed (some o) = true) (hnd : m.ids.Nodup) (hc : AllCounted m) :
    heavyAtoms o = heavyAtoms m ∧ netCharge o = netCharge m ∧ hydrogens o = hydrogens m := by
  unfold neutralizeCheck at h
  split at h
  · simp at h
  · simp only [Bool.and_eq_true] at h
    obtain ⟨⟨hsz, _⟩, hout⟩ := h
    have hout' : neutralizeWith m (changed.filter (donors.contains ·))
        (changed.filter fun x => acceptors.contains x && !donors.contains x) = some o := by simpa using hout
    obtain ⟨hs, _, hq, hh⟩ := neutralizeWith_spec m o _ _ hout' hnd hc
    have hlen : ((changed.filter fun x => acceptors.contains x && !donors.contains x).length : Int) =
        (changed.filter (donors.contains ·)).length := by
      split at hsz <;> (try split at hsz) <;> simp only [Bool.and_eq_true, beq_iff_eq] at hsz <;> omega
    exact ⟨heavyAtoms_eq_of_skeleton hs, by omega, by omega⟩

/-! ## neutralisation, exactly and atom by atom (`neutralizeExact`, `neutralizeModel`: what the driver's `NEUTX` request runs) -/

/-- **`_neutralize` moves nothing but protons, atom by atom**: for any donors / acceptors, the result has the same bonds, the same
    atom keys in the same order, and every atom is a `ProtonShift` of itself — its hydrogen count and its charge moved by the
    same number `k`, element / isotope / radical / stereo mark untouched (`ProtonShift.conserves`: `charge − hydrogens` is
    conserved for every single atom). No hypothesis on the molecule. -/
theorem neutralize_moves_only_protons (m o : Mol) (ds as : List Nat) (h : neutralizeWith m ds as = some o) :
    o.adj = m.adj ∧ o.ids = m.ids ∧ ∀ x a, m.atom? x = some a → ∃ a', o.atom? x = some a' ∧ ProtonShift a a' :=
  neutralizeWith_protonMove m o ds as h

/-- what a `ProtonShift` conserves: everything but `(hydrogens, charge)`, and the difference `charge − hydrogens` -/
theorem proton_shift_conserves (a a' : Atom) (h : ProtonShift a a') :
    a'.z = a.z ∧ a'.isotope = a.isotope ∧ a'.radical = a.radical ∧ a'.stereo = a.stereo ∧
    a'.implH.isSome = a.implH.isSome ∧
    a'.charge - ((a'.implH.getD 0 : Nat) : Int) = a.charge - ((a.implH.getD 0 : Nat) : Int) :=
  h.conserves

/-- a proton shift that does something: `[NH3+]` → `NH2` -/
example : ProtonShift { z := 7, charge := 1, implH := some 3 } { z := 7, charge := 0, implH := some 2 } :=
  Or.inr ⟨3, 2, rfl, by simp⟩

/-- **The exact result of `_neutralize(keep_charge)`** (every case in which the code's answer does not depend on set order):
    it is a pure proton move; with `keep_charge=True` as many protons are taken as are given, so the heavy atoms, the net charge
    and the hydrogen count are all conserved; with `keep_charge=False` net charge and hydrogen count change by the same number
    `|acceptors| − |donors|`; the reported `changed` atoms are `donors | acceptors`. -/
theorem neutralize_exact_conserves (kc : Bool) (m o : Mol) (ds as ch : List Nat)
    (h : neutralizeExact kc m ds as = some (.exact o ch)) (hnd : m.ids.Nodup) (hc : AllCounted m) :
    heavyAtoms o = heavyAtoms m ∧ ch = setUnion ds as ∧
    netCharge o - netCharge m = (as.length : Int) - ds.length ∧ hydrogens o - hydrogens m = (as.length : Int) - ds.length ∧
    (kc = true → netCharge o = netCharge m ∧ hydrogens o = hydrogens m) := by
  have key : ∀ (hw : neutralizeWith m ds as = some o), heavyAtoms o = heavyAtoms m ∧
      netCharge o - netCharge m = (as.length : Int) - ds.length ∧ hydrogens o - hydrogens m = (as.length : Int) - ds.length := by
    intro hw
    obtain ⟨hs, _, hq, hh⟩ := neutralizeWith_spec m o ds as hw hnd hc
    exact ⟨heavyAtoms_eq_of_skeleton hs, hq, hh⟩
  unfold neutralizeExact at h
  split at h
  · rename_i hkc
    split at h
    · simp at h
    · split at h
      · rename_i hlen
        obtain ⟨o', hw, he⟩ := Option.map_eq_some_iff.mp h
        simp only [NeutOut.exact.injEq] at he
        obtain ⟨rfl, rfl⟩ := he
        obtain ⟨a, b, c⟩ := key hw
        have hl : ds.length = as.length := by simpa using hlen
        exact ⟨a, rfl, b, c, fun _ => ⟨by omega, by omega⟩⟩
      · simp at h
  · rename_i hkc
    split at h
    · simp at h
    · obtain ⟨o', hw, he⟩ := Option.map_eq_some_iff.mp h
      simp only [NeutOut.exact.injEq] at he
      obtain ⟨rfl, rfl⟩ := he
      obtain ⟨a, b, c⟩ := key hw
      exact ⟨a, rfl, b, c, fun hk => absurd hk hkc⟩

/-- the hypotheses are met by a zwitterion with something to do: glycine `[NH3+]CC([O-])=O`, donor 1, acceptor 4 -/
example : ∃ o ch, neutralizeExact true
    ⟨[(1, { z := 7, charge := 1, implH := some 3 }), (2, { z := 6, implH := some 2 }), (3, { z := 6, implH := some 0 }),
      (4, { z := 8, charge := -1, implH := some 0 }), (5, { z := 8, implH := some 0 })],
     [(1, [(2, { order := 1 })]), (2, [(1, { order := 1 }), (3, { order := 1 })]),
      (3, [(2, { order := 1 }), (4, { order := 1 }), (5, { order := 2 })]), (4, [(3, { order := 1 })]), (5, [(3, { order := 2 })])]⟩
    [1] [4] = some (.exact o ch) ∧ ch = [1, 4] ∧ netCharge o = 0 := ⟨_, _, rfl, rfl, by decide⟩

/-! ## what `neutralize` leaves behind: towards idempotence -/

/-- **`matchFirstAtoms acidStripped` is total and exact**: for every molecule, labels and components it returns a list, and `x`
    is in it iff `x` is an atom of one of the components that compares equal (`atomOk`) to the acid query atom
    (`[N;h1,h2,h3,h4;+]`, regenerated). In particular every donor carries `+1`. -/
theorem neutralize_donors_exact (m : Mol) (L : Labels) (comps : List (List Nat)) :
    ∃ ds, matchFirstAtoms acidStripped m L comps = some ds ∧
      (∀ x, x ∈ ds ↔ isDonor m L comps x) ∧ ∀ x ∈ ds, ∃ a, m.atom? x = some a ∧ a.charge = 1 := by
  obtain ⟨r, hr, hm⟩ := donors_spec m L comps
  exact ⟨r, hr, hm, fun x hx => donor_charge m L comps x ((hm x).mp hx)⟩

/-- **every acceptor is an anion**: on a well-formed molecule graph (C07's `Graph.WF`) with direction-independent bond tests,
    every atom `matchFirstAtoms baseStripped` collects is the image of pattern atom 1 in an embedding of one of the six regenerated
    base patterns (C07's soundness of `_get_mapping`, `getMapping_sound`), and pattern atom 1 carries `−1` in all of them -/
theorem neutralize_acceptors_are_anions (m : Mol) (L : Labels) (comps : List (List Nat)) (as : List Nat)
    (hwf : (graphOfMol m).WF = true) (hsym : ∀ p ∈ baseStripped, BondSymm (bondOk p m L))
    (h : matchFirstAtoms baseStripped m L comps = some as) :
    ∀ x ∈ as, ∃ a, m.atom? x = some a ∧ a.charge = -1 :=
  acceptors_are_anions m L comps as hwf hsym h

/-- Full statement (FALSE of the code for salts with more donors than acceptors — known finding
    `C14/neutralize/idempotent/unbalanced`): a second `neutralize()` finds nothing to do, i.e. for every result `o` the
    checker accepts for `m`, `_neutralize` of `o` yields nothing. -/
def NeutralizeIdempotent : Prop :=
  ∀ (m o : Mol) (L : Labels) (comps : List (List Nat)) (ds as changed : List Nat),
    (graphOfMol m).WF = true → (∀ p ∈ baseStripped, BondSymm (bondOk p m L)) →
    matchFirstAtoms acidStripped m L comps = some ds → matchFirstAtoms baseStripped m L comps = some as →
    neutralizeCheck m ds as changed (some o) = true →
    ∀ r, neutralizeModel true o L comps = some r → r.2.2 = .nothing

/-- **Proved part — once every donor has given its proton no donor is left, so the second call does nothing.** If ALL donors of
    `m` are deprotonated and any duplicate-free choice `as'` among the acceptors is protonated (the balanced case and the
    "more acceptors than donors" case of `_neutralize(keep_charge=True)`, for every choice the set order could make), then
    the stripped acid pattern matches nowhere in the result, and `_neutralize(keep_charge=True)` of the result yields nothing
    whenever its matcher runs. Excluded: salts with more donors than acceptors, where donors remain and deprotonating an
    `[NH+]–[O-]` zwitterion can create a new acceptor (Findings / known finding). -/
theorem neutralize_idempotent_partial (m o : Mol) (L : Labels) (comps : List (List Nat)) (ds as as' : List Nat)
    (hwf : (graphOfMol m).WF = true) (hsym : ∀ p ∈ baseStripped, BondSymm (bondOk p m L))
    (hd : matchFirstAtoms acidStripped m L comps = some ds) (ha : matchFirstAtoms baseStripped m L comps = some as)
    (hsub : ∀ x ∈ as', x ∈ as) (hnd : as'.Nodup) (ho : neutralizeWith m ds as' = some o) :
    matchFirstAtoms acidStripped o L comps = some [] ∧
    ∀ r, neutralizeModel true o L comps = some r → r.2.2 = .nothing := by
  have hacc := acceptors_are_anions m L comps as hwf hsym ha
  have h0 := no_donor_left m o L comps ds as' hd hnd (fun x hx => hacc x (hsub x hx)) ho
  refine ⟨h0, ?_⟩
  intro r hr
  unfold neutralizeModel at hr
  rw [h0] at hr
  simp only [bind, Option.bind] at hr
  split at hr
  · simp at hr
  · rename_i as2 _
    simp [neutralizeExact, pure] at hr
    rw [← hr]

/-- the balanced case as the driver runs it: an `exact` result of `neutralizeModel true` is never changed by a second call -/
theorem neutralize_exact_idempotent (m o : Mol) (L : Labels) (comps : List (List Nat)) (ds as ch : List Nat)
    (hwf : (graphOfMol m).WF = true) (hsym : ∀ p ∈ baseStripped, BondSymm (bondOk p m L))
    (h : neutralizeModel true m L comps = some (ds, as, .exact o ch)) :
    ∀ r, neutralizeModel true o L comps = some r → r.2.2 = .nothing := by
  unfold neutralizeModel at h
  cases hd : matchFirstAtoms acidStripped m L comps with
  | none => simp [hd, bind] at h
  | some ds0 =>
    cases ha : matchFirstAtoms baseStripped m L comps with
    | none => simp [hd, ha, bind] at h
    | some as0 =>
      simp only [hd, ha, bind, Option.bind, pure] at h
      cases he : neutralizeExact true m ds0 as0 with
      | none => simp [he] at h
      | some out =>
        simp only [he, Option.some.injEq, Prod.mk.injEq] at h
        obtain ⟨rfl, rfl, rfl⟩ := h
        have hw : neutralizeWith m ds0 as0 = some o := by
          unfold neutralizeExact at he
          split at he
          · split at he
            · simp at he
            · split at he
              · obtain ⟨o', hw, he'⟩ := Option.map_eq_some_iff.mp he
                simp only [NeutOut.exact.injEq] at he'
                rw [← he'.1]; exact hw
              · simp at he
          · rename_i hc; exact absurd rfl hc
        exact (neutralize_idempotent_partial m o L comps ds0 as0 as0 hwf hsym hd ha (fun _ hx => hx)
          (matchFirstAtoms_nodup baseStripped m L comps as0 ha) hw).2

/-- ammonium chloride `[NH4+].[Cl-]` as the driver sees it: molecule, cached labels, components -/
def nh4cl : Mol := ⟨[(1, { z := 7, charge := 1, implH := some 4 }), (2, { z := 17, charge := -1, implH := some 0 })], [(1, []), (2, [])]⟩
def nh4clLabels : Labels := ⟨[(1, ⟨0, 1, 0, []⟩), (2, ⟨0, 1, 0, []⟩)], []⟩

/-- the hypotheses of `neutralize_exact_idempotent` / `neutralize_idempotent_partial` are satisfiable by a salt with something
    to do: `[NH4+].[Cl-]` (donor 1, acceptor 2) is neutralised to `N.Cl` by the model the driver runs -/
example : (graphOfMol nh4cl).WF = true ∧ (∀ p ∈ baseStripped, BondSymm (bondOk p nh4cl nh4clLabels)) ∧
    ∃ o, neutralizeModel true nh4cl nh4clLabels [[1], [2]] = some ([1], [2], .exact o [1, 2]) ∧ netCharge o = 0 ∧
      (o.atom? 1).map (·.charge) = some 0 := by
  refine ⟨by decide, ?_,
    ⟨[(1, { z := 7, charge := 0, implH := some 3 }), (2, { z := 17, charge := 0, implH := some 1 })], [(1, []), (2, [])]⟩,
    by decide +kernel, by decide +kernel, by decide +kernel⟩
  intro p _ u v x y
  have hb : ∀ a b, nh4cl.bond? a b = none := by
    intro a b
    simp only [Mol.bond?, Mol.nbrs, nh4cl, List.lookup]
    split <;> (try split) <;> simp
  simp [bondOk, hb]

/-- the same from **decidable** hypotheses only: a well-formed molecule (`Mol.WF`: one shared bond object per pair), a well-formed
    graph and ring flags cached for both directions give the direction-independent bond test C07 asks for (`bondOk_symm`, with
    the table fact that every regenerated base pattern stores its bonds symmetrically) -/
theorem neutralize_exact_idempotent_wf (m o : Mol) (L : Labels) (comps : List (List Nat)) (ds as ch : List Nat)
    (hm : m.WF = true) (hg : (graphOfMol m).WF = true) (hl : ringSymm L = true)
    (h : neutralizeModel true m L comps = some (ds, as, .exact o ch)) :
    ∀ r, neutralizeModel true o L comps = some r → r.2.2 = .nothing :=
  neutralize_exact_idempotent m o L comps ds as ch hg
    (fun p hp => bondOk_symm p m L (baseStripped_patSymm p hp) hm hl) h

/-- glycine zwitterion `[NH3+]CC([O-])=O` with its cached labels: a bonded molecule meeting every hypothesis; the model finds
    donor 1 and acceptor 4 through the real multi-atom carboxylate pattern -/
def glyZ : Mol :=
  ⟨[(1, { z := 7, charge := 1, implH := some 3 }), (2, { z := 6, implH := some 2 }), (3, { z := 6, implH := some 0 }),
    (4, { z := 8, charge := -1, implH := some 0 }), (5, { z := 8, implH := some 0 })],
   [(1, [(2, { order := 1 })]), (2, [(1, { order := 1 }), (3, { order := 1 })]),
    (3, [(2, { order := 1 }), (4, { order := 1 }), (5, { order := 2 })]), (4, [(3, { order := 1 })]), (5, [(3, { order := 2 })])]⟩
def glyL : Labels := ⟨[(1, ⟨1, 1, 0, []⟩), (2, ⟨2, 1, 1, []⟩), (3, ⟨3, 2, 2, []⟩), (4, ⟨1, 1, 0, []⟩), (5, ⟨1, 2, 0, []⟩)], []⟩

example : glyZ.WF = true ∧ ringSymm glyL = true ∧ (graphOfMol glyZ).WF = true := by decide

example : (neutralizeModel true glyZ glyL [[1, 2, 3, 4, 5]]).map (fun r => (r.1, r.2.1)) = some ([1], [4]) := by decide +kernel

/-! ## `standardize_charges` (`standardizeCharges`: what the driver's `CHG` request runs) -/

/-- **`standardize_charges` writes nothing but formal charges**: for every molecule, labels, components, rings and Morgan ranks,
    a finished run returns a molecule that is *identical* to the input once all charges are erased — same atoms (numbers, order,
    elements, isotopes, radicals, hydrogen counts, stereo marks), same bonds and bond orders. -/
theorem standardize_charges_writes_only_charges (m : Mol) (L : Labels) (comps sssr : List (List Nat))
    (orders : List (List (Nat × Nat))) (o : Mol) (ch : List Nat)
    (h : standardizeCharges m L comps sssr orders = some (.done o ch)) : uncharged o = uncharged m :=
  standardizeCharges_uncharged m L comps sssr orders o ch h

/-- hence the composition is conserved: bonds, heavy atoms, every atom's hydrogen count, the total hydrogen count -/
theorem standardize_charges_keeps_composition (m : Mol) (L : Labels) (comps sssr : List (List Nat))
    (orders : List (List (Nat × Nat))) (o : Mol) (ch : List Nat)
    (h : standardizeCharges m L comps sssr orders = some (.done o ch)) :
    o.adj = m.adj ∧ heavyAtoms o = heavyAtoms m ∧ hydrogens o = hydrogens m ∧
    o.atoms.map (fun p => (p.1, p.2.z, p.2.isotope, p.2.radical, p.2.implH, p.2.stereo)) =
      m.atoms.map (fun p => (p.1, p.2.z, p.2.isotope, p.2.radical, p.2.implH, p.2.stereo)) := by
  have hu := standardizeCharges_uncharged m L comps sssr orders o ch h
  have hs := skeleton_of_uncharged hu
  refine ⟨adj_of_uncharged hu, heavyAtoms_eq_of_skeleton hs, ?_, atomView_of_uncharged hu⟩
  unfold hydrogens explicitH
  rw [hs, implSum_of_uncharged hu]

/-- a live match has the charges its pattern asks for: if a non-metal query atom `u` of pattern `p` compares equal to atom `x`
    of the live molecule (`atomOk` = `QueryElement.__eq__`, C08's model), `x` carries exactly the pattern charge -/
theorem live_match_has_pattern_charge (p : Pattern) (m : Mol) (L : Labels) (u x : Nat) (q : Query.QAtom)
    (hq : p.atoms.lookup u = some q) (hk : q.kind ≠ .metal) (h : atomOk p m L u x = true) :
    ∃ a, m.atom? x = some a ∧ a.charge = q.charge :=
  atomOk_pins_charge p m L u x q hq hk h

/-- no pattern of the charge-position tables contains a metal atom (so every atom of a match is charge-tested) -/
theorem charge_rules_have_no_metal_atoms :
    ∀ r ∈ fixedRules ++ morganRules, (r.atoms.all fun nq => nq.2.kind != .metal) = true := by decide +kernel

/-- Full statement (not proved): `standardize_charges` conserves the net charge of every molecule with unique atom numbers.
    Missing: (a) the generator is lazy — a mapping may have been assembled from candidate tests made *before* an earlier loop
    body rewrote a charge, so "the mapping matches the live molecule" is not an invariant of the loop; (b) for the Morgan pairs
    the same, plus other bodies running between a pair's removal and its deferred `+1`; (c) the ferrocene branch. (Proved parts:
    `fixed_rule_step_conserves_charge_partial`, `morgan_pair_conserves_charge_partial`.) Validated on the real code by the
    relational oracle `net-charge` of `canonicalize`, and by the `CHG` correspondence on every run. -/
def StandardizeChargesConservesCharge : Prop :=
  ∀ (m : Mol) (L : Labels) (comps sssr : List (List Nat)) (orders : List (List (Nat × Nat))) (o : Mol) (ch : List Nat),
    m.ids.Nodup → standardizeCharges m L comps sssr orders = some (.done o ch) → netCharge o = netCharge m

/-- **Proved part — one application of a `fixed_rules` entry conserves the net charge whenever the mapping matches the live
    molecule.** For every rule of the regenerated `fixed_rules` table: if the source atom (`mapping[3]` if `fix` else
    `mapping[1]`) and `mapping[2]` are distinct atoms that compare equal to their query atoms *now* (`atomOk` on the current
    molecule), the loop body — whatever branch it takes — leaves the net charge unchanged: it takes `+1` from an atom that has
    it and gives it to a neutral one. -/
theorem fixed_rule_step_conserves_charge_partial (r : ChargeRule) (hr : r ∈ fixedRules) (L : Labels) (st st' : CState) (mp : Iso.Dict)
    (hnd : st.mol.ids.Nodup) (h : chargeBody false r.fix st mp = some st')
    (live : ∀ u x, mp.lookup u = some x → atomOk r.toPattern st.mol L u x = true)
    (inj : ∀ u v x, mp.lookup u = some x → mp.lookup v = some x → u = v) :
    netCharge st'.mol = netCharge st.mol := by
  rcases chargeBody_fixed_cases r.fix st mp st' h with he | ⟨s, t, m1, hs, ht, h1, h2⟩
  · rw [he]
  · have hmem : r ∈ fixedRules ++ morganRules := List.mem_append_left _ hr
    have hmove := charged_rules_move_one_charge r hmem
    have hnm := charge_rules_have_no_metal_atoms r hmem
    unfold chargeRuleMovesOne at hmove
    simp only [Bool.and_eq_true, beq_iff_eq] at hmove
    obtain ⟨⟨hsrc, h2c⟩, _⟩ := hmove
    -- the two query atoms and their charges
    obtain ⟨qs, hqs, hqsc⟩ : ∃ q, r.atoms.lookup (if r.fix then 3 else 1) = some q ∧ q.charge = 1 := by
      cases hq : r.atoms.lookup (if r.fix then 3 else 1) with
      | none => simp [hq] at hsrc
      | some q => exact ⟨q, rfl, by simpa [hq] using hsrc⟩
    obtain ⟨qt, hqt, hqtc⟩ : ∃ q, r.atoms.lookup 2 = some q ∧ q.charge = 0 := by
      cases hq : r.atoms.lookup 2 with
      | none => simp [hq] at h2c
      | some q => exact ⟨q, rfl, by simpa [hq] using h2c⟩
    have nonMetal : ∀ u q, r.atoms.lookup u = some q → q.kind ≠ .metal := by
      intro u q hq
      have hin : (u, q) ∈ r.atoms := mem_of_lookup_eq_some _ _ _ hq
      have := List.all_eq_true.mp hnm (u, q) hin
      simpa using this
    obtain ⟨as, has, hasc⟩ := live_match_has_pattern_charge r.toPattern st.mol L _ s qs hqs (nonMetal _ _ hqs) (live _ _ hs)
    obtain ⟨at', hat, hatc⟩ := live_match_has_pattern_charge r.toPattern st.mol L 2 t qt hqt (nonMetal _ _ hqt) (live _ _ ht)
    have hne : t ≠ s := by
      intro e
      subst e
      have := inj _ _ _ hs ht
      split at this <;> omega
    have e1 := netCharge_setCharge as hnd has h1
    have hat1 : m1.atom? t = some at' := by rw [atom?_setCharge_ne hne h1]; exact hat
    have hnd1 : m1.ids.Nodup := by rw [setCharge_ids h1]; exact hnd
    have e2 := netCharge_setCharge at' hnd1 hat1 h2
    rw [e2, e1, hasc, hatc, hqsc, hqtc]
    omega

/-- the hypotheses are satisfiable and the step does something: rule `fixed[0]` (`fix = false`) on a three-atom stand-in whose
    atoms 1 and 2 carry `+1` and `0`: the charge moves from atom 1 to atom 2 -/
example : ∃ st', chargeBody false false
      { mol := ⟨[(1, { z := 7, charge := 1, implH := some 1 }), (2, { z := 7, implH := some 1 }), (3, { z := 7, implH := some 0 })],
                [(1, [(3, { order := 4 }), (2, { order := 4 })]), (2, [(1, { order := 4 }), (3, { order := 4 })]),
                 (3, [(1, { order := 4 }), (2, { order := 4 })])]⟩ }
      [(1, 1), (2, 2), (3, 3)] = some st' ∧ netCharge st'.mol = 1 ∧ (st'.mol.atom? 2).map (·.charge) = some 1 :=
  ⟨_, rfl, by decide, by decide⟩

/-- **Proved part — one `morgan_rules` application together with its own deferred `+1` conserves the net charge whenever the
    mapping matches the live molecule.** The loop body takes the charge off the source atom (`mapping[3]` if `fix` else
    `mapping[1]`) and queues `(mapping[1], mapping[2], fix)`; after the ranking `applyPairs` puts `+1` on `mapping[2]` or on
    `mapping[1]`. For every rule of the regenerated `morgan_rules`: if the mapping is injective and its atoms compare equal to
    their query atoms now, the molecule after the pair was applied has the net charge of the molecule before the body ran —
    whichever way the ranking decides. -/
theorem morgan_pair_conserves_charge_partial (r : ChargeRule) (hr : r ∈ morganRules) (L : Labels) (st st' : CState) (mp : Iso.Dict)
    (order : List (Nat × Nat)) (a1 a2 : Nat) (m2 : Mol) (ch ch2 : List Nat)
    (hnd : st.mol.ids.Nodup) (h : chargeBody true r.fix st mp = some st')
    (hpair : st'.pairs = st.pairs ++ [(a1, a2, r.fix)])
    (happ : applyPairs order [(a1, a2, r.fix)] st'.mol ch = some (m2, ch2))
    (live : ∀ u x, mp.lookup u = some x → atomOk r.toPattern st.mol L u x = true) :
    netCharge m2 = netCharge st.mol := by
  rcases chargeBody_morgan_cases r.fix st mp st' h with ⟨_, hp⟩ | ⟨s, b1, b2, hs, hb1, hb2, h1, hp⟩
  · rw [hp] at hpair
    have := congrArg List.length hpair
    simp at this
  · rw [hp] at hpair
    have hpe := List.append_cancel_left hpair
    simp only [List.cons.injEq, Prod.mk.injEq, and_true] at hpe
    obtain ⟨e1, e2⟩ := hpe
    have happ' : applyPairs order [(b1, b2, r.fix)] st'.mol ch = some (m2, ch2) := by rw [e1, e2]; exact happ
    have hmem : r ∈ fixedRules ++ morganRules := List.mem_append_right _ hr
    have hmove := charged_rules_move_one_charge r hmem
    have hnm := charge_rules_have_no_metal_atoms r hmem
    unfold chargeRuleMovesOne at hmove
    simp only [Bool.and_eq_true, beq_iff_eq, Bool.or_eq_true, Bool.not_eq_true'] at hmove
    obtain ⟨⟨hsrc, h2c⟩, h1c⟩ := hmove
    have nonMetal : ∀ u q, r.atoms.lookup u = some q → q.kind ≠ .metal := by
      intro u q hq
      have hin : (u, q) ∈ r.atoms := mem_of_lookup_eq_some _ _ _ hq
      have := List.all_eq_true.mp hnm (u, q) hin
      simpa using this
    have chargeOf : ∀ u x (c : Int), mp.lookup u = some x → (r.atoms.lookup u).map (·.charge) = some c →
        ∃ a, st.mol.atom? x = some a ∧ a.charge = c := by
      intro u x c hx hc
      cases hq : r.atoms.lookup u with
      | none => simp [hq] at hc
      | some q =>
        obtain ⟨a, ha, hac⟩ := atomOk_pins_charge r.toPattern st.mol L u x q hq (nonMetal u q hq) (live u x hx)
        exact ⟨a, ha, by simpa [hq, hac] using hc⟩
    obtain ⟨as, has, has1⟩ := chargeOf _ s 1 hs hsrc
    rcases applyPairs_one order b1 b2 r.fix st'.mol m2 ch ch2 happ' with h2 | h2
    · -- `+1` on `mapping[2]`, a neutral atom different from the source
      obtain ⟨at2, hat2, hat20⟩ := chargeOf 2 b2 0 hb2 h2c
      exact move_one_charge hnd as has has1 h1 h2 (Or.inr ⟨at2, hat2, hat20⟩)
    · -- `+1` on `mapping[1]`: the source itself (`fix = false`) or a neutral atom (`fix = true`)
      cases hfix : r.fix with
      | false =>
        rw [hfix] at hs
        simp only [Bool.false_eq_true, if_false] at hs
        have : b1 = s := by rw [hb1] at hs; simpa using hs
        exact move_one_charge hnd as has has1 h1 h2 (Or.inl this)
      | true =>
        rcases h1c with hf | h1c
        · rw [hfix] at hf; simp at hf
        · obtain ⟨at1, hat1, hat10⟩ := chargeOf 1 b1 0 hb1 h1c
          exact move_one_charge hnd as has has1 h1 h2 (Or.inr ⟨at1, hat1, hat10⟩)

/-- the hypotheses are satisfiable and both halves do something: rule-`fix = false` body on a three-atom stand-in takes the charge
    off atom 1 and queues `(1, 2, false)`; with rank(1) > rank(2) the deferred `+1` lands on atom 2 and `[2, 1]` is reported -/
example : ((chargeBody true false
      { mol := ⟨[(1, { z := 7, charge := 1, implH := some 1 }), (2, { z := 7, implH := some 1 }), (3, { z := 7, implH := some 0 })],
                [(1, [(3, { order := 4 }), (2, { order := 4 })]), (2, [(1, { order := 4 }), (3, { order := 4 })]),
                 (3, [(1, { order := 4 }), (2, { order := 4 })])]⟩ }
      [(1, 1), (2, 2), (3, 3)]).bind fun st' =>
        (applyPairs [(1, 5), (2, 3), (3, 1)] st'.pairs st'.mol []).map fun r =>
          (st'.pairs, netCharge st'.mol, netCharge r.1, (r.1.atom? 2).map (·.charge), r.2)) =
    some ([(1, 2, false)], 0, 1, some 1, [2, 1]) := by rfl

/-! ## `fix_resonance` (`fixResonance`: what the driver's `RES` request runs) -/

/-- **`fix_resonance` keeps the atoms and the net charge**: for every molecule with unique atom numbers, any labels and any pop
    order of the `rads` / `entries` sets, a finished run — radical pairing, every charge shift along a delocalisation path, the
    final `calc_implicit` of the touched atoms — returns the same atoms (numbers, order, elements, isotopes; hence the same heavy
    atoms) with the same total charge: each shift takes one unit from the cation end and gives it to the anion start, radical
    steps and bond-order writes do not touch charges. (The hydrogen count is recomputed and NOT conserved in general: known
    finding `C14/fix_resonance/hydrogen-count`.) -/
theorem fix_resonance_conserves (m : Mol) (L : Labels) (radOrder entOrder : List Nat) (o : Mol) (hs : List Nat)
    (hnd : m.ids.Nodup) (h : fixResonance m L radOrder entOrder = some (o, hs)) :
    skeleton o = skeleton m ∧ heavyAtoms o = heavyAtoms m ∧ netCharge o = netCharge m :=
  let k := fixResonance_keeps m L radOrder entOrder o hs hnd h
  ⟨k.1, heavyAtoms_eq_of_skeleton k.1, k.2⟩

/-- one charge shift, as the loop body performs it: `−1` on the cation end `e`, `+1` on the anion start `n`, then the bond orders
    of the path — atoms kept, net charge unchanged, whatever the path -/
theorem charge_shift_step_conserves (m m1 m2 : Mol) (n e : Nat) (path : RPath) (hs : List Nat) (hnd : m.ids.Nodup)
    (h1 : updAtom? m e (fun a => { a with charge := a.charge - 1 }) = some m1)
    (h2 : updAtom? m1 n (fun a => { a with charge := a.charge + 1 }) = some m2) :
    skeleton (applyPath path m2 hs).1 = skeleton m ∧ netCharge (applyPath path m2 hs).1 = netCharge m := by
  have c1 := updAtom?_charge (d := -1) hnd (by simpa [Int.sub_eq_add_neg] using h1)
  have hnd1 : m1.ids.Nodup := by rw [ids_of_skeleton c1.1]; exact hnd
  have c2 := updAtom?_charge (d := 1) hnd1 h2
  have k := keeps_applyPath path m2 hs
  exact ⟨k.1.trans (c2.1.trans c1.1), by rw [k.2, c2.2, c1.2]; omega⟩

/-- the hypotheses are satisfiable and the run does something: the 1,3-dipole `[CH2-]C=[OH+]` (atoms 1–3) is neutralised to
    `C=CO`: the charge moves from 3 to 1, both bond orders flip, all three atoms are reported, hydrogens stay 2 / 1 / 1 -/
example : (fixResonance
      ⟨[(1, { z := 6, charge := -1, implH := some 2 }), (2, { z := 6, implH := some 1 }), (3, { z := 8, charge := 1, implH := some 1 })],
       [(1, [(2, { order := 1 })]), (2, [(1, { order := 1 }), (3, { order := 2 })]), (3, [(2, { order := 2 })])]⟩
      ⟨[(1, ⟨1, 1, 0, []⟩), (2, ⟨2, 2, 1, []⟩), (3, ⟨1, 2, 0, []⟩)], []⟩ [] [1]).map
    (fun r => (r.2, r.1.atoms.map (fun p => (p.2.charge, p.2.implH)), (r.1.bond? 1 2).map (·.order), (r.1.bond? 2 3).map (·.order))) =
    some ([1, 2, 3], [(0, some 2), (0, some 1), (0, some 1)], some 2, some 1) := by decide +kernel

/-- **Every delocalisation path alternates** (the "documented pattern" of a shift: `A=A-A >> A-A=A`). Whatever the start atom, the
    finish / constraint sets, the acceptance test and the fuel: if the search (`findPath` from `startStack`, exactly what both
    loops of `fixResonance` call) hands out a path `p`, then step `i` of `p` rewrites an EXISTING bond of the molecule, of order `o`,
    to `o + 1` when `i` is even (`o ≤ 2`) and to `o − 1` when `i` is odd (`2 ≤ o ≤ 4`): bond orders go up, down, up, … along
    the path, never below 1 or above 3. -/
theorem resonance_paths_alternate (m : Mol) (start : Nat) (finish constrains : List Nat) (oddOnly : Bool)
    (accept : RPath → Option Bool) (fuel : Nat) (st0 : List (Nat × Nat × Nat × Nat)) (seen : List Nat) (p : RPath)
    (h0 : startStack m start constrains = some st0)
    (h : findPath m finish constrains oddOnly accept fuel st0 [] seen = some (some p)) :
    ∀ i t, p[i]? = some t → StepOk m i t :=
  search_alternates m start finish constrains oddOnly accept fuel st0 seen p h0 h

/-- a path with something in it: on `[CH2-]C=[OH+]` the search from atom 1 to the cation 3 yields `[(1,2,→2), (2,3,→1)]` -/
example : ∃ st0, startStack
      ⟨[(1, { z := 6, charge := -1, implH := some 2 }), (2, { z := 6, implH := some 1 }), (3, { z := 8, charge := 1, implH := some 1 })],
       [(1, [(2, { order := 1 })]), (2, [(1, { order := 1 }), (3, { order := 2 })]), (3, [(2, { order := 2 })])]⟩ 1 [1, 2, 3] = some st0 ∧
    findPath
      ⟨[(1, { z := 6, charge := -1, implH := some 2 }), (2, { z := 6, implH := some 1 }), (3, { z := 8, charge := 1, implH := some 1 })],
       [(1, [(2, { order := 1 })]), (2, [(1, { order := 1 }), (3, { order := 2 })]), (3, [(2, { order := 2 })])]⟩
      [3] [1, 2, 3] false (fun _ => some true) 100 st0 [] [1] = some (some [(1, 2, 2), (2, 3, 1)]) :=
  ⟨_, rfl, by decide⟩

/-! ## the `canonicalize` pipeline as a composition of its stages -/

/-- **Heavy atoms through the whole pipeline.** `canonicalize` is `kekule → fix_resonance → rule tables → implicify_hydrogens →
    thiele → standardize_charges`. The four modelled stages are the functions the driver runs (`fixResonance`,
    `standardizeFrom`, `implicify`, `standardizeCharges`); the Kekulé / Thiele steps (C05's subject) enter only through what is
    assumed of them: they keep the atoms (`skeleton`). Then the heavy-atom list of the result is that of the input — the
    per-stage theorems (`fix_resonance_conserves`, `standardize_whole_keeps_atoms`, `implicify_keeps_heavy_atoms`,
    `standardize_charges_keeps_composition`) compose, the `Nodup` side condition being carried along by the stages themselves. -/
theorem canonicalize_pipeline_keeps_heavy_atoms
    (m0 m1 m2 m3 m4 m5 m6 : Mol) (hnd : m0.ids.Nodup)
    -- kekule (assumed: keeps the atoms)
    (hkek : skeleton m1 = skeleton m0)
    -- fix_resonance
    (L1 : Labels) (ro eo hs : List Nat) (hres : fixResonance m1 L1 ro eo = some (m2, hs))
    -- the rule tables of standardize()
    (fixTaut : Bool) (fuel phase ri : Nat) (fs : Bool) (allFixed : List Nat) (ts ts' : TState) (hts : ts.mol = m2)
    (hstd : reachedS (standardizeFrom fixTaut fuel phase ri fs allFixed ts) = some ts') (hts' : ts'.mol = m3)
    -- implicify_hydrogens
    (cnt : Nat) (fx : List Nat) (himp : implicify m3 = .ok (m4, cnt, fx))
    -- thiele (assumed: keeps the atoms)
    (hthi : skeleton m5 = skeleton m4)
    -- standardize_charges
    (L5 : Labels) (comps sssr : List (List Nat)) (orders : List (List (Nat × Nat))) (ch : List Nat)
    (hchg : standardizeCharges m5 L5 comps sssr orders = some (.done m6 ch)) :
    heavyAtoms m6 = heavyAtoms m0 := by
  have hnd1 : m1.ids.Nodup := by rw [ids_of_skeleton hkek]; exact hnd
  have k2 := fixResonance_keeps m1 L1 ro eo m2 hs hnd1 hres
  have hnd2 : m2.ids.Nodup := by rw [ids_of_skeleton k2.1]; exact hnd1
  obtain ⟨hid3, hs3⟩ := standardizeFrom_skeleton fixTaut fuel phase ri fs allFixed ts ts' (hts ▸ hnd2) hstd
  rw [hts, hts'] at hs3 hid3
  have hnd3 : m3.ids.Nodup := by rw [hid3]; exact hnd2
  have h4 := implicify_heavy m3 m4 cnt fx himp hnd3
  have h6 := (standardize_charges_keeps_composition m5 L5 comps sssr orders m6 ch hchg).2.1
  rw [h6, heavyAtoms_eq_of_skeleton hthi, h4, heavyAtoms_eq_of_skeleton hs3, heavyAtoms_eq_of_skeleton k2.1,
    heavyAtoms_eq_of_skeleton hkek]

/-! ## explicit / implicit hydrogens -/

/-- **`explicify_hydrogens` is a pure re-drawing**: same heavy atoms, same net charge, same total hydrogen count; afterwards
    every atom has implicit count 0 and exactly `cnt` atoms were added. (An atom without a count makes it raise
    `ValenceError` before anything is changed: `explicify m = .error _`.) -/
theorem explicify_conserves (m m' : Mol) (cnt : Nat) (h : explicify m = .ok (m', cnt)) :
    heavyAtoms m' = heavyAtoms m ∧ netCharge m' = netCharge m ∧ hydrogens m' = hydrogens m ∧
    (∀ p ∈ m'.atoms, p.2.implH = some 0) ∧ m'.atoms.length = m.atoms.length + cnt :=
  explicify_spec m m' cnt h

example : ∃ m m' cnt, explicify m = .ok (m', cnt) ∧ cnt = 4 :=
  ⟨⟨[(1, { z := 6, implH := some 4 })], [(1, [])]⟩, _, _, rfl, rfl⟩

/-- the error branch: a missing count is reported, nothing is returned -/
theorem explicify_raises_on_valence_error (m : Mol) (h : ∃ p ∈ m.atoms, p.2.implH = none) :
    explicify m = .error .valenceError := by
  have : ∀ (atoms : List (Nat × Atom)), (∃ p ∈ atoms, p.2.implH = none) → toAdd atoms = .error .valenceError := by
    intro atoms
    induction atoms with
    | nil => intro ⟨p, hp, _⟩; simp at hp
    | cons q tl ih =>
      intro ⟨p, hp, hn⟩
      obtain ⟨n, a⟩ := q
      rw [toAdd]
      cases ha : a.implH with
      | none => rfl
      | some k =>
        simp only
        rcases List.mem_cons.mp hp with rfl | hp
        · simp [ha] at hn
        · rw [ih ⟨p, hp, hn⟩]
  unfold explicify
  rw [this m.atoms h]

/-- **`implicify_hydrogens` removes nothing but plain hydrogen atoms** -/
theorem implicify_keeps_heavy_atoms (m m' : Mol) (cnt : Nat) (fx : List Nat) (h : implicify m = .ok (m', cnt, fx))
    (hnd : m.ids.Nodup) : heavyAtoms m' = heavyAtoms m :=
  implicify_heavy m m' cnt fx h hnd

/-- and it conserves the net charge when the explicit plain hydrogens it may remove are neutral (the code never looks at the
    charge of a hydrogen it removes: a drawn `[H+]` bonded to an atom would take its charge with it) -/
theorem implicify_conserves_charge (m m' : Mol) (cnt : Nat) (fx : List Nat) (h : implicify m = .ok (m', cnt, fx))
    (hnd : m.ids.Nodup) (hneutral : ∀ p ∈ m.atoms, isPlainH p.2 = true → p.2.charge = 0) : netCharge m' = netCharge m :=
  implicify_charge m m' cnt fx h hnd hneutral

/-- **`implicify_hydrogens ∘ explicify_hydrogens = id`** (full statement, molecule level). For every molecule `m` that is
    `Consistent` — numbers unique, neighbour dicts keyed like the atoms, no explicit hydrogen atom, no aromatic bond, and every
    stored hydrogen count is the one `calc_implicit` (C04 model) gives — making the hydrogens explicit and implicit again
    returns *the same molecule*: same atoms with the same counts, same neighbour dicts, all in the same dict order, and the
    number of removed atoms equals the number of added ones. -/
theorem explicify_implicify_inverse (m e : Mol) (cnt : Nat) (C : Consistent m) (he : explicify m = .ok (e, cnt)) :
    ∃ fx, implicify e = .ok (m, cnt, fx) :=
  implicify_explicify m e cnt C he

/-- the hypotheses are satisfiable by a molecule with something to do: methanol `CO` (4 hydrogens added and removed) -/
example : ∃ m e, Consistent m ∧ explicify m = .ok (e, 4) := by
  refine ⟨⟨[(1, { z := 6, implH := some 3 }), (2, { z := 8, implH := some 1 })],
            [(1, [(2, { order := 1 })]), (2, [(1, { order := 1 })])]⟩, _, ⟨by decide, by decide, by decide, by decide, ?_⟩, rfl⟩
  intro p hp
  simp only [List.mem_cons, List.mem_nil_iff, or_false] at hp
  rcases hp with rfl | rfl
  · exact ⟨3, rfl, by decide +kernel⟩
  · exact ⟨1, rfl, by decide +kernel⟩

/-- the per-atom core of it: the `h ≥ i` scan of `implicify_hydrogens` inverts `calc_implicit`. If the bonds an atom keeps
    (none aromatic) give `h > 0` by `calc_implicit` and the atom carries exactly `h` explicit plain hydrogens, all of them are
    removed and the count `h` is restored. -/
theorem implicify_scan_inverts_calc_implicit (t : Valence.Rules) (a : Atom) (m : Mol) (row : List (Nat × Bond)) (hs : List Nat)
    (bs : List Valence.BE) (h : Nat) (hk : keptBonds m row hs = some bs) (hna : ∀ b ∈ bs, b.1 ≠ 4) (hz : a.z ≠ 1)
    (hc : Valence.calcWith t ⟨a.z, a.charge, a.radical, bs⟩ = some h) (hlen : hs.length = h) (hpos : 0 < h) :
    scan t a m row hs hs.length = .remove hs h :=
  scan_inverts_calc t a m row hs bs h hk hna hz hc hlen hpos

/-- whatever the scan removes, the restored count is at least the number of removed hydrogens (never a negative balance) -/
theorem implicify_count_covers_removed (t : Valence.Rules) (a : Atom) (m : Mol) (row : List (Nat × Bond)) (hs hi : List Nat) (h : Nat)
    (hsc : scan t a m row hs hs.length = .remove hi h) : hi.length ≤ h ∧ ∃ j, hi = hs.take j := by
  obtain ⟨j, hj, e, g⟩ := scan_remove t a m row hs hs.length hi h hsc
  refine ⟨?_, j, e⟩
  rw [e, List.length_take]; omega

end ChythonModel.Props.C14
