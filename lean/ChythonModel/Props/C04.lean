import ChythonModel.Proofs.C04
import ChythonModel.Proofs.C04Standardize
import ChythonModel.Proofs.C04StdTotal
import ChythonModel.Spec.OrganicValence
import ChythonModel.Spec.Lewis
/-!
# C04 — implicit hydrogen counts and valence errors follow the element valence rules

All theorems are about the definitions of `Model/Valence.lean` that the driver `Drivers/C04.lean` executes
(`compileRules`, `calcWith`/`calcImplicit`, `checkWith`, `fixStructure`, `checkValence`, `molecularCharge`,
`isRadical`, `brutto`, `molecularMassPico`) over `Gen.periodicTable`, which is regenerated from /repo on
every run.  Table facts are closed by kernel evaluation (`decide +kernel`); everything that quantifies over
bond lists or molecules is proved by induction / case analysis (helper lemmas in `Proofs/C04.lean`).

Hypotheses that appear below and why they are the property's own domain, not a weakening:
* `aromaCount bonds = 0` — "a structure with localised bonds" (the property text). The aromatic-carbon special
  cases are characterised separately in `calc_aromatic`.
* `c.z ≠ 1` in the first-rule characterisation — `calc_implicit` answers 0 for hydrogen before any rule is read
  (`calc_hydrogen`).
-/
namespace ChythonModel.Props.C04
open ChythonModel.Gen ChythonModel.Model ChythonModel.Model.Valence ChythonModel.Proofs.C04
open ChythonModel.Spec ChythonModel.Spec.FirstMatch

/-! ## 1. `_compiled_valence_rules` (regenerated tables) -/

/-- `p` holds for the compiled table of every element, and compilation raises for none. -/
def compiledSat (p : Rules → Bool) : Bool :=
  periodicTable.all fun r => match compileRules periodicTable r with
    | .ok t => p t
    | .error _ => false

theorem compiledSat_elim {p : Rules → Bool} (h : compiledSat p = true) :
    ∀ r ∈ periodicTable, ∃ t, compileRules periodicTable r = .ok t ∧ p t = true := by
  intro r hr
  have := List.all_eq_true.mp h r hr
  cases hc : compileRules periodicTable r with
  | ok t => exact ⟨t, rfl, by simpa [hc] using this⟩
  | error e => simp [hc] at this

/-- `_compiled_valence_rules` raises for no element: `_common_valences[0]` exists and every environment symbol
    of every exception resolves through the class table (no `IndexError`, no `KeyError`). -/
theorem compile_total : ∀ r ∈ periodicTable, ∃ t, compileRules periodicTable r = .ok t := by
  have h : compiledSat (fun _ => true) = true := by decide +kernel
  intro r hr
  obtain ⟨t, ht, _⟩ := compiledSat_elim h r hr
  exact ⟨t, ht⟩

/-- every atomic number 1…118 has a compiled table (`from_atomic_number` + compilation succeed) -/
theorem table_of_every_element : ∀ z ∈ List.range' 1 118, (tableOf z).isSome = true := by decide +kernel

/-- in every compiled rule `explicit_set` is exactly the key list of `explicit_dict` (same order of first
    occurrence). Consequence: in `calc_implicit`, whenever `s.issubset(explicit_dict)` holds, the following
    `explicit_dict[k] >= c` look-ups never insert a key into the `defaultdict`, so the pure model is exact. -/
theorem compiled_set_eq_dict_keys :
    ∀ r ∈ periodicTable, ∃ t, compileRules periodicTable r = .ok t ∧
      ∀ krs ∈ t, ∀ q ∈ krs.2, q.dict.map (·.1) = q.set := by
  have h : compiledSat (fun t => t.all fun krs => krs.2.all fun q => q.dict.map (·.1) == q.set) = true := by
    decide +kernel
  intro r hr
  obtain ⟨t, ht, hp⟩ := compiledSat_elim h r hr
  refine ⟨t, ht, ?_⟩
  intro krs hk q hq
  have := List.all_eq_true.mp (List.all_eq_true.mp hp krs hk) q hq
  simpa using this

/-- keys of a compiled table are pairwise distinct and no rule list is empty (it is a `dict` built by appends) -/
theorem compiled_keys_nodup :
    ∀ r ∈ periodicTable, ∃ t, compileRules periodicTable r = .ok t ∧ (t.map (·.1)).Nodup ∧ ∀ krs ∈ t, krs.2 ≠ [] := by
  have h : compiledSat (fun t => decide (t.map (·.1)).Nodup && t.all fun krs => !krs.2.isEmpty) = true := by
    decide +kernel
  intro r hr
  obtain ⟨t, ht, hp⟩ := compiledSat_elim h r hr
  simp only [Bool.and_eq_true, decide_eq_true_eq] at hp
  refine ⟨t, ht, hp.1, ?_⟩
  intro krs hk e
  have := List.all_eq_true.mp hp.2 krs hk
  simp [e] at this

/-- no rule of any element assigns more than 4 hydrogens, and every multiplicity in an environment is ≥ 1:
    probing `check_implicit(h)` for `h = 0..4` (as the correspondence does) sees every accepted count. -/
theorem compiled_hydrogens_le_four :
    ∀ r ∈ periodicTable, ∃ t, compileRules periodicTable r = .ok t ∧
      ∀ krs ∈ t, ∀ q ∈ krs.2, q.h ≤ 4 ∧ ∀ kc ∈ q.dict, 1 ≤ kc.2 := by
  have h : compiledSat (fun t => t.all fun krs => krs.2.all fun q =>
      decide (q.h ≤ 4) && q.dict.all fun kc => decide (1 ≤ kc.2)) = true := by decide +kernel
  intro r hr
  obtain ⟨t, ht, hp⟩ := compiledSat_elim h r hr
  refine ⟨t, ht, ?_⟩
  intro krs hk q hq
  have := List.all_eq_true.mp (List.all_eq_true.mp hp krs hk) q hq
  simp only [Bool.and_eq_true, decide_eq_true_eq, List.all_eq_true] at this
  exact this

/-! ## 2. independence of the order of the bond dict (numbering / insertion order) -/

/-- `calc_implicit` and `check_implicit` depend on the *multiset* of `(order, neighbour element)` pairs only —
    for every table, every atom state and every pair of permuted bond lists. -/
theorem calc_perm (t : Rules) (z : Nat) (c : Int) (r : Bool) {bs bs' : List BE} (h : bs.Perm bs') :
    calcWith t ⟨z, c, r, bs⟩ = calcWith t ⟨z, c, r, bs'⟩ ∧
    ∀ hh, checkWith t ⟨z, c, r, bs⟩ hh = checkWith t ⟨z, c, r, bs'⟩ hh :=
  ⟨calcWith_perm t z c r h, fun hh => checkWith_perm t z c r hh h⟩

/-- the same statement for the functions over the real element tables -/
theorem calcImplicit_perm (z : Nat) (c : Int) (r : Bool) {bs bs' : List BE} (h : bs.Perm bs') :
    calcImplicit ⟨z, c, r, bs⟩ = calcImplicit ⟨z, c, r, bs'⟩ ∧
    ∀ hh, checkImplicit ⟨z, c, r, bs⟩ hh = checkImplicit ⟨z, c, r, bs'⟩ hh := by
  constructor
  · simp only [calcImplicit]; cases tableOf z with
    | none => rfl
    | some t => simp only [Option.map_some, calcWith_perm t z c r h]
  · intro hh; simp only [checkImplicit]; cases tableOf z with
    | none => rfl
    | some t => simp only [Option.map_some, checkWith_perm t z c r hh h]

example : calcImplicit ⟨7, 1, false, [(2, 8), (1, 6), (1, 6)]⟩ = calcImplicit ⟨7, 1, false, [(1, 6), (2, 8), (1, 6)]⟩ :=
  (calcImplicit_perm 7 1 false (List.Perm.swap _ _ _)).1

/-! ## 3. first matching rule -/

/-- `explicit_sum` is the sum of the orders of the localised bonds -/
theorem explicitSum_spec (bs : List BE) : explicitSum bs = ((localised bs).map (·.1)).sum := by
  simp only [explicitSum, counted_eq_localised]

/-- hydrogen never has implicit hydrogens, whatever its bonds -/
theorem calc_hydrogen (t : Rules) (c : Int) (r : Bool) (bs : List BE) : calcWith t ⟨1, c, r, bs⟩ = some 0 := by
  simp [calcWith]

/-- For a non-hydrogen atom with localised bonds, `calc_implicit` sets `h` **iff** the element has a rule list for
    `(charge, radical, Σ orders)` and `h` is the count of the *first* rule in it whose environment requirement is
    contained in the multiset of localised bonds (declarative `Spec.FirstMatch`). -/
theorem calc_first_rule (t : Rules) (c : Ctx) (hz : c.z ≠ 1) (ha : aromaCount c.bonds = 0) (h : Nat) :
    calcWith t c = some h ↔
      ∃ rules q, valenceRules t c.charge c.radical (explicitSum c.bonds) = some rules ∧
        IsFirst (fun q => EnvMet c.bonds q.set q.dict) rules q ∧ q.h = h := by
  have hz' : (c.z == 1) = false := by simp [hz]
  simp only [calcWith, hz', ha]
  simp only [Bool.false_eq_true, if_false, bne_self_eq_false, Bool.false_and, Nat.reduceBEq]
  cases hv : valenceRules t c.charge c.radical (explicitSum c.bonds) with
  | none => simp
  | some rules =>
    simp only [firstRule_some, Option.some.injEq]
    constructor
    · rintro ⟨q, hq, e⟩
      refine ⟨rules, q, rfl, ?_, e⟩
      obtain ⟨pre, post, e1, hm, hpre⟩ := hq
      exact ⟨pre, post, e1, (ruleMatches_iff _ _).mp hm, fun p hp hmet => hpre p hp ((ruleMatches_iff _ _).mpr hmet)⟩
    · rintro ⟨rules', q, e0, hq, e⟩
      subst e0
      obtain ⟨pre, post, e1, hm, hpre⟩ := hq
      exact ⟨q, ⟨pre, post, e1, (ruleMatches_iff _ _).mpr hm, fun p hp hmet => hpre p hp ((ruleMatches_iff _ _).mp hmet)⟩, e⟩

/-- … and it sets `None` iff there is no rule list or no rule in it is met. -/
theorem calc_none_iff (t : Rules) (c : Ctx) (hz : c.z ≠ 1) (ha : aromaCount c.bonds = 0) :
    calcWith t c = none ↔
      ∀ rules, valenceRules t c.charge c.radical (explicitSum c.bonds) = some rules →
        ∀ q ∈ rules, ¬ EnvMet c.bonds q.set q.dict := by
  have hz' : (c.z == 1) = false := by simp [hz]
  simp only [calcWith, hz', ha]
  simp only [Bool.false_eq_true, if_false, bne_self_eq_false, Bool.false_and, Nat.reduceBEq]
  cases hv : valenceRules t c.charge c.radical (explicitSum c.bonds) with
  | none => simp
  | some rules =>
    simp only [firstRule_none, Option.some.injEq, forall_eq']
    constructor
    · intro hall q hq hmet
      have := hall q hq
      rw [(ruleMatches_iff _ _).mpr hmet] at this
      exact Bool.noConfusion this
    · intro hall q hq
      cases hm : ruleMatches (explicitDict c.bonds) q with
      | false => rfl
      | true => exact absurd ((ruleMatches_iff _ _).mp hm) (hall q hq)

/-- Aromatic bonds: the answer does not depend on the element table at all. Only a neutral non-radical carbon is
    supported: two aromatic bonds leave one valence (`H` or one single-bonded substituent), three leave none;
    everything else is `None` ("use kekule()"). -/
theorem calc_aromatic (t : Rules) (c : Ctx) (hz : c.z ≠ 1) (ha : aromaCount c.bonds ≠ 0) :
    calcWith t c =
      if c.charge = 0 ∧ c.radical = false ∧ c.z = 6 then
        (match aromaCount c.bonds, explicitSum c.bonds with
         | 2, 0 => some 1 | 2, 1 => some 0 | 3, 0 => some 0 | _, _ => none)
      else none := by
  have hz' : (c.z == 1) = false := by simp [hz]
  have ha' : (aromaCount c.bonds != 0) = true := by simp [ha]
  simp only [calcWith, hz', ha']
  by_cases hc : c.charge = 0 ∧ c.radical = false ∧ c.z = 6
  · obtain ⟨h1, h2, h3⟩ := hc
    simp only [h1, h2, h3]
    generalize aromaCount c.bonds = a at ha ⊢
    generalize explicitSum c.bonds = e
    match a, e with
    | 0, _ => exact absurd rfl ha
    | 1, _ => simp
    | 2, 0 => simp
    | 2, 1 => simp
    | 2, e + 2 => simp
    | 3, 0 => simp
    | 3, e + 1 => simp
    | a + 4, _ => simp
  · simp only [hc, if_false]
    have : (c.charge == 0 && !c.radical && c.z == 6) = false := by
      cases h1 : (c.charge == 0) <;> cases h2 : c.radical <;> cases h3 : (c.z == 6) <;> simp_all
    simp [this]

/-! ## 4. `check_implicit` against `calc_implicit` -/

/-- `check_implicit(n, h)` accepts exactly the counts of the rules whose environment is met -/
theorem check_iff_rule (t : Rules) (c : Ctx) (hz : c.z ≠ 1) (ha : aromaCount c.bonds = 0) (h : Nat) :
    checkWith t c h = true ↔
      ∃ rules, valenceRules t c.charge c.radical (explicitSum c.bonds) = some rules ∧
        ∃ q ∈ rules, q.h = h ∧ EnvMet c.bonds q.set q.dict := by
  have hz' : (c.z == 1) = false := by simp [hz]
  simp only [checkWith, hz', ha]
  simp only [Bool.false_eq_true, if_false, bne_self_eq_false]
  cases hv : valenceRules t c.charge c.radical (explicitSum c.bonds) with
  | none => simp
  | some rules =>
    simp only [List.any_eq_true, Bool.and_eq_true, beq_iff_eq, Option.some.injEq, exists_eq_left']
    constructor
    · rintro ⟨q, hq, e, hm⟩; exact ⟨q, hq, e.symm, (ruleMatches_iff _ _).mp hm⟩
    · rintro ⟨q, hq, e, hm⟩; exact ⟨q, hq, e.symm, (ruleMatches_iff _ _).mpr hm⟩

/-- the count `calc_implicit` assigns is accepted by `check_implicit` (localised bonds; for hydrogen too) -/
theorem check_of_calc (t : Rules) (c : Ctx) (ha : aromaCount c.bonds = 0) (h : Nat) :
    calcWith t c = some h → checkWith t c h = true := by
  intro hc
  by_cases hz : c.z = 1
  · have hz' : (c.z == 1) = true := by simp [hz]
    simp only [calcWith, hz', if_true, Option.some.injEq] at hc
    simp [checkWith, hz', hc]
  · obtain ⟨rules, q, hv, ⟨pre, post, e, hm, _⟩, eh⟩ := (calc_first_rule t c hz ha h).mp hc
    exact (check_iff_rule t c hz ha h).mpr ⟨rules, hv, q, by simp [e], eh, hm⟩

/-- an atom with localised bonds gets `None` (= is reported by `check_valence`) **iff** `check_implicit` rejects
    every hydrogen count: "no valence state exists". -/
theorem none_iff_no_valid_count (t : Rules) (c : Ctx) (ha : aromaCount c.bonds = 0) :
    calcWith t c = none ↔ ∀ h, checkWith t c h = false := by
  by_cases hz : c.z = 1
  · have hz' : (c.z == 1) = true := by simp [hz]
    simp only [calcWith, checkWith, hz', if_true]
    constructor
    · intro h; cases h
    · intro h; have := h 0; simp at this
  · rw [calc_none_iff t c hz ha]
    constructor
    · intro hall h
      cases hck : checkWith t c h with
      | false => rfl
      | true =>
        obtain ⟨rules, hv, q, hq, _, hm⟩ := (check_iff_rule t c hz ha h).mp hck
        exact absurd hm (hall rules hv q hq)
    · intro hall rules hv q hq hm
      have := (check_iff_rule t c hz ha q.h).mpr ⟨rules, hv, q, hq, rfl, hm⟩
      rw [hall q.h] at this
      exact Bool.noConfusion this

example : calcWith [((0, false, 2), [⟨[], [], 1⟩])] ⟨8, 0, false, [(2, 6)]⟩ = some 1 := by decide
example : calcImplicit ⟨8, 0, false, [(2, 6), (1, 6)]⟩ = some none := by decide +kernel

/-! ## 5. `check_valence` reports exactly the atoms without a valence state -/

/-- After the hydrogen pass of `fix_structure` (every atom recalculated, in `_atoms` order, each assignment visible
    to the following calculations), `check_valence` returns — in `_atoms` order — exactly the atoms for which
    `calc_implicit` finds no valence state in the molecule, and `fix_structure` touches nothing but the
    hydrogen marks. No well-formedness hypothesis is needed. -/
theorem valence_errors_exact (m m' : Mol) (hfix : fixStructure m = some m') :
    checkValence m' = m.ids.filter (fun n => calcImplicitMol m n == some none) ∧
    m'.ids = m.ids ∧ m'.adj = m.adj ∧ ∀ n, calcImplicitMol m' n = calcImplicitMol m n := by
  obtain ⟨ha, hadj, hall⟩ := fixLoop_spec m m.ids m m' (fun _ => rfl) hfix
  have hmap : m'.atoms = m.atoms.map fun p => (p.1, withH p.2 (calcImplicitMol m p.1).join) := by
    rw [ha]
    apply List.map_congr_left
    intro p hp
    have : m.ids.contains p.1 = true := by
      simp only [Mol.ids, List.contains_iff_mem, List.mem_map]
      exact ⟨p, hp, rfl⟩
    simp only [fixEntry, this, if_true]
  refine ⟨?_, ?_, hadj, ?_⟩
  · simp only [checkValence, hmap, Mol.ids, List.filter_map, List.map_map]
    have hfilter : List.filter ((fun x : Nat × Atom => x.2.implH.isNone) ∘ fun p : Nat × Atom => (p.1, withH p.2 (calcImplicitMol m p.1).join)) m.atoms =
        List.filter ((fun n => calcImplicitMol m n == some none) ∘ fun x : Nat × Atom => x.1) m.atoms := by
      apply List.filter_congr
      intro p hp
      have hs := hall p.1 (by simp only [Mol.ids, List.mem_map]; exact ⟨p, hp, rfl⟩)
      simp only [Function.comp, withH]
      cases hc : calcImplicitMol m p.1 with
      | none => simp [hc] at hs
      | some o => cases o <;> simp
    rw [hfilter]
    simp [Function.comp]
  · simp only [Mol.ids, hmap, List.map_map]
    apply List.map_congr_left
    intro p _; rfl
  · intro n
    -- the context of every atom is unchanged: same keys, z, charge, radical, same adjacency
    have hl : ∀ j, m'.atoms.lookup j = (m.atoms.lookup j).map fun a => withH a (calcImplicitMol m j).join := by
      intro j
      rw [hmap]
      generalize m.atoms = l
      induction l with
      | nil => rfl
      | cons p tl ih =>
        obtain ⟨k0, a⟩ := p
        simp only [List.map_cons, List.lookup]
        cases hb : (j == k0) with
        | true => have : j = k0 := by simpa using hb
                  subst this; simp
        | false => simpa using ih
    have hf : nbrEntry m'.atoms = nbrEntry m.atoms := by
      funext kb
      simp only [nbrEntry, hl]
      cases m.atoms.lookup kb.1 <;> rfl
    simp only [calcImplicitMol, ctxOf, hf, hadj, hl]
    cases m.atoms.lookup n with
    | none => rfl
    | some a => cases m.adj.lookup n <;> rfl

/-- **Recalculating the pending-change set suffices — and is necessary.** `fix_structure` visits only the atoms in `_changed`
    (`fixLoop ns`). If every atom *outside* `ns` already carries the count the rules give for the present structure, then after the
    pass **every** atom does; an atom outside `ns` keeps exactly the count it had (so a structurally changed atom that an edit
    forgot to put into `_changed` stays stale — the pass cannot repair it). -/
theorem changed_set_suffices (m m' : Mol) (ns : List Nat) (hfix : fixLoop ns m = some m') :
    (∀ p ∈ m'.atoms, ns.contains p.1 = true → some p.2.implH = calcImplicitMol m p.1) ∧
    (∀ p ∈ m'.atoms, ns.contains p.1 = false → p ∈ m.atoms) ∧
    ((∀ p ∈ m.atoms, ns.contains p.1 = false → some p.2.implH = calcImplicitMol m p.1) →
      ∀ p ∈ m'.atoms, some p.2.implH = calcImplicitMol m p.1) := by
  obtain ⟨ha, _, hall⟩ := fixLoop_spec m ns m m' (fun _ => rfl) hfix
  have h1 : ∀ p ∈ m'.atoms, ns.contains p.1 = true → some p.2.implH = calcImplicitMol m p.1 := by
    intro p hp hc
    rw [ha, List.mem_map] at hp
    obtain ⟨p0, _, e⟩ := hp
    have hk : p.1 = p0.1 := by rw [← e]; simp only [fixEntry]; split <;> rfl
    have hc0 : ns.contains p0.1 = true := hk ▸ hc
    have hs := hall p0.1 (by simpa using hc0)
    subst e
    simp only [fixEntry, hc0, if_true, withH]
    cases hcalc : calcImplicitMol m p0.1 with
    | none => simp [hcalc] at hs
    | some o => rfl
  have h2 : ∀ p ∈ m'.atoms, ns.contains p.1 = false → p ∈ m.atoms := by
    intro p hp hc
    rw [ha, List.mem_map] at hp
    obtain ⟨p0, hp0, e⟩ := hp
    have hk : p.1 = p0.1 := by rw [← e]; simp only [fixEntry]; split <;> rfl
    have hc0 : ns.contains p0.1 = false := hk ▸ hc
    have : p = p0 := by rw [← e]; simp only [fixEntry, hc0]; rfl
    exact this ▸ hp0
  refine ⟨h1, h2, ?_⟩
  intro hout p hp
  cases hc : ns.contains p.1 with
  | true => exact h1 p hp hc
  | false => exact hout p (h2 p hp hc) hc

/-- ethanol whose oxygen was re-charged to −1 while only the carbon is pending: the oxygen keeps its stale count 1 -/
example : (fixLoop [1] ⟨[(1, {z := 6, implH := some 3}), (2, {z := 8, charge := -1, implH := some 1})],
    [(1, [(2, ⟨1, none⟩)]), (2, [(1, ⟨1, none⟩)])]⟩).map (fun m => m.atoms.map (·.2.implH)) = some [some 3, some 1] := by
  decide +kernel

/-- the pass succeeds on every molecule whose adjacency only mentions existing atoms (what the Graph API maintains) -/
theorem fixStructure_total (m : Mol)
    (hclosed : ∀ n ∈ m.ids, ∃ nb, m.adj.lookup n = some nb ∧ ∀ kb ∈ nb, (m.atoms.lookup kb.1).isSome = true)
    (hz : ∀ p ∈ m.atoms, (tableOf p.2.z).isSome = true) :
    (fixStructure m).isSome = true := by
  have hcalc : ∀ (m1 : Mol), (∀ k, calcImplicitMol m1 k = calcImplicitMol m k) → ∀ n ∈ m.ids,
      (calcImplicitMol m1 n).isSome = true := by
    intro m1 hinv n hn
    rw [hinv]
    obtain ⟨nb, hnb, hall⟩ := hclosed n hn
    have hmem : ∃ a, m.atoms.lookup n = some a ∧ (n, a) ∈ m.atoms := by
      simp only [Mol.ids, List.mem_map] at hn
      generalize m.atoms = l at hn
      induction l with
      | nil => obtain ⟨p, hp, _⟩ := hn; cases hp
      | cons q tl ih =>
        obtain ⟨k0, a0⟩ := q
        simp only [List.lookup]
        cases hb : (n == k0) with
        | true =>
          have : n = k0 := by simpa using hb
          subst this
          exact ⟨a0, rfl, by simp⟩
        | false =>
          obtain ⟨p, hp, e⟩ := hn
          have hne : ¬ n = k0 := by simpa using hb
          cases List.mem_cons.mp hp with
          | inl e1 => subst e1; exact absurd e.symm hne
          | inr h1 =>
            obtain ⟨a, ha1, ha2⟩ := ih ⟨p, h1, e⟩
            exact ⟨a, ha1, List.mem_cons_of_mem _ ha2⟩
    obtain ⟨a, ha, hin⟩ := hmem
    have hmapM : ∃ bs, nb.mapM (nbrEntry m.atoms) = some bs := by
      clear hnb
      induction nb with
      | nil => exact ⟨[], rfl⟩
      | cons kb tl ih =>
        obtain ⟨bs, hbs⟩ := ih (fun x hx => hall x (List.mem_cons_of_mem _ hx))
        have h1 := hall kb (by simp)
        cases hl : m.atoms.lookup kb.1 with
        | none => simp [hl] at h1
        | some x => exact ⟨(kb.2.order, x.z) :: bs, by simp [List.mapM_cons, nbrEntry, hl, hbs]⟩
    obtain ⟨bs, hbs⟩ := hmapM
    have ht := hz (n, a) hin
    simp only [calcImplicitMol, ctxOf, ha, hnb, hbs, Option.map_some, Option.bind_some, calcImplicit]
    cases htb : tableOf a.z with
    | none => simp [htb] at ht
    | some t => rfl
  -- run the loop
  have hloop : ∀ (ns : List Nat) (m1 : Mol), (∀ n ∈ ns, n ∈ m.ids) → (∀ k, calcImplicitMol m1 k = calcImplicitMol m k) →
      (fixLoop ns m1).isSome = true := by
    intro ns
    induction ns with
    | nil => intro m1 _ _; rfl
    | cons n tl ih =>
      intro m1 hsub hinv
      have := hcalc m1 hinv n (hsub n (by simp))
      cases hc : calcImplicitMol m1 n with
      | none => simp [hc] at this
      | some h =>
        simp only [fixLoop, hc]
        exact ih _ (fun x hx => hsub x (List.mem_cons_of_mem _ hx)) (fun k => by rw [calcImplicitMol_setH, hinv])
  exact hloop m.ids m (fun _ h => h) (fun _ => rfl)

/-- methanol with wrong/unknown marks → fixed: C gets 3, O gets 1, nothing reported; pentavalent carbon is reported -/
example : (fixStructure ⟨[(1, {z := 6}), (2, {z := 8})], [(1, [(2, ⟨1, none⟩)]), (2, [(1, ⟨1, none⟩)])]⟩).map
    (fun m => (m.atoms.map (·.2.implH), checkValence m)) = some ([some 3, some 1], []) := by decide +kernel
example : (fixStructure ⟨[(1, {z := 6}), (2, {z := 8}), (3, {z := 7})],
    [(1, [(2, ⟨2, none⟩), (3, ⟨3, none⟩)]), (2, [(1, ⟨2, none⟩)]), (3, [(1, ⟨3, none⟩)])]⟩).map checkValence = some [1] := by
  decide +kernel

/-! ## 6. totals are sums over atoms (and therefore independent of numbering / insertion order) -/

/-- total charge, radical flag and Σ implicit H over two molecules with permuted atom tables coincide -/
theorem totals_perm (m m' : Mol) (h : m.atoms.Perm m'.atoms) :
    molecularCharge m = molecularCharge m' ∧ isRadical m = isRadical m' ∧
    implicitTotal m.atoms = implicitTotal m'.atoms ∧ molecularMassPico m = molecularMassPico m' := by
  refine ⟨?_, ?_, ?_, ?_⟩
  · exact sum_int_perm (h.map _)
  · exact h.any_eq
  · exact optSum_perm (h.map _)
  · simp only [molecularMassPico]
    cases hydrogenMassPico with
    | none => rfl
    | some hm =>
      dsimp only
      rw [optSum_perm (h.map fun p => massTerm hm p.2)]

/-- total charge and radical flag of a union are the sum / disjunction of the parts -/
theorem totals_append (a b : List (Nat × Atom)) (adj : List (Nat × List (Nat × Bond))) :
    molecularCharge ⟨a ++ b, adj⟩ = molecularCharge ⟨a, adj⟩ + molecularCharge ⟨b, adj⟩ ∧
    isRadical ⟨a ++ b, adj⟩ = (isRadical ⟨a, adj⟩ || isRadical ⟨b, adj⟩) := by
  simp [molecularCharge, isRadical, List.sum_append]

/-- Σ implicit H exists iff every atom has a hydrogen mark, and then it is the sum of the marks -/
theorem implicitTotal_spec (atoms : List (Nat × Atom)) (s : Nat) :
    implicitTotal atoms = some s ↔ ∃ hs : List Nat, atoms.map (·.2.implH) = hs.map some ∧ s = hs.sum :=
  optSum_some_iff _ s

/-- `brutto`: the count of every symbol is the number of atoms of that element, and `H` additionally carries the
    sum of all implicit hydrogens. -/
theorem brutto_counts (m : Mol) (b : List (String × Nat)) (hb : brutto m = .ok b) :
    ∃ hs : List Nat, m.atoms.map (·.2.implH) = hs.map some ∧
      ∀ s, counterGet b s = symbolCount m.atoms s + (if s = "H" then hs.sum else 0) := by
  simp only [brutto] at hb
  cases hc : symbolCounter m.atoms [] with
  | none => simp [hc] at hb
  | some c =>
    cases hi : implicitTotal m.atoms with
    | none => simp [hc, hi] at hb
    | some tot =>
      simp only [hc, hi, Except.ok.injEq] at hb
      obtain ⟨hs, e1, e2⟩ := (implicitTotal_spec _ _).mp hi
      refine ⟨hs, e1, ?_⟩
      intro s
      rw [← hb, counterGet_counterAdd, symbolCounter_count _ _ _ hc s, e2]
      simp only [counterGet, List.lookup, Option.getD_none, Nat.zero_add]
      by_cases e : s = "H"
      · subst e; simp
      · have : ¬ "H" = s := fun x => e x.symm
        simp [e, this]

/-- `brutto` raises (`TypeError`) exactly when some atom has no hydrogen mark or an unknown atomic number -/
theorem brutto_error_iff (m : Mol) :
    (∃ e, brutto m = .error e) ↔ symbolCounter m.atoms [] = none ∨ implicitTotal m.atoms = none := by
  simp only [brutto]
  cases symbolCounter m.atoms [] with
  | none => simp
  | some c => cases implicitTotal m.atoms <;> simp

/-- mass is the sum of the per-atom terms `atomic_mass + implicit H × mass(H)` when every term exists -/
theorem mass_spec (m : Mol) (s : Nat) (hs : molecularMassPico m = .ok s) :
    ∃ hm, hydrogenMassPico = some hm ∧ ∃ ts : List Nat, (m.atoms.map fun p => massTerm hm p.2) = ts.map some ∧ s = ts.sum := by
  simp only [molecularMassPico] at hs
  cases hh : hydrogenMassPico with
  | none => simp [hh] at hs
  | some hm =>
    simp only [hh] at hs
    cases ho : optSum (m.atoms.map fun p => massTerm hm p.2) with
    | none => simp [ho] at hs
    | some s' =>
      simp only [ho, Except.ok.injEq] at hs
      subst hs
      exact ⟨hm, rfl, (optSum_some_iff _ _).mp ho⟩

/-- water: H₂O, neutral, not radical, 18.010565 (¹H₂¹⁶O would be; natural abundance mass in 10⁻¹² units) -/
example : (brutto ⟨[(1, {z := 8, implH := some 2})], [(1, [])]⟩).toOption = some [("O", 1), ("H", 2)] := by decide +kernel

/-! ## 7. agreement with the OpenSMILES normal valences (independent reference, `Spec/OrganicValence.lean`) -/

/-- the first rule for `(q, False, v)` of element `z` is unconditional and assigns `h` -/
def headRuleIs (z : Nat) (q : Int) (v h : Nat) : Bool :=
  match tableOf z with
  | some t => match valenceRules t q false v with
    | some (r :: _) => r.set.isEmpty && r.dict.isEmpty && r.h == h
    | _ => false
  | none => false

theorem calc_of_headRule (z : Nat) (q : Int) (bs : List BE) (h : Nat) (hz : z ≠ 1) (ha : aromaCount bs = 0)
    (hh : headRuleIs z q (explicitSum bs) h = true) : calcImplicit ⟨z, q, false, bs⟩ = some (some h) := by
  simp only [headRuleIs] at hh
  cases ht : tableOf z with
  | none => simp [ht] at hh
  | some t =>
    simp only [ht] at hh
    cases hv : valenceRules t q false (explicitSum bs) with
    | none => simp [hv] at hh
    | some rules =>
      cases rules with
      | nil => simp [hv] at hh
      | cons r tl =>
        simp only [hv, Bool.and_eq_true, List.isEmpty_iff, beq_iff_eq] at hh
        obtain ⟨⟨h1, h2⟩, h3⟩ := hh
        have hz' : (z == 1) = false := by simp [hz]
        have hm : ruleMatches (explicitDict bs) r = true := by simp [ruleMatches, h1, h2]
        simp [calcImplicit, ht, calcWith, hz', ha, hv, firstRule, hm, h3]

theorem organic_heads :
    ∀ zv ∈ OrganicValence.normalValences, ∀ v0 ∈ zv.2.head?, ∀ v ∈ List.range (v0 + 1),
      headRuleIs zv.1 0 v (v0 - v) = true := by decide +kernel

/-- **Reference theorem.** For every element of the organic subset, neutral and not a radical, with localised bonds
    (any neighbours, any number of bonds) whose orders sum to at most the lowest normal valence, `calc_implicit`
    assigns exactly the hydrogens the OpenSMILES standard prescribes. -/
theorem organic_subset_reference (z : Nat) (hz : z ∈ OrganicValence.organicSubset) (bs : List BE)
    (ha : aromaCount bs = 0) (h : Nat) (hs : OrganicValence.hydrogens z (explicitSum bs) = some h) :
    calcImplicit ⟨z, 0, false, bs⟩ = some (some h) := by
  simp only [OrganicValence.organicSubset, List.mem_map] at hz
  obtain ⟨zv, hzv, rfl⟩ := hz
  have hfacts : ∀ zv ∈ OrganicValence.normalValences, zv.1 ≠ 1 ∧ OrganicValence.lowest zv.1 = zv.2.head? := by
    decide
  have hne : zv.1 ≠ 1 := (hfacts zv hzv).1
  have hlow : ∀ v0, OrganicValence.lowest zv.1 = some v0 → v0 ∈ zv.2.head? := by
    intro v0 e
    rw [← (hfacts zv hzv).2, e]
    rfl
  simp only [OrganicValence.hydrogens] at hs
  cases hl : OrganicValence.lowest zv.1 with
  | none => simp [hl] at hs
  | some v0 =>
    simp only [hl, Option.bind_some] at hs
    by_cases hle : explicitSum bs ≤ v0
    · simp only [hle, if_true, Option.some.injEq] at hs
      subst hs
      exact calc_of_headRule zv.1 0 bs _ hne ha
        (organic_heads zv hzv v0 (hlow v0 hl) (explicitSum bs) (by simp; omega))
    · simp [hle] at hs

example : calcImplicit ⟨7, 0, false, [(1, 6), (1, 6)]⟩ = some (some 1) :=
  organic_subset_reference 7 (by decide) _ (by decide) 1 (by decide)

theorem charged_heads :
    ∀ zq ∈ Lewis.chargedValence, ∀ v ∈ List.range (zq.2 + 1), headRuleIs zq.1.1 zq.1.2 v (zq.2 - v) = true := by
  decide +kernel

/-- **Charged reference.** For the common charged, non-radical states of the organic subset (B⁻, C⁺, C⁻, N⁺, N⁻, O⁺, O⁻,
    O²⁻, F⁻, P⁺, P⁻, S⁻, S²⁻, Cl⁻, Br⁻, I⁻) with localised bonds whose orders sum to `v ≤` the isoelectronic normal valence
    `v0`, `calc_implicit` assigns exactly `v0 − v` hydrogens — whatever the neighbours are. -/
theorem charged_subset_reference (z : Nat) (q : Int) (v0 : Nat) (hzq : ((z, q), v0) ∈ Lewis.chargedValence)
    (bs : List BE) (ha : aromaCount bs = 0) (hv : explicitSum bs ≤ v0) :
    calcImplicit ⟨z, q, false, bs⟩ = some (some (v0 - explicitSum bs)) := by
  have hne : ∀ zq ∈ Lewis.chargedValence, zq.1.1 ≠ 1 := by decide
  exact calc_of_headRule z q bs _ (hne _ hzq) ha
    (charged_heads _ hzq (explicitSum bs) (by simp; omega))

example : calcImplicit ⟨7, 1, false, [(1, 6), (1, 6)]⟩ = some (some 2) :=
  charged_subset_reference 7 1 4 (by decide) _ (by decide) (by decide)

/-- every rule of every key of the table of `z` realises a total valence accepted by `ok charge radical V` -/
def allRulesWithin (z : Nat) (ok : Int → Bool → Nat → Bool) : Bool :=
  match tableOf z with
  | none => false
  | some t => t.all fun krs => krs.2.all fun q => ok krs.1.1 krs.1.2.1 (krs.1.2.2 + q.h)

/-- a table-wide bound transfers to every count `calc_implicit` assigns and every count `check_implicit` accepts -/
theorem within_of_allRules (z : Nat) (ok : Int → Bool → Nat → Bool) (hw : allRulesWithin z ok = true) (hz : z ≠ 1)
    (c : Int) (r : Bool) (bs : List BE) (ha : aromaCount bs = 0) (h : Nat)
    (hc : calcImplicit ⟨z, c, r, bs⟩ = some (some h) ∨ checkImplicit ⟨z, c, r, bs⟩ h = some true) :
    ok c r (explicitSum bs + h) = true := by
  simp only [allRulesWithin] at hw
  cases ht : tableOf z with
  | none => simp [ht] at hw
  | some t =>
    simp only [ht] at hw
    have hck : checkWith t ⟨z, c, r, bs⟩ h = true := by
      cases hc with
      | inl h1 =>
        simp only [calcImplicit, ht, Option.map_some, Option.some.injEq] at h1
        exact check_of_calc t ⟨z, c, r, bs⟩ ha h h1
      | inr h2 =>
        simpa only [checkImplicit, ht, Option.map_some, Option.some.injEq] using h2
    obtain ⟨rules, hv, q, hq, eh, _⟩ := (check_iff_rule t ⟨z, c, r, bs⟩ hz ha h).mp hck
    have := List.all_eq_true.mp (List.all_eq_true.mp hw _ (lookup_mem t _ _ hv)) q hq
    rw [← eh]; exact this

/-- **Lewis electron count.** For every main-group element except H and Bi (groups 1, 2, 13–18; 48 elements), *every* charge and radical
    state and every localised bond list: a hydrogen count assigned by `calc_implicit` or accepted by `check_implicit`
    gives a total valence `V` with `V + r ≤ e − q` and `e − q − V − r` even (or the bare atom `V = 0`). A table entry whose
    hydrogen count or environment is off by one can not satisfy this. -/
theorem lewis_electron_count (z e : Nat) (hz : (z, e) ∈ Lewis.valenceElectrons) (c : Int) (r : Bool) (bs : List BE)
    (ha : aromaCount bs = 0) (h : Nat)
    (hc : calcImplicit ⟨z, c, r, bs⟩ = some (some h) ∨ checkImplicit ⟨z, c, r, bs⟩ h = some true) :
    Lewis.ok e c r (explicitSum bs + h) = true := by
  have hw : ∀ ze ∈ Lewis.valenceElectrons, allRulesWithin ze.1 (Lewis.ok ze.2) = true ∧ ze.1 ≠ 1 := by
    decide +kernel
  exact within_of_allRules z _ (hw (z, e) hz).1 (hw (z, e) hz).2 c r bs ha h hc

example : Lewis.ok 5 (-1) false 2 = true ∧ Lewis.ok 5 (-1) false 3 = false := by decide

/-- every rule list reachable by a neutral non-radical atom of `z` only realises valences accepted by `ok` —
    either through its unconditional first rule or through every rule -/
def neutralRulesWithin (z : Nat) (ok : Nat → Bool) : Bool :=
  match tableOf z with
  | none => false
  | some t => t.all fun krs =>
      !(krs.1.1 == 0 && !krs.1.2.1) ||
      (match krs.2 with
        | q :: _ => q.set.isEmpty && q.dict.isEmpty && ok (krs.1.2.2 + q.h)
        | [] => false) ||
      krs.2.all fun q => ok (krs.1.2.2 + q.h)

theorem within_of_neutralRules (z : Nat) (ok : Nat → Bool) (hw : neutralRulesWithin z ok = true) (hz : z ≠ 1)
    (bs : List BE) (ha : aromaCount bs = 0) (h : Nat) (hc : calcImplicit ⟨z, 0, false, bs⟩ = some (some h)) :
    ok (explicitSum bs + h) = true := by
  simp only [neutralRulesWithin] at hw
  cases ht : tableOf z with
  | none => simp [ht] at hw
  | some t =>
    simp only [ht] at hw
    simp only [calcImplicit, ht, Option.map_some, Option.some.injEq] at hc
    obtain ⟨rules, q, hv, hfirst, eh⟩ := (calc_first_rule t ⟨z, 0, false, bs⟩ hz ha h).mp hc
    have hmem := lookup_mem t _ _ hv
    have := List.all_eq_true.mp hw _ hmem
    simp only [beq_self_eq_true, Bool.not_false, Bool.and_self, Bool.not_true, Bool.false_or, Bool.or_eq_true] at this
    obtain ⟨pre, post, e, hm, hpre⟩ := hfirst
    cases this with
    | inl hhead =>
      cases pre with
      | nil =>
        simp only [List.nil_append] at e
        simp only [e, Bool.and_eq_true] at hhead
        rw [← eh]; exact hhead.2
      | cons p pre' =>
        simp only [List.cons_append] at e
        simp only [e, Bool.and_eq_true, List.isEmpty_iff] at hhead
        have : EnvMet bs p.set p.dict := by simp [EnvMet, hhead.1.1, hhead.1.2]
        exact absurd this (hpre p (by simp))
    | inr hall =>
      have := List.all_eq_true.mp hall q (by simp [e])
      rw [← eh]; exact this

/-- **Soundness against the standard.** Whatever hydrogen count `calc_implicit` assigns to a neutral, non-radical
    B, C, N, O, F, P or S atom with localised bonds — through a common valence *or through any of the
    environment-specific exceptions* — the resulting total valence is one of the element's OpenSMILES normal valences. -/
theorem organic_normal_valence_sound (z : Nat) (hz : z ∈ [5, 6, 7, 8, 9, 15, 16]) (bs : List BE)
    (ha : aromaCount bs = 0) (h : Nat) (hc : calcImplicit ⟨z, 0, false, bs⟩ = some (some h)) :
    OrganicValence.isNormal z (explicitSum bs + h) = true := by
  have hw : ∀ z ∈ [5, 6, 7, 8, 9, 15, 16], neutralRulesWithin z (OrganicValence.isNormal z) = true ∧ z ≠ 1 := by
    decide +kernel
  exact within_of_neutralRules z _ (hw z hz).1 (hw z hz).2 bs ha h hc

/-- Cl, Br, I: every accepted neutral non-radical state has valence 1, 3, 5 or 7 (hypervalent oxo-acid states exist
    only through exceptions; OpenSMILES lists 1 only, which `organic_subset_reference` covers). -/
theorem halogen_valences_odd (z : Nat) (hz : z ∈ [17, 35, 53]) (bs : List BE)
    (ha : aromaCount bs = 0) (h : Nat) (hc : calcImplicit ⟨z, 0, false, bs⟩ = some (some h)) :
    OrganicValence.halogenValences.contains (explicitSum bs + h) = true := by
  have hw : ∀ z ∈ [17, 35, 53], neutralRulesWithin z (OrganicValence.halogenValences.contains ·) = true ∧ z ≠ 1 := by
    decide +kernel
  exact within_of_neutralRules z _ (hw z hz).1 (hw z hz).2 bs ha h hc

/-- the table of `z` has no entry for a neutral non-radical atom whose bond orders sum to more than `v0` -/
def noNeutralAbove (z v0 : Nat) : Bool :=
  match tableOf z with
  | none => false
  | some t => t.all fun krs => !(krs.1.1 == 0 && !krs.1.2.1) || decide (krs.1.2.2 ≤ v0)

/-- **Second-period exactness.** For neutral non-radical B, C, N, O, F with localised bonds the model is *exactly* the
    standard: `normal valence − Σ orders` hydrogens when that is non-negative, a valence error otherwise. -/
theorem second_period_exact (z : Nat) (hz : z ∈ [5, 6, 7, 8, 9]) (bs : List BE) (ha : aromaCount bs = 0) :
    calcImplicit ⟨z, 0, false, bs⟩ = some (OrganicValence.hydrogens z (explicitSum bs)) := by
  have hsub : ∀ z ∈ [5, 6, 7, 8, 9], z ∈ OrganicValence.organicSubset ∧
      ∃ v0, OrganicValence.lowest z = some v0 ∧ noNeutralAbove z v0 = true := by decide +kernel
  obtain ⟨hmem, v0, hl, hno⟩ := hsub z hz
  cases hh : OrganicValence.hydrogens z (explicitSum bs) with
  | some h => exact organic_subset_reference z hmem bs ha h hh
  | none =>
    have hgt : ¬ explicitSum bs ≤ v0 := by
      intro hle
      simp [OrganicValence.hydrogens, hl, hle] at hh
    simp only [noNeutralAbove] at hno
    cases ht : tableOf z with
    | none => simp [ht] at hno
    | some t =>
      simp only [ht] at hno
      have hz1 : (z == 1) = false := by
        have : ∀ z ∈ [5, 6, 7, 8, 9], (z == 1) = false := by decide
        exact this z hz
      have hv : valenceRules t 0 false (explicitSum bs) = none := by
        apply lookup_none_of_all
        intro p hp e
        have := List.all_eq_true.mp hno p hp
        rw [e] at this
        simp at this
        exact hgt this
      simp [calcImplicit, ht, calcWith, hz1, ha, hv]

example : calcImplicit ⟨6, 0, false, [(2, 8), (2, 8), (1, 1)]⟩ = some none :=
  second_period_exact 6 (by decide) _ (by decide)

/-! ## 8. the operations that write hydrogen counts besides `calc_implicit` -/

/-- **`implicify_hydrogens`.** Whenever the scan for one heavy atom (not hydrogen, localised bonds) removes `i` of its `lenH`
    removable explicit hydrogens and stores the count `h`, then `1 ≤ i ≤ lenH`, `h ≥ i` (the removed hydrogens are still counted),
    and `h` is a count that `check_implicit` accepts for the atom's *remaining* bonds (`others` plus the `lenH − i` hydrogens
    that stay explicit): the operation leaves the atom in a valence state of its element tables. -/
theorem implicify_scan_sound (t : Rules) (z : Nat) (c : Int) (r : Bool) (others : List BE) (lenH : Nat)
    (hz : z ≠ 1) (ha : aromaCount others = 0) :
    ∀ start, start ≤ lenH → ∀ i h, implicifyScan t c r others lenH start = some (i, h) →
      1 ≤ i ∧ i ≤ start ∧ i ≤ h ∧
      checkWith t ⟨z, c, r, others ++ List.replicate (lenH - i) (1, 1)⟩ h = true := by
  intro start
  induction start with
  | zero => intro _ i h hs; simp [implicifyScan] at hs
  | succ k ih =>
    intro hle i h hs
    simp only [implicifyScan] at hs
    cases hstep : scanStep t c r (others ++ List.replicate (lenH - (k + 1)) (1, 1)) (k + 1) with
    | stop => simp [hstep] at hs
    | next =>
      simp only [hstep] at hs
      obtain ⟨h1, h2, h3, h4⟩ := ih (by omega) i h hs
      exact ⟨h1, by omega, h3, h4⟩
    | found h' =>
      simp only [hstep, Option.some.injEq, Prod.mk.injEq] at hs
      obtain ⟨e1, e2⟩ := hs
      subst e1; subst e2
      obtain ⟨rules, q, hv, hq, eh, hge, hm⟩ := scanStep_found _ _ _ _ _ _ hstep
      refine ⟨by omega, Nat.le_refl _, hge, ?_⟩
      have haro : aromaCount (others ++ List.replicate (lenH - (k + 1)) (1, 1)) = 0 := by
        simp only [aromaCount, List.filter_append, List.length_append] at ha ⊢
        have : (List.filter (fun x : BE => x.1 == 4) (List.replicate (lenH - (k + 1)) (1, 1))).length = 0 := by
          simp
        omega
      rw [counted8_eq_counted _ haro] at hv hm
      have hz' : (z == 1) = false := by simp [hz]
      simp only [checkWith, hz', haro, explicitSum, explicitDict, hv]
      simp only [Bool.false_eq_true, if_false, bne_self_eq_false, List.any_eq_true, Bool.and_eq_true, beq_iff_eq]
      exact ⟨q, hq, eh.symm, hm⟩

/-- `[H]NC`: the explicit hydrogen of a methylamine nitrogen that also has an implicit one is removed and the count becomes 2 -/
example : (tableOf 7).map (fun t => implicifyScan t 0 false [(1, 6)] 1 1) = some (some (1, 2)) := by decide +kernel

/-- `explicify_hydrogens` conserves the hydrogens of the molecule: afterwards every implicit count is 0 and the number of
    explicit hydrogen atoms has grown by exactly the former sum of implicit counts; it raises iff a count is unknown. -/
theorem explicify_conserves (m m' : Mol) (h : explicify m = .ok m') :
    totalHydrogens m' = totalHydrogens m ∧ (totalHydrogens m).isSome = true ∧
    (∀ p ∈ m'.atoms, p.2.implH = some 0) := by
  simp only [explicify] at h
  cases ht : toAdd m.atoms with
  | none => simp [ht] at h
  | some l =>
    obtain ⟨hs, hmem⟩ := toAdd_spec m.atoms l ht
    have hall : ∀ l' nxt, (∀ p ∈ m.atoms, p.2.implH = some 0 ∨ p.1 ∈ l') →
        ∀ p ∈ (addHydrogens l' nxt m).atoms, p.2.implH = some 0 := by
      intro l' nxt hm p hp
      cases (addHydrogens_spec l' nxt m).2 p hp with
      | inl e => exact e
      | inr e =>
        obtain ⟨p0, hp0, ek, eh, hnot⟩ := e
        cases hm p0 hp0 with
        | inl e0 => rw [← eh]; exact e0
        | inr e0 => exact absurd (ek ▸ e0) hnot
    cases l with
    | nil =>
      simp only [ht, Except.ok.injEq] at h
      subst h
      refine ⟨rfl, by simp [totalHydrogens, hs], ?_⟩
      intro p hp
      cases hmem p hp with
      | inl e => exact e
      | inr e => simp at e
    | cons n tl =>
      simp only [ht, Except.ok.injEq] at h
      subst h
      have hz := hall (n :: tl) (m.ids.foldl max 0 + 1) hmem
      have hx := (addHydrogens_spec (n :: tl) (m.ids.foldl max 0 + 1) m).1
      refine ⟨?_, by simp [totalHydrogens, hs], hz⟩
      have h0 : implicitTotal (addHydrogens (n :: tl) (m.ids.foldl max 0 + 1) m).atoms = some 0 := by
        apply optSum_all_zero
        intro x hxm
        simp only [List.mem_map] at hxm
        obtain ⟨p, hp, e⟩ := hxm
        rw [← e]; exact hz p hp
      simp only [totalHydrogens, h0, hs, Option.map_some]
      simp only [explicitH] at hx
      rw [hx]; congr 1; omega

/-- methylamine `CN` (3 + 2 implicit hydrogens) -> 5 explicit hydrogen atoms, numbered from `max + 1`, all counts 0 -/
example : ((explicify ⟨[(1, {z := 6, implH := some 3}), (2, {z := 7, implH := some 2})],
      [(1, [(2, ⟨1, none⟩)]), (2, [(1, ⟨1, none⟩)])]⟩).toOption.map fun m => (m.ids, totalHydrogens m)) =
    some ([1, 2, 3, 4, 5, 6, 7], some 5) := by decide +kernel

/-- **New atoms never collide with existing ones.** `explicify_hydrogens` keeps every existing atom number (same dict order, in
    `_atoms` and in `_bonds`) and gives the hydrogens it adds the numbers `max + 1, max + 2, …`; so distinct numbers stay
    distinct on *any* numbering (gaps, permuted, atom-mapped input) — nothing is overwritten. -/
theorem explicify_numbers_fresh (m m' : Mol) (h : explicify m = .ok m') :
    ∃ k, m'.ids = m.ids ++ List.range' (m.ids.foldl max 0 + 1) k ∧
      m'.adj.map (·.1) = m.adj.map (·.1) ++ List.range' (m.ids.foldl max 0 + 1) k ∧
      (∀ x ∈ m.ids, x < m.ids.foldl max 0 + 1) ∧ (m.ids.Nodup → m'.ids.Nodup) := by
  have hlt : ∀ x ∈ m.ids, x < m.ids.foldl max 0 + 1 := fun x hx =>
    Nat.lt_succ_of_le ((ChythonModel.Proofs.C04Standardize.le_foldl_max m.ids 0).2 x hx)
  have hnd : ∀ k, m.ids.Nodup → (m.ids ++ List.range' (m.ids.foldl max 0 + 1) k).Nodup := by
    intro k hn
    rw [List.nodup_append]
    refine ⟨hn, List.nodup_range' (step := 1) (by omega), ?_⟩
    intro a ha b hb
    have h1 := hlt a ha
    have h2 := (List.mem_range'_1.mp hb).1
    omega
  simp only [explicify] at h
  cases ht : toAdd m.atoms with
  | none => simp [ht] at h
  | some l =>
    cases l with
    | nil =>
      simp only [ht, Except.ok.injEq] at h
      subst h
      exact ⟨0, by simp, by simp, hlt, fun hn => hn⟩
    | cons n tl =>
      simp only [ht, Except.ok.injEq] at h
      subst h
      obtain ⟨h1, h2⟩ := ChythonModel.Proofs.C04Standardize.addHydrogens_ids (n :: tl) (m.ids.foldl max 0 + 1) m
      exact ⟨(n :: tl).length, h1, h2, hlt, fun hn => h1 ▸ hnd _ hn⟩

/-- **No atom is lost or replaced.** After `explicify_hydrogens` the atom table is the old one — same numbers, elements, isotopes,
    charges, radical states, same order (only the marks changed) — followed by plain neutral hydrogen atoms numbered from `max + 1`. -/
theorem explicify_keeps_atoms (m m' : Mol) (h : explicify m = .ok m') :
    ∃ k, m'.atoms.map ChythonModel.Proofs.C04Standardize.atomCore =
      m.atoms.map ChythonModel.Proofs.C04Standardize.atomCore ++
        (List.range' (m.ids.foldl max 0 + 1) k).map fun i => (i, 1, none, 0, false) := by
  simp only [explicify] at h
  cases ht : toAdd m.atoms with
  | none => simp [ht] at h
  | some l =>
    cases l with
    | nil =>
      simp only [ht, Except.ok.injEq] at h
      subst h
      exact ⟨0, by simp⟩
    | cons n tl =>
      simp only [ht, Except.ok.injEq] at h
      subst h
      exact ⟨(n :: tl).length, ChythonModel.Proofs.C04Standardize.addHydrogens_core (n :: tl) _ m⟩

/-- **No neighbour dict is overwritten.** After `explicify_hydrogens` every existing `_bonds[n]` is the old dict followed by
    single bonds to atoms whose numbers are larger than every old number — on any numbering no existing bond is lost, replaced or
    left one-sided by a new atom taking the place of an old one. -/
theorem explicify_keeps_bonds (m m' : Mol) (h : explicify m = .ok m') (n : Nat) (row : List (Nat × Bond))
    (hr : m.adj.lookup n = some row) :
    ∃ ext, m'.adj.lookup n = some (row ++ ext) ∧
      ∀ kb ∈ ext, (∀ x ∈ m.ids, x < kb.1) ∧ kb.2 = ⟨1, none⟩ := by
  simp only [explicify] at h
  cases ht : toAdd m.atoms with
  | none => simp [ht] at h
  | some l =>
    cases l with
    | nil =>
      simp only [ht, Except.ok.injEq] at h
      subst h
      exact ⟨[], by simp [hr], by simp⟩
    | cons a tl =>
      simp only [ht, Except.ok.injEq] at h
      subst h
      obtain ⟨ext, he, hall⟩ := ChythonModel.Proofs.C04Standardize.addHydrogens_rows (a :: tl) (m.ids.foldl max 0 + 1) m n row hr
      refine ⟨ext, he, fun kb hkb => ⟨fun x hx => ?_, (hall kb hkb).2⟩⟩
      have h1 := (ChythonModel.Proofs.C04Standardize.le_foldl_max m.ids 0).2 x hx
      have h2 := (hall kb hkb).1
      omega

/-- a molecule numbered 2, 5 (gap, not 1..N): the three hydrogens get 6, 7, 8 — not `len + 1 = 3 …`, which would run into atom 5 -/
example : ((explicify ⟨[(5, {z := 8, implH := some 1}), (2, {z := 6, implH := some 2})],
      [(5, [(2, ⟨1, none⟩)]), (2, [(5, ⟨1, none⟩)])]⟩).toOption.map fun m => m.ids) = some [5, 2, 6, 7, 8] := by decide +kernel

/-! ## 9. `Standardize.__standardize`: a rule rewrites charges / radicals / bond orders and recounts the atoms it touched -/

section StandardizeRule
open ChythonModel.Model.C04Standardize ChythonModel.Proofs.C04Standardize

/-- every atom carries the count `calc_implicit` gives for the molecule as it is now (`some …` = no `KeyError`) -/
def HConsistent (m : Mol) : Prop := ∀ p ∈ m.atoms, some p.2.implH = calcImplicitMol m p.1

instance (m : Mol) : Decidable (HConsistent m) := by unfold HConsistent; infer_instance

/-- **The recount set `hs` of a standardize rule covers everything the rule rewrites.** For the loop body of `__standardize`
    over *any* rule data and *any* list of yielded mappings: the atom keys are kept; every atom of `hs` ends with the count
    `calc_implicit` gives in the rewritten molecule; every atom outside `hs` is literally the entry it was (charge, radical,
    mark) **and** `calc_implicit` reads the same context for it as before — so an atom whose charge, radical state or any bond
    order (covalent ↔ coordinate included) a rule changes is always recounted. -/
theorem standardize_rule_recount (fx : RuleFix) (maps : List (List (Nat × Nat))) (m m' : Mol)
    (h : stdRule fx maps m = some m') :
    ∃ st, applyMappings fx maps ⟨m, [], []⟩ = some st ∧ m'.ids = m.ids ∧
      (∀ p ∈ m'.atoms, p.1 ∈ st.hs → some p.2.implH = calcImplicitMol m' p.1) ∧
      (∀ p ∈ m'.atoms, p.1 ∉ st.hs → p ∈ m.atoms ∧ calcImplicitMol m' p.1 = calcImplicitMol m p.1) := by
  simp only [stdRule] at h
  cases ha : applyMappings fx maps ⟨m, [], []⟩ with
  | none => simp [ha] at h
  | some st =>
    simp only [ha] at h
    obtain ⟨u, _⟩ := applyMappings_unch fx maps _ st ha
    have u : Unch st.hs m st.mol := u
    refine ⟨st, rfl, ?_⟩
    cases he : st.hs.isEmpty with
    | true =>
      simp only [he, if_true, Option.some.injEq] at h
      have hnil : st.hs = [] := by simpa using he
      have hm : st.mol = m := by rw [hnil] at u; exact u.eq_of_nil
      subst h
      rw [hm, hnil]
      exact ⟨rfl, fun p _ hp => by simp at hp, fun p hp _ => ⟨hp, rfl⟩⟩
    | false =>
      simp only [he, Bool.false_eq_true, if_false] at h
      obtain ⟨h1, h2, _⟩ := changed_set_suffices st.mol m' st.hs h
      have hcalc := fixLoop_calc st.hs st.mol m' h
      obtain ⟨hat, _, _⟩ := fixLoop_spec st.mol st.hs st.mol m' (fun _ => rfl) h
      refine ⟨?_, ?_, ?_⟩
      · rw [← u.ids]
        simp only [Mol.ids, hat, List.map_map]
        apply List.map_congr_left
        intro p _
        simp only [Function.comp, fixEntry]
        split <;> rfl
      · intro p hp hin
        rw [hcalc]
        exact h1 p hp (by simpa using hin)
      · intro p hp hout
        have hc : st.hs.contains p.1 = false := by simpa using hout
        have hp1 := h2 p hp hc
        obtain ⟨f, hf, pf⟩ := u.atoms
        rw [hf, List.mem_map] at hp1
        obtain ⟨p0, hp0, e⟩ := hp1
        have hk : p0.1 = p.1 := by rw [← e]; exact ((pf p0).1).symm
        have e0 : f p0 = p0 := (pf p0).2.2.2 (hk ▸ hout)
        have : p = p0 := by rw [← e, e0]
        refine ⟨this ▸ hp0, ?_⟩
        rw [hcalc, calcImplicitMol_unch u p.1 hout]

/-- **A standardize rule keeps every hydrogen count right.** If every atom carried the rules' count before the rule, every atom
    carries it afterwards — whatever the rule rewrites (charges, radical states, bond orders incl. covalent ↔ coordinate, new
    bonds), for any mappings, with or without the `charge > 4` abort. -/
theorem standardize_rule_keeps_counts_right (fx : RuleFix) (maps : List (List (Nat × Nat))) (m m' : Mol)
    (h : stdRule fx maps m = some m') (hc : HConsistent m) : HConsistent m' := by
  obtain ⟨st, _, _, hin, hout⟩ := standardize_rule_recount fx maps m m' h
  intro p hp
  by_cases hm : p.1 ∈ st.hs
  · exact hin p hp hm
  · obtain ⟨hp0, e⟩ := hout p hp hm
    rw [e]
    exact hc p hp0

/-- On every molecule whose atoms all carry the rules' counts — in particular after any sequence of standardize rules applied to
    such a molecule — `check_valence` reports exactly (and in `_atoms` order) the atoms for which no valence state exists. -/
theorem valence_check_exact_of_consistent (m : Mol) (hc : HConsistent m) :
    checkValence m = (m.atoms.filter fun p => calcImplicitMol m p.1 == some none).map (·.1) := by
  simp only [checkValence]
  congr 1
  apply List.filter_congr
  intro p hp
  have := hc p hp
  cases hh : p.2.implH with
  | none => rw [hh] at this; simp [← this]
  | some v => rw [hh] at this; simp [← this]

/-- **The loop body raises nothing on a well-formed molecule.** If every atom has a neighbour dict, every neighbour mentioned is an
    atom, every element is known to the tables (`Shape`, what the Graph API maintains) and every yielded mapping sends the pattern
    atoms the rule names to atoms of the molecule (`MapsInto`, what the matcher guarantees), then no look-up of the rewrite or of the
    recount fails (`stdRule … ≠ none`, no `KeyError`), and the result is again well-formed with the same atom keys. -/
theorem standardize_rule_total (fx : RuleFix) (maps : List (List (Nat × Nat))) (m : Mol)
    (s : ChythonModel.Proofs.C04StdTotal.Shape m)
    (hm : ∀ mp ∈ maps, ChythonModel.Proofs.C04StdTotal.MapsInto fx mp m.ids) :
    ∃ m', stdRule fx maps m = some m' ∧ ChythonModel.Proofs.C04StdTotal.Shape m' ∧ m'.ids = m.ids := by
  obtain ⟨st, h1, s1, hid1, hsub⟩ := ChythonModel.Proofs.C04StdTotal.applyMappings_total fx maps ⟨m, [], []⟩ s hm
  have hin : ∀ x ∈ st.hs, x ∈ st.mol.ids := by
    intro x hx
    cases hsub x hx with
    | inl e => simp at e
    | inr e => exact hid1 ▸ e
  simp only [stdRule, h1]
  cases he : st.hs.isEmpty with
  | true => exact ⟨st.mol, by simp, s1, hid1⟩
  | false =>
    simp only [Bool.false_eq_true, if_false]
    have hall : st.hs.all (fun n => (calcImplicitMol st.mol n).isSome) = true := by
      simp only [List.all_eq_true]
      exact fun x hx => ChythonModel.Proofs.C04StdTotal.calc_isSome s1 x (hin x hx)
    have hfix := fixLoop_eq st.mol st.hs st.mol (fun _ => rfl)
    simp only [hall, if_true] at hfix
    refine ⟨_, hfix, ?_, ?_⟩
    · -- the recount changes marks only
      have hids : (⟨st.mol.atoms.map (fixEntry st.mol st.hs), st.mol.adj⟩ : Mol).ids = st.mol.ids := by
        simp only [Mol.ids, List.map_map]
        apply List.map_congr_left
        intro p _
        simp only [Function.comp, fixEntry]
        split <;> rfl
      refine ⟨fun k hk => s1.rows k (hids ▸ hk), fun r hr kb hkb => hids ▸ s1.closed r hr kb hkb, ?_⟩
      intro p hp
      simp only [List.mem_map] at hp
      obtain ⟨p0, hp0, e⟩ := hp
      have hz : p.2.z = p0.2.z := by rw [← e]; simp only [fixEntry]; split <;> rfl
      rw [hz]; exact s1.known p0 hp0
    · have hids : (⟨st.mol.atoms.map (fixEntry st.mol st.hs), st.mol.adj⟩ : Mol).ids = st.mol.ids := by
        simp only [Mol.ids, List.map_map]
        apply List.map_congr_left
        intro p _
        simp only [Function.comp, fixEntry]
        split <;> rfl
      exact hids.trans hid1

/-- the recount `for n in hs: self.calc_implicit(n)` runs over a Python *set*: its result (and whether it raises) depends on the
    members only, not on the iteration order or on repetitions -/
theorem standardize_recount_order_irrelevant (m : Mol) (ns ns' : List Nat) (h : ∀ x, x ∈ ns ↔ x ∈ ns') :
    fixLoop ns m = fixLoop ns' m := by
  rw [fixLoop_eq m ns m (fun _ => rfl), fixLoop_eq m ns' m (fun _ => rfl)]
  have hall : ns.all (fun n => (calcImplicitMol m n).isSome) = ns'.all (fun n => (calcImplicitMol m n).isSome) := by
    rw [Bool.eq_iff_iff]
    simp only [List.all_eq_true]
    exact ⟨fun hh x hx => hh x ((h x).mpr hx), fun hh x hx => hh x ((h x).mp hx)⟩
  have hfe : fixEntry m ns = fixEntry m ns' := by
    funext p
    have : ns.contains p.1 = ns'.contains p.1 := by
      rw [Bool.eq_iff_iff]
      simp only [List.contains_iff_mem]
      exact h p.1
    simp only [fixEntry, this]
  rw [hall, hfe]

/-- trimethylamine–dimethylborane drawn with a covalent B–N bond, `CB(C)[N](C)(C)C` (B: three bonds, 0 H; N: four bonds, no
    valence state): all counts are the rules' counts … -/
def amineBorane : Mol :=
  ⟨[(1, {z := 6, implH := some 3}), (2, {z := 5, implH := some 0}), (3, {z := 6, implH := some 3}), (4, {z := 7, implH := none}),
    (5, {z := 6, implH := some 3}), (6, {z := 6, implH := some 3}), (7, {z := 6, implH := some 3})],
   [(1, [(2, ⟨1, none⟩)]), (2, [(1, ⟨1, none⟩), (3, ⟨1, none⟩), (4, ⟨1, none⟩)]), (3, [(2, ⟨1, none⟩)]),
    (4, [(2, ⟨1, none⟩), (5, ⟨1, none⟩), (6, ⟨1, none⟩), (7, ⟨1, none⟩)]), (5, [(4, ⟨1, none⟩)]), (6, [(4, ⟨1, none⟩)]), (7, [(4, ⟨1, none⟩)])]⟩

example : HConsistent amineBorane := by decide +kernel

/-- … and the rule `[B:1]-[N;D4:2]` (`atom_fix = {}`, `bonds_fix = ((1, 2, 8),)`) turns the bond into a coordinate one: both ends
    lose valence and are recounted — B gets 1 H, N becomes a valid amine with 0 H; `check_valence` is empty afterwards -/
example : (stdRule ⟨[], [(1, 2, 8)], []⟩ [[(1, 2), (2, 4)]] amineBorane).map
    (fun m => (m.atoms.map (·.2.implH), (m.nbrs 2).map (·.2.order), checkValence m)) =
    some ([some 3, some 1, some 3, some 0, some 3, some 3, some 3], [1, 1, 8], []) := by decide +kernel

/-- the hypotheses of `standardize_rule_total` are satisfiable: the amine-borane is well-formed and the mapping of the B–N rule
    sends the pattern atoms the rule names to its atoms 2 and 4 -/
example : ChythonModel.Proofs.C04StdTotal.Shape amineBorane ∧
    ChythonModel.Proofs.C04StdTotal.MapsInto ⟨[], [(1, 2, 8)], []⟩ [(1, 2), (2, 4)] amineBorane.ids :=
  ⟨⟨by decide +kernel, by decide +kernel, by decide +kernel⟩,
   ⟨fun e he => by simp at he,
    fun e he => by
      simp only [List.mem_singleton] at he
      subst he
      exact ⟨2, 4, rfl, rfl, by decide, by decide⟩,
    fun a ha => by simp at ha⟩⟩

/-- … and the recount of *both ends* is necessary: the rewrite alone (covalent → coordinate, `atom_fix` empty, no electron state
    changed) leaves a molecule whose B and N marks are not the rules' counts -/
example : ((applyMappings ⟨[], [(1, 2, 8)], []⟩ [[(1, 2), (2, 4)]] ⟨amineBorane, [], []⟩).map
    fun st => (decide (HConsistent st.mol), st.hs)) = some (false, [4, 2]) := by decide +kernel

/-- methanol, a rule protonating the oxygen (`atom_fix = {1: (1, None)}`): O⁺ is recounted to 2 H; a second, overlapping mapping
    is skipped through `seen` -/
example : (stdRule ⟨[(1, 1, none)], [], []⟩ [[(1, 2)], [(1, 2)]]
    ⟨[(1, {z := 6, implH := some 3}), (2, {z := 8, implH := some 1})], [(1, [(2, ⟨1, none⟩)]), (2, [(1, ⟨1, none⟩)])]⟩).map
    (fun m => m.atoms.map fun p => (p.2.charge, p.2.implH)) = some [(0, some 3), (1, some 2)] := by decide +kernel

/-- **The rule part of a whole `standardize()` call keeps every hydrogen count right**: any sequence of rule applications
    (`stdRules`: double rules, second shot, single rules, metal-organic rules — whatever matched, with whatever mappings) maps a
    molecule whose atoms all carry the rules' counts to one whose atoms all do, and keeps the atom keys. -/
theorem standardize_rules_keep_counts_right : ∀ (rs : List (RuleFix × List (List (Nat × Nat)))) (m m' : Mol),
    stdRules rs m = some m' → (HConsistent m → HConsistent m') ∧ m'.ids = m.ids := by
  intro rs
  induction rs with
  | nil =>
    intro m m' h
    simp only [stdRules, Option.some.injEq] at h
    subst h
    exact ⟨fun hc => hc, rfl⟩
  | cons r tl ih =>
    intro m m' h
    obtain ⟨fx, maps⟩ := r
    simp only [stdRules] at h
    cases h1 : stdRule fx maps m with
    | none => simp [h1] at h
    | some m1 =>
      simp only [h1] at h
      obtain ⟨hc2, hid2⟩ := ih m1 m' h
      obtain ⟨_, _, hid1, _, _⟩ := standardize_rule_recount fx maps m m1 h1
      exact ⟨fun hc => hc2 (standardize_rule_keeps_counts_right fx maps m m1 h1 hc), hid2.trans hid1⟩

/-- nitromethane drawn pentavalent `CN(=O)=O` and then charge-separated by a nitro rule (`atom_fix = {1: (1, None), 2: (-1, None)}`,
    `bonds_fix = ((1, 2, 1),)`), followed by a rule that matches nothing: counts stay right, the second `N=O` mapping is skipped -/
example : (stdRules [(⟨[(1, 1, none), (2, -1, none)], [(1, 2, 1)], []⟩, [[(1, 2), (2, 3), (3, 4)], [(1, 2), (2, 4), (3, 3)]]), (⟨[(1, 1, none)], [], []⟩, [])]
    ⟨[(1, {z := 6, implH := some 3}), (2, {z := 7, implH := some 0}), (3, {z := 8, implH := some 0}), (4, {z := 8, implH := some 0})],
     [(1, [(2, ⟨1, none⟩)]), (2, [(1, ⟨1, none⟩), (3, ⟨2, none⟩), (4, ⟨2, none⟩)]), (3, [(2, ⟨2, none⟩)]), (4, [(2, ⟨2, none⟩)])]⟩).map
    (fun m => (m.atoms.map fun p => (p.2.charge, p.2.implH), (m.nbrs 2).map (·.2.order), decide (HConsistent m))) =
    some ([(0, some 3), (1, some 0), (-1, some 0), (0, some 0)], [1, 1, 2], true) := by decide +kernel

end StandardizeRule

end ChythonModel.Props.C04
