import ChythonModel.Model.Valence
namespace ChythonModel.Props.C04
open ChythonModel.Gen ChythonModel.Model ChythonModel.Model.Valence

/-- `_compiled_valence_rules` raises for no element: every environment symbol resolves, `_common_valences` is non-empty. -/
theorem compile_total : ∀ r ∈ periodicTable, (compileRules periodicTable r).isOk = true := by
  decide +kernel

end ChythonModel.Props.C04
