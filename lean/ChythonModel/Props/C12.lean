import ChythonModel.Model.Stereo
import ChythonModel.Model.StereoParse
import ChythonModel.Spec.Parity
import ChythonModel.Proofs.C12Perm
import ChythonModel.Model.StereoFix
import ChythonModel.Proofs.C12Fix
import ChythonModel.Model.StereoDiff
import Mathlib.Tactic.Ring
/-!
# C12 — stereo signs are permutation-consistent

All theorems are about the functions `Drivers/C12.lean` runs (`Model/Stereo.lean`) and the two tables regenerated from
/repo (`Gen/StereoTables.lean`).  Parity is the independent inversion-count definition of `Spec/Parity.lean`.

Validated, not proved (see evidence): agreement with RDKit, inequality of mirror images, labels only on stereogenic centres.
-/
set_option linter.unusedSimpArgs false
set_option linter.unusedTactic false
set_option linter.unreachableTactic false
namespace ChythonModel.Props.C12
open ChythonModel.Gen ChythonModel.Spec ChythonModel.Model.Stereo ChythonModel.Proofs.C12

/-! ## 1. the two literal tables -/

/-- every injective index triple over {0,1,2,3} is a key, nothing else is, no key twice -/
theorem tetra_total :
    (∀ t ∈ injTriples, (tetrahedronTranslate.lookup t).isSome) ∧
    (∀ e ∈ tetrahedronTranslate, e.1 ∈ injTriples) ∧ (tetrahedronTranslate.map (·.1)).Nodup ∧
    tetrahedronTranslate.length = 24 := by decide

/-- table entry = oddness of the completed 4-permutation (the missing index appended) -/
theorem tetra_is_parity :
    ∀ e ∈ tetrahedronTranslate, e.2 = oddPerm [e.1.1, e.1.2.1, e.1.2.2, missing4 e.1.1 e.1.2.1 e.1.2.2] := by decide

/-- the alkene table has exactly the 8 slot pairs with one slot from each end -/
theorem alkene_total :
    (∀ t ∈ endsPairs, (alkeneTranslate.lookup t).isSome) ∧ (∀ e ∈ alkeneTranslate, e.1 ∈ endsPairs) ∧
    (alkeneTranslate.map (·.1)).Nodup := by decide

/-- alkene table entry = "exactly one of the two slots is the second substituent of its end" -/
theorem alkene_is_flip : ∀ e ∈ alkeneTranslate, e.2 = endsFlip e.1.1 e.1.2 := by decide

/-! ## 2. tetrahedron: translate = s xor parity, for every neighbour order and every hydrogen placement -/

/-- four explicit heavy neighbours, `env` any arrangement of them (24 × all atom numberings) -/
theorem translateTetra_perm4 (a b c d : Nat) (hnd : [a, b, c, d].Nodup) (env : List Nat) (hp : env.Perm [a, b, c, d])
    (isH : Nat → Bool) (st : Option Bool) (s : Bool) :
    translateTetra [a, b, c, d] env isH st (some s) = .ok (s ^^ relOdd [a, b, c, d] env) := by
  have D := distinct4_of_nodup hnd
  rcases perm4_cases hnd hp with h|h|h|h|h|h|h|h|h|h|h|h|h|h|h|h|h|h|h|h|h|h|h|h <;> subst h <;>
    simp [translateTetra, pickSign, tetraOrder, tetraLookup, index?, relOdd, bind, Except.bind, pure, Except.pure,
      getKey, pos, D.ab, D.ac, D.ad, D.bc, D.bd, D.cd, D.ba, D.ca, D.da, D.cb, D.db, D.dc] <;>
    cases s <;> decide

example : translateTetra [7, 3, 9, 5] [3, 7, 9, 5] (fun _ => false) none (some true) = .ok false := by decide

/-- `env[:3]`: with four neighbours only the first three entries of a 4-list are read, so passing the first three of an
arrangement gives the sign of the whole arrangement (the fourth is determined) -/
theorem translateTetra_take3 (order env : List Nat) (ho : order.length = 4) (he : env.length = 4)
    (isH : Nat → Bool) (st s : Option Bool) :
    translateTetra order (env.take 3) isH st s = translateTetra order env isH st s := by
  match env, he with
  | [w, x, y, z], _ =>
    have h3 : order.length ≠ 3 := by omega
    simp [translateTetra, tetraOrder, tetraLookup, h3]

/-- three heavy neighbours + explicit hydrogen `h` standing anywhere in `env`: hydrogen is appended last to the order -/
theorem translateTetra_explicitH (a b c h : Nat) (hnd : [a, b, c].Nodup) (ha : isH a = false) (hb : isH b = false)
    (hc : isH c = false) (hh : isH h = true) (env : List Nat) (hp : env.Perm [a, b, c, h])
    (st : Option Bool) (s : Bool) :
    translateTetra [a, b, c] env isH st (some s) = .ok (s ^^ relOdd [a, b, c, h] env) := by
  have hah : a ≠ h := fun e => by rw [e, hh] at ha; cases ha
  have hbh : b ≠ h := fun e => by rw [e, hh] at hb; cases hb
  have hch : c ≠ h := fun e => by rw [e, hh] at hc; cases hc
  have hnd4 : [a, b, c, h].Nodup := by
    simp only [List.nodup_cons, List.mem_cons, List.not_mem_nil, not_or, or_false, List.nodup_nil, and_true,
      not_false_eq_true] at hnd ⊢
    exact ⟨⟨hnd.1.1, hnd.1.2, hah⟩, ⟨hnd.2, hbh⟩, hch⟩
  have D := distinct4_of_nodup hnd4
  rcases perm4_cases hnd4 hp with e|e|e|e|e|e|e|e|e|e|e|e|e|e|e|e|e|e|e|e|e|e|e|e <;> subst e <;>
    simp [translateTetra, pickSign, tetraOrder, tetraLookup, index?, relOdd, bind, Except.bind, pure, Except.pure,
      getKey, pos, List.find?, ha, hb, hc, hh, D.ab, D.ac, D.ad, D.bc, D.bd, D.cd, D.ba, D.ca, D.da, D.cb, D.db, D.dc] <;>
    cases s <;> decide

example : translateTetra [7, 3, 9] [3, 1, 7, 9] (fun x => x == 1) none (some true) = .ok false := by decide

/-- three heavy neighbours + implicit hydrogen: `env` any arrangement of the three -/
theorem translateTetra_implicitH (a b c : Nat) (hnd : [a, b, c].Nodup) (env : List Nat) (hp : env.Perm [a, b, c])
    (isH : Nat → Bool) (st : Option Bool) (s : Bool) :
    translateTetra [a, b, c] env isH st (some s) = .ok (s ^^ relOdd [a, b, c] env) := by
  simp only [List.nodup_cons, List.mem_cons, List.not_mem_nil, not_or, or_false, List.nodup_nil, and_true,
    not_false_eq_true] at hnd
  obtain ⟨⟨hab, hac⟩, hbc⟩ := hnd
  have hba := Ne.symm hab; have hca := Ne.symm hac; have hcb := Ne.symm hbc
  have hnd' : [a, b, c].Nodup := by simp [hab, hac, hbc]
  rcases perm3_cases hnd' hp with e|e|e|e|e|e <;> subst e <;>
    simp [translateTetra, pickSign, tetraOrder, tetraLookup, index?, relOdd, bind, Except.bind, pure, Except.pure,
      getKey, pos, hab, hac, hbc, hba, hca, hcb] <;>
    cases s <;> decide

/-- "hydrogen always last": the 3-arrangement parity equals the 4-arrangement parity with the (implicit) hydrogen
appended last to both order and env -/
theorem implicitH_is_H_last (a b c h : Nat) (hnd : [a, b, c, h].Nodup) (env : List Nat) (hp : env.Perm [a, b, c]) :
    relOdd [a, b, c] env = relOdd [a, b, c, h] (env ++ [h]) := by
  have D := distinct4_of_nodup hnd
  have hnd3 : [a, b, c].Nodup := by simp [D.ab, D.ac, D.bc]
  rcases perm3_cases hnd3 hp with e|e|e|e|e|e <;> subst e <;>
    simp [relOdd, pos, D.ab, D.ac, D.ad, D.bc, D.bd, D.cd, D.ba, D.ca, D.da, D.cb, D.db, D.dc] <;> decide

/-- **the configuration reported changes exactly under odd permutations**: for two arrangements of the same four
neighbours the translated signs differ iff the second is an odd permutation of the first -/
theorem translateTetra_change_iff_odd (a b c d : Nat) (hnd : [a, b, c, d].Nodup) (e1 e2 : List Nat)
    (h1 : e1.Perm [a, b, c, d]) (h2 : e2.Perm [a, b, c, d]) (isH : Nat → Bool) (st : Option Bool) (s : Bool) :
    ∃ r1 r2, translateTetra [a, b, c, d] e1 isH st (some s) = .ok r1 ∧
             translateTetra [a, b, c, d] e2 isH st (some s) = .ok r2 ∧ ((r1 != r2) = relOdd e1 e2) := by
  refine ⟨_, _, translateTetra_perm4 a b c d hnd e1 h1 isH st s, translateTetra_perm4 a b c d hnd e2 h2 isH st s, ?_⟩
  have m1 := idx_mem_allPerms4 hnd h1
  have m2 := idx_mem_allPerms4 hnd h2
  have hc := oddPerm_comp _ m1 _ m2
  have hi := idx_comp [a, b, c, d] e1 e2 (fun x hx => h1.subset hx) (fun x hx => h2.subset hx)
  unfold relOdd at *
  rw [hi, ← hc]
  cases s <;> cases oddPerm (List.map (pos [a, b, c, d]) e1) <;> cases oddPerm (List.map (pos [a, b, c, d]) e2) <;> rfl

/-- exchanging two neighbours (any of the six transpositions) inverts the reported sign -/
theorem transposition_flips (w x y z : Nat) (hnd : [w, x, y, z].Nodup) :
    relOdd [w, x, y, z] [x, w, y, z] = true ∧ relOdd [w, x, y, z] [y, x, w, z] = true ∧
    relOdd [w, x, y, z] [z, x, y, w] = true ∧ relOdd [w, x, y, z] [w, y, x, z] = true ∧
    relOdd [w, x, y, z] [w, z, y, x] = true ∧ relOdd [w, x, y, z] [w, x, z, y] = true := by
  have D := distinct4_of_nodup hnd
  simp [relOdd, pos, D.ab, D.ac, D.ad, D.bc, D.bd, D.cd, D.ba, D.ca, D.da, D.cb, D.db, D.dc]
  decide

/-- a cyclic shift of three neighbours (any of the eight 3-cycles) keeps the reported sign -/
theorem three_cycle_keeps (w x y z : Nat) (hnd : [w, x, y, z].Nodup) :
    relOdd [w, x, y, z] [x, y, w, z] = false ∧ relOdd [w, x, y, z] [y, w, x, z] = false ∧
    relOdd [w, x, y, z] [x, z, y, w] = false ∧ relOdd [w, x, y, z] [z, w, y, x] = false ∧
    relOdd [w, x, y, z] [y, x, z, w] = false ∧ relOdd [w, x, y, z] [z, x, w, y] = false ∧
    relOdd [w, x, y, z] [w, y, z, x] = false ∧ relOdd [w, x, y, z] [w, z, x, y] = false := by
  have D := distinct4_of_nodup hnd
  simp [relOdd, pos, D.ab, D.ac, D.ad, D.bc, D.bd, D.cd, D.ba, D.ca, D.da, D.cb, D.db, D.dc]
  decide

/-- set-then-read in the same neighbour order returns the mark (no hypothesis on `env` beyond "no exception") -/
theorem translateTetra_involutive (order env : List Nat) (isH : Nat → Bool) (st st' : Option Bool) (s r : Bool)
    (h : translateTetra order env isH st (some s) = .ok r) :
    translateTetra order env isH st' (some r) = .ok s := by
  simp only [translateTetra, pickSign, bind, Except.bind, pure, Except.pure] at h ⊢
  cases ho : tetraOrder order env isH with
  | error e => simp [ho] at h
  | ok o =>
    simp only [ho] at h ⊢
    cases hl : tetraLookup o env with
    | error e => simp [hl] at h
    | ok t =>
      simp only [hl, Except.ok.injEq] at h ⊢
      subst h
      cases t <;> cases s <;> rfl

/-- `s=None` reads the stored label; a stored `None` is a `KeyError` whatever the neighbour order -/
theorem translateTetra_sign_source (order env : List Nat) (isH : Nat → Bool) (b : Bool) (st' : Option Bool) :
    translateTetra order env isH (some b) none = translateTetra order env isH st' (some b) ∧
    translateTetra order env isH none none = .error .keyError := by
  constructor <;> simp [translateTetra, pickSign, bind, Except.bind]

/-! ### error branches -/

/-- a triple of indices below 4 is a key of the table iff it is injective -/
theorem tetra_key_iff_injective : ∀ a < 4, ∀ b < 4, ∀ c < 4,
    ((tetrahedronTranslate.lookup (a, b, c)).isSome = true ↔ (a ≠ b ∧ a ≠ c ∧ b ≠ c)) := by decide


/-- exactly when does the four-neighbour call succeed: `env` has 3 or 4 entries and its first three are distinct
neighbours; every other input raises (`ValueError` for a wrong length or a foreign atom, `KeyError` for a repeated one) -/
theorem translateTetra_ok_iff4 (order : List Nat) (hlen : order.length = 4) (env : List Nat)
    (isH : Nat → Bool) (st : Option Bool) (s : Bool) :
    (∃ r, translateTetra order env isH st (some s) = .ok r) ↔
      ((env.length = 3 ∨ env.length = 4) ∧ (env.take 3).Nodup ∧ ∀ x ∈ env.take 3, x ∈ order) := by
  have h3 : order.length ≠ 3 := by omega
  by_cases hl : env.length = 3 ∨ env.length = 4
  · obtain ⟨x, y, z, rest, rfl⟩ : ∃ x y z rest, env = x :: y :: z :: rest := by
      match env, hl with
      | [x, y, z], _ => exact ⟨x, y, z, [], rfl⟩
      | [x, y, z, w], _ => exact ⟨x, y, z, [w], rfl⟩
    have hl' : ¬ ((x :: y :: z :: rest).length ≠ 3 ∧ (x :: y :: z :: rest).length ≠ 4) := by
      intro ⟨a, b⟩; rcases hl with h | h <;> contradiction
    simp only [translateTetra, pickSign, tetraOrder, h3, if_false, hl', tetraLookup, bind, Except.bind, pure, Except.pure]
    simp only [List.take_succ_cons, List.take_zero, List.nodup_cons, List.mem_cons, List.not_mem_nil, or_false,
      not_or, List.nodup_nil, and_true, not_false_eq_true, forall_eq_or_imp, forall_eq, hl, true_and]
    cases hx : index? order x with
    | none =>
      have := (index?_none_iff order x).mp hx
      simp [this]
    | some a =>
      cases hy : index? order y with
      | none =>
        have := (index?_none_iff order y).mp hy
        simp [this]
      | some b =>
        cases hz : index? order z with
        | none =>
          have := (index?_none_iff order z).mp hz
          simp [this]
        | some c =>
          have ha := index?_lt order x a hx; have hb := index?_lt order y b hy; have hc := index?_lt order z c hz
          rw [hlen] at ha hb hc
          have mx : x ∈ order := by
            by_contra hh; rw [(index?_none_iff order x).mpr hh] at hx; cases hx
          have my : y ∈ order := by
            by_contra hh; rw [(index?_none_iff order y).mpr hh] at hy; cases hy
          have mz : z ∈ order := by
            by_contra hh; rw [(index?_none_iff order z).mpr hh] at hz; cases hz
          have key := tetra_key_iff_injective a ha b hb c hc
          simp only [getKey]
          cases hk : tetrahedronTranslate.lookup (a, b, c) with
          | none =>
            simp only [hk, Option.isSome_none, Bool.false_eq_true, false_iff] at key
            simp only [mx, my, mz, and_true]
            constructor
            · intro ⟨r, h⟩; cases h
            · intro ⟨⟨hxy, hxz⟩, hyz⟩
              exfalso; apply key
              refine ⟨fun e => hxy ?_, fun e => hxz ?_, fun e => hyz ?_⟩
              · subst e; exact index?_inj order x y a hx hy
              · subst e; exact index?_inj order x z a hx hz
              · subst e; exact index?_inj order y z b hy hz
          | some v =>
            simp only [hk, Option.isSome_some, true_iff] at key
            obtain ⟨hab, hac, hbc⟩ := key
            simp only [mx, my, mz, and_true]
            constructor
            · intro _
              refine ⟨⟨fun e => hab ?_, fun e => hac ?_⟩, fun e => hbc ?_⟩
              · subst e; rw [hx] at hy; injection hy
              · subst e; rw [hx] at hz; injection hz
              · subst e; rw [hy] at hz; injection hz
            · intro _; exact ⟨_, rfl⟩
  · have hl' : env.length ≠ 3 ∧ env.length ≠ 4 := by
      constructor <;> intro h <;> exact hl (by simp [h])
    have e1 : env.length = 3 ↔ False := ⟨hl'.1, False.elim⟩
    have e2 : env.length = 4 ↔ False := ⟨hl'.2, False.elim⟩
    simp only [translateTetra, pickSign, tetraOrder, h3, if_false, if_pos hl', bind, Except.bind, e1, e2, or_self, false_and,
      iff_false]
    intro ⟨r, h⟩; cases h


/-! ## 3. double bonds and allenes -/

/-- `x` occupies slot `k` of the environment `(n0, n1, n2, n3)`; a `None` slot is occupied by any hydrogen -/
def IsSlot (e : Ends) (isH : Nat → Bool) : Nat → Nat → Prop
  | 0, x => x = e.n0
  | 1, x => x = e.n1
  | 2, x => e.n2 = some x ∨ (e.n2 = none ∧ isH x = true)
  | 3, x => e.n3 = some x ∨ (e.n3 = none ∧ isH x = true)
  | _, _ => False

/-- the environment as `stereogenic_cumulenes` builds it: heavy atoms only, pairwise distinct -/
structure EndsWF (e : Ends) (isH : Nat → Bool) : Prop where
  h0 : isH e.n0 = false
  h1 : isH e.n1 = false
  h2 : ∀ x, e.n2 = some x → isH x = false
  h3 : ∀ x, e.n3 = some x → isH x = false
  d01 : e.n0 ≠ e.n1
  d02 : e.n2 ≠ some e.n0
  d03 : e.n3 ≠ some e.n0
  d12 : e.n2 ≠ some e.n1
  d13 : e.n3 ≠ some e.n1
  d23 : ∀ x, e.n2 = some x → e.n3 ≠ some x

/-- documented call (`nn` at the first end, `nm` at the last end), every `None` placement, explicit hydrogens anywhere:
the sign is inverted iff exactly one of the two atoms is the second substituent of its end -/
theorem translateEnds_slots (e : Ends) (isH : Nat → Bool) (wf : EndsWF e isH) (k0 k1 nn nm : Nat)
    (hk0 : k0 = 0 ∨ k0 = 2) (hk1 : k1 = 1 ∨ k1 = 3) (s0 : IsSlot e isH k0 nn) (s1 : IsSlot e isH k1 nm) (s : Bool) :
    translateEnds e isH nn nm s = .ok (s ^^ endsFlip k0 k1) := by
  obtain ⟨n0, n1, n2, n3⟩ := e
  have ⟨h0, h1, h2, h3, d01, d02, d03, d12, d13, d23⟩ := wf
  simp only at h0 h1 h2 h3 d01 d02 d03 d12 d13 d23
  rcases hk0 with rfl | rfl <;> rcases hk1 with rfl | rfl <;> simp only [IsSlot] at s0 s1
  · subst nn; subst nm
    simp [translateEnds, endsSlots, bind, Except.bind, pure, Except.pure, getKey]
    cases s <;> decide
  · subst nn
    rcases s1 with s1 | ⟨s1, hH⟩
    · subst n3
      have : nm ≠ n1 := fun h => d13 (by rw [h])
      simp [translateEnds, endsSlots, matchOpt, bind, Except.bind, pure, Except.pure, getKey, this]
      cases s <;> decide
    · subst n3
      have : nm ≠ n1 := fun h => by rw [h, h1] at hH; cases hH
      simp [translateEnds, endsSlots, matchOpt, bind, Except.bind, pure, Except.pure, getKey, this, hH]
      cases s <;> decide
  · subst nm
    rcases s0 with s0 | ⟨s0, hH⟩
    · subst n2
      have a : nn ≠ n0 := fun h => d02 (by rw [h])
      have b : nn ≠ n1 := fun h => d12 (by rw [h])
      simp [translateEnds, endsSlots, matchOpt, bind, Except.bind, pure, Except.pure, getKey, a, b]
      cases s <;> decide
    · subst n2
      have a : nn ≠ n0 := fun h => by rw [h, h0] at hH; cases hH
      have b : nn ≠ n1 := fun h => by rw [h, h1] at hH; cases hH
      simp [translateEnds, endsSlots, matchOpt, bind, Except.bind, pure, Except.pure, getKey, a, b, hH]
      cases s <;> decide
  · rcases s0 with s0 | ⟨s0, hH⟩ <;> rcases s1 with s1 | ⟨s1, hH1⟩ <;> subst n2 <;> subst n3
    · have a : nn ≠ n0 := fun h => d02 (by rw [h])
      have b : nn ≠ n1 := fun h => d12 (by rw [h])
      have c : nm ≠ n1 := fun h => d13 (by rw [h])
      simp [translateEnds, endsSlots, matchOpt, bind, Except.bind, pure, Except.pure, getKey, a, b, c]
      cases s <;> decide
    · have a : nn ≠ n0 := fun h => d02 (by rw [h])
      have b : nn ≠ n1 := fun h => d12 (by rw [h])
      have c : nm ≠ n1 := fun h => by rw [h, h1] at hH1; cases hH1
      simp [translateEnds, endsSlots, matchOpt, bind, Except.bind, pure, Except.pure, getKey, a, b, c, hH1]
      cases s <;> decide
    · have a : nn ≠ n0 := fun h => by rw [h, h0] at hH; cases hH
      have b : nn ≠ n1 := fun h => by rw [h, h1] at hH; cases hH
      have c : nm ≠ n1 := fun h => d13 (by rw [h])
      simp [translateEnds, endsSlots, matchOpt, bind, Except.bind, pure, Except.pure, getKey, a, b, c, hH]
      cases s <;> decide
    · have a : nn ≠ n0 := fun h => by rw [h, h0] at hH; cases hH
      have b : nn ≠ n1 := fun h => by rw [h, h1] at hH; cases hH
      have c : nm ≠ n1 := fun h => by rw [h, h1] at hH1; cases hH1
      simp [translateEnds, endsSlots, matchOpt, bind, Except.bind, pure, Except.pure, getKey, a, b, c, hH, hH1]
      cases s <;> decide

example : EndsWF ⟨5, 6, none, some 8⟩ (fun x => x == 1) ∧ IsSlot ⟨5, 6, none, some 8⟩ (fun x => x == 1) 2 1 ∧
    translateEnds ⟨5, 6, none, some 8⟩ (fun x => x == 1) 1 8 true = .ok true := by
  refine ⟨⟨by decide, by decide, by simp, by simp, by decide, by simp, by simp, by simp, by simp, by simp⟩, ?_, by decide⟩
  exact Or.inr ⟨rfl, rfl⟩

/-- **flip laws**: exchanging the substituent at exactly one end inverts the sign, at both ends keeps it -/
theorem ends_flip_laws :
    endsFlip 2 1 = !endsFlip 0 1 ∧ endsFlip 0 3 = !endsFlip 0 1 ∧ endsFlip 2 3 = endsFlip 0 1 ∧
    endsFlip 2 3 = !endsFlip 0 3 ∧ endsFlip 2 3 = !endsFlip 2 1 ∧ endsFlip 0 1 = false := by decide

/-- the flip law on the model function itself: two calls whose first-end atoms occupy different slots and whose
last-end atoms occupy the same slot give opposite signs (and symmetrically); both different gives equal signs -/
theorem translateEnds_flip (e : Ends) (isH : Nat → Bool) (wf : EndsWF e isH) (a a' b b' : Nat) (s : Bool)
    (ha : IsSlot e isH 0 a) (ha' : IsSlot e isH 2 a') (hb : IsSlot e isH 1 b) (hb' : IsSlot e isH 3 b') :
    ∃ r, translateEnds e isH a b s = .ok r ∧ translateEnds e isH a' b s = .ok (!r) ∧
         translateEnds e isH a b' s = .ok (!r) ∧ translateEnds e isH a' b' s = .ok r := by
  refine ⟨s, ?_, ?_, ?_, ?_⟩
  · rw [translateEnds_slots e isH wf 0 1 a b (Or.inl rfl) (Or.inl rfl) ha hb]; cases s <;> rfl
  · rw [translateEnds_slots e isH wf 2 1 a' b (Or.inr rfl) (Or.inl rfl) ha' hb]; cases s <;> rfl
  · rw [translateEnds_slots e isH wf 0 3 a b' (Or.inl rfl) (Or.inr rfl) ha hb']; cases s <;> rfl
  · rw [translateEnds_slots e isH wf 2 3 a' b' (Or.inr rfl) (Or.inr rfl) ha' hb']; cases s <;> rfl

/-- swapping the two ends (with heavy atoms named explicitly) keeps the sign: `(nn, nm)` ↦ `(nm, nn)` -/
theorem translateEnds_swap_roles (e : Ends) (isH : Nat → Bool) (wf : EndsWF e isH) (x3 : Nat) (h3 : e.n3 = some x3)
    (x2 : Nat) (h2 : e.n2 = some x2) (s : Bool) :
    translateEnds e isH e.n1 e.n0 s = translateEnds e isH e.n0 e.n1 s ∧
    translateEnds e isH x3 e.n0 s = translateEnds e isH e.n0 x3 s ∧
    translateEnds e isH e.n1 x2 s = translateEnds e isH x2 e.n1 s ∧
    translateEnds e isH x3 x2 s = translateEnds e isH x2 x3 s := by
  obtain ⟨n0, n1, n2, n3⟩ := e
  have ⟨h0, h1, _, _, d01, d02, d03, d12, d13, d23⟩ := wf
  simp only at h2 h3 d01 d02 d03 d12 d13 d23
  subst h2; subst h3
  have a1 : x2 ≠ n0 := fun h => d02 (by rw [h])
  have a2 : x2 ≠ n1 := fun h => d12 (by rw [h])
  have a3 : x3 ≠ n0 := fun h => d03 (by rw [h])
  have a4 : x3 ≠ n1 := fun h => d13 (by rw [h])
  have a5 : x3 ≠ x2 := fun h => d23 x2 rfl (by rw [h])
  have a6 : n1 ≠ n0 := Ne.symm d01
  refine ⟨?_, ?_, ?_, ?_⟩ <;>
    simp [translateEnds, endsSlots, matchOpt, bind, Except.bind, pure, Except.pure, getKey, a1, a2, a3, a4, a5, a6, d01] <;>
    cases s <;> decide

/-- `_translate_cis_trans_sign(m, n, nm, nn)` falls back to the stored key `(n, m)` with both pairs swapped -/
theorem translateCisTrans_reversed_key (sct : List ((Nat × Nat) × Ends)) (isH : Nat → Bool) (n m nn nm : Nat)
    (st s : Option Bool) (hk : sct.lookup (m, n) = none) :
    translateCisTrans sct isH m n nm nn st s = translateCisTrans sct isH n m nn nm st s := by
  cases h : sct.lookup (n, m) with
  | none => simp [translateCisTrans, hk, h, getKey, bind, Except.bind]
  | some e => simp [translateCisTrans, hk, h, getKey, bind, Except.bind]

/-- the allene function is the same slot analysis on `stereogenic_allenes[c]` -/
theorem translateAllene_eq_ends (e : Ends) (isH : Nat → Bool) (nn nm : Nat) (st : Option Bool) (s : Bool) :
    translateAllene (some e) isH nn nm st (some s) = translateEnds e isH nn nm s ∧
    translateAllene none isH nn nm st (some s) = .error .keyError := by
  constructor <;> simp [translateAllene, pickSign, bind, Except.bind]

/-- set-then-read for double bonds / allenes -/
theorem translateEnds_involutive (e : Ends) (isH : Nat → Bool) (nn nm : Nat) (s r : Bool)
    (h : translateEnds e isH nn nm s = .ok r) : translateEnds e isH nn nm r = .ok s := by
  simp only [translateEnds, bind, Except.bind, pure, Except.pure] at h ⊢
  cases hs : endsSlots e isH nn nm with
  | error x => simp [hs] at h
  | ok t =>
    simp only [hs] at h ⊢
    cases hl : getKey alkeneTranslate t with
    | error x => simp [hl] at h
    | ok f =>
      simp only [hl, Except.ok.injEq] at h ⊢
      subst h
      cases f <;> cases s <;> rfl

/-! ## 4. SMILES marks: first-atom rule -/

/-- reader and writer use the same test for "this mark is written inverted": the atom has no preceding atom
(first atom of the string *or of a later dot-separated component*) and carries an implicit hydrogen -/
theorem first_atom_rule_consistent (implH : Nat) (isStart : Bool) :
    readerInverts isStart implH = writerInverts implH isStart := by
  cases isStart <;> simp [readerInverts, writerInverts]

/-- reader ∘ writer = id on the label: what `_format_atom` writes for label `s` in neighbour order `adj` is read back as `s` -/
theorem smiles_tetra_roundtrip (order adj : List Nat) (isH : Nat → Bool) (s mark : Bool) (implH : Nat) (isStart : Bool)
    (h : writerTetraMark order adj isH (some s) implH isStart = .ok mark) :
    readerTetraSign order adj isH isStart implH mark = .ok s := by
  simp only [writerTetraMark, bind, Except.bind, pure, Except.pure] at h
  cases ht : translateTetra order adj isH (some s) none with
  | error e => simp [ht] at h
  | ok t =>
    simp only [ht, Except.ok.injEq] at h
    have ht' : translateTetra order adj isH none (some s) = .ok t := by
      rw [← ht]; exact ((translateTetra_sign_source order adj isH s none).1).symm
    unfold readerTetraSign
    rw [first_atom_rule_consistent, ← h]
    cases hw : writerInverts implH isStart
    · simpa using translateTetra_involutive order adj isH none none s t ht'
    · simpa using translateTetra_involutive order adj isH none none s t ht'

/-- writer ∘ reader = id on the mark -/
theorem smiles_tetra_roundtrip_rev (order adj : List Nat) (isH : Nat → Bool) (s mark : Bool) (implH : Nat) (isStart : Bool)
    (h : readerTetraSign order adj isH isStart implH mark = .ok s) :
    writerTetraMark order adj isH (some s) implH isStart = .ok mark := by
  unfold readerTetraSign at h
  have h2 := translateTetra_involutive order adj isH none none _ s h
  have h3 : translateTetra order adj isH (some s) none = .ok (if readerInverts isStart implH then !mark else mark) := by
    rw [(translateTetra_sign_source order adj isH s none).1]; exact h2
  simp only [writerTetraMark, h3, bind, Except.bind, pure, Except.pure, ← first_atom_rule_consistent]
  cases readerInverts isStart implH <;> simp

example : writerTetraMark [7, 3, 9] [3, 9, 7] (fun _ => false) (some true) 1 true = .ok false ∧
    readerTetraSign [7, 3, 9] [3, 9, 7] (fun _ => false) true 1 false = .ok true := by decide

/-- OpenSMILES placement of the implicit hydrogen: it is the first neighbour of an atom without predecessor and the
second neighbour (immediately after the predecessor) otherwise.  chython's rule "hydrogen last, invert when there is
no predecessor" yields exactly the label of that placement. -/
theorem reader_H_position_spec (a b c h : Nat) (hnd : [a, b, c, h].Nodup) (x y z : Nat) (hp : [x, y, z].Perm [a, b, c])
    (isH : Nat → Bool) (implH : Nat) (himpl : implH ≠ 0) (mark : Bool) :
    readerTetraSign [a, b, c] [x, y, z] isH true implH mark = .ok (mark ^^ relOdd [a, b, c, h] [h, x, y, z]) ∧
    readerTetraSign [a, b, c] [x, y, z] isH false implH mark = .ok (mark ^^ relOdd [a, b, c, h] [x, h, y, z]) := by
  have D := distinct4_of_nodup hnd
  have hnd3 : [a, b, c].Nodup := by simp [D.ab, D.ac, D.bc]
  constructor <;>
    rcases perm3_cases hnd3 hp with e|e|e|e|e|e <;> (injection e with e1 e; injection e with e2 e; injection e with e3 _; subst e1 e2 e3) <;>
      simp [readerTetraSign, readerInverts, himpl, translateTetra, pickSign, tetraOrder, tetraLookup, index?, relOdd, bind,
        Except.bind, pure, Except.pure, getKey, pos, D.ab, D.ac, D.ad, D.bc, D.bd, D.cd, D.ba, D.ca, D.da, D.cb, D.db, D.dc] <;>
      cases mark <;> decide

/-- with four explicit neighbours (no implicit hydrogen) the mark is never inverted and the stored label is the mark
translated from the text order -/
theorem reader_explicit_spec (a b c d : Nat) (hnd : [a, b, c, d].Nodup) (env : List Nat) (hp : env.Perm [a, b, c, d])
    (isH : Nat → Bool) (isStart : Bool) (mark : Bool) :
    readerTetraSign [a, b, c, d] env isH isStart 0 mark = .ok (mark ^^ relOdd [a, b, c, d] env) := by
  have : readerInverts isStart 0 = false := by cases isStart <;> rfl
  simp only [readerTetraSign, this]
  exact translateTetra_perm4 a b c d hnd env hp isH none mark

/-! ## 4a. parser bookkeeping: `starts`, ring-closure slots, direction marks on ring-closure bonds -/

section Parser
open ChythonModel.Model.StereoParse

/-- chain bond with a direction mark: both directions are stored, opposite to each other -/
theorem atom_step_direction_mark (strong : Bool) (s : St) (ar : Bool) (st : Option Bool) (b : Bool)
    (hn : s.nAtoms ≠ 0) (hl : s.lastNum ≠ s.nAtoms) (hp : s.previous = some (.dir b)) :
    ∃ s', step strong s (.atom ar st) = .ok s' ∧ sbGet s'.stereoBonds s.lastNum s.nAtoms = some b ∧
      sbGet s'.stereoBonds s.nAtoms s.lastNum = some (!b) ∧ s'.starts = s.starts := by
  refine ⟨_, rfl, ?_⟩
  cases st <;> simp only [hn, hp, if_false] <;> exact ⟨(sbGet_pair _ _ _ b (!b) hl).1, (sbGet_pair _ _ _ b (!b) hl).2, trivial⟩


/-- an atom joins `starts` exactly when it has no preceding atom: first atom of the string or after a dot -/
theorem atom_step_starts (strong : Bool) (s : St) (ar : Bool) (st : Option Bool) :
    ∃ s', step strong s (.atom ar st) = .ok s' ∧ s'.nAtoms = s.nAtoms + 1 ∧ s'.lastNum = s.nAtoms ∧
      (s'.starts = s.starts ++ [s.nAtoms] ↔ (s.nAtoms = 0 ∨ s.previous = some .dot)) ∧
      (s'.starts = s.starts ∨ s'.starts = s.starts ++ [s.nAtoms]) := by
  refine ⟨_, rfl, ?_⟩
  by_cases hn : s.nAtoms = 0
  · cases st <;> simp [hn]
  · rcases hp : s.previous with _ | (_ | _ | _) <;> cases st <;> simp [hn, hp]

/-- ring-closure digit, first occurrence: the slot of the partner is reserved at the digit's position -/
theorem ring_open_reserves_slot (strong : Bool) (s : St) (n : Nat) (hd : s.previous ≠ some .dot) (ho : s.opened = false)
    (hc : aget s.cycles n = none) :
    ∃ s', step strong s (.ring n) = .ok s' ∧
      aget s'.cycles n = some (s.lastNum, s.previous, (s.order.getD s.lastNum []).length) ∧
      s'.order = orderAppend s.order s.lastNum none ∧ s'.previous = none ∧ s'.stereoBonds = s.stereoBonds := by
  have this : ∀ (l : List (Nat × (Nat × Option Prev × Nat))) v, aget l n = none → aget (l ++ [(n, v)]) n = some v := by
    intro l v
    induction l with
    | nil => intro _; simp [aget]
    | cons p tl ih =>
      obtain ⟨k, w⟩ := p
      intro h
      by_cases hk : n = k
      · simp [aget, hk] at h
      · simp only [aget, hk, if_false] at h
        simp [aget, hk, ih h]
  have hstep : step strong s (.ring n) = .ok { s with
      cycles := s.cycles ++ [(n, (s.lastNum, s.previous, (s.order.getD s.lastNum []).length))],
      order := orderAppend s.order s.lastNum none, previous := none } := by
    simp [step, hd, ho, hc]
  exact ⟨_, hstep, this _ _ hc, rfl, rfl, rfl⟩

/-- **direction marks on ring-closure bonds**: wherever the mark is written — on the opening digit, on the closing digit,
on the closing digit with an explicit `-` at the opening one, or on the opening digit with `-` at the closing one — both
directions of the bond are stored, opposite to each other, and the stored value is the mark as written from its own atom -/
theorem closeRing_direction_marks (s : St) (strong : Bool) (tok a ind : Nat) (x : Bool) (ha : a ≠ s.lastNum) :
    (∀ ob pv, (ob = some (.dir x) ∧ (pv = none ∨ pv = some (.bond 1))) →
      ∃ s', closeRing { s with previous := pv } strong tok a ob ind = .ok s' ∧
        sbGet s'.stereoBonds a s.lastNum = some x ∧ sbGet s'.stereoBonds s.lastNum a = some (!x)) ∧
    (∀ ob pv, (pv = some (.dir x) ∧ (ob = none ∨ ob = some (.bond 1))) →
      ∃ s', closeRing { s with previous := pv } strong tok a ob ind = .ok s' ∧
        sbGet s'.stereoBonds s.lastNum a = some x ∧ sbGet s'.stereoBonds a s.lastNum = some (!x)) := by
  have ha' : s.lastNum ≠ a := Ne.symm ha
  constructor
  · intro ob pv ⟨ho, hp⟩
    subst ho
    rcases hp with rfl | rfl
    · refine ⟨_, rfl, ?_⟩
      simpa using sbGet_pair s.stereoBonds a s.lastNum x (!x) ha
    · refine ⟨_, rfl, ?_⟩
      simpa using sbGet_pair s.stereoBonds a s.lastNum x (!x) ha
  · intro ob pv ⟨hp, ho⟩
    subst hp
    rcases ho with rfl | rfl
    · refine ⟨_, rfl, ?_⟩
      simpa using sbGet_pair s.stereoBonds s.lastNum a x (!x) ha'
    · refine ⟨_, rfl, ?_⟩
      have := sbGet_pair s.stereoBonds a s.lastNum (!x) x ha
      simpa using this.symm

/-- marks on both digits are both kept as written (no consistency check: `C/1…\1` vs `C/1…/1` is the writer's business) -/
theorem closeRing_two_marks (s : St) (strong : Bool) (tok a ind : Nat) (o b : Bool) (ha : a ≠ s.lastNum) :
    ∃ s', closeRing { s with previous := some (.dir b) } strong tok a (some (.dir o)) ind = .ok s' ∧
      sbGet s'.stereoBonds a s.lastNum = some o ∧ sbGet s'.stereoBonds s.lastNum a = some b := by
  refine ⟨_, rfl, ?_⟩
  simpa using sbGet_pair s.stereoBonds a s.lastNum o b ha

/-- closing a ring: the partner goes into the reserved slot of the opening atom and is appended on the closing atom -/
theorem closeRing_order (s : St) (strong : Bool) (tok a ind : Nat) (ob : Option Prev) (s' : St)
    (h : closeRing s strong tok a ob ind = .ok s') :
    s'.order = orderAppend (orderSet s.order a ind s.lastNum) s.lastNum (some a) ∧ s'.starts = s.starts ∧
    s'.stereoAtoms = s.stereoAtoms := by
  unfold closeRing at h
  simp only at h
  split at h
  · cases h
  · cases h; exact ⟨rfl, rfl, rfl⟩

/-- reader: one labelled double bond `n=m` with one marked substituent on each side gives one call whose cis flag is
"both marks point the same way seen from their own double-bond atom" -/
theorem reader_call_mark (n m n1 n2 : Nat) (s1 s2 : Bool) (h : n ≠ m) :
    readerCisTransCalls [(n, [(n1, s1)]), (m, [(n2, s2)])] [(n, m), (m, n)] = some [(n, m, n1, n2, s1 == s2)] := by
  have h' : ¬ m = n := fun e => h e.symm
  simp [readerCisTransCalls, readerCisTransCalls.go, aget, popitem, h, h']

/-- tokens of `F/C=C/F`-like strings with the second mark written on a chain bond, on the opening digit of a ring
closure, or on the closing digit (`F{d1}C=C{d2}F`, `F{d1}C=C{d2}1.F1`, `F{d1}C=C1.F{¬d2}1`): the reader makes the same call -/
def chainToks (d1 d2 : Bool) : List Tok :=
  [.atom false none, .dir d1, .atom false none, .bond 2, .atom false none, .dir d2, .atom false none]
def openDigitToks (d1 d2 : Bool) : List Tok :=
  [.atom false none, .dir d1, .atom false none, .bond 2, .atom false none, .dir d2, .ring 1, .dot, .atom false none, .ring 1]
def closeDigitToks (d1 d2 : Bool) : List Tok :=
  [.atom false none, .dir d1, .atom false none, .bond 2, .atom false none, .ring 1, .dot, .atom false none, .dir (!d2), .ring 1]

def cisFlag (toks : List Tok) : Option Bool :=
  match run false toks with
  | .ok s => (readerCisTransCalls s.stereoBonds [(1, 2), (2, 1)]).bind fun calls => (calls.head?).map (·.2.2.2.2)
  | .error _ => none

theorem ring_closure_mark_positions_agree (d1 d2 : Bool) :
    cisFlag (openDigitToks d1 d2) = cisFlag (chainToks d1 d2) ∧ cisFlag (closeDigitToks d1 d2) = cisFlag (chainToks d1 d2) ∧
    cisFlag (chainToks d1 d2) = some (d1 != d2) := by
  cases d1 <;> cases d2 <;> decide

end Parser

/-! ## 4b. stereogenicity of ring double bonds -/

/-- the ring rule is exactly "every SSSR ring containing the double bond has at least `minStereoRing` = 8 atoms" -/
theorem ring_double_bond_rule (d : Bool) (sizes : List Nat) :
    cisTransStereogenic d true sizes = sizes.all (minStereoRing ≤ ·) := by
  simp only [cisTransStereogenic, smallRing, minStereoRing, if_true]
  induction sizes with
  | nil => rfl
  | cons x xs ih =>
    simp only [List.any_cons, List.all_cons, Bool.not_or, ih]
    congr 1
    by_cases h : x < 8
    · have h' : ¬ 8 ≤ x := by omega
      simp [h, h']
    · have h' : 8 ≤ x := by omega
      simp [h, h']

/-- boundary: a ring of 7 is never stereogenic, a ring of 8 always is (a small ring sharing the double bond spoils a large one) -/
theorem ring_double_bond_boundary (d : Bool) :
    cisTransStereogenic d true [7] = false ∧ cisTransStereogenic d true [8] = true ∧
    cisTransStereogenic d true [12, 3] = false ∧ cisTransStereogenic d true [] = true := by
  cases d <;> decide

/-- outside rings the label is kept iff both ends have two different substituents -/
theorem chain_double_bond_rule (d : Bool) (sizes : List Nat) : cisTransStereogenic d false sizes = d := by
  simp [cisTransStereogenic]

/-! ## 5. geometric sign functions over exact integer coordinates -/

theorem sgn_neg (x : Int) : sgn (-x) = -sgn x := by
  unfold sgn; split <;> split <;> try split
  all_goals omega

theorem sgn_range (x : Int) : sgn x = 1 ∨ sgn x = -1 ∨ sgn x = 0 := by
  unfold sgn; split <;> try split
  all_goals simp

/-- the signed volume is alternating: exchanging any two of the three base points negates the sign, cyclic shifts keep it -/
theorem pyramid_alternating (n u v w : V3) :
    pyramidSign n v u w = -pyramidSign n u v w ∧ pyramidSign n u w v = -pyramidSign n u v w ∧
    pyramidSign n w v u = -pyramidSign n u v w ∧ pyramidSign n v w u = pyramidSign n u v w ∧
    pyramidSign n w u v = pyramidSign n u v w := by
  obtain ⟨nx, ny, nz⟩ := n; obtain ⟨ux, uy, uz⟩ := u; obtain ⟨vx, vy, vz⟩ := v; obtain ⟨wx, wy, wz⟩ := w
  refine ⟨?_, ?_, ?_, ?_, ?_⟩ <;> simp only [pyramidSign, pyramidVol, ← sgn_neg] <;> congr 1 <;> ring

/-- exchanging the apex with a base point also negates: the sign is alternating in all four points, so for points
`P0..P3` the value `_pyramid_sign(P3, P0, P1, P2)` read through any neighbour order follows the permutation parity -/
theorem pyramid_apex_swap (n u v w : V3) :
    pyramidSign u n v w = -pyramidSign n u v w ∧ pyramidSign v u n w = -pyramidSign n u v w ∧
    pyramidSign w u v n = -pyramidSign n u v w := by
  obtain ⟨nx, ny, nz⟩ := n; obtain ⟨ux, uy, uz⟩ := u; obtain ⟨vx, vy, vz⟩ := v; obtain ⟨wx, wy, wz⟩ := w
  refine ⟨?_, ?_, ?_⟩ <;> simp only [pyramidSign, pyramidVol, ← sgn_neg] <;> congr 1 <;> ring

/-- translation invariance and mirror-image antisymmetry (z ↦ −z is the wedge ↔ hash exchange) -/
theorem pyramid_mirror (n u v w : V3) :
    pyramidSign (n.1, n.2.1, -n.2.2) (u.1, u.2.1, -u.2.2) (v.1, v.2.1, -v.2.2) (w.1, w.2.1, -w.2.2) = -pyramidSign n u v w := by
  obtain ⟨nx, ny, nz⟩ := n; obtain ⟨ux, uy, uz⟩ := u; obtain ⟨vx, vy, vz⟩ := v; obtain ⟨wx, wy, wz⟩ := w
  simp only [pyramidSign, pyramidVol, ← sgn_neg]; congr 1; ring

/-- 2-D cis/trans sign: symmetric under reading the four points backwards; reflecting one substituent through its
double-bond atom (the other position at that end) inverts it; reflecting both keeps it -/
theorem cis_trans_sign_sym (n u v w : V2) :
    cisTransSign w v u n = cisTransSign n u v w ∧
    cisTransSign (2 * u.1 - n.1, 2 * u.2 - n.2) u v w = -cisTransSign n u v w ∧
    cisTransSign n u v (2 * v.1 - w.1, 2 * v.2 - w.2) = -cisTransSign n u v w ∧
    cisTransSign (2 * u.1 - n.1, 2 * u.2 - n.2) u v (2 * v.1 - w.1, 2 * v.2 - w.2) = cisTransSign n u v w := by
  obtain ⟨nx, ny⟩ := n; obtain ⟨ux, uy⟩ := u; obtain ⟨vx, vy⟩ := v; obtain ⟨wx, wy⟩ := w
  refine ⟨?_, ?_, ?_, ?_⟩ <;> simp only [cisTransSign, cisTransDot, ← sgn_neg] <;> congr 1 <;> ring

/-- allene wedge sign: inverting the wedge mark or reflecting the substituent inverts the sign -/
theorem allene_sign_sym (mark : Int) (u v w : V2) :
    alleneSign (-mark) u v w = -alleneSign mark u v w ∧
    alleneSign mark u v (2 * v.1 - w.1, 2 * v.2 - w.2) = -alleneSign mark u v w := by
  obtain ⟨ux, uy⟩ := u; obtain ⟨vx, vy⟩ := v; obtain ⟨wx, wy⟩ := w
  refine ⟨?_, ?_⟩ <;> simp only [alleneSign, alleneDot, ← sgn_neg] <;> congr 1 <;> ring

/-! ## 6. wedge bonds: what `_wedge_map` draws, `add_wedge` reads back -/

theorem sgn_of_pos {d : Int} (h : 0 < d) : sgn d = 1 := by unfold sgn; simp [h]
theorem sgn_of_neg {d : Int} (h : d < 0) : sgn d = -1 := by
  unfold sgn; have : ¬ d > 0 := by omega
  simp [this, h]

/-- the arithmetic core of the wedge round trip -/
theorem wedge_core (D mark V : Int) (s : Bool) (hm : mark ≠ 0) (h : (if s = true then sgn D else -sgn D) = mark)
    (hV : V = mark * D) : (if sgn V = 0 then none else some (decide (sgn V > 0))) = some s := by
  have hD : D ≠ 0 := by
    intro e; subst e; simp [sgn] at h; exact hm h.symm
  rcases Int.lt_or_gt_of_ne hD with hd | hd
  · rw [sgn_of_neg hd] at h
    cases s
    · simp at h; subst h; subst hV
      have : sgn (1 * D) = -1 := by rw [Int.one_mul]; exact sgn_of_neg hd
      rw [this]; decide
    · simp at h; subst h; subst hV
      have : sgn (-1 * D) = 1 := by apply sgn_of_pos; omega
      rw [this]; decide
  · rw [sgn_of_pos hd] at h
    cases s
    · simp at h; subst h; subst hV
      have : sgn (-1 * D) = -1 := by apply sgn_of_neg; omega
      rw [this]; decide
    · simp at h; subst h; subst hV
      have : sgn (1 * D) = 1 := by rw [Int.one_mul]; exact sgn_of_pos hd
      rw [this]; decide

/-- three heavy neighbours + implicit hydrogen: whichever neighbour `_wedge_map` picks for the wedge (any rotation of the
neighbour tuple), the wedge it draws for label `s` is read back by `add_wedge` as `s` — for all integer coordinates for
which the drawing is not degenerate (`mark ≠ 0`) -/
theorem wedge_roundtrip3 (a b c : Nat) (hnd : [a, b, c].Nodup) (pa pb pc pn : V2) (eh : Option V2) (isH : Nat → Bool)
    (s : Bool) :
    ∀ r ∈ [[a, b, c], [b, c, a], [c, a, b]], ∀ mark,
      wedgeSign [(a, pa), (b, pb), (c, pc)] pn eh r isH (some s) = .ok mark → mark ≠ 0 →
      addWedgeHeavy [(a, pa), (b, pb), (c, pc)] pn eh (r.headD 0) mark = .ok (some s) := by
  have hnd' := hnd
  simp only [List.nodup_cons, List.mem_cons, List.not_mem_nil, not_or, or_false, List.nodup_nil, and_true,
    not_false_eq_true] at hnd
  obtain ⟨⟨hab, hac⟩, hbc⟩ := hnd
  have hba := Ne.symm hab; have hca := Ne.symm hac; have hcb := Ne.symm hbc
  have e1 : (a == b) = false := by simpa using hab
  have e2 : (a == c) = false := by simpa using hac
  have e3 : (b == c) = false := by simpa using hbc
  have e4 : (b == a) = false := by simpa using hba
  have e5 : (c == a) = false := by simpa using hca
  have e6 : (c == b) = false := by simpa using hcb
  obtain ⟨ax, ay⟩ := pa; obtain ⟨bx, byy⟩ := pb; obtain ⟨cx, cy⟩ := pc; obtain ⟨nx, ny⟩ := pn
  intro r hr mark hw hm
  simp only [List.mem_cons, List.not_mem_nil, or_false] at hr
  rcases eh with _ | ⟨hx, hy⟩ <;> rcases hr with rfl | rfl | rfl
  · have ht : translateTetra [a, b, c] [a, b, c] isH (some s) none = .ok s := by
      simp [translateTetra, pickSign, tetraOrder, tetraLookup, index?, getKey, bind, Except.bind, pure, Except.pure,
        hab, hac, hbc, hba, hca, hcb]
      cases s <;> decide
    simp only [wedgeSign, List.map, ht, bind, Except.bind, pure, Except.pure, List.lookup, e1, e2, e3, e4, e5, e6,
      beq_self_eq_true, Except.ok.injEq] at hw
    simp only [addWedgeHeavy, List.map, List.headD, hab, hac, hba, hca, hbc, hcb, if_true, if_false, Except.ok.injEq]
    exact wedge_core _ mark _ s hm hw (by simp only [pyramidVol, lift]; ring)
  · have ht : translateTetra [a, b, c] [b, c, a] isH (some s) none = .ok s := by
      simp [translateTetra, pickSign, tetraOrder, tetraLookup, index?, getKey, bind, Except.bind, pure, Except.pure,
        hab, hac, hbc, hba, hca, hcb]
      cases s <;> decide
    simp only [wedgeSign, List.map, ht, bind, Except.bind, pure, Except.pure, List.lookup, e1, e2, e3, e4, e5, e6,
      beq_self_eq_true, Except.ok.injEq] at hw
    simp only [addWedgeHeavy, List.map, List.headD, hab, hac, hba, hca, hbc, hcb, if_true, if_false, Except.ok.injEq]
    exact wedge_core _ mark _ s hm hw (by simp only [pyramidVol, lift]; ring)
  · have ht : translateTetra [a, b, c] [c, a, b] isH (some s) none = .ok s := by
      simp [translateTetra, pickSign, tetraOrder, tetraLookup, index?, getKey, bind, Except.bind, pure, Except.pure,
        hab, hac, hbc, hba, hca, hcb]
      cases s <;> decide
    simp only [wedgeSign, List.map, ht, bind, Except.bind, pure, Except.pure, List.lookup, e1, e2, e3, e4, e5, e6,
      beq_self_eq_true, Except.ok.injEq] at hw
    simp only [addWedgeHeavy, List.map, List.headD, hab, hac, hba, hca, hbc, hcb, if_true, if_false, Except.ok.injEq]
    exact wedge_core _ mark _ s hm hw (by simp only [pyramidVol, lift]; ring)
  · have ht : translateTetra [a, b, c] [a, b, c] isH (some s) none = .ok s := by
      simp [translateTetra, pickSign, tetraOrder, tetraLookup, index?, getKey, bind, Except.bind, pure, Except.pure,
        hab, hac, hbc, hba, hca, hcb]
      cases s <;> decide
    simp only [wedgeSign, List.map, ht, bind, Except.bind, pure, Except.pure, List.lookup, e1, e2, e3, e4, e5, e6,
      beq_self_eq_true, Except.ok.injEq] at hw
    simp only [addWedgeHeavy, List.map, List.headD, hab, hac, hba, hca, hbc, hcb, if_true, if_false, Except.ok.injEq]
    exact wedge_core _ mark _ s hm hw (by simp only [pyramidVol, lift]; ring)
  · have ht : translateTetra [a, b, c] [b, c, a] isH (some s) none = .ok s := by
      simp [translateTetra, pickSign, tetraOrder, tetraLookup, index?, getKey, bind, Except.bind, pure, Except.pure,
        hab, hac, hbc, hba, hca, hcb]
      cases s <;> decide
    simp only [wedgeSign, List.map, ht, bind, Except.bind, pure, Except.pure, List.lookup, e1, e2, e3, e4, e5, e6,
      beq_self_eq_true, Except.ok.injEq] at hw
    simp only [addWedgeHeavy, List.map, List.headD, hab, hac, hba, hca, hbc, hcb, if_true, if_false, Except.ok.injEq]
    exact wedge_core _ mark _ s hm hw (by simp only [pyramidVol, lift]; ring)
  · have ht : translateTetra [a, b, c] [c, a, b] isH (some s) none = .ok s := by
      simp [translateTetra, pickSign, tetraOrder, tetraLookup, index?, getKey, bind, Except.bind, pure, Except.pure,
        hab, hac, hbc, hba, hca, hcb]
      cases s <;> decide
    simp only [wedgeSign, List.map, ht, bind, Except.bind, pure, Except.pure, List.lookup, e1, e2, e3, e4, e5, e6,
      beq_self_eq_true, Except.ok.injEq] at hw
    simp only [addWedgeHeavy, List.map, List.headD, hab, hac, hba, hca, hbc, hcb, if_true, if_false, Except.ok.injEq]
    exact wedge_core _ mark _ s hm hw (by simp only [pyramidVol, lift]; ring)

theorem wedge_core_odd (D mark V : Int) (s : Bool) (hm : mark ≠ 0)
    (h : (if (!s) = true then sgn D else -sgn D) = mark) (hV : V = mark * (-D)) :
    (if sgn V = 0 then none else some (decide (sgn V > 0))) = some s := by
  apply wedge_core (-D) mark V s hm _ hV
  rw [sgn_neg]
  cases s <;> simpa using h

/-- four heavy neighbours: the same round trip for each of the four rotations `_wedge_map` may choose -/
theorem wedge_roundtrip4 (a b c d : Nat) (hnd : [a, b, c, d].Nodup) (pa pb pc pd pn : V2) (isH : Nat → Bool) (s : Bool) :
    ∀ r ∈ [[a, b, c, d], [b, c, d, a], [c, d, a, b], [d, a, b, c]], ∀ mark,
      wedgeSign [(a, pa), (b, pb), (c, pc), (d, pd)] pn none r isH (some s) = .ok mark → mark ≠ 0 →
      addWedgeHeavy [(a, pa), (b, pb), (c, pc), (d, pd)] pn none (r.headD 0) mark = .ok (some s) := by
  have D := distinct4_of_nodup hnd
  have e1 : (a == b) = false := by simpa using D.ab
  have e2 : (a == c) = false := by simpa using D.ac
  have e3 : (a == d) = false := by simpa using D.ad
  have e4 : (b == c) = false := by simpa using D.bc
  have e5 : (b == d) = false := by simpa using D.bd
  have e6 : (c == d) = false := by simpa using D.cd
  have e7 : (b == a) = false := by simpa using D.ba
  have e8 : (c == a) = false := by simpa using D.ca
  have e9 : (d == a) = false := by simpa using D.da
  have e10 : (c == b) = false := by simpa using D.cb
  have e11 : (d == b) = false := by simpa using D.db
  have e12 : (d == c) = false := by simpa using D.dc
  obtain ⟨ax, ay⟩ := pa; obtain ⟨bx, byy⟩ := pb; obtain ⟨cx, cy⟩ := pc; obtain ⟨dx, dy⟩ := pd; obtain ⟨nx, ny⟩ := pn
  intro r hr mark hw hm
  simp only [List.mem_cons, List.not_mem_nil, or_false] at hr
  rcases hr with rfl | rfl | rfl | rfl
  · have ht : translateTetra [a, b, c, d] [a, b, c, d] isH (some s) none = .ok s := by
      simp [translateTetra, pickSign, tetraOrder, tetraLookup, index?, getKey, bind, Except.bind, pure, Except.pure,
        D.ab, D.ac, D.ad, D.bc, D.bd, D.cd, D.ba, D.ca, D.da, D.cb, D.db, D.dc]
      cases s <;> decide
    simp only [wedgeSign, List.map, ht, bind, Except.bind, pure, Except.pure, List.lookup, e1, e2, e3, e4, e5, e6, e7, e8, e9,
      e10, e11, e12, beq_self_eq_true, Except.ok.injEq] at hw
    simp only [addWedgeHeavy, List.map, List.headD, D.ab, D.ac, D.ad, D.bc, D.bd, D.cd, D.ba, D.ca, D.da, D.cb, D.db, D.dc,
      if_true, if_false, Except.ok.injEq]
    exact wedge_core _ mark _ s hm hw (by simp only [pyramidVol, lift]; ring)
  · have ht : translateTetra [a, b, c, d] [b, c, d, a] isH (some s) none = .ok (!s) := by
      simp [translateTetra, pickSign, tetraOrder, tetraLookup, index?, getKey, bind, Except.bind, pure, Except.pure,
        D.ab, D.ac, D.ad, D.bc, D.bd, D.cd, D.ba, D.ca, D.da, D.cb, D.db, D.dc]
      cases s <;> decide
    simp only [wedgeSign, List.map, ht, bind, Except.bind, pure, Except.pure, List.lookup, e1, e2, e3, e4, e5, e6, e7, e8, e9,
      e10, e11, e12, beq_self_eq_true, Except.ok.injEq] at hw
    simp only [addWedgeHeavy, List.map, List.headD, D.ab, D.ac, D.ad, D.bc, D.bd, D.cd, D.ba, D.ca, D.da, D.cb, D.db, D.dc,
      if_true, if_false, Except.ok.injEq]
    exact wedge_core_odd _ mark _ s hm hw (by simp only [pyramidVol, lift]; ring)
  · have ht : translateTetra [a, b, c, d] [c, d, a, b] isH (some s) none = .ok s := by
      simp [translateTetra, pickSign, tetraOrder, tetraLookup, index?, getKey, bind, Except.bind, pure, Except.pure,
        D.ab, D.ac, D.ad, D.bc, D.bd, D.cd, D.ba, D.ca, D.da, D.cb, D.db, D.dc]
      cases s <;> decide
    simp only [wedgeSign, List.map, ht, bind, Except.bind, pure, Except.pure, List.lookup, e1, e2, e3, e4, e5, e6, e7, e8, e9,
      e10, e11, e12, beq_self_eq_true, Except.ok.injEq] at hw
    simp only [addWedgeHeavy, List.map, List.headD, D.ab, D.ac, D.ad, D.bc, D.bd, D.cd, D.ba, D.ca, D.da, D.cb, D.db, D.dc,
      if_true, if_false, Except.ok.injEq]
    exact wedge_core _ mark _ s hm hw (by simp only [pyramidVol, lift]; ring)
  · have ht : translateTetra [a, b, c, d] [d, a, b, c] isH (some s) none = .ok (!s) := by
      simp [translateTetra, pickSign, tetraOrder, tetraLookup, index?, getKey, bind, Except.bind, pure, Except.pure,
        D.ab, D.ac, D.ad, D.bc, D.bd, D.cd, D.ba, D.ca, D.da, D.cb, D.db, D.dc]
      cases s <;> decide
    simp only [wedgeSign, List.map, ht, bind, Except.bind, pure, Except.pure, List.lookup, e1, e2, e3, e4, e5, e6, e7, e8, e9,
      e10, e11, e12, beq_self_eq_true, Except.ok.injEq] at hw
    simp only [addWedgeHeavy, List.map, List.headD, D.ab, D.ac, D.ad, D.bc, D.bd, D.cd, D.ba, D.ca, D.da, D.cb, D.db, D.dc,
      if_true, if_false, Except.ok.injEq]
    exact wedge_core_odd _ mark _ s hm hw (by simp only [pyramidVol, lift]; ring)


/-- allene wedge round trip for the two orders `_wedge_map` always offers (wedge on the first substituent of either
terminal): what `__wedge_sign` draws for label `s` is read back by `add_wedge` as `s` -/
theorem allene_wedge_roundtrip (e : Ends) (isH : Nat → Bool) (wf : EndsWF e isH) (p1 p2 q0 q1 : V2)
    (coord : Nat → Option V2) (h0 : coord e.n0 = some q0) (h1 : coord e.n1 = some q1) (s : Bool) (mark : Int) (hm : mark ≠ 0) :
    (wedgeSignAllene e isH e.n0 e.n1 p1 p2 q1 (some s) = .ok mark →
      addWedgeAllene e p1 p2 coord true e.n0 false mark = .ok (some s)) ∧
    (wedgeSignAllene e isH e.n1 e.n0 p2 p1 q0 (some s) = .ok mark →
      addWedgeAllene e p1 p2 coord false e.n1 false mark = .ok (some s)) := by
  have t01 : translateAllene (some e) isH e.n0 e.n1 (some s) none = .ok s := by
    have := translateEnds_slots e isH wf 0 1 e.n0 e.n1 (Or.inl rfl) (Or.inl rfl) rfl rfl s
    simp only [translateAllene, pickSign, bind, Except.bind, this]
    cases s <;> rfl
  have t10 : translateAllene (some e) isH e.n1 e.n0 (some s) none = .ok s := by
    have hsw : translateEnds e isH e.n1 e.n0 s = translateEnds e isH e.n0 e.n1 s := by
      have hne : e.n1 ≠ e.n0 := Ne.symm wf.d01
      simp [translateEnds, endsSlots, hne, bind, Except.bind, getKey]
      cases s <;> decide
    have := translateEnds_slots e isH wf 0 1 e.n0 e.n1 (Or.inl rfl) (Or.inl rfl) rfl rfl s
    simp only [translateAllene, pickSign, bind, Except.bind, hsw, this]
    cases s <;> rfl
  obtain ⟨p1x, p1y⟩ := p1; obtain ⟨p2x, p2y⟩ := p2; obtain ⟨q0x, q0y⟩ := q0; obtain ⟨q1x, q1y⟩ := q1
  have hne : e.n1 ≠ e.n0 := Ne.symm wf.d01
  constructor
  · intro hw
    simp only [wedgeSignAllene, t01, bind, Except.bind, pure, Except.pure, Except.ok.injEq] at hw
    simp only [addWedgeAllene, if_true, Bool.false_eq_true, if_false, h1, Except.ok.injEq]
    exact wedge_core _ mark _ s hm hw (by simp only [alleneDot]; ring)
  · intro hw
    simp only [wedgeSignAllene, t10, bind, Except.bind, pure, Except.pure, Except.ok.injEq] at hw
    simp only [addWedgeAllene, hne, if_true, Bool.false_eq_true, if_false, h0, Except.ok.injEq]
    exact wedge_core _ mark _ s hm hw (by simp only [alleneDot]; ring)

/-! ## 7. table vs geometry -/

/-- the point with index `i` among four -/
def sel4 (p0 p1 p2 p3 : V3) : Nat → V3
  | 0 => p0 | 1 => p1 | 2 => p2 | _ => p3

/-- **the table is the geometry**: for any four points, reading the signed volume `_pyramid_sign(P_l, P_i, P_j, P_k)` through the
index triple `(i, j, k)` (apex = the index left out) gives the volume of the reference arrangement, negated exactly for the
triples the regenerated table marks `True` -/
theorem tetra_table_matches_geometry (p0 p1 p2 p3 : V3) :
    ∀ e ∈ tetrahedronTranslate,
      pyramidSign (sel4 p0 p1 p2 p3 (missing4 e.1.1 e.1.2.1 e.1.2.2)) (sel4 p0 p1 p2 p3 e.1.1) (sel4 p0 p1 p2 p3 e.1.2.1)
        (sel4 p0 p1 p2 p3 e.1.2.2) = (if e.2 then -1 else 1) * pyramidSign p3 p0 p1 p2 := by
  obtain ⟨ax, ay, az⟩ := p0; obtain ⟨bx, byy, bz⟩ := p1; obtain ⟨cx, cy, cz⟩ := p2; obtain ⟨dx, dy, dz⟩ := p3
  simp only [tetrahedronTranslate, List.forall_mem_cons, List.not_mem_nil, false_implies, implies_true, and_true]
  refine ⟨?_, ?_, ?_, ?_, ?_, ?_, ?_, ?_, ?_, ?_, ?_, ?_, ?_, ?_, ?_, ?_, ?_, ?_, ?_, ?_, ?_, ?_, ?_, ?_⟩ <;>
    simp only [missing4, Nat.reduceSub, sel4, pyramidSign, pyramidVol, if_true, if_false, Bool.false_eq_true, one_mul, neg_one_mul, ← sgn_neg] <;>
    congr 1 <;> ring

/-! ## 9. `fix_stereo`: removal / restoration of labels after a structural change

`fixStereo ch atoms bonds` is the function the driver runs (`fx`); `ch labels unit` is the oracle "unit is in
`chiral_tetrahedrons / chiral_allenes / chiral_cis_trans` when exactly `labels` are present" - every theorem holds for an
arbitrary oracle, i.e. whatever `__chiral_centers` computes. -/
section FixStereo
open ChythonModel.Model.StereoFix ChythonModel.Proofs.C12Fix

/-- which bond labels are queued at all: exactly those on a double bond both of whose atoms map to the same terminal pair -/
theorem fix_stereo_bond_rule (bonds : List BondIn) (u : SUnit) (s : Bool) :
    (u, s) ∈ collectBonds bonds ↔
      ∃ b ∈ bonds, b.stereo = some s ∧ b.order = 2 ∧ ∃ ta, b.tn = some ta ∧ b.tm = some ta ∧ u = ⟨.cisTrans, ta.1, ta.2⟩ :=
  collectBonds_rule bonds u s

/-- which atom labels are queued: those on stereogenic tetrahedra, and on allene centres that are not tetrahedra -/
theorem fix_stereo_atom_rule (atoms : List AtomIn) (u : SUnit) (s : Bool) :
    ((u, s) ∈ (collectAtoms atoms).1 ↔ ∃ x ∈ atoms, x.stereo = some s ∧ x.tetra = true ∧ u = ⟨.tetra, x.n, 0⟩) ∧
    ((u, s) ∈ (collectAtoms atoms).2 ↔
      ∃ x ∈ atoms, x.stereo = some s ∧ x.tetra = false ∧ x.allene = true ∧ u = ⟨.allene, x.n, 0⟩) :=
  collectAtoms_rule atoms u s

/-- **labels are kept only on stereogenic units** (soundness): every label present after `fix_stereo` was a label of a
stereogenic-unit carrier before (same sign), and its unit was reported chiral with respect to the labels restored in
earlier rounds (`q`, an initial segment of the final labels) -/
theorem fix_stereo_sound (ch : List Label → SUnit → Bool) (atoms : List AtomIn) (bonds : List BondIn) :
    ∀ l ∈ (fixStereo ch atoms bonds).labels,
      l ∈ collect atoms bonds ∧ ∃ q, q <+: (fixStereo ch atoms bonds).labels ∧ ch q l.1 = true := by
  intro l hl
  rcases fixLoop_sound ch _ [] (collect atoms bonds) [] l hl with h | ⟨h, q, _, hq, hc⟩
  · simp at h
  · exact ⟨h, q, hq, hc⟩

/-- **every label that can be kept is kept** (completeness, the loop reaches a fixpoint): a queued label whose unit is
chiral with respect to the labels finally present has been restored - in particular a double bond or centre that is
stereogenic only thanks to labels restored in an earlier round -/
theorem fix_stereo_complete (ch : List Label → SUnit → Bool) (atoms : List AtomIn) (bonds : List BondIn) :
    ∀ l ∈ collect atoms bonds, ch (fixStereo ch atoms bonds).labels l.1 = true → l ∈ (fixStereo ch atoms bonds).labels :=
  fixLoop_fixpoint ch _ [] (collect atoms bonds) [] (Nat.lt_succ_self _)

/-- Python's unbounded `while` is the model's loop: more rounds than `queue length + 1` change nothing -/
theorem fix_stereo_rounds (ch : List Label → SUnit → Bool) (atoms : List AtomIn) (bonds : List BondIn) (k : Nat) :
    fixLoop ch ((collect atoms bonds).length + 1 + k) [] (collect atoms bonds) [] = fixStereo ch atoms bonds :=
  fixLoop_fuel ch _ _ [] _ [] (by omega) (Nat.lt_succ_self _)

/-- the stereo caches left behind describe the final labels (or are empty): no stale `chiral_*` / `_chiral_morgan` -/
theorem fix_stereo_cache_fresh (ch : List Label → SUnit → Bool) (atoms : List AtomIn) (bonds : List BondIn) :
    (fixStereo ch atoms bonds).cache = none ∨ (fixStereo ch atoms bonds).cache = some (fixStereo ch atoms bonds).labels :=
  fixLoop_cache_fresh ch _ [] _ []

/-- the oracle is only ever asked about label sets that are initial segments of the final labels -/
theorem fix_stereo_asked (ch : List Label → SUnit → Bool) (atoms : List AtomIn) (bonds : List BondIn) :
    ∀ q ∈ (fixStereo ch atoms bonds).asked, q <+: (fixStereo ch atoms bonds).labels := by
  intro q hq
  rcases fixLoop_asked ch _ [] (collect atoms bonds) [] q hq with h | h
  · simp at h
  · exact h

/-- ordinary molecules (every queued unit chiral on constitution alone): every queued label is kept -/
theorem fix_stereo_keeps_all (ch : List Label → SUnit → Bool) (atoms : List AtomIn) (bonds : List BondIn)
    (h : ∀ l ∈ collect atoms bonds, ch [] l.1 = true) : (fixStereo ch atoms bonds).labels = collect atoms bonds := by
  unfold fixStereo
  rcases hc : collect atoms bonds with _ | ⟨x, xs⟩
  · simp [fixLoop]
  · have := fixLoop_all ch xs.length [] (x :: xs) [] (by rw [← hc]; exact h)
    simpa using this

/-- the structural change destroyed every queued unit: every label is gone -/
theorem fix_stereo_drops_all (ch : List Label → SUnit → Bool) (atoms : List AtomIn) (bonds : List BondIn)
    (h : ∀ l ∈ collect atoms bonds, ch [] l.1 = false) : (fixStereo ch atoms bonds).labels = [] :=
  fixLoop_none ch _ [] _ [] h

/-- the result does not depend on the order in which `atoms()` / `bonds()` are walked (renumbering), provided the
`chiral_*` sets themselves depend only on which labels are present -/
theorem fix_stereo_order_independent (ch : List Label → SUnit → Bool) (hch : ∀ r r' : List Label, r.Perm r' → ch r = ch r')
    (p p' : List Label) (h : p.Perm p') :
    (fixLoop ch (p.length + 1) [] p []).labels.Perm (fixLoop ch (p'.length + 1) [] p' []).labels := by
  rw [h.length_eq]
  exact fixLoop_perm ch hch _ [] [] p p' [] [] (List.Perm.refl _) h

/-- a pseudo-asymmetric situation: units 1 and 2 (tetrahedra) are chiral on constitution, the double bond (3, 4) only when
1 and 2 carry opposite labels.  Two rounds are needed and taken; with equal arm labels the bond label is dropped. -/
def demoOracle : List Label → SUnit → Bool := fun r u =>
  match u.kind with
  | .tetra => true
  | .allene => false
  | .cisTrans => r.contains (⟨.tetra, 1, 0⟩, true) && r.contains (⟨.tetra, 2, 0⟩, false)

example :
    (fixStereo demoOracle
      [⟨1, some true, true, false⟩, ⟨2, some false, true, false⟩, ⟨3, none, false, false⟩, ⟨5, some true, false, false⟩]
      [⟨3, 4, 2, some true, some (3, 4), some (3, 4)⟩, ⟨1, 3, 1, some false, none, some (3, 4)⟩]).labels
      = [(⟨.tetra, 1, 0⟩, true), (⟨.tetra, 2, 0⟩, false), (⟨.cisTrans, 3, 4⟩, true)] := by decide

example :
    (fixStereo demoOracle [⟨1, some true, true, false⟩, ⟨2, some true, true, false⟩]
      [⟨3, 4, 2, some true, some (3, 4), some (3, 4)⟩]).labels = [(⟨.tetra, 1, 0⟩, true), (⟨.tetra, 2, 0⟩, true)] := by decide

/-- hypotheses of `fix_stereo_keeps_all` / `fix_stereo_drops_all` / `fix_stereo_order_independent` are satisfiable -/
example : ∀ l ∈ collect [⟨1, some true, true, false⟩, ⟨2, some false, true, false⟩] [], demoOracle [] l.1 = true := by decide
example : ∀ l ∈ collect [] [⟨3, 4, 2, some true, some (3, 4), some (3, 4)⟩], demoOracle [] l.1 = false := by decide
example : ∀ r r' : List Label, r.Perm r' → (fun (r : List Label) (u : SUnit) => r.length % 2 == 0 || u.a == 1) r
    = (fun (r : List Label) (u : SUnit) => r.length % 2 == 0 || u.a == 1) r' := by
  intro r r' h; simp [h.length_eq]

end FixStereo

/-! ## 10. `__differentiation`: which substituent pair a labelled double bond / allene is compared through

`diffMark` is the function the driver runs (`df`) against the calls `__differentiation` really makes. -/
section Differentiation
open ChythonModel.Model.StereoDiff

/-- `min(n1, n2, key=morgan.get)` returns one of its arguments, of the lowest class -/
theorem pickRef_spec (morgan : Nat → Option Int) (n1 n2 : Nat) (a b : Int) (h1 : morgan n1 = some a) (h2 : morgan n2 = some b) :
    ∃ r, pickRef morgan n1 (some n2) = .ok r ∧ (r = n1 ∨ r = n2) ∧ ∀ c, morgan r = some c → c ≤ a ∧ c ≤ b := by
  by_cases h : b < a
  · refine ⟨n2, by simp [pickRef, h1, h2, h], Or.inr rfl, ?_⟩
    intro c hc; rw [h2] at hc; injection hc with hc; omega
  · refine ⟨n1, by simp [pickRef, h1, h2, h], Or.inl rfl, ?_⟩
    intro c hc; rw [h1] at hc; injection hc with hc; omega

/-- the choice is by class, not by atom number: it commutes with every renumbering `π` of the atoms that carries the classes along -/
theorem pickRef_renumber (π : Nat → Nat) (morgan morgan' : Nat → Option Int) (n1 : Nat) (n2 : Option Nat)
    (h1 : morgan' (π n1) = morgan n1) (h2 : ∀ x, n2 = some x → morgan' (π x) = morgan x) :
    pickRef morgan' (π n1) (n2.map π) = (pickRef morgan n1 n2).map π := by
  cases n2 with
  | none => simp [pickRef, Except.map]
  | some x =>
    have hx := h2 x rfl
    simp only [Option.map, pickRef, h1, hx]
    cases morgan n1 <;> cases morgan x <;> simp [Except.map]
    split <;> rfl

/-- with distinct classes the order in which the two substituents of an end are listed does not matter -/
theorem pickRef_swap (morgan : Nat → Option Int) (n1 n2 : Nat) (a b : Int) (h1 : morgan n1 = some a) (h2 : morgan n2 = some b)
    (hab : a ≠ b) : pickRef morgan n1 (some n2) = pickRef morgan n2 (some n1) := by
  simp only [pickRef, h1, h2]
  by_cases h : b < a
  · have : ¬ a < b := by omega
    simp [h, this]
  · have : a < b := by omega
    simp [h, this]

/-- the substituent chosen at an end occupies slot `k` or `k + 2` of the environment -/
theorem pickRef_slot0 (morgan : Nat → Option Int) (e : Ends) (isH : Nat → Bool) (c0 : Int) (h0 : morgan e.n0 = some c0)
    (h2 : ∀ x, e.n2 = some x → ∃ c, morgan x = some c) :
    ∃ a k, pickRef morgan e.n0 e.n2 = .ok a ∧ (k = 0 ∨ k = 2) ∧ IsSlot e isH k a ∧
      (k = 2 ↔ ∃ x c, e.n2 = some x ∧ morgan x = some c ∧ c < c0) := by
  rcases hn : e.n2 with _ | x
  · exact ⟨e.n0, 0, by simp [pickRef], Or.inl rfl, rfl, by simp⟩
  · obtain ⟨c, hc⟩ := h2 x hn
    by_cases h : c < c0
    · refine ⟨x, 2, by simp [pickRef, h0, hc, h], Or.inr rfl, Or.inl hn, ?_⟩
      simp only [true_iff]
      exact ⟨x, c, rfl, hc, h⟩
    · refine ⟨e.n0, 0, by simp [pickRef, h0, hc, h], Or.inl rfl, rfl, ?_⟩
      constructor
      · intro h'; cases h'
      · rintro ⟨x', c', hx', hc', hlt⟩
        injection hx' with hx'; subst hx'
        rw [hc] at hc'; injection hc' with hc'; subst hc'
        exact absurd hlt h

theorem pickRef_slot1 (morgan : Nat → Option Int) (e : Ends) (isH : Nat → Bool) (c1 : Int) (h1 : morgan e.n1 = some c1)
    (h3 : ∀ x, e.n3 = some x → ∃ c, morgan x = some c) :
    ∃ b k, pickRef morgan e.n1 e.n3 = .ok b ∧ (k = 1 ∨ k = 3) ∧ IsSlot e isH k b ∧
      (k = 3 ↔ ∃ x c, e.n3 = some x ∧ morgan x = some c ∧ c < c1) := by
  rcases hn : e.n3 with _ | x
  · exact ⟨e.n1, 1, by simp [pickRef], Or.inl rfl, rfl, by simp⟩
  · obtain ⟨c, hc⟩ := h3 x hn
    by_cases h : c < c1
    · refine ⟨x, 3, by simp [pickRef, h1, hc, h], Or.inr rfl, Or.inl hn, ?_⟩
      simp only [true_iff]
      exact ⟨x, c, rfl, hc, h⟩
    · refine ⟨e.n1, 1, by simp [pickRef, h1, hc, h], Or.inl rfl, rfl, ?_⟩
      constructor
      · intro h'; cases h'
      · rintro ⟨x', c', hx', hc', hlt⟩
        injection hx' with hx'; subst hx'
        rw [hc] at hc'; injection hc' with hc'; subst hc'
        exact absurd hlt h

/-- "a lower-classed second substituent exists at this end" -/
def lowerSecond (morgan : Nat → Option Int) (n : Nat) (n2 : Option Nat) : Prop :=
  ∃ x c c0, n2 = some x ∧ morgan x = some c ∧ morgan n = some c0 ∧ c < c0

/-- **value of the mark**: the label, inverted iff exactly one end has a lower-classed *second* substituent - a statement about
classes only, no atom number occurs -/
theorem diffMark_value (morgan : Nat → Option Int) (e : Ends) (isH : Nat → Bool) (wf : EndsWF e isH) (s : Bool)
    (c0 c1 : Int) (h0 : morgan e.n0 = some c0) (h1 : morgan e.n1 = some c1)
    (h2 : ∀ x, e.n2 = some x → ∃ c, morgan x = some c) (h3 : ∀ x, e.n3 = some x → ∃ c, morgan x = some c) :
    ∃ a b f, diffMark morgan e isH (some s) = .ok (a, b, s ^^ f) ∧
      (f = true ↔ ¬ (lowerSecond morgan e.n0 e.n2 ↔ lowerSecond morgan e.n1 e.n3)) := by
  obtain ⟨a, k0, ha, hk0, hs0, hl0⟩ := pickRef_slot0 morgan e isH c0 h0 h2
  obtain ⟨b, k1, hb, hk1, hs1, hl1⟩ := pickRef_slot1 morgan e isH c1 h1 h3
  have ht := translateEnds_slots e isH wf k0 k1 a b hk0 hk1 hs0 hs1 s
  refine ⟨a, b, endsFlip k0 k1, ?_, ?_⟩
  · simp [diffMark, ha, hb, pickSign, ht, bind, Except.bind]
  · have e0 : lowerSecond morgan e.n0 e.n2 ↔ k0 = 2 := by
      rw [hl0]; unfold lowerSecond
      constructor
      · rintro ⟨x, c, c0', hx, hc, hc0, hlt⟩
        rw [h0] at hc0; injection hc0 with hc0; subst hc0
        exact ⟨x, c, hx, hc, hlt⟩
      · rintro ⟨x, c, hx, hc, hlt⟩
        exact ⟨x, c, c0, hx, hc, h0, hlt⟩
    have e1 : lowerSecond morgan e.n1 e.n3 ↔ k1 = 3 := by
      rw [hl1]; unfold lowerSecond
      constructor
      · rintro ⟨x, c, c1', hx, hc, hc1, hlt⟩
        rw [h1] at hc1; injection hc1 with hc1; subst hc1
        exact ⟨x, c, hx, hc, hlt⟩
      · rintro ⟨x, c, hx, hc, hlt⟩
        exact ⟨x, c, c1, hx, hc, h1, hlt⟩
    rw [e0, e1]
    rcases hk0 with rfl | rfl <;> rcases hk1 with rfl | rfl <;> simp [endsFlip]

/-- the same double bond / allene with the two substituents of the first end listed the other way round -/
def swapFirst (e : Ends) (x : Nat) : Ends := ⟨x, e.n1, some e.n0, e.n3⟩
/-- … of the last end -/
def swapLast (e : Ends) (y : Nat) : Ends := ⟨e.n0, y, e.n2, some e.n1⟩

theorem swapFirst_wf (e : Ends) (isH : Nat → Bool) (wf : EndsWF e isH) (x : Nat) (hx : e.n2 = some x) :
    EndsWF (swapFirst e x) isH := by
  obtain ⟨n0, n1, n2, n3⟩ := e
  have ⟨h0, h1, h2, h3, d01, d02, d03, d12, d13, d23⟩ := wf
  simp only at hx h0 h1 h2 h3 d01 d02 d03 d12 d13 d23
  subst hx
  refine ⟨h2 x rfl, h1, ?_, h3, ?_, ?_, ?_, ?_, d13, ?_⟩ <;> simp only [swapFirst]
  · intro y hy; injection hy with hy; subst hy; exact h0
  · intro h; exact d12 (by rw [h])
  · intro h; injection h with h; exact d02 (by rw [h])
  · exact d23 x rfl
  · intro h; injection h with h; exact d01 h
  · intro y hy; injection hy with hy; subst hy; exact d03

theorem swapLast_wf (e : Ends) (isH : Nat → Bool) (wf : EndsWF e isH) (y : Nat) (hy : e.n3 = some y) :
    EndsWF (swapLast e y) isH := by
  obtain ⟨n0, n1, n2, n3⟩ := e
  have ⟨h0, h1, h2, h3, d01, d02, d03, d12, d13, d23⟩ := wf
  simp only at hy h0 h1 h2 h3 d01 d02 d03 d12 d13 d23
  subst hy
  refine ⟨h0, h3 y rfl, h2, ?_, ?_, d02, ?_, ?_, ?_, ?_⟩ <;> simp only [swapLast]
  · intro z hz; injection hz with hz; subst hz; exact h1
  · intro h; exact d03 (by rw [h])
  · intro h; injection h with h; exact d01 h.symm
  · intro h; exact d23 y h rfl
  · intro h; injection h with h; exact d13 (by rw [h])
  · intro z hz h; injection h with h; subst h; exact d12 hz

/-- **the mark does not depend on the order in which `stereogenic_cumulenes` lists the two substituents of the first end**:
listing them the other way round (the stored label then reads inverted) gives the same reference atoms and the same mark -/
theorem diffMark_first_end_order (morgan : Nat → Option Int) (e : Ends) (isH : Nat → Bool) (wf : EndsWF e isH) (s : Bool)
    (x : Nat) (hx : e.n2 = some x) (c0 cx c1 : Int) (h0 : morgan e.n0 = some c0) (hcx : morgan x = some cx)
    (h1 : morgan e.n1 = some c1) (h3 : ∀ y, e.n3 = some y → ∃ c, morgan y = some c) (hne : c0 ≠ cx) :
    diffMark morgan (swapFirst e x) isH (some (!s)) = diffMark morgan e isH (some s) := by
  have wf' := swapFirst_wf e isH wf x hx
  obtain ⟨b, k1, hb, hk1, hs1, -⟩ := pickRef_slot1 morgan e isH c1 h1 h3
  have hs1' : IsSlot (swapFirst e x) isH k1 b := by
    rcases hk1 with rfl | rfl <;> exact hs1
  have hb' : pickRef morgan (swapFirst e x).n1 (swapFirst e x).n3 = .ok b := hb
  by_cases h : cx < c0
  · have ha : pickRef morgan e.n0 e.n2 = .ok x := by simp [hx, pickRef, h0, hcx, h]
    have ha' : pickRef morgan (swapFirst e x).n0 (swapFirst e x).n2 = .ok x := by
      have : ¬ c0 < cx := by omega
      simp [swapFirst, pickRef, h0, hcx, this]
    have t := translateEnds_slots e isH wf 2 k1 x b (Or.inr rfl) hk1 (Or.inl hx) hs1 s
    have t' := translateEnds_slots (swapFirst e x) isH wf' 0 k1 x b (Or.inl rfl) hk1 rfl hs1' (!s)
    simp only [diffMark, ha, ha', hb, hb', pickSign, t, t', bind, Except.bind]
    rcases hk1 with rfl | rfl <;> cases s <;> rfl
  · have hlt : c0 < cx := by omega
    have ha : pickRef morgan e.n0 e.n2 = .ok e.n0 := by simp [hx, pickRef, h0, hcx, h]
    have ha' : pickRef morgan (swapFirst e x).n0 (swapFirst e x).n2 = .ok e.n0 := by
      simp [swapFirst, pickRef, h0, hcx, hlt]
    have t := translateEnds_slots e isH wf 0 k1 e.n0 b (Or.inl rfl) hk1 rfl hs1 s
    have t' := translateEnds_slots (swapFirst e x) isH wf' 2 k1 e.n0 b (Or.inr rfl) hk1 (Or.inl rfl) hs1' (!s)
    simp only [diffMark, ha, ha', hb, hb', pickSign, t, t', bind, Except.bind]
    rcases hk1 with rfl | rfl <;> cases s <;> rfl

/-- … of the last end -/
theorem diffMark_last_end_order (morgan : Nat → Option Int) (e : Ends) (isH : Nat → Bool) (wf : EndsWF e isH) (s : Bool)
    (y : Nat) (hy : e.n3 = some y) (c0 c1 cy : Int) (h0 : morgan e.n0 = some c0) (h1 : morgan e.n1 = some c1)
    (hcy : morgan y = some cy) (h2 : ∀ x, e.n2 = some x → ∃ c, morgan x = some c) (hne : c1 ≠ cy) :
    diffMark morgan (swapLast e y) isH (some (!s)) = diffMark morgan e isH (some s) := by
  have wf' := swapLast_wf e isH wf y hy
  obtain ⟨a, k0, ha, hk0, hs0, -⟩ := pickRef_slot0 morgan e isH c0 h0 h2
  have hs0' : IsSlot (swapLast e y) isH k0 a := by
    rcases hk0 with rfl | rfl <;> exact hs0
  have ha' : pickRef morgan (swapLast e y).n0 (swapLast e y).n2 = .ok a := ha
  by_cases h : cy < c1
  · have hb : pickRef morgan e.n1 e.n3 = .ok y := by simp [hy, pickRef, h1, hcy, h]
    have hb' : pickRef morgan (swapLast e y).n1 (swapLast e y).n3 = .ok y := by
      have : ¬ c1 < cy := by omega
      simp [swapLast, pickRef, h1, hcy, this]
    have t := translateEnds_slots e isH wf k0 3 a y hk0 (Or.inr rfl) hs0 (Or.inl hy) s
    have t' := translateEnds_slots (swapLast e y) isH wf' k0 1 a y hk0 (Or.inl rfl) hs0' rfl (!s)
    simp only [diffMark, ha, ha', hb, hb', pickSign, t, t', bind, Except.bind]
    rcases hk0 with rfl | rfl <;> cases s <;> rfl
  · have hlt : c1 < cy := by omega
    have hb : pickRef morgan e.n1 e.n3 = .ok e.n1 := by simp [hy, pickRef, h1, hcy, h]
    have hb' : pickRef morgan (swapLast e y).n1 (swapLast e y).n3 = .ok e.n1 := by
      simp [swapLast, pickRef, h1, hcy, hlt]
    have t := translateEnds_slots e isH wf k0 1 a e.n1 hk0 (Or.inl rfl) hs0 rfl s
    have t' := translateEnds_slots (swapLast e y) isH wf' k0 3 a e.n1 hk0 (Or.inr rfl) hs0' (Or.inl rfl) (!s)
    simp only [diffMark, ha, ha', hb, hb', pickSign, t, t', bind, Except.bind]
    rcases hk0 with rfl | rfl <;> cases s <;> rfl

/-- the environment after renumbering the atoms by `π` -/
def mapEnds (π : Nat → Nat) (e : Ends) : Ends := ⟨π e.n0, π e.n1, e.n2.map π, e.n3.map π⟩

theorem matchOpt_renumber (π : Nat → Nat) (hπ : ∀ a b, π a = π b → a = b) (isH isH' : Nat → Bool)
    (hH : ∀ x, isH' (π x) = isH x) (x : Nat) (nk : Option Nat) :
    matchOpt (π x) (nk.map π) isH' = matchOpt x nk isH := by
  cases nk with
  | none => simp [matchOpt, hH]
  | some y =>
    simp only [matchOpt, Option.map]
    by_cases h : x = y
    · subst h; simp
    · have : π x ≠ π y := fun h' => h (hπ _ _ h')
      simp [h, this]

theorem endsSlots_renumber (π : Nat → Nat) (hπ : ∀ a b, π a = π b → a = b) (isH isH' : Nat → Bool)
    (hH : ∀ x, isH' (π x) = isH x) (e : Ends) (a b : Nat) :
    endsSlots (mapEnds π e) isH' (π a) (π b) = endsSlots e isH a b := by
  have inj : ∀ u v : Nat, (π u = π v) = (u = v) := fun u v => propext ⟨hπ u v, fun h => by rw [h]⟩
  simp only [endsSlots, mapEnds, inj, matchOpt_renumber π hπ isH isH' hH]

/-- **renumbering invariance of the mark**: for every injective renumbering `π` of the atoms that carries classes and
hydrogen-ness along, the reference atoms are the images of the old ones and the mark is the same - no atom number enters -/
theorem diffMark_renumber (π : Nat → Nat) (hπ : ∀ a b, π a = π b → a = b) (morgan morgan' : Nat → Option Int)
    (isH isH' : Nat → Bool) (hM : ∀ x, morgan' (π x) = morgan x) (hH : ∀ x, isH' (π x) = isH x) (e : Ends) (stored : Option Bool) :
    diffMark morgan' (mapEnds π e) isH' stored = (diffMark morgan e isH stored).map (fun r => (π r.1, π r.2.1, r.2.2)) := by
  have ra := pickRef_renumber π morgan morgan' e.n0 e.n2 (hM _) (fun x _ => hM x)
  have rb := pickRef_renumber π morgan morgan' e.n1 e.n3 (hM _) (fun x _ => hM x)
  simp only [diffMark, mapEnds] at *
  rw [ra, rb]
  rcases pickRef morgan e.n0 e.n2 with err | a
  · simp [Except.map, bind, Except.bind]
  · rcases pickRef morgan e.n1 e.n3 with err | b
    · simp [Except.map, bind, Except.bind]
    · have hs := endsSlots_renumber π hπ isH isH' hH e a b
      simp only [mapEnds] at hs
      simp only [Except.map, bind, Except.bind, translateEnds, hs]
      cases stored with
      | none => simp [pickSign]
      | some s =>
        simp only [pickSign]
        cases endsSlots e isH a b with
        | error err => rfl
        | ok t =>
          simp only []
          cases getKey alkeneTranslate t <;> rfl

/-- hypotheses of the theorems above are satisfiable: F (class 9) / CH3 (class 6) at the first end, the hub (class 7) at the last -/
example :
    diffMark (fun x => [(1, (9 : Int)), (2, 7), (3, 6)].lookup x) ⟨1, 2, some 3, none⟩ (fun _ => false) (some true)
      = .ok (3, 2, false) := by decide
example :
    diffMark (fun x => [(1, (9 : Int)), (2, 7), (3, 6)].lookup x) (swapFirst ⟨1, 2, some 3, none⟩ 3) (fun _ => false) (some false)
      = .ok (3, 2, false) := by decide
example : diffMark (fun _ => none) ⟨1, 2, some 3, none⟩ (fun _ => false) (some true) = .error .typeError := by decide

end Differentiation

end ChythonModel.Props.C12
