import ChythonModel.Proofs.C05Matching
import ChythonModel.Proofs.C05Totals
import ChythonModel.Proofs.C05Classify
import ChythonModel.Proofs.C05Rules
import ChythonModel.Proofs.C05Thiele
import ChythonModel.Proofs.C05Round
import ChythonModel.Proofs.C05Prepare
import ChythonModel.Proofs.C05SearchExample
/-!
# C05 — Kekulé and aromatic forms describe the same molecule; conversions are stable

The bond-assignment search of `kekule()` and the ring eligibility of `thiele()` have many correct answers, so the
property is decided by *checkers* applied to the implementation's actual outputs (`Spec/Kekule.lean`:
`checkKekule`, `checkMatching`, `checkThiele` — exactly the functions `Drivers/C05.lean` runs); this file proves
that an accepted output satisfies the declarative clauses of the property, for every molecule:

* §1 `checkKekule` ⇒ `IsKekuleOf` (same skeleton, aromatic bonds → 1/2, other bonds unchanged, only localised
  orders, hydrogens preserved and equal to what the C04 valence model computes) and its consequences in C04's
  vocabulary: no valence error, charge / radical state / composition / connectivity preserved, nothing changes on a
  molecule without aromatic bonds;
* §2 `checkMatching` ⇒ the new double bonds are a matching that covers the acceptor atoms and avoids the
  fixed-single atoms (the structural reason why every enumerated form aromatises back);
* §3 `checkThiele` ⇒ `IsAromFormOf` and what it preserves;
* §4 the atom classification of `__prepare_rings` (`classify`/`classifyAtom`, the function the driver's `cls` and
  `prep` run): agrees with the reference roles of the documented aromatic atom types, raises outside its domain,
  never puts a plain ring atom into both sets; `prepareRings` only returns skeletons of degree 2–3;
* §5 the regenerated rule table of `aromatics/_rules.py`: every repair rule conserves charge, patches only atoms and
  bonds of its own pattern, and therefore any run of the `__fix_rings` loop (`fixRings`, any molecule, any list of
  charge-faithful matches) conserves the molecular charge; the atomic-number constants of kekule.py / thiele.py
  name the elements the model's literals assume;
* §6 the backtracking search `_kekule_component` (`Model/C05Search.lean: kekuleComponent`, the function the driver's
  `ks` runs against the real generator, verbatim): it is defined by well-founded recursion (no fuel; the measure and
  its decrease are theorems here), every path it yields has `size` entries, the pyridine-over-pyrrole buffer only
  reorders, and — **soundness** — on every component `__prepare_rings` can hand over that has no ambiguous
  ("pyrrole or pyridine") atom, every yielded path assigns every skeleton bond exactly once, order 1 or 2, with the
  double bonds a perfect matching of the atoms outside `double_bonded` that avoids `double_bonded`; on the same
  components no Kekulé form is yielded twice, and — **completeness** — a generator run to its end yields every Kekulé
  form of the component: `InvalidAromaticRing` is raised only if none exists.
-/
namespace ChythonModel.Props.C05
open ChythonModel.Model ChythonModel.Model.C05 ChythonModel.Model.C05T ChythonModel.Spec.Kekule ChythonModel.Proofs.C05
open ChythonModel.Gen.Aromatic
open ChythonModel.Model.Valence (molecularCharge isRadical brutto checkValence calcImplicitMol)

/-! ## 1. Kekulé forms -/

/-- soundness of the checker the driver runs on every `kekule()` / `enumerate_kekule()` output -/
theorem check_kekule_sound (a k : Mol) (h : checkKekule a k = true) : IsKekuleOf a k :=
  checkKekule_sound a k h

/-- "no valence error": `check_valence` (C04) reports nothing on an accepted Kekulé form -/
theorem kekule_no_valence_error (a k : Mol) (h : checkKekule a k = true) : checkValence k = [] :=
  checkKekule_no_valence_error a k h

/-- "only single, double and triple bonds": no aromatic bond is left in any neighbour dict (all entries, not only
    the ones a look-up would find) -/
theorem kekule_no_aromatic_left (a k : Mol) (h : checkKekule a k = true) :
    ∀ r ∈ k.adj, ∀ q ∈ r.2, q.2.order ≠ 4 :=
  checkKekule_no_aromatic a k h

/-- charges are preserved (net charge of C04) -/
theorem kekule_preserves_charge (a k : Mol) (h : IsKekuleOf a k) : molecularCharge a = molecularCharge k :=
  molecularCharge_of_skeleton h.skeleton

/-- radical state is preserved -/
theorem kekule_preserves_radical (a k : Mol) (h : IsKekuleOf a k) : isRadical a = isRadical k :=
  isRadical_of_skeleton h.skeleton

/-- the atoms are the same, in the same order -/
theorem kekule_preserves_atoms (a k : Mol) (h : IsKekuleOf a k) : a.ids = k.ids :=
  ids_of_skeleton h.skeleton

/-- composition (C04 `brutto`, hydrogens included) is preserved whenever the aromatic form states its hydrogens -/
theorem kekule_preserves_formula (a k : Mol) (h : checkKekule a k = true) (hd : ∀ p ∈ a.atoms, p.2.implH ≠ none) :
    brutto a = brutto k :=
  brutto_of_check h hd

/-- connectivity is preserved: a bond exists in one form iff it exists in the other -/
theorem kekule_preserves_connectivity (a k : Mol) (h : checkKekule a k = true) (n m : Nat) :
    (a.bond? n m).isSome = (k.bond? n m).isSome :=
  connectivity_of_check h n m

/-- repeating the conversion changes nothing: a Kekulé form of a molecule without aromatic bonds has the same orders -/
theorem kekule_idempotent_spec (a k : Mol) (h : IsKekuleOf a k) (hl : ∀ n m b, a.bond? n m = some b → b.order ≠ 4)
    (n m : Nat) (b : Bond) (hb : a.bond? n m = some b) : ∃ b', k.bond? n m = some b' ∧ b'.order = b.order :=
  kekule_of_localised h hl n m b hb

/-! non-vacuity: pyrrole as the reader delivers it (`n` without hydrogen count) and its Kekulé form `N1C=CC=C1` -/

def pyrroleArom : Mol :=
  ⟨[(1, { z := 7 }), (2, { z := 6, implH := some 1 }), (3, { z := 6, implH := some 1 }),
    (4, { z := 6, implH := some 1 }), (5, { z := 6, implH := some 1 })],
   [(1, [(2, ⟨4, none⟩), (5, ⟨4, none⟩)]), (2, [(1, ⟨4, none⟩), (3, ⟨4, none⟩)]), (3, [(2, ⟨4, none⟩), (4, ⟨4, none⟩)]),
    (4, [(3, ⟨4, none⟩), (5, ⟨4, none⟩)]), (5, [(4, ⟨4, none⟩), (1, ⟨4, none⟩)])]⟩

def pyrroleKek : Mol :=
  ⟨[(1, { z := 7, implH := some 1 }), (2, { z := 6, implH := some 1 }), (3, { z := 6, implH := some 1 }),
    (4, { z := 6, implH := some 1 }), (5, { z := 6, implH := some 1 })],
   [(1, [(2, ⟨1, none⟩), (5, ⟨1, none⟩)]), (2, [(1, ⟨1, none⟩), (3, ⟨2, none⟩)]), (3, [(2, ⟨2, none⟩), (4, ⟨1, none⟩)]),
    (4, [(3, ⟨1, none⟩), (5, ⟨2, none⟩)]), (5, [(4, ⟨2, none⟩), (1, ⟨1, none⟩)])]⟩

/-- the wrong Kekulé form `N1=CC=CC1` (a double bond on N, hydrogen moved) of the same ring -/
def pyrroleBad : Mol :=
  ⟨[(1, { z := 7, implH := some 0 }), (2, { z := 6, implH := some 1 }), (3, { z := 6, implH := some 1 }),
    (4, { z := 6, implH := some 1 }), (5, { z := 6, implH := some 2 })],
   [(1, [(2, ⟨2, none⟩), (5, ⟨1, none⟩)]), (2, [(1, ⟨2, none⟩), (3, ⟨1, none⟩)]), (3, [(2, ⟨1, none⟩), (4, ⟨2, none⟩)]),
    (4, [(3, ⟨2, none⟩), (5, ⟨1, none⟩)]), (5, [(4, ⟨1, none⟩), (1, ⟨1, none⟩)])]⟩

example : checkKekule pyrroleArom pyrroleKek = true := by decide +kernel
example : checkKekule pyrroleArom pyrroleBad = false := by decide +kernel
example : checkKekule pyrroleKek pyrroleKek = true := by decide +kernel

/-! ## 2. alternation -/

/-- the double bonds chosen among the former aromatic bonds are a matching: no atom gets two, every atom of `must`
    (the plain acceptors of the classification) gets exactly one, no atom of `never` (`double_bonded`) gets any -/
theorem kekule_is_matching (a k : Mol) (must never : List Nat) (hb : checkBonds a k = true)
    (hm : checkMatching a k must never = true) : IsMatchingOn a k must never :=
  checkMatching_sound a k must never hb hm

example : checkMatching pyrroleArom pyrroleKek [2, 3, 4, 5] [1] = true := by decide +kernel
example : checkMatching pyrroleArom pyrroleBad [2, 3, 4, 5] [1] = false := by decide +kernel

/-! ## 3. aromatic forms -/

theorem check_thiele_sound (k t : Mol) (h : checkThiele k t = true) : IsAromFormOf k t :=
  checkThiele_sound k t h

theorem thiele_preserves_charge (k t : Mol) (h : IsAromFormOf k t) : molecularCharge k = molecularCharge t :=
  molecularCharge_of_skeleton h.skeleton

theorem thiele_preserves_radical (k t : Mol) (h : IsAromFormOf k t) : isRadical k = isRadical t :=
  isRadical_of_skeleton h.skeleton

/-- hydrogens are untouched atom by atom, hence the composition is the same -/
theorem thiele_preserves_formula (k t : Mol) (h : checkThiele k t = true) : brutto k = brutto t := by
  have hs := checkThiele_sound k t h
  unfold checkThiele at h
  simp only [Bool.and_eq_true] at h
  have hh : k.atoms.map (·.2.implH) = t.atoms.map (·.2.implH) :=
    map_eq_of_all2 _ _ (fun x y hxy => by
      unfold aromAtomOk at hxy
      simp only [Bool.and_eq_true, beq_iff_eq] at hxy
      exact hxy.2) h.1.1
  unfold brutto Valence.implicitTotal
  rw [symbolCounter_congr [] (elements_of_skeleton hs.skeleton), hh]

/-- the two conversions are inverse at the level of the relations: the localised, valence-consistent molecule an
    aromatic form was made from is one of that form's Kekulé forms (no four-ring reset involved) -/
theorem aromatic_form_has_its_source_as_kekule_form (k t : Mol) (h : IsAromFormOf k t)
    (hno : ∀ n m b b', k.bond? n m = some b → t.bond? n m = some b' → AromOrder b.order b'.order)
    (hloc : ∀ n m b, k.bond? n m = some b → Localised b.order) (hc : HConsistent k) : IsKekuleOf t k :=
  kekule_of_aromatic_form k t h hno hloc hc

/-- the hypotheses are satisfiable: pyrrole `N1C=CC=C1` is valence-consistent, and its aromatic form is accepted -/
example : HConsistent pyrroleKek := by
  intro n y h
  unfold Mol.atom? at h
  rcases lookup_five _ _ _ _ _ n y h with ⟨rfl, rfl⟩ | ⟨rfl, rfl⟩ | ⟨rfl, rfl⟩ | ⟨rfl, rfl⟩ | ⟨rfl, rfl⟩
  all_goals exact ⟨1, rfl, by decide +kernel⟩

example : checkThiele pyrroleKek { pyrroleArom with atoms := pyrroleKek.atoms } = true := by decide +kernel
example : checkThiele pyrroleKek pyrroleArom = false := by decide +kernel

/-! ### ring eligibility of `thiele()` (`ringKind`, the function behind the driver's `tmono` / `thr`) -/

/-- a ring that `thiele()` considers has 4–7 atoms, all B, C, N, O, P or S with at most three non-special neighbours -/
theorem thiele_candidate_ring_shape (m : Mol) (ring : List Nat) (h : ringKind m ring ≠ .skip) :
    4 ≤ ring.length ∧ ring.length ≤ 7 ∧
    ∀ n ∈ ring, [6, 7, 8, 16, 5, 15].contains (zOf m n) = true ∧ nsc m n ≤ 3 :=
  ringKind_not_skip m ring h

/-- the donor of a pyrrole-like ring is a ring atom with single bonds only, neutral or the C⁻ of a five-ring -/
theorem thiele_donor_atom (m : Mol) (ring : List Nat) (n : Nat) (h : ringKind m ring = .pyrrole n) :
    n ∈ ring ∧ hybridization m n = 1 ∧ (chargeOf m n = 0 ∨ (chargeOf m n = -1 ∧ zOf m n = 6 ∧ ring.length = 5)) :=
  ringKind_pyrrole m ring n h

/-- soundness of the at-scale check: every bond that became aromatic lies on a candidate ring -/
theorem thiele_aromatises_only_candidate_rings (k t : Mol) (sssr : List (List Nat))
    (h : aromatisedOnlyEligible k t sssr = true) (n m : Nat) (b b' : Bond) (hb : k.bond? n m = some b)
    (hb' : t.bond? n m = some b') (h4 : b'.order = 4) (hn4 : b.order ≠ 4) :
    ∃ r ∈ sssr, onRing r n m = true ∧ candidate (ringKind k r) = true :=
  aromatisedOnlyEligible_sound k t sssr h n m b b' hb hb' h4 hn4

/-- the functional model of `thiele(fix_tautomers=False)` (the function behind the driver's `tnf`, compared with the
    real result on every case) describes the same molecule for **every** input: the atom list is returned untouched
    (element, isotope, charge, radical, hydrogens) and so is the neighbour structure — only bond orders are assigned -/
theorem thiele_model_same_molecule (m : Mol) (sssr : List (List Nat)) (r : Bool) (t : Mol)
    (h : thieleNoFix m sssr = some (r, t)) :
    t.atoms = m.atoms ∧ SameSkeleton m t ∧ brutto m = brutto t ∧ molecularCharge m = molecularCharge t := by
  obtain ⟨ha, hk⟩ := thieleNoFix_frame m sssr r t h
  refine ⟨ha, ⟨by rw [ha], hk.symm⟩, ?_, ?_⟩
  · unfold brutto Valence.implicitTotal; rw [ha]
  · unfold molecularCharge; rw [ha]

/-- … every bond of the input is still there and is unchanged, single or aromatic (the model never writes anything
    but "single" and "aromatic") -/
theorem thiele_model_bonds (m : Mol) (sssr : List (List Nat)) (r : Bool) (t : Mol)
    (h : thieleNoFix m sssr = some (r, t)) (n k : Nat) (b : Bond) (hb : m.bond? n k = some b) :
    ∃ b', t.bond? n k = some b' ∧ (b'.order = b.order ∨ b'.order = 1 ∨ b'.order = 4) :=
  thieleNoFix_bonds m sssr r t h n k b hb

/-- … and answers `False` only together with the unchanged molecule (the default `thiele()` violates exactly this on
    the inputs of the known finding `thiele-false-but-changed`) -/
theorem thiele_model_false_unchanged (m : Mol) (sssr : List (List Nat)) (t : Mol)
    (h : thieleNoFix m sssr = some (false, t)) : t = m :=
  thieleNoFix_false_unchanged m sssr t h

example : (thieleNoFix pyrroleKek [[1, 2, 3, 4, 5]]).map (·.1) = some true := by decide +kernel

/-- the single-ring decision only ever aromatises a benzene-like or pyrrole-like candidate without exocyclic double bond -/
theorem mono_aromatic_is_candidate (m : Mol) (ring : List Nat) (h : monoAromatic m ring = true) :
    candidate (ringKind m ring) = true ∧ ringKind m ring ≠ .freak ∧ ∀ n ∈ ring, exoDouble m ring n = false := by
  unfold monoAromatic at h
  simp only [Bool.and_eq_true, Bool.not_eq_true', List.any_eq_false] at h
  obtain ⟨hk, hex⟩ := h
  refine ⟨?_, ?_, fun n hn => by simpa using hex n hn⟩
  · cases hr : ringKind m ring <;> simp [hr, candidate] at hk ⊢
  · intro hf
    rw [hf] at hk
    cases hk

example : ringKind pyrroleKek [1, 2, 3, 4, 5] = .pyrrole 1 := by decide
example : monoAromatic pyrroleKek [1, 2, 3, 4, 5] = true := by decide
example : aromatisedOnlyEligible pyrroleKek { pyrroleArom with atoms := pyrroleKek.atoms } [[1, 2, 3, 4, 5]] = true := by decide

/-! ## 4. classification of ring atoms (`Kekule.__prepare_rings`) -/

open ChythonModel.Spec.AromaticAtoms in
/-- does the class the code assigns admit the reference role? `double_bonded` = donor (two single ring bonds),
    neither set = acceptor (exactly one ring double bond), `pyrroles` = either. -/
def admits (c : Cls) : Role → Bool
  | .donor => c.db || c.pyr
  | .acceptor => !c.db
  | .either => c.pyr && !c.db

open ChythonModel.Spec.AromaticAtoms in
/-- exact agreement where the reference is unambiguous *and* the hydrogen count is given: donor ⇒ `double_bonded`
    only or (charged carbon: the code tries both) `pyrroles`; acceptor ⇒ neither set -/
def rowAgrees (r : Row) : Bool :=
  match classifyAtom ⟨r.z, r.charge, false, r.neighbors, r.implH, r.exo⟩ with
  | none => false
  | some c => admits c r.role &&
      (r.role != Role.acceptor || (!c.db && !c.pyr))

/-- the decision table is total on the documented aromatic atom types and gives each the role the textbook gives it -/
theorem classification_agrees_with_reference :
    ∀ r ∈ ChythonModel.Spec.AromaticAtoms.reference, rowAgrees r = true := by decide +kernel

/-- … and raises `InvalidAromaticRing` for every other element -/
theorem classification_raises_foreign_element (a : RingAtom)
    (h : a.z ≠ 5 ∧ a.z ≠ 6 ∧ a.z ≠ 7 ∧ a.z ≠ 8 ∧ a.z ≠ 15 ∧ a.z ≠ 16 ∧ a.z ≠ 33 ∧ a.z ≠ 34 ∧ a.z ≠ 52) :
    classify a = none :=
  classify_foreign a h

/-- … for every charge outside −1…1 -/
theorem classification_charge_range (a : RingAtom) (c : Cls) (h : classifyAtom a = some c) :
    a.charge = -1 ∨ a.charge = 0 ∨ a.charge = 1 :=
  classifyAtom_charge a c h

/-- … and for every neighbour count outside 2…4 (boron and atoms that carry an exocyclic double bond are the two
    documented exceptions of the code: their branches do not bound the count) -/
theorem classification_neighbors_range (a : RingAtom) (c : Cls) (h : classify a = some c) (hb : a.z ≠ 5)
    (he : a.exo = false) : 2 ≤ a.neighbors ∧ a.neighbors ≤ 4 :=
  classify_neighbors a c h hb he

/-- a ring atom without exocyclic double bond is never put into both `double_bonded` and `pyrroles` -/
theorem classification_sets_disjoint (a : RingAtom) (c : Cls) (h : classify a = some c) (hd : c.db = true)
    (hp : c.pyr = true) : a.exo = true :=
  classify_disjoint a c h hd hp

example : classifyAtom ⟨7, 0, false, 2, some 1, false⟩ = some ⟨true, false⟩ := by decide
example : classifyAtom ⟨7, 1, false, 2, some 1, false⟩ = some ⟨false, false⟩ := by decide
example : classifyAtom ⟨14, 0, false, 2, none, false⟩ = none := by decide

/-- `__prepare_rings` only ever returns skeletons in which every ring atom has two or three ring neighbours -/
theorem prepare_rings_degrees (m : Mol) (sssr : List (List Nat)) (p : Prep) (h : prepareRings m sssr = some p) :
    ∀ r ∈ p.rings, r.2.length = 2 ∨ r.2.length = 3 := by
  unfold prepareRings at h
  simp only at h
  split at h
  · simp only [Option.some.injEq] at h
    subst h
    intro r hr
    cases hr
  · split at h
    · cases h
    · split at h
      · cases h
      · rename_i s hs
        split at h
        · cases h
        · rename_i hdeg
          split at h
          · cases h
          · split at h
            · cases h
            · split at h
              · cases h
              · rename_i pyr db hcl
                simp only [Option.some.injEq] at h
                subst h
                intro r hr
                simp only [Bool.not_eq_true, List.any_eq_false, Bool.not_eq_true'] at hdeg
                have := hdeg r hr
                simp only [Bool.not_eq_false, Bool.or_eq_true, beq_iff_eq] at this
                exact this

/-- `pyrroles` and `double_bonded` only contain atoms of the aromatic skeleton — the `must` / `never` lists handed to
    `checkMatching` therefore speak about ring atoms only -/
theorem prepare_rings_sets_in_skeleton (m : Mol) (sssr : List (List Nat)) (p : Prep) (h : prepareRings m sssr = some p) :
    (∀ x ∈ p.pyrroles, x ∈ p.rings.keys) ∧ (∀ x ∈ p.dbl, x ∈ p.rings.keys) :=
  prepareRings_sets m sssr p h

/-- the normalised aromatic form (`normalise`, the left argument of `checkKekule` in the driver's `kekn`) has exactly
    the atoms of the input: the repairs of mis-drawn rings touch bond orders only -/
theorem normalise_preserves_atoms (m : Mol) (p : Prep) : (normalise m p).atoms = m.atoms :=
  normalise_atoms m p

/-! ## 5. the repair rules of `aromatics/_rules.py` (regenerated table) -/

/-- every rule: Σ new charges = Σ pattern charges over the atoms it patches -/
theorem aromfix_charge_conserving : ∀ r ∈ rules, chargeDelta r = some 0 := by decide +kernel

/-- every rule patches only atoms and bonds of its own pattern (`mapping[n]`, `bonds[n][m]` cannot raise) -/
theorem rule_patches_within_pattern : ∀ r ∈ rules, patchWithinPattern r = true := by decide +kernel

/-- both "freak" patterns have the documented shape; in particular the bond next to the lone-pair side accepts a double
    **and** an aromatic bond, so the pattern matches whether the neighbouring ring is still localised or already aromatic
    (dropping `,:` from `=,:` makes this fail) -/
theorem freak_patterns_accept_double_and_aromatic : freaks.length = 2 ∧ ∀ r ∈ freaks, freakShapeOk r = true := by
  decide +kernel

/-- lifted over the loop: **any** run of `__fix_rings` — any molecule with unique atom numbers, any lists of matches,
    provided every accepted match maps the patched pattern atoms injectively to atoms carrying the pattern charges
    (`fixFaithful`, which the driver evaluates on the mappings the real matcher produced) — conserves the net charge -/
theorem fix_rings_conserves_charge (m : Mol) (maps : List (List (List (Nat × Nat)))) (s : FixState)
    (hids : m.ids.Nodup) (hf : fixFaithful m maps = true) (h : fixRings fixRules m maps = some s) :
    molecularCharge s.mol = molecularCharge m := by
  unfold fixRings at h
  cases hl : fixLoop fixRules maps ⟨m, [], true, []⟩ with
  | none => simp [hl] at h
  | some s1 =>
    simp only [hl] at h
    cases hh : fixHydrogens s1.localized s1.mol with
    | none => simp [hh] at h
    | some m' =>
      simp only [hh, Option.map_some, Option.some.injEq] at h
      subst h
      obtain ⟨a1, _⟩ := fixLoop_charge rules maps ⟨m, [], true, []⟩ s1 aromfix_charge_conserving hf hids hl
      simp only
      rw [fixHydrogens_charge _ _ _ hh, a1]

/-- … and never adds, removes or renumbers an atom -/
theorem fix_rings_preserves_atom_numbers (m : Mol) (maps : List (List (List (Nat × Nat)))) (s : FixState)
    (hids : m.ids.Nodup) (hf : fixFaithful m maps = true) (h : fixRings fixRules m maps = some s) :
    s.mol.ids = m.ids := by
  unfold fixRings at h
  cases hl : fixLoop fixRules maps ⟨m, [], true, []⟩ with
  | none => simp [hl] at h
  | some s1 =>
    simp only [hl] at h
    cases hh : fixHydrogens s1.localized s1.mol with
    | none => simp [hh] at h
    | some m' =>
      simp only [hh, Option.map_some, Option.some.injEq] at h
      subst h
      obtain ⟨_, a2⟩ := fixLoop_charge rules maps ⟨m, [], true, []⟩ s1 aromfix_charge_conserving hf hids hl
      simp only
      rw [fixHydrogens_ids _ _ _ hh, a2]

/-- the atomic-number constants of kekule.py and thiele.py are the elements whose numbers the model's literals use -/
theorem constants_are_elements :
    (∀ sz ∈ kekuleConstants, Valence.symOf sz.2 = some sz.1) ∧ (∀ sz ∈ thieleConstants, Valence.symOf sz.2 = some sz.1) ∧
    kekuleConstants.map (·.2) = [5, 6, 7, 8, 15, 16, 33, 34, 52] ∧ thieleConstants.map (·.2) = [5, 6, 7, 8, 15, 16, 34] := by
  decide +kernel

/-! ## 6. the bond-assignment search `_kekule_component` -/

section search
open ChythonModel.Model.C05S ChythonModel.Proofs.C05S

/-- **Termination, part 1.** `explore` is defined by well-founded recursion on the lexicographic measure
    (atoms not on the path, pending entries whose atom is on the path, length of the level) — the model has no fuel
    parameter. When the closing entry `(start, …)` is popped the first two components do not grow and the level
    shrinks … -/
theorem search_measure_start (c : Ctx) (level : Level) (path : Path) (e : Entry) (hl : level.getLast? = some e)
    (hs : e.atom = c.start) :
    unvisited c (path ++ [(e.atom, e.prev, e.bond)]) ≤ unvisited c path ∧
    stale c (path ++ [(e.atom, e.prev, e.bond)]) level.dropLast ≤ stale c path level ∧
    level.dropLast.length < level.length :=
  measure_start hl hs

/-- **Termination, part 2.** … and every continuation a plan opens (for **any** component dict, any sets, any level and
    path — no domain assumption) either visits a new atom or has one stale pending entry less. Together with part 1
    this is the `decreasing_by` of `explore`: the search terminates on every input. -/
theorem search_measure_branch (c : Ctx) (level : Level) (path : Path) (e : Entry) (hl : level.getLast? = some e)
    (hs : e.atom ≠ c.start) (ins0 : Option Entry) (clos : List Nat) (branches : List (List Entry))
    (hp : plan c e.atom e.prev e.bond (hashedIn (path ++ [(e.atom, e.prev, e.bond)]))
            (path ++ [(e.atom, e.prev, e.bond)]).length = .go ins0 clos branches)
    (base : Level) (hr : removeAll e.atom (insert0 ins0 level.dropLast) clos = some base)
    (b : List Entry) (hb : b ∈ branches) :
    unvisited c ((path ++ [(e.atom, e.prev, e.bond)]) ++ clos.map fun x => (x, e.atom, 1)) < unvisited c path ∨
    (unvisited c ((path ++ [(e.atom, e.prev, e.bond)]) ++ clos.map fun x => (x, e.atom, 1)) = unvisited c path ∧
      stale c ((path ++ [(e.atom, e.prev, e.bond)]) ++ clos.map fun x => (x, e.atom, 1)) (base ++ b) <
        stale c path level) :=
  measure_branch hl hs hp hr hb

/-- every complete path has exactly `size` entries (any input) -/
theorem search_paths_have_size (c : Ctx) (level : Level) (path : Path) (limit : Nat) :
    ∀ p ∈ (explore c level path limit).found, p.length = c.size :=
  explore_found_length c level path limit

/-- what a plan contains (any input): the entry inserted at position 0 closes the ring to the start atom, closures are
    visited neighbours, every pushed entry leaves the current atom for an unvisited neighbour with order 1 or 2 -/
theorem search_plan_entries (c : Ctx) (atom prev bond len : Nat) (hashed : Nat → Bool) (ins0 : Option Entry)
    (clos : List Nat) (branches : List (List Entry))
    (h : plan c atom prev bond hashed len = .go ins0 clos branches) :
    ∃ nbrs, c.rings.lookup atom = some nbrs ∧
      (∀ e0, ins0 = some e0 → c.start ∈ nbrs ∧ c.start ≠ prev ∧ e0.atom = c.start ∧ e0.prev = atom ∧
        (e0.bond = 1 ∨ e0.bond = 2) ∧ e0.tag = none) ∧
      (∀ x ∈ clos, x ∈ nbrs ∧ x ≠ prev ∧ x ≠ c.start ∧ hashed x = true) ∧
      (∀ b ∈ branches, ∀ e ∈ b, e.atom ∈ nbrs ∧ e.atom ≠ prev ∧ e.atom ≠ c.start ∧ hashed e.atom = false ∧
        e.prev = atom ∧ (e.bond = 1 ∨ e.bond = 2)) :=
  plan_spec h

/-- **local alternation**: at an atom with two or three distinct neighbours and no ambiguous atoms in the component,
    every continuation of a plan gives the atom exactly one double bond (the bond it was entered by, the closing bond or
    one pushed bond) — none if the atom is in `double_bonded` — handles all ring closures, reaches every unvisited
    neighbour once and never pushes a double bond towards an atom of `double_bonded` -/
theorem search_plan_alternates (c : Ctx) (a p b len : Nat) (hashed : Nat → Bool) (ins0 : Option Entry) (clos : List Nat)
    (brs : List (List Entry)) (h : plan c a p b hashed len = .go ins0 clos brs)
    (nbrs : List Nat) (hn : c.rings.lookup a = some nbrs) (hN : nbrs.Nodup) (hL : nbrs.length ≤ 3)
    (h2 : 2 ≤ nbrs.length) (hP : p ∈ nbrs) (hpyr : c.pyr = []) (hb : b = 1 ∨ b = 2)
    (hdb : b = 2 → c.db.contains a = false) (hz : c.start ≠ 0) :
    (c.start ∈ nbrs → c.start ≠ p → ∃ e0, ins0 = some e0) ∧
    (∀ e0, ins0 = some e0 → e0.bond = loopBond c) ∧
    clos = closuresOf c p hashed nbrs ∧
    (∀ br ∈ brs, (br.map (·.atom)).Perm (forStackOf c p hashed nbrs)) ∧
    (∀ br ∈ brs, ∀ e ∈ br, e.bond = 2 → c.db.contains e.atom = false) ∧
    (∀ br ∈ brs, (if b = 2 then 1 else 0) + twos ins0.toList + twos br = if c.db.contains a = true then 0 else 1) :=
  plan_facts h hn hN hL h2 hP hpyr hb hdb hz

/-- the `buffer_size` logic only reorders: what has been yielded plus what is still held is a permutation of the
    complete paths fed so far -/
theorem search_buffer_only_reorders (pyr : List Nat) (ps : List Path) (b : Buf) :
    ((feedAll pyr b ps).2 ++ (feedAll pyr b ps).1.held).Perm (b.held ++ ps) :=
  feedAll_perm pyr ps b

/-- every path `kekuleComponent` yields is a complete path of the search (any input, any buffer size) -/
theorem search_yields_are_complete_paths (rings : Adj) (db pyr : List Nat) (buf limit : Nat) :
    ∀ y ∈ (kekuleComponent rings db pyr buf limit).1, y ∈ (searchRaw rings db pyr limit).found :=
  component_yields_found rings db pyr buf limit

/-- the decidable domain test the driver evaluates for every request is the domain of the soundness theorem -/
theorem search_domain_check_sound (rings : Adj) (h : graphOKb rings = true) : GraphOK rings := graphOKb_sound h

/-- **Soundness, full statement**: on every component `__prepare_rings` can hand over, with any `double_bonded` and
    any `pyrroles` whose members outside `double_bonded` have two ring neighbours, every yielded path assigns every
    skeleton bond exactly once (order 1 or 2) and its double bonds are a matching in which an atom of `double_bonded` has
    none, an atom of `pyrroles` at most one and every other atom exactly one.
    (The restriction on `pyrroles` is necessary: with an ambiguous atom that has *three* ring neighbours — a ring-fusion
    P / As / B⁻, which design/C05.md §4 records as outside the property's domain — both the code and this model yield,
    e.g. for `rings = {3: [14, 5], 14: [10, 12, 3], 5: [3, 12], 10: [14, 17, 20], 12: [14, 5, 4], 17: [20, 10, 4],
    20: [17, 10, 4], 4: [12, 17, 20]}`, `double_bonded = {12}`, `pyrroles = {4, 5}`, the path
    `14,12,1 10,14,2 20,10,1 17,20,2 10,17,1 4,17,1 4,20,1 3,14,1 5,3,2 12,4,1 12,4,1`, which assigns 12–4 twice and
    12–5 never; the harness keeps this input as a regression case of the verbatim tie.) -/
def SearchSound : Prop :=
  ∀ (rings : Adj) (db pyr : List Nat) (buf limit : Nat), GraphOK rings →
    (∀ v ∈ pyr, db.contains v = false → (nbr rings v).length = 2) →
    ∀ y ∈ (kekuleComponent rings db pyr buf limit).1,
      (∀ x ∈ y, x.1 ∈ nbr rings x.2.1 ∧ (x.2.2 = 1 ∨ x.2.2 = 2)) ∧ (y.map key).Nodup ∧
      (∀ v w, w ∈ nbr rings v → ukey v w ∈ y.map key) ∧
      (∀ v, nbr rings v ≠ [] →
        if db.contains v = true then dbl v y = 0 else if pyr.contains v = true then dbl v y ≤ 1 else dbl v y = 1)

/-- **Soundness, proved part**: the full statement for components without ambiguous atoms (`pyrroles = ∅`: every ring
    atom's role is fixed by the classification — all molecules whose ring hetero atoms state their hydrogens).
    Excluded: components with a "pyrrole or pyridine" atom; for those (two ring neighbours) the same statement is
    evaluated on every output of every run (checker `kekn` on the molecule, brute force on the component), but the
    invariant used here does not hold (such atoms are legitimately visited twice). -/
theorem search_sound_partial (rings : Adj) (db : List Nat) (buf limit : Nat) (G : GraphOK rings) :
    ∀ y ∈ (kekuleComponent rings db [] buf limit).1,
      (∀ x ∈ y, x.1 ∈ nbr rings x.2.1 ∧ (x.2.2 = 1 ∨ x.2.2 = 2)) ∧ (y.map key).Nodup ∧
      (∀ v w, w ∈ nbr rings v → ukey v w ∈ y.map key) ∧
      (∀ v, nbr rings v ≠ [] → dbl v y = if db.contains v = true then 0 else 1) := by
  intro y hy
  have h := component_sound G db buf limit y hy
  exact ⟨h.edges, h.once, h.all, h.matching⟩

/-- **Completeness, full statement**: when the start atom is not ambiguous (`double_bonded` non-empty or some
    non-condensed atom outside `pyrroles`) and the generator is run to its end without exception, every admissible
    assignment of orders 1/2 to the skeleton bonds (an atom of `double_bonded` gets no double bond, an atom of
    `pyrroles` at most one, every other atom exactly one) is yielded; in particular `InvalidAromaticRing` is raised only
    if none exists. (With an ambiguous start atom the code forces a double bond on it: 1624 of 237 000 enumerated cases
    miss forms, 60 raise although a form exists — see design/C05.md.) -/
def SearchComplete : Prop :=
  ∀ (rings : Adj) (db pyr : List Nat) (buf limit : Nat), GraphOK rings → (∀ p ∈ rings, 2 ≤ p.2.length) →
    (∀ v ∈ pyr, db.contains v = false → (nbr rings v).length = 2) →
    (db ≠ [] ∨ ∃ p ∈ rings, p.2.length = 2 ∧ pyr.contains p.1 = false) →
    (kekuleComponent rings db pyr buf limit).2 ≠ .more → (∀ e, (kekuleComponent rings db pyr buf limit).2 ≠ .crashed e) →
    ∀ f : Nat × Nat → Nat,
      (∀ v w, w ∈ nbr rings v → (f (ukey v w) = 1 ∨ f (ukey v w) = 2)) →
      (∀ v, nbr rings v ≠ [] →
        let d := (nbr rings v).countP fun w => f (ukey v w) == 2
        if db.contains v = true then d = 0 else if pyr.contains v = true then d ≤ 1 else d = 1) →
      ∃ y ∈ (kekuleComponent rings db pyr buf limit).1, ∀ x ∈ y, x.2.2 = f (key x)

/-- **Completeness, proved part**: the full statement for components without ambiguous atoms (then no condition on the
    start atom is needed). Proof (`Proofs/C05SearchComplete.lean`): `search_plan_complete` (below) + the invariant of
    `search_sound_partial` + the stack discipline "only the entry on top of a level carries a double bond or a depth
    tag" (so a ring closure always meets a single-bonded pending entry) + for every form the initial level that agrees
    with it at the start atom. Excluded: `pyrroles ≠ ∅` (evaluated per run against the independent enumeration). -/
theorem search_complete_partial (rings : Adj) (db : List Nat) (buf limit : Nat) (G : GraphOK rings)
    (hk : ∀ p ∈ rings, 2 ≤ p.2.length)
    (h1 : (kekuleComponent rings db [] buf limit).2 ≠ .more)
    (h2 : ∀ e, (kekuleComponent rings db [] buf limit).2 ≠ .crashed e)
    (f : Nat × Nat → Nat) (hord : ∀ v w, w ∈ nbr rings v → (f (ukey v w) = 1 ∨ f (ukey v w) = 2))
    (hdeg : ∀ v, nbr rings v ≠ [] →
      (nbr rings v).countP (fun w => f (ukey v w) == 2) = if db.contains v = true then 0 else 1) :
    ∃ y ∈ (kekuleComponent rings db [] buf limit).1, ∀ x ∈ y, x.2.2 = f (key x) :=
  component_complete G hk db buf limit h1 h2 ⟨hord, hdeg⟩

/-- … in particular `_kekule_component` raises `InvalidAromaticRing('kekule form not found')` **only if the component
    has no Kekulé form** (prepared components without ambiguous atoms) -/
theorem search_raises_only_without_form (rings : Adj) (db : List Nat) (buf limit : Nat) (G : GraphOK rings)
    (hk : ∀ p ∈ rings, 2 ≤ p.2.length) (h : (kekuleComponent rings db [] buf limit).2 = .raised) :
    ¬ ∃ f : Nat × Nat → Nat, ValidFormR rings db f := by
  rintro ⟨f, VF⟩
  have h1 : (kekuleComponent rings db [] buf limit).2 ≠ .more := by rw [h]; exact fun h => Status.noConfusion h
  have h2 : ∀ e, (kekuleComponent rings db [] buf limit).2 ≠ .crashed e := by
    intro e; rw [h]; exact fun h => Status.noConfusion h
  obtain ⟨y, hy, -⟩ := component_complete G hk db buf limit h1 h2 VF
  -- a raise means nothing was yielded
  unfold kekuleComponent at h hy
  simp only at h hy
  split at h
  · cases h
  · split at h
    · cases h
    · split at h
      · rename_i hcr hlim hemp
        simp only [hcr, hlim, hemp, if_false, if_true] at hy
        have hsub := feedAll_sub [] (searchRaw rings db [] limit).found ⟨buf, []⟩ y hy
        rw [List.isEmpty_iff.1 hemp] at hsub
        simp at hsub
      · cases h

/-- **local completeness** (any prepared atom, no ambiguous atoms): if `g` prescribes orders for the forward neighbours
    such that the atom gets exactly one double bond in all (entered / closing / pushed; none for `double_bonded`) and no
    double bond goes to `double_bonded`, the plan is not dead, raises nothing, and one continuation pushes exactly `g` -/
theorem search_plan_complete (c : Ctx) (a p b len : Nat) (hashed : Nat → Bool) (g : Nat → Nat)
    (nbrs : List Nat) (hn : c.rings.lookup a = some nbrs) (hL : nbrs.length ≤ 3)
    (hP : p ∈ nbrs) (hpyr : c.pyr = []) (hb : b = 1 ∨ b = 2)
    (hg : ∀ x ∈ forStackOf c p hashed nbrs, g x = 1 ∨ g x = 2)
    (hdbfs : ∀ x ∈ forStackOf c p hashed nbrs, c.db.contains x = true → g x = 1)
    (hsum : (if b = 2 then 1 else 0) + (if hasLoop c p nbrs = true ∧ loopBond c = 2 then 1 else 0) +
      (forStackOf c p hashed nbrs).countP (fun x => g x == 2) = if c.db.contains a = true then 0 else 1) :
    plan c a p b hashed len ≠ .dead ∧ (∀ s, plan c a p b hashed len ≠ .crash s) ∧
    (∀ ins0 clos brs, plan c a p b hashed len = .go ins0 clos brs → ∃ br ∈ brs, ∀ e ∈ br, e.bond = g e.atom) :=
  plan_complete g hn hL hP hpyr hb hg hdbfs hsum

/-- **No duplicates, full statement**: any two yields (two different positions of the sequence `enumerate_kekule`
    walks through) give some skeleton bond different orders (`Differ`) — no Kekulé form comes twice. -/
def SearchNoDup : Prop :=
  ∀ (rings : Adj) (db pyr : List Nat) (buf limit : Nat), GraphOK rings →
    (∀ v ∈ pyr, db.contains v = false → (nbr rings v).length = 2) →
    (kekuleComponent rings db pyr buf limit).1.Pairwise Differ

/-- **No duplicates, proved part**: the full statement for components without ambiguous atoms. Proof: two
    continuations of one plan always disagree about the order of a pushed bond (`plan_conflict`, any input), every path
    found from a state carries all assignments of that state (`Ext`, using the invariant of `search_sound_partial`), and
    paths found from different initial levels differ at the start atom (which has exactly one double bond).
    Excluded: `pyrroles ≠ ∅` (evaluated per run against the independent enumeration). -/
theorem search_no_dup_partial (rings : Adj) (db : List Nat) (buf limit : Nat) (G : GraphOK rings) :
    (kekuleComponent rings db [] buf limit).1.Pairwise Differ :=
  component_nodup G db buf limit

/-- the alternatives opened at one choice point always disagree about a pushed bond (any input, ambiguous atoms
    included): the reason why backtracking never reaches the same assignment twice -/
theorem search_alternatives_conflict (c : Ctx) (atom prev bond len : Nat) (hashed : Nat → Bool) (ins0 : Option Entry)
    (clos : List Nat) (brs : List (List Entry)) (h : plan c atom prev bond hashed len = .go ins0 clos brs) :
    brs.Pairwise Conflict :=
  plan_conflict h

/-- soundness where the whole-`kekule()` model (`Model/C05Full.lean: kekuleFull`, driver op `kekf`) uses the search: the
    paths it writes into the molecule — the first yield of every component — are Kekulé forms of their components
    (components as `GraphOK`, without ambiguous atoms) -/
theorem kekule_full_writes_kekule_forms (buf : Nat) (cs : List C05F.Comp) (ys : List Path)
    (hc : ∀ c ∈ cs, GraphOK c.rings ∧ c.pyr = []) (h : C05F.firstYields buf cs = .ok ys) :
    List.Forall₂ (fun c y => KekuleFormOf c.rings c.db y) cs ys :=
  firstYields_sound buf cs ys hc h

/-- naphthalene as `__kekule_full` builds the component dict -/
def naphthaleneRings : Adj :=
  [(1, [2, 10]), (2, [1, 3]), (3, [2, 4]), (4, [3, 5]), (5, [4, 6, 10]), (6, [5, 7]), (7, [6, 8]), (8, [7, 9]),
   (9, [8, 10]), (10, [9, 1, 5])]

example : GraphOK naphthaleneRings := graphOKb_sound (by decide +kernel)

/-! non-vacuity of the soundness / no-duplicate / completeness theorems: the four-ring `square`, evaluated step by step
    in Lean (`Proofs/C05SearchExample.lean`), yields `4,1,1 3,4,2 2,3,1 1,2,2` first — exactly what the real generator
    yields for this input (the driver's `ks` stream contains it) -/
example : GraphOK square := graphOKb_sound (by decide +kernel)
example : [(4, 1, 1), (3, 4, 2), (2, 3, 1), (1, 2, 2)] ∈ (kekuleComponent square [] [] 7 4).1 := by
  rw [component_yields_eq]; exact square_first_form
/-- … and the soundness theorem applied to it -/
example : KekuleFormOf square [] [(4, 1, 1), (3, 4, 2), (2, 3, 1), (1, 2, 2)] :=
  component_sound (graphOKb_sound (by decide +kernel)) [] 7 4 _
    (by rw [component_yields_eq]; exact square_first_form)
/-- not a prepared component: atom 1 has a single ring neighbour -/
example : graphOKb [(1, [2]), (2, [1, 3, 4]), (3, [2, 4]), (4, [2, 3])] = false := by decide +kernel
example : (feedAll [7] ⟨1, []⟩ [[(1, 7, 1)], [(2, 7, 1)]]).2 = [[(1, 7, 1)], [(2, 7, 1)]] := by decide +kernel

end search

end ChythonModel.Props.C05
