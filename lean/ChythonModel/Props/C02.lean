import ChythonModel.Proofs.C02Paren
import ChythonModel.Proofs.C02Heap
import ChythonModel.Proofs.C02Lex
import ChythonModel.Proofs.C02Chain
import ChythonModel.Proofs.C02Rounds
import ChythonModel.Proofs.C02Pairing
import ChythonModel.Proofs.C02Writer
import ChythonModel.Proofs.C02Closures
import ChythonModel.Proofs.C02HeapBound
import ChythonModel.Proofs.C02ReadOk
import ChythonModel.Proofs.C02Final
import ChythonModel.Proofs.C02Positional
import ChythonModel.Proofs.C02Atoms
import ChythonModel.Proofs.C02Fuel2
import ChythonModel.Proofs.C02ChainSym
import ChythonModel.Proofs.C02BondOrder
import ChythonModel.Proofs.C02ClosureSym
/-!
# C02 — SMILES write then read is lossless; canonical strings never collide

Property theorems about the writer model `Model/SmilesWriter.lean` (the functions the driver `drv_c02` runs) and the
read-back definitions of `Model/C02RoundTrip.lean`.  Helper lemmas live in `Proofs/C02*.lean`.
-/
namespace ChythonModel.Props.C02
open ChythonModel.Model ChythonModel.Model.SmilesWriter ChythonModel.Model.C02RT ChythonModel.Proofs.C02

/-! ## 1. lexical unambiguity -/

/-- **token_roundtrip**: for every list of tokens of the shapes the writer emits (bracket atoms whose text has no `]`,
    organic-subset atoms, at most one bond character, closure numbers below 100, parentheses, dots), lexing the
    concatenation of their texts gives back exactly the non-empty tokens: `Cl`/`Br` are never split or glued, `%nn` is
    used from 10 on and read as one number, a digit after an atom is a closure, never part of the atom. -/
theorem token_roundtrip (ts : List WTok) (hok : ∀ t ∈ ts, tokOk t = true) :
    lex (renderAll ts) = some (ts.filterMap toL) := lex_render ts hok

/-- the hypotheses are satisfiable by a non-trivial token list: `C%12(Cl)Br1[13CH3+:7]` -/
example : let ts := [WTok.atom 1 { bracket := false, isotope := none, symbol := [67], stereo := none, hcount := 0, charge := [], map := none },
                     .bond [], .closure 12, .lpar, .bond [],
                     .atom 2 { bracket := false, isotope := none, symbol := [67, 108], stereo := none, hcount := 0, charge := [], map := none },
                     .rpar, .bond [],
                     .atom 3 { bracket := false, isotope := none, symbol := [66, 114], stereo := none, hcount := 0, charge := [], map := none },
                     .bond [], .closure 1, .bond [61],
                     .atom 4 { bracket := true, isotope := some 13, symbol := [67], stereo := none, hcount := 3, charge := [43], map := some 7 }]
    (∀ t ∈ ts, tokOk t = true) ∧ lex (renderAll ts) = some (ts.filterMap toL) ∧ (ts.filterMap toL).length = 9 := by
  decide

/-! ## 2. closure numbers -/

theorem cyclesWF_prefix : ∀ (P Q : List (List Nat)) (opened seen : List Nat),
    cyclesWF opened seen (P ++ Q) = true → cyclesWF opened seen P = true := by
  intro P
  induction P with
  | nil => intros; rfl
  | cons c tl ih =>
    intro Q opened seen h
    simp only [List.cons_append, cyclesWF, Bool.and_eq_true] at h ⊢
    exact ⟨h.1, ih Q _ _ h.2⟩

/-- **closure_discipline** (open closures): run the allocator of `_smiles` (`heappop` on the first sight of a cycle,
    `heappush` of the released numbers only after the atom) over ANY prefix `P` of the closure atoms' cycle lists of a
    well-formed run (no cycle twice on one atom, every cycle on at most two atoms).  Then the cycles open after `P`
    all hold a number, these numbers are pairwise different, none of them is in the free heap, and the free heap has
    no duplicate — so the reader, which pairs closures by number, pairs exactly the two ends of each cycle. -/
theorem closure_discipline (P Q : List (List Nat)) (hwf : cyclesWF [] [] (P ++ Q) = true)
    (casted : List (Nat × Nat)) (heap : List Nat) (h : castSeq P [] initialHeap = .ok (casted, heap)) :
    Held casted heap (P.foldl toggle []) :=
  (castSeq_held P [] initialHeap [] [] casted heap held_initial (by intro c hc; simp at hc)
    (cyclesWF_prefix P Q [] [] hwf) h).1

/-- **closure_discipline** (one atom): the numbers written on one atom are pairwise different (delayed release:
    `C1..C11..C1` is never produced), whatever is open before it. -/
theorem closure_numbers_on_one_atom_distinct (cyc : List Nat) (casted : List (Nat × Nat)) (heap opened : List Nat)
    (casted' : List (Nat × Nat)) (heap1 released : List Nat)
    (hH : Held casted heap opened) (hnd : cyc.Nodup) (hfr : ∀ c ∈ cyc, c ∈ opened ∨ casted.lookup c = none)
    (h : castOne cyc casted heap [] = .ok (casted', heap1, released)) :
    (∀ c ∈ cyc, ∃ k, casted'.lookup c = some k) ∧
    (∀ c ∈ cyc, ∀ c' ∈ cyc, casted'.lookup c = casted'.lookup c' → c = c') :=
  let r := castAtom_held cyc casted heap opened casted' heap1 released hH hnd hfr h
  ⟨r.2.1, r.2.2.1⟩

/-- non-trivial instance: three cycles, the first closed on the atom that opens the third (the `C1..C11..C1` situation):
    the well-formedness hypothesis holds and the third cycle gets a fresh number, not the one being released -/
example : cyclesWF [] [] [[1], [2], [1, 3], [2, 3]] = true ∧
    (castSeq [[1], [2], [1, 3]] [] initialHeap).toOption = some ([(1, 1), (2, 2), (3, 3)], 1 :: (initialHeap.drop 3)) := by
  decide

/-- **closure_pairing**: let the allocator of `_smiles` number the cycles of any well-formed traversal and let every
    closure atom carry the numbers of its cycles in ANY order (the writer sorts them by number).  A reader that pairs
    closure digits by NUMBER (an open number closes a ring, any other opens one) forms exactly the bonds — same atoms,
    same order — as pairing the two ends of each cycle by the writer's cycle IDENTITY; the table of still-open closures
    corresponds too.  This is the step "number reuse never makes the parser pair the wrong atoms". -/
theorem closure_pairing (As : List CAtom) (casted : List (Nat × Nat)) (heap : List Nat)
    (hwf : cyclesWF [] [] (As.map (·.alloc)) = true)
    (hA : ∀ t ∈ As, t.rd.Nodup ∧ ∀ c, c ∈ t.rd ↔ c ∈ t.alloc)
    (h : castSeq (As.map (·.alloc)) [] initialHeap = .ok (casted, heap)) :
    let f := fun c => (casted.lookup c).getD 0
    let evs := As.flatMap fun t => evAtom t.n t.rd
    pairAll [] (evs.map fun e => (e.1, f e.2)) = (mapKeys f (pairAll [] evs).1, (pairAll [] evs).2) :=
  pairing_by_number As casted heap hwf hA h

/-- non-trivial instance: three cycles on four atoms where number 1 is reused (`C1..C12..C1..C2`-like): hypotheses hold,
    pairing by number gives the bonds 10–12, 12–13, 11–13 like pairing by identity -/
example :
    let As : List CAtom := [⟨10, [1], [1]⟩, ⟨11, [2], [2]⟩, ⟨12, [1, 3], [3, 1]⟩, ⟨13, [2, 3], [3, 2]⟩]
    cyclesWF [] [] (As.map (·.alloc)) = true ∧ (∀ t ∈ As, t.rd.Nodup ∧ ∀ c, c ∈ t.rd ↔ c ∈ t.alloc) ∧
    (castSeq (As.map (·.alloc)) [] initialHeap).toOption.map (·.1) = some [(1, 1), (2, 2), (3, 3)] ∧
    (pairAll [] (As.flatMap fun t => evAtom t.n t.rd)).2 = [(10, 12), (12, 13), (11, 13)] := by
  refine ⟨by decide, ?_, by decide, by decide⟩
  intro t ht
  simp only [List.mem_cons, List.not_mem_nil, or_false] at ht
  rcases ht with rfl | rfl | rfl | rfl <;> refine ⟨by decide, ?_⟩ <;> intro c <;> simp <;> omega

/-- FULL statement "the closure-number allocator never fails".  FALSE (known finding `C02/closure-heap-exhausted`,
    witness in `Findings/C02.lean`): the heap holds the numbers 1‥99 only. -/
def AllocatorTotalFull : Prop :=
  ∀ L : List (List Nat), cyclesWF [] [] L = true → ∃ c h, castSeq L [] initialHeap = .ok (c, h)

/-- **heap_exhaustion_exact** (`_partial` of `AllocatorTotalFull` with the exact excluded class): on a well-formed
    traversal the allocator succeeds iff at every closure atom (cycles open before it) + (cycles first seen on it) ≤ 99 —
    a cycle closed on an atom still occupies its number while that atom's new cycles are numbered (delayed release) —
    and otherwise the result is exactly Python's `IndexError` from `heappop` on the empty heap, never a wrong number. -/
theorem heap_exhaustion_exact (L : List (List Nat)) (hwf : cyclesWF [] [] L = true) :
    (peakOk 99 [] L = true → ∃ c h, castSeq L [] initialHeap = .ok (c, h)) ∧
    (peakOk 99 [] L = false → castSeq L [] initialHeap = .error .indexError) :=
  castSeq_indexError_iff L hwf

/-- both sides of the boundary are inhabited: 99 simultaneously open cycles fit, a 100th does not -/
example : cyclesWF [] [] ((List.range 99).map fun i => [i]) = true ∧ peakOk 99 [] ((List.range 99).map fun i => [i]) = true ∧
    cyclesWF [] [] ((List.range 100).map fun i => [i]) = true ∧ peakOk 99 [] ((List.range 100).map fun i => [i]) = false := by
  decide +kernel

/-! ## 3. parentheses -/

/-- **paren_balance**: the text of one component — `emit` applied to the flattening of ANY DFS tree (`edges`), with any
    closure table — has balanced parentheses that never close below depth 0; each `(` … `)` pair encloses exactly one
    side chain (`flatKids`). -/
theorem paren_balance (m : Mol) (opts : Opts) (sc : SCtx) (casted : List (Nat × Nat)) (tokens : List (Nat × List (Nat × Nat)))
    (edges : List (Nat × List Nat)) (fuel start : Nat) (vb : List (Nat × Nat))
    (out : List WTok) (order : List Nat) (vb' : List (Nat × Nat))
    (h : emit m opts sc casted tokens (flatten edges fuel start) vb = .ok (out, order, vb')) :
    parenDepth 0 out = some 0 := by
  rw [emit_parens m opts sc casted tokens _ vb out order vb' h 0]
  simp only [flatten, fp_atom]
  have := flat_balanced edges fuel start 0 []
  simpa [fparen] using this

/-! ## 4. chain bonds -/

/-- **chain_roundtrip**: take ANY DFS trees (one per component) and any closure tables; write every component with
    `emit ∘ flatten` and join the components with dots, as `_smiles` does.  Whatever a reader that follows the SMILES
    connection rules (previous atom, branch stack, dot) makes of that token list, its chain bonds are exactly the
    tree bonds `(parent, child)` of the DFS trees, in written order — every atom is attached to its DFS parent, never to
    the atom that happens to precede it in the text, and nothing is attached across a dot. -/
theorem chain_roundtrip (m : Mol) (opts : Opts) (rs : List Round) (h : ∀ r ∈ rs, RoundEmitted m opts r)
    (es : List REdge) (hread : readToks (joinRounds rs) = .ok es) :
    chainOf es = rs.flatMap fun r => r.smi.filterMap FTok.bond? := by
  have h1 := readToks_chain _ _ hread
  have h2 := skRead_rounds m opts rs h none false (Or.inl rfl)
  simp only [chainRead] at h1
  have e : wsk (joinRounds rs) = (joinRounds rs).filterMap WTok.skel := rfl
  rw [← e, h2] at h1
  simp only [Option.some.injEq] at h1
  rw [← h1]; rfl

/-- the same without assuming that the closures can be read: the chain bonds are determined by atoms, parentheses and dots alone -/
theorem chain_roundtrip_skeleton (m : Mol) (opts : Opts) (rs : List Round) (h : ∀ r ∈ rs, RoundEmitted m opts r) :
    chainRead (joinRounds rs) = some (rs.flatMap fun r => r.smi.filterMap FTok.bond?) :=
  skRead_rounds m opts rs h none false (Or.inl rfl)

/-! ## 5. the same for the whole writer `smilesRounds` -/

/-- **paren_balance** for everything `_smiles` returns: balanced, never negative, depth 0 at every dot -/
theorem writer_paren_balance (m : Mol) (env : Env) (opts : Opts) (rs : List Round) (order : List Nat)
    (h : smilesRounds m env opts = .ok (rs, order)) : parensOk (joinRounds rs) = true := by
  have := joinRounds_balanced m opts rs (smilesRounds_spec m env opts rs order h).1
  simp [parensOk, this]

/-- **chain_roundtrip** for everything `_smiles` returns: the chain bonds a reader forms are the DFS tree bonds -/
theorem writer_chain_roundtrip (m : Mol) (env : Env) (opts : Opts) (rs : List Round) (order : List Nat)
    (h : smilesRounds m env opts = .ok (rs, order)) :
    chainRead (joinRounds rs) = some (rs.flatMap fun r => r.smi.filterMap FTok.bond?) :=
  chain_roundtrip_skeleton m opts rs fun r hr => ((smilesRounds_spec m env opts rs order h).1 r hr).emittedRound

/-- **closure_discipline** for everything `_smiles` returns: the closure numbers of all components come from ONE run of
    the allocator over the concatenated cycle lists (numbers released in one component are reused in the next), so
    `closure_discipline` and `closure_pairing` apply to the whole text whenever the traversal is well formed
    (`cyclesWF`, evaluated by the driver on every case) -/
theorem writer_numbering_is_one_allocator_run (m : Mol) (env : Env) (opts : Opts) (rs : List Round) (order : List Nat)
    (h : smilesRounds m env opts = .ok (rs, order)) :
    ∃ casted heap, castSeq (rs.flatMap roundCycles) [] initialHeap = .ok (casted, heap) ∧
      (cyclesWF [] [] (rs.flatMap roundCycles) = true → Held casted heap ((rs.flatMap roundCycles).foldl toggle [])) := by
  obtain ⟨h1, h2⟩ := smilesRounds_spec m env opts rs order h
  obtain ⟨c, hp, hc⟩ := chained_castSeq m opts rs [] initialHeap h1 h2
  refine ⟨c, hp, hc, fun hwf => ?_⟩
  have := closure_discipline (rs.flatMap roundCycles) [] (by simpa using hwf) c hp hc
  exact this

/-- **closure_roundtrip** for everything `_smiles` returns: if the traversal is well formed (`cyclesWF`: no cycle twice
    on one atom, every cycle on at most two atoms — evaluated by the driver on every case), then the ring-closure bonds
    that the SMILES connection semantics `readToks` forms from the written tokens are exactly — same atoms, same order —
    the bonds obtained by joining the two ends of each DFS cycle, and no closure stays open.  Number reuse (after the
    delayed release, within a component and across components) never makes a reader pair the wrong atoms. -/
theorem writer_closure_roundtrip (m : Mol) (env : Env) (opts : Opts) (rs : List Round) (order : List Nat)
    (h : smilesRounds m env opts = .ok (rs, order))
    (hwf : cyclesWF [] [] (rs.flatMap roundCycles) = true)
    (es : List REdge) (hread : readToks (joinRounds rs) = .ok es) :
    closureEdges es = (pairAll [] (rs.flatMap cycleEvents)).2 ∧ (pairAll [] (rs.flatMap cycleEvents)).1 = [] :=
  writer_closures m env opts rs order h hwf es hread

/-- FULL statement of "the written tokens denote the molecule": for every run of the writer the connection semantics
    of the token list gives exactly the bonds of the molecule, each once, with the symbol `_format_bond` assigns.
    Not proved in full (the DFS itself is certified per run by `roundOk`/`cyclesWF`, see design/C02.md); the driver
    evaluates `tokensDenoteMol` on every case of the correspondence. -/
def ReadWriteBondsFull : Prop :=
  ∀ (m : Mol) (env : Env) (opts : Opts) (rs : List Round) (order : List Nat),
    m.WF = true → smilesRounds m env opts = .ok (rs, order) → tokensDenoteMol m opts rs (joinRounds rs) = true

/-- **read_write_bonds_partial**: the proved part of `ReadWriteBondsFull`.  For every run of the writer whose traversal is
    well formed, whatever `readToks` reads back splits into chain bonds = the DFS tree bonds `(parent, child)` in written
    order, and closure bonds = the two ends of each DFS cycle, nothing left open.  Missing for the full statement:
    (i) the DFS tree and cycles of `dfsRun` cover every bond of the component exactly once (`roundOk`, per run),
    (ii) `cyclesWF` of the DFS output (per run), (iii) the bond symbols, (iv) stereo marks. -/
theorem read_write_bonds_partial (m : Mol) (env : Env) (opts : Opts) (rs : List Round) (order : List Nat)
    (h : smilesRounds m env opts = .ok (rs, order))
    (hwf : cyclesWF [] [] (rs.flatMap roundCycles) = true)
    (es : List REdge) (hread : readToks (joinRounds rs) = .ok es) :
    chainOf es = (rs.flatMap fun r => r.smi.filterMap FTok.bond?) ∧
    closureEdges es = (pairAll [] (rs.flatMap cycleEvents)).2 ∧ (pairAll [] (rs.flatMap cycleEvents)).1 = [] := by
  refine ⟨?_, writer_closures m env opts rs order h hwf es hread⟩
  exact chain_roundtrip m opts rs
    (fun r hr => ((smilesRounds_spec m env opts rs order h).1 r hr).emittedRound) es hread

/-- **writer_text_is_readable**: for every run of the writer whose traversal is well formed (`cyclesWF`), writes every
    closure atom once and gives every cycle its two ends (all three evaluated by the driver on every case), the SMILES
    connection semantics `readToks` raises NO error on the text: never two bond symbols in a row, never a bond symbol
    before a parenthesis or at the end, never a `)` without `(`, never a closure digit before the first atom, never a ring
    closed on the atom that opened it, no parenthesis or closure left open. -/
theorem writer_text_is_readable (m : Mol) (env : Env) (opts : Opts) (rs : List Round) (order : List Nat)
    (h : smilesRounds m env opts = .ok (rs, order))
    (hwf : cyclesWF [] [] (rs.flatMap roundCycles) = true)
    (honce : (rs.flatMap fun r => closureAtoms r.smi r.tokens).Nodup)
    (hclosed : (pairAll [] (rs.flatMap cycleEvents)).1 = []) :
    ∃ es, readToks (joinRounds rs) = .ok es := by
  apply writer_readToks_ok m env opts rs order h hwf ?_ hclosed
  have : (rs.flatMap roundCAtoms).map (·.n) = rs.flatMap fun r => closureAtoms r.smi r.tokens := by
    rw [List.map_flatMap]
    apply flatMap_congr'
    intro r _
    simp [roundCAtoms, Function.comp_def]
  rw [this]; exact honce

/-- **read_write_bonds** without assuming that reading succeeds: under the three structural facts about the traversal,
    the text IS read, its chain bonds are the DFS tree bonds and its closure bonds the DFS cycle ends. -/
theorem read_write_bonds_of_structure (m : Mol) (env : Env) (opts : Opts) (rs : List Round) (order : List Nat)
    (h : smilesRounds m env opts = .ok (rs, order))
    (hwf : cyclesWF [] [] (rs.flatMap roundCycles) = true)
    (honce : (rs.flatMap fun r => closureAtoms r.smi r.tokens).Nodup)
    (hclosed : (pairAll [] (rs.flatMap cycleEvents)).1 = []) :
    ∃ es, readToks (joinRounds rs) = .ok es ∧
      chainOf es = (rs.flatMap fun r => r.smi.filterMap FTok.bond?) ∧
      closureEdges es = (pairAll [] (rs.flatMap cycleEvents)).2 := by
  obtain ⟨es, hes⟩ := writer_text_is_readable m env opts rs order h hwf honce hclosed
  obtain ⟨h1, h2, _⟩ := read_write_bonds_partial m env opts rs order h hwf es hes
  exact ⟨es, hes, h1, h2⟩

/-- a non-trivial instance of the hypotheses of `read_write_bonds_partial` / `writer_closure_roundtrip`:
    bicyclo[1.1.0]butane `C12CC1C2` (two closures, one of them opened on an atom that already carries one) -/
def bicycloButane : Mol :=
  ⟨[(1, { z := 6, implH := some 1 }), (2, { z := 6, implH := some 2 }), (3, { z := 6, implH := some 1 }), (4, { z := 6, implH := some 2 })],
   [(1, [(2, { order := 1 }), (3, { order := 1 }), (4, { order := 1 })]), (2, [(1, { order := 1 }), (3, { order := 1 })]),
    (3, [(2, { order := 1 }), (1, { order := 1 }), (4, { order := 1 })]), (4, [(3, { order := 1 }), (1, { order := 1 })])]⟩
def bicycloEnv : Env :=
  { weights := [(1, 1), (2, 2), (3, 1), (4, 2)], setOrders := [[1, 2, 3, 4]],
    front := [((1, 2), [3, 4]), ((1, 3), [2, 4]), ((1, 4), [2, 3]), ((3, 2), [1, 4]), ((3, 1), [2, 4]), ((3, 4), [2, 1])],
    draws := [] }
def bicycloDemo : Bool :=
  match smilesRounds bicycloButane bicycloEnv {} with
  | .ok (rs, _) =>
    cyclesWF [] [] (rs.flatMap roundCycles) &&
    (match readToks (joinRounds rs) with
     | .ok es => (closureEdges es).length == 2 && (chainOf es).length == 3 && tokensDenoteMol bicycloButane {} rs (joinRounds rs) &&
         decide (rs.flatMap fun r => closureAtoms r.smi r.tokens).Nodup && (pairAll [] (rs.flatMap cycleEvents)).1.isEmpty
     | .error _ => false)
  | .error _ => false
example : bicycloDemo = true := by decide +kernel

/-- FULL statement of the lexical round trip for the writer (no hypothesis on the molecule).  It is FALSE for the model
    as it mirrors the code: an aromatic-bonded halogen without any bracket reason is written `f`/`cl`/`br`/`i`, which
    no tokenizer splits back (witness in `Findings/C02.lean`; such atoms are valence-invalid, see design/C02.md). -/
def WriterTokenRoundtripFull : Prop :=
  ∀ (m : Mol) (env : Env) (opts : Opts) (rs : List Round) (order : List Nat),
    smilesRounds m env opts = .ok (rs, order) →
    lex (renderAll (joinRounds rs)) = some ((joinRounds rs).filterMap toL)

/-- **token_roundtrip** for everything `_smiles` returns, `_partial`: excluded class = molecules with an aromatic-bonded
    F/Cl/Br/I written in lower case (`NoAromaticHalogen`).  For every other molecule, every style, every weight function,
    every set-iteration order and every random draw sequence, the text lexes back to exactly the emitted tokens. -/
theorem writer_token_roundtrip_partial (m : Mol) (env : Env) (opts : Opts) (rs : List Round) (order : List Nat)
    (hAr : NoAromaticHalogen m opts) (h : smilesRounds m env opts = .ok (rs, order)) :
    lex (renderAll (joinRounds rs)) = some ((joinRounds rs).filterMap toL) :=
  token_roundtrip _ (writer_tokens_ok m env opts rs order hAr h)

/-- the hypothesis is satisfiable by a non-trivial molecule: toluene-like `Cc(c)c` fragment (aromatic carbons, no halogen) -/
example : NoAromaticHalogen ⟨[(1, { z := 6 }), (2, { z := 6 }), (3, { z := 6 })],
    [(1, [(2, { order := 1 })]), (2, [(1, { order := 1 }), (3, { order := 4 })]), (3, [(2, { order := 4 })])]⟩ {} := by
  intro n atom hat _ _ hz
  simp only [Mol.atom?, List.lookup] at hat
  split at hat
  · cases hat; simp at hz
  · split at hat
    · cases hat; simp at hz
    · split at hat
      · cases hat; simp at hz
      · simp at hat

/-! ## 8. the DFS covers every atom and every bond exactly once — for ALL well-formed molecules

Hypotheses, all decidable: `m.WF = true` (`Mol.WF`: atom ids unique, adjacency keyed by exactly the atoms, neighbour lists
duplicate-free, no self loops, symmetric with the same bond on both sides).  Everything else — neighbour orderings
(`env.front`, `env.setOrders`), weights, random draws, options — is universally quantified; the theorems are about the
results of the very functions the driver runs (`dfsRun`, `flatten`, `smilesRounds`, `joinRounds`, `readToks`).
The closure-number heap (≤ 99 simultaneously open closures, otherwise exactly `IndexError`) is `heap_exhaustion_exact`;
here it only shows as the hypothesis that the write succeeded. -/

/-- **dfs_covers_component**: run the writer's DFS stack machine (`dfsRun`, the definition the driver executes) from the
    initial state `traverse` builds — start atom `start`, its neighbours in ANY order `ch`, depth limit `S.length` where
    `S` (`atoms_set`) is any neighbour-closed set of at most `|atoms|` ids containing `start`.  If it returns `r` (any fuel) then
    * the visited atoms are duplicate-free, contain `start`, and are closed under neighbours (the whole component;
      the depth limit of the source is never the reason to stop);
    * flattening (`flatten`, fuel `|atoms| + 1`) lists exactly the visited atoms, in discovery order, each once, and its
      bond tokens are exactly the DFS tree bonds, each once — the fuel of `flat` never truncates;
    * every bond `a–b` of a visited atom is recorded, and recorded exactly once: as the tree bond `(a,b)` or `(b,a)` or as
      ONE closure record pair `(a,b,k)`/`(b,a,k)` — never two of these, no tree bond twice (also not reversed), one cycle
      id per bond, every cycle id on exactly two records, which sit on the two different end atoms. -/
theorem dfs_covers_component (m : Mol) (env : Env) (opts : Opts) (groups : List (Int × Int)) (seen : List (Nat × Int))
    (S : List Nat) (start c0 fuel : Nat) (ch : List Nat) (dr : List (Nat × Nat)) (r : Dfs)
    (hwf : m.WF = true) (hS : ∀ a ∈ S, ∀ b ∈ nk m a, b ∈ S) (hSN : S.length ≤ m.atoms.length) (hstart : start ∈ S)
    (hch : (nk m start).Perm ch)
    (h : dfsRun m env opts groups seen fuel
      { stack := [{ parent := start, depth := S.length, children := ch }], visited := [(start, [])],
        cycle := c0, draws := dr } = .ok r) :
    ((vis r).Nodup ∧ start ∈ vis r ∧ ∀ a ∈ vis r, ∀ b ∈ nk m a, b ∈ vis r) ∧
    (fatoms (flatten r.edges (m.atoms.length + 1) start) = vis r ∧
      (fbonds (flatten r.edges (m.atoms.length + 1) start)).Perm (treeP r.edges)) ∧
    (∀ a ∈ vis r, ∀ b, b ∈ nk m a ↔
        ((a, b) ∈ treeP r.edges ∨ (b, a) ∈ treeP r.edges ∨ ∃ k, (a, b, k) ∈ cycT r.tokens)) ∧
    (((treeP r.edges).map fun p => undirected p.1 p.2).Nodup ∧
      (∀ p ∈ treeP r.edges, ∀ t ∈ cycT r.tokens, undirected p.1 p.2 ≠ undirected t.1 t.2.1) ∧
      (cycT r.tokens).Nodup ∧
      (∀ a b k k', (a, b, k) ∈ cycT r.tokens → (a, b, k') ∈ cycT r.tokens → k = k') ∧
      (∀ a b k, (a, b, k) ∈ cycT r.tokens → (b, a, k) ∈ cycT r.tokens ∧ a ≠ b) ∧
      (∀ k, ((cycT r.tokens).map (·.2.2)).count k = 0 ∨ ((cycT r.tokens).map (·.2.2)).count k = 2)) := by
  have hd := dfsRun_result hwf hS hSN hstart hch h
  have G := hd.gfacts hwf
  have hsym : ∀ a b, b ∈ nk m a → a ∈ nk m b := fun a b hb => ((wf_nbrs hwf a).2 b hb).2.2
  exact ⟨⟨G.vNodup, hd.inv.startVis, hd.closed⟩, ⟨hd.atoms, hd.bonds⟩, fun a ha b => G.mem_bond_iff hsym a b ha,
    G.tree_undirected_nodup, G.tree_closure_disjoint, G.cNodup, G.cPair,
    fun a b k hk => ⟨(G.cMem a b k hk).1, (G.cMem a b k hk).2.1⟩, G.ids_count⟩

/-- **dfs_fuel_independent**: the result of `dfsRun` does not depend on the fuel once it is reached, and on a well-formed
    molecule neither the DFS nor the BFS of `traverse` can run out of the fuel `traverse` gives them
    (`2·(Σ degrees + |atoms|) + 2` steps, `|atoms| + 1` pops): the fuel is a termination device, not an assumption. -/
theorem dfs_fuel_independent (m : Mol) (env : Env) (opts : Opts) (groups : List (Int × Int)) (seen : List (Nat × Int)) :
    (∀ fuel k s r, dfsRun m env opts groups seen fuel s = .ok r → dfsRun m env opts groups seen (fuel + k) s = .ok r) ∧
    (m.WF = true → ∀ fuel s, dfsPotential m s ≤ fuel → dfsRun m env opts groups seen fuel s ≠ .error .fuel) ∧
    (m.WF = true → ∀ g, traverse m env opts groups g ≠ .error .fuel) :=
  ⟨fun fuel k s r h => dfsRun_fuel_mono m env opts groups seen fuel k s r h, fun hwf fuel s hp => dfsRun_no_fuel_error hwf fuel s hp,
   fun hwf g => traverse_no_fuel_error hwf g⟩

/-- **writer_never_out_of_fuel**: on a well-formed molecule the writer model never returns its `fuel` error, whatever the
    style, weights, set orders and draws: the DFS step bound, the BFS pop bound, the cis/trans repair loop (`ctFlipLoop`,
    potential `|todo| + Σ_{k not done} (2·deg k + 1)`) and the round loop (every round writes at least its start atom) are
    all sufficient, and `flat`'s depth bound never truncates (`dfs_covers_component`).  So every result of the model is
    either a text or one of Python's own exceptions — the fuel is a termination device of the Lean definitions only. -/
theorem writer_never_out_of_fuel (m : Mol) (env : Env) (opts : Opts) (hwf : m.WF = true) :
    smilesRounds m env opts ≠ .error .fuel ∧ write m env opts ≠ .error .fuel := by
  refine ⟨smilesRounds_no_fuel_error hwf, fun h => ?_⟩
  unfold write at h
  simp only [bind, Except.bind, pure, Except.pure] at h
  split at h
  · rename_i e he
    cases h
    exact smilesRounds_no_fuel_error hwf he
  · cases h

/-- **writer_traversal_exact** (all components): for every well-formed molecule and every successful run of `smilesRounds`,
    each round is one DFS run on the atoms not yet written (`RoundsDfs`), `smiles_atoms_order` is the concatenation of the
    rounds' discovery orders and a permutation of the atoms (every atom once, in exactly one component), and over all
    rounds every bond of the molecule is recorded exactly once, as a tree bond or as one closure record pair. -/
theorem writer_traversal_exact (m : Mol) (env : Env) (opts : Opts) (rs : List Round) (order : List Nat)
    (hwf : m.WF = true) (h : smilesRounds m env opts = .ok (rs, order)) :
    RoundsDfs m m.ids 0 rs ∧ order = rs.flatMap (·.visited) ∧ order.Perm m.ids ∧
    GFacts m order (rs.flatMap fun r => treeP r.edges) (rs.flatMap fun r => cycT r.tokens) ∧
    (∀ a b, a ∈ m.ids → (b ∈ nk m a ↔ ((a, b) ∈ (rs.flatMap fun r => treeP r.edges) ∨
        (b, a) ∈ (rs.flatMap fun r => treeP r.edges) ∨ ∃ k, (a, b, k) ∈ (rs.flatMap fun r => cycT r.tokens)))) := by
  obtain ⟨hD, hord⟩ := smilesRounds_dfs hwf h
  obtain ⟨G, M, _, _⟩ := roundsDfs_gfacts hwf rs m.ids 0 hD
  have hsym : ∀ a b, b ∈ nk m a → a ∈ nk m b := fun a b hb => ((wf_nbrs hwf a).2 b hb).2.2
  refine ⟨hD, hord, (writer_constitution m env opts rs order hwf h).1, hord ▸ G, ?_⟩
  intro a b ha
  exact G.mem_bond_iff hsym a b ((M a).2 ha)

/-- **writer_structure_holds**: the three structural facts that `writer_text_is_readable` / `read_write_bonds_of_structure`
    assume (and the driver used to certify run by run) hold for EVERY successful run on a well-formed molecule. -/
theorem writer_structure_holds (m : Mol) (env : Env) (opts : Opts) (rs : List Round) (order : List Nat)
    (hwf : m.WF = true) (h : smilesRounds m env opts = .ok (rs, order)) :
    cyclesWF [] [] (rs.flatMap roundCycles) = true ∧
    (rs.flatMap fun r => closureAtoms r.smi r.tokens).Nodup ∧
    (pairAll [] (rs.flatMap cycleEvents)).1 = [] := by
  obtain ⟨hD, _⟩ := smilesRounds_dfs hwf h
  obtain ⟨hs, _⟩ := smilesRounds_spec m env opts rs order h
  obtain ⟨G, _, _, _⟩ := roundsDfs_gfacts hwf rs m.ids 0 hD
  obtain ⟨h1, h2, h3⟩ := roundsDfs_structure (opts := opts) hwf rs m.ids 0 hD hs
  exact ⟨h1, h2, closure_all_closed G _ h3⟩

/-- FULL statement of the constitution round trip including bond symbols: the symbols read at each bond are the ones
    `_format_bond` assigns (`tokensDenoteMol`).  The atoms/bonds part is `read_write_constitution` below; the symbol part
    (and stereo marks) stays on the per-run judge. -/
def ReadWriteConstitutionFull : Prop := ReadWriteBondsFull

/-- **read_write_constitution** (`_partial` of `ReadWriteBondsFull`: everything except bond symbols and stereo marks;
    no per-run hypothesis): for EVERY well-formed molecule (any number of components), every style, weights, set
    orders, draws — whenever the writer returns tokens, the SMILES connection semantics `readToks` reads them without
    error, the atom tokens are exactly the atoms of the molecule, each once, in `smiles_atoms_order`, and the bonds
    read back are exactly the bonds of the molecule: no bond twice (as an unordered pair), none missing, none invented. -/
theorem read_write_constitution (m : Mol) (env : Env) (opts : Opts) (rs : List Round) (order : List Nat)
    (hwf : m.WF = true) (h : smilesRounds m env opts = .ok (rs, order)) :
    order.Perm m.ids ∧ wAtoms (joinRounds rs) = order ∧
    ∃ es, readToks (joinRounds rs) = .ok es ∧
      (es.map fun e => undirected e.a e.b).Nodup ∧
      ∀ a b, (∃ e ∈ es, undirected e.a e.b = undirected a b) ↔ b ∈ nk m a :=
  writer_constitution m env opts rs order hwf h

/-- **chain_bond_symbols** (first half of the symbol part of `ReadWriteBondsFull`; no per-run hypothesis): for every
    well-formed molecule and every successful write, each CHAIN bond read back from the tokens joins an atom to its DFS
    parent, carries no symbol at a first end, and the symbol read in front of the atom is exactly what `_format_bond(parent,
    atom)` returned in the round that wrote it.  (The symbols at the two ends of ring closures stay on the per-run checker
    `edgeSymbolOk`.) -/
theorem chain_bond_symbols (m : Mol) (env : Env) (opts : Opts) (rs : List Round) (order : List Nat)
    (hwf : m.WF = true) (h : smilesRounds m env opts = .ok (rs, order))
    (es : List REdge) (hes : readToks (joinRounds rs) = .ok es) :
    ∀ e ∈ es, e.closure = false →
      ∃ r ∈ rs, ∃ s, (e.a, e.b) ∈ fbonds r.smi ∧ formatBond m opts r.sc e.a e.b = .ok s ∧ e.s2 = some s ∧ e.s1 = none :=
  chain_symbols_parent m env opts rs order hwf h es hes

/-- **chain_bond_orders**: for every well-formed molecule written with bond symbols (not `!b`), the symbol read back in front
    of a chain atom decodes (`decodeOrder`: empty = single, or aromatic when both atoms are written aromatic; `-` `/` `\` = 1,
    `=` = 2, `#` = 3, `:` = 4, `~` = none of these) to the order of the bond between that atom and its DFS parent in the
    molecule: chain bonds keep their order through write + read (orders outside 1–4 are only known to be outside 1–4). -/
theorem chain_bond_orders (m : Mol) (env : Env) (opts : Opts) (rs : List Round) (order : List Nat)
    (hwf : m.WF = true) (hb : opts.bonds = true) (h : smilesRounds m env opts = .ok (rs, order))
    (es : List REdge) (hes : readToks (joinRounds rs) = .ok es) :
    ∀ e ∈ es, e.closure = false → ∃ bd s, m.bond? e.a e.b = some bd ∧ e.s2 = some s ∧
      (match decodeOrder s (opts.aromatic && hybridization m e.a == 4 && hybridization m e.b == 4) with
       | some o => bd.order = o
       | none => bd.order ∉ [1, 2, 3, 4]) := by
  intro e he hc
  obtain ⟨r, _, s, _, hf, hs2, _⟩ := chain_symbols_parent m env opts rs order hwf h es hes e he hc
  obtain ⟨bd, hbd, hdec⟩ := formatBond_decodes hwf hb hf
  exact ⟨bd, s, hbd, hs2, hdec⟩

/-- **closure_bond_symbols** (second half of the symbol part of `ReadWriteBondsFull`; no per-run hypothesis): every RING-CLOSURE
    bond read back from the tokens of a well-formed molecule carries at its opening digit exactly `_format_bond(a, b)` and
    at its closing digit exactly `_format_bond(b, a)` — or nothing there with `asymmetric_closures` (`visited_bond`
    bookkeeping) — where `a`, `b` are the atoms the reader joins (the two ends of one DFS cycle). -/
theorem closure_bond_symbols (m : Mol) (env : Env) (opts : Opts) (rs : List Round) (order : List Nat)
    (hwf : m.WF = true) (h : smilesRounds m env opts = .ok (rs, order))
    (es : List REdge) (hes : readToks (joinRounds rs) = .ok es) :
    ∀ e ∈ es, e.closure = true →
      ∃ r ∈ rs, ∃ s1, formatBond m opts r.sc e.a e.b = .ok s1 ∧ e.s1 = some s1 ∧
        ((opts.asym = false ∧ ∃ s2, formatBond m opts r.sc e.b e.a = .ok s2 ∧ e.s2 = some s2) ∨
         (opts.asym = true ∧ e.s2 = none)) :=
  closure_symbols m env opts rs order hwf h es hes

/-- **closure_bond_orders**: with bond symbols shown, the symbol read at the opening digit of every ring closure decodes to the
    order of that bond in the molecule — together with `chain_bond_orders` and `read_write_constitution`: every bond of the
    molecule comes back exactly once and with its order (orders outside 1–4 as "outside 1–4"). -/
theorem closure_bond_orders (m : Mol) (env : Env) (opts : Opts) (rs : List Round) (order : List Nat)
    (hwf : m.WF = true) (hb : opts.bonds = true) (h : smilesRounds m env opts = .ok (rs, order))
    (es : List REdge) (hes : readToks (joinRounds rs) = .ok es) :
    ∀ e ∈ es, e.closure = true → ∃ bd s, m.bond? e.a e.b = some bd ∧ e.s1 = some s ∧
      (match decodeOrder s (opts.aromatic && hybridization m e.a == 4 && hybridization m e.b == 4) with
       | some o => bd.order = o
       | none => bd.order ∉ [1, 2, 3, 4]) := by
  intro e he hc
  obtain ⟨r, _, s1, hf, hs1, _⟩ := closure_symbols m env opts rs order hwf h es hes e he hc
  obtain ⟨bd, hbd, hdec⟩ := formatBond_decodes hwf hb hf
  exact ⟨bd, s1, hbd, hs1, hdec⟩

/-- **text_reads_back_constitution** (the property's own formulation, constitution part: "reading the text back gives a
    molecule isomorphic to the original under the written atom order"): for every well-formed molecule without an
    aromatic-bonded halogen (the lexical finding `clc`), every style, weights, orders, draws — the written body lexes
    (`lex`), the positional reader `readL` (atoms numbered in order of appearance, as any SMILES reader does; executed by the
    driver against the real `smiles(text)` on every case, op `L`) accepts it, counts exactly `|atoms|` atoms, and its bonds,
    with position `i` standing for `smiles_atoms_order[i]`, are exactly the bonds of the molecule, each once. -/
theorem text_reads_back_constitution (m : Mol) (env : Env) (opts : Opts) (rs : List Round) (order : List Nat)
    (hwf : m.WF = true) (hAr : NoAromaticHalogen m opts) (h : smilesRounds m env opts = .ok (rs, order)) :
    order.Perm m.ids ∧
    ∃ lt pes, lex (renderAll (joinRounds rs)) = some lt ∧ readL lt = .ok (m.atoms.length, pes) ∧
      (∀ p ∈ pes, p.1 < order.length ∧ p.2 < order.length) ∧
      (pes.map fun p => undirected (atPos order p.1) (atPos order p.2)).Nodup ∧
      ∀ a b, (∃ p ∈ pes, undirected (atPos order p.1) (atPos order p.2) = undirected a b) ↔ b ∈ nk m a := by
  obtain ⟨hperm, hat, es, hes, hnd, hmem⟩ := writer_constitution m env opts rs order hwf h
  have hlex := writer_token_roundtrip_partial m env opts rs order hAr h
  obtain ⟨pes, hrl, hmap, hlt⟩ := readL_of_readToks _ es hes
  rw [hat] at hrl hmap hlt
  have hlen : order.length = m.atoms.length := by
    rw [hperm.length_eq]; simp [Mol.ids]
  have hund : (pes.map fun p => undirected (atPos order p.1) (atPos order p.2)) = es.map fun e => undirected e.a e.b := by
    have := congrArg (List.map fun (q : Nat × Nat) => undirected q.1 q.2) hmap
    simpa [List.map_map, Function.comp_def] using this
  refine ⟨hperm, _, pes, hlex, hlen ▸ hrl, hlt, hund ▸ hnd, fun a b => ?_⟩
  rw [← hmem a b]
  constructor
  · rintro ⟨p, hp, hpe⟩
    have : undirected (atPos order p.1) (atPos order p.2) ∈ es.map fun e => undirected e.a e.b :=
      hund ▸ List.mem_map.2 ⟨p, hp, rfl⟩
    obtain ⟨e, he, hee⟩ := List.mem_map.1 this
    exact ⟨e, he, hee.trans hpe⟩
  · rintro ⟨e, he, hee⟩
    have : undirected e.a e.b ∈ pes.map fun p => undirected (atPos order p.1) (atPos order p.2) :=
      hund ▸ List.mem_map.2 ⟨e, he, rfl⟩
    obtain ⟨p, hp, hpe⟩ := List.mem_map.1 this
    exact ⟨p, hp, hpe.trans hee⟩

/-- the same with both hypotheses as Boolean tests on the molecule (`Mol.WF`, `noAromaticHalogenB`): everything the theorem
    assumes can be evaluated on a given input -/
theorem text_reads_back_constitution_decidable (m : Mol) (env : Env) (opts : Opts) (rs : List Round) (order : List Nat)
    (hyp : (m.WF && noAromaticHalogenB m opts) = true) (h : smilesRounds m env opts = .ok (rs, order)) :
    order.Perm m.ids ∧
    ∃ lt pes, lex (renderAll (joinRounds rs)) = some lt ∧ readL lt = .ok (m.atoms.length, pes) ∧
      (∀ p ∈ pes, p.1 < order.length ∧ p.2 < order.length) ∧
      (pes.map fun p => undirected (atPos order p.1) (atPos order p.2)).Nodup ∧
      ∀ a b, (∃ p ∈ pes, undirected (atPos order p.1) (atPos order p.2) = undirected a b) ↔ b ∈ nk m a := by
  simp only [Bool.and_eq_true] at hyp
  exact text_reads_back_constitution m env opts rs order hyp.1 (noAromaticHalogen_of_B hyp.2) h

/-- **constitution_injective** (collision clause without any per-run hypothesis): if two well-formed molecules — written
    with any styles, orderings, weights — receive the same token list, they have the same atoms and the same bonds.
    Contrapositive: molecules that differ in an atom id or in the presence of a bond never get the same tokens. -/
theorem constitution_injective (m₁ m₂ : Mol) (env₁ env₂ : Env) (o₁ o₂ : Opts) (rs₁ rs₂ : List Round) (ord₁ ord₂ : List Nat)
    (w₁ : m₁.WF = true) (w₂ : m₂.WF = true)
    (h₁ : smilesRounds m₁ env₁ o₁ = .ok (rs₁, ord₁)) (h₂ : smilesRounds m₂ env₂ o₂ = .ok (rs₂, ord₂))
    (heq : joinRounds rs₁ = joinRounds rs₂) :
    m₁.ids.Perm m₂.ids ∧ ord₁ = ord₂ ∧ ∀ a b, b ∈ nk m₁ a ↔ b ∈ nk m₂ a := by
  obtain ⟨p1, a1, es1, r1, _, b1⟩ := writer_constitution m₁ env₁ o₁ rs₁ ord₁ w₁ h₁
  obtain ⟨p2, a2, es2, r2, _, b2⟩ := writer_constitution m₂ env₂ o₂ rs₂ ord₂ w₂ h₂
  have ho : ord₁ = ord₂ := by rw [← a1, ← a2, heq]
  rw [heq, r2] at r1
  cases r1
  refine ⟨(p1.symm.trans (ho ▸ List.Perm.refl _)).trans p2, ho, fun a b => (b1 a b).symm.trans (b2 a b)⟩

/-- **tokens_determine_atoms** (collision clause for the atom attributes, no per-run hypothesis): if two well-formed
    molecules written in the same style (charges shown, i.e. not `!z`) receive the same token list, then every atom of the
    first is an atom of the second with the same element, the same isotope label and the same charge — the element symbols
    (also when written in lower case) and the charge strings of the regenerated tables are pairwise different
    (`symbols_distinguish`, `charges_distinguish`, re-checked by the kernel whenever the tables change). -/
theorem tokens_determine_atoms (m₁ m₂ : Mol) (env₁ env₂ : Env) (opts : Opts) (rs₁ rs₂ : List Round) (ord₁ ord₂ : List Nat)
    (hc : opts.charges = true) (w₁ : m₁.WF = true)
    (h₁ : smilesRounds m₁ env₁ opts = .ok (rs₁, ord₁)) (h₂ : smilesRounds m₂ env₂ opts = .ok (rs₂, ord₂))
    (heq : joinRounds rs₁ = joinRounds rs₂) :
    ∀ n ∈ m₁.ids, ∃ x y, m₁.atom? n = some x ∧ m₂.atom? n = some y ∧ x.z = y.z ∧ isoSlot x = isoSlot y ∧ x.charge = y.charge := by
  intro n hn
  obtain ⟨p1, a1, _⟩ := writer_constitution m₁ env₁ opts rs₁ ord₁ w₁ h₁
  have hn' : n ∈ wAtoms (joinRounds rs₁) := by rw [a1]; exact p1.mem_iff.2 hn
  obtain ⟨a, ha⟩ := mem_wAtoms _ n hn'
  have fmt : ∀ (m : Mol) (env : Env) (rs : List Round) (ord : List Nat), smilesRounds m env opts = .ok (rs, ord) →
      WTok.atom n a ∈ joinRounds rs → ∃ sc, formatAtom m opts sc n = .ok a := by
    intro m env rs ord h hmem
    rcases mem_joinRounds rs _ hmem with hd | ⟨r, hr, hro⟩
    · cases hd
    · obtain ⟨order, vb', he⟩ := ((smilesRounds_spec m env opts rs ord h).1 r hr).emitted
      exact ⟨r.sc, emit_atom_formatted m opts r.sc r.castedOut r.tokens r.smi r.vbIn r.out order vb' he n a hro⟩
  obtain ⟨sc1, f1⟩ := fmt m₁ env₁ rs₁ ord₁ h₁ ha
  obtain ⟨sc2, f2⟩ := fmt m₂ env₂ rs₂ ord₂ h₂ (heq ▸ ha)
  exact atom_token_determines hc f1 f2

/-- **tokens_determine_hcount**: with equal token lists, an atom written in brackets has the same hydrogen count in both
    molecules (the count of an unbracketed organic-subset atom is implied by the valence rules of the reader, C03/C04). -/
theorem tokens_determine_hcount (m₁ m₂ : Mol) (env₁ env₂ : Env) (opts : Opts) (rs₁ rs₂ : List Round) (ord₁ ord₂ : List Nat)
    (h₁ : smilesRounds m₁ env₁ opts = .ok (rs₁, ord₁)) (h₂ : smilesRounds m₂ env₂ opts = .ok (rs₂, ord₂))
    (heq : joinRounds rs₁ = joinRounds rs₂) :
    ∀ n a, WTok.atom n a ∈ joinRounds rs₁ → a.bracket = true →
      ∃ x y, m₁.atom? n = some x ∧ m₂.atom? n = some y ∧ x.implH.getD 0 = y.implH.getD 0 := by
  intro n a ha hb
  have fmt : ∀ (m : Mol) (env : Env) (rs : List Round) (ord : List Nat), smilesRounds m env opts = .ok (rs, ord) →
      WTok.atom n a ∈ joinRounds rs → ∃ sc, formatAtom m opts sc n = .ok a := by
    intro m env rs ord h hmem
    rcases mem_joinRounds rs _ hmem with hd | ⟨r, hr, hro⟩
    · cases hd
    · obtain ⟨order, vb', he⟩ := ((smilesRounds_spec m env opts rs ord h).1 r hr).emitted
      exact ⟨r.sc, emit_atom_formatted m opts r.sc r.castedOut r.tokens r.smi r.vbIn r.out order vb' he n a hro⟩
  obtain ⟨sc1, f1⟩ := fmt m₁ env₁ rs₁ ord₁ h₁ ha
  obtain ⟨sc2, f2⟩ := fmt m₂ env₂ rs₂ ord₂ h₂ (heq ▸ ha)
  exact atom_token_hcount f1 f2 hb

/-- the hypotheses are satisfiable by non-trivial molecules: bicyclo[1.1.0]butane (two ring closures on one atom) and a
    two-component molecule (ring + chain: cyclopropane and ethane, ids interleaved) are well formed and are written -/
def twoComp : Mol :=
  ⟨[(1, { z := 6, implH := some 2 }), (2, { z := 6, implH := some 3 }), (3, { z := 6, implH := some 2 }),
    (4, { z := 6, implH := some 3 }), (5, { z := 6, implH := some 2 })],
   [(1, [(3, { order := 1 }), (5, { order := 1 })]), (2, [(4, { order := 1 })]),
    (3, [(1, { order := 1 }), (5, { order := 1 })]), (4, [(2, { order := 1 })]),
    (5, [(1, { order := 1 }), (3, { order := 1 })])]⟩
def twoCompEnv : Env :=
  { weights := [(1, 2), (2, 1), (3, 2), (4, 1), (5, 2)], setOrders := [[1, 2, 3, 4, 5], [2, 4]],
    front := [], draws := [] }
example : bicycloButane.WF = true ∧ twoComp.WF = true ∧
    (match smilesRounds bicycloButane bicycloEnv {} with | .ok (rs, _) => rs.length == 1 | .error _ => false) = true ∧
    (match smilesRounds twoComp twoCompEnv {} with
     | .ok (rs, order) => rs.length == 2 && order.length == 5 &&
         (match readToks (joinRounds rs) with | .ok es => es.length == 4 | .error _ => false) &&
         (match lex (renderAll (joinRounds rs)) with
          | some lt => (match readL lt with | .ok (n, pes) => n == 5 && pes == [(0, 1), (1, 2), (0, 2), (3, 4)] | .error _ => false)
          | none => false)
     | .error _ => false) = true := by
  decide +kernel


/-- the hypotheses of `dfs_covers_component` are satisfiable by a non-trivial instance: bicyclo[1.1.0]butane, `atoms_set` = all
    atoms, start 1, its neighbours in stored order; the run visits 4 atoms and finds 2 cycles -/
example :
    let m := bicycloButane
    let S := m.ids
    (∀ a ∈ S, ∀ b ∈ nk m a, b ∈ S) ∧ S.length ≤ m.atoms.length ∧ 1 ∈ S ∧
    (match dfsRun m bicycloEnv {} [] [(1, 0), (2, 1), (3, 1), (4, 1)] 50
        { stack := [{ parent := 1, depth := S.length, children := nk m 1 }], visited := [(1, [])], cycle := 0, draws := [] } with
     | .ok r => r.visited.length == 4 && r.cycle == 2 && r.stack.isEmpty
     | .error _ => false) = true := by
  decide +kernel

/-- the Boolean hypotheses of `text_reads_back_constitution_decidable` on two concrete molecules -/
example : (bicycloButane.WF && noAromaticHalogenB bicycloButane ({} : Opts)) = true ∧
    (twoComp.WF && noAromaticHalogenB twoComp ({} : Opts)) = true := by
  decide +kernel

/-- `NoAromaticHalogen` (hypothesis of `text_reads_back_constitution`) holds for the two-component example: no atom is aromatic -/
example : NoAromaticHalogen twoComp {} := by
  intro n atom _ _ hh
  exfalso
  have : ∀ k, k ∈ [1, 2, 3, 4, 5] → hybridization twoComp k ≠ 4 := by decide
  by_cases hk : n ∈ [1, 2, 3, 4, 5]
  · exact this n hk hh
  · have : twoComp.nbrs n = [] := by
      simp only [List.mem_cons, List.not_mem_nil, or_false, not_or] at hk
      obtain ⟨h1, h2, h3, h4, h5⟩ := hk
      have b1 : (n == 1) = false := by simpa using h1
      have b2 : (n == 2) = false := by simpa using h2
      have b3 : (n == 3) = false := by simpa using h3
      have b4 : (n == 4) = false := by simpa using h4
      have b5 : (n == 5) = false := by simpa using h5
      simp [Mol.nbrs, twoComp, List.lookup, b1, b2, b3, b4, b5]
    simp [hybridization, this] at hh


/-! ## 6. injectivity from losslessness -/

/-- **injective_of_lossless**: for ANY writer, reader and equivalence `iso`: if reading what was written gives back an
    equivalent object for the two objects in question, then equal texts imply equivalent objects — "canonical strings
    never collide" is a corollary of "write then read is lossless". -/
theorem injective_of_lossless {G S : Type} (write : G → S) (read : S → Option G) (iso : G → G → Prop)
    (symm : ∀ a b, iso a b → iso b a) (trans : ∀ a b c, iso a b → iso b c → iso a c)
    (g₁ g₂ : G) (l₁ : ∃ r, read (write g₁) = some r ∧ iso r g₁) (l₂ : ∃ r, read (write g₂) = some r ∧ iso r g₂)
    (heq : write g₁ = write g₂) : iso g₁ g₂ := by
  obtain ⟨r₁, hr₁, i₁⟩ := l₁
  obtain ⟨r₂, hr₂, i₂⟩ := l₂
  rw [heq, hr₂] at hr₁
  cases hr₁
  exact trans _ _ _ (symm _ _ i₁) i₂

/-! ## 7. regression of the fixed finding `C02/ring-diene-cis-trans` (chython 891fb3c)

`C/C1=C/C=C/CCCCCC1` and `C/C1=C\C=C\CCCCCC1` (1-methylcyclodeca-1,3-diene, 1E/1Z) differ only in the label of the bond 2=3.
In the canonical traversal that bond is the ring-closure bond and atom 3 is reached from the other double bond first:
before the fix `__ct_map` marked the substituents of atom 2 with the "left entry" default and took the mark of 3–4 from the
diene 4=5, so both molecules (same weights, same tables) were written `C/C=1/CCCCCC/C=C/C=1`.  With the check-and-turn-over
pass (`ctRepair`) the model, like the code, writes them differently. -/

def dieneInts (s23 : Int) : List Int :=
  [11, 1, 6, 0, 0, 0, 3, -1, 1, 2, 1, -1, 2, 6, 0, 0, 0, 0, -1, 3, 1, 1, -1, 3, 2, s23, 11, 1, -1,
   3, 6, 0, 0, 0, 1, -1, 2, 2, 2, s23, 4, 1, -1, 4, 6, 0, 0, 0, 1, -1, 2, 3, 1, -1, 5, 2, 0, 5, 6, 0, 0, 0, 1, -1, 2, 4, 2, 0, 6, 1, -1,
   6, 6, 0, 0, 0, 2, -1, 2, 5, 1, -1, 7, 1, -1, 7, 6, 0, 0, 0, 2, -1, 2, 6, 1, -1, 8, 1, -1, 8, 6, 0, 0, 0, 2, -1, 2, 7, 1, -1, 9, 1, -1,
   9, 6, 0, 0, 0, 2, -1, 2, 8, 1, -1, 10, 1, -1, 10, 6, 0, 0, 0, 2, -1, 2, 9, 1, -1, 11, 1, -1, 11, 6, 0, 0, 0, 2, -1, 2, 10, 1, -1, 2, 1, -1]

def dieneMol (s23 : Int) : Mol := match Mol.parse (dieneInts s23) with | some (m, _) => m | none => Mol.empty

def dieneEnv : Env :=
  { weights := [(1, 1), (2, 10), (3, 5), (4, 6), (5, 2), (6, 9), (7, 3), (8, 7), (9, 8), (10, 11), (11, 4)],
    setOrders := [[1, 2, 3, 4, 5, 6, 7, 8, 9, 10, 11]],
    front := [((2, 1), [11, 3]), ((2, 3), [11, 1]), ((2, 11), [1, 3])], draws := [], tetra := [],
    cumul := [([2, 3], { n0 := 1, n1 := 4, n2 := some 11, n3 := none }), ([4, 5], { n0 := 3, n1 := 6, n2 := none, n3 := none })] }

def textOf (m : Mol) : Option Str := match write m dieneEnv {} with | .ok (t, _) => some t | .error _ => none

/-- the two stereoisomers are written differently (canonical style), and both are written -/
example : textOf (dieneMol 0) ≠ textOf (dieneMol 1) ∧ (textOf (dieneMol 0)).isSome = true ∧ (textOf (dieneMol 1)).isSome = true := by
  decide +kernel


end ChythonModel.Props.C02
