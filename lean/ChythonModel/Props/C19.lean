import ChythonModel.Gen.HashSites
import ChythonModel.Spec.SetSites
import ChythonModel.Py.Hash
/-!
# C19 — results identical across processes, hash seeds, repeated calls, copies

What a theorem can carry here (DESIGN §6 C19): the only interpreter-seeded primitive is `hash(str|bytes)`.
The regenerated table `Gen.hashSites` lists every `hash(...)` call of the anchored files with an abstract class of its
argument; `hash_sites_seed_free` states that every site hashes ints / tuples of ints / objects whose `__hash__` is itself
a listed int-only site — except the two `__hash__ = hash(str(self))` methods of molecules and reactions, which the
property does not list among the compared outputs (and whose *equality* is string equality).  `set_order_sites_reviewed`
ties the regenerated list of order-sensitive set uses to the reviewed list.  The seed-free hash model used by the
C01/C17 models has, by construction, no seed parameter; `pyHashInt_ne_neg_one` and `pyHashInt_bounds` are CPython's
contract for it.  Everything else (process state, CPython's set iteration, caches, copies) is decided by the runtime
correspondence under varied `PYTHONHASHSEED` — labelled translation_validation.
-/
namespace ChythonModel.Props.C19
open ChythonModel.Gen ChythonModel.Spec ChythonModel.Py

/-- sites allowed to hash a string: `hash(mol)` / `hash(reaction)`, which C19 does not list -/
def strAllowed : List (String × String) :=
  [("algorithms/smiles.py", "Smiles.__hash__"), ("containers/reaction.py", "ReactionContainer.__hash__")]

def siteOk (s : String × String × String × HashArg) : Bool :=
  match s.2.2.2 with
  | .int | .inttuple | .obj => true
  | .str => strAllowed.contains (s.1, s.2.1)
  | .unknown => false

/-- Every `hash(...)` call in the anchored files has a seed-free argument type. -/
theorem hash_sites_seed_free : ∀ s ∈ hashSites, siteOk s = true := by decide +kernel

/-- no ordering decision hashes a string: the `str` sites are exactly the two `__hash__` methods -/
theorem str_sites_are_container_hash :
    (hashSites.filter (fun s => s.2.2.2 == HashArg.str)).map (fun s => (s.1, s.2.1)) = strAllowed := by
  decide +kernel

/-- objects passed to `hash` delegate to `__hash__` methods that are themselves listed int-only sites -/
theorem delegated_hashes_listed :
    (["Element.__hash__", "DynamicElement.__hash__", "DynamicBond.__hash__", "QueryBond.__hash__"]).all
      (fun q => hashSites.any (fun s => s.2.1 == q && (s.2.2.2 == HashArg.inttuple || s.2.2.2 == HashArg.int))) = true := by
  decide +kernel

/-- the regenerated list of order-sensitive set uses is exactly the reviewed list -/
theorem set_order_sites_reviewed :
    setOrderSites = reviewedSetSites.map (fun r => (r.1, r.2.1, r.2.2.1, r.2.2.2.1)) := by decide +kernel

/-! ## the seed-free hash model: CPython's contract -/

theorem pyHashInt_ne_neg_one (n : Int) : pyHashInt n ≠ -1 := by
  unfold pyHashInt
  simp only
  split <;> simp_all <;> omega

theorem pyHashInt_bounds (n : Int) : -(pyHashModulus : Int) < pyHashInt n ∧ pyHashInt n < (pyHashModulus : Int) := by
  unfold pyHashInt pyHashModulus
  have h : n.natAbs % (2 ^ 61 - 1) < 2 ^ 61 - 1 := Nat.mod_lt _ (by decide)
  simp only
  split <;> split <;> omega

/-- small ints hash to themselves (so bond orders / charges enter the Morgan tuples verbatim) -/
theorem pyHashInt_small (n : Int) (h0 : 0 ≤ n) (h1 : n < 2 ^ 61 - 1) : pyHashInt n = n := by
  unfold pyHashInt pyHashModulus
  have h2 : n.natAbs % (2 ^ 61 - 1) = n.natAbs := Nat.mod_eq_of_lt (by omega)
  simp only [h2]
  have h3 : ¬ n < 0 := by omega
  simp only [h3, if_false]
  split
  · rename_i h; simp at h
  · omega

example : pyHashTuple [1, 2, 3] = 529344067295497451 := by decide +kernel

end ChythonModel.Props.C19
