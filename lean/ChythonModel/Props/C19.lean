import ChythonModel.Gen.HashSites
import ChythonModel.Spec.SetSites
import ChythonModel.Py.Hash
import ChythonModel.Proofs.C19Binary
import ChythonModel.Proofs.C19Rename
import ChythonModel.Proofs.C19Probe
import ChythonModel.Proofs.C19Regs
/-!
# C19 — results identical across processes, hash seeds, repeated calls, copies

What a theorem can carry here (DESIGN §6 C19): the only interpreter-seeded primitive is `hash(str|bytes)`.
The regenerated table `Gen.hashSites` lists every `hash(...)` call of the anchored files with an abstract class of its
argument; `hash_sites_seed_free` states that every site hashes ints / tuples of ints / objects whose `__hash__` is itself
a listed int-only site — except the two `__hash__ = hash(str(self))` methods of molecules and reactions, which the
property does not list among the compared outputs (and whose *equality* is string equality).  `set_order_sites_reviewed`
ties the regenerated list of order-sensitive set uses to the reviewed list.  The seed-free hash model used by the
C01/C17 models has, by construction, no seed parameter; `pyHashInt_ne_neg_one` and `pyHashInt_bounds` are CPython's
contract for it.  CPython's `set` for int keys is the executable model `Py/IntSet.lean` (second half of this file:
refinement of the documented finite-set semantics, pop, determinism, dependence on hashes and history only, key kinds
of the reviewed sites), compared with real sets on every run.  Everything else (process state, caches, copies) is
decided by the runtime correspondence under varied `PYTHONHASHSEED` and over read/perturb/read histories — labelled
translation_validation.
-/
namespace ChythonModel.Props.C19
open ChythonModel.Gen ChythonModel.Spec ChythonModel.Py

/-- sites allowed to hash a string: `hash(mol)` / `hash(reaction)`, which C19 does not list -/
def strAllowed : List (String × String) :=
  [("algorithms/smiles.py", "Smiles.__hash__"), ("containers/reaction.py", "ReactionContainer.__hash__")]

def siteOk (s : String × String × String × HashArg) : Bool :=
  match s.2.2.2 with
  | .int | .inttuple | .obj => true
  | .str => strAllowed.contains (s.1, s.2.1)
  | .unknown => false

/-- Every `hash(...)` call in the anchored files has a seed-free argument type. -/
theorem hash_sites_seed_free : ∀ s ∈ hashSites, siteOk s = true := by decide +kernel

/-- no ordering decision hashes a string: the `str` sites are exactly the two `__hash__` methods -/
theorem str_sites_are_container_hash :
    (hashSites.filter (fun s => s.2.2.2 == HashArg.str)).map (fun s => (s.1, s.2.1)) = strAllowed := by
  decide +kernel

/-- objects passed to `hash` delegate to `__hash__` methods that are themselves listed int-only sites -/
theorem delegated_hashes_listed :
    (["Element.__hash__", "DynamicElement.__hash__", "DynamicBond.__hash__", "QueryBond.__hash__"]).all
      (fun q => hashSites.any (fun s => s.2.1 == q && (s.2.2.2 == HashArg.inttuple || s.2.2.2 == HashArg.int))) = true := by
  decide +kernel

/-- the regenerated list of order-sensitive set uses is exactly the reviewed list -/
theorem set_order_sites_reviewed :
    setOrderSites = reviewedSetSites.map (fun r => (r.1, r.2.1, r.2.2.1, r.2.2.2.1)) := by decide +kernel

/-! ## the seed-free hash model: CPython's contract -/

theorem pyHashInt_ne_neg_one (n : Int) : pyHashInt n ≠ -1 := by
  unfold pyHashInt
  simp only
  split <;> simp_all <;> omega

theorem pyHashInt_bounds (n : Int) : -(pyHashModulus : Int) < pyHashInt n ∧ pyHashInt n < (pyHashModulus : Int) := by
  unfold pyHashInt pyHashModulus
  have h : n.natAbs % (2 ^ 61 - 1) < 2 ^ 61 - 1 := Nat.mod_lt _ (by decide)
  simp only
  split <;> split <;> omega

/-- small ints hash to themselves (so bond orders / charges enter the Morgan tuples verbatim) -/
theorem pyHashInt_small (n : Int) (h0 : 0 ≤ n) (h1 : n < 2 ^ 61 - 1) : pyHashInt n = n := by
  unfold pyHashInt pyHashModulus
  have h2 : n.natAbs % (2 ^ 61 - 1) = n.natAbs := Nat.mod_eq_of_lt (by omega)
  simp only [h2]
  have h3 : ¬ n < 0 := by omega
  simp only [h3, if_false]
  split
  · rename_i h; simp at h
  · omega

example : pyHashTuple [1, 2, 3] = 529344067295497451 := by decide +kernel

/-! ## the CPython `set` model for int keys (`Py/IntSet.lean`, run by `Drivers/C19.lean` against real sets on every run)

`Represents s A` = the table invariant `TWF s.table` (every stored key is found by `set_lookkey` at the slot that stores
it: so at most one live slot per key, and no virgin slot before a key on its probe sequence) together with
`∀ x, Mem s.table x ↔ A x` for the abstract set `A` of `Spec/PySetSemantics.lean`.  `Counts s` = `used` / `fill` are the
numbers of stored keys / of non-virgin slots. -/

open ChythonModel.Py.IntSet ChythonModel.Spec.PySet

/-- FULL statement of the refinement: for every history the model run is defined and refines the documented semantics. -/
def SetHistoryRefines : Prop :=
  ∀ ops : List SetOp, ∃ s os, empty.runOps ops = some (s, os) ∧
    Represents s (absRun aEmpty ops os) ∧ Counts s ∧ obsLegalRun aEmpty ops os

/-- (a) Refinement, proved part: whenever the model run of a history is defined — i.e. no scan ran out of fuel or left
the table (the model's stand-in for CPython's unbounded probe loop; excluded: the proof that `fuelFor` always suffices,
which needs the full period of `i ↦ 5i+1 mod 2^k`; a `fail` answer of the driver is a disagreement of the
correspondence) — the final table satisfies the invariant, its members are exactly those the documentation prescribes,
the counters are exact, and every observation was legal (`pop` returned a member; KeyError only on the empty set).
No element is lost or duplicated by probing, free-slot reuse, resizing or the dummy purge. -/
theorem set_history_refines_partial (ops : List SetOp) (s : IntSet) (os : List Obs)
    (h : empty.runOps ops = some (s, os)) :
    Represents s (absRun aEmpty ops os) ∧ Counts s ∧ obsLegalRun aEmpty ops os :=
  runOps_full ops empty_represents empty_counts h

/-- the hypothesis is satisfiable by a non-trivial history (a resize, a dummy, free-slot reuse, a pop, negative and
≥ 2⁶¹ keys) -/
example : (empty.runOps [.updateIter [1, 9, 17, -5, 2 ^ 61, 33], .discard 9, .add 25, .pop, .differenceUpdate [1, 7]]).map
    (fun r => (r.1.toList, r.2)) = some ([2 ^ 61, 33, 17, 25, -5], [.none, .none, .none, .popped 1, .none]) := by
  decide +kernel

/-- what the observers see after a history: membership tests, iteration and `len` agree with the abstract set -/
theorem set_history_observers (ops : List SetOp) (s : IntSet) (os : List Obs)
    (h : empty.runOps ops = some (s, os)) :
    (∀ x b, s.contains x = some b → (b = true ↔ absRun aEmpty ops os x)) ∧
    s.toList.Nodup ∧ (∀ x, x ∈ s.toList ↔ absRun aEmpty ops os x) ∧ s.used = s.toList.length := by
  obtain ⟨⟨hw, hm⟩, hc, _⟩ := runOps_full ops empty_represents empty_counts h
  refine ⟨fun x b hb => (contains_spec hw hb).trans (hm x), nodup_activeKeys hw,
    fun x => mem_activeKeys.trans (hm x), ?_⟩
  rw [hc.1]
  exact (activeKeys_length s.table).symm

/-- (b) `pop` returns a member and removes exactly it; it raises KeyError exactly on the empty set -/
theorem set_pop_returns_member_and_removes_it (s : IntSet) (h : Inv s) :
    (∀ k s', s.pop = some (.popped k s') →
      Mem s.table k ∧ Inv s' ∧ ∀ x, Mem s'.table x ↔ (Mem s.table x ∧ x ≠ k)) ∧
    (s.pop = some .keyError → ∀ x, ¬ Mem s.table x) := by
  refine ⟨fun k s' hp => ?_, fun hp => pop_keyError h.2 hp⟩
  obtain ⟨a, b, c⟩ := pop_spec h.1 hp
  exact ⟨a, ⟨b, pop_counts h.2 hp⟩, c⟩

/-- a set with history (resize, dummy, earlier pop) pops the next key after the finger and keeps the rest -/
example : Inv exampleA ∧ (match exampleA.pop with | some (.popped k s) => some (k, s.toList) | _ => none) = some (33, [2, 17, 25]) :=
  ⟨built_inv _, by decide +kernel⟩

/-- `set_merge` (`copy()`, `set(s)`, `update(s)`): all three paths (verbatim table copy, clean insertion, normal
insertion) give the union and keep the invariant -/
theorem set_merge_is_union (so other r : IntSet) (h : Inv so) (ho : Inv other) (hm : so.merge other = some r) :
    Inv r ∧ ∀ x, Mem r.table x ↔ aUnion (Mem so.table) (Mem other.table) x :=
  merge_spec h ho hm

/-- the hypotheses hold for concrete sets with history; the model's results below are CPython's -/
example : Inv exampleA ∧ Inv exampleB ∧
    (exampleA.merge exampleB).map (·.toList) = some [2 ^ 61, 33, 2, 7, 40, 17, 25, -4] ∧
    (exampleA.union exampleB).map (·.toList) = some [33, 2, 2 ^ 61, 7, 40, 17, 25, -4] ∧
    (exampleA.copy).map (·.toList) = some [33, 2, 17, 25] :=
  ⟨built_inv _, built_inv _, by decide +kernel, by decide +kernel, by decide +kernel⟩

theorem set_copy_same_members (s r : IntSet) (h : Inv s) (hc : s.copy = some r) :
    Inv r ∧ ∀ x, Mem r.table x ↔ Mem s.table x := copy_spec h hc

theorem set_union_refines (a b r : IntSet) (ha : Inv a) (hb : Inv b) (hu : a.union b = some r) :
    Inv r ∧ ∀ x, Mem r.table x ↔ aUnion (Mem a.table) (Mem b.table) x := union_spec ha hb hu

/-- `&` between two sets (either of them a modelled table or an observed container), whichever operand is iterated -/
theorem set_intersection_refines (so other : View) (A B : ASet) (ha : so.Denotes A) (hb : other.Denotes B) (r : IntSet)
    (hi : interSet so other = some r) : Inv r ∧ ∀ x, Mem r.table x ↔ aInter A B x := interSet_spec ha hb hi

theorem set_intersection_iterable_refines (so : View) (A : ASet) (ha : so.Denotes A) (ks : List Int) (r : IntSet)
    (hi : interIter so ks = some r) : Inv r ∧ ∀ x, Mem r.table x ↔ aInter A (· ∈ ks) x := interIter_spec ha ks hi

/-- `-` / `difference`: both strategies (copy and discard; filter into a fresh set) -/
theorem set_difference_refines (so : IntSet) (other : View) (B : ASet) (h : Inv so) (hb : other.Denotes B) (sized : Bool)
    (r : IntSet) (hd : so.difference other sized = some r) : Inv r ∧ ∀ x, Mem r.table x ↔ aDiff (Mem so.table) B x :=
  difference_spec h hb sized hd

example : (interSet exampleA.view exampleB.view).map (·.toList) = some [33] ∧
    (interIter exampleA.view [5, 25, 2, 2]).map (·.toList) = some [25, 2] ∧
    (exampleA.difference exampleB.view true).map (·.toList) = some [17, 2, 25] ∧
    (exampleA.difference (View.ofList [33, 40]) false).map (·.toList) = some [2, 17, 25] := by
  refine ⟨by decide +kernel, by decide +kernel, by decide +kernel, by decide +kernel⟩

/-- a modelled set, and an observed container given by its iteration order, are legitimate operands -/
theorem set_views_denote (s : IntSet) (h : Inv s) (ks : List Int) :
    s.view.Denotes (Mem s.table) ∧ (View.ofList ks).Denotes (· ∈ ks) := ⟨view_denotes h, ofList_denotes ks⟩

/-! ### programs over several sets — the register machine `ROp.run` executed by the driver for every op that writes a set -/

/-- One step of a program (`new`, a single-set op, `update(set)`, `copy`, `-=`, `&`, `-`, `|` with modelled or observed
operands, CPython's aliasing cases included): every register keeps the full invariant, the target register denotes exactly
the documented value computed from the denotations before the step, and no other register changes. -/
theorem set_program_step_refines (rs rs' : Regs) (h : AllInv rs) (op : ROp) (o : Obs) (hr : op.run rs = some (rs', o)) :
    AllInv rs' ∧ (∀ x, den rs' op.target x ↔ op.absValue (den rs) o x) ∧
    ∀ r, r ≠ op.target → rs'.get r = rs.get r := run_sound h hr

/-- after any program from no registers: every set is well formed, iterates without duplicates, and `len` is exact -/
theorem set_program_invariant (ops : List ROp) (rs : Regs) (os : List Obs) (hr : runProg [] ops = some (rs, os)) :
    ∀ r s, rs.get r = some s → Inv s ∧ s.toList.Nodup ∧ s.used = s.toList.length := by
  intro r s hg
  have hi := runProg_inv ops allInv_nil hr r s hg
  refine ⟨hi, nodup_activeKeys hi.1, ?_⟩
  rw [hi.2.1]
  exact (activeKeys_length s.table).symm

/-- a program with aliasing, a pop, both intersection directions and an observed operand; the values are CPython's -/
example : (runProg [] [.new 0, .step 0 (.updateIter [1, 9, 17, 25, 33, 2]), .copy 1 0, .step 1 .pop, .step 1 (.discard 17),
      .inter 2 0 1, .diff 3 0 1, .union 4 3 1, .diffUpdateSet 0 2, .updateSet 1 3, .interLT 5 4 [33, 7, 1]]).map
      (fun r => (List.range 6).map fun i => (r.1.get i).map (·.toList)) =
    some [some [1, 17], some [17, 33, 2, 1, 9, 25], some [33, 2, 9, 25], some [1, 17], some [1, 17, 33, 2, 9, 25],
      some [33, 1]] := by decide +kernel

/-- (c) Determinism: pop results and iteration order are a function of the history of keys and nothing else — the
model has no other input (no seed, no address, no clock), and `hashBits` is `pyHashInt`, which has no seed.  Stated
because this is the form in which the property uses the model: two runs (two processes, two PYTHONHASHSEED values)
that perform the same history observe the same pops and the same order. -/
theorem set_iteration_order_function_of_history (ops₁ ops₂ : List SetOp) (s₁ s₂ : IntSet) (os₁ os₂ : List Obs)
    (h₁ : empty.runOps ops₁ = some (s₁, os₁)) (h₂ : empty.runOps ops₂ = some (s₂, os₂)) (he : ops₁ = ops₂) :
    os₁ = os₂ ∧ s₁.toList = s₂.toList := by
  subst he
  rw [h₁] at h₂
  simp at h₂
  exact ⟨h₂.2, by rw [h₂.1]⟩

/-- (c′) The model reads a key only through its hash (`hashBits`, the start of the probe sequence) and through
equality: for every injective renaming `φ` of the keys that preserves the hashes, the renamed history produces the
renamed observations and the renamed iteration order — slot for slot the same table.  This is the statement
"CPython's set order is a function of the element hashes and the operation history" for the model; with
`hash(int)` seed free (`pyHashInt`) it gives process independence. -/
theorem set_order_depends_on_hashes_and_history_only (φ : Int → Int) (h : HashIso φ) (ops : List SetOp) :
    (empty.runOps (ops.map (SetOp.rename φ))).map (fun r => (r.1.toList, r.2)) =
    (empty.runOps ops).map (fun r => (r.1.toList.map φ, r.2.map (Obs.rename φ))) := by
  have := runOps_rename h ops empty
  rw [mapS_empty] at this
  rw [this]
  cases empty.runOps ops with
  | none => rfl
  | some r => simp [toList_mapS]

/-- a non-trivial renaming with equal hashes exists: `k ↦ k ± (2⁶¹ − 1)` away from zero -/
example : HashIso shiftByModulus := shiftByModulus_hashIso

/-- Every regenerated order-sensitive site has a reviewed key kind, every site that takes an element by table order
(`pop`) is int-keyed — the container `Py/IntSet.lean` models —, and the only site that is not int-keyed iterates a set
of int tuples (`_rings_filter`), whose hashes are the seed-free `pyHashTuple`.  Together with `hash_sites_seed_free`
(no ordering decision hashes a string) and the determinism theorems above: the order seen at every reviewed site is
the same in every process.  The run-time replay checks the `int` entries on every run (a logged set at such a site
never receives a non-int key) and replays each site's real history through the model. -/
theorem order_sites_key_kinds :
    setOrderSites.map (fun s => (s.1, s.2.1, s.2.2.2)) = reviewedSetSiteKeys.map (fun r => (r.1, r.2.1, r.2.2.1)) ∧
    (∀ s ∈ setOrderSites, s.2.2.1 = "pop" → (s.1, s.2.1, s.2.2.2, KeyKind.int) ∈ reviewedSetSiteKeys) ∧
    (reviewedSetSiteKeys.filter (fun r => r.2.2.2 != KeyKind.int)).map (fun r => (r.2.1, r.2.2.2)) =
      [("_rings_filter", KeyKind.intTuple)] := by
  refine ⟨by decide +kernel, by decide +kernel, by decide +kernel⟩

/-- the probe sequence of every key (`PS.start`, `PS.next`: the states `look`/`addScan`/`lookEmpty` walk through) stays
inside a table of `mask + 1` slots: the model never indexes outside the table -/
theorem set_probe_stays_in_table (mask : Nat) (k : Int) (n : Nat) : (PS.nth mask k n).idx ≤ mask :=
  PS.idx_le (PS.nth_valid mask k n)

/-- the exact class `set_history_refines_partial` leaves out: in a table of `mask + 1` slots the lookup of `k` is
undefined only if every one of the first `fuelFor mask = 10·(mask + 15)` slots of `k`'s probe sequence holds a dummy or
another key (CPython would keep probing; with `fill < size` it cannot happen once the sequence has covered the table) -/
theorem set_lookup_fails_only_by_fuel (t : Array Slot) (k : Int) (hs : t.size = (t.size - 1) + 1)
    (h : lookup t k = none) (m : Nat) (hm : m < fuelFor (t.size - 1)) :
    t[(PS.nth (t.size - 1) k m).idx]? = some Slot.dummy ∨
      ∃ k', k' ≠ k ∧ t[(PS.nth (t.size - 1) k m).idx]? = some (Slot.active k') := by
  have := look_none_only_by_fuel (k := k) hs (fuelFor (t.size - 1)) 0 h m hm
  simpa using this

example : (emptyTable 8).size = ((emptyTable 8).size - 1) + 1 := by decide

end ChythonModel.Props.C19
