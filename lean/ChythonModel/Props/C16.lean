import ChythonModel.Model.C16Patcher
import ChythonModel.Spec.C16Deleted
/-!
# C16 — template application edits exactly what the template names
-/
namespace ChythonModel.Props.C16
open ChythonModel.Model ChythonModel.Model.C16 ChythonModel.Spec.C16

/-- without deleted template atoms nothing is removed, whatever the graph and the match -/
theorem get_deleted_empty (g : List (Nat × List Nat)) (mapping : List (Nat × Nat)) : getDeleted g [] mapping = .ok [] := by
  simp [getDeleted]

end ChythonModel.Props.C16
