import ChythonModel.Model.C16Patcher
import ChythonModel.Spec.C16Deleted
import ChythonModel.Proofs.C16Deleted
/-!
# C16 — template application edits exactly what the template names

Theorems about the executable model `Model/C16Patcher.lean` (the functions `Drivers/C16.lean` runs).

`_get_deleted` part. `getDeleted g tpl mapping` is the model of `BaseReactor._get_deleted`; `tpl` is the template's
`_to_delete` **in any iteration order**, the neighbour lists of `g` are in any (dict) order.
-/
namespace ChythonModel.Props.C16
open ChythonModel.Model ChythonModel.Model.C16 ChythonModel.Spec.C16 ChythonModel.Proofs.C16

/-- **get_deleted_exact** (full statement, proved). For every undirected graph, every match and every iteration order of
the deleted set and of the neighbour dicts: the atoms `_get_deleted` returns are exactly the matched atoms absent from
the replacement (`D`, the image of `_to_delete` under the match) together with every fragment of `g − D` that was bonded
to an atom of `D` and contains no remaining matched atom (`DeletedSpec`, written from the property statement). -/
theorem get_deleted_exact (g : List (Nat × List Nat)) (hsym : Symm g) (tpl : List Nat) (mapping : List (Nat × Nat))
    (res : List Nat) (h : getDeleted g tpl mapping = .ok res) :
    ∃ D, mapAll mapping tpl = .ok D ∧ (∀ v, v ∈ D ↔ ∃ x ∈ tpl, mapping.lookup x = some v) ∧
      ∀ v, v ∈ res ↔ DeletedSpec g D (remainOf mapping D) v := by
  obtain ⟨D, hD, hres⟩ := getDeleted_exact hsym tpl mapping res h
  exact ⟨D, hD, mapAll_mem mapping tpl D hD, hres⟩

/-- soundness half, usable on its own: an atom that is not one of `D` is only removed when its whole fragment is
detached — no atom still connected to a remaining matched atom is ever deleted (the defect of DESIGN §7 #15). -/
theorem get_deleted_never_removes_attached (g : List (Nat × List Nat)) (hsym : Symm g) (tpl : List Nat)
    (mapping : List (Nat × Nat)) (res D : List Nat) (h : getDeleted g tpl mapping = .ok res)
    (hD : mapAll mapping tpl = .ok D) (v : Nat) (hv : v ∈ res) (hvD : v ∉ D) :
    ¬ Attached g D (remainOf mapping D) v := by
  obtain ⟨D', hD', hres⟩ := getDeleted_exact hsym tpl mapping res h
  rw [hD] at hD'
  cases hD'
  rcases (hres v).1 hv with h1 | ⟨x, n, _, _, _, hnv, hna⟩
  · exact absurd h1 hvD
  · intro hatt
    exact hna (attached_of_reach hsym (Reach.symm hsym hnv) hatt)

/-- completeness half: a fragment that lost its only link(s) to the matched part is removed entirely -/
theorem get_deleted_removes_detached (g : List (Nat × List Nat)) (hsym : Symm g) (tpl : List Nat)
    (mapping : List (Nat × Nat)) (res D : List Nat) (h : getDeleted g tpl mapping = .ok res)
    (hD : mapAll mapping tpl = .ok D) (x n v : Nat) (hx : x ∈ D) (hxn : Edge g x n) (hn : n ∉ D)
    (hnv : Reach g D n v) (hdet : ¬ Attached g D (remainOf mapping D) n) : v ∈ res := by
  obtain ⟨D', hD', hres⟩ := getDeleted_exact hsym tpl mapping res h
  rw [hD] at hD'
  cases hD'
  exact (hres v).2 (Or.inr ⟨x, n, hx, hxn, hn, hnv, hdet⟩)

/-- **order independence**: two runs that differ only in the iteration order of the `_to_delete` set, in the insertion
order of atoms / bonds of the structure (same edge relation) and in the order of the match dict return the same set. -/
theorem get_deleted_order_independent (g1 g2 : List (Nat × List Nat)) (hs1 : Symm g1) (hs2 : Symm g2)
    (hE : ∀ a b, Edge g1 a b ↔ Edge g2 a b) (tpl1 tpl2 : List Nat) (ht : ∀ x, x ∈ tpl1 ↔ x ∈ tpl2)
    (mp1 mp2 : List (Nat × Nat)) (hm : ∀ k, mp1.lookup k = mp2.lookup k)
    (hv : ∀ v, v ∈ mp1.map (·.2) ↔ v ∈ mp2.map (·.2))
    (r1 r2 : List Nat) (h1 : getDeleted g1 tpl1 mp1 = .ok r1) (h2 : getDeleted g2 tpl2 mp2 = .ok r2) :
    ∀ v, v ∈ r1 ↔ v ∈ r2 := by
  obtain ⟨D1, hD1, hr1⟩ := getDeleted_exact hs1 tpl1 mp1 r1 h1
  obtain ⟨D2, hD2, hr2⟩ := getDeleted_exact hs2 tpl2 mp2 r2 h2
  have hD : ∀ v, v ∈ D1 ↔ v ∈ D2 := by
    intro v
    rw [mapAll_mem mp1 tpl1 D1 hD1, mapAll_mem mp2 tpl2 D2 hD2]
    constructor
    · rintro ⟨x, hx, hxv⟩; exact ⟨x, (ht x).1 hx, by rw [← hm]; exact hxv⟩
    · rintro ⟨x, hx, hxv⟩; exact ⟨x, (ht x).2 hx, by rw [hm]; exact hxv⟩
  have hR : ∀ v, v ∈ remainOf mp1 D1 ↔ v ∈ remainOf mp2 D2 := by
    intro v
    simp only [remainOf, List.mem_filter, Bool.not_eq_eq_eq_not, Bool.not_true, List.contains_eq_mem,
      decide_eq_false_iff_not]
    rw [hv v, hD v]
  intro v
  rw [hr1 v, hr2 v]
  exact ⟨DeletedSpec.congr hE hD hR v,
         DeletedSpec.congr (fun a b => (hE a b).symm) (fun v => (hD v).symm) (fun v => (hR v).symm) v⟩

/-- **totality** (error branch): on a closed graph (every neighbour is a key) with a match that covers the template's
deleted atoms and lands on atoms of the graph, `_get_deleted` never raises. -/
theorem get_deleted_total (g : List (Nat × List Nat)) (hclosed : Closed g) (tpl : List Nat) (mapping : List (Nat × Nat))
    (hm : ∀ x ∈ tpl, ∃ v, mapping.lookup x = some v ∧ ∃ nb, g.lookup v = some nb) :
    ∃ res, getDeleted g tpl mapping = .ok res :=
  getDeleted_total hclosed tpl mapping hm

/-- the error branch is real: a template atom missing from the match raises `KeyError` -/
theorem get_deleted_raises_on_incomplete_match :
    getDeleted [(1, [2]), (2, [1])] [101, 102] [(101, 1)] = .error (.keyError 102) := by
  simp [getDeleted, mapAll, List.lookup]

/-- the executable graph checks the driver applies imply the hypotheses of the theorems above -/
theorem graph_checks_sound (g : List (Nat × List Nat)) (h : symmB g = true ∧ closedB g = true) : Symm g ∧ Closed g :=
  ⟨symmB_sound h.1, closedB_sound h.2⟩

/-- without deleted template atoms nothing is removed, whatever the graph and the match -/
theorem get_deleted_empty (g : List (Nat × List Nat)) (mapping : List (Nat × Nat)) : getDeleted g [] mapping = .ok [] := by
  simp [getDeleted]

/-! Hypotheses are satisfiable by non-trivial instances: the molecule of DESIGN §7 #15
(C1–N2, N2–C3, N2–C4, C3–C4, C3–C1, bonds inserted in that order; template `[C;D2:1][N;D3:2] → [C:1]`, match 1↦1, 2↦2):
the graph is undirected and closed, the model returns `{2}` — atom 4 (still attached through C3–C1) is kept —
and a detached fragment (atoms 3, 4 of the chain 1–2–3–4 after deleting 2 with only 1 remaining) is removed. -/
def witnessGraph : List (Nat × List Nat) := [(1, [2, 3]), (2, [1, 3, 4]), (3, [2, 4, 1]), (4, [2, 3])]

example : Symm witnessGraph ∧ Closed witnessGraph := graph_checks_sound _ (by decide)
example : getDeleted witnessGraph [102] [(101, 1), (102, 2)] = .ok [2] := by
  simp [getDeleted, mapAll, outerLoop, visitNbrs, visitNbr, dfs, List.lookup, remainOf, witnessGraph]
example : getDeleted [(1, [2]), (2, [1, 3]), (3, [2, 4]), (4, [3])] [102] [(101, 1), (102, 2)] = .ok [2, 4, 3] := by
  simp [getDeleted, mapAll, outerLoop, visitNbrs, visitNbr, dfs, List.lookup, remainOf]

end ChythonModel.Props.C16
