import ChythonModel.Model.C16Patcher
import ChythonModel.Spec.C16Deleted
import ChythonModel.Proofs.C16Deleted
import ChythonModel.Proofs.C16Patcher
import ChythonModel.Proofs.C16Overlap
import ChythonModel.Proofs.C16Union
import ChythonModel.Model.C16Worklist
import ChythonModel.Proofs.C16Worklist
import ChythonModel.Model.C16Ions
import ChythonModel.Proofs.C16Ions
/-!
# C16 — template application edits exactly what the template names

Theorems about the executable model `Model/C16Patcher.lean` (the functions `Drivers/C16.lean` runs).

`_get_deleted` part. `getDeleted g tpl mapping` is the model of `BaseReactor._get_deleted`; `tpl` is the template's
`_to_delete` **in any iteration order**, the neighbour lists of `g` are in any (dict) order.
-/
namespace ChythonModel.Props.C16
open ChythonModel.Model ChythonModel.Model.C16 ChythonModel.Spec.C16 ChythonModel.Proofs.C16 ChythonModel.Proofs.C16P ChythonModel.Proofs.C16O
open ChythonModel.Proofs.C16U

/-- **get_deleted_exact** (full statement, proved). For every undirected graph, every match and every iteration order of
the deleted set and of the neighbour dicts: the atoms `_get_deleted` returns are exactly the matched atoms absent from
the replacement (`D`, the image of `_to_delete` under the match) together with every fragment of `g − D` that was bonded
to an atom of `D` and contains no remaining matched atom (`DeletedSpec`, written from the property statement). -/
theorem get_deleted_exact (g : List (Nat × List Nat)) (hsym : Symm g) (tpl : List Nat) (mapping : List (Nat × Nat))
    (res : List Nat) (h : getDeleted g tpl mapping = .ok res) :
    ∃ D, mapAll mapping tpl = .ok D ∧ (∀ v, v ∈ D ↔ ∃ x ∈ tpl, mapping.lookup x = some v) ∧
      ∀ v, v ∈ res ↔ DeletedSpec g D (remainOf mapping D) v := by
  obtain ⟨D, hD, hres⟩ := getDeleted_exact hsym tpl mapping res h
  exact ⟨D, hD, mapAll_mem mapping tpl D hD, hres⟩

/-- soundness half, usable on its own: an atom that is not one of `D` is only removed when its whole fragment is
detached — no atom still connected to a remaining matched atom is ever deleted (the defect of DESIGN §7 #15). -/
theorem get_deleted_never_removes_attached (g : List (Nat × List Nat)) (hsym : Symm g) (tpl : List Nat)
    (mapping : List (Nat × Nat)) (res D : List Nat) (h : getDeleted g tpl mapping = .ok res)
    (hD : mapAll mapping tpl = .ok D) (v : Nat) (hv : v ∈ res) (hvD : v ∉ D) :
    ¬ Attached g D (remainOf mapping D) v := by
  obtain ⟨D', hD', hres⟩ := getDeleted_exact hsym tpl mapping res h
  rw [hD] at hD'
  cases hD'
  rcases (hres v).1 hv with h1 | ⟨x, n, _, _, _, hnv, hna⟩
  · exact absurd h1 hvD
  · intro hatt
    exact hna (attached_of_reach hsym (Reach.symm hsym hnv) hatt)

/-- completeness half: a fragment that lost its only link(s) to the matched part is removed entirely -/
theorem get_deleted_removes_detached (g : List (Nat × List Nat)) (hsym : Symm g) (tpl : List Nat)
    (mapping : List (Nat × Nat)) (res D : List Nat) (h : getDeleted g tpl mapping = .ok res)
    (hD : mapAll mapping tpl = .ok D) (x n v : Nat) (hx : x ∈ D) (hxn : Edge g x n) (hn : n ∉ D)
    (hnv : Reach g D n v) (hdet : ¬ Attached g D (remainOf mapping D) n) : v ∈ res := by
  obtain ⟨D', hD', hres⟩ := getDeleted_exact hsym tpl mapping res h
  rw [hD] at hD'
  cases hD'
  exact (hres v).2 (Or.inr ⟨x, n, hx, hxn, hn, hnv, hdet⟩)

/-- **order independence**: two runs that differ only in the iteration order of the `_to_delete` set, in the insertion
order of atoms / bonds of the structure (same edge relation) and in the order of the match dict return the same set. -/
theorem get_deleted_order_independent (g1 g2 : List (Nat × List Nat)) (hs1 : Symm g1) (hs2 : Symm g2)
    (hE : ∀ a b, Edge g1 a b ↔ Edge g2 a b) (tpl1 tpl2 : List Nat) (ht : ∀ x, x ∈ tpl1 ↔ x ∈ tpl2)
    (mp1 mp2 : List (Nat × Nat)) (hm : ∀ k, mp1.lookup k = mp2.lookup k)
    (hv : ∀ v, v ∈ mp1.map (·.2) ↔ v ∈ mp2.map (·.2))
    (r1 r2 : List Nat) (h1 : getDeleted g1 tpl1 mp1 = .ok r1) (h2 : getDeleted g2 tpl2 mp2 = .ok r2) :
    ∀ v, v ∈ r1 ↔ v ∈ r2 := by
  obtain ⟨D1, hD1, hr1⟩ := getDeleted_exact hs1 tpl1 mp1 r1 h1
  obtain ⟨D2, hD2, hr2⟩ := getDeleted_exact hs2 tpl2 mp2 r2 h2
  have hD : ∀ v, v ∈ D1 ↔ v ∈ D2 := by
    intro v
    rw [mapAll_mem mp1 tpl1 D1 hD1, mapAll_mem mp2 tpl2 D2 hD2]
    constructor
    · rintro ⟨x, hx, hxv⟩; exact ⟨x, (ht x).1 hx, by rw [← hm]; exact hxv⟩
    · rintro ⟨x, hx, hxv⟩; exact ⟨x, (ht x).2 hx, by rw [hm]; exact hxv⟩
  have hR : ∀ v, v ∈ remainOf mp1 D1 ↔ v ∈ remainOf mp2 D2 := by
    intro v
    simp only [remainOf, List.mem_filter, Bool.not_eq_eq_eq_not, Bool.not_true, List.contains_eq_mem,
      decide_eq_false_iff_not]
    rw [hv v, hD v]
  intro v
  rw [hr1 v, hr2 v]
  exact ⟨DeletedSpec.congr hE hD hR v,
         DeletedSpec.congr (fun a b => (hE a b).symm) (fun v => (hD v).symm) (fun v => (hR v).symm) v⟩

/-- **totality** (error branch): on a closed graph (every neighbour is a key) with a match that covers the template's
deleted atoms and lands on atoms of the graph, `_get_deleted` never raises. -/
theorem get_deleted_total (g : List (Nat × List Nat)) (hclosed : Closed g) (tpl : List Nat) (mapping : List (Nat × Nat))
    (hm : ∀ x ∈ tpl, ∃ v, mapping.lookup x = some v ∧ ∃ nb, g.lookup v = some nb) :
    ∃ res, getDeleted g tpl mapping = .ok res :=
  getDeleted_total hclosed tpl mapping hm

/-- the error branch is real: a template atom missing from the match raises `KeyError` -/
theorem get_deleted_raises_on_incomplete_match :
    getDeleted [(1, [2]), (2, [1])] [101, 102] [(101, 1)] = .error (.keyError 102) := by
  simp [getDeleted, mapAll, List.lookup]

/-- the executable graph checks the driver applies imply the hypotheses of the theorems above -/
theorem graph_checks_sound (g : List (Nat × List Nat)) (h : symmB g = true ∧ closedB g = true) : Symm g ∧ Closed g :=
  ⟨symmB_sound h.1, closedB_sound h.2⟩

/-- without deleted template atoms nothing is removed, whatever the graph and the match -/
theorem get_deleted_empty (g : List (Nat × List Nat)) (mapping : List (Nat × Nat)) : getDeleted g [] mapping = .ok [] := by
  simp [getDeleted]

/-! Hypotheses are satisfiable by non-trivial instances: the molecule of DESIGN §7 #15
(C1–N2, N2–C3, N2–C4, C3–C4, C3–C1, bonds inserted in that order; template `[C;D2:1][N;D3:2] → [C:1]`, match 1↦1, 2↦2):
the graph is undirected and closed, the model returns `{2}` — atom 4 (still attached through C3–C1) is kept —
and a detached fragment (atoms 3, 4 of the chain 1–2–3–4 after deleting 2 with only 1 remaining) is removed. -/
def witnessGraph : List (Nat × List Nat) := [(1, [2, 3]), (2, [1, 3, 4]), (3, [2, 4, 1]), (4, [2, 3])]

example : Symm witnessGraph ∧ Closed witnessGraph := graph_checks_sound _ (by decide)
example : getDeleted witnessGraph [102] [(101, 1), (102, 2)] = .ok [2] := by
  simp [getDeleted, mapAll, outerLoop, visitNbrs, visitNbr, dfs, List.lookup, remainOf, witnessGraph]
example : getDeleted [(1, [2]), (2, [1, 3]), (3, [2, 4]), (4, [3])] [102] [(101, 1), (102, 2)] = .ok [2, 4, 3] := by
  simp [getDeleted, mapAll, outerLoop, visitNbrs, visitNbr, dfs, List.lookup, remainOf]


/-! ## `_patcher`

`patcher s t td mp` is the model of `BaseReactor._patcher(structure, mapping)` (without stereo and `fix_rings`);
`td` is the template's `_to_delete`. `p.deleted` = result of `_get_deleted`, `p.patchedIds` = numbers of the atoms created
from the replacement (`patched_atoms`), `p.mapping` = the match extended by the new atoms, `p.mol` = the product. -/

/-- the stages of a successful `_patcher` run -/
theorem patcher_stages {s : Mol} {t : Template} {td : List Nat} {mp : List (Nat × Nat)} {p : Patched}
    (h : patcher s t td mp = .ok p) :
    ∃ mx st1 b2 atoms3 b3 b4,
      getDeleted (keysOf s) td mp = .ok p.deleted ∧ maxKey s.ids = .ok mx ∧
      replAtomsLoop s t.replAtoms ⟨mp, mx, [], []⟩ = .ok st1 ∧
      replBondsLoop st1.mapping t.replBonds st1.bonds = .ok b2 ∧
      remainderAtoms (st1.atoms.map (·.1)) p.deleted s.atoms (st1.atoms, b2) = (atoms3, b3) ∧
      structBondsLoop (st1.atoms.map (·.1)) p.deleted s.adj b3 = .ok b4 ∧
      calcLoop (atoms3.map (·.1)) ⟨atoms3, b4⟩ = .ok p.mol ∧
      p.mapping = st1.mapping ∧ p.patchedIds = st1.atoms.map (·.1) := by
  unfold patcher at h
  split at h
  · simp at h
  · next deleted hdel =>
    split at h
    · simp at h
    · next mx hmx =>
      split at h
      · simp at h
      · next st1 h1 =>
        split at h
        · simp at h
        · next b2 h2 =>
          dsimp only at h
          cases h3 : remainderAtoms (st1.atoms.map (·.1)) deleted s.atoms (st1.atoms, b2) with
          | mk atoms3 b3 =>
          rw [h3] at h
          dsimp only at h
          split at h
          · simp at h
          · next b4 h4 =>
            split at h
            · simp at h
            · next m h5 =>
              simp only [Except.ok.injEq] at h
              subst h
              exact ⟨mx, st1, b2, atoms3, b3, b4, hdel, hmx, h1, h2, h3, h4, h5, rfl, rfl⟩

theorem inv1_init (mx : Nat) (mp : List (Nat × Nat)) : Inv1 mx ⟨mp, mx, [], []⟩ :=
  ⟨Nat.le_refl _, by simp, rfl, by intro a c; simp [bget, List.lookup], by simp⟩

/-- **frame_atoms**: an atom of the structure that the template does not name (not patched) and that is not removed keeps
its number, element, isotope, charge, radical state and — when it had one — its implicit hydrogen count.
(`stereo` is outside this model: the copy carries `none`.) -/
theorem frame_atoms {s : Mol} {t : Template} {td : List Nat} {mp : List (Nat × Nat)} {p : Patched}
    (h : patcher s t td mp = .ok p) (hnd : s.ids.Nodup) (n : Nat) (sa : Atom) (hsa : s.atoms.lookup n = some sa)
    (hnp : n ∉ p.patchedIds) (hnd' : n ∉ p.deleted) :
    ∃ a, p.mol.atoms.lookup n = some a ∧ a.z = sa.z ∧ a.isotope = sa.isotope ∧ a.charge = sa.charge ∧
      a.radical = sa.radical ∧ (sa.implH.isSome → a.implH = sa.implH) := by
  obtain ⟨mx, st1, b2, atoms3, b3, b4, _, _, _, _, h3, _, h5, _, hP⟩ := patcher_stages h
  obtain ⟨_, _, _, _, hl⟩ := remainderAtoms_spec _ _ _ _ _ _ _ h3 hnd
  rw [hP] at hnp
  have h3n : atoms3.lookup n = some (stripAtom sa) := by
    rw [hl n]
    have : ¬ (n ∈ st1.atoms.map (·.1) ∨ n ∈ p.deleted) := fun h => h.elim hnp hnd'
    rw [if_neg this, hsa]
  obtain ⟨_, _, hat⟩ := calcLoop_spec _ h5
  obtain ⟨a, ha, hs⟩ := (hat n).2 _ h3n
  exact ⟨a, ha, hs.1, hs.2.1, hs.2.2.1, hs.2.2.2.1, hs.2.2.2.2.2⟩

/-- a removed atom that is not re-created by the replacement is absent from the product -/
theorem deleted_atoms_absent {s : Mol} {t : Template} {td : List Nat} {mp : List (Nat × Nat)} {p : Patched}
    (h : patcher s t td mp = .ok p) (hnd : s.ids.Nodup) (n : Nat) (hd : n ∈ p.deleted) (hnp : n ∉ p.patchedIds) :
    p.mol.atoms.lookup n = none := by
  obtain ⟨mx, st1, b2, atoms3, b3, b4, _, _, _, _, h3, _, h5, _, hP⟩ := patcher_stages h
  obtain ⟨_, _, _, _, hl⟩ := remainderAtoms_spec _ _ _ _ _ _ _ h3 hnd
  rw [hP] at hnp
  have h3n : atoms3.lookup n = none := by
    rw [hl n]
    simp only [hd, or_true, if_true]
    exact (lookup_none_iff_not_mem_keys _ _).2 hnp
  obtain ⟨_, _, hat⟩ := calcLoop_spec _ h5
  exact (hat n).1 h3n

/-- **product atom set**: the product consists of exactly the patched atoms and the surviving atoms of the structure -/
theorem product_ids {s : Mol} {t : Template} {td : List Nat} {mp : List (Nat × Nat)} {p : Patched}
    (h : patcher s t td mp = .ok p) (hnd : s.ids.Nodup) (n : Nat) :
    n ∈ p.mol.ids ↔ n ∈ p.patchedIds ∨ (n ∈ s.ids ∧ n ∉ p.deleted) := by
  obtain ⟨mx, st1, b2, atoms3, b3, b4, _, _, _, _, h3, _, h5, _, hP⟩ := patcher_stages h
  obtain ⟨_, _, _, _, hl⟩ := remainderAtoms_spec _ _ _ _ _ _ _ h3 hnd
  obtain ⟨_, hkeys, _⟩ := calcLoop_spec _ h5
  rw [hP]
  have hmem : n ∈ p.mol.ids ↔ (atoms3.lookup n).isSome := by
    rw [lookup_isSome_iff_mem_keys]; simp only [Mol.ids, hkeys]
  rw [hmem, hl n]
  by_cases hp : n ∈ st1.atoms.map (·.1)
  · have := (lookup_isSome_iff_mem_keys st1.atoms n).2 hp
    simp only [hp, true_or, if_true, this]
  · have hnone := (lookup_none_iff_not_mem_keys st1.atoms n).2 hp
    by_cases hd : n ∈ p.deleted
    · simp only [hd, or_true, if_true, hnone, hp, not_true_eq_false, and_false, or_self]
      simp
    · have hor : ¬ (n ∈ st1.atoms.map (·.1) ∨ n ∈ p.deleted) := fun h => h.elim hp hd
      rw [if_neg hor]
      have hs : n ∈ s.ids ↔ (s.atoms.lookup n).isSome := (lookup_isSome_iff_mem_keys _ _).symm
      simp only [hp, false_or, hd, not_false_eq_true, and_true, hs]
      cases s.atoms.lookup n <;> simp [hnone]

/-- **unique_numbers** (dict level): the product's atom numbers are pairwise distinct, and so are the keys of its
adjacency — for every input, with no hypothesis -/
theorem product_numbers_unique {s : Mol} {t : Template} {td : List Nat} {mp : List (Nat × Nat)} {p : Patched}
    (h : patcher s t td mp = .ok p) (hnd : s.ids.Nodup) : p.mol.ids.Nodup := by
  obtain ⟨mx, st1, b2, atoms3, b3, b4, _, _, h1, _, h3, _, h5, _, _⟩ := patcher_stages h
  have hnd1 : (st1.atoms.map (·.1)).Nodup := replAtomsLoop_nodup t.replAtoms (st := ⟨mp, mx, [], []⟩) (by simp) h1
  obtain ⟨_, _, hn3, _, _⟩ := remainderAtoms_spec _ _ _ _ _ _ _ h3 hnd
  obtain ⟨_, hkeys, _⟩ := calcLoop_spec _ h5
  simp only [Mol.ids, hkeys]
  exact hn3 hnd1

/-- **unique_numbers** (freshness): every atom number of the product is a number of the structure or is larger than
every number of the structure — atoms created by the replacement never collide with existing ones -/
theorem product_numbers_old_or_fresh {s : Mol} {t : Template} {td : List Nat} {mp : List (Nat × Nat)} {p : Patched}
    (h : patcher s t td mp = .ok p) (hnd : s.ids.Nodup) (hrn : (t.replAtoms.map (·.1)).Nodup)
    (hinj : ∀ k1 ∈ t.replAtoms.map (·.1), ∀ k2 ∈ t.replAtoms.map (·.1), ∀ m, mget mp k1 = some m → mget mp k2 = some m → k1 = k2)
    (n : Nat) (hn : n ∈ p.mol.ids) : n ∈ s.ids ∨ ∀ k ∈ s.ids, k < n := by
  obtain ⟨mx, st1, b2, atoms3, b3, b4, _, hmx, h1, _, _, _, _, _, hP⟩ := patcher_stages h
  rcases (product_ids h hnd n).1 hn with hp | hs
  · obtain ⟨_, _, _, _, hkeys, _⟩ := replAtomsLoop_spec (maxKey_ge hmx) t.replAtoms hrn (inv1_init mx mp) hinj h1
    rw [hP] at hp
    rcases hkeys n hp with h1 | h1 | h1
    · simp at h1
    · exact Or.inr (fun k hk => Nat.lt_of_le_of_lt (maxKey_ge hmx k hk) h1)
    · exact Or.inl h1
  · exact Or.inl hs.1

/-- **named_atoms_as_requested**: every atom of the replacement appears in the product under the number the (extended)
match gives it, with the requested charge and radical state, the requested element and isotope (for an any-atom `A`:
element and isotope of the matched atom), and — for a newly created atom whose patch gives a hydrogen count — that count.
A new atom gets a number larger than every number of the structure.
Hypotheses: the replacement's atom numbers are distinct (dict keys) and the match is injective on them. -/
theorem named_atoms_as_requested {s : Mol} {t : Template} {td : List Nat} {mp : List (Nat × Nat)} {p : Patched}
    (h : patcher s t td mp = .ok p) (hnd : s.ids.Nodup) (hrn : (t.replAtoms.map (·.1)).Nodup)
    (hinj : ∀ k1 ∈ t.replAtoms.map (·.1), ∀ k2 ∈ t.replAtoms.map (·.1), ∀ m, mget mp k1 = some m → mget mp k2 = some m → k1 = k2)
    (n : Nat) (ra : RAtom) (hmem : (n, ra) ∈ t.replAtoms) :
    (∃ m sa a, mget mp n = some m ∧ s.atoms.lookup m = some sa ∧ p.mapping.lookup n = mp.lookup n ∧
        p.mol.atoms.lookup m = some a ∧ SameButH (requested ra sa false) a) ∨
    (ra.kind ≠ .any ∧ mget mp n = none ∧ ∃ m a, (∀ k ∈ s.ids, k < m) ∧ p.mapping.lookup n = some m ∧
        p.mol.atoms.lookup m = some a ∧ SameButH (requested ra default true) a) := by
  obtain ⟨mx, st1, b2, atoms3, b3, b4, _, hmx, h1, _, h3, _, h5, hM, _⟩ := patcher_stages h
  obtain ⟨_, _, _, _, _, hplaced⟩ := replAtomsLoop_spec (maxKey_ge hmx) t.replAtoms hrn (inv1_init mx mp) hinj h1
  obtain ⟨_, _, _, _, hl⟩ := remainderAtoms_spec _ _ _ _ _ _ _ h3 hnd
  obtain ⟨_, _, hat⟩ := calcLoop_spec _ h5
  have lift : ∀ m a0, st1.atoms.lookup m = some a0 → ∃ a, p.mol.atoms.lookup m = some a ∧ SameButH a0 a := by
    intro m a0 hm
    have hk : m ∈ st1.atoms.map (·.1) := (lookup_isSome_iff_mem_keys _ _).1 (by simp [hm])
    have : atoms3.lookup m = some a0 := by rw [hl m]; simp only [hk, true_or, if_true]; exact hm
    exact (hat m).2 a0 this
  rcases hplaced n ra hmem with ⟨m, sa, hmg, hsa, hmp, hat1⟩ | ⟨hk, hmg, m, hlt, _, hmp, hat1⟩
  · obtain ⟨a, ha, hs⟩ := lift m _ hat1
    exact Or.inl ⟨m, sa, a, hmg, hsa, by rw [hM]; exact hmp, ha, hs⟩
  · obtain ⟨a, ha, hs⟩ := lift m _ hat1
    exact Or.inr ⟨hk, hmg, m, a, fun k hk' => Nat.lt_of_le_of_lt (maxKey_ge hmx k hk') hlt, by rw [hM]; exact hmp, ha, hs⟩

/-- **frame_bonds**: for an atom `a` of the structure that survives, every bond to an atom `c` such that `a` and `c` are
not *both* patched is exactly the (stereo-stripped) bond of the structure when `c` survives, and is gone when `c` is
removed. In particular an unnamed surviving atom keeps all its bonds to surviving atoms and gains none; a named atom keeps
its bonds to unnamed surviving atoms. Hypothesis: the structure's dicts have unique keys and its adjacency is symmetric
with the same bond on both sides (`SrcWF`). -/
theorem frame_bonds {s : Mol} {t : Template} {td : List Nat} {mp : List (Nat × Nat)} {p : Patched}
    (h : patcher s t td mp = .ok p) (hnd : s.ids.Nodup) (hwf : SrcWF s) (a c : Nat)
    (hrow : ∃ row, (a, row) ∈ s.adj) (ha : a ∉ p.deleted) (hPP : ¬ (a ∈ p.patchedIds ∧ c ∈ p.patchedIds)) :
    p.mol.bond? a c = if c ∈ p.deleted then none else (s.bond? a c).map strip := by
  obtain ⟨mx, st1, b2, atoms3, b3, b4, _, hmx, h1, h2, h3, h4, h5, _, hP⟩ := patcher_stages h
  rw [hP] at hPP
  -- phase 1-3: every bond entry so far joins two patched atoms
  have hrows : ∀ x y, bget st1.bonds x y = none ∧ st1.bonds.map (·.1) = st1.atoms.map (·.1) := by
    have : ∀ (l : List (Nat × RAtom)) (st st' : PState), replAtomsLoop s l st = .ok st' →
        ((∀ x y, bget st.bonds x y = none) ∧ st.bonds.map (·.1) = st.atoms.map (·.1)) →
        ((∀ x y, bget st'.bonds x y = none) ∧ st'.bonds.map (·.1) = st'.atoms.map (·.1)) := by
      intro l
      induction l with
      | nil => intro st st' h hi; simp only [replAtomsLoop] at h; cases h; exact hi
      | cons e tl ih =>
        obtain ⟨n, ra⟩ := e
        intro st st' h hi
        simp only [replAtomsLoop] at h
        split at h
        · simp at h
        · next stm hm =>
          apply ih _ _ h
          rcases replAtomStep_cases hm with ⟨m, sa, _, _, rfl⟩ | ⟨_, _, rfl⟩
          · exact ⟨fun x y => bget_dictSet_empty _ _ _ _ (hi.1 x y), by simp only [placeAtom, keys_dictSet, hi.2]⟩
          · exact ⟨fun x y => bget_dictSet_empty _ _ _ _ (hi.1 x y), by simp only [placeAtom, keys_dictSet, hi.2]⟩
    have := this t.replAtoms ⟨mp, mx, [], []⟩ st1 h1 ⟨by intro x y; simp [bget, List.lookup], rfl⟩
    intro x y; exact ⟨this.1 x y, this.2⟩
  have hw1 : Within st1.bonds := by
    intro x y hs; rw [(hrows x y).1] at hs; simp at hs
  obtain ⟨hw2, hk2⟩ := replBonds_within st1.mapping t.replBonds h2 hw1
  obtain ⟨hb3, _, _, _, _⟩ := remainderAtoms_spec _ _ _ _ _ _ _ h3 hnd
  have hJ : J s (st1.atoms.map (·.1)) p.deleted b3 := by
    intro x y v hnp hv
    exfalso
    have h2' := hw2 x y (hb3 x y (by simp [hv]))
    rw [hk2, (hrows 0 0).2] at h2'
    exact hnp h2'
  have := structBonds_frame hwf _ _ hJ h4 a c ha hPP hrow
  obtain ⟨hadj, _, _⟩ := calcLoop_spec _ h5
  rw [bond?_eq_bget, hadj]
  exact this

/-- the extended match of a successful run is injective on the replacement atoms and sends each of them to a patched atom -/
theorem extended_match_injective {s : Mol} {t : Template} {td : List Nat} {mp : List (Nat × Nat)} {p : Patched}
    (h : patcher s t td mp = .ok p) (hrn : (t.replAtoms.map (·.1)).Nodup)
    (hinj : ∀ k1 ∈ t.replAtoms.map (·.1), ∀ k2 ∈ t.replAtoms.map (·.1), ∀ m, mget mp k1 = some m → mget mp k2 = some m → k1 = k2) :
    (∀ k ∈ t.replAtoms.map (·.1), ∃ m, p.mapping.lookup k = some m ∧ m ∈ p.patchedIds) ∧
    (∀ k1 ∈ t.replAtoms.map (·.1), ∀ k2 ∈ t.replAtoms.map (·.1), ∀ m, p.mapping.lookup k1 = some m →
        p.mapping.lookup k2 = some m → k1 = k2) ∧
    (∀ a ∈ p.patchedIds, ∃ n ∈ t.replAtoms.map (·.1), p.mapping.lookup n = some a) := by
  obtain ⟨mx, st1, b2, atoms3, b3, b4, _, hmx, h1, _, _, _, _, hM, hP⟩ := patcher_stages h
  obtain ⟨_, hinj'⟩ := replAtomsLoop_inj (maxKey_ge hmx) t.replAtoms hrn (inv1_init mx mp) hinj h1
  obtain ⟨_, _, _, _, _, hplaced⟩ := replAtomsLoop_spec (maxKey_ge hmx) t.replAtoms hrn (inv1_init mx mp) hinj h1
  have himg := replAtomsLoop_keys_img (maxKey_ge hmx) t.replAtoms hrn (inv1_init mx mp) hinj h1
  rw [hM, hP]
  refine ⟨?_, hinj', ?_⟩
  · intro k hk
    obtain ⟨⟨k', ra⟩, hmem, rfl⟩ := List.mem_map.1 hk
    rcases hplaced k' ra hmem with ⟨m, sa, hmg, _, hmp, hat⟩ | ⟨_, _, m, _, _, hmp, hat⟩
    · refine ⟨m, ?_, (lookup_isSome_iff_mem_keys _ _).1 (by simp [hat])⟩
      rw [hmp]
      simp only [mget] at hmg
      split at hmg
      · next v hv => split at hmg
                     · cases hmg
                     · cases hmg; exact hv
      · cases hmg
    · exact ⟨m, hmp, (lookup_isSome_iff_mem_keys _ _).1 (by simp [hat])⟩
  · intro a ha
    rcases himg a ha with h0 | h0
    · simp at h0
    · exact h0

/-- **named_bonds_as_requested**: between the product atoms that two replacement atoms `n`, `m` became there is exactly
the bond the replacement requests (its order; none when the replacement has no bond there), whatever the structure had
between them before. Hypotheses: the replacement is a well-formed Python object (`ReplWF`: unique keys, symmetric bond
dict, bonds only between its own atoms) and the match is injective on its atoms. -/
theorem named_bonds_as_requested {s : Mol} {t : Template} {td : List Nat} {mp : List (Nat × Nat)} {p : Patched}
    (h : patcher s t td mp = .ok p) (hnd : s.ids.Nodup) (hwf : ReplWF t)
    (hinj : ∀ k1 ∈ t.replAtoms.map (·.1), ∀ k2 ∈ t.replAtoms.map (·.1), ∀ m, mget mp k1 = some m → mget mp k2 = some m → k1 = k2)
    (n m n' m' : Nat) (hn : n ∈ t.replAtoms.map (·.1)) (hm : m ∈ t.replAtoms.map (·.1))
    (hfn : p.mapping.lookup n = some n') (hfm : p.mapping.lookup m = some m') :
    p.mol.bond? n' m' = (rorder t n m).map fun o => { order := o, stereo := none } := by
  obtain ⟨himg, hinj', _⟩ := extended_match_injective h hwf.atoms_nodup hinj
  obtain ⟨mx, st1, b2, atoms3, b3, b4, _, hmx, h1, h2, h3, h4, h5, hM, hP⟩ := patcher_stages h
  rw [hM] at hfn hfm hinj'
  have hrows := replAtomsLoop_rows t.replAtoms ⟨mp, mx, [], []⟩ st1 h1 ⟨by intro x y; simp [bget, List.lookup], rfl⟩
  have h2' := replBonds_closed_form hwf hinj' hrows.1 h2 n m n' m' hn hm hfn hfm
  have hnP : n' ∈ st1.atoms.map (·.1) := by
    obtain ⟨x, hx, hxP⟩ := himg n hn
    rw [hM, hfn] at hx; cases hx; rw [hP] at hxP; exact hxP
  have hmP : m' ∈ st1.atoms.map (·.1) := by
    obtain ⟨x, hx, hxP⟩ := himg m hm
    rw [hM, hfm] at hx; cases hx; rw [hP] at hxP; exact hxP
  obtain ⟨hadj, _, _⟩ := calcLoop_spec _ h5
  rw [bond?_eq_bget, hadj]
  show bget b4 n' m' = _
  rw [structBonds_pp _ _ s.adj h4 n' m' hnP hmP, remainderAtoms_bget _ _ _ _ _ _ _ h3 n' hnP m', h2']

/-- a template is the **identity on the match** `mp` of structure `s`: nothing is deleted, every replacement atom is an
any-atom `A` that is matched and asks for the charge and radical state its matched atom already has, and the replacement's
bonds are exactly the structure's bonds between the matched atoms (same orders) -/
structure IdentityOn (s : Mol) (t : Template) (mp : List (Nat × Nat)) : Prop where
  repl_wf : ReplWF t
  inj : ∀ k1 ∈ t.replAtoms.map (·.1), ∀ k2 ∈ t.replAtoms.map (·.1), ∀ m, mget mp k1 = some m → mget mp k2 = some m → k1 = k2
  atoms : ∀ n ra, (n, ra) ∈ t.replAtoms → ra.kind = .any ∧ ∃ m sa, mget mp n = some m ∧ s.atoms.lookup m = some sa ∧
            ra.charge = sa.charge ∧ ra.radical = sa.radical
  bonds : ∀ n m n' m', n ∈ t.replAtoms.map (·.1) → m ∈ t.replAtoms.map (·.1) → mget mp n = some n' → mget mp m = some m' →
            rorder t n m = (s.bond? n' m').map (·.order)

/-- **identity_template_id**: applying a template that is the identity on the match returns the input graph: the same atom
numbers, for every atom the same element, isotope, charge and radical state (and the same hydrogen count for atoms the
template does not name; named atoms get theirs recomputed by the valence rules), and between any two atoms the same bond
(stereo marks stripped — stereo is outside this model). -/
theorem identity_template_id {s : Mol} {t : Template} {mp : List (Nat × Nat)} {p : Patched}
    (hwf : s.WF = true) (hid : IdentityOn s t mp) (h : patcher s t [] mp = .ok p) :
    (∀ k, k ∈ p.mol.ids ↔ k ∈ s.ids) ∧
    (∀ k sa, s.atoms.lookup k = some sa → ∃ a, p.mol.atoms.lookup k = some a ∧ a.z = sa.z ∧ a.isotope = sa.isotope ∧
        a.charge = sa.charge ∧ a.radical = sa.radical ∧ (k ∉ p.patchedIds → sa.implH.isSome → a.implH = sa.implH)) ∧
    (∀ a c, a ∈ s.ids → p.mol.bond? a c = (s.bond? a c).map strip) := by
  obtain ⟨hnd, hsrc⟩ := wf_sound hwf
  have hdel : p.deleted = [] := by
    obtain ⟨_, _, _, _, _, _, hd, _⟩ := patcher_stages h
    simp only [getDeleted, List.isEmpty_nil, if_true, Except.ok.injEq] at hd
    exact hd.symm
  have hrn := hid.repl_wf.atoms_nodup
  obtain ⟨himg, hinj', hpre⟩ := extended_match_injective h hrn hid.inj
  -- every replacement atom is matched, so the extended match agrees with the match on them
  have hfinal : ∀ n ∈ t.replAtoms.map (·.1), ∃ m sa, mget mp n = some m ∧ s.atoms.lookup m = some sa ∧
      p.mapping.lookup n = some m := by
    intro n hn
    obtain ⟨⟨n', ra⟩, hmem, rfl⟩ := List.mem_map.1 hn
    obtain ⟨_, m, sa, hmg, hsa, _, _⟩ := hid.atoms n' ra hmem
    rcases named_atoms_as_requested h hnd hrn hid.inj n' ra hmem with ⟨m2, sa2, a, hmg2, _, hmp, _, _⟩ | ⟨_, hnone, _⟩
    · refine ⟨m, sa, hmg, hsa, ?_⟩
      rw [hmp]
      simp only [mget] at hmg
      split at hmg
      · next v hv => split at hmg
                     · cases hmg
                     · cases hmg; exact hv
      · cases hmg
    · rw [hmg] at hnone; cases hnone
  have hPs : ∀ a ∈ p.patchedIds, a ∈ s.ids := by
    intro a ha
    obtain ⟨n, hn, hna⟩ := hpre a ha
    obtain ⟨m, sa, _, hsa, hmp⟩ := hfinal n hn
    rw [hna] at hmp; cases hmp
    exact mem_ids_of_lookup hsa
  refine ⟨?_, ?_, ?_⟩
  · intro k
    rw [product_ids h hnd k, hdel]
    constructor
    · rintro (hk | hk)
      · exact hPs k hk
      · exact hk.1
    · intro hk; exact Or.inr ⟨hk, by simp⟩
  · intro k sa hsa
    by_cases hkP : k ∈ p.patchedIds
    · obtain ⟨n, hn, hnk⟩ := hpre k hkP
      obtain ⟨⟨n', ra⟩, hmem, rfl⟩ := List.mem_map.1 hn
      obtain ⟨hkind, m, sa', hmg, hsa', hch, hrad⟩ := hid.atoms n' ra hmem
      rcases named_atoms_as_requested h hnd hrn hid.inj n' ra hmem with ⟨m2, sa2, a, hmg2, hsa2, hmp, hat, hs⟩ | ⟨hk', _⟩
      · rw [hmg] at hmg2; cases hmg2
        rw [hsa'] at hsa2; cases hsa2
        obtain ⟨m3, sa3, _, _, hmp3⟩ := hfinal n' hn
        rw [hnk] at hmp3; cases hmp3
        -- now k = m
        have : k = m := by
          have := hmg
          simp only [mget] at this
          rw [← hmp, hnk] at this
          simp only at this
          split at this
          · cases this
          · exact Option.some.inj this
        subst this
        rw [hsa'] at hsa; cases hsa
        refine ⟨a, hat, ?_, ?_, ?_, ?_, fun hnp => absurd hkP hnp⟩
        · rw [hs.1]; simp [requested, hkind]
        · rw [hs.2.1]; simp [requested, hkind]
        · rw [hs.2.2.1]; simp [requested, hkind, hch]
        · rw [hs.2.2.2.1]; simp [requested, hkind, hrad]
      · exact absurd hkind hk'
    · obtain ⟨a, ha, h1, h2, h3, h4, h5⟩ := frame_atoms h hnd k sa hsa hkP (by rw [hdel]; simp)
      exact ⟨a, ha, h1, h2, h3, h4, fun _ => h5⟩
  · intro a c ha
    by_cases hPP : a ∈ p.patchedIds ∧ c ∈ p.patchedIds
    · obtain ⟨n, hn, hna⟩ := hpre a hPP.1
      obtain ⟨m, hm, hmc⟩ := hpre c hPP.2
      rw [named_bonds_as_requested h hnd hid.repl_wf hid.inj n m a c hn hm hna hmc]
      obtain ⟨a', _, hmga, _, hmpa⟩ := hfinal n hn
      obtain ⟨c', _, hmgc, _, hmpc⟩ := hfinal m hm
      rw [hna] at hmpa; cases hmpa
      rw [hmc] at hmpc; cases hmpc
      rw [hid.bonds n m a c hn hm hmga hmgc]
      cases s.bond? a c <;> simp [strip]
    · have hrow : ∃ row, (a, row) ∈ s.adj := by
        have hk : a ∈ s.adj.map (·.1) := by
          simp only [Mol.WF, Bool.and_eq_true, decide_eq_true_eq, beq_iff_eq] at hwf
          rw [hwf.1.2]; exact ha
        obtain ⟨⟨a', row⟩, hmem, rfl⟩ := List.mem_map.1 hk
        exact ⟨row, hmem⟩
      rw [frame_bonds h hnd hsrc a c hrow (by rw [hdel]; simp) hPP, hdel]
      simp

/-! ## `Transformer.__call__` and the choice of matches -/

theorem transformerCall_cons {s : Mol} {t : Template} {td : List Nat} {mp : List (Nat × Nat)}
    {tl : List (List (Nat × Nat))} {r : List Patched} :
    transformerCall s t td (mp :: tl) = .ok r ↔
      ∃ p ps, patcher s t td mp = .ok p ∧ transformerCall s t td tl = .ok ps ∧ r = p :: ps := by
  simp only [transformerCall]
  constructor
  · intro h
    split at h
    · simp at h
    · next p hp =>
      split at h
      · simp at h
      · next ps hps =>
        simp only [Except.ok.injEq] at h
        exact ⟨p, ps, hp, hps, h.symm⟩
  · rintro ⟨p, ps, hp, hps, rfl⟩
    simp [hp, hps]

/-- **one product per match**: a successful `Transformer` call returns exactly one `_patcher` result per mapping the
matcher yielded, in the same order -/
theorem one_product_per_match {s : Mol} {t : Template} {td : List Nat} :
    ∀ (l : List (List (Nat × Nat))) (r : List Patched), transformerCall s t td l = .ok r →
    r.length = l.length ∧ ∀ i (hi : i < l.length) (hr : i < r.length), patcher s t td l[i] = .ok r[i] := by
  intro l
  induction l with
  | nil => intro r h; simp only [transformerCall, Except.ok.injEq] at h; subst h; simp
  | cons mp tl ih =>
    intro r h
    obtain ⟨p, ps, hp, hps, rfl⟩ := transformerCall_cons.1 h
    obtain ⟨hl, hi⟩ := ih ps hps
    refine ⟨by simp [hl], ?_⟩
    intro i h1 h2
    cases i with
    | zero => simpa using hp
    | succ j => simpa using hi j (by simpa using h1) (by simpa using h2)

/-- FULL statement about the matcher's automorphism filter — **false for the current code** (known finding
`C16/numbering-independence/automorphism-filter`; witness `Findings.C16.automorphism_filter_choice_matters`):
two matches with the same image (which the default `automorphism_filter=True` treats as one, keeping whichever is
enumerated first) lead to the same product. -/
def SameImageSameProduct : Prop :=
  ∀ (s : Mol) (t : Template) (ma mb : List (Nat × Nat)) (pa pb : Patched),
    (∀ v, v ∈ ma.map (·.2) ↔ v ∈ mb.map (·.2)) →
    patcher s t (toDeleteOf t) ma = .ok pa → patcher s t (toDeleteOf t) mb = .ok pb →
    ∀ a c, pa.mol.bond? a c = pb.mol.bond? a c

/-- the part that holds (`_partial`; excluded class: the matcher dropping matches by image): when the matcher's list of
matches is only *reordered* (what renumbering the reactant does to an unfiltered enumeration), the products are the same
up to order — the product multiset is a function of the multiset of matches. -/
theorem product_set_independent_of_match_order_partial {s : Mol} {t : Template} {td : List Nat}
    {l1 l2 : List (List (Nat × Nat))} (hp : l1.Perm l2) :
    ∀ r1, transformerCall s t td l1 = .ok r1 → ∃ r2, transformerCall s t td l2 = .ok r2 ∧ r1.Perm r2 := by
  induction hp with
  | nil => intro r1 h; exact ⟨r1, h, List.Perm.refl _⟩
  | cons x _ ih =>
    intro r1 h
    obtain ⟨p, ps, hp', hps, rfl⟩ := transformerCall_cons.1 h
    obtain ⟨r2, h2, hperm⟩ := ih ps hps
    exact ⟨p :: r2, transformerCall_cons.2 ⟨p, r2, hp', h2, rfl⟩, List.Perm.cons p hperm⟩
  | swap x y l =>
    intro r1 h
    obtain ⟨py, ps, hy, hps, rfl⟩ := transformerCall_cons.1 h
    obtain ⟨px, ps', hx, hps', rfl⟩ := transformerCall_cons.1 hps
    exact ⟨px :: py :: ps', transformerCall_cons.2 ⟨px, _, hx, transformerCall_cons.2 ⟨py, ps', hy, hps', rfl⟩, rfl⟩,
      List.Perm.swap px py ps'⟩
  | trans _ _ ih1 ih2 =>
    intro r1 h
    obtain ⟨r2, h2, p12⟩ := ih1 r1 h
    obtain ⟨r3, h3, p23⟩ := ih2 r2 h2
    exact ⟨r3, h3, p12.trans p23⟩

/-! ## `BaseReactor.__init__` -/

/-- **which template atoms are removed**: exactly the pattern atoms that are not masked and do not occur in the
replacement — and none at all with `delete_atoms=False` ("removed … unless masked") -/
theorem to_delete_spec (t : Template) (n : Nat) :
    n ∈ toDeleteOf t ↔ t.deleteAtoms = true ∧ (n, false) ∈ t.pattern ∧ n ∉ t.replAtoms.map (·.1) := by
  unfold toDeleteOf
  split
  · next hd =>
    simp only [List.mem_filter, List.mem_map, hd, true_and]
    constructor
    · rintro ⟨⟨⟨k, msk⟩, ⟨hmem, hm⟩, rfl⟩, hnot⟩
      have : msk = false := by simpa using hm
      subst this
      exact ⟨hmem, by simpa using hnot⟩
    · rintro ⟨hmem, hnot⟩
      exact ⟨⟨(n, false), ⟨hmem, by simp⟩, rfl⟩, by simpa using hnot⟩
  · next hd => simp [hd]

/-- a template accepted by the constructor has only any-atoms / element query atoms with at most one hydrogen clause and
single-order bonds in a query replacement; the error branches exist -/
theorem init_accepts_only_supported (t : Template) (td : List Nat) (h : templateInit t = .ok td) (hq : t.replIsQuery = true) :
    td = toDeleteOf t ∧ ∀ n ra, (n, ra) ∈ t.replAtoms → (ra.kind = .any ∨ ra.kind = .query) ∧ ra.hs.length ≤ 1 := by
  unfold templateInit at h
  simp only [hq, if_true] at h
  split at h
  · simp at h
  · next hchk =>
    split at h
    · simp at h
    · simp only [Except.ok.injEq] at h
      refine ⟨h.symm, ?_⟩
      have : ∀ (l : List (Nat × RAtom)), initCheckAtoms l = .ok () → ∀ n ra, (n, ra) ∈ l →
          (ra.kind = .any ∨ ra.kind = .query) ∧ ra.hs.length ≤ 1 := by
        intro l
        induction l with
        | nil => intro _ n ra hm; simp at hm
        | cons e tl ih =>
          obtain ⟨k, a⟩ := e
          intro hl n ra hm
          simp only [initCheckAtoms] at hl
          split at hl
          · simp at hl
          · next hk =>
            split at hl
            · simp at hl
            · next hh =>
              rcases List.mem_cons.1 hm with heq | hin
              · cases heq
                refine ⟨?_, by omega⟩
                simp only [bne_iff_ne, ne_eq, Bool.and_eq_true, decide_eq_true_eq, not_and, Decidable.not_not] at hk
                by_cases h1 : a.kind = RKind.any
                · exact Or.inl h1
                · exact Or.inr (hk h1)
              · exact ih hl n ra hin
      exact this t.replAtoms hchk

/-! ## `fix_mapping_overlap` and the collision remap of `Reactor._single_stage` (unique numbers across molecules)

`orders` / `order` are the iteration orders of the Python sets `intersection` / `collision` (any order). -/

/-- **overlap remap is injective and fresh**: whatever numbers the reactants arrive with (and whatever the set iteration
orders), the structures `fix_mapping_overlap` returns are as many as the inputs, each keeps pairwise distinct atom numbers, and
no number occurs in two of them -/
theorem fix_mapping_overlap_disjoint (ss : List Mol) (orders : List (List Nat)) (out : List Mol)
    (h : fixMappingOverlap ss orders = .ok out) (hnd : ∀ s ∈ ss, s.ids.Nodup) :
    out.length = ss.length ∧ (∀ s' ∈ out, s'.ids.Nodup) ∧ out.Pairwise (fun a b => ∀ k ∈ a.ids, k ∉ b.ids) := by
  unfold fixMappingOverlap at h
  split at h
  · next s =>
    simp only [Except.ok.injEq] at h
    subst h
    exact ⟨rfl, by simpa using hnd, by simp⟩
  · obtain ⟨h1, h2, h3⟩ := fixOverlapLoop_disjoint ss orders [] out h hnd
    exact ⟨h1, fun s' hs' => (h2 s' hs').1, h3⟩

/-- after the collision remap of `_single_stage` no product atom carries a number of an ignored (spectator) molecule, and
the product's numbers stay pairwise distinct -/
theorem collision_remap_disjoint (new new' : Mol) (ignored order : List Nat)
    (h : collisionRemap new ignored order = .ok new') (hnd : new.ids.Nodup) :
    (∀ k ∈ new'.ids, k ∉ ignored) ∧ new'.ids.Nodup :=
  collisionRemap_disjoint h hnd

/-- non-trivial instance: two copies of a 2-atom molecule numbered 1,2 — the second is renumbered to 3,4 -/
example : (match fixMappingOverlap
      [⟨[(1, {z := 6}), (2, {z := 8})], [(1, [(2, {order := 1})]), (2, [(1, {order := 1})])]⟩,
       ⟨[(1, {z := 6}), (2, {z := 7})], [(1, [(2, {order := 1})]), (2, [(1, {order := 1})])]⟩] [[], [2, 1]] with
    | .ok out => out.map (·.ids) == [[1, 2], [4, 3]]
    | .error _ => false) = true := by decide

/-! ## `Graph.union` — `a | b` = `a.union(b, remap=True)` (`reduce(or_, chosen)` of `_single_stage`) and `a.union(b)`

`union a b`, `unionR flag a b`, `unionAll` are the functions the driver runs (`union2`, `union`, `stage`).
`Mol.WF` is the executable well-formedness test the driver applies to both operands. -/

/-- **union of well-formed graphs**: for every pair of well-formed graphs `a | b` does not raise, and there is a renumbering
`f` of the second operand such that
* `f` is injective on `b`'s atoms and its image avoids `a`'s numbers (the two copies are disjoint);
* numbering exactly as the code does it: when a number occurs in both operands, the `i`-th atom of `b` (dict order)
  becomes `max(a) + 1 + i` — *every* atom of `b`, not only the colliding ones; when no number is shared `f` is the identity;
* the result lists `a`'s atoms (numbers and dict order kept) followed by `b`'s atoms renumbered, all numbers distinct;
* every atom and every bond of `a` is in the result unchanged, and an atom of `a` has no other bond (`bond? n c` is `a`'s for
  every `c`);
* `f` is an isomorphism of `b` onto the second part: same atom, and the bond between two images is the bond of `b`;
* no bond joins the two copies (either direction), and an image has no bond leaving the image of `b`. -/
theorem union_isomorphic_disjoint_copies (a b : Mol) (ha : a.WF = true) (hb : b.WF = true) :
    ∃ u f, union a b = .ok u ∧
      (∀ k1 ∈ b.ids, ∀ k2 ∈ b.ids, f k1 = f k2 → k1 = k2) ∧
      (∀ k ∈ b.ids, f k ∉ a.ids) ∧
      ((∃ n, n ∈ a.ids ∧ n ∈ b.ids) → ∀ i (hi : i < b.ids.length), f b.ids[i] = maxOf a.ids + 1 + i) ∧
      ((∀ n ∈ a.ids, n ∉ b.ids) → ∀ k, f k = k) ∧
      (u.ids = a.ids ++ b.ids.map f ∧ u.ids.Nodup) ∧
      (∀ n ∈ a.ids, u.atoms.lookup n = a.atoms.lookup n) ∧
      (∀ n ∈ a.ids, ∀ c, u.bond? n c = a.bond? n c) ∧
      (∀ k ∈ b.ids, u.atoms.lookup (f k) = b.atoms.lookup k) ∧
      (∀ k ∈ b.ids, ∀ k' ∈ b.ids, u.bond? (f k) (f k') = b.bond? k k') ∧
      (∀ n ∈ a.ids, ∀ k ∈ b.ids, u.bond? n (f k) = none ∧ u.bond? (f k) n = none) ∧
      (∀ k ∈ b.ids, ∀ c, c ∉ b.ids.map f → u.bond? (f k) c = none) := by
  obtain ⟨u, hu, _⟩ := union_total_wf ha hb
  have hbnd : b.ids.Nodup := (wf_sound hb).1
  obtain ⟨hinj, hfresh, hnum⟩ := shiftOf_spec a b hbnd
  obtain ⟨h1, h2, h3, h4, h5, h6, h7⟩ := union_spec ha hb hu
  refine ⟨u, shiftOf a b, hu, hinj, hfresh, ?_, ?_, h1, h2, h3, h4, h5, h6, h7⟩
  · intro hc
    rw [if_pos ((collide_iff a b).2 hc)] at hnum
    exact hnum
  · intro hd
    have : ¬ (a.ids.any b.ids.contains = true) := by
      intro hc
      obtain ⟨n, h1, h2⟩ := (collide_iff a b).1 hc
      exact hd n h1 h2
    rw [if_neg this] at hnum
    exact hnum

/-- the union of two well-formed graphs is a well-formed graph (unique numbers, adjacency keyed by the atoms, symmetric,
no loops) — so `reduce(or_, chosen)` hands `_patcher` a structure satisfying the hypotheses of the frame theorems -/
theorem union_result_wf (a b u : Mol) (ha : a.WF = true) (hb : b.WF = true) (h : union a b = .ok u) : u.WF = true :=
  union_wf ha hb h

/-- `reduce(or_, chosen)` over any non-empty list of well-formed molecules succeeds with a well-formed result;
over the empty list it raises `TypeError` -/
theorem unionAll_total_wf (ms : List Mol) (h : ∀ m ∈ ms, m.WF = true) :
    (ms = [] ∧ ∃ e, unionAll ms = .error e) ∨ (ms ≠ [] ∧ ∃ u, unionAll ms = .ok u ∧ u.WF = true) := by
  cases ms with
  | nil => exact Or.inl ⟨rfl, _, rfl⟩
  | cons m tl =>
    refine Or.inr ⟨by simp, ?_⟩
    simp only [unionAll]
    have : ∀ (l : List Mol) (acc : Mol), acc.WF = true → (∀ x ∈ l, x.WF = true) →
        ∃ u, l.foldl (fun acc x => match acc with
          | .error e => .error e
          | .ok u => union u x) (Except.ok acc : Except PyErr Mol) = .ok u ∧ u.WF = true := by
      intro l
      induction l with
      | nil => intro acc hacc _; exact ⟨acc, rfl, hacc⟩
      | cons x xs ih =>
        intro acc hacc hl
        obtain ⟨u, hu, huw⟩ := union_total_wf hacc (hl x (by simp))
        simp only [List.foldl_cons, hu]
        exact ih u huw (fun y hy => hl y (List.mem_cons_of_mem _ hy))
    exact this tl m (h m (by simp)) (fun x hx => h x (List.mem_cons_of_mem _ hx))

/-- **`remap=False` precondition and its error**: `a.union(b)` raises `MappingError` exactly when some number occurs in both
operands — for any operands; `a | b` never raises on well-formed operands; and when the numbers are disjoint both give
the same result (which by `union_isomorphic_disjoint_copies` is the unrenumbered disjoint union) -/
theorem union_strict_precondition (a b : Mol) :
    (unionR false a b = .error (.mappingError "mapping of graphs is not disjoint") ↔ ∃ n, n ∈ a.ids ∧ n ∈ b.ids) ∧
    ((∀ n ∈ a.ids, n ∉ b.ids) → unionR false a b = unionR true a b) ∧
    (a.WF = true → b.WF = true → ∀ flag, (∃ e, unionR flag a b = .error e) ↔ flag = false ∧ ∃ n, n ∈ a.ids ∧ n ∈ b.ids) :=
  ⟨by rw [unionR_false]; exact unionStrict_error_iff' a b,
   fun h => by rw [unionR_false, unionR_true]; exact unionStrict_eq_union h,
   fun ha hb flag => unionR_error_iff ha hb flag⟩

/-- **one match of `_single_stage`, end to end** (`reduce(or_, chosen)` → `_patcher` → collision remap — the function the driver
runs for `stage`): for well-formed reactant molecules with *any* numbering (colliding or not) the delivered product has
pairwise distinct atom numbers, none of which is a number of an ignored (spectator) molecule — so the `ReactionContainer`
assembled from `new + ignored` never repeats an atom number when the spectators themselves are disjoint
(`fix_mapping_overlap_disjoint`) -/
theorem single_stage_numbers_unique_and_clear_of_ignored (t : Template) (td : List Nat) (chosen : List Mol)
    (mapping : List (Nat × Nat)) (ignored order : List Nat) (new : Mol) (hwf : ∀ m ∈ chosen, m.WF = true)
    (h : singleStage t td chosen mapping ignored order = .ok new) :
    new.ids.Nodup ∧ ∀ k ∈ new.ids, k ∉ ignored := by
  unfold singleStage at h
  split at h
  · simp at h
  · next u hu =>
    split at h
    · simp at h
    · next p hp =>
      have huwf : u.WF = true := by
        rcases unionAll_total_wf chosen hwf with ⟨_, e, he⟩ | ⟨_, u', hu', hw⟩
        · rw [hu] at he; cases he
        · rw [hu] at hu'; cases hu'; exact hw
      have hnd : p.mol.ids.Nodup := product_numbers_unique hp (wf_sound huwf).1
      obtain ⟨h1, h2⟩ := collision_remap_disjoint p.mol new ignored order h hnd
      exact ⟨h2, h1⟩

/-- non-trivial instances: C1–O2 united with C1–N2 (all numbers collide): the second becomes 3, 4 with its bond; united with
C5–N6 (disjoint): numbers kept; `remap=False` raises in the first case only -/
def exU1 : Mol := ⟨[(1, {z := 6}), (2, {z := 8})], [(1, [(2, {order := 1})]), (2, [(1, {order := 1})])]⟩
def exU2 : Mol := ⟨[(2, {z := 6}), (1, {z := 7})], [(2, [(1, {order := 2})]), (1, [(2, {order := 2})])]⟩
def exU3 : Mol := ⟨[(5, {z := 6}), (6, {z := 7})], [(5, [(6, {order := 2})]), (6, [(5, {order := 2})])]⟩
example : exU1.WF = true ∧ exU2.WF = true ∧ exU3.WF = true := by decide
example : (match union exU1 exU2 with
    | .ok u => u.ids == [1, 2, 3, 4] && u.bond? 3 4 == some {order := 2} && u.bond? 1 2 == some {order := 1}
               && u.bond? 2 3 == none && u.atoms.lookup 3 == some {z := 6}
    | .error _ => false) = true := by decide
example : (match union exU1 exU3 with
    | .ok u => u.ids == [1, 2, 5, 6] && u.bond? 5 6 == some {order := 2}
    | .error _ => false) = true := by decide
example : unionR false exU1 exU2 = .error (.mappingError "mapping of graphs is not disjoint") := by rfl
example : unionR false exU1 exU3 = unionR true exU1 exU3 := by rfl

/-! ## the exhaustive mode (`one_shot=False`) of `Reactor.__call__`: FIFO worklist with string de-duplication

`C16W.worklist S limit fuel init` is the literal loop (`deque`, `seen`, depth counter, `polymerise_limit`) over an abstract
single-step system `S : Sys σ ρ κ` (`step` = reactions of one queue item in generator order, `key` = `str(r)`, `stop` = the
"ambiguous multicomponent" flag, `succ` = items appended for a reaction); `init` = the initial queue. The driver runs it
(op `worklist`) on the step system recorded from the real `_single_stage`. -/
section worklist
open ChythonModel.Model.C16W ChythonModel.Proofs.C16W
variable {σ ρ κ : Type} [DecidableEq κ]

/-- **termination** (no fuel in the statement's conclusion): the loop stops for every finitely-branching step system —
`polymerise_limit` bounds the depth. With at least `work` fuel (the number of queue items processed level by level) it
returns the level-by-level result `worklistBfs`, which is defined by structural recursion -/
theorem worklist_terminates (S : Sys σ ρ κ) (limit : Nat) (init : List σ) (fuel : Nat)
    (h : work S limit (max limit 1) 0 init [] ≤ fuel) :
    worklist S limit fuel init = some (worklistBfs S limit init) :=
  loop_eq_bfs S limit (max limit 1) 0 init [] fuel (by omega) (by omega) h

/-- **fuel independence**: whatever fuel the loop finishes with, the result is the same list -/
theorem worklist_fuel_independent (S : Sys σ ρ κ) (limit : Nat) (init : List σ) (fuel : Nat) (out : List ρ)
    (h : worklist S limit fuel init = some out) : out = worklistBfs S limit init :=
  loop_some_eq_bfs S limit (max limit 1) 0 init [] fuel out (by omega) (by omega) h

/-- **each key reported once**: the `str(r)` of the yielded reactions are pairwise distinct -/
theorem worklist_reports_each_key_once (S : Sys σ ρ κ) (limit : Nat) (init : List σ) (fuel : Nat) (out : List ρ)
    (h : worklist S limit fuel init = some out) : (out.map S.key).Nodup := by
  rw [worklist_fuel_independent S limit init fuel out h]
  exact (bfs_keys_nodup_aux S limit _ 0 init []).1

/-- **soundness**: every yielded reaction is produced by a queue item that the un-deduplicated process reaches within the
depth limit (`ReachItem`) -/
theorem worklist_sound (S : Sys σ ρ κ) (limit : Nat) (init : List σ) (fuel : Nat) (out : List ρ)
    (h : worklist S limit fuel init = some out) :
    ∀ r ∈ out, ∃ d it, ReachItem S limit init d it ∧ r ∈ S.step it := by
  rw [worklist_fuel_independent S limit init fuel out h]
  exact bfs_sound_aux S limit init _ 0 init [] (fun it hit => ReachItem.base hit)

/-- **completeness up to the de-duplication key**: if the key is a congruence of the step system (`Congr`: reactions with the
same `str` have the same ambiguity flag and equivalent continuations), then for every reaction the un-deduplicated process
can produce within the depth limit a reaction with the same key is yielded -/
theorem worklist_complete_up_to_key (S : Sys σ ρ κ) (E : σ → σ → Prop) (hC : Congr S E) (limit : Nat) (init : List σ)
    (fuel : Nat) (out : List ρ) (h : worklist S limit fuel init = some out) :
    ∀ d it r, ReachItem S limit init d it → r ∈ S.step it → ∃ r' ∈ out, S.key r' = S.key r := by
  rw [worklist_fuel_independent S limit init fuel out h]
  intro d it r hreach hr
  obtain ⟨hd, htail⟩ := reach_tail hreach
  obtain ⟨it0, h0, ht0⟩ := htail 0 _ (Tail.here hr)
  have := bfs_complete_aux hC limit (max limit 1) 0 init [] (by intro _ _ _ hk; simp at hk) d
    (by omega) (by omega) it0 h0 _ ht0
  rcases this with h | h
  · simp at h
  · obtain ⟨r', hr', hk⟩ := List.mem_map.1 h
    exact ⟨r', hr', hk⟩

/-- **reported set = reachable set up to the key**, each key once -/
theorem worklist_reports_reachable_set (S : Sys σ ρ κ) (E : σ → σ → Prop) (hC : Congr S E) (limit : Nat) (init : List σ)
    (fuel : Nat) (out : List ρ) (h : worklist S limit fuel init = some out) :
    (out.map S.key).Nodup ∧
    ∀ k, k ∈ out.map S.key ↔ ∃ d it r, ReachItem S limit init d it ∧ r ∈ S.step it ∧ S.key r = k := by
  refine ⟨worklist_reports_each_key_once S limit init fuel out h, ?_⟩
  intro k
  constructor
  · intro hk
    obtain ⟨r, hr, rfl⟩ := List.mem_map.1 hk
    obtain ⟨d, it, h1, h2⟩ := worklist_sound S limit init fuel out h r hr
    exact ⟨d, it, r, h1, h2, rfl⟩
  · rintro ⟨d, it, r, h1, h2, rfl⟩
    obtain ⟨r', hr', hk⟩ := worklist_complete_up_to_key S E hC limit init fuel out h d it r h1 h2
    exact List.mem_map.2 ⟨r', hr', hk⟩

/-- **one-shot mode**: the reactions yielded have pairwise distinct `str`, each is produced by one of the initial choices of
reactants, and every key any initial choice produces is reported — no hypothesis (nothing is re-queued, so no congruence is
needed) -/
theorem one_shot_reports_all_keys_once (S : Sys σ ρ κ) (init : List σ) :
    ((oneShot S init).map S.key).Nodup ∧
    (∀ r ∈ oneShot S init, ∃ it ∈ init, r ∈ S.step it) ∧
    (∀ k, k ∈ (oneShot S init).map S.key ↔ ∃ it ∈ init, ∃ r ∈ S.step it, S.key r = k) := by
  have hsound : ∀ r ∈ oneShot S init, ∃ it ∈ init, r ∈ S.step it := by
    intro r hr
    obtain ⟨it, hp, _⟩ := scan_out_succ S false (pairs S init) [] [] r hr
    obtain ⟨h1, h2⟩ := (mem_pairs S init it r).1 hp
    exact ⟨it, h1, h2⟩
  refine ⟨(scan_out_fresh S false (pairs S init) [] []).1, hsound, ?_⟩
  intro k
  constructor
  · intro hk
    obtain ⟨r, hr, rfl⟩ := List.mem_map.1 hk
    obtain ⟨it, h1, h2⟩ := hsound r hr
    exact ⟨it, h1, r, h2, rfl⟩
  · rintro ⟨it, hit, r, hr, rfl⟩
    have := scan_pairs_seen S false (pairs S init) [] [] (it, r) ((mem_pairs S init it r).2 ⟨hit, hr⟩)
    rcases (scan_seen_iff S false (pairs S init) [] [] _).1 this with h | h
    · simp at h
    · exact h

end worklist

/-! The hypotheses are satisfiable by a non-trivial instance. A dihalide X–R–X' under a substitution template: queue item 0 is the
dihalide; its two mono-substituted products (keys 1, 2) are re-queued as items 1 and 2; both give the di-substituted product
(key 3). `str` is a congruence (`Congr`, with `E` = equality of items), the loop needs 4 iterations (`work`; with less fuel it answers `none`), key 3 is reported once
although two queue items produce it, and a depth limit of 1 stops after the first level. -/
section worklist_example
open ChythonModel.Model.C16W ChythonModel.Proofs.C16W

def exSys : Sys (Fin 4) (Fin 4 × Fin 4) (Fin 4) where
  step := fun s => if s = 0 then [(0, 1), (0, 2)] else if s = 1 then [(1, 3)] else if s = 2 then [(2, 3)] else []
  key := fun r => r.2
  stop := fun _ => false
  succ := fun _ r => if r.2 = 1 then [1] else if r.2 = 2 then [2] else [3]

example : Congr exSys (fun s s' => s = s') where
  step_keys := by decide
  key_cont := by
    have : ∀ s s' : Fin 4, ∀ r ∈ exSys.step s, ∀ r' ∈ exSys.step s', exSys.key r = exSys.key r' →
        exSys.stop r = exSys.stop r' ∧ ∀ s2 ∈ exSys.succ s r, ∃ s2' ∈ exSys.succ s' r', s2 = s2' := by decide
    intro s s' r r' hr hr'
    exact this s s' r hr r' hr'

example : worklist exSys 10 4 [0] = some [(0, 1), (0, 2), (1, 3)] := by decide
example : worklist exSys 10 3 [0] = none := by decide
example : work exSys 10 (max 10 1) 0 [0] [] = 4 := by decide
example : worklist exSys 1 1 [0] = some [(0, 1), (0, 2)] := by decide
example : oneShot exSys [1, 2, 0] = [(1, 3), (0, 1), (0, 2)] := by decide

/-- the congruence hypothesis of `worklist_complete_up_to_key` cannot be dropped: items 0 and 1 yield reactions with the same
key 5, only item 1's has a successor (item 2, key 6). The second reaction is de-duplicated, item 2 is never queued, key 6 is
reachable (`ReachItem … 1 2`) but not reported. (For the real `Reactor` the hypothesis says: two reactions with the same
`str(r)` have equivalent continuations — true when `str` is a canonical form of the product multiset.) -/
def exBad : Sys (Fin 3) (Fin 3 × Fin 7) (Fin 7) where
  step := fun s => if s = 0 then [(0, 5)] else if s = 1 then [(1, 5)] else [(2, 6)]
  key := fun r => r.2
  stop := fun _ => false
  succ := fun s _ => if s = 1 then [2] else []

example : worklist exBad 10 5 [0, 1] = some [(0, 5)] ∧ ReachItem exBad 10 [0, 1] 1 2 ∧ (2, 6) ∈ exBad.step 2 :=
  ⟨by decide, ReachItem.hop (it := 1) (r := (1, 5)) (ReachItem.base (by decide)) (by decide) rfl (by decide) (by decide),
   by decide⟩

end worklist_example

/-! ## `ReactionContainer.contract_ions()` ("try to keep salts", called by `Reactor.__call__` when a match gives several product
molecules)

`C16I.contractSide mols` / `C16I.contractProducts ankey ctkey mols` are the reactant / product side of `contract_ions()` on the
molecules seen as `(id, equality class, total charge)`; a group `[a, b, c]` of the result is the molecule `a | b | c`
(`Graph.union`, see `union_isomorphic_disjoint_copies`). The driver runs both (op `ions`) against the real method. -/
section ions
open ChythonModel.Model.C16I ChythonModel.Proofs.C16I

/-- **never raises**: for every list of molecules (any charges, any equalities, any ordering keys) both sides succeed — the
`pop()`s of the pairing loops never hit an empty list, because `_sift_ions` hands over the true total and correctly signed ions -/
theorem contract_ions_never_raises (mols : List Ion) (ankey ctkey : Ion → Int) :
    (∃ r, contractSide mols = .ok r) ∧ (∃ r, contractProducts ankey ctkey mols = .ok r) :=
  ⟨contractSide_total mols, contractProducts_total ankey ctkey mols⟩

/-- **nothing lost, nothing invented**: the groups of the result are non-empty and together are exactly the input molecules
(as a multiset) — every molecule ends up in exactly one product molecule / salt; both sides -/
theorem contract_ions_partition (mols : List Ion) (ankey ctkey : Ion → Int) (r : List (List Ion)) :
    (contractSide mols = .ok r → r.flatten.Perm mols ∧ ∀ g ∈ r, g ≠ []) ∧
    (contractProducts ankey ctkey mols = .ok r → r.flatten.Perm mols ∧ ∀ g ∈ r, g ≠ []) :=
  ⟨contractSide_perm, contractProducts_perm⟩

/-- **neutral molecules are untouched**: every uncharged molecule stays a molecule of its own; the result is either the input
unchanged or the neutral molecules (in their order) followed by salts made of charged molecules only -/
theorem contract_ions_neutral_untouched (mols : List Ion) (r : List (List Ion)) (h : contractSide mols = .ok r) :
    (∀ m ∈ mols, m.charge = 0 → [m] ∈ r) ∧
    (r = mols.map (fun m => [m]) ∨
     ∃ salts, r = (mols.filter (fun m => m.charge == 0)).map (fun m => [m]) ++ salts ∧
       ∀ s ∈ salts, ∀ m ∈ s, m.charge ≠ 0) :=
  contractSide_neutral_kept h

/-- **salts are neutral**: when the side is charge-balanced and something was contracted, every molecule of the result has
total charge 0 -/
theorem contract_ions_salts_neutral (mols : List Ion) (r : List (List Ion)) (h : contractSide mols = .ok r)
    (hbal : chg mols = 0) (hc : r ≠ mols.map (fun m => [m])) : ∀ g ∈ r, chg g = 0 :=
  contractSide_charges h hbal hc

/-- **when nothing is contracted** (`_contract_ions` returns `None`): no anion, or no cation, or an excess of positive charge
with more than one cation, or an excess of negative charge with more than one anion, or a balanced mixture of several
different anions and several different cations; in every other case one salt (unbalanced: `total ≠ 0`) or neutral salts
(balanced) are formed -/
theorem contract_ions_ambiguity_rule (anions cations : List Ion) (total : Int) :
    (contractIons anions cations total = .ok none ↔
      anions = [] ∨ cations = [] ∨ (total > 0 ∧ cations.length > 1) ∨ (total < 0 ∧ anions.length > 1) ∨
      (total = 0 ∧ distinct anions > 1 ∧ distinct cations > 1)) ∧
    (∀ salts, total = chg anions + chg cations → contractIons anions cations total = .ok (some salts) →
      (total = 0 → ∀ s ∈ salts, chg s = 0) ∧ (total ≠ 0 → ∃ s, salts = [s] ∧ chg s = total)) :=
  ⟨contractIons_none_iff anions cations total, fun _ ht h => contractIons_charges ht h⟩

/-- the error branch of the pairing loop is real (it is `_sift_ions` that keeps `contract_ions` away from it) -/
example : go none [⟨1, 1, -2⟩] [⟨2, 2, 1⟩] [] = .error .indexError := by simp [go]

/-- non-trivial instances: NaCl + water; Ca²⁺ with two chlorides (popped from the end); ambiguous mixture unchanged -/
example : contractSide [⟨1, 1, 1⟩, ⟨2, 2, -1⟩, ⟨3, 3, 0⟩] = .ok [[⟨3, 3, 0⟩], [⟨1, 1, 1⟩, ⟨2, 2, -1⟩]] := by
  simp [contractSide, siftIons, contractIons, distinct, List.eraseDups_cons, go]
example : contractSide [⟨1, 1, 2⟩, ⟨2, 2, -1⟩, ⟨3, 2, -1⟩] = .ok [[⟨1, 1, 2⟩, ⟨3, 2, -1⟩, ⟨2, 2, -1⟩]] := by
  simp [contractSide, siftIons, contractIons, distinct, List.eraseDups_cons, go]

end ions

/-- the executable well-formedness test the driver applies to every structure (`Mol.WF`: unique keys, adjacency keyed by
the atoms, symmetric with the same bond on both sides, no loops) implies the hypotheses of the frame theorems, and the
adjacency `_get_deleted` reads is then undirected -/
theorem wf_gives_hypotheses (s : Mol) (h : s.WF = true) : s.ids.Nodup ∧ SrcWF s := wf_sound h

/-- the error branches are real: an any-atom of the replacement that the pattern did not match raises `ValueError`,
an empty structure raises (`max()` of an empty sequence) -/
theorem patcher_raises_on_unmatched_any :
    patcher ⟨[(1, {z := 6})], [(1, [])]⟩
      { pattern := [(1, false)], replIsQuery := true, replAtoms := [(1, {kind := .any}), (2, {kind := .any})],
        replBonds := [], deleteAtoms := true } [] [(1, 1)]
      = .error (.valueError "AnyElement doesn't match to pattern") := by rfl

/-! Hypotheses are satisfiable by a non-trivial instance: propan-1-ol-like chain C1–C2–O3, template with any-atom reuse
(`A:1`), a re-typed existing atom (`S:2`) and a new atom with a hydrogen count (`[C;h3:5]`), match 1↦2, 2↦3:
the structure is well-formed, the run succeeds, the new atom gets number 4, the unnamed atom 1 is untouched. -/
def exS : Mol := ⟨[(1, {z := 6, implH := some 3}), (2, {z := 6, implH := some 2}), (3, {z := 8, implH := some 1})],
  [(1, [(2, {order := 1})]), (2, [(1, {order := 1}), (3, {order := 1})]), (3, [(2, {order := 1})])]⟩

def exT : Template where
  pattern := [(1, false), (2, false)]
  replIsQuery := true
  replAtoms := [(1, {kind := .any}), (2, {kind := .query, z := 16}), (5, {kind := .query, z := 6, hs := [3]})]
  replBonds := [(1, [(2, [1])]), (2, [(1, [1]), (5, [1])]), (5, [(2, [1])])]
  deleteAtoms := true

example : exS.WF = true := by decide
example : (exT.replAtoms.map (·.1)).Nodup := by decide
example : templateInit exT = .ok [] := by rfl
example : (match patcher exS exT [] [(1, 2), (2, 3)] with
    | .ok p => p.mol.ids == [2, 3, 4, 1] && p.patchedIds == [2, 3, 4] && p.mapping == [(1, 2), (2, 3), (5, 4)]
               && p.mol.atoms.lookup 3 == some {z := 16, implH := some 0}
               && p.mol.atoms.lookup 4 == some {z := 6, implH := some 3}
               && p.mol.atoms.lookup 1 == some {z := 6, implH := some 3}
               && p.mol.bond? 1 2 == some {order := 1} && p.mol.bond? 3 4 == some {order := 1}
    | .error _ => false) = true := by decide +kernel

/-- `single_stage_numbers_unique_and_clear_of_ignored` on a concrete run: the new atom would get number 4, which a spectator
molecule owns, and is moved above every number in sight (10) -/
example : (match singleStage exT [] [exS] [(1, 2), (2, 3)] [4, 9] [4] with
    | .ok m => m.ids == [2, 3, 10, 1] && m.bond? 3 10 == some {order := 1}
    | .error _ => false) = true := by decide +kernel

end ChythonModel.Props.C16
