import ChythonModel.Proofs.C13Step
/-!
# C13 — edits keep derived views coherent; transactions atomic; copies independent

All theorems are about `Model.C13.step`, the function the driver runs: it executes the event lists regenerated from the
source (`Gen/CacheEffects.lean`) through `interp`.  The theorems quantify over **all tables** `T` accepted by the
decidable static analysis `TablesOK` (proved sound for the interpreter in `Proofs/C13*.lean`), over all molecules,
all operation histories and all resolutions `obs` of data-dependent reads; `tables_ok_current` discharges the
analysis on today's regenerated table by kernel evaluation.  A change of the code that drops a flush, widens a keep
list, forgets a slot in `copy`, … regenerates a table on which `tables_ok_current` no longer evaluates to `true`.
-/
namespace ChythonModel.Props.C13
open ChythonModel.Model ChythonModel.Model.C13 ChythonModel.Gen.CacheEffects ChythonModel.Spec.Deps
open ChythonModel.Proofs.C13

/-! ## the regenerated table passes the analysis -/

theorem tables_ok_current : TablesOK current = true := by decide +kernel

/-- the keep lists of `flush_cache` and `copy` only name keys of the kind they are documented to preserve -/
theorem keep_lists_within_kinds :
    (∀ k ∈ flushKeepSssr, kindOf k = .skel) ∧ (∀ k ∈ flushKeepComponents, kindOf k = .conn) ∧
    (∀ k ∈ copyKeepSssr, kindOf k = .skel) ∧ (∀ k ∈ copyKeepComponents, kindOf k = .conn) := by decide

/-- ring / component values are computed from ring / component values and the adjacency only (regenerated dependency graph) -/
theorem adjacency_kinds_closed :
    ∀ k ∈ skelKeys ++ connKeys, (∀ d ∈ closure keyReads k, kindOf d ≠ .full) ∧
      (∀ r ∈ (keyRaw.lookup k).getD ["?"], r ∈ adjOnlyRaw) := by decide +kernel

/-! ## histories -/

/-- run a history (operation, observed `__dict__` keys after it) -/
def runHist (T : Tables) : World → List (Op × List String) → World
  | w, [] => w
  | w, (op, obs) :: rest => runHist T (step T w op obs).w rest

/-- a history inside the property's domain: every step satisfies `stepPre` and either succeeds or is refused by a guard
that leaves the world untouched (Python raised before mutating anything) -/
def admissible (T : Tables) : World → List (Op × List String) → Bool
  | _, [] => true
  | w, (op, obs) :: rest =>
    stepPre T w op && (((step T w op obs).err.isNone) || decide ((step T w op obs).w = w)) &&
      admissible T (step T w op obs).w rest

/-- **coherent_step**: one public operation preserves the invariant of every object: no stale ring / component value
ever, no stale value at all outside a transaction, backup snapshots coherent, both transaction slots assigned. -/
theorem coherent_step {T : Tables} (hT : TablesOK T = true) {w : World} {op : Op} {obs : List String} (hw : WInv w)
    (hp : stepPre T w op = true) (herr : (step T w op obs).err = none) : WInv (step T w op obs).w :=
  step_inv hT hw (stepPre_iff hp) herr

/-- **coherent_reachable**: induction over operation lists. -/
theorem coherent_reachable {T : Tables} (hT : TablesOK T = true) :
    ∀ (h : List (Op × List String)) (w : World), WInv w → admissible T w h = true → WInv (runHist T w h) := by
  intro h
  induction h with
  | nil => intro w hw _; exact hw
  | cons x rest ih =>
    intro w hw ha
    obtain ⟨op, obs⟩ := x
    simp only [admissible, Bool.and_eq_true, Bool.or_eq_true, decide_eq_true_eq] at ha
    simp only [runHist]
    apply ih _ _ ha.2
    rcases ha.1.2 with he | he
    · exact coherent_step hT hw ha.1.1 (by simpa using he)
    · rw [he]; exact hw

/-- a molecule as the constructor / a parser leaves it satisfies the invariant -/
theorem fresh_world_inv (m : Mol) : WInv (freshWorld m) := by
  intro o ho
  simp only [freshWorld, List.mem_singleton] at ho
  subst ho
  exact inv_emptyCache rfl (by simp [freshObj]) rfl

/-- **Main statement for today's code**: after any admissible history from any molecule, every memoised value of every
object outside a transaction equals the value computed now (`coherent`), and inside a transaction every ring and
component value does. -/
theorem reachable_cache_coherent (m : Mol) (h : List (Op × List String)) (ha : admissible current (freshWorld m) h = true) :
    ∀ o ∈ (runHist current (freshWorld m) h).objs,
      (o.backup = some none → coherent o.toCore = true) ∧
      (∀ e ∈ o.cache, kindOf e.key ≠ .full → e.fresh o.toCore = true) := by
  intro o ho
  have hinv := coherent_reachable tables_ok_current h _ (fresh_world_inv m) ha o ho
  refine ⟨fun hb => ?_, fun e he hk => ?_⟩
  · rw [coherent_iff]
    intro e he
    cases hk : kindOf e.key with
    | skel => exact hinv.skel e he hk
    | conn => exact hinv.conn e he hk
    | full => exact hinv.full hb e he hk
  · cases hk' : kindOf e.key with
    | skel => exact hinv.skel e he hk'
    | conn => exact hinv.conn e he hk'
    | full => exact absurd hk' hk

/-- **transfer to real derived functions**: if a derived function respects the dependency discipline of `Spec/Deps.lean`
(its value is determined by the view its key may depend on), then a fresh entry stands for the value computed now. -/
theorem transfer {V : Type} (derive : String → Core → V)
    (hframe : ∀ k c c', viewOf (kindOf k) c = viewOf (kindOf k) c' → derive k c = derive k c')
    (e : Entry) (c0 c : Core) (hsnap : e.val = viewOf (kindOf e.key) c0) (hfresh : e.fresh c = true) :
    derive e.key c0 = derive e.key c := by
  apply hframe
  simp [Entry.fresh] at hfresh
  rw [← hsnap, hfresh.2]

end ChythonModel.Props.C13
