import ChythonModel.Model.Cache
namespace ChythonModel.Props.C13
open ChythonModel.Model ChythonModel.Model.C13 ChythonModel.Gen.CacheEffects ChythonModel.Spec.Deps

/-- the keep lists of `flush_cache` and `copy` only name keys of the kind they are documented to preserve -/
theorem keep_lists_within_kinds :
    (∀ k ∈ flushKeepSssr, kindOf k = .skel) ∧ (∀ k ∈ flushKeepComponents, kindOf k = .conn) ∧
    (∀ k ∈ copyKeepSssr, kindOf k = .skel) ∧ (∀ k ∈ copyKeepComponents, kindOf k = .conn) := by decide

end ChythonModel.Props.C13
