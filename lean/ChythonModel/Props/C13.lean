import ChythonModel.Proofs.C13Step
import ChythonModel.Proofs.C13Graph
import ChythonModel.Proofs.C13WFStep
import ChythonModel.Proofs.C13LabelsStep
import ChythonModel.Proofs.C13HydroTxn
import ChythonModel.Proofs.C13HydroReach
/-!
# C13 — edits keep derived views coherent; transactions atomic; copies independent

All theorems are about `Model.C13.step`, the function the driver runs: it executes the event lists regenerated from the
source (`Gen/CacheEffects.lean`) through `interp`.  The theorems quantify over **all tables** `T` accepted by the
decidable static analysis `TablesOK` (proved sound for the interpreter in `Proofs/C13*.lean`), over all molecules,
all operation histories and all resolutions `obs` of data-dependent reads; `tables_ok_current` discharges the
analysis on today's regenerated table by kernel evaluation.  A change of the code that drops a flush, widens a keep
list, forgets a slot in `copy`, … regenerates a table on which `tables_ok_current` no longer evaluates to `true`.
-/
namespace ChythonModel.Props.C13
open ChythonModel.Model ChythonModel.Model.C13 ChythonModel.Gen.CacheEffects ChythonModel.Spec.Deps
open ChythonModel.Proofs.C13

/-! ## the regenerated table passes the analysis -/

theorem tables_ok_current : TablesOK current = true := by decide +kernel

/-- the keep lists of `flush_cache` and `copy` only name keys of the kind they are documented to preserve -/
theorem keep_lists_within_kinds :
    (∀ k ∈ flushKeepSssr, kindOf k = .skel) ∧ (∀ k ∈ flushKeepComponents, kindOf k = .conn) ∧
    (∀ k ∈ copyKeepSssr, kindOf k = .skel) ∧ (∀ k ∈ copyKeepComponents, kindOf k = .conn) := by decide

/-- ring / component values are computed from ring / component values and the adjacency only (regenerated dependency graph) -/
theorem adjacency_kinds_closed :
    ∀ k ∈ skelKeys ++ connKeys, (∀ d ∈ closure keyReads k, kindOf d ≠ .full) ∧
      (∀ r ∈ (keyRaw.lookup k).getD ["?"], r ∈ adjOnlyRaw) := by decide +kernel

/-- every other `flush_cache(keep_…)` call site of the package (regenerated list of 29 sites: aromatics, standardize,
stereo adders, tautomers, mapping) keeps at most what the hand-reviewed table allows for that method -/
theorem bulk_sites_reviewed :
    ∀ site ∈ bulkSites, (site.2.2.1 = Flag.no ∧ site.2.2.2 = Flag.no) ∨
      ∃ r ∈ bulkReviewed, r.1 = site.2.1 ∧ (site.2.2.1 ≠ Flag.no → r.2.1 = true) ∧ (site.2.2.2 ≠ Flag.no → r.2.2 = true) := by
  decide +kernel

/-- the regenerated classification of how `MoleculeContainer.copy` and `ReactionContainer.copy` give the new object its
metadata: `None` for `None`, a new dict otherwise (anything else is a translator error), and reactions copy their molecules -/
theorem copies_own_metadata :
    copyMetaCopied = true ∧ reactionCopyMetaCopied = true ∧ reactionCopyMoleculesCopied = true := by decide

/-! ## histories -/

/-- run a history (operation, observed `__dict__` keys after it) -/
def runHist (T : Tables) : World → List (Op × List String) → World
  | w, [] => w
  | w, (op, obs) :: rest => runHist T (step T w op obs).w rest

/-- a history inside the property's domain: every step satisfies `stepPre` and either succeeds or is refused by a guard
that leaves the world untouched (Python raised before mutating anything) -/
def admissible (T : Tables) : World → List (Op × List String) → Bool
  | _, [] => true
  | w, (op, obs) :: rest =>
    stepPre T w op && (((step T w op obs).err.isNone) || decide ((step T w op obs).w = w)) &&
      admissible T (step T w op obs).w rest

/-- **coherent_step**: one public operation preserves the invariant of every object: no stale ring / component value
ever, no stale value at all outside a transaction, backup snapshots coherent, both transaction slots assigned. -/
theorem coherent_step {T : Tables} (hT : TablesOK T = true) {w : World} {op : Op} {obs : List String} (hw : WInv w)
    (hp : stepPre T w op = true) (herr : (step T w op obs).err = none) : WInv (step T w op obs).w :=
  step_inv hT hw (stepPre_iff hp) herr

/-- **coherent_reachable**: induction over operation lists. -/
theorem coherent_reachable {T : Tables} (hT : TablesOK T = true) :
    ∀ (h : List (Op × List String)) (w : World), WInv w → admissible T w h = true → WInv (runHist T w h) := by
  intro h
  induction h with
  | nil => intro w hw _; exact hw
  | cons x rest ih =>
    intro w hw ha
    obtain ⟨op, obs⟩ := x
    simp only [admissible, Bool.and_eq_true, Bool.or_eq_true, decide_eq_true_eq] at ha
    simp only [runHist]
    apply ih _ _ ha.2
    rcases ha.1.2 with he | he
    · exact coherent_step hT hw ha.1.1 (by simpa using he)
    · rw [he]; exact hw

/-- a molecule as the constructor / a parser leaves it satisfies the invariant -/
theorem fresh_world_inv (m : Mol) : WInv (freshWorld m) := by
  intro o ho
  simp only [freshWorld, List.mem_singleton] at ho
  subst ho
  exact inv_emptyCache rfl (by simp [freshObj]) rfl

/-- **Main statement for today's code**: after any admissible history from any molecule, every memoised value of every
object outside a transaction equals the value computed now (`coherent`), and inside a transaction every ring and
component value does. -/
theorem reachable_cache_coherent (m : Mol) (h : List (Op × List String)) (ha : admissible current (freshWorld m) h = true) :
    ∀ o ∈ (runHist current (freshWorld m) h).objs,
      (o.backup = some none → coherent o.toCore = true) ∧
      (∀ e ∈ o.cache, kindOf e.key ≠ .full → e.fresh o.toCore = true) := by
  intro o ho
  have hinv := coherent_reachable tables_ok_current h _ (fresh_world_inv m) ha o ho
  refine ⟨fun hb => ?_, fun e he hk => ?_⟩
  · rw [coherent_iff]
    intro e he
    cases hk : kindOf e.key with
    | skel => exact hinv.skel e he hk
    | conn => exact hinv.conn e he hk
    | full => exact hinv.full hb e he hk
  · cases hk' : kindOf e.key with
    | skel => exact hinv.skel e he hk'
    | conn => exact hinv.conn e he hk'
    | full => exact absurd hk' hk

/-- **transfer to real derived functions**: if a derived function respects the dependency discipline of `Spec/Deps.lean`
(its value is determined by the view its key may depend on), then a fresh entry stands for the value computed now. -/
theorem transfer {V : Type} (derive : String → Core → V)
    (hframe : ∀ k c c', viewOf (kindOf k) c = viewOf (kindOf k) c' → derive k c = derive k c')
    (e : Entry) (c0 c : Core) (hsnap : e.val = viewOf (kindOf e.key) c0) (hfresh : e.fresh c = true) :
    derive e.key c0 = derive e.key c := by
  apply hframe
  simp [Entry.fresh] at hfresh
  rw [← hsnap, hfresh.2]


/-! ## transactions -/

/-- **txn_abort_restores**: whatever happened inside the block, an aborted transaction leaves exactly the snapshot
(atoms, bonds, stored hydrogens and labels, coordinates' Vector objects, name, meta, cache) and a usable molecule:
nothing pending, no backup. -/
theorem txn_abort_restores {T : Tables} (hT : TablesOK T = true) {w : World} {i : Nat} {o : Obj} {bk : Core}
    {obs : List String} (hget : w.objs[i]? = some o) (hb : o.backup = some (some bk))
    (herr : (step T w (.exitExc i) obs).err = none) :
    ∃ o', (step T w (.exitExc i) obs).w.objs[i]? = some o' ∧ o'.toCore = bk ∧ o'.changed = some none ∧
      o'.backup = some none :=
  exitExc_restores hT hget hb herr

/-- the snapshot `__enter__` takes of today's code is a copy of the molecule: same atoms, bonds, stored hydrogens, labels,
name and meta; it keeps only ring / component values -/
theorem enter_snapshot (c : Core) (vecs : List (Int × Int)) (kS kC : Bool) :
    (copyCore current c vecs kS kC).1.mol = c.mol ∧ (copyCore current c vecs kS kC).1.hs = c.hs ∧
    (copyCore current c vecs kS kC).1.labels = c.labels ∧ (copyCore current c vecs kS kC).1.name = c.name ∧
    (copyCore current c vecs kS kC).1.info = c.info ∧
    (∀ e ∈ (copyCore current c vecs kS kC).1.cache, e ∈ c.cache ∧ kindOf e.key ≠ .full) := by
  refine ⟨rfl, rfl, rfl, ?_, ?_, ?_⟩
  · simp only [copyCore]; rw [if_pos (by decide)]
  · simp only [copyCore]; rw [if_pos (by decide)]
  · intro e he
    have := copyKeep_kind (T := current) (by decide +kernel) kS kC c.cache e he
    refine ⟨this.1, ?_⟩
    rcases this.2 with ⟨_, h⟩ | ⟨_, h⟩ <;> simp [h]

/-! ## copies -/

/-- **copy_independent** (objects): an operation on one object leaves every other existing object untouched. -/
theorem copy_independent (T : Tables) (w : World) (op : Op) (obs : List String) (j : Nat) (hj : j ≠ op.target)
    (hlt : j < w.objs.length) : (step T w op obs).w.objs[j]? = w.objs[j]? :=
  step_frame T w op obs j hj hlt

/-- **copy_independent** (coordinates): a copy made by a non-sharing `Element.copy` points only to Vector objects that
did not exist before, and moving an atom writes exactly the one Vector its own object points to. -/
theorem copy_independent_coordinates (T : Tables) (hT : TablesOK T = true) (w : World) (i : Nat) (o : Obj) (kS kC : Bool) :
    (∀ p ∈ (copyObj T o w.vecs kS kC).1.xy, w.vecs.length ≤ p.2) ∧
    (∀ (n : Nat) (x y : Int) (obs : List String) (a : Nat), w.objs[i]? = some o → o.xy.lookup n = some a →
      (step T w (.setXY i n x y) obs).w.vecs = w.vecs.set a (x, y)) := by
  have hS := (tables_parts hT).2.2.2.2.2.2
  simp only [slotsOK, Bool.and_eq_true, Bool.not_eq_true'] at hS
  refine ⟨?_, fun n x y obs a hget ha => (setXY_vecs T w i n x y obs o a hget ha).1⟩
  intro p hp
  have := (copyXY_fresh T hS.2 w.vecs o.xy).1 p
  apply this
  simpa [copyObj, copyCore] using hp

/-- **copy_editable**: every object of every reachable world (the seed, copies, substructures, unions) has both
transaction slots assigned, so no edit can fail for lack of initialisation … -/
theorem copy_editable {T : Tables} (hT : TablesOK T = true) (m : Mol) (h : List (Op × List String))
    (ha : admissible T (freshWorld m) h = true) :
    ∀ o ∈ (runHist T (freshWorld m) h).objs, o.changed ≠ none ∧ o.backup ≠ none := by
  intro o ho
  have hinv := coherent_reachable hT h _ (fresh_world_inv m) ha o ho
  refine ⟨hinv.chg, ?_⟩
  rcases hinv.bk with hb | ⟨b, hb⟩ <;> simp [hb]

/-- … and an accepted method never raises AttributeError nor leaves the model: the only Python exception an accepted
event list can raise is the KeyError of `calc_implicit` for a pending atom that no longer exists. -/
theorem no_attribute_error {T : Tables} (hT : TablesOK T = true) (e : Entry13) (he : e ∈ entryPoints) {w : World} {i : Nat}
    {o : Obj} {cx : Ctx} (hskip : cx.skip = false) (ho : Inv o) (hl : e.needsLabels = true → labelsFresh o.toCore = true)
    {er : Err} (herr : (runFn T w i o cx e.fn e.env).err = some er) : er = .key := by
  obtain ⟨hK, hM, _⟩ := tables_parts hT
  have hacc := mutators_accept hM e he cx.special (inTxn o)
  unfold accepts analyse at hacc
  cases han : absRun T false cx.special (expand T.fns expandFuel e.fn e.env) (entryAbs (inTxn o) e.needsLabels) with
  | none => simp [han] at hacc
  | some A' =>
    unfold runFn at herr
    cases hi : interp T cx (expand T.fns expandFuel e.fn e.env) { o := o, vecs := w.vecs } with
    | ok c => simp [hi] at herr
    | err c er' =>
      simp only [hi, Option.some.injEq] at herr
      subst herr
      exact interp_err hK _ _ _ _ _ _ (gamma_entry ho e.needsLabels hl) (by rw [hskip]; exact han) hi


/-! ## the hypotheses are satisfiable: a concrete admissible history on propan-1-ol exercising reads, an edit, a
transaction with an attribute write, an aborted transaction, a copy and an edit of the copy -/

def demoMol : Mol :=
  ⟨[(1, { z := 6 }), (2, { z := 6 }), (3, { z := 8 })],
   [(1, [(2, { order := 1 })]), (2, [(1, { order := 1 }), (3, { order := 1 })]), (3, [(2, { order := 1 })])]⟩

def demoHist : List (Op × List String) :=
  [(.read 0 "sssr", ["sssr", "rings_count", "not_special_connectivity"]),
   (.read 0 "__cached_method___str__", ["__cached_method___str__", "atoms_order"]),
   (.addBond 0 1 3 1 false, ["atoms_rings", "atoms_rings_sizes", "sssr"]),
   (.enter 0, []), (.setCharge 0 3 1, []), (.exitOk 0, ["atoms_rings_sizes"]),
   (.enter 0, []), (.delAtom 0 2 false, []), (.exitExc 0, []),
   (.copy 0 true true, []), (.addAtom 1 7 none false, ["atoms_rings_sizes"]), (.delBond 1 1 2 false, [])]

example : admissible current (freshWorld demoMol) demoHist = true := by decide +kernel

example : ((runHist current (freshWorld demoMol) demoHist).objs.map fun o => (o.mol.ids, coherent o.toCore)) =
    [([1, 2, 3], true), ([1, 2, 3, 4], true)] := by decide +kernel

/-! ## the whole transaction -/

theorem enter_events : expand current.fns expandFuel "MoleculeContainer.__enter__" [] = [⟨[], .backupCopy .yes .yes⟩] := by
  decide +kernel

/-- `__enter__` of today's code stores a snapshot of the object and changes nothing else -/
theorem enter_spec (w : World) (i : Nat) (o : Obj) (obs : List String) (hget : w.objs[i]? = some o) :
    ∃ o', (step current w (.enter i) obs).w.objs[i]? = some o' ∧ o'.toCore = o.toCore ∧
      o'.backup = some (some (copyCore current o.toCore w.vecs true true).1) := by
  unfold step
  simp only [Op.target, hget]
  unfold runFn
  rw [enter_events]
  simp only [interp, decideGuards, stepEv, flagBool]
  exact ⟨_, getElem?_setObj_self _ hget, rfl, rfl⟩

/-- **txn_atomic** (today's code): `with mol:` … any operations that are not a nested enter/exit of the same object
(on this or on other objects) … raise ⇒ the molecule has exactly the atoms, bonds, stored hydrogens, labels, name and
meta it had when the block was entered, nothing pending, no backup. -/
theorem txn_atomic (w0 : World) (i : Nat) (o0 : Obj) (obs0 obsE : List String) (hget : w0.objs[i]? = some o0)
    (h : List (Op × List String)) (hfree : ∀ x ∈ h, txnFree i x.1 = true)
    (herr : (step current (runHist current (step current w0 (.enter i) obs0).w h) (.exitExc i) obsE).err = none) :
    ∃ o', (step current (runHist current (step current w0 (.enter i) obs0).w h) (.exitExc i) obsE).w.objs[i]? = some o' ∧
      o'.mol = o0.mol ∧ o'.hs = o0.hs ∧ o'.labels = o0.labels ∧ o'.name = o0.name ∧ o'.info = o0.info ∧
      o'.changed = some none ∧ o'.backup = some none := by
  obtain ⟨o1, hg1, _, hb1⟩ := enter_spec w0 i o0 obs0 hget
  generalize (step current w0 (.enter i) obs0).w = w1 at hg1 herr ⊢
  generalize hbk : (copyCore current o0.toCore w0.vecs true true).1 = bk at hb1
  -- the snapshot survives the block
  have key : ∀ (h : List (Op × List String)) (w : World) (o : Obj), w.objs[i]? = some o → o.backup = some (some bk) →
      (∀ x ∈ h, txnFree i x.1 = true) → ∃ o', (runHist current w h).objs[i]? = some o' ∧ o'.backup = some (some bk) := by
    intro h
    induction h with
    | nil => intro w o hg hb _; exact ⟨o, hg, hb⟩
    | cons x rest ih =>
      intro w o hg hb hf
      obtain ⟨op, obs⟩ := x
      obtain ⟨o2, hg2, hb2⟩ := step_backup_current w op obs i o hg (hf (op, obs) (by simp))
      simp only [runHist]
      exact ih _ o2 hg2 (by rw [hb2]; exact hb) (fun y hy => hf y (by simp [hy]))
  obtain ⟨o2, hg2, hb2⟩ := key h w1 o1 hg1 hb1 hfree
  obtain ⟨o', hg', hcore, hch, hbk'⟩ := txn_abort_restores tables_ok_current hg2 hb2 herr
  refine ⟨o', hg', ?_, ?_, ?_, ?_, ?_, hch, hbk'⟩
  · rw [show o'.mol = o'.toCore.mol from rfl, hcore, ← hbk]; rfl
  · rw [show o'.hs = o'.toCore.hs from rfl, hcore, ← hbk]; rfl
  · rw [show o'.labels = o'.toCore.labels from rfl, hcore, ← hbk]; rfl
  · rw [show o'.name = o'.toCore.name from rfl, hcore, ← hbk]
    exact (enter_snapshot o0.toCore w0.vecs true true).2.2.2.1
  · rw [show o'.info = o'.toCore.info from rfl, hcore, ← hbk]
    exact (enter_snapshot o0.toCore w0.vecs true true).2.2.2.2.1
/-- the hypotheses of `txn_atomic` are satisfiable: a block that deletes an atom and adds another, then raises -/
example : (step current (runHist current (step current (freshWorld demoMol) (.enter 0) []).w
    [(.delAtom 0 2 false, []), (.addAtom 0 7 none false, []), (.read 0 "sssr", ["sssr"])]) (.exitExc 0) []).err = none := by
  decide +kernel

/-! ## hydrogens -/

/-- Full statement (kept visible; **false** of today's code, witness `Findings.C13.hydrogens_fresh_false`): after every
admissible history no atom of an object outside a transaction carries a hydrogen count computed from an outdated
environment.  Excluded class of the known finding: inside one transaction an atom attribute write, then a public
`fix_structure()`, then a later structural edit (the plain attribute-write + edit case was repaired by /repo 5256c7c). -/
def HydrogensFresh : Prop :=
  ∀ (m : Mol) (h : List (Op × List String)), admissible current (freshWorld m) h = true →
    ∀ o ∈ (runHist current (freshWorld m) h).objs, o.backup = some none → hStale o.toCore = []

/-- what is proved of the pending-change set: `add_bond(a, b)` / `delete_bond(a, b)` put `{a, b}` into `_changed`, and every
other atom's hydrogen-relevant environment (own element / charge / radical, its non-special bonds with order and
neighbour element) is untouched, so its stored hydrogen count stays valid.  (The reachable-state theorem itself is
not proved; hydrogen freshness is validated by the correspondence: recomputed-atom sets exact, rebuild comparison.) -/
theorem pending_set_sound_bonds (m : Mol) :
    (∀ a b order m' n, gAddBond m a b order = .ok m' → n ≠ a → n ≠ b → envOf m' n = envOf m n) ∧
    (∀ a b m' n, gDelBond m a b = .ok m' → n ≠ a → n ≠ b → envOf m' n = envOf m n) :=
  ⟨fun _ _ _ _ _ h ha hb => addBond_env h ha hb, fun _ _ _ _ h ha hb => delBond_env h ha hb⟩

/-! ## hydrogens: what is proved of the full statement `HydrogensFresh` -/

/-- the block of the hydrogen theorem: every step succeeds, and every operation *on the molecule in the transaction* is in
the covered class (`blockOpS`: direct charge / radical writes, adding / deleting an ordinary bond, reads, `fix_stereo`,
`clean_stereo`, `calc_labels`, cache flushes, coordinate / metadata writes); operations on other objects are unrestricted -/
def blockAdm (i : Nat) : World → List (Op × List String) → Bool
  | _, [] => true
  | w, (op, obs) :: rest =>
    (op.target != i || (match w.objs[i]? with
      | some o => blockOpS o op
      | none => false)) &&
    (step current w op obs).err.isNone && blockAdm i (step current w op obs).w rest

/-- the transaction invariant the exit relies on (`TxH`: every atom that is not pending carries the hydrogen environment of
the present graph with the snapshot's charge / radical values; atoms unknown to the snapshot are pending) survives the block -/
theorem txn_invariant_preserved (i : Nat) (bk : Core) :
    ∀ (h : List (Op × List String)) (w : World) (o : Obj), w.objs[i]? = some o → TxH o bk → blockAdm i w h = true →
      ∃ o', (runHist current w h).objs[i]? = some o' ∧ TxH o' bk := by
  intro h
  induction h with
  | nil => intro w o hg ht _; exact ⟨o, hg, ht⟩
  | cons x rest ih =>
    intro w o hg ht hn
    obtain ⟨op, obs⟩ := x
    simp only [blockAdm, hg, Bool.and_eq_true, Bool.or_eq_true, bne_iff_ne, ne_eq, Option.isNone_iff_eq_none] at hn
    have hop : op.target = i → blockOpS o op = true := by
      intro ht'
      rcases hn.1.1 with h1 | h1
      · exact absurd ht' h1
      · exact h1
    obtain ⟨o1, hg1, ht1⟩ := step_txh hg ht hop hn.1.2
    simp only [runHist]
    exact ih _ o1 hg1 ht1 hn.2

/-- **HydrogensFresh_partial** (today's code).  Proved part of `HydrogensFresh`: a `with mol:` block on a molecule with
nothing pending whose stored hydrogen counts are fresh, containing — on that molecule — any number of direct charge /
radical writes (several on one atom, written back, …), additions and deletions of ordinary bonds, reads of any memoised
attribute, `fix_stereo`, `clean_stereo`, `calc_labels`, cache flushes, coordinate and metadata writes, in any order, and
arbitrary operations on other objects, ends (successful `__exit__`) with **every** stored hydrogen count fresh, nothing
pending and no snapshot.  (This contains the class of the repaired finding `attr-write+edit-in-txn`: the exit's
`_changed.update(atoms that differ from the snapshot)` is what makes `exitOk_fresh` go through.)
Excluded, exactly: blocks that contain `add_atom` / `delete_atom`, an order-8 bond edit, `remap`, `union`, `copy` /
`substructure` / a nested `with` of that molecule, or a public `fix_structure()`.  The last — together with an attribute
write and a structural edit — is the class of the two known findings: `Findings.C13.partial_tight_witness1/2` show both
witnesses violate `TxH` at the exit at exactly the atom that ends up stale, `partial_tight_without_fix` that the same
blocks without the public `fix_structure()` do not.  For edits outside a transaction and for atom edits only the
graph-level half (`pending_set_sound_bonds`) is proved; their hydrogens are validated by the correspondence. -/
theorem HydrogensFresh_partial (w0 : World) (i : Nat) (o0 : Obj) (obs0 obsE : List String) (h : List (Op × List String))
    (hget : w0.objs[i]? = some o0) (hch : o0.changed = some none) (hfresh : hStale o0.toCore = [])
    (herr0 : (step current w0 (.enter i) obs0).err = none)
    (hblock : blockAdm i (step current w0 (.enter i) obs0).w h = true)
    (herrE : (step current (runHist current (step current w0 (.enter i) obs0).w h) (.exitOk i) obsE).err = none) :
    ∃ o', (step current (runHist current (step current w0 (.enter i) obs0).w h) (.exitOk i) obsE).w.objs[i]? = some o' ∧
      o'.backup = some none ∧ o'.changed = some none ∧ hStale o'.toCore = [] := by
  obtain ⟨o1, bk, hg1, ht1, _, _, _⟩ := enter_txh hget hch ((allFresh_iff _).mp hfresh) herr0
  obtain ⟨o2, hg2, ht2⟩ := txn_invariant_preserved i bk h _ o1 hg1 ht1 hblock
  obtain ⟨o', hg', _, hb', hc', hf'⟩ := exitOk_fresh hg2 ht2 herrE
  exact ⟨o', hg', hb', hc', (allFresh_iff _).mpr hf'⟩

/-- the hypotheses are satisfiable: propan-1-ol, a block with attribute writes (one written back), a ring-closing bond, a
bond deletion, reads and a `fix_stereo`; the conclusion is not trivial: the exit recomputed exactly the pending atoms and
the atom whose charge differs from the snapshot -/
example :
    let h : List (Op × List String) := [(.setCharge 0 3 (-1), []), (.read 0 "__cached_method___str__", ["__cached_method___str__"]),
      (.setRadical 0 1 true, []), (.addBond 0 1 3 1 false, []), (.setRadical 0 1 false, []), (.fixStereo 0, []),
      (.delBond 0 1 2 false, []), (.setXY 0 2 1 1, [])]
    hStale (freshObj demoMol 0).toCore = [] ∧
    (step current (freshWorld demoMol) (.enter 0) []).err = none ∧
    blockAdm 0 (step current (freshWorld demoMol) (.enter 0) []).w h = true ∧
    (step current (runHist current (step current (freshWorld demoMol) (.enter 0) []).w h) (.exitOk 0) []).err = none ∧
    (step current (runHist current (step current (freshWorld demoMol) (.enter 0) []).w h) (.exitOk 0) []).recalc = [1, 3, 2] := by
  decide +kernel

/-! ## the adjacency stays symmetric -/

/-- **wf_preserved** (edits): each raw graph edit the interpreter installs — `add_atom`, `add_bond`, `delete_atom`,
`delete_bond` — maps a symmetric adjacency (both directions present, carrying the same bond) to a symmetric one.
(`remap`, `union` and the restore of a snapshot are validated by the correspondence only, see design/C13.md.) -/
theorem wf_preserved_edits (m : Mol) (hs : AdjSym m.adj) :
    (∀ z n m' k, gAddAtom m z n = .ok (m', k) → AdjSym m'.adj) ∧
    (∀ a b order m', gAddBond m a b order = .ok m' → AdjSym m'.adj) ∧
    (∀ n m', gDelAtom m n = .ok m' → AdjSym m'.adj) ∧
    (∀ a b m', gDelBond m a b = .ok m' → AdjSym m'.adj) :=
  ⟨fun _ _ _ _ h => addAtom_sym h hs, fun _ _ _ _ h => addBond_sym h hs, fun _ _ h => delAtom_sym h hs,
   fun _ _ _ h => delBond_sym h hs⟩

/-- the hypothesis is satisfiable and the edits are defined: ethanol skeleton, add then delete a bond -/
example : AdjSym demoMol.adj ∧ (gAddBond demoMol 1 3 1).toOption.isSome ∧ (gDelBond demoMol 1 2).toOption.isSome := by
  refine ⟨?_, by decide, by decide⟩
  intro a la b bd ha hb
  simp only [demoMol, List.mem_cons, Prod.mk.injEq, List.mem_nil_iff, or_false] at ha
  rcases ha with ⟨rfl, rfl⟩ | ⟨rfl, rfl⟩ | ⟨rfl, rfl⟩ <;> simp at hb <;>
    (try rcases hb with ⟨rfl, rfl⟩ | ⟨rfl, rfl⟩) <;> (try obtain ⟨rfl, rfl⟩ := hb) <;> simp_all [demoMol]

/-- **copies_noninterference**: whatever sequence of operations is applied to *other* objects — in particular to a copy,
a substructure or a union made from object `j`, including operations that read `j` (`union`), create further objects or
fail — object `j` stays exactly as it was: atoms, bonds, stored hydrogens and labels, cache, name, meta, pending set,
snapshot (all tables, all `obs`). -/
theorem copies_noninterference (T : Tables) (h : List (Op × List String)) :
    ∀ (w : World) (j : Nat) (o : Obj), w.objs[j]? = some o → (∀ x ∈ h, x.1.target ≠ j) →
      (runHist T w h).objs[j]? = some o := by
  induction h with
  | nil => intro w j o hj _; exact hj
  | cons x rest ih =>
    intro w j o hj hne
    obtain ⟨op, obs⟩ := x
    simp only [runHist]
    have hlt : j < w.objs.length := by
      rcases Nat.lt_or_ge j w.objs.length with hl | hl
      · exact hl
      · rw [List.getElem?_eq_none hl] at hj; cases hj
    refine ih _ j o ?_ (fun y hy => hne y (List.mem_cons_of_mem _ hy))
    rw [step_frame T w op obs j (Ne.symm (hne (op, obs) List.mem_cons_self)) hlt]
    exact hj

/-- non-vacuous: copy propan-1-ol, then edit, renumber, extend and abort a transaction on the copy — the original is
untouched while the copy really changed -/
example :
    let w0 := (step current (freshWorld demoMol) (.copy 0 false false) []).w
    let h : List (Op × List String) := [(.addBond 1 1 3 1 false, []), (.remap 1 [(1, 7)], []), (.union 1 0 true false, []),
      (.enter 1, []), (.delAtom 1 2 false, []), (.exitExc 1, []), (.setCharge 1 3 1, [])]
    (∀ x ∈ h, x.1.target ≠ 0) ∧ (runHist current w0 h).objs[0]? = w0.objs[0]? ∧
      ((runHist current w0 h).objs.map fun o => o.mol.ids) = [[1, 2, 3], [7, 2, 3, 8, 9, 10]] := by
  decide +kernel

/-! ## returned objects are new objects; numbering -/

/-- regenerated scan of every method of every class in `MoleculeContainer.__mro__`: the object itself (`return self`, a
collection containing `self`, a local bound to `self`) is handed out only by the documented in-place API -/
theorem only_inplace_api_returns_self : ∀ m ∈ returnsSelf, m ∈ inPlaceReturners := by decide

/-- regenerated: `split` is one `substructure(c, recalculate_hydrogens=False)` per connected component (so the
correspondence may expand it), and every derived constructor (`augmented_substructure(s)`, `split`, `&`, `-`,
`copy.copy`, `|`, `|=`) returns nothing but calls of a modelled constructor on `self` -/
theorem derived_constructors_delegate :
    splitPerComponent = true ∧ ∀ p ∈ derivedConstructors, p.2 ∈ ["substructure", "copy", "union"] := by decide

/-- **created_is_new**: an operation that reports a created object appended exactly one object at a new index; all
existing indices keep denoting the objects they denoted (with `copy_independent`: the source and every other object are
unchanged unless they are the target of an in-place operation) -/
theorem created_is_new (T : Tables) (w : World) (op : Op) (obs : List String) (j : Nat)
    (h : (step T w op obs).created = some j) :
    j = w.objs.length ∧ (step T w op obs).w.objs.length = w.objs.length + 1 ∧
      ∀ i, i < w.objs.length → i ≠ op.target → (step T w op obs).w.objs[i]? = w.objs[i]? :=
  ⟨(step_created T w op obs j h).1, (step_created T w op obs j h).2, fun i hi hne => step_frame T w op obs i hne hi⟩

/-- **remap_numbers**: an accepted renumbering gives every atom exactly the number the mapping names — whatever that
number is (0 included: `mapId` is a lookup, not a truthiness test) — keeps unmapped atoms, keeps the dict order, moves
every neighbour key the same way, and the new numbers are pairwise different -/
theorem remap_numbers {m m' : Mol} {mp : List (Nat × Nat)} (h : gRemap m mp = .ok m') :
    m'.ids = m.ids.map (mapId mp) ∧
    (∀ n v, mp.lookup n = some v → mapId mp n = v) ∧ (∀ n, mp.lookup n = none → mapId mp n = n) ∧
    (∀ x ∈ m.ids, ∀ y ∈ m.ids, mapId mp x = mapId mp y → x = y) ∧
    m'.adj = m.adj.map fun p => (mapId mp p.1, p.2.map fun kb => (mapId mp kb.1, kb.2)) := by
  obtain ⟨rfl, hinj⟩ := gRemap_eq h
  refine ⟨by simp [mapMol, Mol.ids, List.map_map, Function.comp_def], fun n v hv => by simp [mapId, hv],
    fun n hn => by simp [mapId, hn], hinj, rfl⟩

/-- non-vacuous, with the number 0: `CCO` atoms 1 2 3 renumbered 0-based, and atom 3 → 0 alone -/
example : (gRemap demoMol [(1, 0), (2, 1), (3, 2)]).toOption.map (·.ids) = some [0, 1, 2] ∧
    (gRemap demoMol [(3, 0)]).toOption.map (·.ids) = some [1, 2, 0] ∧
    (gRemap demoMol [(3, 0)]).toOption.map (fun m => m.nbrs 0) = some [(2, { order := 1 })] := by decide

/-! ## the stored graph is well-formed in every reachable state -/

/-- today's regenerated table restores `_atoms` and `_bonds` together in every method `step` runs -/
theorem graph_ok_current : GraphOK current = true := by decide +kernel

/-- **wf_step**: every public operation of the model's alphabet (edits, transactions incl. abort/restore, remap, union,
substructure, copy, reads, attribute writes) — whatever its arguments, `obs`, and outcome (a Python exception leaves the
partially updated object) — maps a world in which every live graph and every transaction snapshot is well-formed (`MolWF`:
atom keys unique, `_bonds` keyed by exactly the atoms in the same order, neighbour keys unique, no self-loops, symmetric
with the same bond on both sides) to such a world. -/
theorem wf_step {T : Tables} (hG : GraphOK T = true) (w : World) (op : Op) (obs : List String) (hw : WorldWF w) :
    WorldWF (step T w op obs).w :=
  step_wf hG op obs hw

/-- **wf_reachable**: induction over arbitrary histories (no admissibility needed) from any well-formed world. -/
theorem wf_reachable {T : Tables} (hG : GraphOK T = true) :
    ∀ (h : List (Op × List String)) (w : World), WorldWF w → WorldWF (runHist T w h) := by
  intro h
  induction h with
  | nil => intro w hw; exact hw
  | cons x rest ih =>
    intro w hw
    obtain ⟨op, obs⟩ := x
    simp only [runHist]
    exact ih _ (wf_step hG w op obs hw)

/-- **wf_every_reachable_state** (today's code): start from any molecule accepted by the executable check `Mol.WF`
(what a parser / the constructor API delivers), run any history; then the executable check accepts the graph of every
object — the seed, copies, substructures, unions — and of every open transaction's snapshot. -/
theorem wf_every_reachable_state (m : Mol) (hm : m.WF = true) (h : List (Op × List String)) :
    ∀ o ∈ (runHist current (freshWorld m) h).objs,
      o.mol.WF = true ∧ ∀ bk, o.backup = some (some bk) → bk.mol.WF = true := by
  have hw0 : WorldWF (freshWorld m) := by
    intro o ho
    simp only [freshWorld, List.mem_singleton] at ho
    subst ho
    exact ⟨MolWF.ofBool hm, fun bk hbk => by simp [freshObj] at hbk⟩
  intro o ho
  have := wf_reachable graph_ok_current h _ hw0 o ho
  exact ⟨this.1.toBool, fun bk hbk => (this.2 bk hbk).toBool⟩

/-- what the executable check means: key uniqueness, no self-loops, symmetric adjacency sharing the bond -/
theorem wf_meaning (m : Mol) (h : m.WF = true) :
    m.ids.Nodup ∧ m.adj.map (·.1) = m.ids ∧
    (∀ a la, (a, la) ∈ m.adj → (la.map (·.1)).Nodup ∧ ∀ b bd, (b, bd) ∈ la → b ≠ a ∧ m.hasAtom b = true ∧ m.bond? b a = some bd) := by
  have hw := MolWF.ofBool h
  refine ⟨hw.nodup, hw.keys, fun a la ha => ⟨hw.nbrNodup a la ha, fun b bd hb => ⟨hw.noLoop a la b bd ha hb, ?_, ?_⟩⟩⟩
  · exact hasAtom_iff.mpr (hw.nbr_mem ha hb)
  · obtain ⟨lb, hlb, hback⟩ := hw.sym a la b bd ha hb
    simp only [Mol.bond?, hw.nbrs_eq hlb]
    exact lookup_of_mem (hw.nbrNodup b lb hlb) hback

/-- a history through every graph-changing operation: ring closure, failed and aborted transaction, renumbering (swap),
substructure, in-place union with renumbering, union into a new object, copy, deletion -/
def wfHist : List (Op × List String) :=
  [(.addBond 0 1 3 1 false, []), (.enter 0, []), (.delAtom 0 2 false, []), (.addAtom 0 7 (some 9) false, []), (.exitExc 0, []),
   (.remap 0 [(1, 2), (2, 1)], []), (.substructure 0 [1, 3] true, []), (.union 0 1 true false, []), (.union 0 1 true true, []),
   (.copy 2 false false, []), (.enter 3, []), (.delBond 3 1 2 false, []), (.addBond 3 1 5 8 false, [])]

/-- the hypotheses are satisfiable and the reachable state is not trivial: four objects, one of them inside a transaction -/
example : demoMol.WF = true ∧
    ((runHist current (freshWorld demoMol) wfHist).objs.map fun o => (o.mol.ids, o.mol.bondsCount, o.backup.isSome && o.backup != some none)) =
      [([2, 1, 3, 4, 5], 4, false), ([1, 3], 1, false), ([2, 1, 3, 4, 5, 6, 7], 5, false), ([2, 1, 3, 4, 5, 6, 7], 5, true)] := by
  decide +kernel

/-! ## stored labels are fresh in every reachable settled state -/

/-- today's table: no method other than `__enter__`/`__exit__` writes the snapshot slot; `remap`, `union`, `fix_stereo`,
`clean_stereo` neither relabel nor restore; `__enter__` only copies; the calls `substructure` makes end with fresh labels -/
theorem labels_ok_current : LabelsOK current = true := by decide +kernel

/-- histories of the label theorem: `admissible`, and additionally `copy()` is taken outside a transaction and a union
does not pull atoms of a molecule that is inside a transaction into one that is outside (`labelPre`) -/
def admissibleL (T : Tables) : World → List (Op × List String) → Bool
  | _, [] => true
  | w, (op, obs) :: rest =>
    stepPre T w op && labelPre w op && (((step T w op obs).err.isNone) || decide ((step T w op obs).w = w)) &&
      admissibleL T (step T w op obs).w rest

/-- **labels_step**: one operation preserves the three invariants together — cache coherence (`WInv`), well-formed graphs
(`WorldWF`) and: the stored labels (hybridisation, neighbour / heteroatom / explicit-hydrogen counts, ring marks) of every
object outside a transaction, and of every transaction snapshot, are what `calc_labels` would compute now. -/
theorem labels_step {T : Tables} (hT : TablesOK T = true) (hG : GraphOK T = true) (hL : LabelsOK T = true) {w : World}
    {op : Op} {obs : List String} (hw : W3 w) (hp : stepPre T w op = true) (hlp : labelPre w op = true)
    (herr : (step T w op obs).err = none) : W3 (step T w op obs).w :=
  ⟨step_inv hT hw.inv (stepPre_iff hp) herr, step_wf hG op obs hw.wf, step_lab hT hL hw (stepPre_iff hp) hlp herr⟩

theorem labels_reachable {T : Tables} (hT : TablesOK T = true) (hG : GraphOK T = true) (hL : LabelsOK T = true) :
    ∀ (h : List (Op × List String)) (w : World), W3 w → admissibleL T w h = true → W3 (runHist T w h) := by
  intro h
  induction h with
  | nil => intro w hw _; exact hw
  | cons x rest ih =>
    intro w hw ha
    obtain ⟨op, obs⟩ := x
    simp only [admissibleL, Bool.and_eq_true, Bool.or_eq_true, decide_eq_true_eq] at ha
    simp only [runHist]
    apply ih _ _ ha.2
    rcases ha.1.2 with he | he
    · exact labels_step hT hG hL hw ha.1.1.1 ha.1.1.2 (by simpa using he)
    · rw [he]; exact hw

theorem fresh_world_w3 (m : Mol) (hm : m.WF = true) : W3 (freshWorld m) := by
  refine ⟨fresh_world_inv m, ?_, ?_⟩ <;> intro o ho <;> simp only [freshWorld, List.mem_singleton] at ho <;> subst ho
  · exact ⟨MolWF.ofBool hm, fun bk hbk => by simp [freshObj] at hbk⟩
  · exact ⟨fun _ => by simp [labelsFresh, freshObj], fun bk hbk => by simp [freshObj] at hbk⟩

/-- **labels_fresh_reachable** (today's code): from any well-formed molecule, after any history of the label theorem's
domain — edits, transactions (successful and aborted), `remap`, `union` (in place and into a new object, with and without
renumbering), `substructure`, `copy`, reads, attribute writes — every object that is outside a transaction carries fresh
labels, and so does the snapshot of every open transaction. -/
theorem labels_fresh_reachable (m : Mol) (hm : m.WF = true) (h : List (Op × List String))
    (ha : admissibleL current (freshWorld m) h = true) :
    ∀ o ∈ (runHist current (freshWorld m) h).objs,
      (o.backup = some none → labelsFresh o.toCore = true) ∧ (∀ bk, o.backup = some (some bk) → labelsFresh bk = true) := by
  intro o ho
  have := (labels_reachable tables_ok_current graph_ok_current labels_ok_current h _ (fresh_world_w3 m hm) ha).lab o ho
  exact ⟨this.live, this.snap⟩

/-- consequence: outside a transaction the label hypothesis that `stepPre` makes for `calc_labels()` and
`fix_structure(recalculate_hydrogens=False)` holds by itself in every reachable world — it restricts histories only
inside a transaction (where edits leave labels pending until `__exit__`) -/
theorem label_hypothesis_automatic {w : World} (hw : W3 w) (op : Op) (o : Obj) (hget : w.objs[op.target]? = some o)
    (hout : inTxn o = false) (hop : op = .calcLabels op.target ∨ op = .fixStructure op.target false) :
    labelsFresh o.toCore = true := by
  have ho := hw.inv o (mem_of_get hget)
  exact (hw.lab o (mem_of_get hget)).live (inv_out ho hout)

/-- non-vacuous: a history in the domain through ring closure, renumbering, substructure, in-place union with
renumbering, union into a new object, a successful and an aborted transaction, a coordinate bond (the `calc_labels`-only
path) — and the label flags of the four resulting objects -/
def labHist : List (Op × List String) :=
  [(.addBond 0 1 3 1 false, []), (.remap 0 [(1, 2), (2, 1)], []), (.substructure 0 [1, 3] true, []),
   (.union 0 1 true false, []), (.union 0 1 true true, []), (.enter 0, []), (.setCharge 0 3 1, []), (.delAtom 0 4 false, []),
   (.exitOk 0, []), (.copy 2 false false, []), (.enter 3, []), (.delBond 3 1 2 false, []), (.exitExc 3, []),
   (.addBond 3 1 5 8 false, []), (.calcLabels 3, []), (.enter 1, []), (.addAtom 1 6 none false, [])]

example : demoMol.WF = true ∧ admissibleL current (freshWorld demoMol) labHist = true ∧
    ((runHist current (freshWorld demoMol) labHist).objs.map fun o => (o.mol.ids.length, inTxn o, labelsFresh o.toCore)) =
      [(4, false, true), (3, true, false), (7, false, true), (7, false, true)] := by
  decide +kernel

/-! ## hydrogens: the reachable-state part -/

/-- histories of the reachable-state hydrogen theorem for object `i`: every step succeeds and every operation on object `i`
is covered in the state it is applied in (`hOpS`) — outside a transaction: `add_atom`, adding / deleting an ordinary bond, public
`fix_structure(…)`, `calc_labels`, `fix_stereo`, `clean_stereo`, reads, flushes, coordinate / metadata writes, `copy`,
`__enter__`; inside: `add_atom`, direct charge / radical writes, adding / deleting an ordinary bond, reads, `fix_stereo`, `clean_stereo`,
`calc_labels`, flushes, coordinate / metadata writes, and both `__exit__` paths.  Operations on other objects: unrestricted. -/
def hydroAdm (i : Nat) : World → List (Op × List String) → Bool
  | _, [] => true
  | w, (op, obs) :: rest =>
    (op.target != i || (match w.objs[i]? with
      | some o => hOpS o op
      | none => false)) &&
    (step current w op obs).err.isNone && hydroAdm i (step current w op obs).w rest

/-- **hydrogens_step / hydrogens_reachable** (today's code): induction over `hydroAdm` histories — object `i` keeps `HObj`:
outside a transaction nothing is pending and every stored hydrogen count is fresh; inside, the transaction invariant `TxH`
holds and the snapshot's hydrogens are fresh. -/
theorem hydrogens_reachable (i : Nat) :
    ∀ (h : List (Op × List String)) (w : World) (o : Obj), WorldWF w → w.objs[i]? = some o → HObj o → hydroAdm i w h = true →
      ∃ o', (runHist current w h).objs[i]? = some o' ∧ HObj o' := by
  intro h
  induction h with
  | nil => intro w o _ hg ho _; exact ⟨o, hg, ho⟩
  | cons x rest ih =>
    intro w o hww hg ho hn
    obtain ⟨op, obs⟩ := x
    simp only [hydroAdm, hg, Bool.and_eq_true, Bool.or_eq_true, bne_iff_ne, ne_eq, Option.isNone_iff_eq_none] at hn
    have hop : op.target = i → hOpS o op = true := by
      intro ht'
      rcases hn.1.1 with h1 | h1
      · exact absurd ht' h1
      · exact h1
    obtain ⟨o1, hg1, ho1⟩ := step_hobj tables_ok_current hg ho (hww o (mem_of_get hg)).1 hop hn.1.2
    simp only [runHist]
    exact ih _ o1 (wf_step graph_ok_current w op obs hww) hg1 ho1 hn.2

/-- **HydrogensFresh_reachable_partial**: the part of `HydrogensFresh` proved as a reachable-state statement.  From any
well-formed molecule, after any `hydroAdm` history — any number of transactions (successful or aborted), atom additions,
attribute writes and ordinary bond edits inside them in any order, atom additions, ordinary bond edits and public
`fix_structure` outside, reads anywhere — the seed
object, whenever it is outside a transaction, has no stale hydrogen count and nothing pending.
Excluded (exactly the complement of `hOpS`): `delete_atom`, order-8 bond edits, `remap`, `union`,
`substructure`, the private `_skip_calculation` flag outside a block, attribute writes outside a block (out of the
property's domain), `copy` / nested `with` inside a block, and a public `fix_structure()` inside a block (the mechanism of
both known findings, `Findings.C13.partial_tight_*`). -/
theorem HydrogensFresh_reachable_partial (m : Mol) (hm : m.WF = true) (h : List (Op × List String))
    (ha : hydroAdm 0 (freshWorld m) h = true) :
    ∃ o, (runHist current (freshWorld m) h).objs[0]? = some o ∧
      (o.backup = some none → hStale o.toCore = [] ∧ o.changed = some none) := by
  obtain ⟨o, hg, ho⟩ := hydrogens_reachable 0 h (freshWorld m) (freshObj m 0) (fresh_world_w3 m hm).wf rfl (freshObj_hobj m 0) ha
  exact ⟨o, hg, fun hb => ⟨(allFresh_iff _).mpr (ho.out hb).2, (ho.out hb).1⟩⟩

/-- non-vacuous: ring closure outside a block; a block with a charge write, a bond deletion and a write-back that is
committed; a block that is aborted; `fix_structure`; a copy — and the final object is outside a transaction -/
example :
    let h : List (Op × List String) := [(.addBond 0 1 3 1 false, []), (.read 0 "sssr", ["sssr"]), (.enter 0, []),
      (.setCharge 0 3 1, []), (.delBond 0 1 2 false, []), (.setRadical 0 2 true, []), (.setRadical 0 2 false, []), (.exitOk 0, []),
      (.enter 0, []), (.addBond 0 1 2 2 false, []), (.setCharge 0 3 0, []), (.exitExc 0, []), (.fixStructure 0 true, []),
      (.copy 0 false false, []), (.addAtom 1 6 none false, []), (.addAtom 0 7 none false, []), (.enter 0, []), (.addAtom 0 8 (some 9) false, []),
      (.addBond 0 9 4 1 false, []), (.setCharge 0 9 1, []), (.exitOk 0, [])]
    hydroAdm 0 (freshWorld demoMol) h = true ∧
    ((runHist current (freshWorld demoMol) h).objs.map fun o => (o.backup == some none, o.mol.bondsCount, hStale o.toCore)) =
      [(true, 3, []), (true, 2, [])] := by
  decide +kernel

end ChythonModel.Props.C13
