import ChythonModel.Proofs.C07Complete
import ChythonModel.Proofs.C07WF
import ChythonModel.Proofs.C07Product
import ChythonModel.Proofs.C07Compile
import ChythonModel.Proofs.C07Stack
import ChythonModel.Proofs.C07Top
import ChythonModel.Proofs.C07Multi3
import ChythonModel.Proofs.C07Multi4
import ChythonModel.Proofs.C07StereoSpec
import ChythonModel.Proofs.C07Fast
import ChythonModel.Spec.StereoMatch
/-!
# C07 — substructure search returns exactly the set of valid embeddings

All theorems are about the definitions of `Model/Iso.lean` / `Model/IsoCheck.lean` that `Drivers/C07.lean` executes,
for ALL graphs, scopes and compatibility relations `atomOk` / `bondOk` (nothing is specific to an element or bond type; the
driver instantiates them with the models of `Element/Query*.__eq__`, `Bond/QueryBond.__eq__`).

Chain of the argument:

  `compile_covers`, `compile_total`   `_compile_query` always terminates with a valid DFS linearisation (`CompiledOK`)
  `rec_sound/complete/nodup`          the recursive reference enumerator returns exactly the embeddings of one component
  `stack_refines_rec`                 the explicit stack machine `_get_mapping` returns the same list (never crashes)
  `getMapping_exact`                  ⇒ the function the code runs is exact for every component / scope
  `permutations_exact`, `lazyProduct_exact`, gluing lemmas
  `iso_single_exact`, `iso_multi_exact`, `get_mapping_exact`
                                      ⇒ the whole `Isomorphism._get_mapping` call (any number of pattern components, any
                                        scope) returns, without duplicates, exactly the maps satisfying `Spec.IsEmbedding`
  `filter_one_per_image_set`, `get_mapping_filtered`   exactly one mapping per distinct image set with the filter
  `scope_exact`, `operators_agree`, `substructure_operator_exact`

`checkCompiled_guarantees` is the soundness of the executable checker the driver applies to the REAL `_compile_query`
output. Hypotheses are never vacuous: `example`s at the end instantiate every theorem's hypotheses on concrete graphs.
-/
namespace ChythonModel.Props.C07
open ChythonModel.Model.Iso ChythonModel.Spec.Embedding ChythonModel.Proofs.C07

/-- the environment of one `_get_mapping(linear_query, closures, other._atoms, other._bonds, scope)` call -/
def envOf (t : Graph) (lq : List Step) (cl : Closures) (scope : Nat → Bool) (atomOk : Nat → Nat → Bool)
    (bondOk : Nat → Nat → Nat → Nat → Bool) : Env :=
  { lq := lq, cl := cl, oAtoms := t.atoms, t := t, scope := scope, atomOk := atomOk, bondOk := bondOk }

/-- bond compatibility does not depend on the direction in which a bond is looked at (one shared bond object) -/
def BondSymm (bondOk : Nat → Nat → Nat → Nat → Bool) : Prop := ∀ u v x y, bondOk u v x y = bondOk v u y x

theorem setting_of (q t : Graph) (comps : List (List Step)) (cl : Closures) (hq : q.WF = true) (ht : t.WF = true)
    (hc : CompiledOK q comps cl) (lq : List Step) (hlq : lq ∈ comps) (scope : Nat → Bool)
    (atomOk : Nat → Nat → Bool) (bondOk : Nat → Nat → Nat → Nat → Bool) (hb : BondSymm bondOk) :
    Setting q (envOf t lq cl scope atomOk bondOk) := by
  have hQ := wf_ok q hq
  have hT := wf_ok t ht
  have hC := hc
  exact ⟨hC.comp lq hlq, hC.comp_nodup hlq, hQ.symm, hQ.loop, hT.symm, hT.loop, hT.closed, rfl, hb⟩

/-- **`compile_covers`**: whatever `_compile_query` returns for a well-formed pattern is a valid DFS linearisation:
    every atom occurs exactly once as a front; every component starts with a back-less step and every other step hangs on an
    earlier atom of its own component by a pattern bond; for every step, parent ∪ recorded closures = exactly the
    earlier-visited neighbours, without repetition (so every pattern bond is a tree edge or a recorded closure, exactly once);
    no bond leaves a component. -/
theorem compile_covers (q : Graph) (hq : q.WF = true) (comps : List (List Step)) (cl : Closures)
    (h : compileQuery q = some (comps, cl)) : CompiledOK q comps cl :=
  compile_ok q hq comps cl h

/-- **`compile_total`**: on a well-formed pattern the DFS of `_compile_query` terminates within the fuel the model gives
    it (`fuelFor` = sum of degrees + 1; potential: stack height + degrees of unseen atoms) — the `none` branch is dead. -/
theorem compile_total (q : Graph) (hq : q.WF = true) : ∃ comps cl, compileQuery q = some (comps, cl) :=
  ChythonModel.Proofs.C07.compile_total q hq

/-- the executable checker the driver applies to the REAL `_compile_query` output guarantees the same facts -/
theorem checkCompiled_guarantees (q : Graph) (comps : List (List Step)) (cl : Closures)
    (h : checkCompiled q comps cl = true) : CompiledOK q comps cl :=
  checkCompiled_sound q comps cl h

/-- **Soundness** (`rec_sound`): every mapping the enumerator returns for a component is the dict of a valid embedding
    of that component into the target, inside the scope. -/
theorem rec_sound (q t : Graph) (comps : List (List Step)) (cl : Closures) (hq : q.WF = true) (ht : t.WF = true)
    (hc : CompiledOK q comps cl) (lq : List Step) (hlq : lq ∈ comps) (scope : Nat → Bool)
    (atomOk : Nat → Nat → Bool) (bondOk : Nat → Nat → Nat → Nat → Bool) (hb : BondSymm bondOk) :
    ∀ m ∈ recMapping (envOf t lq cl scope atomOk bondOk),
      ∃ f, m = asDict (lq.map (·.front)) f ∧ EmbedsComp q t (lq.map (·.front)) scope atomOk bondOk f := by
  intro m hm
  have hS := setting_of q t comps cl hq ht hc lq hlq scope atomOk bondOk hb
  rw [recMapping_eq] at hm
  obtain ⟨p, hp, rfl⟩ := List.mem_map.1 hm
  have pv := (mem_allPaths _ hS.ok.ne p).1 hp
  refine ⟨fOf lq p, ?_, pathValid_embeds hS pv⟩
  have := pv_path_eq hS pv
  show (lq.map (·.front)).zip p = (lq.map (·.front)).zip ((lq.map (·.front)).map (fOf lq p))
  exact congrArg _ this

/-- **Completeness** (`rec_complete`): the dict of every valid embedding of the component is returned. -/
theorem rec_complete (q t : Graph) (comps : List (List Step)) (cl : Closures) (hq : q.WF = true) (ht : t.WF = true)
    (hc : CompiledOK q comps cl) (lq : List Step) (hlq : lq ∈ comps) (scope : Nat → Bool)
    (atomOk : Nat → Nat → Bool) (bondOk : Nat → Nat → Nat → Nat → Bool) (hb : BondSymm bondOk)
    (f : Nat → Nat) (emb : EmbedsComp q t (lq.map (·.front)) scope atomOk bondOk f) :
    asDict (lq.map (·.front)) f ∈ recMapping (envOf t lq cl scope atomOk bondOk) := by
  have hS := setting_of q t comps cl hq ht hc lq hlq scope atomOk bondOk hb
  rw [recMapping_eq]
  exact List.mem_map.2 ⟨_, (mem_allPaths _ hS.ok.ne _).2 (embeds_pathValid hS emb), rfl⟩

/-- **No duplicates** (`rec_nodup`): no mapping is returned twice (the multiset is a set). -/
theorem rec_nodup (t : Graph) (ht : t.WF = true) (lq : List Step) (cl : Closures) (scope : Nat → Bool)
    (atomOk : Nat → Nat → Bool) (bondOk : Nat → Nat → Nat → Nat → Bool) :
    (recMapping (envOf t lq cl scope atomOk bondOk)).Nodup := by
  have hT := wf_ok t ht
  rw [recMapping_eq]
  refine List.Nodup.map_on ?_ (allPaths_nodup _ hT.nbrs_nodup hT.atoms_nodup)
  intro p1 h1 p2 h2 heq
  have len : ∀ p ∈ allPaths (envOf t lq cl scope atomOk bondOk), p.length ≤ (lq.map (·.front)).length := by
    intro p hp
    unfold allPaths at hp
    obtain ⟨r, hr, hp⟩ := List.mem_flatMap.1 hp
    have := extend_length _ _ _ _ hp
    have hne : lq ≠ [] := by
      intro h
      simp [roots, envOf, h] at hr
    have : 1 ≤ lq.length := by
      cases lq with
      | nil => exact absurd rfl hne
      | cons a l => simp
    simp [envOf] at *
    omega
  have := congrArg (List.map Prod.snd) heq
  simp only [envOf] at this
  rwa [List.map_snd_zip (len p1 h1), List.map_snd_zip (len p2 h2)] at this

/-- **Exactness for one component**: membership in the result ⇔ being (the dict of) a valid embedding; and the result is
    duplicate free. This is the statement "the mappings returned are exactly the injective maps …". -/
theorem component_exact (q t : Graph) (comps : List (List Step)) (cl : Closures) (hq : q.WF = true) (ht : t.WF = true)
    (hc : CompiledOK q comps cl) (lq : List Step) (hlq : lq ∈ comps) (scope : Nat → Bool)
    (atomOk : Nat → Nat → Bool) (bondOk : Nat → Nat → Nat → Nat → Bool) (hb : BondSymm bondOk) :
    (∀ m, m ∈ recMapping (envOf t lq cl scope atomOk bondOk) ↔
      ∃ f, m = asDict (lq.map (·.front)) f ∧ EmbedsComp q t (lq.map (·.front)) scope atomOk bondOk f) ∧
    (recMapping (envOf t lq cl scope atomOk bondOk)).Nodup := by
  refine ⟨fun m => ⟨rec_sound q t comps cl hq ht hc lq hlq scope atomOk bondOk hb m, ?_⟩,
    rec_nodup t ht lq cl scope atomOk bondOk⟩
  rintro ⟨f, rfl, emb⟩
  exact rec_complete q t comps cl hq ht hc lq hlq scope atomOk bondOk hb f emb

/-- **Exactness for every component of the model's own linearisation** (no checker in the statement): for a well-formed
    pattern and target, each component `lq` of `compileQuery q` is matched exactly. -/
theorem model_component_exact (q t : Graph) (hq : q.WF = true) (ht : t.WF = true) (comps : List (List Step))
    (cl : Closures) (hcq : compileQuery q = some (comps, cl)) (lq : List Step) (hlq : lq ∈ comps) (scope : Nat → Bool)
    (atomOk : Nat → Nat → Bool) (bondOk : Nat → Nat → Nat → Nat → Bool) (hb : BondSymm bondOk) :
    (∀ m, m ∈ recMapping (envOf t lq cl scope atomOk bondOk) ↔
      ∃ f, m = asDict (lq.map (·.front)) f ∧ EmbedsComp q t (lq.map (·.front)) scope atomOk bondOk f) ∧
    (recMapping (envOf t lq cl scope atomOk bondOk)).Nodup :=
  component_exact q t comps cl hq ht (compile_covers q hq comps cl hcq) lq hlq scope atomOk bondOk hb

/-- **`stack_refines_rec`**: the explicit stack machine (`_get_mapping`: `stack`, `path`, `mapping`, `reversed_mapping`,
    truncation on backtracking, closure-set test on the dictionaries) never crashes, never runs out of the fuel
    `machineFuel`, and yields exactly the list — same mappings, same order — the recursive enumerator yields. -/
theorem stack_refines_rec (q t : Graph) (comps : List (List Step)) (cl : Closures) (hq : q.WF = true) (ht : t.WF = true)
    (hc : CompiledOK q comps cl) (lq : List Step) (hlq : lq ∈ comps) (scope : Nat → Bool)
    (atomOk : Nat → Nat → Bool) (bondOk : Nat → Nat → Nat → Nat → Bool) (hb : BondSymm bondOk) :
    getMapping (envOf t lq cl scope atomOk bondOk) = some (recMapping (envOf t lq cl scope atomOk bondOk)) :=
  getMapping_eq_rec q _ (setting_of q t comps cl hq ht hc lq hlq scope atomOk bondOk hb) (wf_ok t ht).nbrs_nodup

/-- **`getMapping_exact`** — the statement about the function the code runs: for every well-formed pattern `q` and target
    `t`, every component `lq` of the model's own linearisation `compileQuery q`, every scope and every (direction
    independent) compatibility relation, the module-level `_get_mapping` terminates normally with a duplicate-free list whose
    members are exactly the dicts of the valid embeddings of that component inside the scope. -/
theorem getMapping_exact (q t : Graph) (hq : q.WF = true) (ht : t.WF = true) (comps : List (List Step))
    (cl : Closures) (hcq : compileQuery q = some (comps, cl)) (lq : List Step) (hlq : lq ∈ comps) (scope : Nat → Bool)
    (atomOk : Nat → Nat → Bool) (bondOk : Nat → Nat → Nat → Nat → Bool) (hb : BondSymm bondOk) :
    ∃ r, getMapping (envOf t lq cl scope atomOk bondOk) = some r ∧ r.Nodup ∧
      ∀ m, m ∈ r ↔ ∃ f, m = asDict (lq.map (·.front)) f ∧ EmbedsComp q t (lq.map (·.front)) scope atomOk bondOk f := by
  have hc := compile_covers q hq comps cl hcq
  have hx := component_exact q t comps cl hq ht hc lq hlq scope atomOk bondOk hb
  exact ⟨_, stack_refines_rec q t comps cl hq ht hc lq hlq scope atomOk bondOk hb, hx.2, hx.1⟩

/-- **Scope**: with a scope the result is exactly the embeddings all of whose images lie inside it — stated as: the
    result for scope `s` is the result without scope filtered by "every image is in `s`" (as sets of dicts). -/
theorem scope_exact (q t : Graph) (comps : List (List Step)) (cl : Closures) (hq : q.WF = true) (ht : t.WF = true)
    (hc : CompiledOK q comps cl) (lq : List Step) (hlq : lq ∈ comps) (scope : Nat → Bool)
    (atomOk : Nat → Nat → Bool) (bondOk : Nat → Nat → Nat → Nat → Bool) (hb : BondSymm bondOk) (m : Dict) :
    m ∈ recMapping (envOf t lq cl scope atomOk bondOk) ↔
      (m ∈ recMapping (envOf t lq cl (fun _ => true) atomOk bondOk) ∧
        ∃ f, m = asDict (lq.map (·.front)) f ∧ ∀ u ∈ lq.map (·.front), scope (f u) = true) := by
  have h1 := (component_exact q t comps cl hq ht hc lq hlq scope atomOk bondOk hb).1 m
  have h2 := (component_exact q t comps cl hq ht hc lq hlq (fun _ => true) atomOk bondOk hb).1 m
  rw [h1, h2]
  constructor
  · rintro ⟨f, rfl, emb⟩
    exact ⟨⟨f, rfl, ⟨emb.injective, emb.atom_in_target, emb.atom_matches, emb.bond_matches, emb.no_extra_bond,
      fun _ _ => rfl⟩⟩, f, rfl, emb.in_scope⟩
  · rintro ⟨⟨f, rfl, emb⟩, g, hg, hsc⟩
    refine ⟨g, hg, ?_⟩
    -- f and g agree on the fronts (same dict)
    have hfg : ∀ u ∈ lq.map (·.front), f u = g u := by
      have := congrArg (List.map Prod.snd) hg
      simp only [asDict] at this
      rw [List.map_snd_zip (by simp), List.map_snd_zip (by simp)] at this
      exact fun u hu => List.map_inj_left.1 this u hu
    have hQ := wf_ok q hq
    have hC := hc
    refine ⟨?_, ?_, ?_, ?_, ?_, hsc⟩
    · intro u hu v hv h; rw [← hfg u hu, ← hfg v hv] at h; exact emb.injective u hu v hv h
    · intro u hu; rw [← hfg u hu]; exact emb.atom_in_target u hu
    · intro u hu; rw [← hfg u hu]; exact emb.atom_matches u hu
    · intro u hu v hv
      obtain ⟨j, s, hs, rfl⟩ := pos_of_mem lq u hu
      have hvF : v ∈ lq.map (·.front) := ((hC.comp lq hlq).step j s hs).closed v hv
      rw [← hfg _ hu, ← hfg v hvF]; exact emb.bond_matches _ hu v hv
    · intro u hu v hv h; rw [← hfg u hu, ← hfg v hv] at h; exact emb.no_extra_bond u hu v hv h

/-! ## the whole call for a connected pattern: `Isomorphism._get_mapping`, branch `len(components) == 1` -/

/-- **`iso_single_exact`**: for a well-formed connected pattern (its linearisation has one component), a well-formed target
    whose `connected_components` were accepted by `checkComponents`, any `searching_scope` (`none`, or a list — also an empty
    one) and direction-independent bond compatibility, `Isomorphism._get_mapping` (before the `seen` filter) terminates
    normally with a duplicate-free list whose members are exactly the dicts of the maps satisfying the FULL specification
    `IsEmbedding` (injective, atoms match, bonds match, no additional bond, components apart, inside the scope). -/
theorem iso_single_exact (p : Problem) (hq : p.q.WF = true) (ht : p.t.WF = true)
    (hpart : checkComponents p.t p.tComps = true) (hb : BondSymm p.bondOk) (lq : List Step) (cl : Closures)
    (hcq : compileQuery p.q = some ([lq], cl)) :
    ∃ r, isoUnfiltered p [lq] cl = some r ∧ r.Nodup ∧
      ∀ m, m ∈ r ↔ ∃ f, m = asDict (lq.map (·.front)) f ∧
        IsEmbedding p.q p.t (scopeFn p.scope) p.atomOk p.bondOk f := by
  have hc := compile_covers p.q hq [lq] cl hcq
  have hlq : lq ∈ [lq] := by simp
  have hQ := wf_ok p.q hq
  have hP := checkComponents_sound p.t p.tComps hpart
  have hcomp := hc.comp lq hlq
  have hmem : ∀ u, u ∈ p.q.atoms ↔ u ∈ lq.map (·.front) := by
    intro u
    constructor
    · intro h; simpa using hc.cover u h
    · intro h; exact hc.sub u (by simpa using h)
  have hconn := comp_connected p.q hQ.symm cl lq hcomp
  have hclosed := comp_closed p.q cl lq hcomp
  have hx : ∀ cand, (∀ m, m ∈ recMapping (mkEnv p cl lq (restrict p.scope cand)) ↔
      ∃ f, m = asDict (lq.map (·.front)) f ∧
        EmbedsComp p.q p.t (lq.map (·.front)) (fun n => (restrict p.scope cand).contains n) p.atomOk p.bondOk f) ∧
      (recMapping (mkEnv p cl lq (restrict p.scope cand))).Nodup :=
    fun cand => component_exact p.q p.t [lq] cl hq ht hc lq hlq _ p.atomOk p.bondOk hb
  have hgm : ∀ cand, getMapping (mkEnv p cl lq (restrict p.scope cand)) =
      some (recMapping (mkEnv p cl lq (restrict p.scope cand))) :=
    fun cand => stack_refines_rec p.q p.t [lq] cl hq ht hc lq hlq _ p.atomOk p.bondOk hb
  -- the first atom of the pattern
  obtain ⟨s0, h0⟩ : ∃ s0, lq[0]? = some s0 := by
    cases hl : lq with
    | nil => exact absurd hl hcomp.ne
    | cons a l => exact ⟨a, rfl⟩
  have hu0 : s0.front ∈ lq.map (·.front) := front_mem lq 0 s0 h0
  refine ⟨_, isoUnfiltered_single p cl lq hgm, ?_, ?_⟩
  · -- no duplicates: different target components give different images of the first atom
    rw [List.nodup_flatMap]
    refine ⟨fun cand _ => (hx cand).2, ?_⟩
    refine List.Pairwise.imp ?_ hP.disjoint
    intro c1 c2 hdis
    simp only [Function.onFun]
    intro m hm1 hm2
    obtain ⟨f1, rfl, e1⟩ := ((hx c1).1 m).1 hm1
    obtain ⟨f2, h12, e2⟩ := ((hx c2).1 _).1 hm2
    have heq := asDict_inj _ f1 f2 h12 s0.front hu0
    have i1 := e1.in_scope _ hu0
    have i2 := e2.in_scope _ hu0
    simp only [restrict_contains, Bool.and_eq_true, List.contains_iff_mem] at i1 i2
    exact hdis i1.1 (heq ▸ i2.1)
  · intro m
    rw [List.mem_flatMap]
    constructor
    · rintro ⟨cand, _, hm⟩
      obtain ⟨f, rfl, emb⟩ := ((hx cand).1 m).1 hm
      refine ⟨f, rfl, ?_⟩
      refine ⟨?_, ?_, ?_, ?_, ?_, ?_, ?_⟩
      · intro u hu v hv h; exact emb.injective u ((hmem u).1 hu) v ((hmem v).1 hv) h
      · intro u hu; exact emb.atom_in_target u ((hmem u).1 hu)
      · intro u hu; exact emb.atom_matches u ((hmem u).1 hu)
      · intro u hu v hv; exact emb.bond_matches u ((hmem u).1 hu) v hv
      · intro u hu v hv _ h; exact emb.no_extra_bond u ((hmem u).1 hu) v ((hmem v).1 hv) h
      · intro u hu v hv hnr; exact absurd (hconn u v ((hmem u).1 hu) ((hmem v).1 hv)) hnr
      · intro u hu
        have := emb.in_scope u ((hmem u).1 hu)
        simp only [restrict_contains, Bool.and_eq_true] at this
        exact this.2
    · rintro ⟨f, rfl, isE⟩
      -- the target component of the image of the first atom
      obtain ⟨cand, hcand, hfc⟩ := hP.cover _ (isE.atom_in_target _ ((hmem _).2 hu0))
      have himg : ∀ u ∈ lq.map (·.front), f u ∈ cand := by
        intro u hu
        have hr : Reach p.t (f s0.front) (f u) :=
          reach_map (fun w => w ∈ lq.map (·.front)) hclosed f
            (fun w hw v hv => (isE.bond_matches w ((hmem w).2 hw) v hv).1) hu0 (hconn _ _ hu0 hu)
        exact reach_closed (fun y => y ∈ cand) (fun x hx y hy => hP.closed cand hcand x hx y hy) hfc hr
      refine ⟨cand, hcand, ((hx cand).1 _).2 ⟨f, rfl, ?_⟩⟩
      refine ⟨?_, ?_, ?_, ?_, ?_, ?_⟩
      · intro u hu v hv h; exact isE.injective u ((hmem u).2 hu) v ((hmem v).2 hv) h
      · intro u hu; exact isE.atom_in_target u ((hmem u).2 hu)
      · intro u hu; exact isE.atom_matches u ((hmem u).2 hu)
      · intro u hu v hv; exact isE.bond_matches u ((hmem u).2 hu) v hv
      · intro u hu v hv h
        exact isE.no_extra_bond u ((hmem u).2 hu) v ((hmem v).2 hv) (hconn u v hu hv) h
      · intro u hu
        simp only [restrict_contains, Bool.and_eq_true, List.contains_iff_mem]
        exact ⟨himg u hu, isE.in_scope u ((hmem u).2 hu)⟩

/-! ## the automorphism filter: exactly one mapping per distinct set of image atoms -/

/-- the `seen` filter keeps a sub-list of the mappings, no two survivors have the same image set, and every image set
    that occurred is represented by a survivor. -/
theorem filter_one_per_image_set (ms : List Dict) :
    (autoFilter ms).Sublist ms ∧
    (autoFilter ms).Pairwise (fun a b => setEq (vals a) (vals b) = false) ∧
    (∀ m ∈ ms, ∃ m' ∈ autoFilter ms, setEq (vals m) (vals m') = true) := by
  obtain ⟨h1, _, h3, h4⟩ := autoFilterGo_spec ms []
  refine ⟨h1, h3, ?_⟩
  intro m hm
  rcases h4 m hm with ⟨k, hk, _⟩ | h
  · simp at hk
  · exact h

/-- **`iso_multi_exact`**: the same for a pattern with several components (branch `else:` — `permutations` of the target
    components, one generator per pair, `lazy_product`, dict merge): the result contains exactly the dicts of the maps
    satisfying the full specification `IsEmbedding` — in particular different pattern components land in different target
    components, and a scope that covers target components only partly is respected per component. -/
theorem iso_multi_exact (p : Problem) (hq : p.q.WF = true) (ht : p.t.WF = true)
    (hpart : checkComponents p.t p.tComps = true) (hb : BondSymm p.bondOk) (comps : List (List Step)) (cl : Closures)
    (hcq : compileQuery p.q = some (comps, cl)) (hne : comps ≠ []) (hk : ∀ lq, comps ≠ [lq]) :
    ∃ r, isoUnfiltered p comps cl = some r ∧ r.Nodup ∧
      ∀ m, m ∈ r ↔ ∃ f, m = asDict (comps.flatten.map (·.front)) f ∧
        IsEmbedding p.q p.t (scopeFn p.scope) p.atomOk p.bondOk f := by
  have hc := compile_covers p.q hq comps cl hcq
  have hQ := wf_ok p.q hq
  have hT := wf_ok p.t ht
  have hP := checkComponents_sound p.t p.tComps hpart
  obtain ⟨hne', hconn⟩ := partition_extra p.t hT.symm p.tComps hpart
  have hF := compsFacts_of p.q comps cl hc
  have htnd : p.tComps.Nodup := nodup_of_pairwise_disjoint _ hP.disjoint hne'
  have hx : ∀ lq ∈ comps, ∀ cand m, m ∈ recMapping (mkEnv p cl lq (restrict p.scope cand)) ↔
      ∃ f, m = asDict (frontsOf lq) f ∧
        EmbedsComp p.q p.t (frontsOf lq) (fun n => (restrict p.scope cand).contains n) p.atomOk p.bondOk f :=
    fun lq hlq cand m => (component_exact p.q p.t comps cl hq ht hc lq hlq _ p.atomOk p.bondOk hb).1 m
  have hgm : ∀ lq ∈ comps, ∀ cand, getMapping (mkEnv p cl lq (restrict p.scope cand)) =
      some (recMapping (mkEnv p cl lq (restrict p.scope cand))) :=
    fun lq hlq cand => stack_refines_rec p.q p.t comps cl hq ht hc lq hlq _ p.atomOk p.bondOk hb
  have hcl : ∀ lq ∈ comps, ∀ u ∈ frontsOf lq, ∀ v ∈ p.q.nbrs u, v ∈ frontsOf lq :=
    fun lq hlq => comp_closed p.q cl lq (hF.ok lq hlq)
  have hflat : comps.flatten.map (·.front) = (comps.map frontsOf).flatten := by
    rw [List.map_flatten]; rfl
  -- the merged dict of a tuple
  have hmerge : ∀ (cands : List (List Nat)) (f : Nat → Nat), cands.length = comps.length →
      mergeD ((comps.zip cands).map fun pr => asDict (frontsOf pr.1) f) = asDict (comps.flatten.map (·.front)) f := by
    intro cands f hl
    have h1 : ((comps.zip cands).map fun pr => asDict (frontsOf pr.1) f) =
        (comps.map frontsOf).map fun C => asDict C f := by
      rw [List.map_map]
      have : (comps.zip cands).map (·.1) = comps := List.map_fst_zip (by omega)
      conv_rhs => rw [← this]
      rw [List.map_map]
      rfl
    rw [h1, hflat]
    apply mergeD_asDict
    · intro h; exact hne (List.map_eq_nil_iff.1 h)
    · intro C hC
      obtain ⟨lq, hlq, rfl⟩ := List.mem_map.1 hC
      exact hF.nodup lq hlq
    · rw [List.pairwise_map]; exact hF.disj
  -- membership in the result of one assignment
  have htuple : ∀ cands, cands.length = comps.length → ∀ m, m ∈ tupleResult p cl comps cands ↔
      ∃ f, AllEmb p comps cands f ∧ m = asDict (comps.flatten.map (·.front)) f := by
    intro cands hl m
    simp only [tupleResult, List.mem_map]
    constructor
    · rintro ⟨ms, hms, rfl⟩
      rw [lazyProduct_mem, glue_tuple p cl comps cands ms hx hcl hF.disj] at hms
      obtain ⟨f, hall, rfl⟩ := hms
      exact ⟨f, hall, hmerge cands f hl⟩
    · rintro ⟨f, hall, rfl⟩
      refine ⟨(comps.zip cands).map fun pr => asDict (frontsOf pr.1) f, ?_, hmerge cands f hl⟩
      rw [lazyProduct_mem, glue_tuple p cl comps cands _ hx hcl hF.disj]
      exact ⟨f, hall, rfl⟩
  have hperm := permutations_spec comps.length p.tComps htnd
  have hallF : ∀ lq ∈ comps, ∀ u ∈ frontsOf lq, u ∈ comps.flatten.map (·.front) := by
    intro lq hlq u hu
    rw [hflat, List.mem_flatten]
    exact ⟨_, List.mem_map.2 ⟨lq, hlq, rfl⟩, hu⟩
  refine ⟨_, isoUnfiltered_multi p cl comps hne hk hgm, ?_, ?_⟩
  · -- no duplicates
    rw [List.nodup_flatMap]
    refine ⟨?_, ?_⟩
    · intro cands hcands
      obtain ⟨hl, _, _⟩ := (hperm.1 cands).1 hcands
      unfold tupleResult
      refine List.Nodup.map_on ?_ ?_
      · intro ms hms ms' hms' heq
        rw [lazyProduct_mem, glue_tuple p cl comps cands ms hx hcl hF.disj] at hms
        rw [lazyProduct_mem, glue_tuple p cl comps cands ms' hx hcl hF.disj] at hms'
        obtain ⟨f, _, rfl⟩ := hms
        obtain ⟨f', _, rfl⟩ := hms'
        rw [hmerge cands f hl, hmerge cands f' hl] at heq
        have hff := asDict_inj _ f f' heq
        apply List.map_congr_left
        intro pr hpr
        apply asDict_congr
        intro u hu
        exact hff u (hallF pr.1 (List.of_mem_zip hpr).1 u hu)
      · exact ((lazyProduct_perm _).nodup_iff).2 (cartesian_nodup _
          (mapperList_nodup p cl (fun lq cand => rec_nodup p.t ht lq cl _ p.atomOk p.bondOk) comps cands))
    · refine List.Pairwise.imp_of_mem ?_ hperm.2
      intro a b ha hb hab
      simp only [Function.onFun]
      intro m hma hmb
      obtain ⟨hla, _, hsa⟩ := (hperm.1 a).1 ha
      obtain ⟨hlb, _, hsb⟩ := (hperm.1 b).1 hb
      obtain ⟨f, hfa, rfl⟩ := (htuple a hla m).1 hma
      obtain ⟨f', hfb, hmm⟩ := (htuple b hlb _).1 hmb
      have hff := asDict_inj _ f f' hmm
      apply hab
      refine cands_unique p.tComps hP.disjoint (fun lq => f (headFront lq)) comps a b hla hlb hsa hsb ?_ ?_
      · intro pr hpr
        have hlq := (List.of_mem_zip hpr).1
        have := (hfa pr hpr).in_scope _ (headFront_mem pr.1 (hF.ok pr.1 hlq).ne)
        simp only [restrict_contains, Bool.and_eq_true, List.contains_iff_mem] at this
        exact this.1
      · intro pr hpr
        have hlq := (List.of_mem_zip hpr).1
        have hh := headFront_mem pr.1 (hF.ok pr.1 hlq).ne
        have := (hfb pr hpr).in_scope _ hh
        simp only [restrict_contains, Bool.and_eq_true, List.contains_iff_mem] at this
        rw [hff _ (hallF pr.1 hlq _ hh)]
        exact this.1
  intro m
  rw [List.mem_flatMap]
  constructor
  · rintro ⟨cands, hcands, hm⟩
    obtain ⟨hl, hnd, hsub⟩ := ((permutations_spec comps.length p.tComps htnd).1 cands).1 hcands
    simp only [tupleResult, List.mem_map] at hm
    obtain ⟨ms, hms, rfl⟩ := hm
    rw [lazyProduct_mem, glue_tuple p cl comps cands ms hx hcl hF.disj] at hms
    obtain ⟨f, hall, rfl⟩ := hms
    exact ⟨f, hmerge cands f hl, allEmb_sound p cl comps hF hQ.symm hP cands hl hnd hsub f hall⟩
  · rintro ⟨f, rfl, isE⟩
    obtain ⟨cands, hl, hnd, hsub, hall⟩ := allEmb_complete p cl comps hF hQ.symm hP hconn f isE
    refine ⟨cands, ((permutations_spec comps.length p.tComps htnd).1 cands).2 ⟨hl, hnd, hsub⟩, ?_⟩
    simp only [tupleResult, List.mem_map]
    refine ⟨(comps.zip cands).map fun pr => asDict (frontsOf pr.1) f, ?_, hmerge cands f hl⟩
    rw [lazyProduct_mem, glue_tuple p cl comps cands _ hx hcl hF.disj]
    exact ⟨f, hall, rfl⟩

/-- the unfiltered list `Isomorphism._get_mapping` builds before the `seen` filter, for any number of pattern components:
    terminates normally, duplicate free, and contains exactly the dicts of the maps satisfying `IsEmbedding` -/
theorem iso_unfiltered_exact (p : Problem) (hq : p.q.WF = true) (ht : p.t.WF = true)
    (hpart : checkComponents p.t p.tComps = true) (hb : BondSymm p.bondOk) (hatoms : p.q.atoms ≠ []) :
    ∃ comps cl r, compileQuery p.q = some (comps, cl) ∧ isoUnfiltered p comps cl = some r ∧ r.Nodup ∧
      ∀ m, m ∈ r ↔ ∃ f, m = asDict (comps.flatten.map (·.front)) f ∧
        IsEmbedding p.q p.t (scopeFn p.scope) p.atomOk p.bondOk f := by
  obtain ⟨comps, cl, hcq⟩ := compile_total p.q hq
  have hc := compile_covers p.q hq comps cl hcq
  have hne : comps ≠ [] := by
    intro h
    obtain ⟨a, ha⟩ := List.exists_mem_of_ne_nil _ hatoms
    have := hc.cover a ha
    rw [h] at this
    simp at this
  by_cases hk : ∃ lq, comps = [lq]
  · obtain ⟨lq, rfl⟩ := hk
    obtain ⟨r, hr, hnd, hmem⟩ := iso_single_exact p hq ht hpart hb lq cl hcq
    exact ⟨[lq], cl, r, hcq, hr, hnd, by simpa using hmem⟩
  · have hk' : ∀ lq, comps ≠ [lq] := fun lq h => hk ⟨lq, h⟩
    obtain ⟨r, hr, hnd, hmem⟩ := iso_multi_exact p hq ht hpart hb comps cl hcq hne hk'
    exact ⟨comps, cl, r, hcq, hr, hnd, hmem⟩

/-- **`get_mapping_exact`** — the property's first sentence for the whole unfiltered call, any number of pattern
    components: for every well-formed non-empty pattern and well-formed target (with accepted `connected_components`), every
    scope (`None`, or any collection — also an empty one) and every direction-independent compatibility relation,
    `Isomorphism._get_mapping(automorphism_filter=False)` terminates normally and returns, without duplicates, exactly the
    dicts of the maps satisfying `IsEmbedding`. -/
theorem get_mapping_exact (p : Problem) (hq : p.q.WF = true) (ht : p.t.WF = true)
    (hpart : checkComponents p.t p.tComps = true) (hb : BondSymm p.bondOk) (hatoms : p.q.atoms ≠ [])
    (haf : p.autoFilter = false) :
    ∃ comps cl r, compileQuery p.q = some (comps, cl) ∧ isoGetMapping p = some r ∧ r.Nodup ∧
      ∀ m, m ∈ r ↔ ∃ f, m = asDict (comps.flatten.map (·.front)) f ∧
        IsEmbedding p.q p.t (scopeFn p.scope) p.atomOk p.bondOk f := by
  obtain ⟨comps, cl, r, hcq, hr, hnd, hmem⟩ := iso_unfiltered_exact p hq ht hpart hb hatoms
  refine ⟨comps, cl, r, hcq, ?_, hnd, hmem⟩
  unfold isoGetMapping
  simp [hcq, hr, haf]

/-- **`get_mapping_filtered`** — the property's second sentence for the whole call: with `automorphism_filter=True` the
    result is the `seen`-filter of the exact embedding list `r`: a sub-list of `r` (every survivor is a valid embedding), no
    two survivors have the same set of image atoms, and every image set occurring in `r` is represented — exactly one mapping
    per distinct set of image atoms. -/
theorem get_mapping_filtered (p : Problem) (hq : p.q.WF = true) (ht : p.t.WF = true)
    (hpart : checkComponents p.t p.tComps = true) (hb : BondSymm p.bondOk) (hatoms : p.q.atoms ≠ [])
    (haf : p.autoFilter = true) :
    ∃ comps cl r, compileQuery p.q = some (comps, cl) ∧ isoGetMapping p = some (autoFilter r) ∧
      (∀ m, m ∈ r ↔ ∃ f, m = asDict (comps.flatten.map (·.front)) f ∧
        IsEmbedding p.q p.t (scopeFn p.scope) p.atomOk p.bondOk f) ∧
      (autoFilter r).Sublist r ∧
      (autoFilter r).Pairwise (fun a b => setEq (vals a) (vals b) = false) ∧
      (∀ m ∈ r, ∃ m' ∈ autoFilter r, setEq (vals m) (vals m') = true) := by
  obtain ⟨comps, cl, r, hcq, hr, _, hmem⟩ := iso_unfiltered_exact p hq ht hpart hb hatoms
  obtain ⟨f1, f2, f3⟩ := filter_one_per_image_set r
  refine ⟨comps, cl, r, hcq, ?_, hmem, f1, f2, f3⟩
  unfold isoGetMapping
  simp [hcq, hr, haf]

/-- the filtered call: `isoGetMapping` with `automorphism_filter=True` keeps exactly one of those embeddings per image set -/
theorem iso_single_filtered (p : Problem) (hq : p.q.WF = true) (ht : p.t.WF = true)
    (hpart : checkComponents p.t p.tComps = true) (hb : BondSymm p.bondOk) (lq : List Step) (cl : Closures)
    (hcq : compileQuery p.q = some ([lq], cl)) (haf : p.autoFilter = true) :
    ∃ r, isoUnfiltered p [lq] cl = some r ∧ isoGetMapping p = some (autoFilter r) ∧
      (autoFilter r).Sublist r ∧
      (autoFilter r).Pairwise (fun a b => setEq (vals a) (vals b) = false) ∧
      (∀ m ∈ r, ∃ m' ∈ autoFilter r, setEq (vals m) (vals m') = true) := by
  obtain ⟨r, hr, _, _⟩ := iso_single_exact p hq ht hpart hb lq cl hcq
  obtain ⟨f1, f2, f3⟩ := filter_one_per_image_set r
  refine ⟨r, hr, ?_, f1, f2, f3⟩
  unfold isoGetMapping
  simp [hcq, hr, haf]

/-! ## `lazy_product` and `itertools.permutations` (component assignment of multi-component patterns) -/

/-! ## the stereo post-filter of `QueryIsomorphism.get_mapping` (`Model/IsoStereo.lean`) -/

section stereo
open ChythonModel.Model.Stereo ChythonModel.Spec ChythonModel.Spec.StereoMatch

/-- **the filter only removes mappings**: whenever the post-filter ends normally its result is a sub-list of the mappings of the
    underlying search (nothing added, nothing reordered, nothing duplicated) and contains exactly those on which every step
    passed. -/
theorem stereo_filter_sublist (q : Graph) (qm : QMarks) (tl : TLabels) (ms r : List Dict)
    (h : stereoFilter q qm tl ms = .ok r) :
    r.Sublist ms ∧ ∀ m, m ∈ r ↔ m ∈ ms ∧ keepMapping q qm tl m = .ok true := by
  obtain ⟨e, _⟩ := stereoFilter_ok q qm tl ms r h
  subst e
  refine ⟨List.filter_sublist, fun m => ?_⟩
  rw [List.mem_filter, keeps_iff]

/-- the filter raises iff some mapping of the underlying search makes a step raise (never silently) -/
theorem stereo_filter_outcome (q : Graph) (qm : QMarks) (tl : TLabels) (ms : List Dict) :
    (∃ r, stereoFilter q qm tl ms = .ok r) ↔ ∀ m ∈ ms, ∃ b, keepMapping q qm tl m = .ok b := by
  constructor
  · rintro ⟨r, h⟩
    exact (stereoFilter_ok q qm tl ms r h).2
  · exact stereoFilter_total q qm tl ms

/-- a mapping is yielded iff EVERY marked query atom and EVERY marked query bond passes its own test — independent of the order
    in which `self.atoms()` / `self.bonds()` enumerate them -/
theorem keep_iff_every_mark_passes (q : Graph) (qm : QMarks) (tl : TLabels) (m : Dict) :
    keepMapping q qm tl m = .ok true ↔
      (∀ n ∈ q.atoms, ∀ mark, qm.atom n = some mark → atomStep q tl m n mark = .ok true) ∧
      (∀ b ∈ bondsOf q, ∀ mark, qm.bond b.1 b.2 = some mark → bondStep q tl m b.1 b.2 mark = .ok true) :=
  keepMapping_true_iff' q qm tl m

/-- **a query without marks is unaffected**, whatever the target's labels and stereo tables are -/
theorem stereo_filter_no_marks (q : Graph) (qm : QMarks) (tl : TLabels) (ms : List Dict)
    (ha : ∀ n ∈ q.atoms, qm.atom n = none) (hb : ∀ b ∈ bondsOf q, qm.bond b.1 b.2 = none) :
    stereoFilter q qm tl ms = .ok ms := by
  have hk : ∀ m, keepMapping q qm tl m = .ok true := fun m => by
    rw [keepMapping_true_iff']
    refine ⟨fun n hn mark hm => ?_, fun b hb' mark hm => ?_⟩
    · rw [ha n hn] at hm; cases hm
    · rw [hb b hb'] at hm; cases hm
  induction ms with
  | nil => rfl
  | cons m rest ih => simp [stereoFilter, hk m, ih]

/-- "stereo in query should match only stereo atom" / "chiral query bond matches only chiral molecule bond" -/
theorem mark_on_unlabelled_image_rejects (q : Graph) (tl : TLabels) (mapping : Dict) (n k x y : Nat) (mark : Bool)
    (hn : mapping.lookup n = some x) (hk : mapping.lookup k = some y) :
    (tl.atom x = none → atomStep q tl mapping n mark = .ok false) ∧
    (tl.bond x y = some none → bondStep q tl mapping n k mark = .ok false) :=
  ⟨atomStep_unlabelled q tl mapping n x mark hn, bondStep_unlabelled q tl mapping n k x y mark hn hk⟩

/-- **tetrahedral mark, four heavy neighbours, all four listed by the query** (any arrangement): the step passes iff the
    target's label re-read in the listed order (inversion-count parity, `Spec/Parity.lean`) equals the mark -/
theorem mark_tetra_four_listed (q : Graph) (tl : TLabels) (mapping : Dict) (n m : Nat) (mark s : Bool) (a b c d : Nat)
    (env : List Nat) (hm : mapping.lookup n = some m) (hl : tl.atom m = some s)
    (ht : tl.tetra.lookup m = some [a, b, c, d]) (hnd : [a, b, c, d].Nodup)
    (he : imagesOf mapping (q.nbrs n) = .ok env) (hp : env.Perm [a, b, c, d]) :
    atomStep q tl mapping n mark = .ok (tetraAgrees [a, b, c, d] env s mark) := by
  rw [atomStep_tetra q tl mapping n m mark s _ env hm hl ht he, translateTetra_perm4 a b c d hnd env hp]
  rfl

/-- **three of the four heavy neighbours listed**: the unlisted one counts as last -/
theorem mark_tetra_three_of_four (q : Graph) (tl : TLabels) (mapping : Dict) (n m : Nat) (mark s : Bool) (a b c d x : Nat)
    (env : List Nat) (hm : mapping.lookup n = some m) (hl : tl.atom m = some s)
    (ht : tl.tetra.lookup m = some [a, b, c, d]) (hnd : [a, b, c, d].Nodup)
    (he : imagesOf mapping (q.nbrs n) = .ok env) (h3 : env.length = 3) (hp : (env ++ [x]).Perm [a, b, c, d]) :
    atomStep q tl mapping n mark = .ok (tetraAgrees [a, b, c, d] (env ++ [x]) s mark) := by
  have hlen : (env ++ [x]).length = 4 := by simp [h3]
  have htk : (env ++ [x]).take 3 = env := by
    rw [← h3]; simp
  have := translateTetra_take3 [a, b, c, d] (env ++ [x]) rfl hlen tl.isH none (some s)
  rw [htk] at this
  rw [atomStep_tetra q tl mapping n m mark s _ env hm hl ht he, this, translateTetra_perm4 a b c d hnd _ hp]
  rfl

/-- **three heavy neighbours and an implicit hydrogen**: the three listed in any arrangement -/
theorem mark_tetra_implicit_h (q : Graph) (tl : TLabels) (mapping : Dict) (n m : Nat) (mark s : Bool) (a b c : Nat)
    (env : List Nat) (hm : mapping.lookup n = some m) (hl : tl.atom m = some s)
    (ht : tl.tetra.lookup m = some [a, b, c]) (hnd : [a, b, c].Nodup)
    (he : imagesOf mapping (q.nbrs n) = .ok env) (hp : env.Perm [a, b, c]) :
    atomStep q tl mapping n mark = .ok (tetraAgrees [a, b, c] env s mark) := by
  rw [atomStep_tetra q tl mapping n m mark s _ env hm hl ht he, translateTetra_implicitH a b c hnd env hp]
  rfl

/-- **three heavy neighbours and an explicit hydrogen `h`** listed anywhere: hydrogen is last in the reference order -/
theorem mark_tetra_explicit_h (q : Graph) (tl : TLabels) (mapping : Dict) (n m : Nat) (mark s : Bool) (a b c h : Nat)
    (env : List Nat) (hm : mapping.lookup n = some m) (hl : tl.atom m = some s)
    (ht : tl.tetra.lookup m = some [a, b, c]) (hnd : [a, b, c].Nodup)
    (ha : tl.isH a = false) (hb : tl.isH b = false) (hc : tl.isH c = false) (hh : tl.isH h = true)
    (he : imagesOf mapping (q.nbrs n) = .ok env) (hp : env.Perm [a, b, c, h]) :
    atomStep q tl mapping n mark = .ok (tetraAgrees [a, b, c, h] env s mark) := by
  rw [atomStep_tetra q tl mapping n m mark s _ env hm hl ht he, translateTetra_explicitH a b c h hnd ha hb hc hh env hp]
  rfl

/-- **allene mark**: with `n1` / `m1` the images of the first listed substituents of the two terminal query atoms, sitting in
    slots `k0` / `k1` of the target's environment, the step passes iff label xor flip(k0, k1) equals the mark -/
theorem mark_allene_slots (q : Graph) (tl : TLabels) (mapping : Dict) (n m : Nat) (mark s : Bool) (ot1 ot2 n1 m1 : Nat)
    (e : Ends) (hm : mapping.lookup n = some m) (hl : tl.atom m = some s) (ht : tl.tetra.lookup m = none)
    (hterm : tl.alleneTerm.lookup m = some (ot1, ot2)) (hal : tl.allenes.lookup m = some e) (wf : EndsWF e tl.isH)
    (hpick : pickNeighbours q mapping (reverseDict mapping) e ot1 ot2 = .ok (n1, m1))
    (k0 k1 : Nat) (hk0 : k0 = 0 ∨ k0 = 2) (hk1 : k1 = 1 ∨ k1 = 3) (s0 : IsSlot e tl.isH k0 n1) (s1 : IsSlot e tl.isH k1 m1) :
    atomStep q tl mapping n mark = .ok (endsAgrees k0 k1 s mark) := by
  rw [atomStep_allene q tl mapping n m mark s ot1 ot2 n1 m1 e hm hl ht hterm hal hpick,
    translateEnds_slots e tl.isH wf k0 k1 n1 m1 hk0 hk1 s0 s1 s]
  rfl

/-- **double-bond mark**: the same flip rule with the label of the central bond of the target's double-bond chain -/
theorem mark_double_bond_slots (q : Graph) (tl : TLabels) (mapping : Dict) (n k on om : Nat) (mark s l : Bool)
    (ot1 ot2 n1 m1 : Nat) (e : Ends) (hn : mapping.lookup n = some on) (hk : mapping.lookup k = some om)
    (hb : tl.bond on om = some (some l)) (hterm : tl.ctTerm.lookup on = some (ot1, ot2))
    (hct : tl.cisTrans.lookup (ot1, ot2) = some e) (hc : centralLabel tl ot1 = some s) (wf : EndsWF e tl.isH)
    (hpick : pickNeighbours q mapping (reverseDict mapping) e ot1 ot2 = .ok (n1, m1))
    (k0 k1 : Nat) (hk0 : k0 = 0 ∨ k0 = 2) (hk1 : k1 = 1 ∨ k1 = 3) (s0 : IsSlot e tl.isH k0 n1) (s1 : IsSlot e tl.isH k1 m1) :
    bondStep q tl mapping n k mark = .ok (endsAgrees k0 k1 s mark) := by
  rw [bondStep_labelled q tl mapping n k on om mark s l ot1 ot2 n1 m1 e hn hk hb hterm hct hc hpick,
    translateEnds_slots e tl.isH wf k0 k1 n1 m1 hk0 hk1 s0 s1 s]
  rfl

/-- **`get_mapping_stereo_exact`** — `get_mapping_exact` extended to `QueryIsomorphism.get_mapping(automorphism_filter=False)`:
    the call is the post-filter applied to the exact embedding list `r0`; whenever it ends normally the result is duplicate free, a
    sub-list of `r0`, and contains exactly the dicts of the valid embeddings on which every marked atom and bond passes; it ends
    normally iff no valid embedding makes a step raise. -/
theorem get_mapping_stereo_exact (p : Problem) (qm : QMarks) (tl : TLabels) (hq : p.q.WF = true) (ht : p.t.WF = true)
    (hpart : checkComponents p.t p.tComps = true) (hb : BondSymm p.bondOk) (hatoms : p.q.atoms ≠ [])
    (haf : p.autoFilter = false) :
    ∃ comps cl r0, compileQuery p.q = some (comps, cl) ∧ isoGetMapping p = some r0 ∧
      queryGetMapping p qm tl = some (stereoFilter p.q qm tl r0) ∧
      (∀ r, stereoFilter p.q qm tl r0 = .ok r → r.Nodup ∧ r.Sublist r0 ∧
        ∀ m, m ∈ r ↔ ∃ f, m = asDict (comps.flatten.map (·.front)) f ∧
          IsEmbedding p.q p.t (scopeFn p.scope) p.atomOk p.bondOk f ∧ keepMapping p.q qm tl m = .ok true) ∧
      ((∃ r, stereoFilter p.q qm tl r0 = .ok r) ↔
        ∀ f, IsEmbedding p.q p.t (scopeFn p.scope) p.atomOk p.bondOk f →
          ∃ b, keepMapping p.q qm tl (asDict (comps.flatten.map (·.front)) f) = .ok b) := by
  obtain ⟨comps, cl, r0, hcq, hr, hnd, hmem⟩ := get_mapping_exact p hq ht hpart hb hatoms haf
  refine ⟨comps, cl, r0, hcq, hr, by simp [queryGetMapping, hr], ?_, ?_⟩
  · intro r h
    obtain ⟨hs, hm⟩ := stereo_filter_sublist p.q qm tl r0 r h
    refine ⟨hs.nodup hnd, hs, fun m => ?_⟩
    rw [hm, hmem]
    constructor
    · rintro ⟨⟨f, e, isE⟩, hk⟩
      exact ⟨f, e, isE, hk⟩
    · rintro ⟨f, e, isE, hk⟩
      exact ⟨⟨f, e, isE⟩, hk⟩
  · rw [stereo_filter_outcome]
    constructor
    · intro h f isE
      exact h _ ((hmem _).2 ⟨f, rfl, isE⟩)
    · intro h m hm
      obtain ⟨f, e, isE⟩ := (hmem m).1 hm
      subst e
      exact h f isE

/-- for a query without marks the whole call IS the exact embedding list (`get_mapping_exact` carries over unchanged) -/
theorem get_mapping_stereo_no_marks (p : Problem) (qm : QMarks) (tl : TLabels) (hq : p.q.WF = true) (ht : p.t.WF = true)
    (hpart : checkComponents p.t p.tComps = true) (hb : BondSymm p.bondOk) (hatoms : p.q.atoms ≠ [])
    (haf : p.autoFilter = false)
    (ha : ∀ n ∈ p.q.atoms, qm.atom n = none) (hbm : ∀ b ∈ bondsOf p.q, qm.bond b.1 b.2 = none) :
    ∃ comps cl r, compileQuery p.q = some (comps, cl) ∧ queryGetMapping p qm tl = some (.ok r) ∧ r.Nodup ∧
      ∀ m, m ∈ r ↔ ∃ f, m = asDict (comps.flatten.map (·.front)) f ∧
        IsEmbedding p.q p.t (scopeFn p.scope) p.atomOk p.bondOk f := by
  obtain ⟨comps, cl, r0, hcq, hr, hnd, hmem⟩ := get_mapping_exact p hq ht hpart hb hatoms haf
  refine ⟨comps, cl, r0, hcq, ?_, hnd, hmem⟩
  simp [queryGetMapping, hr, stereo_filter_no_marks p.q qm tl r0 ha hbm]

/-- FULL statement for `automorphism_filter=True` (the property's second sentence read for stereo queries): one survivor per
    image set of the embeddings that pass the stereo test.  It does NOT hold for the code as it is: the `seen` filter runs
    before the stereo test, so an image set whose first representative fails is lost although another representative passes
    (`known_findings/C07.json`: `C07/stereo/automorphism-filter-before-stereo-test`, witness in `Findings/C07.lean`). -/
def StereoFilteredFull (p : Problem) (qm : QMarks) (tl : TLabels) : Prop :=
  ∀ comps cl r0 r, compileQuery p.q = some (comps, cl) → isoUnfiltered p comps cl = some r0 →
    queryGetMapping p qm tl = some (.ok r) →
    ∀ m ∈ r0, keepMapping p.q qm tl m = .ok true → ∃ m' ∈ r, setEq (vals m) (vals m') = true

/-- what DOES hold with the filter: the result is a sub-list of the `seen`-filtered exact list — every survivor is a valid
    embedding passing every mark, no two survivors share an image set; and when the query has no marks every image set is
    represented (the excluded class is exactly: marked queries whose first-yielded representative of an image set fails). -/
theorem get_mapping_stereo_filtered_partial (p : Problem) (qm : QMarks) (tl : TLabels) (hq : p.q.WF = true) (ht : p.t.WF = true)
    (hpart : checkComponents p.t p.tComps = true) (hb : BondSymm p.bondOk) (hatoms : p.q.atoms ≠ [])
    (haf : p.autoFilter = true) :
    ∃ comps cl r0, compileQuery p.q = some (comps, cl) ∧ isoUnfiltered p comps cl = some r0 ∧
      queryGetMapping p qm tl = some (stereoFilter p.q qm tl (autoFilter r0)) ∧
      (∀ r, stereoFilter p.q qm tl (autoFilter r0) = .ok r →
        r.Sublist (autoFilter r0) ∧
        r.Pairwise (fun a b => setEq (vals a) (vals b) = false) ∧
        (∀ m ∈ r, keepMapping p.q qm tl m = .ok true ∧ ∃ f, m = asDict (comps.flatten.map (·.front)) f ∧
          IsEmbedding p.q p.t (scopeFn p.scope) p.atomOk p.bondOk f)) ∧
      ((∀ n ∈ p.q.atoms, qm.atom n = none) → (∀ b ∈ bondsOf p.q, qm.bond b.1 b.2 = none) →
        queryGetMapping p qm tl = some (.ok (autoFilter r0)) ∧
        ∀ m ∈ r0, ∃ m' ∈ autoFilter r0, setEq (vals m) (vals m') = true) := by
  obtain ⟨comps, cl, r0, hcq, hr, _, hmem⟩ := iso_unfiltered_exact p hq ht hpart hb hatoms
  obtain ⟨f1, f2, f3⟩ := filter_one_per_image_set r0
  have hiso : isoGetMapping p = some (autoFilter r0) := by
    unfold isoGetMapping; simp [hcq, hr, haf]
  refine ⟨comps, cl, r0, hcq, hr, by simp [queryGetMapping, hiso], ?_, ?_⟩
  · intro r h
    obtain ⟨hs, hm⟩ := stereo_filter_sublist p.q qm tl _ r h
    refine ⟨hs, f2.sublist hs, fun m hmr => ?_⟩
    obtain ⟨hin, hk⟩ := (hm m).1 hmr
    exact ⟨hk, (hmem m).1 (f1.subset hin)⟩
  · intro ha hbm
    refine ⟨by simp [queryGetMapping, hiso, stereo_filter_no_marks p.q qm tl _ ha hbm], f3⟩

end stereo

/-! ## `get_fast_mapping` and the `match_stereo=True` branch -/

section fast

/-- `get_fast_mapping` answers `None` exactly when the sizes differ or the two molecules compare unequal; otherwise (the SMILES
    atom order of `self` has no repetition) its answer is the position-wise pairing of the two SMILES atom orders -/
theorem fast_mapping_spec (lenSelf lenOther : Nat) (so oo : List Nat) (equal : Bool) :
    (getFastMapping lenSelf lenOther so oo equal = none ↔ lenSelf ≠ lenOther ∨ equal = false) ∧
    (so.Nodup → ∀ d, getFastMapping lenSelf lenOther so oo equal = some d → d = so.zip oo) := by
  constructor
  · unfold getFastMapping
    by_cases h1 : lenSelf = lenOther <;> cases equal <;> simp [h1]
  · intro hnd d hd
    unfold getFastMapping at hd
    split at hd
    · cases hd
    · split at hd
      · cases hd
      · simp only [Option.some.injEq] at hd
        rw [← hd]
        have key : ∀ (l acc : Dict), (acc ++ l).map (·.1) |>.Nodup →
            l.foldl (fun acc p => acc.set p.1 p.2) acc = acc ++ l := by
          intro l
          induction l with
          | nil => intro acc _; simp
          | cons x rest ih =>
            intro acc hn
            have hx : acc.any (·.1 == x.1) = false := by
              rw [Bool.eq_false_iff]
              intro hc
              rw [List.any_eq_true] at hc
              obtain ⟨y, hy, e⟩ := hc
              have e' : y.1 = x.1 := by simpa using e
              simp only [List.map_append, List.map_cons] at hn
              have := (List.nodup_append.1 hn).2.2 y.1 (List.mem_map_of_mem hy) x.1 (by simp)
              exact this e'
            have hs : acc.set x.1 x.2 = acc ++ [x] := by simp [Dict.set, hx]
            rw [List.foldl_cons, hs, ih (acc ++ [x]) (by simpa using hn)]
            simp
        have hsub : ∀ (a b : List Nat), ((a.zip b).map (·.1)).Sublist a := by
          intro a
          induction a with
          | nil => intro b; simp
          | cons x xs ih =>
            intro b
            cases b with
            | nil => simp
            | cons y ys => simpa using ih ys
        have hz : ((so.zip oo).map (·.1)).Nodup := List.Nodup.sublist (hsub so oo) hnd
        simpa using key (so.zip oo) [] (by simpa using hz)

example : getFastMapping 3 3 [2, 1, 3] [7, 9, 8] true = some [(2, 7), (1, 9), (3, 8)] ∧
    getFastMapping 3 3 [2, 1, 3] [7, 9, 8] false = none ∧ getFastMapping 3 4 [2, 1, 3] [7, 9, 8] true = none := by decide

/-- **`get_fast_mapping` returns one of `get_mapping`'s mappings**: a dict accepted by the executable checker `isoCheck` (the
    driver applies it to the REAL `get_fast_mapping` output on every case) is a valid embedding of the whole pattern, hence — by
    `get_mapping_exact` — occurs in the list `get_mapping(automorphism_filter=False)` returns (as the dict with the keys in
    linearisation order; Python dict equality ignores key order). -/
theorem fast_mapping_member (p : Problem) (d : Dict) (hq : p.q.WF = true) (ht : p.t.WF = true)
    (hpart : checkComponents p.t p.tComps = true) (hb : BondSymm p.bondOk) (hatoms : p.q.atoms ≠ [])
    (haf : p.autoFilter = false) (hs : p.scope = none) (hc : isoCheck p d = true) :
    ∃ comps cl r, compileQuery p.q = some (comps, cl) ∧ isoGetMapping p = some r ∧
      asDict (comps.flatten.map (·.front)) (fun u => (d.lookup u).getD 0) ∈ r ∧
      IsEmbedding p.q p.t (scopeFn p.scope) p.atomOk p.bondOk (fun u => (d.lookup u).getD 0) := by
  obtain ⟨comps, cl, r, hcq, hr, _, hmem⟩ := get_mapping_exact p hq ht hpart hb hatoms haf
  have hE := isoCheck_sound p d hq ht hc
  have hsc : scopeFn p.scope = fun _ => true := by
    funext x; simp [scopeFn, hs]
  rw [← hsc] at hE
  exact ⟨comps, cl, r, hcq, hr, (hmem _).2 ⟨_, rfl, hE⟩, hE⟩

/-- the `match_stereo=True` branch with the filter on: exactly the non-empty `get_fast_mapping` answers, in order -/
theorem match_stereo_filtered (items : List (Option Dict × List Dict)) :
    matchStereo true items =
      some (items.filterMap fun it => match it.1 with
        | some fm => if fm.isEmpty then none else some fm
        | none => none) := by
  induction items with
  | nil => rfl
  | cons it rest ih =>
    obtain ⟨fm?, autos⟩ := it
    cases fm? with
    | none => simp [matchStereo, ih]
    | some fm =>
      cases fm with
      | nil => simp [matchStereo, ih]
      | cons x xs => simp [matchStereo, ih]

end fast

/-- **`lazyProduct_exact`**: `lazy_product(*args)` yields a rearrangement of the cartesian product — every combination (by
    position) exactly once — and yields nothing iff some factor is empty. -/
theorem lazyProduct_exact {α : Type} (args : List (List α)) :
    (lazyProduct args).Perm (cartesian args) ∧ (lazyProduct args = [] ↔ ∃ a ∈ args, a = []) := by
  have hp := lazyProduct_perm args
  refine ⟨hp, ?_⟩
  rw [← cartesian_eq_nil_iff]
  constructor
  · intro h; rw [h] at hp; exact List.Perm.eq_nil hp.symm
  · intro h; rw [h] at hp; exact List.Perm.eq_nil hp

/-- the tuples of the cartesian product are exactly the position-wise selections -/
theorem cartesian_exact {α : Type} (args : List (List α)) (x : List α) :
    x ∈ cartesian args ↔ List.Forall₂ (· ∈ ·) x args := mem_cartesian args x

/-- **`permutations_exact`**: `permutations(l, r)` of distinct items = every duplicate-free length-`r` sequence over `l`,
    each exactly once (distinct pattern components get distinct target components, every assignment is tried once). -/
theorem permutations_exact {α : Type} [DecidableEq α] (l : List α) (hl : l.Nodup) (r : Nat) :
    (∀ p, p ∈ permutations l r ↔ (p.length = r ∧ p.Nodup ∧ ∀ x ∈ p, x ∈ l)) ∧ (permutations l r).Nodup :=
  permutations_spec r l hl

example : lazyProduct [[1, 2, 3], [10, 20]] = [[1, 10], [2, 20], [3, 20], [1, 20], [2, 10], [3, 10]] := by decide
example : permutations [1, 2, 3] 2 = [[1, 2], [1, 3], [2, 1], [2, 3], [3, 1], [3, 2]] := by decide

/-! ## operators -/

/-- `is_substructure`, `<=`, `<`, `is_equal`, `>=`, `>` are the stated functions of non-emptiness of the (unfiltered)
    mapping lists and of the sizes. -/
theorem operators_agree (lenSelf lenOther : Nat) (r r' : List Dict) :
    (isSubstructure r = true ↔ r ≠ []) ∧
    (opLe r = isSubstructure r) ∧
    (opLt lenSelf lenOther r = true ↔ lenSelf < lenOther ∧ r ≠ []) ∧
    (isEqual lenSelf lenOther r = true ↔ lenSelf = lenOther ∧ r ≠ []) ∧
    (opGe r' = isSubstructure r') ∧
    (opGt lenSelf lenOther r' = true ↔ lenOther < lenSelf ∧ r' ≠ []) := by
  refine ⟨?_, rfl, ?_, ?_, rfl, ?_⟩
  · cases r <;> simp [isSubstructure]
  · unfold opLt isSubstructure
    by_cases h : lenSelf ≥ lenOther
    · simp [h]; omega
    · cases r <;> simp [h] <;> omega
  · unfold isEqual
    by_cases h : lenSelf = lenOther
    · cases r <;> simp [h]
    · simp [h]
  · unfold opGt isSubstructure
    by_cases h : lenSelf ≤ lenOther
    · simp [h]; omega
    · cases r' <;> simp [h] <;> omega

/-- `is_substructure` of a one-component pattern ⇔ an embedding exists (combining `component_exact` with the operator). -/
theorem is_substructure_iff_embedding (q t : Graph) (comps : List (List Step)) (cl : Closures) (hq : q.WF = true)
    (ht : t.WF = true) (hc : CompiledOK q comps cl) (lq : List Step) (hlq : lq ∈ comps) (scope : Nat → Bool)
    (atomOk : Nat → Nat → Bool) (bondOk : Nat → Nat → Nat → Nat → Bool) (hb : BondSymm bondOk) :
    isSubstructure (recMapping (envOf t lq cl scope atomOk bondOk)) = true ↔
      ∃ f, EmbedsComp q t (lq.map (·.front)) scope atomOk bondOk f := by
  rw [(operators_agree 0 0 _ []).1]
  have hx := (component_exact q t comps cl hq ht hc lq hlq scope atomOk bondOk hb).1
  constructor
  · intro hne
    obtain ⟨m, hm⟩ := List.exists_mem_of_ne_nil _ hne
    obtain ⟨f, _, emb⟩ := (hx m).1 hm
    exact ⟨f, emb⟩
  · rintro ⟨f, emb⟩
    exact List.ne_nil_of_mem ((hx _).2 ⟨f, rfl, emb⟩)

/-- **operators on the whole call**: `pattern <= target` / `is_substructure` (which consume the unfiltered call) are true
    exactly when a valid embedding exists; `<` and `is_equal` add the size comparison (`operators_agree`). -/
theorem substructure_operator_exact (p : Problem) (hq : p.q.WF = true) (ht : p.t.WF = true)
    (hpart : checkComponents p.t p.tComps = true) (hb : BondSymm p.bondOk) (hatoms : p.q.atoms ≠ [])
    (haf : p.autoFilter = false) :
    ∃ r, isoGetMapping p = some r ∧
      (isSubstructure r = true ↔ ∃ f, IsEmbedding p.q p.t (scopeFn p.scope) p.atomOk p.bondOk f) ∧
      (opLe r = true ↔ ∃ f, IsEmbedding p.q p.t (scopeFn p.scope) p.atomOk p.bondOk f) := by
  obtain ⟨comps, cl, r, _, hr, _, hmem⟩ := get_mapping_exact p hq ht hpart hb hatoms haf
  have key : isSubstructure r = true ↔ ∃ f, IsEmbedding p.q p.t (scopeFn p.scope) p.atomOk p.bondOk f := by
    rw [(operators_agree 0 0 r []).1]
    constructor
    · intro hne
      obtain ⟨m, hm⟩ := List.exists_mem_of_ne_nil _ hne
      obtain ⟨f, _, e⟩ := (hmem m).1 hm
      exact ⟨f, e⟩
    · rintro ⟨f, e⟩
      exact List.ne_nil_of_mem ((hmem _).2 ⟨f, rfl, e⟩)
  exact ⟨r, hr, key, key⟩

/-! ## non-vacuity: the hypotheses are satisfiable and the conclusions are non-trivial -/

/-- propane pattern `1-2-3` (dict order 1,2,3) -/
def qPropane : Graph := ⟨[1, 2, 3], [(1, [2]), (2, [1, 3]), (3, [2])]⟩
/-- cyclopropane target `10-11-12-10` and a butane chain `20-21-22-23` in one molecule -/
def tMixed : Graph :=
  ⟨[10, 11, 12, 20, 21, 22, 23],
   [(10, [11, 12]), (11, [10, 12]), (12, [11, 10]), (20, [21]), (21, [20, 22]), (22, [21, 23]), (23, [22])]⟩

example : qPropane.WF = true ∧ tMixed.WF = true := by decide
example : ∃ comps cl, compileQuery qPropane = some (comps, cl) ∧ checkCompiled qPropane comps cl = true ∧
    comps = [[⟨1, none⟩, ⟨2, some 1⟩, ⟨3, some 2⟩]] :=
  ⟨[[⟨1, none⟩, ⟨2, some 1⟩, ⟨3, some 2⟩]], [(2, []), (3, [])], by decide, by decide, rfl⟩
example : BondSymm (fun _ _ _ _ => true) := fun _ _ _ _ => rfl
/-- propane embeds into the butane chain (4 ways: 2 positions × 2 directions) but NOT into cyclopropane, where the images
    of atoms 1 and 3 would be joined by an additional bond — the closure-set test is what excludes it. -/
example : (recMapping (envOf tMixed [⟨1, none⟩, ⟨2, some 1⟩, ⟨3, some 2⟩] [(2, []), (3, [])] (fun _ => true)
    (fun _ _ => true) (fun _ _ _ _ => true))).length = 4 := by decide
example : getMapping (envOf tMixed [⟨1, none⟩, ⟨2, some 1⟩, ⟨3, some 2⟩] [(2, []), (3, [])] (fun _ => true)
    (fun _ _ => true) (fun _ _ _ _ => true)) =
    some (recMapping (envOf tMixed [⟨1, none⟩, ⟨2, some 1⟩, ⟨3, some 2⟩] [(2, []), (3, [])] (fun _ => true)
    (fun _ _ => true) (fun _ _ _ _ => true))) := by decide
example : (autoFilter [[(1, 20), (2, 21)], [(1, 21), (2, 20)], [(1, 21), (2, 22)]]).length = 2 := by decide

/-- the whole call on the same example: hypotheses of `iso_single_exact` hold, 4 embeddings without scope, 2 inside the scope
    `{20, 21, 22}`, none inside the empty scope -/
def pMixed (scope : Option (List Nat)) : Problem :=
  { q := qPropane, t := tMixed, tComps := [[10, 11, 12], [20, 21, 22, 23]], scope := scope, autoFilter := false,
    atomOk := fun _ _ => true, bondOk := fun _ _ _ _ => true }
example : checkComponents tMixed [[10, 11, 12], [20, 21, 22, 23]] = true := by decide
example : (isoGetMapping (pMixed none)).map List.length = some 4 := by decide
example : (isoGetMapping (pMixed (some [20, 21, 22]))).map List.length = some 2 := by decide
example : (isoGetMapping (pMixed (some []))).map List.length = some 0 := by decide

/-- a two-component pattern (two isolated atoms) on the two-component target: 3·4·2 = 24 embeddings, the two atoms always
    in different target components; with the scope `{10, 20, 21}` exactly 2·1·2 = 4 of them remain -/
def pTwo (scope : Option (List Nat)) : Problem :=
  { q := ⟨[1, 2], [(1, []), (2, [])]⟩, t := tMixed, tComps := [[10, 11, 12], [20, 21, 22, 23]], scope := scope,
    autoFilter := false, atomOk := fun _ _ => true, bondOk := fun _ _ _ _ => true }
example : (isoGetMapping (pTwo none)).map List.length = some 24 := by decide
example : (isoGetMapping (pTwo (some [10, 20, 21]))).map List.length = some 4 := by decide

/-! ### the stereo post-filter on concrete values (hypotheses of the stereo theorems are satisfiable) -/

section stereoExamples
open ChythonModel.Model.Stereo ChythonModel.Spec ChythonModel.Spec.StereoMatch

/-- the star: centre 2 with neighbours 1, 3, 4, 5 — query `[A][C@]([A])([A])[A]` and target `F[C@](Cl)(Br)I` share the shape -/
def qStar : Graph := ⟨[1, 2, 3, 4, 5], [(1, [2]), (2, [1, 3, 4, 5]), (3, [2]), (4, [2]), (5, [2])]⟩

def pStar (af : Bool) : Problem :=
  { q := qStar, t := qStar, tComps := [[1, 2, 3, 4, 5]], scope := none, autoFilter := af,
    atomOk := fun u x => u != 2 || x == 2, bondOk := fun _ _ _ _ => true }

/-- `[C@]` on atom 2 -/
def qmStar : QMarks := { atom := fun u => if u == 2 then some true else none, bond := fun _ _ => none }

/-- the target centre 2 carries label `s` relative to the neighbour order (1, 3, 4, 5) -/
def tlStar (s : Bool) : TLabels :=
  { atom := fun x => if x == 2 then some s else none, bond := fun _ _ => some none, tetra := [(2, [1, 3, 4, 5])],
    allenes := [], alleneTerm := [], cisTrans := [], ctTerm := [], ctCenter := [], isH := fun _ => false }

example : (pStar false).q.WF = true ∧ (pStar false).t.WF = true ∧ checkComponents qStar [[1, 2, 3, 4, 5]] = true ∧
    BondSymm (pStar false).bondOk ∧ (pStar false).q.atoms ≠ [] := by
  refine ⟨by decide, by decide, by decide, fun _ _ _ _ => rfl, by decide⟩

/-- 24 embeddings, 12 pass the mark (the even arrangements for label `true`) -/
example : (isoGetMapping (pStar false)).map List.length = some 24 ∧
    (queryGetMapping (pStar false) qmStar (tlStar true)).map (·.map List.length) = some (.ok 12) := by
  refine ⟨by decide, by decide⟩

/-- identity arrangement passes for label `true`, the transposition 1↔3 fails — and the other way round for the mirror image -/
example : stereoFilter qStar qmStar (tlStar true)
      [[(1, 1), (2, 2), (3, 3), (4, 4), (5, 5)], [(1, 3), (2, 2), (3, 1), (4, 4), (5, 5)]] =
    .ok [[(1, 1), (2, 2), (3, 3), (4, 4), (5, 5)]] ∧
    stereoFilter qStar qmStar (tlStar false)
      [[(1, 1), (2, 2), (3, 3), (4, 4), (5, 5)], [(1, 3), (2, 2), (3, 1), (4, 4), (5, 5)]] =
    .ok [[(1, 3), (2, 2), (3, 1), (4, 4), (5, 5)]] := by
  refine ⟨by decide, by decide⟩

/-- hypotheses of `mark_tetra_four_listed` on the star (`env = [3, 1, 4, 5]`, an odd arrangement of `[1, 3, 4, 5]`) -/
example : ([(1, 3), (2, 2), (3, 1), (4, 4), (5, 5)] : Dict).lookup 2 = some 2 ∧ (tlStar true).atom 2 = some true ∧
    (tlStar true).tetra.lookup 2 = some [1, 3, 4, 5] ∧ [1, 3, 4, 5].Nodup ∧
    imagesOf [(1, 3), (2, 2), (3, 1), (4, 4), (5, 5)] (qStar.nbrs 2) = .ok [3, 1, 4, 5] ∧
    [3, 1, 4, 5].Perm [1, 3, 4, 5] ∧ tetraAgrees [1, 3, 4, 5] [3, 1, 4, 5] true true = false := by
  refine ⟨by decide, by decide, by decide, by decide, by decide, by decide, by decide⟩

/-- a query without marks: nothing is removed, whatever the labels -/
example : stereoFilter qStar { atom := fun _ => none, bond := fun _ _ => none } (tlStar true)
    [[(1, 1), (2, 2), (3, 3), (4, 4), (5, 5)], [(1, 3), (2, 2), (3, 1), (4, 4), (5, 5)]] =
    .ok [[(1, 1), (2, 2), (3, 3), (4, 4), (5, 5)], [(1, 3), (2, 2), (3, 1), (4, 4), (5, 5)]] := by decide

/-- a marked centre that lists only two neighbours: the translation raises `ValueError` (as the real code does) -/
example : stereoFilter ⟨[1, 2, 3], [(1, [2]), (2, [1, 3]), (3, [2])]⟩ qmStar (tlStar true) [[(1, 1), (2, 2), (3, 3)]] =
    .error .valueError := by decide

/-- `F/C=C/F` (atoms 1 F, 2 C, 3 C, 4 F), label `s` on the double bond relative to the substituent pair (1, 4) -/
def qButene : Graph := ⟨[1, 2, 3, 4], [(1, [2]), (2, [1, 3]), (3, [2, 4]), (4, [3])]⟩

def tlButene (s : Bool) : TLabels :=
  { atom := fun _ => none, bond := fun x y => if (x, y) = (2, 3) ∨ (x, y) = (3, 2) then some (some s) else some none,
    tetra := [], allenes := [], alleneTerm := [], cisTrans := [((2, 3), ⟨1, 4, none, none⟩)],
    ctTerm := [(2, 2, 3), (3, 2, 3)], ctCenter := [(2, 2, 3), (3, 2, 3)], isH := fun _ => false }

/-- hypotheses of `mark_double_bond_slots` on the identity mapping of `F/C=C/F`: substituents in slots 0 and 1 -/
example : pickNeighbours qButene [(1, 1), (2, 2), (3, 3), (4, 4)] (reverseDict [(1, 1), (2, 2), (3, 3), (4, 4)])
      ⟨1, 4, none, none⟩ 2 3 = .ok (1, 4) ∧ centralLabel (tlButene true) 2 = some true ∧
    IsSlot ⟨1, 4, none, none⟩ (tlButene true).isH 0 1 ∧ IsSlot ⟨1, 4, none, none⟩ (tlButene true).isH 1 4 ∧
    bondStep qButene (tlButene true) [(1, 1), (2, 2), (3, 3), (4, 4)] 2 3 true = .ok (endsAgrees 0 1 true true) ∧
    bondStep qButene (tlButene false) [(1, 1), (2, 2), (3, 3), (4, 4)] 2 3 true = .ok false := by
  refine ⟨by decide, by decide, rfl, rfl, by decide, by decide⟩

example : EndsWF ⟨1, 4, none, none⟩ (fun _ => false) :=
  ⟨rfl, rfl, by simp, by simp, by decide, by simp, by simp, by simp, by simp, by simp⟩

/-! ### invariance under automorphisms of the query -/

/-- **rearranged neighbours**: two (mapping, marked atom) pairs that reach the same labelled centre and list its four neighbours
    as `e1` resp. `e2` (e.g. `m2 = m1 ∘ σ` for an automorphism `σ` of the query, `n1 = σ n2`): the two steps give DIFFERENT answers
    iff exactly one of "the marks differ", "`e2` is an odd rearrangement of `e1`" holds.  In particular an automorphism that
    rearranges the neighbours evenly and keeps the mark, or oddly and inverts it, does not change the outcome. -/
theorem mark_tetra_rearrangement (q : Graph) (tl : TLabels) (m1 m2 : Dict) (n1 n2 x : Nat) (mark1 mark2 s : Bool)
    (a b c d : Nat) (e1 e2 : List Nat) (hm1 : m1.lookup n1 = some x) (hm2 : m2.lookup n2 = some x) (hl : tl.atom x = some s)
    (ht : tl.tetra.lookup x = some [a, b, c, d]) (hnd : [a, b, c, d].Nodup)
    (he1 : imagesOf m1 (q.nbrs n1) = .ok e1) (he2 : imagesOf m2 (q.nbrs n2) = .ok e2)
    (hp1 : e1.Perm [a, b, c, d]) (hp2 : e2.Perm [a, b, c, d]) :
    ∃ r1 r2, atomStep q tl m1 n1 mark1 = .ok r1 ∧ atomStep q tl m2 n2 mark2 = .ok r2 ∧
      ((r1 != r2) = ((mark1 != mark2) ^^ relOdd e1 e2)) := by
  obtain ⟨t1, t2, h1, h2, hodd⟩ := translateTetra_change_iff_odd a b c d hnd e1 e2 hp1 hp2 tl.isH none s
  refine ⟨t1 == mark1, t2 == mark2, ?_, ?_, ?_⟩
  · rw [atomStep_tetra q tl m1 n1 x mark1 s _ e1 hm1 hl ht he1, h1]
  · rw [atomStep_tetra q tl m2 n2 x mark2 s _ e2 hm2 hl ht he2, h2]
  · rw [← hodd]
    cases t1 <;> cases t2 <;> cases mark1 <;> cases mark2 <;> rfl

/-- **the filter is invariant under automorphisms of the query that preserve marks**: let `σ` permute the query atoms and `β`
    the query bonds, carrying marked elements to marked elements, such that every step on `m'` (think `m ∘ σ`) passes iff the
    step on the corresponding element of `m` passes (for tetrahedral marks this is `mark_tetra_rearrangement`: even
    rearrangement with the same mark, odd one with the inverted mark).  Then `m'` is yielded iff `m` is — whatever the order in
    which the loops visit the atoms and bonds. -/
theorem keep_invariant_under_automorphism (q : Graph) (qm : QMarks) (tl : TLabels) (m m' : Dict)
    (σ : Nat → Nat) (β : Nat × Nat → Nat × Nat)
    (hσ : ∀ n ∈ q.atoms, σ n ∈ q.atoms) (hσs : ∀ n ∈ q.atoms, ∃ k ∈ q.atoms, σ k = n)
    (hβ : ∀ b ∈ bondsOf q, β b ∈ bondsOf q) (hβs : ∀ b ∈ bondsOf q, ∃ k ∈ bondsOf q, β k = b)
    (hma : ∀ n ∈ q.atoms, (qm.atom (σ n)).isSome = (qm.atom n).isSome)
    (hmb : ∀ b ∈ bondsOf q, (qm.bond (β b).1 (β b).2).isSome = (qm.bond b.1 b.2).isSome)
    (hsa : ∀ n ∈ q.atoms, ∀ mark mark', qm.atom n = some mark → qm.atom (σ n) = some mark' →
      (atomStep q tl m' n mark = .ok true ↔ atomStep q tl m (σ n) mark' = .ok true))
    (hsb : ∀ b ∈ bondsOf q, ∀ mark mark', qm.bond b.1 b.2 = some mark → qm.bond (β b).1 (β b).2 = some mark' →
      (bondStep q tl m' b.1 b.2 mark = .ok true ↔ bondStep q tl m (β b).1 (β b).2 mark' = .ok true)) :
    keepMapping q qm tl m' = .ok true ↔ keepMapping q qm tl m = .ok true := by
  rw [keep_iff_every_mark_passes, keep_iff_every_mark_passes]
  constructor
  · rintro ⟨ha, hb⟩
    refine ⟨fun n hn mark' hm => ?_, fun b hbm mark' hm => ?_⟩
    · obtain ⟨k, hk, rfl⟩ := hσs n hn
      have := hma k hk
      rw [hm] at this
      obtain ⟨mark, hmk⟩ := Option.isSome_iff_exists.1 this.symm
      exact (hsa k hk mark mark' hmk hm).1 (ha k hk mark hmk)
    · obtain ⟨k, hk, rfl⟩ := hβs b hbm
      have := hmb k hk
      rw [hm] at this
      obtain ⟨mark, hmk⟩ := Option.isSome_iff_exists.1 this.symm
      exact (hsb k hk mark mark' hmk hm).1 (hb k hk mark hmk)
  · rintro ⟨ha, hb⟩
    refine ⟨fun n hn mark hm => ?_, fun b hbm mark hm => ?_⟩
    · have := hma n hn
      rw [hm] at this
      obtain ⟨mark', hmk⟩ := Option.isSome_iff_exists.1 this
      exact (hsa n hn mark mark' hm hmk).2 (ha (σ n) (hσ n hn) mark' hmk)
    · have := hmb b hbm
      rw [hm] at this
      obtain ⟨mark', hmk⟩ := Option.isSome_iff_exists.1 this
      exact (hsb b hbm mark mark' hm hmk).2 (hb (β b) (hβ b hbm) mark' hmk)

/-- the star again: `m' = m ∘ σ` for the three-cycle `σ = (1 3 4)` of the neighbours (an automorphism of the query that keeps the
    mark): the listed orders `[3, 4, 1, 5]` and `[1, 3, 4, 5]` are an even rearrangement of each other and both pass -/
example : imagesOf [(1, 3), (2, 2), (3, 4), (4, 1), (5, 5)] (qStar.nbrs 2) = .ok [3, 4, 1, 5] ∧
    relOdd [1, 3, 4, 5] [3, 4, 1, 5] = false ∧
    keepMapping qStar qmStar (tlStar true) [(1, 3), (2, 2), (3, 4), (4, 1), (5, 5)] = .ok true ∧
    keepMapping qStar qmStar (tlStar true) [(1, 1), (2, 2), (3, 3), (4, 4), (5, 5)] = .ok true := by
  refine ⟨by decide, by decide, by decide, by decide⟩

end stereoExamples

end ChythonModel.Props.C07
