import ChythonModel.Proofs.C03Front
/-!
# C03 — SMILES reader builds exactly the molecule the text denotes, rejects the rest

The theorems are about the functions the driver `Drivers/C03.lean` runs: `tokenizeRaw` (`_tokenize`), `smilesTokenize`
(`smiles_tokenize`), `parse` (`parser`), `smiles` (`smiles()` with default arguments), over tables regenerated from
/repo (`Gen/C03Tables.lean`).  Python operations that can raise something other than the library's ValueError
family (`list.pop()` on an empty list, `list[i]`, `dict[k]`, `''.join(None)` …) are `Err.crash` in the model, so
"rejects with the library's error and never with an unrelated exception" is the statement that no input reaches
an `Err.crash`.
-/
namespace ChythonModel.Props.C03
open ChythonModel.Model.C03 ChythonModel.Gen.C03 ChythonModel.Proofs.C03

/-! ## clause "never … an unrelated exception" -/

/-- Full statement: for every input string, `smiles()` either builds something or raises an error of the library's
    ValueError family. (Before the `fix:` commits listed in known_findings/C03.json this was false: `(`, `;`, `;@`,
    `C-;@C`, `C!~C`, `C |^1:5|`, `C>>C |^1:7|` were counterexamples.) -/
def NoCrash : Prop := ∀ (s : Str) (k : String), smiles s ≠ .error (.crash k)

theorem no_crash : NoCrash := fun s k => smiles_nocrash s k

/-- hypotheses-are-satisfiable examples: an accepted string and a rejected one -/
example : ∃ r, smiles [67, 49, 67, 67, 49] = .ok r := ⟨_, rfl⟩                       -- C1CC1
example : smiles [40] = .error (.lib "IncorrectSmiles" "not atom started") := rfl     -- (

/-- `_tokenize` (shared with the SMARTS reader): every string, the empty one included, yields a token list whose
    (type, value) pairs have one of the twelve shapes the rest of the reader understands, or a library error -/
theorem tokenizer_total (s : Str) :
    (∃ l, tokenizeRaw s = .ok l ∧ ∀ t ∈ l, shaped t = true) ∨ (∃ c m, tokenizeRaw s = .error (.lib c m)) := by
  have h := tokenizeRaw_good s
  cases hk : tokenizeRaw s with
  | ok l => rw [hk] at h; exact Or.inl ⟨l, rfl, h⟩
  | error e =>
    rw [hk] at h
    cases e with
    | lib c m => exact Or.inr ⟨c, m, rfl⟩
    | crash k => cases h

/-- a non-empty string is never tokenized to the empty list (which `parser` would answer with IndexError) -/
theorem tokenizer_nonempty (s : Str) (l : List RTok) (hs : s ≠ []) (h : tokenizeRaw s = .ok l) : l ≠ [] :=
  tokenizeRaw_nonempty s l hs h

/-- `smiles_tokenize` passes only atoms, bonds, parentheses, dots, closure numbers and direction marks on to the
    parser; query tokens (bond lists, ring-bond marks) are rejected as SMARTS -/
theorem smiles_tokenize_total (s : Str) (hs : s ≠ []) :
    (∃ l, smilesTokenize s = .ok l ∧ l ≠ [] ∧ ∀ x ∈ l, noOther x = true) ∨
    (∃ c m, smilesTokenize s = .error (.lib c m)) := by
  rcases smilesTokenize_good s hs with h | ⟨e, he, hc⟩
  · exact Or.inl h
  · cases e with
    | lib c m => exact Or.inr ⟨c, m, he⟩
    | crash k => cases hc

/-- the bracket-atom parser can only fail with IncorrectSmiles -/
theorem atom_parse_total (s : Str) (k : String) : atomParse s ≠ .error (.crash k) := atomParse_nocrash s k

/-! ## `parser`: well-formedness of what it returns -/

/-- for every token list `smiles_tokenize` can produce: if `parser` accepts, at least one atom was read, every bond
    joins two existing atoms, the branch stack and the ring-closure table are empty and no bond is pending -/
theorem parser_wf (strong : Bool) (toks : List Tok) (st : PState) (hne : toks ≠ [])
    (hn : ∀ t ∈ toks, noOther t = true) (h : parse strong toks = .ok st) :
    0 < st.atoms.length ∧ st.types.length = st.atoms.length ∧ st.atomNum = st.atoms.length ∧
    (∀ b ∈ st.bonds, b.1 < st.atoms.length ∧ b.2.1 < st.atoms.length) ∧
    st.stack = [] ∧ st.cycles = [] ∧ st.previous = none := by
  have := parse_good strong toks hne hn
  rw [h] at this
  obtain ⟨inv, h1, h2, h3⟩ := this
  exact ⟨inv.pos, inv.types, inv.num, inv.bonds, h1, h2, h3⟩

example : ∃ st, parse false [.atom 0 { element := [67] }, .cyc 1, .atom 0 { element := [67] }, .cyc 1] = .ok st :=
  ⟨_, rfl⟩

/-- `parser` itself cannot raise anything but IncorrectSmiles on such token lists (either `strong_cycle` mode) -/
theorem parser_no_crash (strong : Bool) (toks : List Tok) (hne : toks ≠ []) (hn : ∀ t ∈ toks, noOther t = true)
    (k : String) : parse strong toks ≠ .error (.crash k) := by
  have := parse_good strong toks hne hn
  intro h
  rw [h] at this
  cases this

/-! ## CXSMILES / reaction front end -/

/-- fragment contraction of a reaction never indexes outside the molecule lists and never produces an empty
    molecule string, whatever fragment groups the CXSMILES block names -/
theorem contraction_safe (R G P : List Str) (hR : ∀ x ∈ R, x ≠ []) (hG : ∀ x ∈ G, x ≠ []) (hP : ∀ x ∈ P, x ≠ [])
    (ct : List (List Nat)) (hct : ∀ c ∈ ct, c ≠ []) :
    ∃ R' G' P', applyContract R G P ct = .ok (R', G', P') ∧ (∀ x ∈ R', x ≠ []) ∧ (∀ x ∈ G', x ≠ []) ∧
      (∀ x ∈ P', x ≠ []) := applyContract_good R G P hR hG hP ct hct

example : applyContract [[67], [67]] [] [] [[0, 1]] = .ok ([[67, 46, 67]], [], []) := rfl   -- C.C>> |f:0.1|

/-! ## regenerated tables (G + P) -/

/-- every charge spelling of `charge_dict` is within the range the element constructor accepts -/
theorem charge_table_in_range : ∀ p ∈ chargeDict, -4 ≤ p.2 ∧ p.2 ≤ 4 := by decide

/-- the bond symbols `_tokenize` dispatches on are exactly the keys of `replace_dict` (no KeyError) -/
theorem bond_chars_are_keys : ∀ c ∈ bondChars, (lookupNat c replaceDict).isSome = true := by decide

/-- `atom_re` has six capture groups and the element group is mandatory (what `_atom_parse` unpacks) -/
theorem atom_re_shape : atomRe.length = 6 ∧ (atomRe[1]?).map (fun g => g.1) = some false := by decide

end ChythonModel.Props.C03
