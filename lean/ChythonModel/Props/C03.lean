import ChythonModel.Model.C03Front
/-!
# C03 — SMILES reader builds exactly the molecule the text denotes, rejects the rest
-/
namespace ChythonModel.Props.C03
open ChythonModel.Model.C03 ChythonModel.Gen.C03

/-- every charge spelling of the table is within the range the element constructor accepts -/
theorem charge_table_in_range : ∀ p ∈ chargeDict, -4 ≤ p.2 ∧ p.2 ≤ 4 := by decide

end ChythonModel.Props.C03
